/-!
  Code-shaped model of the block addressing of /repo/jpeg/baseline/decoder.go
  (parseSOF: comp.width/height/data; decodeScan: MCU/block walk; decodeBlock: blockOffset + skip rule;
   convertToPixels: the sample read for pixel (x,y)), of decodeScan's scan-collection loop (restart markers)
  and of the Gray.Pix copy in /repo/jpeg/extended/encoder_simple.go DecodeSimple.
  All quantities are non-negative in the Go code (dimensions ≥ 1, sampling factors 1..4), so `Nat` is used;
  Go `/` on non-negative ints is `Nat` division.
-/
namespace JpegAddr

structure Comp where
  H : Nat
  V : Nat
deriving DecidableEq, Repr

structure Frame where
  w : Nat
  h : Nat
  comps : List Comp
deriving Repr

/-- standard.DivCeil -/
def divCeil (a b : Nat) : Nat := (a + b - 1) / b

/-- parseSOF: `maxH, maxV := 1, 1; if comp.H > maxH { maxH = comp.H }` -/
def maxH (f : Frame) : Nat := f.comps.foldl (fun m c => if c.H > m then c.H else m) 1
def maxV (f : Frame) : Nat := f.comps.foldl (fun m c => if c.V > m then c.V else m) 1

/-- decodeScan: `mcuCols := DivCeil(d.width, d.mcuWidth)` with `d.mcuWidth = maxH*8` -/
def mcuCols (f : Frame) : Nat := divCeil f.w (maxH f * 8)
def mcuRows (f : Frame) : Nat := divCeil f.h (maxV f * 8)

/-- parseSOF (since fix 2d44354): `comp.width = mcuCols * comp.H`, `comp.height = mcuRows * comp.V` (in blocks);
    `comp.data = make([]byte, comp.width*comp.height*64)` -/
def compWidth (f : Frame) (c : Comp) : Nat := mcuCols f * c.H
def compHeight (f : Frame) (c : Comp) : Nat := mcuRows f * c.V
def dataLen (f : Frame) (c : Comp) : Nat := compWidth f c * compHeight f c * 64

/-- parseSOF BEFORE fix 2d44354 (kept as the regression anchor of finding c15-baseline-dec-block-alias):
    `comp.width = DivCeil(d.width*comp.H, maxH*8)` (in blocks) -/
def compWidthOld (f : Frame) (c : Comp) : Nat := divCeil (f.w * c.H) (maxH f * 8)
def compHeightOld (f : Frame) (c : Comp) : Nat := divCeil (f.h * c.V) (maxV f * 8)
/-- `comp.data = make([]byte, comp.width*comp.height*64)` -/
def dataLenOld (f : Frame) (c : Comp) : Nat := compWidthOld f c * compHeightOld f c * 64

/-- decodeScan: the (blockX, blockY) arguments of decodeBlock for one component, in decode order -/
def walk (f : Frame) (c : Comp) : List (Nat × Nat) :=
  (List.range (mcuRows f)).flatMap fun mcuY =>
    (List.range (mcuCols f)).flatMap fun mcuX =>
      (List.range c.V).flatMap fun v =>
        (List.range c.H).map fun h => (mcuX * c.H + h, mcuY * c.V + v)

/-- decodeBlock: `blockOffset := (blockY*comp.width + blockX) * 64` -/
def blockOffset (cw bx by' : Nat) : Nat := (by' * cw + bx) * 64

/-- decodeBlock: `if blockOffset+63 >= len(comp.data) { return nil }` — the block is skipped -/
def writeOffset (cw len : Nat) (b : Nat × Nat) : Option Nat :=
  let off := blockOffset cw b.1 b.2
  if off + 63 ≥ len then none else some off

/-- convertToPixels: address of the sample shownOld at pixel (x,y) for component c, the scaling divisors
    (`maxH`, `maxV` of the code) being parameters -/
def readAddrWith (h0 v0 cw ch : Nat) (c : Comp) (x y : Nat) : Option Nat :=
  let sx := x * c.H / h0
  let sy := y * c.V / v0
  let bx := sx / 8
  let by' := sy / 8
  if bx < cw ∧ by' < ch then some (blockOffset cw bx by' + (sy % 8) * 8 + sx % 8) else none

/-- convertToPixels before fix 2d44354 scaled by `d.components[0].H/V`; for one component there is no scaling -/
def readAddrOld (f : Frame) (cw ch : Nat) (c : Comp) (x y : Nat) : Option Nat :=
  let h0 := match f.comps with | c0 :: _ :: _ => c0.H | _ => c.H
  let v0 := match f.comps with | c0 :: _ :: _ => c0.V | _ => c.V
  readAddrWith h0 v0 cw ch c x y

/-- ordinal, in the component's decode order, of the last block whose 64 samples cover `addr` -/
def lastWriter (f : Frame) (cw len : Nat) (c : Comp) (addr : Nat) : Option Nat :=
  ((walk f c).zipIdx.filter (fun p =>
      match writeOffset cw len p.1 with
      | some off => decide (off ≤ addr ∧ addr < off + 64)
      | none => false)).getLast?.map (·.2)

/-- what the decoder shows at pixel (x,y): ordinal of the data unit, or -1 (zero-initialised buffer) -/
def shownWith (f : Frame) (cw ch : Nat) (c : Comp) (x y : Nat) : Int :=
  match readAddrOld f cw ch c x y with
  | none => -1
  | some a => match lastWriter f cw (cw * ch * 64) c a with
    | none => -1
    | some k => k

/-- the decoder BEFORE fix 2d44354 -/
def shownOld (f : Frame) (c : Comp) (x y : Nat) : Int := shownWith f (compWidthOld f c) (compHeightOld f c) c x y
/-- what baseline.Decode shows at pixel (x,y) (current code): whole MCUs are allocated and convertToPixels scales
    by `d.mcuWidth/8 = maxH`, `d.mcuHeight/8 = maxV` -/
def shown (f : Frame) (c : Comp) (x y : Nat) : Int :=
  let cw := mcuCols f * c.H
  let ch := mcuRows f * c.V
  match readAddrWith (maxH f) (maxV f) cw ch c x y with
  | none => -1
  | some a => match lastWriter f cw (cw * ch * 64) c a with
    | none => -1
    | some k => k

/-- T.81 A.1.1 + A.2.3: with replication up-sampling pixel (x,y) shows component sample
    (⌊x·H/Hmax⌋, ⌊y·V/Vmax⌋); it lies in data unit (bx,by) = (sx/8, sy/8), which is decoded in MCU
    (bx/H, by/V) at position (bx%H, by%V): its ordinal in the component's interleaved decode order -/
def specOrdinal (f : Frame) (c : Comp) (x y : Nat) : Nat :=
  let bx := x * c.H / maxH f / 8
  let by' := y * c.V / maxV f / 8
  ((by' / c.V) * mcuCols f + bx / c.H) * (c.H * c.V) + (by' % c.V) * c.H + bx % c.H

/-- SOF0 acceptance of the sampling factors (parseSOF) -/
def validFrame (f : Frame) : Bool :=
  decide (0 < f.w) && decide (0 < f.h) && (f.comps.length == 1 || f.comps.length == 3) &&
  f.comps.all (fun c => decide (1 ≤ c.H ∧ c.H ≤ 4 ∧ 1 ≤ c.V ∧ c.V ≤ 4))

/-! ## parseSOF since fix PENDING:c15-grey-sampling-factors -/

/-- `if numComponents == 1 { comp.H, comp.V = 1, 1 }`: the frame the rest of the decoder works with (MCU size,
    component buffers, scan walk, convertToPixels).  `validFrame` is checked on the declared factors, before this. -/
def parsedFrame (f : Frame) : Frame :=
  match f.comps with
  | [_] => { f with comps := [⟨1, 1⟩] }
  | _ => f

/-! ## decodeScan since fix PENDING:c15-noninterleaved-scans: a scan with ONE of SEVERAL components -/

/-- `mcuCols = DivCeil(DivCeil(d.width*comp.H, d.mcuWidth/8), 8)` (`d.mcuWidth/8 = maxH`), likewise the rows -/
def niCols (f : Frame) (c : Comp) : Nat := divCeil (divCeil (f.w * c.H) (maxH f)) 8
def niRows (f : Frame) (c : Comp) : Nat := divCeil (divCeil (f.h * c.V) (maxV f)) 8

/-- the (blockX, blockY) arguments of decodeBlock in a non-interleaved scan: `nh, nv = 1, 1`, one block per MCU -/
def walkNI (f : Frame) (c : Comp) : List (Nat × Nat) :=
  (List.range (niRows f c)).flatMap fun mcuY => (List.range (niCols f c)).map fun mcuX => (mcuX, mcuY)

/-- `lastWriter` over an arbitrary decode order -/
def lastWriterOn (wk : List (Nat × Nat)) (cw len addr : Nat) : Option Nat :=
  (wk.zipIdx.filter (fun p =>
      match writeOffset cw len p.1 with
      | some off => decide (off ≤ addr ∧ addr < off + 64)
      | none => false)).getLast?.map (·.2)

/-- what baseline.Decode shows at pixel (x,y) for a component coded in a scan of its own (buffers and
    convertToPixels as in `shown`; only the decode order differs) -/
def shownNI (f : Frame) (c : Comp) (x y : Nat) : Int :=
  let cw := mcuCols f * c.H
  let ch := mcuRows f * c.V
  match readAddrWith (maxH f) (maxV f) cw ch c x y with
  | none => -1
  | some a => match lastWriterOn (walkNI f c) cw (cw * ch * 64) a with
    | none => -1
    | some k => k

/-- T.81 A.2.3, non-interleaved: the component's data units are coded in raster order over its own
    ⌈xi/8⌉ × ⌈yi/8⌉ grid, xi = ⌈X·Hi/Hmax⌉, yi = ⌈Y·Vi/Vmax⌉ -/
def specOrdinalNI (f : Frame) (c : Comp) (x y : Nat) : Nat :=
  let bx := x * c.H / maxH f / 8
  let by' := y * c.V / maxV f / 8
  by' * divCeil (divCeil (f.w * c.H) (maxH f)) 8 + bx

/-! ## decodeScan's scan collection loop -/

def isRST (b : Nat) : Bool := 0xD0 ≤ b && b ≤ 0xD7

/-- bytes handed to the Huffman decoder when the restart markers are ignored (no DRI): stuffed FF00 kept, FF RSTn
    dropped, stop at any other marker, a trailing lone FF kept.  The loop reads one byte at a time; `ff` says that an
    0xFF has been read and the byte that classifies it is still to come.  Since fix PENDING:c15-fill-bytes-before-marker
    (`for err == nil && b2 == 0xFF { b2, err = reader.ReadByte() }`) further 0xFF bytes in that state are fill bytes
    (T.81 B.1.1.2) and are skipped; if the data ends inside them a single FF is kept, as for a lone trailing FF. -/
def scanFilterGo : List Nat → Bool → List Nat
  | [], ff => if ff then [0xFF] else []
  | b :: rest, false => if b = 0xFF then scanFilterGo rest true else b :: scanFilterGo rest false
  | b :: rest, true =>
    if b = 0xFF then scanFilterGo rest true
    else if b = 0x00 then 0xFF :: 0x00 :: scanFilterGo rest false
    else if isRST b then scanFilterGo rest false
    else []
def scanFilter (s : List Nat) : List Nat := scanFilterGo s false

/-- every FF of the list is followed by 00 (entropy-coded data as T.81 B.1.1.5 prescribes) -/
def wellStuffed : List Nat → Bool
  | [] => true
  | [b] => b != 0xFF
  | b :: b2 :: rest => if b = 0xFF then b2 == 0 && wellStuffed rest else wellStuffed (b2 :: rest)

/-! ## decodeScan since fix 4dc30ed: restart intervals -/

/-- the collection loop: `cur` = scanData so far, `acc` = closed intervals, `ff` as in `scanFilterGo`.  FF00 kept,
    FF RSTn closes the current interval, any other marker ends the scan, 0xFF bytes between the FF and the byte that
    classifies it are fill bytes and skipped (since fix PENDING:c15-fill-bytes-before-marker), a trailing lone FF is kept -/
def scanSplitGo : List Nat → Bool → List Nat → List (List Nat) → List (List Nat)
  | [], ff, cur, acc => acc ++ [if ff then cur ++ [0xFF] else cur]
  | b :: rest, false, cur, acc =>
    if b = 0xFF then scanSplitGo rest true cur acc else scanSplitGo rest false (cur ++ [b]) acc
  | b :: rest, true, cur, acc =>
    if b = 0xFF then scanSplitGo rest true cur acc
    else if b = 0x00 then scanSplitGo rest false (cur ++ [0xFF, 0x00]) acc
    else if isRST b then scanSplitGo rest false [] (acc ++ [cur])
    else acc ++ [cur]
def scanSplitAux (s cur : List Nat) (acc : List (List Nat)) : List (List Nat) := scanSplitGo s false cur acc

/-- `intervals`; without DRI (`restartInt == 0`) they are joined again (RSTn ignored, as before the fix) -/
def scanIntervals (restartInt : Nat) (s : List Nat) : List (List Nat) :=
  let iv := scanSplitAux s [] []
  if restartInt = 0 then [iv.flatten] else iv

/-- the MCU loop's bookkeeping: before MCU number n (0-based) `if restartInt > 0 && mcuCount > 0 &&
    mcuCount%restartInt == 0 { interval++; reset DC predictors }`; returns (interval index used for MCU n,
    whether the predictors were reset just before it) -/
def mcuInterval (restartInt : Nat) : Nat → Nat × Bool
  | 0 => (0, false)
  | n + 1 =>
    let prev := (mcuInterval restartInt n).1
    if restartInt > 0 ∧ (n + 1) % restartInt = 0 then (prev + 1, true) else (prev, false)

/-! ## DecodeSimple, image.Gray branch since fix 5946dc5: row-by-row copy -/

/-- source index in Pix and destination index for sample (x,y): `rowStart = PixOffset(0, y) = y*Stride`,
    `copy(pixelData[y*width:(y+1)*width], Pix[rowStart:rowStart+width])` -/
def repackSrc (stride x y : Nat) : Nat := y * stride + x
def repackDst (w x y : Nat) : Nat := y * w + x

/-! ## DecodeSimple, image.Gray branch BEFORE fix 5946dc5: `pixelData = append([]byte(nil), typed.Pix...)` -/

/-- length of `Pix` of the sub-image image/jpeg returns for a w×h grey frame: the decoder allocates whole
    8×8 blocks (`image.NewGray(8*mxx, 8*myy)`) and `SubImage` keeps `Pix[0:]` to the end of the buffer.
    (Model of image/jpeg behaviour, observed by the correspondence op `jpg-repack-len`.) -/
def pixLen (w h : Nat) : Nat := (8 * divCeil w 8) * (8 * divCeil h 8)

end JpegAddr
