import GdcVerif.Model.JpegAc
/-!
  The baseline scan at the level of Huffman SYMBOLS (codes abstracted): block order, DC prediction, AC run-length.
  * encoder: baseline.Encoder.encodeGrayscale / encodeRGB walk the blocks in raster order, one block per component and
    MCU (grey: component 0 only; RGB 4:4:4: Y, Cb, Cr of the same block position); encodeBlock emits
    `dcDiff := coef[0] - *dcPred; *dcPred = coef[0]; (cat, bits) := EncodeCategory(dcDiff)` and then the AC symbols
    (`JpegAc.encAC`).  The scan is therefore a list of (component, block) in MCU order.
  * decoder: baseline.Decoder.decodeScan walks the same (component, block) sequence (for H = V = 1 the walk of
    `JpegAddr.walk` is raster order); decodeBlock does `diff := ReceiveExtend(s); comp.dcPred += diff;
    coef[0] = comp.dcPred` and then the AC loop (`JpegAc.decAC`).  Restart intervals are not emitted by the library's
    encoders (the decoder side is `JpegAddr.mcuInterval`).
  A block is (DC coefficient, 63 AC coefficients in zig-zag order), both quantised.
-/
namespace JpegScan
open Dct JpegAc

abbrev Block := Int × List Int

/-- the symbols of one block: DC (category, amplitude bits), then the AC (RS, amplitude bits) symbols -/
abbrev BlockSyms := (Nat × Int) × List Sym

/-- encodeBlock over the MCU-ordered block list; `pred c` = dcPred of component c -/
def encBlocks : (Nat → Int) → List (Nat × Block) → List BlockSyms
  | _, [] => []
  | pred, (c, (dc, ac)) :: rest =>
    (encodeCategory (dc - pred c), encAC ac 0) ::
      encBlocks (fun c' => if c' = c then dc else pred c') rest

/-- decodeBlock over the component sequence the frame header prescribes -/
def decBlocks : (Nat → Int) → List Nat → List BlockSyms → Option (List (Nat × Block))
  | _, [], [] => some []
  | pred, c :: cs, ((cat, bits), acs) :: rest => do
    let dc := pred c + extend cat bits
    let ac ← decodeAC acs
    let tail ← decBlocks (fun c' => if c' = c then dc else pred c') cs rest
    pure ((c, (dc, ac)) :: tail)
  | _, _, _ => none

end JpegScan
