/-!
  C09 model of the length hand-over `t2.PacketDecoder.decodePacket` → `t2.TileDecoder.gatherCBData`
  (packet_decoder.go, tile_decoder.go at 3981d09).

  `decodePacket` parses a packet header (outside this model: it delivers, per code-block of the packet,
  whether it is included and the DECLARED length of its contribution, up to 2^32−1, or a sum of such under
  TERMALL) and then walks the code-blocks: a declared length is trimmed to the bytes that are left in the
  tile data and to 65535 — except that the walk BREAKS when no byte is left, which leaves the declared
  lengths of that and all later code-blocks untouched.  `gatherCBData` later allocates one buffer per
  included code-block; it checks the length against the packet body first.
-/
namespace PktBody

structure Incl where
  included : Bool
  len : Nat
deriving Repr, DecidableEq, Inhabited

inductive Mode | default | resilient | strict
deriving Repr, DecidableEq, Inhabited

structure BodyRes where
  incls : List Incl     -- CodeBlockIncls with the lengths as gatherCBData sees them
  body : Nat            -- len(packet.Body)
  off : Nat             -- pd.offset afterwards
  partialBuf : Bool     -- packet.PartialBuffer
deriving Repr, DecidableEq, Inhabited

/-- the body loop of `decodePacket`; `none` = error return (strict mode) -/
def bodyLoop (total : Nat) (mode : Mode) : Nat → List Incl → Option BodyRes
  | off, [] => some { incls := [], body := 0, off := off, partialBuf := false }
  | off, c :: cs =>
    if c.included ∧ c.len > 0 then
      if off ≥ total then
        -- `partialBuffer = true; break`: this and all later blocks keep their declared lengths
        some { incls := c :: cs, body := 0, off := off, partialBuf := true }
      else if off + c.len > total ∧ mode = .strict then none
      else
        let l1 := if off + c.len > total then total - off else c.len
        let p1 : Bool := decide (off + c.len > total ∧ mode = .resilient)
        if l1 > 65535 ∧ mode = .strict then none
        else
          let l2 := if l1 > 65535 then (if total - off < 65535 then total - off else 65535) else l1
          match bodyLoop total mode (off + l2) cs with
          | none => none
          | some r => some { incls := { c with len := l2 } :: r.incls, body := l2 + r.body, off := r.off,
                             partialBuf := p1 || r.partialBuf }
    else
      match bodyLoop total mode off cs with
      | none => none
      | some r => some { r with incls := c :: r.incls }

/-- the buffers `gatherCBData` allocates for one packet: `make([]byte, cbIncl.DataLength)` behind the guard
    `DataLength > 0 && dataOffset+DataLength <= len(packet.Body)`; `ncb` = len(cbOrder) -/
def gatherAllocs (bodyLen ncb : Nat) : Nat → Nat → List Incl → List Nat
  | _, _, [] => []
  | idx, off, c :: cs =>
    if ¬ c.included then gatherAllocs bodyLen ncb (idx + 1) off cs
    else if idx ≥ ncb then gatherAllocs bodyLen ncb (idx + 1) (off + c.len) cs
    else
      (if c.len > 0 ∧ off + c.len ≤ bodyLen then [c.len] else []) ++
        gatherAllocs bodyLen ncb (idx + 1) (off + c.len) cs

/-- one packet as the header parser delivers it: header length in bytes, and the code-blocks
    (`none` = the empty-packet bit) -/
structure Pkt where
  hdrLen : Nat
  incls : Option (List Incl)
deriving Repr, Inhabited

inductive PktRes
  | empty
  | full (r : BodyRes)
deriving Repr, Inhabited

/-- the packet loop (any progression order: the packets in stream order): stops when no tile data is left -/
def decodeSeq (total : Nat) (mode : Mode) : Nat → List Pkt → Option (List PktRes)
  | _, [] => some []
  | off, p :: ps =>
    if off ≥ total then some []
    else
      match p.incls with
      | none =>
        match decodeSeq total mode (off + p.hdrLen) ps with
        | none => none
        | some rs => some (.empty :: rs)
      | some cs =>
        match bodyLoop total mode (off + p.hdrLen) cs with
        | none => none
        | some r =>
          match decodeSeq total mode r.off ps with
          | none => none
          | some rs => some (.full r :: rs)

/-- all buffers gatherCBData allocates for a tile (every code-block of a packet is in cbOrder) -/
def tileAllocs : List PktRes → List Nat
  | [] => []
  | .empty :: rs => tileAllocs rs
  | .full r :: rs => gatherAllocs r.body r.incls.length 0 0 r.incls ++ tileAllocs rs

end PktBody
