import GdcVerif.GoPrelude
import GdcVerif.Gen.JpegLossless
/-!
  Model of JPEG Lossless (Process 14) and SV1:
    /repo/jpeg/lossless/{encoder,decoder,predictors}.go
    /repo/jpeg/lossless14sv1/{encoder,decoder}.go
    /repo/jpeg/standard/{huffman,huffman_encoder,optimal_huffman,reader,writer,markers}.go

  Hand-written, code-shaped, total, executable.  `Predictor` and `losslessDifference` are NOT
  modelled here: the regenerated `Gen.JpegLossless.*` definitions are used, so an edit of
  predictors.go is seen by every theorem below them.  Everything else is tied to the Go
  code by the correspondence run of checks C02 / C13 (ops `jll-*`, `sv1-*`).

  Conventions: bytes and `uint32` registers are `Nat` (explicitly reduced `% 2^32` where Go's
  `uint32` arithmetic would drop bits); Go `int` is `Int`.  An index the Go code would panic
  on is the `panic` outcome.  `readErr` of `HuffmanDecoder` is sticky and every caller returns
  at the first error, so the model simply stops at the first error (`none` / `.err`).
-/
namespace JLL
open Gen.JpegLossless (Predictor losslessDifference)

inductive Outcome (α : Type) where
  | ok (a : α)
  | err
  | panic
deriving Repr, DecidableEq

instance : Monad Outcome where
  pure := .ok
  bind x f := match x with | .ok a => f a | .err => .err | .panic => .panic

/-! ## 1. Prediction: the neighbour-selection trees (inline in the scan loops) -/

/-- The three neighbours the scan loops may read at (row, col).  A field is only meaningful
    when the Go code reads it (`left` iff col>0, `up` iff row>0, `upLeft` iff both). -/
structure Nb where
  left   : Int
  up     : Int
  upLeft : Int
deriving Repr, DecidableEq

/-- lossless/encoder.go `encodeScan`, "Get neighbor values for prediction" … "Apply predictor"
    (since fix 946feeb: first sample 2^(P-1), first line Ra, line start Rb, else the selected predictor) -/
def encPredicted (precision predictor row col : Int) (nb : Nb) : Int :=
  let defaultVal := Go.shl 1 (precision - 1)
  let ra := if col > 0 then nb.left
            else if row > 0 ∧ predictor = 1 then nb.up else defaultVal
  let rb := if row > 0 then nb.up else defaultVal
  let rc := if row > 0 ∧ col > 0 then nb.upLeft else defaultVal
  if col = 0 ∧ row = 0 then defaultVal
  else if row = 0 then ra
  else if col = 0 then rb
  else Predictor predictor ra rb rc

/-- lossless/decoder.go `decodeScan`, same block (a second copy in the source) -/
def decPredicted (precision predictor row col : Int) (nb : Nb) : Int :=
  let defaultVal := Go.shl 1 (precision - 1)
  let ra := if col > 0 then nb.left
            else if row > 0 ∧ predictor = 1 then nb.up else defaultVal
  let rb := if row > 0 then nb.up else defaultVal
  let rc := if row > 0 ∧ col > 0 then nb.upLeft else defaultVal
  if col = 0 ∧ row = 0 then defaultVal
  else if row = 0 then ra
  else if col = 0 then rb
  else Predictor predictor ra rb rc

/-- lossless/encoder.go `optimizeHuffmanTables` (third copy, differently written) -/
def freqPredicted (precision predictor row col : Int) (nb : Nb) : Int :=
  let defaultVal := Go.shl 1 (precision - 1)
  let ra := if col > 0 then nb.left
            else if row > 0 ∧ predictor = 1 then nb.up else defaultVal
  let rb := if row > 0 then nb.up else defaultVal
  let rc := if row > 0 ∧ col > 0 then nb.upLeft else defaultVal
  let predicted := defaultVal
  if row = 0 ∧ col > 0 then ra
  else if row > 0 ∧ col = 0 then rb
  else if row > 0 then Predictor predictor ra rb rc
  else predicted

/-- lossless14sv1/encoder.go `encodeScan` (`preds[comp]` is the previous sample of the row) and
    lossless14sv1/decoder.go `decodeScan` (`comp.data[row*w+col-1]`): same `if` tree. -/
def sv1Predicted (precision row col : Int) (nb : Nb) : Int :=
  if col = 0 then
    if row = 0 then Go.shl 1 (precision - 1) else nb.up
  else nb.left

/-- lossless14sv1/encoder.go `optimizeHuffmanTables` -/
def sv1FreqPredicted (precision row col : Int) (nb : Nb) : Int :=
  let defaultVal := Go.shl 1 (precision - 1)
  if col = 0 ∧ row > 0 then nb.up
  else if col > 0 then nb.left
  else defaultVal

/-- lossless/predictors.go `calculatePredictionVariance` neighbour rule (zeros at the edges) -/
def varPredicted (predictor row col : Int) (nb : Nb) : Int :=
  let ra := if col > 0 then nb.left else 0
  let rb := if row > 0 then nb.up else 0
  let rc := if row > 0 ∧ col > 0 then nb.upLeft else 0
  Predictor predictor ra rb rc

/-! ## 2. Difference and reconstruction -/

/-- encoder: `diff := int(int16(losslessDifference(sample, predicted)))` -/
def encDiff (sample predicted : Int) : Int := Go.wrap16 (losslessDifference sample predicted)

/-- lossless/decoder.go decodeScan (since fix 479126d):
    `modulus := 1 << uint(d.precision); sample := (predicted + diff) & (modulus - 1)` -/
def decSample (precision predicted diff : Int) : Int :=
  let modulus := Go.shl 1 precision
  Go.and (predicted + diff) (modulus - 1)

/-- lossless14sv1/decoder.go decodeScan: the "Wrap to range [0, 2^P-1]" block (unchanged;
    sufficient there because the SV1 prediction is always a sample or 2^(P-1)) -/
def wrapDec (precision sample : Int) : Int :=
  let modulus := Go.shl 1 precision
  if sample < 0 then sample + modulus
  else if sample ≥ modulus then sample - modulus
  else sample

/-- lossless14sv1: `sample := predicted + diff` followed by the wrap block -/
def sv1DecSample (precision predicted diff : Int) : Int := wrapDec precision (predicted + diff)

/-! ## 3. Categories (standard/huffman_encoder.go, huffman.go) -/

/-- `cat = 1; for (1 << uint(cat)) <= absVal { cat++ }` — fuel 62 covers every |val| < 2^62 -/
def catLoop (absVal : Int) : Nat → Int → Int
  | 0, cat => cat
  | fuel + 1, cat => if Go.shl 1 cat ≤ absVal then catLoop absVal fuel (cat + 1) else cat

/-- `HuffmanEncoder.EncodeCategory` -/
def encodeCategory (val : Int) : Int × Int :=
  if val = 0 then (0, 0) else
  let absVal := if val < 0 then -val else val
  let cat := catLoop absVal 62 1
  let bits := if val > 0 then Go.uwrap32 val else Go.uwrap32 (Go.shl 1 cat + val - 1)
  (cat, bits)

/-- `HuffmanEncoder.EncodeLosslessDifference` -/
def encodeLosslessDifference (diff : Int) : Int × Int :=
  if diff = Go.shl (-1) 15 then (16, 0) else encodeCategory diff

/-- the extend expression of `HuffmanDecoder.ReceiveExtend` applied to the received bits -/
def extend (ssss bits : Int) : Int :=
  if ssss = 0 then 0 else
  let val := bits
  if val < Go.shl 1 (ssss - 1) then val + (Go.shl (-1) ssss + 1) else val

/-- `HuffmanDecoder.ReceiveLosslessDifference` given the bits `ReadBits(category)` returned -/
def receiveLosslessDifference (category bits : Int) : Int :=
  if category = 16 then Go.shl (-1) 15 else extend category bits

/-- number of amplitude bits actually written/read for a category (encodeScan: `cat > 0 && cat != 16`) -/
def extraBits (cat : Int) : Nat := if cat > 0 ∧ cat ≠ 16 then cat.toNat else 0

/-- lossless/encoder.go `diffCategory`: `for val > 0 { cat++; val >>= 1 }` -/
def diffCatLoop : Nat → Int → Int → Int
  | 0, _, cat => cat
  | fuel + 1, val, cat => if val > 0 then diffCatLoop fuel (Go.shr val 1) (cat + 1) else cat
def diffCategory (val : Int) : Int :=
  if val = 0 then 0 else
  let val := if val < 0 then -val else val
  diffCatLoop 64 val 0

/-! ## 4. Bit writer (standard/huffman_encoder.go) -/

def u32 (x : Nat) : Nat := x % 4294967296

/-- `writeByte`: the byte, followed by 0x00 if it is 0xFF -/
def stuff (b : Nat) : List Nat := if b = 0xFF then [0xFF, 0x00] else [b]

structure HuffEnc where
  bits  : Nat := 0     -- uint32
  nBits : Nat := 0
deriving Repr, DecidableEq

/-- `for e.nBits >= 8 { b := byte(e.bits >> (e.nBits-8)); writeByte(b); e.nBits -= 8 }` -/
def drain (bits : Nat) (nBits : Nat) : List Nat × Nat :=
  if _h : nBits ≥ 8 then
    let b := (bits >>> (nBits - 8)) % 256
    let r := drain bits (nBits - 8)
    (stuff b ++ r.1, r.2)
  else ([], nBits)
termination_by nBits
decreasing_by omega

/-- `(1 << uint(n)) - 1` in uint32 -/
def mask32 (n : Nat) : Nat := u32 (u32 (1 <<< n) + 4294967295)

/-- `HuffmanEncoder.WriteBits(bits, n)`: new state and the bytes appended to the writer -/
def HuffEnc.writeBits (e : HuffEnc) (v n : Nat) : HuffEnc × List Nat :=
  if n = 0 then (e, []) else
  let bits := u32 (u32 (e.bits <<< n) ||| (v &&& mask32 n))
  let r := drain bits (e.nBits + n)
  ({ bits := bits, nBits := r.2 }, r.1)

/-- `HuffmanEncoder.Flush` (valid for nBits ≤ 8, which `writeBits` maintains: nBits ≤ 7) -/
def HuffEnc.flush (e : HuffEnc) : HuffEnc × List Nat :=
  if e.nBits > 0 then
    let b := (u32 (e.bits <<< (8 - e.nBits)) ||| (u32 (1 <<< (8 - e.nBits)) - 1)) % 256
    ({ bits := 0, nBits := 0 }, stuff b)
  else (e, [])

/-- a sequence of `WriteBits` calls followed by `Flush` -/
def writeAll (e : HuffEnc) : List (Nat × Nat) → List Nat
  | [] => (e.flush).2
  | (v, n) :: rest => let r := e.writeBits v n; r.2 ++ writeAll r.1 rest

/-! ## 5. Bit reader (standard/huffman.go) -/

structure HuffDec where
  data  : List Nat
  bits  : Nat := 0    -- uint32
  nBits : Nat := 0
deriving Repr, DecidableEq

/-- one data byte with the stuffing rule shared by `ReadBit` and `ReadBits`:
    0xFF must be followed by 0x00 (which is dropped); EOF or 0xFF xx (xx≠0) is an error -/
def fetch : List Nat → Option (Nat × List Nat)
  | [] => none
  | b :: rest =>
    if b = 0xFF then
      match rest with
      | [] => none
      | b2 :: rest2 => if b2 ≠ 0 then none else some (b, rest2)
    else some (b, rest)

/-- `HuffmanDecoder.ReadBit` -/
def HuffDec.readBit (d : HuffDec) : Option (Bool × HuffDec) :=
  if d.nBits = 0 then
    match fetch d.data with
    | none => none
    | some (b, rest) => some ((b >>> 7) &&& 1 = 1, { data := rest, bits := b, nBits := 7 })
  else
    let nB := d.nBits - 1
    some ((d.bits >>> nB) &&& 1 = 1, { d with nBits := nB })

/-- the `for d.nBits < n` loop of `ReadBits` -/
def fill (n : Nat) (data : List Nat) (bits nBits : Nat) : Option (List Nat × Nat × Nat) :=
  if _h : nBits < n then
    match fetch data with
    | none => none
    | some (b, rest) => fill n rest (u32 (u32 (bits <<< 8) ||| b)) (nBits + 8)
  else some (data, bits, nBits)
termination_by n - nBits
decreasing_by omega

/-- `HuffmanDecoder.ReadBits(n)` -/
def HuffDec.readBits (d : HuffDec) (n : Nat) : Option (Nat × HuffDec) :=
  if n = 0 then some (0, d) else
  match fill n d.data d.bits d.nBits with
  | none => none
  | some (data, bits, nBits) =>
    let nB := nBits - n
    some ((bits >>> nB) &&& mask32 n, { data := data, bits := bits, nBits := nB })

/-! ## 6. Huffman tables (standard/huffman.go Build, Decode; huffman_encoder.go BuildHuffmanCodes) -/

structure Table where
  bits   : List Nat                  -- Bits[0..15]
  values : Array Nat                 -- Values
  codes  : List (Int × Int × Int)    -- per length l: (minCode[l], maxCode[l], valPtr[l])
  lookup : Array Int                 -- lookupTable[256]
deriving Repr, DecidableEq

/-- second loop of `Build`: min/max codes and value pointers (`code` is int32) -/
def buildCodes : List Nat → Int → Int → List (Int × Int × Int)
  | [], _, _ => []
  | n :: rest, code, p =>
    if n = 0 then (0, -1, 0) :: buildCodes rest (Go.wrap32 (code * 2)) p
    else (code, code + n - 1, p) :: buildCodes rest (Go.wrap32 ((code + n) * 2)) (p + n)

/-- innermost loop of the first part of `Build`: `for j < 1<<(7-l) { lookupTable[code+j] = v }` -/
def fillLookup (lk : Array Int) (code : Nat) (v : Int) : Nat → Array Int
  | 0 => lk
  | j + 1 => (fillLookup lk code v j).setIfInBounds (code + j) v

/-- `for i < Bits[l]`: returns the new table and p, or none = the guard added by fix 1cb8f42
    `if (p+1)<<uint(7-l) > 256 || p >= len(h.Values) { return ErrInvalidDHT }` fires
    (before that fix the same condition was the `lookupTable[code+j]` / `Values[p]` index panic) -/
def buildLookupLen (values : Array Nat) (l : Nat) : Nat → Array Int → Nat → Option (Array Int × Nat)
  | 0, lk, p => some (lk, p)
  | i + 1, lk, p =>
    let code := p <<< (7 - l)
    let span := 1 <<< (7 - l)
    if h : p < values.size then
      if code + span ≤ 256 then
        buildLookupLen values l i (fillLookup lk code (Go.wrap16 (Go.or (Go.shl (l + 1) 8) (values[p] : Nat))) span) (p + 1)
      else none
    else none

/-- `for l := 0; l < 8; l++` over Bits[0..7] -/
def buildLookup (values : Array Nat) : List Nat → Nat → Array Int → Nat → Option (Array Int)
  | [], _, lk, _ => some lk
  | n :: rest, l, lk, p =>
    if l < 8 then
      match buildLookupLen values l n lk p with
      | none => none
      | some (lk', p') => buildLookup values rest (l + 1) lk' p'
    else some lk

/-- `HuffmanTable.Build`; `bits` has 16 entries.  `err` = ErrInvalidDHT (over-subscribed BITS in
    the first 8 lengths or fewer values than counted), returned before the min/max/valptr loop. -/
def Table.build (bits : List Nat) (values : Array Nat) : Outcome Table :=
  match buildLookup values bits 0 (Array.replicate 256 (-1)) 0 with
  | none => .err
  | some lk => .ok { bits := bits, values := values, codes := buildCodes bits 0 0, lookup := lk }

/-- `BuildStandardHuffmanTable`: `_ = table.Build()` — a Build error is dropped and the table is
    returned with zero-valued minCode/maxCode/valPtr (the second loop was not reached).  Its
    partially filled `lookupTable` is never read (`decode_fast_path_dead`); the model leaves it at
    its initial value. -/
def Table.buildStandard (bits : List Nat) (values : Array Nat) : Table :=
  match Table.build bits values with
  | .ok t => t
  | _ => { bits := bits, values := values, codes := List.replicate 16 (0, 0, 0), lookup := Array.replicate 256 (-1) }

/-- slow path of `HuffmanDecoder.Decode`: `for l := 0; l < 16; l++`, generic in the bit source
    so that the same loop text is used with `HuffDec.readBit` (driver) and with a plain bit
    list (theorems) -/
def decodeLoop {σ : Type} (values : Array Nat) (rd : σ → Option (Bool × σ)) :
    List (Int × Int × Int) → Nat → σ → Outcome (Nat × σ)
  | [], _, _ => .err
  | (minC, maxC, vp) :: rest, code, s =>
    match rd s with
    | none => .err
    | some (bit, s') =>
      let code := u32 (u32 (code <<< 1) ||| (if bit then 1 else 0))
      if Go.wrap32 code ≤ maxC ∧ maxC ≥ 0 then
        let idx := Go.wrap32 (vp + Go.wrap32 code - minC)
        if h : idx ≥ 0 ∧ idx.toNat < values.size then .ok (values[idx.toNat], s')
        else decodeLoop values rd rest code s'
      else decodeLoop values rd rest code s'

/-- `HuffmanDecoder.Decode` including the 8-bit fast path (dead: nBits ≤ 7 always, see
    `Lemmas`), which is kept so that the model is the code -/
def HuffDec.decode (d : HuffDec) (t : Table) : Outcome (Nat × HuffDec) :=
  if d.nBits ≥ 8 then
    let peek := (d.bits >>> (d.nBits - 8)) &&& 0xFF
    match t.lookup[peek]? with
    | none => .panic
    | some entry =>
      if entry ≥ 0 then
        let nbits := Go.shr entry 8
        let value := Go.and entry 0xFF
        .ok (value.toNat, { d with nBits := (d.nBits - nbits).toNat })
      else decodeLoop t.values HuffDec.readBit t.codes 0 d
  else decodeLoop t.values HuffDec.readBit t.codes 0 d

/-- bit source used by the theorems: a list of bits -/
def listBit : List Bool → Option (Bool × List Bool)
  | [] => none
  | b :: r => some (b, r)

/-- `BuildHuffmanCodes`: codes[val] = (code, len); `code` is uint16 -/
def buildHuffmanCodesLen (values : Array Nat) (l : Nat) :
    Nat → Array (Nat × Nat) → Nat → Nat → Array (Nat × Nat) × Nat × Nat
  | 0, cs, code, p => (cs, code, p)
  | i + 1, cs, code, p =>
    if h : p < values.size then
      buildHuffmanCodesLen values l i (cs.setIfInBounds values[p] (code, l + 1)) ((code + 1) % 65536) (p + 1)
    else buildHuffmanCodesLen values l i cs code p

def buildHuffmanCodesGo (values : Array Nat) : List Nat → Nat → Array (Nat × Nat) → Nat → Nat → Array (Nat × Nat)
  | [], _, cs, _, _ => cs
  | n :: rest, l, cs, code, p =>
    let r := buildHuffmanCodesLen values l n cs code p
    buildHuffmanCodesGo values rest (l + 1) r.1 ((r.2.1 * 2) % 65536) r.2.2

/-- `BuildHuffmanCodes(table)`: 256 entries (Code, Len), Len = 0 for absent symbols.
    (`values` are Go bytes, so `codes[val]` is statically in range.) -/
def buildHuffmanCodes (bits : List Nat) (values : Array Nat) : Array (Nat × Nat) :=
  buildHuffmanCodesGo values bits 0 (Array.replicate 256 (0, 0)) 0 0

/-! ## 8. SOS table selectors (parseSOS of the two decoders) -/

/-- lossless/decoder.go parseSOS: `selector := int(data[2+c*2] >> 4); if selector >= len(d.dcTables) { error }`
    with `dcTables [4]` (since fix 879b6e2) -/
def jllSelector (b : Nat) : Outcome Nat :=
  let selector := b >>> 4
  if selector ≥ 4 then .err else .ok selector

/-- lossless14sv1/decoder.go parseSOS (since fix f4e8601): `comp.dcTableSelector = int(td >> 4);
    if comp.dcTableSelector >= len(d.dcTables) { return ErrInvalidSOS }` with `dcTables [4]` -/
def sv1Selector (b : Nat) : Outcome Nat :=
  let selector := b >>> 4
  if selector ≥ 4 then .err else .ok selector

/-! ## 7. Bit-level vocabulary used by the theorems (not code) -/

/-- the `n` low bits of `v`, most significant first -/
def bitsOf (v : Nat) : Nat → List Bool
  | 0 => []
  | n + 1 => v.testBit n :: bitsOf v n

/-- value of a bit string, most significant first -/
def ofBits : List Bool → Nat
  | [] => 0
  | b :: r => (if b then 1 else 0) * 2 ^ r.length + ofBits r

/-- remove the 0x00 that follows each 0xFF -/
def unstuff : List Nat → List Nat
  | [] => []
  | b :: rest =>
    if b = 0xFF then
      match rest with
      | [] => [b]
      | _ :: rest2 => b :: unstuff rest2
    else b :: unstuff rest

/-- THE STUFFING INVARIANT (C02 L4, reused by C16): every byte is < 256 and every 0xFF is
    immediately followed by 0x00 — so no marker code (0xFF followed by non-zero) occurs -/
def StuffOk : List Nat → Bool
  | [] => true
  | b :: rest =>
    if b = 0xFF then
      match rest with
      | [] => false
      | b2 :: rest2 => b2 = 0 && StuffOk rest2
    else b < 256 && StuffOk rest

/-- a decoder state's remaining bit string: buffered bits, then the unstuffed data bytes -/
def pending (d : HuffDec) : List Bool :=
  bitsOf d.bits d.nBits ++ (unstuff d.data).flatMap (fun b => bitsOf b 8)

end JLL
