import GdcVerif.GoPrelude
/-!
  Hand model of the JPEG-LS bit writer and limited-length Golomb code of
  /repo/jpegls/lossless/golomb.go (code-shaped; tied to the real code by the `jls-gw*`,
  `jls-emv`, `jls-dv` correspondence lines).

  * `Writer` = `GolombWriter` {bitBuffer uint32, freeBitCount int, isFFWritten, bytes written};
    `flushStep`/`flush` = `flush()` (4 iterations, 7-bit byte after 0xFF), `writeBits` = `WriteBits`,
    `finish` = `Flush()` (padding after a trailing 0xFF).
  * `encodeWrites` = the sequence of `WriteBits(value, count)` calls `EncodeMappedValue` performs
    (`WriteZeros` chunks of ≤ 31, `WriteUnary`, remainder / escape value); `encodeMappedValue`
    folds them through `writeBits`.
  * `decodeValue` = `GolombReader.DecodeValue` over an abstract bit sequence (the reader's
    byte/cache machinery — `fillReadCache`, `positionFF` — is modelled by `destuff`, the T.87 A.1
    bit-stuffing rule, and compared with the real reader by correspondence).

  Go shifts of a uint32 by a count ≥ 32 (incl. `uint(negative)`) give 0; that is `shl32/shr32`.
-/
namespace Golomb

def M32 : Nat := 4294967296

structure Writer where
  buf : Nat      -- bitBuffer (uint32)
  free : Int     -- freeBitCount
  ff : Bool      -- isFFWritten
  out : List Nat -- bytes written so far
deriving Repr, DecidableEq

def Writer.new : Writer := { buf := 0, free := 32, ff := false, out := [] }

def shl32 (b : Nat) (k : Int) : Nat := if k < 0 ∨ k ≥ 32 then 0 else (b <<< k.toNat) % M32
def shr32 (b : Nat) (k : Int) : Nat := if k < 0 ∨ k ≥ 32 then 0 else b >>> k.toNat

/-- one iteration of the loop in `flush()`; the Bool says whether the loop goes on -/
def flushStep (w : Writer) : Writer × Bool :=
  if w.free ≥ 32 then ({ w with free := 32 }, false)
  else if w.ff then
    let b := (w.buf >>> 25) % 256
    ({ buf := (w.buf <<< 7) % M32, free := w.free + 7, ff := b == 255, out := w.out ++ [b] }, true)
  else
    let b := (w.buf >>> 24) % 256
    ({ buf := (w.buf <<< 8) % M32, free := w.free + 8, ff := b == 255, out := w.out ++ [b] }, true)

/-- `flush()`: `for i := 0; i < 4; i++ { … }` -/
def flush (w : Writer) : Writer :=
  let s1 := flushStep w
  if !s1.2 then s1.1 else
  let s2 := flushStep s1.1
  if !s2.2 then s2.1 else
  let s3 := flushStep s2.1
  if !s3.2 then s3.1 else
  (flushStep s3.1).1

/-- `gw.bitBuffer |= x` -/
def orBuf (w : Writer) (x : Nat) : Writer := { w with buf := w.buf ||| x }
/-- `gw.freeBitCount = f` -/
def setFree (w : Writer) (f : Int) : Writer := { w with free := f }

/-- `WriteBits(bits uint32, bitCount int)` -/
def writeBits (w : Writer) (bits : Nat) (n : Int) : Writer :=
  let w0 := setFree w (w.free - n)
  if w0.free ≥ 0 then orBuf w0 (shl32 bits w0.free)
  else
    let w1 := flush (orBuf w0 (shr32 bits (-w0.free)))
    let w2 := if w1.free < 0 then flush (orBuf w1 (shr32 bits (-w1.free))) else w1
    orBuf w2 (shl32 bits w2.free)

/-- `Flush()` (end of scan) -/
def finish (w : Writer) : Writer :=
  let w := flush w
  let w := if w.ff then writeBits w 0 (Int.tmod (w.free - 1) 8) else w
  flush w

def writeAll (w : Writer) (ws : List (Nat × Int)) : Writer := ws.foldl (fun w p => writeBits w p.1 p.2) w

/-- `WriteZeros(n)`: chunks of at most 31 zero bits -/
def zerosWrites : Nat → Int → List (Nat × Int)
  | 0, _ => []
  | f + 1, n => if n > 0 then
      let chunk := if n > 31 then 31 else n
      (0, chunk) :: zerosWrites f (n - chunk)
    else []

/-- the `WriteBits` calls of `EncodeMappedValue(k, mappedError, limit, qbpp)` -/
def encodeWrites (k m limit qbpp : Int) : List (Nat × Int) :=
  let highBits := Go.shr m k
  if highBits < limit - (qbpp + 1) then
    let pre := if highBits + 1 > 31 then zerosWrites (Int.tdiv highBits 2).toNat (Int.tdiv highBits 2) else []
    let highBits := if highBits + 1 > 31 then highBits - Int.tdiv highBits 2 else highBits
    let rem := if k > 0 then [((m % 2 ^ k.toNat).toNat % M32, k)] else []
    pre ++ [(1, highBits + 1)] ++ rem
  else
    let escapeBits := limit - qbpp
    let un := if escapeBits > 31 then zerosWrites 31 31 ++ [(1, escapeBits - 31 - 1 + 1)] else [(1, escapeBits - 1 + 1)]
    un ++ [(((m - 1) % 2 ^ qbpp.toNat).toNat % M32, qbpp)]

def encodeMappedValue (w : Writer) (k m limit qbpp : Int) : Writer := writeAll w (encodeWrites k m limit qbpp)

/-! ### bit level -/

/-- the `n` low bits of `v`, most significant first (what `WriteBits(v, n)` appends) -/
def bitsOf (v : Nat) : Nat → List Bool
  | 0 => []
  | n + 1 => v.testBit n :: bitsOf v n

def writesBits (ws : List (Nat × Int)) : List Bool := ws.flatMap (fun p => bitsOf p.1 p.2.toNat)

def natOfBits (bs : List Bool) : Nat := bs.foldl (fun a b => 2 * a + (if b then 1 else 0)) 0

/-- unary part of `DecodeValue`: zeros before the first 1 (safety limit 1000 as in the code) -/
def countZeros : List Bool → Nat → Option (Nat × List Bool)
  | [], _ => none
  | true :: rest, z => some (z, rest)
  | false :: rest, z => if z + 1 > 1000 then none else countZeros rest (z + 1)

def takeBits (n : Nat) (bs : List Bool) : Option (Nat × List Bool) :=
  if bs.length < n then none else some (natOfBits (bs.take n), bs.drop n)

/-- `GolombReader.DecodeValue(k, limit, qbpp)` over a bit sequence -/
def decodeValue (k limit qbpp : Int) (bs : List Bool) : Option (Int × List Bool) :=
  match countZeros bs 0 with
  | none => none
  | some (highBits, rest) =>
    if (highBits : Int) ≥ limit - (qbpp + 1) then
      match takeBits qbpp.toNat rest with
      | none => none
      | some (v, rest) => some ((v : Int) + 1, rest)
    else if k = 0 then some (highBits, rest)
    else match takeBits k.toNat rest with
      | none => none
      | some (r, rest) => some ((highBits : Int) * 2 ^ k.toNat + r, rest)

/-- T.87 A.1 bit stuffing read side: every byte gives 8 bits, the byte after 0xFF only its low 7 -/
def destuff : List Nat → Bool → List Bool
  | [], _ => []
  | b :: rest, afterFF => (if afterFF then bitsOf b 7 else bitsOf b 8) ++ destuff rest (b == 255)

/-- "inside the scan no 0xFF is followed by a byte ≥ 0x80" -/
def Stuffed : List Nat → Prop
  | a :: b :: rest => (a = 255 → b < 128) ∧ Stuffed (b :: rest)
  | _ => True

instance : (l : List Nat) → Decidable (Stuffed l)
  | [] => isTrue trivial
  | [_] => isTrue trivial
  | a :: b :: rest => by
    unfold Stuffed
    have := instDecidableStuffed (b :: rest)
    infer_instance

end Golomb
