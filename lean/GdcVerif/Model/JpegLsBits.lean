import GdcVerif.GoPrelude
/-!
  Hand model of the one loop inside `ComputeCodingParameters`' call graph:
  `bitsLen` (jpegls/lossless/context.go).  The generated `ComputeCodingParameters`
  (Gen/JpegLs.lean) calls this definition through the go2lean callmap; the correspondence
  run compares it with the real function (`jls-bitsLen`).

      func bitsLen(n int) int {
          if n <= 1 { return 1 }
          length := 0
          n--
          for n > 0 { n >>= 1; length++ }
          return length
      }

  Go's `int` has 64 bits, so for `n > 0` the loop body runs at most 63 times: the model's
  loop carries that bound as structural fuel (64) instead of a termination proof.
-/
namespace JpegLsBits

/-- `for n > 0 { n >>= 1; length++ }` with at most `fuel` iterations -/
def bitsLoop : Nat → Nat → Nat → Nat
  | 0, _, len => len
  | fuel + 1, n, len => if n > 0 then bitsLoop fuel (n / 2) (len + 1) else len

def bitsLen (n : Int) : Int :=
  if n ≤ 1 then 1 else (bitsLoop 64 (n - 1).toNat 0 : Nat)

/-- the loop counts the binary digits of `n`: result `len + j` with `2^(j-1) ≤ n < 2^j` -/
theorem bitsLoop_spec : ∀ (fuel n len : Nat), n < 2 ^ fuel →
    ∃ j, bitsLoop fuel n len = len + j ∧ n < 2 ^ j ∧ (0 < n → 0 < j ∧ 2 ^ (j - 1) ≤ n)
  | 0, n, len, h => ⟨0, by simp [bitsLoop], by simpa using h, by intro hn; simp at h; omega⟩
  | fuel + 1, n, len, h => by
    unfold bitsLoop
    by_cases hn : n > 0
    · simp only [hn, if_true]
      have h2 : n / 2 < 2 ^ fuel := by
        rw [Nat.pow_succ] at h; omega
      obtain ⟨j, hj, hlt, hpos⟩ := bitsLoop_spec fuel (n / 2) (len + 1) h2
      refine ⟨j + 1, by omega, ?_, ?_⟩
      · rw [Nat.pow_succ]; omega
      · intro _
        refine ⟨by omega, ?_⟩
        simp only [Nat.add_sub_cancel]
        by_cases h0 : 0 < n / 2
        · obtain ⟨hj0, hle⟩ := hpos h0
          have : 2 ^ j = 2 ^ (j - 1) * 2 := by
            rw [← Nat.pow_succ]; congr 1; omega
          omega
        · have hn1 : n / 2 = 0 := by omega
          have hj0 : j = 0 := by
            cases j with
            | zero => rfl
            | succ j' =>
              -- bitsLoop on 0 returns len immediately, so j = 0
              have : bitsLoop fuel 0 (len + 1) = len + 1 := by
                cases fuel <;> simp [bitsLoop]
              rw [hn1, this] at hj; omega
          subst hj0
          show 2 ^ 0 ≤ n
          have : (2:Nat) ^ 0 = 1 := rfl
          omega
    · simp only [hn, if_false]
      exact ⟨0, by simp, by have : (2:Nat) ^ 0 = 1 := rfl
                            omega, fun h' => h'.elim⟩

/-- `bitsLen n = ⌈log2 n⌉` for `2 ≤ n ≤ 2^63`: `2^(bitsLen n − 1) < n ≤ 2^(bitsLen n)`; and `bitsLen 1 = 1`. -/
theorem bitsLen_spec (n : Int) (h2 : 2 ≤ n) (hn : n ≤ 2 ^ 63) :
    ∃ j : Nat, bitsLen n = j ∧ 1 ≤ j ∧ (2 : Int) ^ (j - 1) < n ∧ n ≤ (2 : Int) ^ j := by
  unfold bitsLen
  have : ¬ n ≤ 1 := by omega
  simp only [this, if_false]
  have hm : (n - 1).toNat < 2 ^ 64 := by
    simp only [Int.reducePow] at hn
    simp only [Nat.reducePow]
    omega
  obtain ⟨j, hj, hlt, hpos⟩ := bitsLoop_spec 64 (n - 1).toNat 0 hm
  obtain ⟨hj0, hle⟩ := hpos (by omega)
  refine ⟨j, by rw [hj]; simp, hj0, ?_, ?_⟩
  · have : ((2 ^ (j - 1) : Nat) : Int) ≤ (((n - 1).toNat : Nat) : Int) := Int.ofNat_le.mpr hle
    have e : ((2 ^ (j - 1) : Nat) : Int) = (2:Int) ^ (j - 1) := by simp
    rw [e] at this; omega
  · have : (((n - 1).toNat : Nat) : Int) < ((2 ^ j : Nat) : Int) := Int.ofNat_lt.mpr hlt
    have e : ((2 ^ j : Nat) : Int) = (2:Int) ^ j := by simp
    rw [e] at this; omega

theorem bitsLen_one : bitsLen 1 = 1 := by decide

end JpegLsBits
