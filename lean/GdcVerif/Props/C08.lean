import GdcVerif.Lemmas.RleTotal
import GdcVerif.Lemmas.ParsersTotal
/-!
  C08 — no decoder panics: every byte string yields a result or an error.

  The models have an explicit `panic site` outcome for every index, division and `make` the Go
  code performs on stream-derived values.  For each modelled entry point the file states either
  the totality theorem, or — where the unchanged code really panics — the counterexample on a
  concrete witness (replayed on the real code by the harness) plus the `_partial` theorem under
  the guard the proposed repair adds.  Entry points without a model (T1/T2 bodies, HT cleanup,
  12-bit sequential scan internals, baseline block decoding, image/jpeg) are searched only.
-/

namespace Rle

/-- Full statement for RLE: decodeFrame never panics, whatever the frame description. FALSE on the
    unchanged code (see `rle_decode_counterexample`). -/
def rle_decode_total_FullStatement : Prop :=
  ∀ (i : Info) (data : List Byte) (s : Site), (decodeFrameC i data).1 ≠ .panic s

/-- (1) every store `buffer[pos] = b` of `rleDecoder.decode` is in range — for every frame
    description (zero, huge and mismatching values included), every stride and every byte string:
    the run pre-checks of rle.go suffice. -/
theorem rle_store_total (i : Info) (data : List Byte) : (decodeFrameC i data).1 ≠ .panic .store :=
  decodeFrameC_no_store_panic i data

/-- (1') the bounds-checked decode loop IS the unchecked one of the C01 model (so the `rle-dec`
    correspondence ties both) -/
theorem rle_loop_checked_eq (stride : Nat) (buf : Array Byte) (pos : Nat) (rem : List Byte) :
    decodeLoopChk stride buf pos rem = liftErr (decodeLoop stride buf pos rem) :=
  decodeLoopChk_eq stride buf pos rem

/-- (2) partial: no panic at all when the frame buffer size computed from FrameInfo is one `make`
    accepts (≤ 2^48 bytes).  Missing for the full statement: decodeFrame allocates
    `bytesAllocated·spp·w·h` bytes from the uint16 fields before validating anything, and
    BitsAllocated = 0 wraps to bytesAllocated = 8192. -/
theorem rle_decode_total_partial (i : Info) (data : List Byte) (ha : i.frameSize ≤ maxAlloc) (s : Site) :
    (decodeFrameC i data).1 ≠ .panic s := decodeFrameC_total_of_alloc i data ha s

/-- (2') under the same hypothesis the C08 view and the C01 model agree on every input -/
theorem rle_decode_agrees (i : Info) (data : List Byte) (ha : i.frameSize ≤ maxAlloc) :
    (decodeFrameC i data).1.plain = decodeFrame i data := decodeFrameC_agrees i data ha

/-- (3) the unchanged code panics: Width = Height = SamplesPerPixel = 65535, BitsAllocated = 0 -/
theorem rle_decode_counterexample :
    (decodeFrameC { width := 65535, height := 65535, bitsAllocated := 0, spp := 65535, planar := 0 } [1]).1
      = .panic .makeslice := by decide

/-- non-vacuity of (2): a description with mismatching, partly zero fields satisfies the hypothesis -/
example : ({ width := 3, height := 0, bitsAllocated := 0, spp := 7, planar := 5 } : Info).frameSize ≤ maxAlloc := by
  decide

end Rle

namespace JM

/-- Full statement for HuffmanTable.Build. FALSE on the unchanged code. -/
def huff_build_total_FullStatement : Prop :=
  ∀ (bits : List Nat) (s : Site), build bits (sumList bits) ≠ .panic s

/-- (4) `Values[p]` in Build is always in range when Values has one entry per code (what every
    parseDHT guarantees: `totalCodes = Σ BITS`) -/
theorem huff_build_values_total (bits : List Nat) : build bits (sumList bits) ≠ .panic .huffValues :=
  buildLens_no_values_panic (sumList bits) bits 0 0 (by omega)

/-- (5) partial: `lookupTable[code+j]` is in range when the code counts satisfy the prefix
    condition `(Σ_{k≤l} BITS[k]) · 2^(7−l) ≤ 256` for l < 8 — which canonical Huffman tables do,
    and which untrusted BITS need not. -/
theorem huff_build_total_partial (bits : List Nat) (hk : kraftOK bits 0 0 = true) :
    build bits (sumList bits) = .ok () :=
  buildLens_ok_of_kraft (sumList bits) bits 0 0 (by omega) hk

/-- (6) the unchanged code panics on BITS = [3,0,…] (three 1-bit codes) -/
theorem huff_build_counterexample :
    build [3, 0, 0, 0, 0, 0, 0, 0, 0, 0, 0, 0, 0, 0, 0, 0] 3 = .panic .huffLookup := by decide

/-- non-vacuity of (5): the standard luminance DC table of T.81 K.3 -/
example : kraftOK [0, 1, 5, 1, 1, 1, 1, 1, 1, 0, 0, 0, 0, 0, 0, 0] 0 0 = true := by decide

/-- Full statement for lossless14sv1.Decode (up to the first Huffman symbol). FALSE (Build). -/
def sv1_decode_total_FullStatement : Prop := ∀ (bs : Bytes) (s : Site), (sv1Decode bs).1 ≠ .panic s

/-- loop-level statement for the table selector alone; not proved (the invariant below is proved
    for each segment handler, the plumbing through the marker loop is left to correspondence) -/
def sv1_selector_total_FullStatement : Prop := ∀ (bs : Bytes), (sv1Decode bs).1 ≠ .panic .sv1TableSel

/-- (7) parseSOF3 establishes, and parseSOS preserves, "every stored DC table selector is < 4"
    (repo commit f4e8601 added the check; before it the whole Td/Ta byte was stored) … -/
theorem sv1_sof3_selectors (st st' : Sv1) (data : Bytes) (al : List Nat)
    (h : sv1SOF3 st data = (some st', al)) : Sel4 st'.comps := sv1SOF3_sel st st' data al h

theorem sv1_sos_selectors (st st' : Sv1) (data : Bytes) (ha : Sel4 st.comps)
    (h : sv1SOS st data = some st') : Sel4 st'.comps := sv1SOS_sel st st' data ha h

/-- (7') … under which the first table lookup of decodeScan cannot panic -/
theorem sv1_scanstart_total_partial (st : Sv1) (h : Sel4 st.comps) (s : Site) :
    sv1ScanStart st ≠ .panic s := sv1ScanStart_total st h s

/-- (8) the former witness (Td/Ta byte 0x04 … 0xff) is now an error: selector byte 0x40 -/
theorem sv1_decode_former_witness :
    (sv1Decode [0xff, 0xd8, 0xff, 0xc3, 0x00, 0x0b, 0x02, 0x00, 0x01, 0x00, 0x01, 0x01, 0x01, 0x11, 0x00,
                0xff, 0xda, 0x00, 0x08, 0x01, 0x01, 0x40, 0x01, 0x00, 0x00]).1 = .err := by
  simp [sv1Decode, sv1Loop, readMarker, skipFill, readSegment, sv1SOF3, sv1Comps, sv1SOS, sv1Selectors,
    List.findIdx?, List.findIdx?.go]

/-- non-vacuity of (7) -/
example : Sel4 ({ comps := [(1, 0), (2, 3)] } : Sv1).comps := by
  intro c hc; simp at hc; rcases hc with h | h <;> subst h <;> decide

/-- (8') … and a DHT with over-subscribed BITS takes every JPEG-family decoder down in Build -/
theorem sv1_decode_counterexample_dht :
    (sv1Decode [0xff, 0xd8, 0xff, 0xc4, 0x00, 0x16, 0x00, 0x03, 0, 0, 0, 0, 0, 0, 0, 0, 0, 0, 0, 0, 0, 0, 0,
                1, 2, 3]).1 = .panic .huffLookup := by
  simp [sv1Decode, sv1Loop, readMarker, skipFill, readSegment, parseDHT, dhtTable, build, buildLens, buildCodes]

/-- (9) baseline.Decode: SOS before any SOF divides by mcuWidth = 0 -/
theorem baseline_sos_first_counterexample :
    blSosFirst [0xff, 0xd8, 0xff, 0xda, 0x00, 0x06, 0x00, 0x00, 0x00, 0x00] = .panic .blDivCeil := by decide

end JM

namespace JlsH

/-- Full statement for the JPEG-LS header. FALSE on the unchanged code. -/
def jls_header_total_FullStatement : Prop := ∀ (bs : JM.Bytes) (s : Site), (header bs).1 ≠ .panic s

/-- (10) partial: parseSOF55 cannot panic for a precision byte below 64 (the repair restricts it
    to 2..16).  Missing: precision ≥ 64 makes `1<<bitDepth` zero, MAXVAL = −1, and
    computeThresholds divides by MAXVAL + 1. -/
theorem jls_sof55_total_partial (st : St) (data : JM.Bytes) (hp : data.getD 0 0 < 64) (s : Site) :
    sof55 st data ≠ .panic s := by
  have h1 := maxValOf_succ_ne_zero (data.getD 0 0) hp
  have hlo : -1 ≤ maxValOf (data.getD 0 0) := maxValOf_ge _
  have hs := computeThresholds_some (maxValOf (data.getD 0 0)) h1 hlo
  unfold sof55
  simp only
  split
  · simp
  · split
    · simp
    · split
      · simp
      · cases hc : computeThresholds (maxValOf (data.getD 0 0)) 0 with
        | some v => simp
        | none => rw [hc] at hs; cases hs

/-- (11) the unchanged code panics: SOF55 with precision byte 0x40 -/
theorem jls_header_counterexample :
    (header [0xff, 0xd8, 0xff, 0xf7, 0x00, 0x0b, 0x40, 0x00, 0x01, 0x00, 0x01, 0x01, 0x01, 0x11, 0x00]).1
      = .panic .thresholdsDiv := by
  simp [header, loop, JM.readMarker, JM.skipFill, JM.readSegment, sof55, computeThresholds, maxValOf, wrap64]

example : ([8, 0, 1, 0, 1, 1] : JM.Bytes).getD 0 0 < 64 := by decide

end JlsH

namespace J2kH

/-- Full statement for the JPEG 2000 main header. FALSE on the unchanged code. -/
def j2k_mainheader_total_FullStatement : Prop := ∀ (bs : Bytes) (s : Site), parse bs ≠ .panic s

/-- (12) partial: parseQCD / parseCOM cannot panic when the length field covers the fixed part of
    the segment (the repair: `length < 3` resp. `length < 4` → error). SIZ, COD and the segment
    skipper have no panic outcome at all (their models are `Option`-valued). -/
theorem j2k_qcd_total_partial (bs : Bytes) (h : ∀ l r, rd16 bs = some (l, r) → 3 ≤ l) (s : Site) :
    parseQCD bs ≠ .panic s := by
  unfold parseQCD
  cases h1 : rd16 bs with
  | none => simp
  | some p =>
    obtain ⟨l, r⟩ := p
    have := h l r h1
    simp only
    cases rd8 r with
    | none => simp
    | some q =>
      simp only
      have hn : ¬ l < 3 := by omega
      rw [if_neg hn]
      split <;> simp

theorem j2k_com_total_partial (bs : Bytes) (h : ∀ l r, rd16 bs = some (l, r) → 4 ≤ l) (s : Site) :
    parseCOM bs ≠ .panic s := by
  unfold parseCOM
  cases h1 : rd16 bs with
  | none => simp
  | some p =>
    obtain ⟨l, r⟩ := p
    have := h l r h1
    simp only
    cases rd16 r with
    | none => simp
    | some q =>
      simp only
      have hn : ¬ l < 4 := by omega
      rw [if_neg hn]
      split <;> simp

/-- (13) the unchanged code panics: QCD with length 0 -/
theorem j2k_mainheader_counterexample_qcd :
    parse [0xff, 0x4f, 0xff, 0x51, 0x00, 0x29, 0, 0, 0, 0, 0, 1, 0, 0, 0, 1, 0, 0, 0, 0, 0, 0, 0, 0, 0, 0, 0, 1, 0, 0, 0, 1,
           0, 0, 0, 0, 0, 0, 0, 0, 0, 1, 7, 1, 1, 0xff, 0x5c, 0x00, 0x00, 0x40] = .panic .qcdMake := by
  simp [parse, walk, parseSIZ, parseQCD, rd8, rd16, rd32]

/-- (13') … and COM with length 0 -/
theorem j2k_mainheader_counterexample_com :
    parse [0xff, 0x4f, 0xff, 0x51, 0x00, 0x29, 0, 0, 0, 0, 0, 1, 0, 0, 0, 1, 0, 0, 0, 0, 0, 0, 0, 0, 0, 0, 0, 1, 0, 0, 0, 1,
           0, 0, 0, 0, 0, 0, 0, 0, 0, 1, 7, 1, 1, 0xff, 0x64, 0x00, 0x00, 0x00, 0x01] = .panic .comMake := by
  simp [parse, walk, parseSIZ, parseCOM, rd8, rd16, rd32]

example : ∀ l r, rd16 [0, 5, 0x40, 1, 2] = some (l, r) → 3 ≤ l := by
  intro l r h; simp [rd16] at h; omega

end J2kH
