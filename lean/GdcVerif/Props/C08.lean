import GdcVerif.Lemmas.RleTotal
import GdcVerif.Lemmas.ParsersTotal
import GdcVerif.Lemmas.J2kTotal
import GdcVerif.Lemmas.JlsRunBound
import GdcVerif.Lemmas.J2kMctTotal
/-!
  C08 — no decoder panics: every byte string yields a result or an error.

  Models follow /repo HEAD after the guard commits (1cb8f42, b3192bf, 8718df8, c3ac264, 456a615,
  871ae92, e67cccf, 9650374, f4e8601, 879b6e2).  Every index, division and `make` the Go code
  performs on stream-derived values is an explicit `panic site` branch of the model, placed after
  the guard the code now has; the theorems below show every such branch dead — for ALL byte
  strings (and all uint16 frame descriptions for RLE), at loop level (the marker loops are
  well-founded recursions on the unread length, `PC.run`).  The byte strings that used to panic
  are kept as regression `example`s: they are errors now.
  Entry points without a model (entropy decoding, T1/T2 bodies, HT cleanup, MQ, 12-bit scan
  internals, block decoding, pixel conversion, image/jpeg) are searched only.
-/

namespace Rle

/-- (1) every store `buffer[pos] = b` of `rleDecoder.decode` is in range — for every frame
    description, every stride and every byte string: the run pre-checks of rle.go suffice -/
theorem rle_store_total (i : Info) (data : List Byte) : (decodeFrameC i data).1 ≠ .panic .store :=
  decodeFrameC_no_store_panic i data

/-- (1') the bounds-checked decode loop IS the unchecked one of the C01 model -/
theorem rle_loop_checked_eq (stride : Nat) (buf : Array Byte) (pos : Nat) (rem : List Byte) :
    decodeLoopChk stride buf pos rem = liftErr (decodeLoop stride buf pos rem) :=
  decodeLoopChk_eq stride buf pos rem

/-- (2) FULL: `Codec.decodeFrame` has no panic outcome for any uint16 FrameInfo (zero, wrapped and
    mismatching values included) and any byte string.  (`U16` is the Go type of the fields, not a
    guard.)  The guard of commit 9650374 bounds the frame buffer by 15·65535² + 1 bytes. -/
theorem rle_decode_total (i : Info) (hu : i.U16) (data : List Byte) (s : Site) :
    (decodeFrameC i data).1 ≠ .panic s := decodeFrameC_total i hu data s

/-- (2') the exact bound on the frame buffer of an accepted description -/
theorem rle_frame_size_bound (i : Info) (hg : ¬ i.Rejected) (hu : i.U16) :
    i.frameSize ≤ 15 * (65535 * 65535) + 1 := frameSize_le_of_accepted i hg hu

/-- (2'') the C08 view and the C01 model are the same function -/
theorem rle_decode_agrees (i : Info) (hu : i.U16) (data : List Byte) :
    (decodeFrameC i data).1.plain = decodeFrame i data := decodeFrameC_agrees i hu data

/-- regression anchor: the former makeslice witness (65535×65535, BitsAllocated 0, 65535 samples) -/
example : (decodeFrameC { width := 65535, height := 65535, bitsAllocated := 0, spp := 65535, planar := 0 } [1]).1
    = .err := by decide

/-- non-vacuity: a description that is accepted and reaches the allocation -/
example : let i : Info := { width := 3, height := 2, bitsAllocated := 16, spp := 3, planar := 0 }
    i.U16 ∧ ¬ i.Rejected := by decide

end Rle

namespace JM
open PC

/-- (3) FULL: `HuffmanTable.Build` has no panic outcome for any BITS and any number of values
    (commit 1cb8f42) -/
theorem huff_build_total (bits : List Nat) (nvalues : Nat) (s : Site) :
    build bits nvalues ≠ .error (.panic s) := buildLens_total nvalues bits 0 0 s

/-- regression anchor: over-subscribed BITS = [3,0,…] is ErrInvalidDHT now -/
example : build [3, 0, 0, 0, 0, 0, 0, 0, 0, 0, 0, 0, 0, 0, 0, 0] 3 = .error .err := rfl
/-- … and fewer values than codes as well -/
example : build [1, 1, 0, 0, 0, 0, 0, 0, 0, 0, 0, 0, 0, 0, 0, 0] 1 = .error .err := rfl
/-- non-vacuity: the standard luminance DC table of T.81 K.3 is accepted -/
example : build [0, 1, 5, 1, 1, 1, 1, 1, 1, 0, 0, 0, 0, 0, 0, 0] 12 = .ok () := rfl

/-- (4) FULL: `lossless14sv1.Decode` — marker loop, parseSOF3, parseDHT + Build, parseSOS, first
    table lookup of decodeScan — has no panic outcome for any byte string -/
theorem sv1_decode_total (bs : Bytes) (s : Site) : (sv1Decode bs).2 ≠ .panic s := sv1Decode_total bs s

/-- regression anchors: the former witnesses (Td/Ta byte 0x04 resp. 0x40, over-subscribed DHT) -/
example : (sv1Decode [0xff, 0xd8, 0xff, 0xc3, 0x00, 0x0b, 0x02, 0x00, 0x01, 0x00, 0x01, 0x01, 0x01, 0x11, 0x00,
    0xff, 0xda, 0x00, 0x08, 0x01, 0x01, 0x04, 0x01, 0x00, 0x00]).2 = .err := by
  rw [sv1Decode_eval 8 rfl rfl] <;> rfl
example : (sv1Decode [0xff, 0xd8, 0xff, 0xc3, 0x00, 0x0b, 0x02, 0x00, 0x01, 0x00, 0x01, 0x01, 0x01, 0x11, 0x00,
    0xff, 0xda, 0x00, 0x08, 0x01, 0x01, 0x40, 0x01, 0x00, 0x00]).2 = .err := by
  rw [sv1Decode_eval 8 rfl rfl] <;> rfl
example : dhtTable 3 [0x00, 0x03, 0, 0, 0, 0, 0, 0, 0, 0, 0, 0, 0, 0, 0, 0, 0, 1, 2, 3] = .error .err := rfl

/-- regression anchor (C09, commit 7825a71): a second frame header is an error -/
example : (sv1Decode [0xff, 0xd8, 0xff, 0xc3, 0x00, 0x0b, 0x08, 0x00, 0x01, 0x00, 0x01, 0x01, 0x01, 0x11, 0x00,
    0xff, 0xc3, 0x00, 0x0b, 0x08, 0x04, 0x00, 0x04, 0x00, 0x01, 0x01, 0x11, 0x00]).2 = .err := by
  rw [sv1Decode_eval 8 rfl rfl] <;> rfl

/-- (5) FULL: `jpeg/lossless.Decode` (marker loop, parseSOF3, parseDHT, parseSOS incl. the
    `data[2+component*2]` / `dcTableSelectors[component]` indices, first table lookup) -/
theorem jll_decode_total (bs : Bytes) (s : Site) : (jllDecode bs).2 ≠ .panic s := jllDecode_total bs s

/-- regression anchor (C09 class c09-second-frame-header-resize, commit 72b8b5a): the second frame header of a
    jpeg/lossless stream (the first declares 1x1, the copy 30000x30000) is an error -/
example : (jllDecode [0xff, 0xd8, 0xff, 0xc3, 0x00, 0x0b, 0x08, 0x00, 0x01, 0x00, 0x01, 0x01, 0x01, 0x11, 0x00,
    0xff, 0xc3, 0x00, 0x0b, 0x08, 0x75, 0x30, 0x75, 0x30, 0x01, 0x01, 0x11, 0x00]).2 = .err := by
  rw [jllDecode_eval 8 rfl rfl] <;> rfl

/-- (6) FULL: `baseline.Decode` (marker loop, parseSOF incl. the DivCeil divisors, parseDQT,
    parseDHT, parseDRI, parseSOS, start of decodeScan and the first decodeBlock table lookup) -/
theorem baseline_decode_total (bs : Bytes) (s : Site) : (blDecode bs).2 ≠ .panic s := blDecode_total bs s

/-- regression anchors: SOS before any SOF (was DivCeil by 0); Td = 4 in SOS (was dcTables[4]) -/
example : (blDecode [0xff, 0xd8, 0xff, 0xda, 0x00, 0x06, 0x00, 0x00, 0x00, 0x00]).2 = .err := by
  rw [blDecode_eval 8 rfl rfl] <;> rfl
example : (blDecode [0xff, 0xd8, 0xff, 0xc0, 0x00, 0x0b, 0x08, 0x00, 0x01, 0x00, 0x01, 0x01, 0x01, 0x11, 0x00,
    0xff, 0xda, 0x00, 0x08, 0x01, 0x01, 0x40, 0x00, 0x3f, 0x00]).2 = .err := by
  rw [blDecode_eval 8 rfl rfl] <;> rfl

end JM

namespace JlsH
open PC

/-- (7) FULL: `jpegls/lossless.Decode` up to the scan (marker loop, parseSOF55, parseLSE, parseSOS
    and every division of ComputeCodingParameters / computeThresholds they trigger) -/
theorem jls_header_total (bs : Bytes) (s : Site) : (header bs).2 ≠ .panic s := header_total bs s

/-- (8) FULL: `jpegls/nearlossless.Decode` up to the scan (parameters derived at SOS with the
    NEAR byte of the stream: `(maxVal+2·near)/(2·near+1)`, `256/(maxVal+1)`) -/
theorem jlsnear_header_total (bs : Bytes) (s : Site) : (nheader bs).2 ≠ .panic s := nheader_total bs s

/-- regression anchor: SOF55 with precision byte 0x40 (was 256/(MAXVAL+1) with MAXVAL = −1) -/
example : (header [0xff, 0xd8, 0xff, 0xf7, 0x00, 0x0b, 0x40, 0x00, 0x01, 0x00, 0x01, 0x01, 0x01, 0x11, 0x00]).2 = .err := by
  rw [header_eval 8 rfl rfl] <;> rfl

/-- regression anchor (class c09-second-frame-header-resize, commit 72b8b5a): the outside probe's header — SOF55 8x8, then
    a copy declaring 30000x30000 — is an error in both JPEG-LS decoders -/
example : (header [0xff, 0xd8, 0xff, 0xf7, 0x00, 0x0b, 0x08, 0x00, 0x08, 0x00, 0x08, 0x01, 0x01, 0x11, 0x00,
    0xff, 0xf7, 0x00, 0x0b, 0x08, 0x75, 0x30, 0x75, 0x30, 0x01, 0x01, 0x11, 0x00]).2 = .err := by
  rw [header_eval 8 rfl rfl] <;> rfl
example : (nheader [0xff, 0xd8, 0xff, 0xf7, 0x00, 0x0b, 0x08, 0x00, 0x08, 0x00, 0x08, 0x01, 0x01, 0x11, 0x00,
    0xff, 0xf7, 0x00, 0x0b, 0x08, 0x75, 0x30, 0x75, 0x30, 0x01, 0x01, 0x11, 0x00]).2 = .err := by
  rw [nheader_eval 8 rfl rfl] <;> rfl

/-- the division guard is not vacuous: without the precision check MAXVAL would be −1 -/
example : thresholdsDivOk (maxValOf 64) = false := by decide

end JlsH

namespace J2kH
open PC

/-- (9) FULL: `codestream.Parser.Parse` — SOC, main header (SIZ, COD, COC, QCD, QCC, POC, RGN, COM,
    unknown segments incl. the backwards step of skipSegment), tile-parts (SOT, tile-part header,
    SOD, Psot arithmetic, marker scan), mergeTilePart — has no panic outcome for any byte string.
    (MCT/MCC/MCO segments end the modelled walk with `beyond`.) -/
theorem j2k_parse_total (bs : Bytes) (s : Site) : (parse bs).2 ≠ .panic s := parse_total bs s

/-- regression anchors: QCD / COM with length 0 (were make([]byte, −3) / make([]byte, −4)) -/
example : (parse [0xff, 0x4f, 0xff, 0x51, 0x00, 0x29, 0, 0, 0, 0, 0, 1, 0, 0, 0, 1, 0, 0, 0, 0, 0, 0, 0, 0, 0, 0, 0, 1, 0, 0, 0, 1,
    0, 0, 0, 0, 0, 0, 0, 0, 0, 1, 7, 1, 1, 0xff, 0x5c, 0x00, 0x00, 0x40]).2 = .err := by
  rw [parse_eval 8 rfl rfl] <;> rfl
example : (parse [0xff, 0x4f, 0xff, 0x51, 0x00, 0x29, 0, 0, 0, 0, 0, 1, 0, 0, 0, 1, 0, 0, 0, 0, 0, 0, 0, 0, 0, 0, 0, 1, 0, 0, 0, 1,
    0, 0, 0, 0, 0, 0, 0, 0, 0, 1, 7, 1, 1, 0xff, 0x64, 0x00, 0x00, 0x00, 0x01]).2 = .err := by
  rw [parse_eval 8 rfl rfl] <;> rfl

end J2kH

namespace JpegLsRun

/-- (10) FULL, JPEG-LS scan level: the run length `RunModeScanner.DecodeRunLength` returns is within
    0..remainingInLine and the run index stays inside the J table (no `J[RunIndex]` panic), for every
    bit sequence — over wp-jpegls's model `Model/JpegLsRun.lean`, which their `jls-runseg-dec`
    correspondence lines tie to both decoders' copies of the function.  This bound is what keeps the
    `runLength`·components sample writes of decodeSampleRunMode / doRunMode inside the pixel buffer. -/
theorem jls_run_length_bound (bs : List Bool) (idx remaining : Int) (h0 : 0 ≤ idx) (h31 : idx ≤ 31)
    (hrem : 0 ≤ remaining) :
    decodeRunLength bs idx remaining ≠ .error .panic ∧
    ∀ rl i rest, decodeRunLength bs idx remaining = .ok (rl, i, rest) → 0 ≤ rl ∧ rl ≤ remaining ∧ 0 ≤ i ∧ i ≤ 31 :=
  decodeRunLength_bound bs idx remaining h0 h31 hrem

/-- (10b) the run-index bookkeeping the model of (10) uses IS the code's: the REGENERATED
    `RunModeScanner.incRunIndex` / `DecRunIndex` (jpegls/lossless/runmode.go, shared by both decoders)
    change nothing but `RunIndex`, agree with the model's `incRunIndex` / `decRunIndex` for every
    scanner state, keep `RunIndex` inside the 32-entry J table, and every entry of the regenerated
    table is a shift count ≤ 15.  (Added after seeded change C08-m8: a saturating `min(i+1, len(J))`
    leaves the table by one, which only a ≥ 32768-sample flat line can reach.) -/
theorem jls_run_index_generated (r : Gen.JpegLs.RunModeScanner) :
    (Gen.JpegLs.RunModeScanner.incRunIndex r).RunIndex = incRunIndex r.RunIndex ∧
    (Gen.JpegLs.RunModeScanner.DecRunIndex r).RunIndex = decRunIndex r.RunIndex ∧
    (Gen.JpegLs.RunModeScanner.incRunIndex r).traits = r.traits ∧
    (Gen.JpegLs.RunModeScanner.DecRunIndex r).traits = r.traits ∧
    (0 ≤ r.RunIndex ∧ r.RunIndex ≤ 31 →
      (0 ≤ (Gen.JpegLs.RunModeScanner.incRunIndex r).RunIndex ∧ (Gen.JpegLs.RunModeScanner.incRunIndex r).RunIndex ≤ 31) ∧
      (0 ≤ (Gen.JpegLs.RunModeScanner.DecRunIndex r).RunIndex ∧ (Gen.JpegLs.RunModeScanner.DecRunIndex r).RunIndex ≤ 31)) ∧
    Gen.JpegLsRun.J.size = 32 := by
  obtain ⟨i, t⟩ := r
  unfold Gen.JpegLs.RunModeScanner.incRunIndex Gen.JpegLs.RunModeScanner.DecRunIndex incRunIndex decRunIndex
  simp only [decide_eq_true_eq]
  refine ⟨?_, ?_, ?_, ?_, ?_, by decide⟩
  · split <;> rfl
  · split <;> rfl
  · split <;> rfl
  · split <;> rfl
  · intro h; constructor <;> split <;> simp only [] <;> omega

example : (Gen.JpegLs.RunModeScanner.incRunIndex { RunIndex := 31, traits := default }).RunIndex = 31 ∧
    (Gen.JpegLs.RunModeScanner.incRunIndex { RunIndex := 30, traits := default }).RunIndex = 31 ∧
    (Gen.JpegLs.RunModeScanner.DecRunIndex { RunIndex := 0, traits := default }).RunIndex = 0 := by decide

/-- the scan `FF 30` on a 13-sample line: eight 1-bits make the run 12 and RUNindex 8 (J = 2), the
    two remainder bits `11` would make it 15 > 13: an error, not an overshoot -/
example : decodeRunLength [true, true, true, true, true, true, true, true, false, true, true, false, false, false, false] 0 13
    = .error .err := by rfl

/-- non-vacuity: the same bits on a 16-sample line give run length 15 -/
example : decodeRunLength [true, true, true, true, true, true, true, true, false, true, true] 0 16
    = .ok (15, 8, []) := by rfl

end JpegLsRun

namespace Mct

/-- (11) FULL, JPEG 2000 Part-2 multi-component transform, decoder side (`extractBindings`,
    `decodeMCTMatrix*`, `decodeMCTOffsets`, `applyDecoderMCTBindings`, `applyIntegerMatrixTransform`,
    `applyFloatMatrixTransform`, `applyBindingOffsets`, `applyDecoderInverseCustomMCT` after 43b6ee7):
    for EVERY list of parsed MCT / MCC / MCO segments, component count and image with that many planes
    no slice index is out of range — every index of the Go code is an explicit `Option` site of the model.
    `WF` is the abstraction invariant (the payload of an MCT segment splits into complete elements and a
    rest shorter than one element), true of every byte string. -/
theorem j2k_mct_total (cs : Cs) (components : Nat) (v : List Int) (hwf : ∀ s ∈ cs.mct, s.WF)
    (hv : v.length = components) : transform cs components v ≠ none := by
  obtain ⟨v', hv'⟩ := transform_total cs components v hwf hv
  rw [hv']
  exact fun h => by cases h

/-- regression anchor (corpus/C08/jpeg2000.Decoder.applyIntegerMatrixTransform-index-109f8625): a
    collection naming component 3 of a 3-component image used to index `d.data[3]`; since 43b6ee7 the
    collection is skipped and the image is left as it is -/
example : transform { mct := [{ index := 1, arrayType := 1, elemType := 1, vals := [1, 0, 0, 0, 1, 0, 0, 0, 1], pad := 0 }],
                      mcc := [{ index := 2, collType := 1, numComps := 3, compIDs := [3, 1, 2], outIDs := [3, 1, 2],
                                decorr := 1, offs := 0, reversible := true }],
                      mco := [] } 3 [5, 6, 7] = some [5, 6, 7] := by decide

/-- non-vacuity: the same stream with ids 2,1,0 and a non-trivial matrix does transform the image -/
example : transform { mct := [{ index := 1, arrayType := 1, elemType := 1, vals := [1, 1, 0, 0, 1, 0, 0, 0, 2], pad := 0 }],
                      mcc := [{ index := 2, collType := 1, numComps := 3, compIDs := [2, 1, 0], outIDs := [2, 1, 0],
                                decorr := 1, offs := 0, reversible := true }],
                      mco := [] } 3 [5, 6, 7] = some [10, 6, 13] := by decide

/-- a short matrix (8 of 9 elements) is not a matrix: no binding, nothing indexed -/
example : transform { mct := [{ index := 1, arrayType := 1, elemType := 0, vals := [1, 1, 0, 0, 1, 0, 0, 0], pad := 1 }],
                      mcc := [{ index := 2, collType := 1, numComps := 3, compIDs := [2, 1, 0], outIDs := [],
                                decorr := 1, offs := 0, reversible := false }],
                      mco := [[2, 2]] } 3 [5, 6, 7] = some [5, 6, 7] := by decide

end Mct
