import GdcVerif.Model.JpegLossless
import GdcVerif.Lemmas.JpegLossless
import GdcVerif.Lemmas.JllBits
import GdcVerif.Lemmas.JllCanon
import GdcVerif.Lemmas.JllScan
import GdcVerif.Lemmas.JllOptimal
import GdcVerif.Lemmas.JllOptimalGen
import GdcVerif.Lemmas.JllCompose
import GdcVerif.Lemmas.JllEndToEnd
/-!
  C02 — JPEG Lossless (Process 14, predictors 1–7) and SV1: exact reconstruction.

  Property theorems only.  `Predictor` and `losslessDifference` are the regenerated
  `Gen.JpegLossless` definitions; the scan loops' neighbour trees, the wrap block, the
  category coder, the bit writer/reader and the canonical Huffman tables are the code-shaped
  hand model `Model/JpegLossless.lean`, tied to /repo by this check's correspondence run.

  History: layer L2 was false for the decoder before fix 479126d (class `jll-pred456-wrap`, single
  wrap; predictors 4–6 at P = 15, 16); it is now proved in full, with the old witness kept as a
  regression `example`.
-/
namespace JLL
open Gen.JpegLossless

/-! ## L1 — the copies of the neighbour-selection tree agree -/

/-- encoder scan, decoder scan and frequency pass of jpeg/lossless predict the same value -/
theorem neighbour_rules_agree (P predictor row col : Int) (nb : Nb) (hr : 0 ≤ row) (hc : 0 ≤ col) :
    decPredicted P predictor row col nb = encPredicted P predictor row col nb ∧
    freqPredicted P predictor row col nb = encPredicted P predictor row col nb :=
  ⟨decPredicted_eq_enc P predictor row col nb, freqPredicted_eq_enc P predictor row col nb hr hc⟩

/-- the SV1 trees (scan and frequency pass) are the general tree at predictor 1 -/
theorem sv1_rules_agree (P row col : Int) (nb : Nb) (hr : 0 ≤ row) (hc : 0 ≤ col) :
    sv1Predicted P row col nb = encPredicted P 1 row col nb ∧
    sv1FreqPredicted P row col nb = sv1Predicted P row col nb :=
  ⟨sv1Predicted_eq_enc P row col nb hr hc, sv1FreqPredicted_eq P row col nb hr hc⟩

example : encPredicted 8 4 1 1 ⟨10, 20, 5⟩ = 25 ∧ sv1Predicted 8 1 0 ⟨10, 20, 5⟩ = 20 := by decide

/-! ## L2 — difference modulo 2^16 and its inverse -/

/-- L2, jpeg/lossless (decoder shape since fix 479126d, `(predicted + diff) & (2^P - 1)`):
    for every precision 2..16, every predictor 1..7, every neighbourhood and position, the
    decoder's reconstruction of the encoder's int16-wrapped difference is the sample. -/
theorem diff_wrap_inverse (P predictor row col : Int) (nb : Nb) (sample : Int)
    (hP : 2 ≤ P ∧ P ≤ 16) (_hp : 1 ≤ predictor ∧ predictor ≤ 7) (_hr : 0 ≤ row) (_hc : 0 ≤ col)
    (_hnb : NbIn P nb) (hs : 0 ≤ sample ∧ sample < Go.shl 1 P) :
    decSample P (decPredicted P predictor row col nb)
      (encDiff sample (encPredicted P predictor row col nb)) = sample := by
  rw [decPredicted_eq_enc]; exact diff_wrap_inverse' P _ sample hP hs

example : NbIn 16 ⟨65535, 0, 65535⟩ ∧ (0:Int) ≤ 65535 ∧ (65535:Int) < Go.shl 1 16 := by decide

/-- … in fact for every predicted value whatsoever (in range or not) -/
theorem diff_wrap_inverse_any_prediction (P predicted sample : Int) (hP : 2 ≤ P ∧ P ≤ 16)
    (hs : 0 ≤ sample ∧ sample < Go.shl 1 P) :
    decSample P predicted (encDiff sample predicted) = sample :=
  diff_wrap_inverse' P predicted sample hP hs

/-- regression: the witnesses of the former defect `jll-pred456-wrap` (single wrap; P = 15/16,
    predictors 4, 5, 6, Ra = Rb = 2^P−1, Rc = 0, sample 0 — the image [0, 32767; 32767, 0] at its
    last position decoded 32768) are reconstructed correctly by the repaired shape -/
example :
    decSample 15 (decPredicted 15 4 1 1 ⟨32767, 32767, 0⟩) (encDiff 0 (encPredicted 15 4 1 1 ⟨32767, 32767, 0⟩)) = 0 ∧
    decSample 15 (decPredicted 15 5 1 1 ⟨32767, 32767, 0⟩) (encDiff 0 (encPredicted 15 5 1 1 ⟨32767, 32767, 0⟩)) = 0 ∧
    decSample 15 (decPredicted 15 6 1 1 ⟨32767, 32767, 0⟩) (encDiff 0 (encPredicted 15 6 1 1 ⟨32767, 32767, 0⟩)) = 0 ∧
    decSample 16 (decPredicted 16 4 1 1 ⟨65535, 65535, 0⟩) (encDiff 0 (encPredicted 16 4 1 1 ⟨65535, 65535, 0⟩)) = 0 := by
  decide

/-- the single-wrap shape that lossless14sv1 still uses would NOT be enough for predictors 4–6
    (this is the old defect, kept as a guard against re-introducing that shape in jpeg/lossless) -/
theorem single_wrap_insufficient_for_pred4 :
    sv1DecSample 15 (encPredicted 15 4 1 1 ⟨32767, 32767, 0⟩)
      (encDiff 0 (encPredicted 15 4 1 1 ⟨32767, 32767, 0⟩)) = 32768 := by decide

/-- L2, lossless14sv1 (single-wrap block, selection value 1 on both sides): full statement —
    the SV1 prediction is always a sample or 2^(P−1), so one wrap suffices -/
theorem sv1_diff_wrap_inverse (P row col : Int) (nb : Nb) (sample : Int)
    (hP : 2 ≤ P ∧ P ≤ 16) (hr : 0 ≤ row) (hc : 0 ≤ col)
    (hnb : NbIn P nb) (hs : 0 ≤ sample ∧ sample < Go.shl 1 P) :
    sv1DecSample P (sv1Predicted P row col nb) (encDiff sample (sv1Predicted P row col nb)) = sample := by
  rw [sv1Predicted_eq_enc P row col nb hr hc]
  exact wrap_once_inverse' P 1 row col nb sample hP (by decide) hnb hs (Or.inl rfl)

example : NbIn 12 ⟨4095, 0, 7⟩ ∧ (0:Int) ≤ 4095 ∧ (4095:Int) < Go.shl 1 12 := by decide

/-- the prediction is confined to [-2^P, 2^(P+1)), and to [0, 2^P) for predictors 1, 2, 3, 7 -/
theorem predicted_range (P predictor row col : Int) (nb : Nb) (hP : 2 ≤ P ∧ P ≤ 16)
    (hp : 1 ≤ predictor ∧ predictor ≤ 7) (hnb : NbIn P nb) :
    (-(Go.shl 1 P) ≤ encPredicted P predictor row col nb ∧
      encPredicted P predictor row col nb < 2 * Go.shl 1 P) ∧
    ((predictor = 1 ∨ predictor = 2 ∨ predictor = 3 ∨ predictor = 7) →
      0 ≤ encPredicted P predictor row col nb ∧ encPredicted P predictor row col nb < Go.shl 1 P) :=
  encPredicted_range P predictor row col nb hP hp hnb

/-! ## L3 — categories and amplitude bits -/

/-- every 16-bit difference survives category + amplitude coding; categories are 0..16, the
    amplitude fits the category's bit count, category 16 is exactly −32768 and carries no bits -/
theorem category_roundtrip (d : Int) (hlo : -32768 ≤ d) (hhi : d ≤ 32767) :
    receiveLosslessDifference (encodeLosslessDifference d).1 (encodeLosslessDifference d).2 = d ∧
    0 ≤ (encodeLosslessDifference d).1 ∧ (encodeLosslessDifference d).1 ≤ 16 ∧
    0 ≤ (encodeLosslessDifference d).2 ∧
    (encodeLosslessDifference d).2 < (2:Int) ^ (encodeLosslessDifference d).1.toNat ∧
    ((encodeLosslessDifference d).1 = 16 ↔ d = -32768) :=
  category_roundtrip' d hlo hhi

theorem category16_no_bits : encodeLosslessDifference (-32768) = (16, 0) ∧ extraBits 16 = 0 ∧
    receiveLosslessDifference 16 0 = -32768 := by decide

example : encodeLosslessDifference (-5) = (3, 2) ∧ receiveLosslessDifference 3 2 = -5 := by decide

/-- the frequency pass (`diffCategory`) counts the category the scan emits, so the emitted
    category always has a code in the per-image optimal table -/
theorem diffCategory_eq (d : Int) (hlo : -32768 ≤ d) (hhi : d ≤ 32767) :
    diffCategory d = (encodeLosslessDifference d).1 := diffCategory_eq' d hlo hhi

/-- the encoder's difference is always a 16-bit value (so L3 applies to it) -/
theorem encDiff_range (sample predicted : Int) :
    -32768 ≤ encDiff sample predicted ∧ encDiff sample predicted ≤ 32767 := by
  simp only [encDiff, Go.wrap16]; omega

/-! ## L4 — bit writer / reader and the stuffing invariant -/

/-- THE STUFFING INVARIANT: whatever is written (any values, widths ≤ 16) the entropy-coded
    bytes have every 0xFF followed by 0x00 — no marker code inside the scan (reused by C16) -/
theorem huffbits_stuffing_invariant (ws : List (Nat × Nat)) (hn : ∀ w ∈ ws, w.2 ≤ 16) :
    StuffOk (writeAll {} ws) = true := writeAll_stuffOk ws hn

/-- the reader over the writer's bytes sees exactly the written bits, then only 1-padding (< 8 bits) -/
theorem huffbits_roundtrip_thm (ws : List (Nat × Nat)) (hn : ∀ w ∈ ws, w.2 ≤ 16) :
    ∃ pad : List Bool, pad.length < 8 ∧ (∀ b ∈ pad, b = true) ∧
      pending { data := writeAll {} ws } = ws.flatMap (fun w => bitsOf w.1 w.2) ++ pad :=
  huffbits_roundtrip ws hn

/-- `ReadBit` returns the next pending bit and keeps the invariants -/
theorem readBit_correct (d : HuffDec) (hs : StuffOk d.data = true) (hb : d.nBits ≤ 7) (b : Bool)
    (rest : List Bool) (hp : pending d = b :: rest) :
    ∃ d', d.readBit = some (b, d') ∧ pending d' = rest ∧ StuffOk d'.data = true ∧ d'.nBits ≤ 7 :=
  readBit_spec d hs hb b rest hp

/-- `ReadBits(n)`, n ≤ 16, returns the number spelled by the next n pending bits -/
theorem readBits_correct (d : HuffDec) (hs : StuffOk d.data = true) (hb : d.nBits ≤ 7) (n : Nat)
    (hn : n ≤ 16) (bs rest : List Bool) (hl : bs.length = n) (hp : pending d = bs ++ rest) :
    ∃ d', d.readBits n = some (ofBits bs, d') ∧ pending d' = rest ∧ StuffOk d'.data = true ∧ d'.nBits ≤ 7 :=
  readBits_spec d hs hb n hn bs rest hl hp

/-- amplitude bits written with `WriteBits(bits, cat)` read back as the same number -/
theorem amplitude_roundtrip (v n : Nat) (hv : v < 2 ^ n) : ofBits (bitsOf v n) = v := by
  rw [ofBits_bitsOf]; exact Nat.mod_eq_of_lt hv

/-- the 8-bit lookup fast path of `HuffmanDecoder.Decode` is dead code -/
theorem decode_fast_path_is_dead (d : HuffDec) (t : Table) (hb : d.nBits ≤ 7) :
    d.decode t = decodeLoop t.values HuffDec.readBit t.codes 0 d := decode_fast_path_dead d t hb

example : (∀ w ∈ [((0xFF : Nat), (8 : Nat)), (5, 3)], w.2 ≤ 16) ∧ StuffOk [0xFF, 0x00, 0xBF] = true := by decide

/-! ## L5 — canonical Huffman tables (`HuffmanTable.Build`, `BuildHuffmanCodes`, `Decode`) -/

/-- `Build` succeeds on every valid table (its over-subscription guard — before fix 1cb8f42 the
    `lookupTable[code+j]` / `Values[p]` index panic — cannot fire) -/
theorem table_build_ok (bits : List Nat) (values : Array Nat) (hv : ValidTable bits values = true) :
    ∃ t, Table.build bits values = .ok t ∧ t.values = values ∧ t.codes = buildCodes bits 0 0 :=
  build_ok bits values hv

/-- untrusted BITS = [3,0,…] are rejected with an error (regression: this input used to drive the
    lookup index to 256 and panic) -/
theorem build_rejects_oversubscribed :
    Table.build [3, 0, 0, 0, 0, 0, 0, 0, 0, 0, 0, 0, 0, 0, 0, 0] #[0, 1, 2] = .err := by decide

/-- every symbol of a valid table has a code of 1..16 bits that fits its length -/
theorem canonical_codes_wf (bits : List Nat) (values : Array Nat) (hv : ValidTable bits values = true)
    (sym : Nat) (hs : sym ∈ values.toList) :
    ∃ c len, (buildHuffmanCodes bits values)[sym]? = some (c, len) ∧ 1 ≤ len ∧ len ≤ 16 ∧ c < 2 ^ len :=
  codes_wf bits values hv sym hs

/-- L5: for every valid (BITS, HUFFVAL) the decoder's slow path, fed the encoder's code of
    `sym` followed by anything, returns `sym` and consumes exactly the code's bits -/
theorem canonical_decode_encode_thm (bits : List Nat) (values : Array Nat)
    (hv : ValidTable bits values = true) (sym : Nat) (hs : sym ∈ values.toList) (c len : Nat)
    (hc : (buildHuffmanCodes bits values)[sym]? = some (c, len)) (rest : List Bool) :
    decodeLoop values listBit (buildCodes bits 0 0) 0 (bitsOf c len ++ rest) = .ok (sym, rest) :=
  canonical_decode_encode bits values hv sym hs c len hc rest

/-- a symbol that is not in the table has Len = 0: `WriteBits(code, 0)` would silently write nothing -/
theorem canonical_codes_absent (bits : List Nat) (values : Array Nat) (sym : Nat) (h256 : sym < 256)
    (hs : sym ∉ values.toList) : (buildHuffmanCodes bits values)[sym]? = some (0, 0) :=
  codes_absent bits values sym h256 hs

example : ValidTable [0, 1, 5, 1, 1, 1, 1, 1, 1, 0, 0, 0, 0, 0, 0, 0] #[0, 1, 2, 3, 4, 5, 6, 7, 8, 9, 10, 11] = true := by
  decide

/-! ## L7 — whole-scan round trip (composition of L1–L5 over the scan loops) -/

/-- The entropy-coded segment: any sequence of (category, amplitude) symbols written with a valid
    table's codes and `WriteBits`/`Flush` is read back symbol for symbol by `Decode` + `ReadBits`,
    and the bytes satisfy the stuffing invariant. -/
theorem entropy_layer_roundtrip (bits : List Nat) (values : Array Nat) (t : Table)
    (hv : ValidTable bits values = true) (ht : Table.build bits values = .ok t)
    (syms : List (Nat × Nat)) (hok : ∀ x ∈ syms, SymOk x ∧ x.1 ∈ values.toList) :
    (∃ d', readSyms t syms.length
        { data := writeAll {} (symWrites (buildHuffmanCodes bits values) syms) } = .ok (syms, d')) ∧
    StuffOk (writeAll {} (symWrites (buildHuffmanCodes bits values) syms)) = true :=
  entropy_roundtrip bits values t hv ht syms hok

/-- L7: `decodeScan (encodeScan planes) = planes` for jpeg/lossless (sv1 = false, any predictor)
    and lossless14sv1 (sv1 = true): every geometry w × h × nc (no upper bound), every precision
    2..16, every P-bit content, every valid Huffman table that has a code for each category the scan
    emits (`emittedCats`, executable) — which the per-image table has by `diffCategory_eq`, GIVEN
    that `BuildOptimalHuffmanTable` returns a valid table containing every counted category (L6).
    The scan bytes satisfy the stuffing invariant. -/
theorem lossless_scan_roundtrip_thm (sv1 : Bool) (P predictor w h nc : Nat) (bits : List Nat)
    (values : Array Nat) (t : Table) (s : Array (Array Int))
    (hP : 2 ≤ P ∧ P ≤ 16)
    (hv : ValidTable bits values = true) (ht : Table.build bits values = .ok t)
    (hcat : ∀ k ∈ emittedCats sv1 P predictor w h nc s, k ∈ values.toList)
    (hsz : s.size = nc ∧ ∀ c (hc : c < s.size), s[c].size = w * h)
    (hrng : ∀ c (hc : c < s.size) i (hi : i < s[c].size), 0 ≤ s[c][i] ∧ s[c][i] < Go.shl 1 P) :
    ∃ scan, encodeScan sv1 P predictor w h nc (buildHuffmanCodes bits values) s = .ok scan ∧
      StuffOk scan = true ∧ decodeScan sv1 P predictor w h nc t scan = .ok s :=
  lossless_scan_roundtrip_emitted sv1 P predictor w h nc bits values t s hP hv ht hcat hsz hrng

/-- non-vacuity: a 2×2 one-component 8-bit image, predictor 4, the K.3 luminance DC table -/
example :
    let bits := [0, 1, 5, 1, 1, 1, 1, 1, 1, 0, 0, 0, 0, 0, 0, 0]
    let values : Array Nat := #[0, 1, 2, 3, 4, 5, 6, 7, 8, 9, 10, 11]
    let s : Array (Array Int) := #[#[10, 200, 30, 40]]
    ValidTable bits values = true ∧ (∃ t, Table.build bits values = .ok t) ∧
    (∀ k ∈ emittedCats false 8 4 2 2 1 s, k ∈ values.toList) := by
  refine ⟨by decide, table_build_ok _ _ (by decide) |>.imp (fun _ h => h.1), by decide⟩

/-! ## L6 — `BuildOptimalHuffmanTable` (code-shaped model `JLL.Opt.buildOptimal`) -/

/-- safety: with at most 32 non-zero frequencies among the 256 (the lossless alphabet has 17) neither
    the `bits[size]` index panic nor any other panic nor non-termination of the `others` chain
    walks is reachable.  (Since fix PENDING:c11-huffman-depth-over-32 the count hypothesis is not
    needed any more: `optimal_table_total` below.) -/
theorem optimal_table_no_panic (f : List Nat) (hlen : f.length = 256)
    (hc : f.countP (fun x => x != 0) ≤ 32) : ∃ r, Opt.buildOptimal f = .ok r :=
  Opt.buildOptimal_ok_of_count f hlen hc

/-- L6: for every frequency vector over the 17 difference categories the result is a `ValidTable`
    (16 counts, counts sum to the number of values, values distinct bytes, Kraft) with STRICT
    Kraft inequality (the all-ones code stays reserved), code lengths ≤ 16, and its symbols are
    exactly the categories with non-zero frequency -/
theorem optimal_table_valid (f : List Nat) (hf : Opt.LosslessFreq f) :
    ∃ bits values, Opt.buildOptimal f = .ok (bits, values) ∧
      ValidTable (bits.map Int.toNat) values.toArray = true ∧
      KraftStrict (bits.map Int.toNat) = true ∧
      (∀ i, i ∈ values ↔ i < 256 ∧ f[i]?.getD 0 ≠ 0) :=
  optimal_table_valid' f hf

example : Opt.LosslessFreq (catFreq [0, 3, 3, 16, 7]) := catFreq_lossless _ (by decide)

/-! ### L6 for ANY alphabet (≤ 256 symbols: the DCT codecs' DC/AC tables use the same function) -/

/-- `BuildOptimalHuffmanTable` returns normally for ANY 256 frequencies: no panic, no
    non-termination.  Since fix PENDING:c11-huffman-depth-over-32 the work array `bits` has 257 entries
    (`maxHuffmanCodeLength = 256`), so `bits[size]++` is in range for every possible code size: a
    Huffman tree over the 256 symbols plus the pseudo-symbol is at most 256 levels deep
    (`Opt.depthLe_256`).  Before the fix the array had 33 entries and the function panicked exactly
    when the depth of the unrestricted code exceeded 32.  No restriction on the alphabet: all 256
    byte values may have non-zero frequency. -/
theorem optimal_table_total (f : List Nat) (hlen : f.length = 256) :
    (∃ r, Opt.buildOptimal f = .ok r) ∧ Opt.buildOptimal f ≠ .panic ∧ Opt.buildOptimal f ≠ .err :=
  ⟨Opt.buildOptimal_total f hlen, Opt.buildOptimal_ne_panic f hlen, Opt.buildOptimal_ne_err f hlen⟩

/-- the result is a valid table for ANY alphabet and ANY counts — no bound on the counts or their
    total remains: 16 non-negative counts summing to the number of values, values = exactly the
    symbols with non-zero frequency (each once), strict Kraft inequality (all-ones code reserved),
    code lengths ≤ 16 -/
theorem optimal_table_valid_any_alphabet (f : List Nat) (hlen : f.length = 256) :
    ∃ bits values, Opt.buildOptimal f = .ok (bits, values) ∧
      bits.length = 16 ∧ (∀ x ∈ bits, 0 ≤ x) ∧ (bits.map Int.toNat).sum = values.length ∧
      values.Nodup ∧ (∀ i, i ∈ values ↔ i < 256 ∧ f[i]?.getD 0 ≠ 0) ∧ Opt.kraft16 bits < 65536 :=
  Opt.buildOptimal_valid f hlen

/-- the depth is bounded by the total count: a code size d ≥ 1 needs fib (d+2) ≤ total + 1, so every
    frequency vector with fewer than fib 35 − 1 = 9 227 464 counted symbols has depth ≤ 32.  No
    longer needed for safety (`optimal_table_total` holds without it); kept because it says when
    the length-limiting loop has work beyond size 32 (only from that total on), i.e. when the code
    differs from what libjpeg's 33-entry array could handle.  The bound is sharp (`[fib 33, …, fib 1]`
    has total fib 35 − 1 and depth 33). -/
theorem optimal_table_depth_from_total (f : List Nat) (hlen : f.length = 256)
    (hs : f.sum + 1 < 9227465) : Opt.DepthLe f 32 ∧ Opt.fib 35 = 9227465 :=
  ⟨Opt.depthLe_of_sum f hlen hs, Opt.fib_35⟩

example : (catFreq [0, 3, 3, 16, 7]).length = 256 := by simp [catFreq]

/-- hypotheses of `optimal_table_depth_from_total` are satisfiable; and an alphabet with all 256
    symbols present is admissible for `optimal_table_total` / `optimal_table_valid_any_alphabet` -/
example : (List.replicate 256 1).length = 256 ∧ (List.replicate 256 1).sum + 1 < 9227465 :=
  ⟨List.length_replicate, by rw [List.sum_replicate_nat]; decide⟩

/-- regression / non-vacuity on the former panic witness `[fib 33, fib 32, …, fib 2, fib 1]` (total
    fib 35 − 1 = 9 227 464, just outside `optimal_table_depth_from_total`; depth 33): before fix
    PENDING:c11-huffman-depth-over-32 `bits[33]++` was out of range on it, now the function returns
    normally.  (`#eval` of the model gives `.ok ([1,1,1,1,1,1,1,1,1,1,1,0,1,0,2,19], [223, …, 255])`
    and `Opt.maxDepth f = 33`.  Kernel evaluation of the run takes > 5 min, so the instance is stated
    through the theorem.) -/
example :
    let f : List Nat := List.replicate 223 0 ++
      [3524578, 2178309, 1346269, 832040, 514229, 317811, 196418, 121393, 75025, 46368, 28657,
       17711, 10946, 6765, 4181, 2584, 1597, 987, 610, 377, 233, 144, 89, 55, 34, 21, 13, 8, 5, 3, 2, 1, 1]
    f.length = 256 ∧ f.sum + 1 = 9227465 ∧
    (∃ r, Opt.buildOptimal f = .ok r) ∧ Opt.buildOptimal f ≠ .panic ∧ Opt.buildOptimal f ≠ .err := by
  intro f
  have hlen : f.length = 256 := by
    simp only [f, List.length_append, List.length_replicate, List.length_cons, List.length_nil]
  have hsum : f.sum + 1 = 9227465 := by
    simp only [f, List.sum_append, List.sum_replicate_nat, List.sum_cons, List.sum_nil, Nat.reduceMul,
      Nat.reduceAdd]
  exact ⟨hlen, hsum, optimal_table_total f hlen⟩

/-! ## L6 + L7 — the scan round trip with the per-image optimal table, no table hypothesis left -/

/-- `lossless_roundtrip` / `sv1_roundtrip` at scan level: for every geometry, precision 2..16,
    predictor (sv1 = false) or SV1 (sv1 = true) and P-bit content, the table built by
    `BuildOptimalHuffmanTable` from the category counts of the scan (`catFreq (emittedCats …)`, what
    the frequency pass accumulates — `diffCategory_eq`, `neighbour_rules_agree`) passes `Build`,
    `encodeScan` succeeds, its bytes satisfy the stuffing invariant, and `decodeScan` returns the
    source planes. -/
theorem lossless_scan_roundtrip_optimal (sv1 : Bool) (P predictor w h nc : Nat) (s : Array (Array Int))
    (hP : 2 ≤ P ∧ P ≤ 16)
    (hsz : s.size = nc ∧ ∀ c (hc : c < s.size), s[c].size = w * h)
    (hrng : ∀ c (hc : c < s.size) i (hi : i < s[c].size), 0 ≤ s[c][i] ∧ s[c][i] < Go.shl 1 P) :
    ∃ bits values t scan,
      Opt.buildOptimal (catFreq (emittedCats sv1 P predictor w h nc s)) = .ok (bits, values) ∧
      Table.build (bits.map Int.toNat) values.toArray = .ok t ∧
      encodeScan sv1 P predictor w h nc (buildHuffmanCodes (bits.map Int.toNat) values.toArray) s = .ok scan ∧
      StuffOk scan = true ∧ decodeScan sv1 P predictor w h nc t scan = .ok s :=
  lossless_scan_roundtrip_optimal' sv1 P predictor w h nc s hP hsz hrng

example : let s : Array (Array Int) := #[#[0, 32767, 32767, 0]]
    s.size = 1 ∧ (∀ c (hc : c < s.size), s[c].size = 2 * 2) ∧
    (∀ c (hc : c < s.size) i (hi : i < s[c].size), 0 ≤ s[c][i] ∧ s[c][i] < Go.shl 1 15) := by decide

/-! ## END TO END — `Decode (Encode pixels) = pixels` at byte level -/

/-- C02 for the byte-exact models of `lossless.Encode/Decode` (sv1 = false) and
    `lossless14sv1.Encode/Decode` (sv1 = true), `Model/JpegLosslessStream.lean`:
    for every width and height in 1..65535, 1 or 3 components, precision 2..16, predictor
    argument 0..7 (0 = automatic selection: whatever `SelectBestPredictor` returns, proved to be in
    1..7) and SV1, and every native pixel buffer whose samples occupy the low P bits (`PixOk`:
    P ≤ 8 one byte per sample < 2^P; P > 8 two bytes little-endian, high byte < 2^(P−8)):
    `Encode` succeeds and `Decode` of its stream returns exactly the pixel bytes together with the
    same width, height, component count and precision. -/
theorem lossless_roundtrip (sv1 : Bool) (pix : Array Nat) (w h nc P predictor : Nat)
    (hw : 1 ≤ w ∧ w ≤ 65535) (hh : 1 ≤ h ∧ h ≤ 65535) (hc : nc = 1 ∨ nc = 3)
    (hP : 2 ≤ P ∧ P ≤ 16) (hpr : predictor ≤ 7) (hpix : PixOk P w h nc pix) :
    ∃ stream, Stream.encode sv1 pix w h nc P predictor = .ok stream ∧
      Stream.decode sv1 stream = .ok (pix.toList, w, h, nc, P) :=
  encode_decode' sv1 pix w h nc P predictor hw hh hc hP hpr hpix

example : PixOk 12 2 1 1 #[0xFF, 0x0F, 0x00, 0x00] ∧ PixOk 8 1 1 3 #[1, 2, 255] := by
  refine ⟨?_, ?_⟩ <;> simp only [PixOk] <;> decide

/-- container bytes ↔ samples: `samplesToPixels ∘ pixelsToSamples = id` on admissible buffers, and the
    samples are P-bit values in planes of the right shape -/
theorem pixels_samples_inverse (P w h nc : Nat) (pix : Array Nat) (hp : PixOk P w h nc pix)
    (hP : 2 ≤ P ∧ P ≤ 16) :
    ∃ s, pixelsToSamples P w h nc pix = .ok s ∧ Sized w h nc s ∧ InRange P s ∧
      samplesToPixels P w h nc s = .ok pix.toList := pixels_samples P w h nc pix hp hP

/-- the frequency pass accumulates exactly the category counts of the scan it precedes -/
theorem freq_pass_counts (sv1 : Bool) (P predictor w h nc : Nat) (s : Array (Array Int)) (hs : Sized w h nc s) :
    Stream.freqPass sv1 P predictor w h nc s = .ok (catFreq (emittedCats sv1 P predictor w h nc s)) :=
  freqPass_ok sv1 P predictor w h nc s hs

/-- automatic selection returns a legal predictor -/
theorem auto_predictor_legal (w h nc : Nat) (s : Array (Array Int)) (hs : Sized w h nc s) :
    ∃ p, Stream.selectBestPredictor w h nc s = .ok p ∧ 1 ≤ p ∧ p ≤ 7 :=
  selectBestPredictor_ok w h nc s hs

/-- the decoder's marker loop on the encoder's header: for ANY stuffing-clean scan the stream model of
    `Decode` reduces to the scan decoder with the table of the DHT segment -/
theorem decode_of_encoder_layout (sv1 : Bool) (w h nc P pred : Nat) (tb : JpegC.HuffTable) (t : Table)
    (hdr scan : List Nat)
    (hw : 1 ≤ w ∧ w ≤ 65535) (hh : 1 ≤ h ∧ h ≤ 65535) (hc : nc = 1 ∨ nc = 3) (hP : 2 ≤ P ∧ P ≤ 16)
    (hpred : 1 ≤ pred ∧ pred ≤ 7) (hsv : sv1 = true → pred = 1) (htb : JpegC.TableOk tb)
    (hb : Table.build (tb.bits.map Int.toNat) tb.values.toArray = .ok t)
    (hhdr : (if sv1 then JpegC.sv1Header w h nc P tb else JpegC.losslessHeader w h nc P pred tb) = .ok hdr)
    (hst : StuffOk scan = true) :
    Stream.decode sv1 (hdr ++ scan ++ [0xFF, 0xD9]) =
      (do let s ← decodeScan sv1 P pred w h nc t scan
          let pix ← samplesToPixels P w h nc s
          pure (pix, w, h, nc, P)) :=
  Stream.decode_header sv1 w h nc P pred tb t hdr scan hw hh hc hP hpred hsv htb hb hhdr hst

end JLL
