import GdcVerif.Model.JpegLossless
import GdcVerif.Lemmas.JpegLossless
import GdcVerif.Lemmas.JllBits
import GdcVerif.Lemmas.JllCanon
/-!
  C02 — JPEG Lossless (Process 14, predictors 1–7) and SV1: exact reconstruction.

  Property theorems only.  `Predictor` and `losslessDifference` are the regenerated
  `Gen.JpegLossless` definitions; the scan loops' neighbour trees, the wrap block, the
  category coder, the bit writer/reader and the canonical Huffman tables are the code-shaped
  hand model `Model/JpegLossless.lean`, tied to /repo by this check's correspondence run.

  FINDING (class `jll-pred456-wrap`): layer L2 is FALSE for the unchanged decoders when the
  prediction leaves [0, 2^P) — predictors 4–6 at P = 15, 16 — see `diff_wrap_inverse_counterexample`.
-/
namespace JLL
open Gen.JpegLossless

/-! ## L1 — the copies of the neighbour-selection tree agree -/

/-- encoder scan, decoder scan and frequency pass of jpeg/lossless predict the same value -/
theorem neighbour_rules_agree (P predictor row col : Int) (nb : Nb) :
    decPredicted P predictor row col nb = encPredicted P predictor row col nb ∧
    freqPredicted P predictor row col nb = encPredicted P predictor row col nb :=
  ⟨decPredicted_eq_enc P predictor row col nb, freqPredicted_eq_enc P predictor row col nb⟩

/-- the SV1 trees (scan and frequency pass) are the general tree at predictor 1 -/
theorem sv1_rules_agree (P row col : Int) (nb : Nb) (hr : 0 ≤ row) (hc : 0 ≤ col) :
    sv1Predicted P row col nb = encPredicted P 1 row col nb ∧
    sv1FreqPredicted P row col nb = sv1Predicted P row col nb :=
  ⟨sv1Predicted_eq_enc P row col nb hr hc, sv1FreqPredicted_eq P row col nb hr hc⟩

example : encPredicted 8 4 1 1 ⟨10, 20, 5⟩ = 25 ∧ sv1Predicted 8 1 0 ⟨10, 20, 5⟩ = 20 := by decide

/-! ## L2 — difference modulo 2^16 and its inverse -/

/-- The full statement of L2 for the decoder as it is. -/
def diff_wrap_inverse_FullStatement : Prop :=
  ∀ (P predictor row col : Int) (nb : Nb) (sample : Int),
    2 ≤ P ∧ P ≤ 16 → 1 ≤ predictor ∧ predictor ≤ 7 → 0 ≤ row → 0 ≤ col → NbIn P nb →
    0 ≤ sample ∧ sample < Go.shl 1 P →
    decSample P (decPredicted P predictor row col nb)
      (encDiff sample (encPredicted P predictor row col nb)) = sample

/-- The unchanged decoder violates L2: P = 15, predictor 4, Ra = Rb = 32767, Rc = 0, sample 0
    (the image [0, 32767; 32767, 0] at its last position) reconstructs 32768. -/
theorem diff_wrap_inverse_counterexample :
    decSample 15 (decPredicted 15 4 1 1 ⟨32767, 32767, 0⟩)
      (encDiff 0 (encPredicted 15 4 1 1 ⟨32767, 32767, 0⟩)) = 32768 := by decide

/-- … hence the full statement is false for the code as it is. -/
theorem diff_wrap_inverse_false : ¬ diff_wrap_inverse_FullStatement := by
  intro h
  have := h 15 4 1 1 ⟨32767, 32767, 0⟩ 0 (by decide) (by decide) (by decide) (by decide) (by decide) (by decide)
  rw [diff_wrap_inverse_counterexample] at this
  exact absurd this (by decide)

/-- witnesses for the other two affected predictors and for P = 16 -/
theorem diff_wrap_inverse_counterexamples_56_16 :
    decSample 15 (decPredicted 15 5 1 1 ⟨32767, 32767, 0⟩) (encDiff 0 (encPredicted 15 5 1 1 ⟨32767, 32767, 0⟩)) ≠ 0 ∧
    decSample 15 (decPredicted 15 6 1 1 ⟨32767, 32767, 0⟩) (encDiff 0 (encPredicted 15 6 1 1 ⟨32767, 32767, 0⟩)) ≠ 0 ∧
    decSample 16 (decPredicted 16 4 1 1 ⟨65535, 65535, 0⟩) (encDiff 0 (encPredicted 16 4 1 1 ⟨65535, 65535, 0⟩)) ≠ 0 := by
  decide

/-- L2, what holds for the unchanged code: predictors 1, 2, 3, 7 at every precision, every
    predictor at P ≤ 14, and predictors 4–6 at P = 15, 16 whenever the prediction stays inside
    [0, 2^P).  Missing for the full statement: predictors 4–6 at P ∈ {15, 16} with a prediction
    outside [0, 2^P) (there the statement is false, see above). -/
theorem diff_wrap_inverse_partial (P predictor row col : Int) (nb : Nb) (sample : Int)
    (hP : 2 ≤ P ∧ P ≤ 16) (hp : 1 ≤ predictor ∧ predictor ≤ 7)
    (hnb : NbIn P nb) (hs : 0 ≤ sample ∧ sample < Go.shl 1 P)
    (hok : predictor = 1 ∨ predictor = 2 ∨ predictor = 3 ∨ predictor = 7 ∨ P ≤ 14 ∨
       (0 ≤ encPredicted P predictor row col nb ∧ encPredicted P predictor row col nb < Go.shl 1 P)) :
    decSample P (decPredicted P predictor row col nb)
      (encDiff sample (encPredicted P predictor row col nb)) = sample :=
  diff_wrap_inverse_partial' P predictor row col nb sample hP hp hnb hs hok

example : NbIn 16 ⟨65535, 0, 65535⟩ ∧ (0:Int) ≤ 65535 ∧ (65535:Int) < Go.shl 1 16 := by decide

/-- L2 for the PROPOSED repair `sample := (predicted + diff) & (modulus - 1)`: the full
    statement, for every predicted value whatsoever (so for every predictor and neighbourhood). -/
theorem diff_wrap_inverse_patched (P predictor row col : Int) (nb : Nb) (sample : Int)
    (hP : 2 ≤ P ∧ P ≤ 16) (hs : 0 ≤ sample ∧ sample < Go.shl 1 P) :
    decSamplePatched P (decPredicted P predictor row col nb)
      (encDiff sample (encPredicted P predictor row col nb)) = sample := by
  rw [decPredicted_eq_enc]; exact diff_wrap_inverse_patched' P _ sample hP hs

example : decSamplePatched 15 (decPredicted 15 4 1 1 ⟨32767, 32767, 0⟩)
    (encDiff 0 (encPredicted 15 4 1 1 ⟨32767, 32767, 0⟩)) = 0 := by decide

/-- SV1 (selection value 1 on both sides) needs no repair: L2 holds in full for its trees -/
theorem sv1_diff_wrap_inverse (P row col : Int) (nb : Nb) (sample : Int)
    (hP : 2 ≤ P ∧ P ≤ 16) (hr : 0 ≤ row) (hc : 0 ≤ col)
    (hnb : NbIn P nb) (hs : 0 ≤ sample ∧ sample < Go.shl 1 P) :
    decSample P (sv1Predicted P row col nb) (encDiff sample (sv1Predicted P row col nb)) = sample := by
  rw [sv1Predicted_eq_enc P row col nb hr hc]
  exact diff_wrap_inverse_partial' P 1 row col nb sample hP (by decide) hnb hs (Or.inl rfl)

example : NbIn 12 ⟨4095, 0, 7⟩ ∧ (0:Int) ≤ 4095 ∧ (4095:Int) < Go.shl 1 12 := by decide

/-- the prediction is confined to [-2^P, 2^(P+1)), and to [0, 2^P) for predictors 1, 2, 3, 7 -/
theorem predicted_range (P predictor row col : Int) (nb : Nb) (hP : 2 ≤ P ∧ P ≤ 16)
    (hp : 1 ≤ predictor ∧ predictor ≤ 7) (hnb : NbIn P nb) :
    (-(Go.shl 1 P) ≤ encPredicted P predictor row col nb ∧
      encPredicted P predictor row col nb < 2 * Go.shl 1 P) ∧
    ((predictor = 1 ∨ predictor = 2 ∨ predictor = 3 ∨ predictor = 7) →
      0 ≤ encPredicted P predictor row col nb ∧ encPredicted P predictor row col nb < Go.shl 1 P) :=
  encPredicted_range P predictor row col nb hP hp hnb

/-! ## L3 — categories and amplitude bits -/

/-- every 16-bit difference survives category + amplitude coding; categories are 0..16, the
    amplitude fits the category's bit count, category 16 is exactly −32768 and carries no bits -/
theorem category_roundtrip (d : Int) (hlo : -32768 ≤ d) (hhi : d ≤ 32767) :
    receiveLosslessDifference (encodeLosslessDifference d).1 (encodeLosslessDifference d).2 = d ∧
    0 ≤ (encodeLosslessDifference d).1 ∧ (encodeLosslessDifference d).1 ≤ 16 ∧
    0 ≤ (encodeLosslessDifference d).2 ∧
    (encodeLosslessDifference d).2 < (2:Int) ^ (encodeLosslessDifference d).1.toNat ∧
    ((encodeLosslessDifference d).1 = 16 ↔ d = -32768) :=
  category_roundtrip' d hlo hhi

theorem category16_no_bits : encodeLosslessDifference (-32768) = (16, 0) ∧ extraBits 16 = 0 ∧
    receiveLosslessDifference 16 0 = -32768 := by decide

example : encodeLosslessDifference (-5) = (3, 2) ∧ receiveLosslessDifference 3 2 = -5 := by decide

/-- the frequency pass (`diffCategory`) counts the category the scan emits, so the emitted
    category always has a code in the per-image optimal table -/
theorem diffCategory_eq (d : Int) (hlo : -32768 ≤ d) (hhi : d ≤ 32767) :
    diffCategory d = (encodeLosslessDifference d).1 := diffCategory_eq' d hlo hhi

/-- the encoder's difference is always a 16-bit value (so L3 applies to it) -/
theorem encDiff_range (sample predicted : Int) :
    -32768 ≤ encDiff sample predicted ∧ encDiff sample predicted ≤ 32767 := by
  simp only [encDiff, Go.wrap16]; omega

/-! ## L4 — bit writer / reader and the stuffing invariant -/

/-- THE STUFFING INVARIANT: whatever is written (any values, widths ≤ 16) the entropy-coded
    bytes have every 0xFF followed by 0x00 — no marker code inside the scan (reused by C16) -/
theorem huffbits_stuffing_invariant (ws : List (Nat × Nat)) (hn : ∀ w ∈ ws, w.2 ≤ 16) :
    StuffOk (writeAll {} ws) = true := writeAll_stuffOk ws hn

/-- the reader over the writer's bytes sees exactly the written bits, then only 1-padding (< 8 bits) -/
theorem huffbits_roundtrip_thm (ws : List (Nat × Nat)) (hn : ∀ w ∈ ws, w.2 ≤ 16) :
    ∃ pad : List Bool, pad.length < 8 ∧ (∀ b ∈ pad, b = true) ∧
      pending { data := writeAll {} ws } = ws.flatMap (fun w => bitsOf w.1 w.2) ++ pad :=
  huffbits_roundtrip ws hn

/-- `ReadBit` returns the next pending bit and keeps the invariants -/
theorem readBit_correct (d : HuffDec) (hs : StuffOk d.data = true) (hb : d.nBits ≤ 7) (b : Bool)
    (rest : List Bool) (hp : pending d = b :: rest) :
    ∃ d', d.readBit = some (b, d') ∧ pending d' = rest ∧ StuffOk d'.data = true ∧ d'.nBits ≤ 7 :=
  readBit_spec d hs hb b rest hp

/-- `ReadBits(n)`, n ≤ 16, returns the number spelled by the next n pending bits -/
theorem readBits_correct (d : HuffDec) (hs : StuffOk d.data = true) (hb : d.nBits ≤ 7) (n : Nat)
    (hn : n ≤ 16) (bs rest : List Bool) (hl : bs.length = n) (hp : pending d = bs ++ rest) :
    ∃ d', d.readBits n = some (ofBits bs, d') ∧ pending d' = rest ∧ StuffOk d'.data = true ∧ d'.nBits ≤ 7 :=
  readBits_spec d hs hb n hn bs rest hl hp

/-- amplitude bits written with `WriteBits(bits, cat)` read back as the same number -/
theorem amplitude_roundtrip (v n : Nat) (hv : v < 2 ^ n) : ofBits (bitsOf v n) = v := by
  rw [ofBits_bitsOf]; exact Nat.mod_eq_of_lt hv

/-- the 8-bit lookup fast path of `HuffmanDecoder.Decode` is dead code -/
theorem decode_fast_path_is_dead (d : HuffDec) (t : Table) (hb : d.nBits ≤ 7) :
    d.decode t = decodeLoop t.values HuffDec.readBit t.codes 0 d := decode_fast_path_dead d t hb

example : (∀ w ∈ [((0xFF : Nat), (8 : Nat)), (5, 3)], w.2 ≤ 16) ∧ StuffOk [0xFF, 0x00, 0xBF] = true := by decide

/-! ## L5 — canonical Huffman tables (`HuffmanTable.Build`, `BuildHuffmanCodes`, `Decode`) -/

/-- `Build` cannot hit its `lookupTable[code+j]` / `Values[p]` index panic on a valid table
    (for arbitrary BITS it can: see `build_can_panic`) -/
theorem table_build_ok (bits : List Nat) (values : Array Nat) (hv : ValidTable bits values = true) :
    ∃ t, Table.build bits values = .ok t ∧ t.values = values ∧ t.codes = buildCodes bits 0 0 :=
  build_ok bits values hv

/-- untrusted BITS = [3,0,…] drive the lookup index to 256: the model's panic outcome (C08) -/
theorem build_can_panic :
    Table.build [3, 0, 0, 0, 0, 0, 0, 0, 0, 0, 0, 0, 0, 0, 0, 0] #[0, 1, 2] = .panic := by decide

/-- every symbol of a valid table has a code of 1..16 bits that fits its length -/
theorem canonical_codes_wf (bits : List Nat) (values : Array Nat) (hv : ValidTable bits values = true)
    (sym : Nat) (hs : sym ∈ values.toList) :
    ∃ c len, (buildHuffmanCodes bits values)[sym]? = some (c, len) ∧ 1 ≤ len ∧ len ≤ 16 ∧ c < 2 ^ len :=
  codes_wf bits values hv sym hs

/-- L5: for every valid (BITS, HUFFVAL) the decoder's slow path, fed the encoder's code of
    `sym` followed by anything, returns `sym` and consumes exactly the code's bits -/
theorem canonical_decode_encode_thm (bits : List Nat) (values : Array Nat)
    (hv : ValidTable bits values = true) (sym : Nat) (hs : sym ∈ values.toList) (c len : Nat)
    (hc : (buildHuffmanCodes bits values)[sym]? = some (c, len)) (rest : List Bool) :
    decodeLoop values listBit (buildCodes bits 0 0) 0 (bitsOf c len ++ rest) = .ok (sym, rest) :=
  canonical_decode_encode bits values hv sym hs c len hc rest

/-- a symbol that is not in the table has Len = 0: `WriteBits(code, 0)` would silently write nothing -/
theorem canonical_codes_absent (bits : List Nat) (values : Array Nat) (sym : Nat) (h256 : sym < 256)
    (hs : sym ∉ values.toList) : (buildHuffmanCodes bits values)[sym]? = some (0, 0) :=
  codes_absent bits values sym h256 hs

example : ValidTable [0, 1, 5, 1, 1, 1, 1, 1, 1, 0, 0, 0, 0, 0, 0, 0] #[0, 1, 2, 3, 4, 5, 6, 7, 8, 9, 10, 11] = true := by
  decide

end JLL
