import GdcVerif.Model.JpegContainer
import GdcVerif.Spec.StrictJpeg
import GdcVerif.Spec.StrictJ2kTiles
import GdcVerif.Lemmas.JpegFrames
import GdcVerif.Lemmas.J2kContainer
import GdcVerif.Lemmas.C16Compose
import GdcVerif.Lemmas.GolombExact
import GdcVerif.Lemmas.J2kBodies
import GdcVerif.Lemmas.J2kLayerSlices
import GdcVerif.Lemmas.J2kHeaderFields
/-!
  C16 — every encoded frame is one well-formed, self-describing codestream.

  Property theorems only (helper lemmas: `Lemmas/JpegContainer.lean`, `Lemmas/JpegFrames.lean`,
  `Lemmas/J2kContainer.lean`).  The container model `Model/JpegContainer.lean` is tied to /repo by the
  correspondence run of this check; `Spec/StrictJpeg.lean` and `Spec/StrictJ2kTiles.lean` are
  independent readers written from T.81 Annex B / T.87 Annex C / 15444-1 Annex A.

  The entropy-coded bytes are a universally quantified parameter constrained only by the
  "no unescaped marker" predicate (`StrictJpeg.NoMarker` for the Huffman writer — C02's stuffing
  invariant `StuffOk` is the same predicate —, `StrictJpeg.NoMarkerLS` for the Golomb writer — C03),
  so the theorems cover baseline / extended / 12-bit without a model of the DCT path.
-/
namespace JpegC
open StrictJpeg

/-! ## marker-segment level -/

/-- (1) `WriteSegment`: when the payload fits, the two length bytes spell exactly `len(payload) + 2`
    and the segment is marker, length, payload. -/
theorem segment_length_ok (marker : Int) (data : List Nat) (h : data.length + 2 < 65536) :
    writeSegment marker data = writeMarker marker ++ [(data.length + 2) / 256, (data.length + 2) % 256] ++ data ∧
      ((data.length + 2) / 256) * 256 + (data.length + 2) % 256 = data.length + 2 ∧ (data.length + 2) / 256 < 256 := by
  refine ⟨?_, by omega, by omega⟩
  have : u16Of ((data.length : Int) + 2) = data.length + 2 := by
    have := u16Of_small (data.length + 2) h
    simpa using this
  have h2 : (data.length + 2) / 256 % 256 = (data.length + 2) / 256 := by omega
  simp [writeSegment, writeUint16, be16, this, h2]

/-- (1') the hypothesis of (1) is necessary: a 65534-byte payload gets the length field 0 -/
theorem segment_length_wraps_counterexample (data : List Nat) (h : data.length = 65534) :
    (writeSegment 0xFFE0 data).take 4 = [0xFF, 0xE0, 0, 0] := by
  simp [writeSegment, writeMarker, writeUint16, be16, u16Of, h]

/-- (2) every header payload the models emit fits its 16-bit length field, with the sizes the
    standard prescribes: SOF 6+3·Nf, SOS 4+2·Ns, DQT 65, DHT 17+n ≤ 17+256 -/
theorem header_payload_lengths (p h w near pred : Int) (c i : Nat) (q : List Int) (cls id : Nat) (t : HuffTable)
    (hc : c = 1 ∨ c = 3) (ht : TableOk t) :
    (sof3Payload p h w c).length = 6 + 3 * c ∧ (sofFixed 8 h w c ++ sof0Comps c).length = 6 + 3 * c ∧
    (sofFixedLS p h w c ++ compSpecs c).length = 6 + 3 * c ∧
    (sosLosslessPayload c pred).length = 4 + 2 * c ∧ (sosBaselinePayload c).length = 4 + 2 * c ∧
    (sosLSPayload c near).length = 4 + 2 * c ∧ (dqtPayload i q).length = 65 ∧
    (∃ pl, dhtPayload cls id t = .ok pl ∧ pl.length = 17 + t.values.length ∧ pl.length + 2 < 65536) := by
  have hd : ∃ pl, dhtPayload cls id t = .ok pl ∧ pl.length = 17 + t.values.length ∧ pl.length + 2 < 65536 :=
    ⟨_, dhtPayload_ok cls id t ht, dht_len_exact t ht _, dht_len t ht _⟩
  rcases hc with rfl | rfl <;>
    simp [sof3Payload, sofFixed, sofFixedLS, sof0Comps, compSpecs, scanSels, sosLosslessPayload, sosBaselinePayload,
      sosLSPayload, dqtPayload, hd] <;> decide

/-! ## JPEG family: strict parse of header ++ any marker-free scan ++ EOI returns the arguments -/

/-- (3) generic container theorem: SOI, segments accepted by the strict reader, an accepted SOS,
    ANY admissible entropy-coded segment, EOI ⇒ the strict reader accepts, the scan is delimited
    exactly, EOI is the last two bytes. -/
theorem container_parse (segs : List (Nat × List Nat)) (sos scan : List Nat) (st : St) (sh : ScanHdr) (f : Frame)
    (hsegs : ∀ s ∈ segs, SegOk s) (hfold : foldSteps {} segs = some st)
    (hsosl : sos.length + 2 < 65536) (hsos : parseSos st sos = some sh)
    (hf : st.frame = some f) (hdri : st.dri = 0) (hscan : ScanOk f.sof scan) (hne : scan ≠ []) :
    parse ([0xFF, 0xD8] ++ encSegs segs ++ encSeg 0xDA sos ++ scan ++ [0xFF, 0xD9]) =
      some { frame := f, scan := sh, dqt := st.dqt, dht := st.dht,
             hdrEnd := 2 + segsLen segs + 4 + sos.length,
             scanEnd := 2 + segsLen segs + 4 + sos.length + scan.length } :=
  parse_stream segs sos scan st sh f hsegs hfold hsosl hsos hf hdri hscan hne

/-- (4) JPEG Lossless (process 14, predictors 1–7): for every geometry that fits the 16-bit fields, every
    precision 2..16, 1 or 3 components, any valid Huffman table and ANY scan without an unescaped
    marker, the frame parses strictly and declares exactly the arguments; nothing follows EOI. -/
theorem lossless_header_fields_roundtrip (w h p pred : Int) (c : Nat) (t : HuffTable) (scan : List Nat)
    (hw : 0 < w ∧ w ≤ 65535) (hh : 0 < h ∧ h ≤ 65535) (hc : c = 1 ∨ c = 3) (hp : 2 ≤ p ∧ p ≤ 16)
    (hpred : 1 ≤ pred ∧ pred ≤ 7) (ht : TableOk t) (hs : NoMarker scan = true) (hne : scan ≠ []) :
    ∃ bytes r, withScan (losslessHeader w h c p pred t) scan = .ok bytes ∧ StrictJpeg.parse bytes = some r ∧
      r.frame = { sof := 0xC3, p := p.toNat, y := h.toNat, x := w.toNat, comps := comps111 c } ∧
      r.scan = { sels := (List.range c).map (fun i => ⟨i + 1, 0, 0⟩), ss := pred.toNat, se := 0, ah := 0, al := 0 } ∧
      r.dqt = [] ∧ r.dht = [{ tc := 0, th := 0, bits := t.bits.map byteOf, vals := t.values }] ∧
      r.scanEnd + 2 = bytes.length ∧ r.hdrEnd + scan.length = r.scanEnd ∧ bytes.drop r.scanEnd = [0xFF, 0xD9] :=
  lossless_frame w h p pred c t scan hw hh hc hp hpred ht hs hne

/-- (5) JPEG Lossless SV1: the same with selection value 1 -/
theorem sv1_header_fields_roundtrip (w h p : Int) (c : Nat) (t : HuffTable) (scan : List Nat)
    (hw : 0 < w ∧ w ≤ 65535) (hh : 0 < h ∧ h ≤ 65535) (hc : c = 1 ∨ c = 3) (hp : 2 ≤ p ∧ p ≤ 16)
    (ht : TableOk t) (hs : NoMarker scan = true) (hne : scan ≠ []) :
    ∃ bytes r, withScan (sv1Header w h c p t) scan = .ok bytes ∧ StrictJpeg.parse bytes = some r ∧
      r.frame = { sof := 0xC3, p := p.toNat, y := h.toNat, x := w.toNat, comps := comps111 c } ∧
      r.scan.ss = 1 ∧ r.scan.al = 0 ∧
      r.scanEnd + 2 = bytes.length ∧ r.hdrEnd + scan.length = r.scanEnd ∧ bytes.drop r.scanEnd = [0xFF, 0xD9] := by
  obtain ⟨b, r, h1, h2, h3, h4, _, _, h7, h8, h9⟩ :=
    lossless_frame w h p 1 c t scan hw hh hc hp (by omega) ht hs hne
  exact ⟨b, r, h1, h2, h3, by simp [h4], by simp [h4], h7, h8, h9⟩

/-- (6) JPEG-LS (lossless: `near = 0`; near-lossless: `near ≤ min(255, MAXVAL/2)`), with the JPEG-LS
    escape predicate on the scan -/
theorem jpegls_header_fields_roundtrip (w h p near : Int) (c : Nat) (scan : List Nat)
    (hw : 0 < w ∧ w ≤ 65535) (hh : 0 < h ∧ h ≤ 65535) (hc : c = 1 ∨ c = 3) (hp : 2 ≤ p ∧ p ≤ 16)
    (hnear : 0 ≤ near ∧ near.toNat ≤ min 255 ((2 ^ p.toNat - 1) / 2))
    (hs : NoMarkerLS scan = true) (hne : scan ≠ []) :
    ∃ bytes r, withScan (jpeglsHeader w h c p near) scan = .ok bytes ∧ StrictJpeg.parse bytes = some r ∧
      r.frame = { sof := 0xF7, p := p.toNat, y := h.toNat, x := w.toNat, comps := comps111 c } ∧
      r.scan = { sels := (List.range c).map (fun i => ⟨i + 1, 0, 0⟩), ss := near.toNat,
                 se := if c = 1 then 0 else 2, ah := 0, al := 0 } ∧
      r.dqt = [] ∧ r.dht = [] ∧
      r.scanEnd + 2 = bytes.length ∧ r.hdrEnd + scan.length = r.scanEnd ∧ bytes.drop r.scanEnd = [0xFF, 0xD9] :=
  jpegls_frame w h p near c scan hw hh hc hp hnear hs hne

/-- (6') plug for C03: `golomb_writer_stuffed` concludes `Golomb.Stuffed out ∧ ∀ b ∈ out, b < 256`, and
    `Golomb.Stuffed` has exactly the shape of `PairStuffed`; together with "the scan does not end on 0xFF"
    (NOT proved by C03 — it needs the freeBitCount bookkeeping of `GolombWriter.Flush`; observed on every
    real stream by the search) that is the `NoMarkerLS` hypothesis of (6). -/
theorem jpegls_scan_predicate_from_pairwise_stuffing (out : List Nat) (hs : PairStuffed out)
    (hb : ∀ b ∈ out, b < 256) (hl : out.getLast? ≠ some 255) : NoMarkerLS out = true :=
  noMarkerLS_of_pairStuffed out hs hb hl

/-- non-vacuity of (6'), and the last hypothesis is necessary: a scan ending on 0xFF is pairwise stuffed
    but would merge with EOI into `FF FF D9` -/
example : PairStuffed [0x12, 0xFF, 0x7F, 0x80] ∧ NoMarkerLS [0x12, 0xFF, 0x7F, 0x80] = true ∧
    PairStuffed [0x12, 0xFF] ∧ NoMarkerLS [0x12, 0xFF] = false := by
  refine ⟨by simp [PairStuffed], by decide, by simp [PairStuffed], by decide⟩

/-- (7) baseline (and 8-bit "extended", which is written by the baseline encoder) with the scan abstracted -/
theorem baseline_header_fields_roundtrip (w h : Int) (c : Nat) (t : BaseTables) (scan : List Nat)
    (hw : 0 < w ∧ w ≤ 65535) (hh : 0 < h ∧ h ≤ 65535) (hc : c = 1 ∨ c = 3) (ht : BaseOk c t)
    (hs : NoMarker scan = true) (hne : scan ≠ []) :
    ∃ bytes r, withScan (baselineHeader w h c t) scan = .ok bytes ∧ StrictJpeg.parse bytes = some r ∧
      r.frame.sof = 0xC0 ∧ r.frame.p = 8 ∧ r.frame.y = h.toNat ∧ r.frame.x = w.toNat ∧ r.frame.comps.length = c ∧
      (∀ k ∈ r.frame.comps, k.h = 1 ∧ k.v = 1) ∧
      r.scan.ss = 0 ∧ r.scan.se = 63 ∧ r.scan.ah = 0 ∧ r.scan.al = 0 ∧
      r.dqt.length = (if c = 1 then 1 else 2) ∧ r.dht.length = (if c = 1 then 2 else 4) ∧
      r.scanEnd + 2 = bytes.length ∧ r.hdrEnd + scan.length = r.scanEnd ∧ bytes.drop r.scanEnd = [0xFF, 0xD9] :=
  baseline_frame w h c t scan hw hh hc ht hs hne

/-- (8) 12-bit extended sequential (SOF1) with the scan abstracted -/
theorem ext12_header_fields_roundtrip (w h : Int) (q : List Int) (dc ac : HuffTable) (scan : List Nat)
    (hw : 0 < w ∧ w ≤ 65535) (hh : 0 < h ∧ h ≤ 65535) (hq : QOk q) (hdc : TableOk dc) (hac : TableOk ac)
    (hs : NoMarker scan = true) (hne : scan ≠ []) :
    ∃ bytes r, withScan (ext12Header w h q dc ac) scan = .ok bytes ∧ StrictJpeg.parse bytes = some r ∧
      r.frame = { sof := 0xC1, p := 12, y := h.toNat, x := w.toNat, comps := [⟨1, 1, 1, 0⟩] } ∧
      r.scan = { sels := [⟨1, 0, 0⟩], ss := 0, se := 63, ah := 0, al := 0 } ∧
      r.dqt = [{ pq := 0, tq := 0, q := zq q }] ∧ r.dht = [dhtOf 0 0 dc, dhtOf 1 0 ac] ∧
      r.scanEnd + 2 = bytes.length ∧ r.hdrEnd + scan.length = r.scanEnd ∧ bytes.drop r.scanEnd = [0xFF, 0xD9] :=
  ext12_frame w h q dc ac scan hw hh hq hdc hac hs hne

/-- the table used by the non-vacuity examples: one code of length 1 for category 0 -/
def exTable : HuffTable := { bits := [1, 0, 0, 0, 0, 0, 0, 0, 0, 0, 0, 0, 0, 0, 0, 0], values := [0] }

theorem exTable_ok : TableOk exTable := by
  constructor <;> decide

/-- non-vacuity of (4)–(6): the hypotheses hold for a 65535×300 16-bit RGB frame with predictor 7 and a
    scan that contains a stuffed 0xFF, and the conclusion computes on a concrete instance -/
example : (0 < (65535 : Int) ∧ (65535 : Int) ≤ 65535) ∧ TableOk exTable ∧ NoMarker [0x7F, 0xFF, 0x00, 0x3F] = true ∧
    NoMarkerLS [0x7F, 0xFF, 0x7F, 0x3F] = true ∧ (200 : Int).toNat ≤ min 255 ((2 ^ (16 : Int).toNat - 1) / 2) ∧
    ((withScan (losslessHeader 65535 300 3 16 7 exTable) [0x7F, 0xFF, 0x00, 0x3F]).bind fun b =>
      match parse b with
      | some r => .ok (r.frame.x, r.frame.y, r.frame.p, r.frame.comps.length, r.scan.ss)
      | none => .err) = .ok (65535, 300, 16, 3, 7) := by
  refine ⟨by decide, exTable_ok, by decide, by decide, by decide, by decide⟩

/-- (9) REPAIRED (commits c081061 / 47d622b): every JPEG-family header model — like the encoders at HEAD — rejects a
    width or height above 65535, so "the header is emitted" already implies that the sizes fit their 16-bit fields -/
theorem headers_reject_over_65535 (w h p pred near : Int) (c : Nat) (t : HuffTable) (bt : BaseTables) (q : List Int)
    (hbig : w > 65535 ∨ h > 65535) :
    losslessHeader w h c p pred t = .err ∧ sv1Header w h c p t = .err ∧ baselineHeader w h c bt = .err ∧
    ext12Header w h q t t = .err ∧ jpeglsHeader w h c p near = .err := by
  have g : w ≤ 0 ∨ h ≤ 0 ∨ w > 65535 ∨ h > 65535 := by omega
  simp [losslessHeader, sv1Header, baselineHeader, ext12Header, jpeglsHeader, g]

/-- regression anchor: the old witness (width 65536 was accepted and declared as 0) is now an error -/
example : losslessHeader 65536 1 1 8 1 exTable = .err ∧ jpeglsHeader 1 65536 3 8 0 = .err := by decide

/-! ## composed theorems: no open hypothesis on the entropy-coded bytes where C02 / C03 supply the writer -/

/-- (9a) JPEG Lossless and SV1, end to end at model level: header model + C02's scan model `encodeScan`.
    Only the arguments' own validity is assumed (`hok`: the header was emitted, i.e. the encoder's guards passed;
    C02's table/plane hypotheses; `TableOk` for the DHT). The strict reader accepts, returns the arguments, delimits
    exactly the scan bytes, and C02's decoder model maps those bytes back to the source planes. -/
theorem lossless_stream_wf_composed (sv1 : Bool) (P predictor w h nc : Nat) (bits : List Nat) (values : Array Nat)
    (t : JLL.Table) (s : JLL.Planes) (hdr : List Nat)
    (hP : 2 ≤ P ∧ P ≤ 16)
    (hv : JLL.ValidTable bits values = true) (ht : JLL.Table.build bits values = .ok t)
    (hcat : ∀ k ∈ JLL.emittedCats sv1 P predictor w h nc s, k ∈ values.toList)
    (hsz : JLL.Sized w h nc s) (hrng : JLL.InRange P s)
    (htab : TableOk (tableOf bits values))
    (hpred : 1 ≤ (if sv1 then 1 else predictor))
    (hok : losslessHeader w h nc P ((if sv1 then 1 else predictor : Nat) : Int) (tableOf bits values) = .ok hdr) :
    ∃ scan r, JLL.encodeScan sv1 P predictor w h nc (JLL.buildHuffmanCodes bits values) s = .ok scan ∧
      StrictJpeg.parse (hdr ++ scan ++ [0xFF, 0xD9]) = some r ∧
      r.frame = { sof := 0xC3, p := P, y := h, x := w, comps := comps111 nc } ∧
      r.scan.ss = (if sv1 then 1 else predictor) ∧ r.scan.se = 0 ∧ r.scan.ah = 0 ∧ r.scan.al = 0 ∧
      r.dht = [{ tc := 0, th := 0, bits := bits, vals := values.toList }] ∧
      (hdr ++ scan ++ [0xFF, 0xD9]).drop r.scanEnd = [0xFF, 0xD9] ∧
      ((hdr ++ scan ++ [0xFF, 0xD9]).drop r.hdrEnd).take (r.scanEnd - r.hdrEnd) = scan ∧
      JLL.decodeScan sv1 P predictor w h nc t scan = .ok s :=
  lossless_stream_composed sv1 P predictor w h nc bits values t s hdr hP hv ht hcat hsz hrng htab hpred hok

/-- (9b) lossless / SV1 for ANY sequence of `HuffmanEncoder.WriteBits` calls (widths ≤ 16, at least one bit) + `Flush` -/
theorem lossless_stream_wf_any_writes (w h p pred : Int) (c : Nat) (t : HuffTable) (ws : List (Nat × Nat)) (hdr : List Nat)
    (hok : losslessHeader w h c p pred t = .ok hdr) (hpred : 1 ≤ pred) (ht : TableOk t) (hws : WritesOk ws) :
    ∃ r, StrictJpeg.parse (hdr ++ JLL.writeAll {} ws ++ [0xFF, 0xD9]) = some r ∧
      r.frame = { sof := 0xC3, p := p.toNat, y := h.toNat, x := w.toNat, comps := comps111 c } ∧
      r.scan.ss = pred.toNat ∧ r.scan.se = 0 ∧ r.scan.ah = 0 ∧ r.scan.al = 0 ∧
      r.hdrEnd = hdr.length ∧ r.scanEnd = hdr.length + (JLL.writeAll {} ws).length ∧
      (hdr ++ JLL.writeAll {} ws ++ [0xFF, 0xD9]).drop r.scanEnd = [0xFF, 0xD9] :=
  lossless_stream_any_writes w h p pred c t ws hdr hok hpred ht hws

/-- (9c) baseline / 8-bit extended for ANY sequence of Huffman writes: covers the DCT path without modelling it
    (GIVEN the structural fact, C02/F4, that the scan is emitted only through `standard.HuffmanEncoder`) -/
theorem baseline_stream_wf_any_writes (w h : Int) (c : Nat) (t : BaseTables) (ws : List (Nat × Nat)) (hdr : List Nat)
    (hok : baselineHeader w h c t = .ok hdr) (ht : BaseOk c t) (hws : WritesOk ws) :
    ∃ r, StrictJpeg.parse (hdr ++ JLL.writeAll {} ws ++ [0xFF, 0xD9]) = some r ∧
      r.frame.sof = 0xC0 ∧ r.frame.p = 8 ∧ r.frame.y = h.toNat ∧ r.frame.x = w.toNat ∧ r.frame.comps.length = c ∧
      (∀ k ∈ r.frame.comps, k.h = 1 ∧ k.v = 1) ∧
      r.scan.ss = 0 ∧ r.scan.se = 63 ∧ r.scan.ah = 0 ∧ r.scan.al = 0 ∧
      r.hdrEnd = hdr.length ∧ r.scanEnd = hdr.length + (JLL.writeAll {} ws).length ∧
      (hdr ++ JLL.writeAll {} ws ++ [0xFF, 0xD9]).drop r.scanEnd = [0xFF, 0xD9] :=
  baseline_stream_any_writes w h c t ws hdr hok ht hws

/-- (9d) 12-bit extended sequential for ANY sequence of Huffman writes -/
theorem ext12_stream_wf_any_writes (w h : Int) (q : List Int) (dc ac : HuffTable) (ws : List (Nat × Nat)) (hdr : List Nat)
    (hok : ext12Header w h q dc ac = .ok hdr) (hq : QOk q) (hdc : TableOk dc) (hac : TableOk ac) (hws : WritesOk ws) :
    ∃ r, StrictJpeg.parse (hdr ++ JLL.writeAll {} ws ++ [0xFF, 0xD9]) = some r ∧
      r.frame = { sof := 0xC1, p := 12, y := h.toNat, x := w.toNat, comps := [⟨1, 1, 1, 0⟩] } ∧
      r.scan = { sels := [⟨1, 0, 0⟩], ss := 0, se := 63, ah := 0, al := 0 } ∧
      r.hdrEnd = hdr.length ∧ r.scanEnd = hdr.length + (JLL.writeAll {} ws).length ∧
      (hdr ++ JLL.writeAll {} ws ++ [0xFF, 0xD9]).drop r.scanEnd = [0xFF, 0xD9] :=
  ext12_stream_any_writes w h q dc ac ws hdr hok hq hdc hac hws

/-- (9e) JPEG-LS (lossless and near) for ANY sequence of `GolombWriter.WriteBits` calls + `Flush`: the pairwise
    stuffing is C03's proved invariant; the ONLY open input is `GolombScanEnd_pending_C03` (scan does not end on 0xFF and
    is not empty) — exactly the conclusion of wp-jpegls's `golomb_scan_end`, not yet in this tree.  `hnear` is T.87's
    bound; the encoder itself still accepts any NEAR ≤ 255 (known finding `jpegls-near-exceeds-maxval-half`, C17). -/
theorem jpegls_stream_wf_golomb_writes_partial (w h p near : Int) (c : Nat) (ws : List (Nat × Int)) (hdr : List Nat)
    (hok : jpeglsHeader w h c p near = .ok hdr)
    (hnear : near.toNat ≤ min 255 ((2 ^ p.toNat - 1) / 2))
    (hv : ∀ q ∈ ws, q.1 < Golomb.M32) (hend : GolombScanEnd_pending_C03 ws) :
    ∃ r, StrictJpeg.parse (hdr ++ (Golomb.finish (Golomb.writeAll Golomb.Writer.new ws)).out ++ [0xFF, 0xD9]) = some r ∧
      r.frame = { sof := 0xF7, p := p.toNat, y := h.toNat, x := w.toNat, comps := comps111 c } ∧
      r.scan.ss = near.toNat ∧ r.scan.se = (if c = 1 then 0 else 2) ∧ r.scan.ah = 0 ∧ r.scan.al = 0 ∧
      r.hdrEnd = hdr.length ∧
      (hdr ++ (Golomb.finish (Golomb.writeAll Golomb.Writer.new ws)).out ++ [0xFF, 0xD9]).drop r.scanEnd = [0xFF, 0xD9] :=
  jpegls_stream_golomb_writes w h p near c ws hdr hok hnear hv hend

/-- (9e′) JPEG-LS with NO open scan hypothesis: the end-of-scan facts (`Flush` never leaves a trailing 0xFF; a
    write list with at least one bit gives a non-empty scan) are `Lemmas/GolombExact.lean`'s bookkeeping invariant
    (the same lemmas behind `C03.golomb_scan_end`).  Every well-formed `WriteBits` sequence (32-bit value, count
    0..32, at least one bit written) followed by `Flush`, framed by the header model and EOI, is accepted by the
    strict reader, which returns exactly the arguments and delimits exactly the scan. -/
theorem jpegls_stream_wf_golomb_writes (w h p near : Int) (c : Nat) (ws : List (Nat × Int)) (hdr : List Nat)
    (hok : jpeglsHeader w h c p near = .ok hdr)
    (hnear : near.toNat ≤ min 255 ((2 ^ p.toNat - 1) / 2))
    (hv : ∀ q ∈ ws, q.1 < Golomb.M32 ∧ 0 ≤ q.2 ∧ q.2 ≤ 32) (hbit : ∃ q ∈ ws, 1 ≤ q.2) :
    ∃ r, StrictJpeg.parse (hdr ++ (Golomb.finish (Golomb.writeAll Golomb.Writer.new ws)).out ++ [0xFF, 0xD9]) = some r ∧
      r.frame = { sof := 0xF7, p := p.toNat, y := h.toNat, x := w.toNat, comps := comps111 c } ∧
      r.scan.ss = near.toNat ∧ r.scan.se = (if c = 1 then 0 else 2) ∧ r.scan.ah = 0 ∧ r.scan.al = 0 ∧
      r.hdrEnd = hdr.length ∧
      (hdr ++ (Golomb.finish (Golomb.writeAll Golomb.Writer.new ws)).out ++ [0xFF, 0xD9]).drop r.scanEnd = [0xFF, 0xD9] :=
  jpegls_stream_golomb_writes w h p near c ws hdr hok hnear (fun q hq => (hv q hq).1)
    ⟨Golomb.finish_last_ne _ (Golomb.K_writeAll ws _ Golomb.K_new hv),
     Golomb.finish_out_ne _ (Golomb.M_writeAll ws _ Golomb.K_new hv (Or.inr hbit))⟩

example : ∃ hdr, jpeglsHeader 300 2 1 12 3 = .ok hdr ∧
    (∀ q ∈ [((255 : Nat), (8 : Int)), (1, 3)], q.1 < Golomb.M32 ∧ 0 ≤ q.2 ∧ q.2 ≤ 32) := by
  refine ⟨_, rfl, ?_⟩
  intro q hq; simp at hq; rcases hq with rfl | rfl <;> decide

def jpegls_stream_wf_FullStatement : Prop :=
  ∀ (w h p near : Int) (c : Nat) (ws : List (Nat × Int)) (hdr : List Nat),
    jpeglsHeader w h c p near = .ok hdr → (∀ q ∈ ws, q.1 < Golomb.M32 ∧ 0 ≤ q.2 ∧ q.2 ≤ 32) → (∃ q ∈ ws, 1 ≤ q.2) →
    ∃ r, StrictJpeg.parse (hdr ++ (Golomb.finish (Golomb.writeAll Golomb.Writer.new ws)).out ++ [0xFF, 0xD9]) = some r

/-- (9f) still violated at HEAD (C17 class `jpegls-near-exceeds-maxval-half`): NEAR = 200 at P = 2 is accepted by the
    header model exactly as by `nearlossless.Encode`, and the strict reader rejects the frame (T.87 C.2.3) -/
theorem jpegls_near_over_bound_counterexample :
    (withScan (jpeglsHeader 4 4 1 2 200) [0x00]).bind (fun b => .ok (parse b)) = .ok none := by
  decide

/-- non-vacuity of (9b)–(9d): a write list with a stuffed 0xFF -/
example : WritesOk [(0xFF, 8), (1, 3)] ∧ NoMarker [0xFF, 0x00, 0x3F] = true := by
  refine ⟨⟨by decide, ⟨(0xFF, 8), by simp, by decide⟩⟩, by decide⟩

/-! ## JPEG 2000 -/

/-- (10) every tile-part is exactly `Psot` bytes: 12 (SOT) + header + 2 (SOD) + data -/
theorem tilepart_length_is_psot (t : TilePart) :
    (writeTilePart t).length = t.psot ∧ t.psot = 14 + t.header.length + t.body.length := by
  refine ⟨writeTilePart_length t, ?_⟩
  simp [TilePart.psot]; omega

/-- (11) Σ Psot + main header + EOC = total length, EOC last (classic code-blocks: no TLM) -/
theorem j2k_psot_sum (p : J2kParams) (info : QcdInfo) (ts : List TilePart) (hht : p.htj2k = false) :
    ∃ bytes, j2kStream p info ts = .ok bytes ∧
      bytes.length = (j2kMainHeader p info).length + (ts.map TilePart.psot).sum + 2 ∧
      bytes.drop (bytes.length - 2) = [0xFF, 0xD9] :=
  j2k_total_length p info ts hht

/-- (12) the scan loop of `writeTLM` walks the tile-part writer's output exactly: every `offset += Psot`
    lands on an SOT, the buffer is consumed exactly, and the collected entries are `(Isot, Psot)` of
    every tile-part in order — for any number of tile-parts and any bodies. -/
theorem tlm_loop_walks_tileparts (ts : List TilePart) (hfit : ∀ t ∈ ts, t.Fits) :
    tlmScan (writeTileParts ts).length (writeTileParts ts) 0 = some (ts.map fun t => (t.isot.toNat, t.psot)) := by
  have := tlmScan_parts ts [] (writeTileParts ts).length hfit (by
    rw [writeTileParts_length]
    clear hfit
    induction ts with
    | nil => simp
    | cons t r ih => simp [TilePart.psot] at ih ⊢; omega)
  simpa using this

/-- (13) HTJ2K: the stream is main header, ONE TLM segment (`Ltlm = 4 + 6n`, `Ztlm = 0`, `Stlm = 0x60`) whose n
    entries are exactly the tile indices and lengths of the n tile-parts that follow, the tile-parts, EOC;
    total length = main header + TLM + Σ Psot + 2. -/
theorem htj2k_tlm_entries_are_tilepart_lengths (p : J2kParams) (info : QcdInfo) (ts : List TilePart) (hht : p.htj2k = true)
    (hne : ts ≠ []) (hfit : ∀ t ∈ ts, t.Fits) (hn : 4 + ts.length * 6 < 65536) :
    ∃ bytes, j2kStream p info ts = .ok bytes ∧
      bytes = j2kMainHeader p info ++ ([0xFF, 0x55] ++ be16 (4 + ts.length * 6) ++ [0, 0x60] ++
        ts.flatMap fun t => be16 t.isot.toNat ++ be32 t.psot) ++ writeTileParts ts ++ [0xFF, 0xD9] ∧
      bytes.length = (j2kMainHeader p info).length + (6 + 6 * ts.length) + (ts.map TilePart.psot).sum + 2 :=
  htj2k_total_length p info ts hht hne hfit hn

/-- (14) the independent A.4.2 walker accepts the tile-part chain + EOC and reads back Isot, Psot, TPsot, TNsot
    of every tile-part; in particular nothing follows EOC and every Psot lands on the next SOT / EOC. -/
theorem tile_chain_strict_walk (ts : List TilePart) (hfit : ∀ t ∈ ts, t.Fits) :
    StrictJ2k.tileWalk (ts.length + 1) (writeTileParts ts ++ [0xFF, 0xD9]) = some (ts.map sotOf) :=
  tileWalk_parts ts (ts.length + 1) hfit (by omega)

/-- (15) `TPsot`/`TNsot` of the two writers are consistent per tile (A.4.2) for any tile count and level count:
    classic: one part `0/1` per tile; HTJ2K: `NumLevels + 1` parts `k/(NumLevels+1)` per tile — instance check
    on 3 tiles × 4 resolutions (the general statement is covered by the search on every real stream). -/
theorem tpsot_tnsot_consistent_instance :
    StrictJ2k.partsConsistent 3 (((List.range 3).map fun i => classicTilePart i [] [0]).map sotOf) = true ∧
    StrictJ2k.partsConsistent 3 (((List.range 3).flatMap fun i => htTileParts i 3 [] [[1], [2], [3], [4]]).map sotOf) = true := by
  decide

/-- (16) SIZ: the segment length is 38 + 3·Csiz and Xsiz, Ysiz, Csiz, Ssiz (depth − 1, bit 7 = signed), XRsiz =
    YRsiz = 1 are exactly the arguments, whenever they fit the fields of Table A.9 -/
theorem siz_fields_roundtrip (p : J2kParams) (hp : p.Fits) :
    ∃ comps, writeSIZ p = [0xFF, 0x51] ++ be16 (38 + 3 * p.components.toNat) ++ be16 (if p.htj2k then 0x4000 else 0) ++
      be32 p.width.toNat ++ be32 p.height.toNat ++ be32 0 ++ be32 0 ++
      be32 (u32Of (if p.tileWidth = 0 then p.width else p.tileWidth)) ++
      be32 (u32Of (if p.tileHeight = 0 then p.height else p.tileHeight)) ++ be32 0 ++ be32 0 ++
      be16 p.components.toNat ++ comps ∧
      comps.length = 3 * p.components.toNat ∧
      comps.take 3 = [(p.bitDepth - 1).toNat ||| (if p.isSigned then 0x80 else 0), 1, 1] :=
  siz_layout p hp

/-- (17) COD declares the transform that was asked for: SPcod transformation byte = 1 (5-3 reversible) iff lossless -/
theorem cod_transform_byte (p : J2kParams) :
    (writeCOD p).getD 13 0 = (if p.lossless then 1 else 0) ∧ (writeCOD p).take 2 = [0xFF, 0x52] := by
  cases hl : p.lossless <;> simp [writeCOD, j2kSegment, be16, hl] <;> decide

/-- non-vacuity of (11)–(14): two tile-parts with different bodies -/
example : (∀ t ∈ [classicTilePart 0 [] [1, 2, 3], classicTilePart 1 [] [4]], t.Fits) ∧
    tlmScan 33 (writeTileParts [classicTilePart 0 [] [1, 2, 3], classicTilePart 1 [] [4]]) 0 = some [(0, 17), (1, 15)] := by
  refine ⟨by intro t ht; simp at ht; rcases ht with rfl | rfl <;> decide, by decide⟩

/-! ## JPEG 2000: header fields through the strict readers, TPsot/TNsot, marker-free bodies -/

/-- (18) SIZ through the strict A.5.1 reader: size, offsets, tile size, component count and, per component, precision,
    SIGNEDNESS and sub-sampling equal the parameters — for every component count -/
theorem siz_all_fields_roundtrip (p : J2kParams) (hp : p.SizOk) :
    StrictJ2k.parseSiz (writeSIZ p) = some
      { rsiz := if p.htj2k then 0x4000 else 0, xsiz := p.width.toNat, ysiz := p.height.toNat, xosiz := 0, yosiz := 0,
        xtsiz := (if p.tileWidth = 0 then p.width else p.tileWidth).toNat,
        ytsiz := (if p.tileHeight = 0 then p.height else p.tileHeight).toNat, xtosiz := 0, ytosiz := 0,
        comps := List.replicate p.components.toNat
          { depthM1 := (p.bitDepth - 1).toNat, signed := p.isSigned, xr := 1, yr := 1 } } :=
  parseSiz_writeSIZ p hp

/-- (19) COD through the strict A.6.1 reader: progression, layers, MCT flag, levels, code-block exponents, HT bit and
    the TRANSFORM TYPE equal the parameters (default precincts) -/
theorem cod_all_fields_roundtrip (p : J2kParams) (kx ky : Nat) (hp : p.CodOk kx ky) :
    StrictJ2k.parseCod (writeCOD p) = some
      { scod := 0, prog := p.prog.toNat, layers := p.numLayers.toNat,
        mct := if usesColorTransform p then 1 else 0, levels := p.numLevels.toNat,
        xcb := kx - 2, ycb := ky - 2, style := if p.htj2k then 0x40 else 0,
        transform := if p.lossless then 1 else 0, precincts := [] } :=
  parseCod_writeCOD p kx ky hp

/-- (20) QCD through the strict A.6.4 reader, reversible path: style 0, the guard bits, one exponent per sub-band, and
    their number is the 3·levels + 1 that COD's level count demands; instantiated with the encoder's own
    `quantizationInfo` for the classic reversible path -/
theorem qcd_lossless_roundtrip (p : J2kParams) (L : Nat) (hl : p.lossless = true) (hL : p.numLevels = L) (hL32 : L ≤ 32)
    (hd : 1 ≤ p.bitDepth ∧ p.bitDepth ≤ 29) :
    StrictJ2k.parseQcd L (writeQCD p (losslessQcdInfo p)) =
      some { style := 0, guard := 2, vals := (losslessQcdInfo p).expn.map Int.toNat } := by
  have h := parseQcd_writeQCD_lossless p (losslessQcdInfo p) L hl (by simp [losslessQcdInfo]) (by
    intro e he
    simp only [losslessQcdInfo, List.mem_flatMap, List.mem_range] at he
    obtain ⟨r, _, hr⟩ := he
    split at hr <;> simp at hr <;> (try rcases hr with rfl | rfl | rfl) <;> (try subst hr) <;>
      simp [Gen.C16J2k.losslessLog2Gain] <;> (try split) <;> omega) (losslessQcdInfo_len p L hL) hL32
  simpa [losslessQcdInfo] using h

/-- (21) QCD, irreversible path (scalar expounded): guard bits and every 16-bit step word, 3·levels + 1 of them -/
theorem qcd_lossy_roundtrip (p : J2kParams) (info : QcdInfo) (L : Nat) (hl : p.lossless = false)
    (hs : info.style = 2) (hg : 0 ≤ info.guardBits ∧ info.guardBits ≤ 7) (he : ∀ s ∈ info.steps, 0 ≤ s ∧ s < 65536)
    (hn : info.steps.length = 3 * L + 1) (hL : L ≤ 32) :
    StrictJ2k.parseQcd L (writeQCD p info) = some { style := 2, guard := info.guardBits.toNat, vals := info.steps.map Int.toNat } :=
  parseQcd_writeQCD_lossy p info L hl hs hg he hn hL

/-- a signed 12-bit RGB 65535×300 image, 64×32 tiles, 5 levels, 64×64 code-blocks, RPCL, 3 layers -/
def exParams : J2kParams :=
  { width := 65535, height := 300, components := 3, bitDepth := 12, isSigned := true, tileWidth := 64,
    tileHeight := 32, numLevels := 5, lossless := true, cbw := 64, cbh := 64, precW := 0, precH := 0, prog := 2,
    numLayers := 3, enableMCT := true, htj2k := false }

/-- non-vacuity of (18)–(20) -/
example : exParams.SizOk ∧ exParams.CodOk 6 6 ∧ StrictJ2k.parseCod (writeCOD exParams) =
      some { scod := 0, prog := 2, layers := 3, mct := 1, levels := 5, xcb := 4, ycb := 4, style := 0, transform := 1, precincts := [] } := by
  refine ⟨by constructor <;> decide, by constructor <;> decide, by decide⟩

/-- (22) TPsot / TNsot, GENERAL: for any number of tiles and any bodies the classic writers' tile-part headers (one part
    `0/1` per tile) pass the A.4.2 consistency check -/
theorem tpsot_tnsot_consistent_classic (n : Nat) (body : Nat → List Nat) :
    StrictJ2k.partsConsistent n ((List.range n).flatMap fun i => [sotOf (classicTilePart i [] (body i))]) = true :=
  classic_parts_consistent n body

/-- (23) … and for any tile count and any level count ≤ 254 the HTJ2K writer's `NumLevels + 1` parts per tile,
    numbered `k / (NumLevels + 1)`, pass it too -/
theorem tpsot_tnsot_consistent_htj2k (n L : Nat) (hL : L + 1 ≤ 255) (bodies : Nat → List (List Nat))
    (hb : ∀ i, (bodies i).length = L + 1) :
    StrictJ2k.partsConsistent n ((List.range n).flatMap fun i => (htTileParts i (L : Int) [] (bodies i)).map sotOf) = true :=
  ht_parts_consistent n L hL bodies hb

/-- (24) packet headers: whatever bits the header coder writes, the flushed bytes of `bioWriter` have every 0xFF
    followed by a byte < 0x80 and do not end on 0xFF (stream-level invariant of C04's `BioW` model, proved here) -/
theorem bio_header_marker_free (bits : List Bool) :
    StrictJ2k.PairBelow 128 (J2k.BioW.new.writeBitsList bits).flush ∧
    (J2k.BioW.new.writeBitsList bits).flush.getLast? ≠ some 255 := by
  have hi := bioInv_writeBitsList bits J2k.BioW.new bioInv_new
  have h1 := bioInv_byteOut _ hi
  refine ⟨?_, J2k.flush_last_not_FF' _⟩
  unfold J2k.BioW.flush
  simp only
  split
  · exact (bioInv_byteOut _ h1).1
  · exact h1.1

/-- (25) code-block segments: every byte string `MQEncoder.Flush` returns is marker free in the same sense (C20) -/
theorem mq_segment_marker_free (n : Nat) (ds : List (Nat × Nat)) (hds : ∀ d ∈ ds, d.2 < n) :
    ∃ bytes, Mqc.encodeBytes n ds = some bytes ∧ StrictJ2k.BodyOk bytes :=
  mq_segment_bodyOk n ds hds

/-- (26) CONCATENATION: pieces that are each marker free and do not end on 0xFF concatenate to a marker-free body
    that does not end on 0xFF — no marker straddles a boundary -/
theorem body_concatenation (pieces : List (List Nat)) (h : ∀ p ∈ pieces, StrictJ2k.BodyOk p) :
    StrictJ2k.BodyOk pieces.flatten :=
  StrictJ2k.bodyOk_flatten pieces h

/-- (27) J2K BODIES MARKER FREE: a tile-part body that is a concatenation, in any order and number, of packet headers
    (any header bits through `bioWriter`, flushed) and MQ segments (any decisions through `MQEncoder`, flushed) contains
    no byte pair FF90..FFFF and does not end on 0xFF.  The abstraction "body = concatenation of such pieces" is tied to
    the code by the `c16-j2k-pieces` correspondence op (pieces cut from `t2.Packet.Header` / `CodeBlockIncl.Data`). -/
theorem j2k_bodies_marker_free (ps : List Piece) (h : ∀ p ∈ ps, p.Wf) :
    StrictJ2k.BodyOk (ps.map Piece.bytes).flatten :=
  body_of_pieces_marker_free ps h

/-- non-vacuity of (27): a header whose first byte is 0xFF, followed by an MQ segment -/
example : (∀ p ∈ [Piece.header (List.replicate 9 true), Piece.mqSegment 2 [(1, 0), (0, 1), (1, 1)]], p.Wf) ∧
    (Piece.header (List.replicate 9 true)).bytes = [255, 64] := by
  refine ⟨by intro p hp; simp at hp; rcases hp with rfl | rfl <;> simp [Piece.Wf], by decide⟩

/-! ## multi-layer bodies: `normalizePassRates` never cuts immediately after an 0xFF byte -/

/-- (28) NORMALISED PASS RATES ARE GOOD CUTS (t1/encoder_layered.go `normalizePassRates`, model `T1.normalizeRates` of C20):
    for ANY raw per-pass rates and any byte string without two consecutive 0xFF bytes, every cumulative rate the
    normaliser returns lies inside the stream, is not immediately after an 0xFF byte, and the rates ascend -/
theorem normalized_rates_not_after_ff (data rates : List Nat) (hd : NoDoubleFF data) :
    (∀ r ∈ T1.normalizeRates rates data, StrictJ2k.CutOk data r) ∧ (T1.normalizeRates rates data).Pairwise (· ≤ ·) :=
  normalizeRates_cuts_ok data rates hd

/-- … and MQ output never has two consecutive 0xFF bytes (from C20's stream invariant) -/
theorem mq_stream_no_double_ff (n : Nat) (ds : List (Nat × Nat)) (hds : ∀ d ∈ ds, d.2 < n) :
    ∃ bytes, Mqc.encodeBytes n ds = some bytes ∧ NoDoubleFF bytes := by
  obtain ⟨bytes, h1, h2⟩ := Mqc.encoder_stream n ds hds
  exact ⟨bytes, h1, streamOk_noDoubleFF bytes h2⟩

/-- (29) J2K LAYER SLICES (was `j2k_layer_slices_FullStatement`): for the byte string of ANY MQ run, ANY raw pass rates,
    every slice `data[a:b]` whose end point is 0, the stream length or a normalised rate — every slice `finalizeBlock` /
    `allocateRDLayerData` can form — contains no FF90..FFFF pair and does not end on 0xFF -/
theorem j2k_layer_slices (n : Nat) (ds : List (Nat × Nat)) (hds : ∀ d ∈ ds, d.2 < n) (rates : List Nat) :
    ∃ bytes, Mqc.encodeBytes n ds = some bytes ∧
      ∀ a b, b ∈ 0 :: bytes.length :: T1.normalizeRates rates bytes → StrictJ2k.BodyOk ((bytes.take b).drop a) :=
  layer_slice_bodyOk n ds hds rates

/-- (30) MULTI-LAYER BODIES MARKER FREE: a tile-part body that is any concatenation of packet headers (bioWriter) and
    layer slices of MQ streams cut at normalised rates contains no FF90..FFFF pair and does not end on 0xFF -/
theorem j2k_multilayer_bodies_marker_free (ps : List LPiece) (h : ∀ p ∈ ps, p.Wf) :
    StrictJ2k.BodyOk (ps.map LPiece.bytes).flatten :=
  multilayer_body_marker_free ps h

/-- (31) HTJ2K tile-part partition (first loop of `writeHTJ2KTileParts`, model `htPartition`, tied by `c16-ht-partition`):
    `NumLevels + 1` parts come out, and every part is a concatenation of packet headers and bodies of its resolution, hence
    marker free as soon as the packets' headers and bodies are -/
theorem htj2k_partition_parts_marker_free (numLevels : Int) (packets : List (Int × List Nat × List Nat)) (parts : List (List Nat))
    (h : htPartition numLevels packets = .ok parts)
    (hp : ∀ p ∈ packets, StrictJ2k.BodyOk p.2.1 ∧ StrictJ2k.BodyOk p.2.2) :
    parts.length = (numLevels + 1).toNat ∧ ∀ part ∈ parts, StrictJ2k.BodyOk part :=
  htPartition_bodyOk numLevels packets parts h hp

example : htPartition 1 [(0, [1], [2, 3]), (1, [4], []), (0, [5], [6])] = .ok [[1, 2, 3, 5, 6], [4]] ∧
    htPartition 1 [(2, [1], [])] = .err := by decide

/-- the unrestricted version of (29) is FALSE, which is why the normaliser is needed (and what seeded change C16-m4
    removes): a cut immediately after an 0xFF byte gives a slice that ends on 0xFF -/
theorem layer_slice_arbitrary_cut_counterexample :
    StrictJ2k.PairBelow 0x90 [0x12, 0xFF, 0x7F, 0x80] ∧ ¬ StrictJ2k.BodyOk (([0x12, 0xFF, 0x7F, 0x80].take 2).drop 0) ∧
    T1.normalizeRates [2, 4] [0x12, 0xFF, 0x7F, 0x80] = [1, 4] := by
  refine ⟨by decide, by decide, by decide⟩

/-! ## what is not a theorem here -/

/-- FULL STATEMENT over C20's code-shaped model of `EncodeLayered` (all 64 code-block styles, incl. the raw LAZY
    segments and TERMALL / RESET / PTERM / SEGSYM; not proved): every slice of the block's bytes that ends at 0, at the end or
    at a returned cumulative rate is marker free and does not end on 0xFF.  (28)–(30) prove it for the bytes of one MQ
    run cut at normalised rates (style 0, the layered default); for the other styles the missing input is "the byte string
    has no FF followed by ≥ 0x90 and no two consecutive 0xFF" for streams with restarts / raw segments, and for HTJ2K
    the HT block coder's segments have no model here.  Searched: strict walker on every real stream, every piece of the
    `c16-j2k-pieces` lines, and real layered blocks of styles 0/1/2/4/5/8/32 on the `c16-layer-cuts` lines. -/
def j2k_layered_blocks_all_styles_FullStatement : Prop :=
  ∀ (w h orient style : Nat) (coeffs : List Int) (numPasses : Nat) (rates : List Nat) (mb : Int) (bytes : List Nat),
    T1.encodeLayered w h orient style coeffs numPasses = .ok (rates, mb, bytes) →
    ∀ a b, b ∈ 0 :: bytes.length :: rates → StrictJ2k.BodyOk ((bytes.take b).drop a)

end JpegC
