import GdcVerif.Model.JpegContainer
import GdcVerif.Spec.StrictJpeg
import GdcVerif.Spec.StrictJ2kTiles
import GdcVerif.Lemmas.JpegFrames
import GdcVerif.Lemmas.J2kContainer
/-!
  C16 — every encoded frame is one well-formed, self-describing codestream.

  Property theorems only (helper lemmas: `Lemmas/JpegContainer.lean`, `Lemmas/JpegFrames.lean`,
  `Lemmas/J2kContainer.lean`).  The container model `Model/JpegContainer.lean` is tied to /repo by the
  correspondence run of this check; `Spec/StrictJpeg.lean` and `Spec/StrictJ2kTiles.lean` are
  independent readers written from T.81 Annex B / T.87 Annex C / 15444-1 Annex A.

  The entropy-coded bytes are a universally quantified parameter constrained only by the
  "no unescaped marker" predicate (`StrictJpeg.NoMarker` for the Huffman writer — C02's stuffing
  invariant `StuffOk` is the same predicate —, `StrictJpeg.NoMarkerLS` for the Golomb writer — C03),
  so the theorems cover baseline / extended / 12-bit without a model of the DCT path.
-/
namespace JpegC
open StrictJpeg

/-! ## marker-segment level -/

/-- (1) `WriteSegment`: when the payload fits, the two length bytes spell exactly `len(payload) + 2`
    and the segment is marker, length, payload. -/
theorem segment_length_ok (marker : Int) (data : List Nat) (h : data.length + 2 < 65536) :
    writeSegment marker data = writeMarker marker ++ [(data.length + 2) / 256, (data.length + 2) % 256] ++ data ∧
      ((data.length + 2) / 256) * 256 + (data.length + 2) % 256 = data.length + 2 ∧ (data.length + 2) / 256 < 256 := by
  refine ⟨?_, by omega, by omega⟩
  have : u16Of ((data.length : Int) + 2) = data.length + 2 := by
    have := u16Of_small (data.length + 2) h
    simpa using this
  have h2 : (data.length + 2) / 256 % 256 = (data.length + 2) / 256 := by omega
  simp [writeSegment, writeUint16, be16, this, h2]

/-- (1') the hypothesis of (1) is necessary: a 65534-byte payload gets the length field 0 -/
theorem segment_length_wraps_counterexample (data : List Nat) (h : data.length = 65534) :
    (writeSegment 0xFFE0 data).take 4 = [0xFF, 0xE0, 0, 0] := by
  simp [writeSegment, writeMarker, writeUint16, be16, u16Of, h]

/-- (2) every header payload the models emit fits its 16-bit length field, with the sizes the
    standard prescribes: SOF 6+3·Nf, SOS 4+2·Ns, DQT 65, DHT 17+n ≤ 17+256 -/
theorem header_payload_lengths (p h w near pred : Int) (c i : Nat) (q : List Int) (cls id : Nat) (t : HuffTable)
    (hc : c = 1 ∨ c = 3) (ht : TableOk t) :
    (sof3Payload p h w c).length = 6 + 3 * c ∧ (sofFixed 8 h w c ++ sof0Comps c).length = 6 + 3 * c ∧
    (sofFixedLS p h w c ++ compSpecs c).length = 6 + 3 * c ∧
    (sosLosslessPayload c pred).length = 4 + 2 * c ∧ (sosBaselinePayload c).length = 4 + 2 * c ∧
    (sosLSPayload c near).length = 4 + 2 * c ∧ (dqtPayload i q).length = 65 ∧
    (∃ pl, dhtPayload cls id t = .ok pl ∧ pl.length = 17 + t.values.length ∧ pl.length + 2 < 65536) := by
  have hd : ∃ pl, dhtPayload cls id t = .ok pl ∧ pl.length = 17 + t.values.length ∧ pl.length + 2 < 65536 :=
    ⟨_, dhtPayload_ok cls id t ht, dht_len_exact t ht _, dht_len t ht _⟩
  rcases hc with rfl | rfl <;>
    simp [sof3Payload, sofFixed, sofFixedLS, sof0Comps, compSpecs, scanSels, sosLosslessPayload, sosBaselinePayload,
      sosLSPayload, dqtPayload, hd] <;> decide

/-! ## JPEG family: strict parse of header ++ any marker-free scan ++ EOI returns the arguments -/

/-- (3) generic container theorem: SOI, segments accepted by the strict reader, an accepted SOS,
    ANY admissible entropy-coded segment, EOI ⇒ the strict reader accepts, the scan is delimited
    exactly, EOI is the last two bytes. -/
theorem container_parse (segs : List (Nat × List Nat)) (sos scan : List Nat) (st : St) (sh : ScanHdr) (f : Frame)
    (hsegs : ∀ s ∈ segs, SegOk s) (hfold : foldSteps {} segs = some st)
    (hsosl : sos.length + 2 < 65536) (hsos : parseSos st sos = some sh)
    (hf : st.frame = some f) (hdri : st.dri = 0) (hscan : ScanOk f.sof scan) (hne : scan ≠ []) :
    parse ([0xFF, 0xD8] ++ encSegs segs ++ encSeg 0xDA sos ++ scan ++ [0xFF, 0xD9]) =
      some { frame := f, scan := sh, dqt := st.dqt, dht := st.dht,
             hdrEnd := 2 + segsLen segs + 4 + sos.length,
             scanEnd := 2 + segsLen segs + 4 + sos.length + scan.length } :=
  parse_stream segs sos scan st sh f hsegs hfold hsosl hsos hf hdri hscan hne

/-- (4) JPEG Lossless (process 14, predictors 1–7): for every geometry that fits the 16-bit fields, every
    precision 2..16, 1 or 3 components, any valid Huffman table and ANY scan without an unescaped
    marker, the frame parses strictly and declares exactly the arguments; nothing follows EOI. -/
theorem lossless_header_fields_roundtrip (w h p pred : Int) (c : Nat) (t : HuffTable) (scan : List Nat)
    (hw : 0 < w ∧ w ≤ 65535) (hh : 0 < h ∧ h ≤ 65535) (hc : c = 1 ∨ c = 3) (hp : 2 ≤ p ∧ p ≤ 16)
    (hpred : 1 ≤ pred ∧ pred ≤ 7) (ht : TableOk t) (hs : NoMarker scan = true) (hne : scan ≠ []) :
    ∃ bytes r, withScan (losslessHeader w h c p pred t) scan = .ok bytes ∧ StrictJpeg.parse bytes = some r ∧
      r.frame = { sof := 0xC3, p := p.toNat, y := h.toNat, x := w.toNat, comps := comps111 c } ∧
      r.scan = { sels := (List.range c).map (fun i => ⟨i + 1, 0, 0⟩), ss := pred.toNat, se := 0, ah := 0, al := 0 } ∧
      r.dqt = [] ∧ r.dht = [{ tc := 0, th := 0, bits := t.bits.map byteOf, vals := t.values }] ∧
      r.scanEnd + 2 = bytes.length ∧ r.hdrEnd + scan.length = r.scanEnd ∧ bytes.drop r.scanEnd = [0xFF, 0xD9] :=
  lossless_frame w h p pred c t scan hw hh hc hp hpred ht hs hne

/-- (5) JPEG Lossless SV1: the same with selection value 1 -/
theorem sv1_header_fields_roundtrip (w h p : Int) (c : Nat) (t : HuffTable) (scan : List Nat)
    (hw : 0 < w ∧ w ≤ 65535) (hh : 0 < h ∧ h ≤ 65535) (hc : c = 1 ∨ c = 3) (hp : 2 ≤ p ∧ p ≤ 16)
    (ht : TableOk t) (hs : NoMarker scan = true) (hne : scan ≠ []) :
    ∃ bytes r, withScan (sv1Header w h c p t) scan = .ok bytes ∧ StrictJpeg.parse bytes = some r ∧
      r.frame = { sof := 0xC3, p := p.toNat, y := h.toNat, x := w.toNat, comps := comps111 c } ∧
      r.scan.ss = 1 ∧ r.scan.al = 0 ∧
      r.scanEnd + 2 = bytes.length ∧ r.hdrEnd + scan.length = r.scanEnd ∧ bytes.drop r.scanEnd = [0xFF, 0xD9] := by
  obtain ⟨b, r, h1, h2, h3, h4, _, _, h7, h8, h9⟩ :=
    lossless_frame w h p 1 c t scan hw hh hc hp (by omega) ht hs hne
  exact ⟨b, r, h1, h2, h3, by simp [h4], by simp [h4], h7, h8, h9⟩

/-- (6) JPEG-LS (lossless: `near = 0`; near-lossless: `near ≤ min(255, MAXVAL/2)`), with the JPEG-LS
    escape predicate on the scan -/
theorem jpegls_header_fields_roundtrip (w h p near : Int) (c : Nat) (scan : List Nat)
    (hw : 0 < w ∧ w ≤ 65535) (hh : 0 < h ∧ h ≤ 65535) (hc : c = 1 ∨ c = 3) (hp : 2 ≤ p ∧ p ≤ 16)
    (hnear : 0 ≤ near ∧ near.toNat ≤ min 255 ((2 ^ p.toNat - 1) / 2))
    (hs : NoMarkerLS scan = true) (hne : scan ≠ []) :
    ∃ bytes r, withScan (jpeglsHeader w h c p near) scan = .ok bytes ∧ StrictJpeg.parse bytes = some r ∧
      r.frame = { sof := 0xF7, p := p.toNat, y := h.toNat, x := w.toNat, comps := comps111 c } ∧
      r.scan = { sels := (List.range c).map (fun i => ⟨i + 1, 0, 0⟩), ss := near.toNat,
                 se := if c = 1 then 0 else 2, ah := 0, al := 0 } ∧
      r.dqt = [] ∧ r.dht = [] ∧
      r.scanEnd + 2 = bytes.length ∧ r.hdrEnd + scan.length = r.scanEnd ∧ bytes.drop r.scanEnd = [0xFF, 0xD9] :=
  jpegls_frame w h p near c scan hw hh hc hp hnear hs hne

/-- (6') plug for C03: `golomb_writer_stuffed` concludes `Golomb.Stuffed out ∧ ∀ b ∈ out, b < 256`, and
    `Golomb.Stuffed` has exactly the shape of `PairStuffed`; together with "the scan does not end on 0xFF"
    (NOT proved by C03 — it needs the freeBitCount bookkeeping of `GolombWriter.Flush`; observed on every
    real stream by the search) that is the `NoMarkerLS` hypothesis of (6). -/
theorem jpegls_scan_predicate_from_pairwise_stuffing (out : List Nat) (hs : PairStuffed out)
    (hb : ∀ b ∈ out, b < 256) (hl : out.getLast? ≠ some 255) : NoMarkerLS out = true :=
  noMarkerLS_of_pairStuffed out hs hb hl

/-- non-vacuity of (6'), and the last hypothesis is necessary: a scan ending on 0xFF is pairwise stuffed
    but would merge with EOI into `FF FF D9` -/
example : PairStuffed [0x12, 0xFF, 0x7F, 0x80] ∧ NoMarkerLS [0x12, 0xFF, 0x7F, 0x80] = true ∧
    PairStuffed [0x12, 0xFF] ∧ NoMarkerLS [0x12, 0xFF] = false := by
  refine ⟨by simp [PairStuffed], by decide, by simp [PairStuffed], by decide⟩

/-- (7) baseline (and 8-bit "extended", which is written by the baseline encoder) with the scan abstracted -/
theorem baseline_header_fields_roundtrip (w h : Int) (c : Nat) (t : BaseTables) (scan : List Nat)
    (hw : 0 < w ∧ w ≤ 65535) (hh : 0 < h ∧ h ≤ 65535) (hc : c = 1 ∨ c = 3) (ht : BaseOk c t)
    (hs : NoMarker scan = true) (hne : scan ≠ []) :
    ∃ bytes r, withScan (baselineHeader w h c t) scan = .ok bytes ∧ StrictJpeg.parse bytes = some r ∧
      r.frame.sof = 0xC0 ∧ r.frame.p = 8 ∧ r.frame.y = h.toNat ∧ r.frame.x = w.toNat ∧ r.frame.comps.length = c ∧
      (∀ k ∈ r.frame.comps, k.h = 1 ∧ k.v = 1) ∧
      r.scan.ss = 0 ∧ r.scan.se = 63 ∧ r.scan.ah = 0 ∧ r.scan.al = 0 ∧
      r.dqt.length = (if c = 1 then 1 else 2) ∧ r.dht.length = (if c = 1 then 2 else 4) ∧
      r.scanEnd + 2 = bytes.length ∧ r.hdrEnd + scan.length = r.scanEnd ∧ bytes.drop r.scanEnd = [0xFF, 0xD9] :=
  baseline_frame w h c t scan hw hh hc ht hs hne

/-- (8) 12-bit extended sequential (SOF1) with the scan abstracted -/
theorem ext12_header_fields_roundtrip (w h : Int) (q : List Int) (dc ac : HuffTable) (scan : List Nat)
    (hw : 0 < w ∧ w ≤ 65535) (hh : 0 < h ∧ h ≤ 65535) (hq : QOk q) (hdc : TableOk dc) (hac : TableOk ac)
    (hs : NoMarker scan = true) (hne : scan ≠ []) :
    ∃ bytes r, withScan (ext12Header w h q dc ac) scan = .ok bytes ∧ StrictJpeg.parse bytes = some r ∧
      r.frame = { sof := 0xC1, p := 12, y := h.toNat, x := w.toNat, comps := [⟨1, 1, 1, 0⟩] } ∧
      r.scan = { sels := [⟨1, 0, 0⟩], ss := 0, se := 63, ah := 0, al := 0 } ∧
      r.dqt = [{ pq := 0, tq := 0, q := zq q }] ∧ r.dht = [dhtOf 0 0 dc, dhtOf 1 0 ac] ∧
      r.scanEnd + 2 = bytes.length ∧ r.hdrEnd + scan.length = r.scanEnd ∧ bytes.drop r.scanEnd = [0xFF, 0xD9] :=
  ext12_frame w h q dc ac scan hw hh hq hdc hac hs hne

/-- the table used by the non-vacuity examples: one code of length 1 for category 0 -/
def exTable : HuffTable := { bits := [1, 0, 0, 0, 0, 0, 0, 0, 0, 0, 0, 0, 0, 0, 0, 0], values := [0] }

theorem exTable_ok : TableOk exTable := by
  constructor <;> decide

/-- non-vacuity of (4)–(6): the hypotheses hold for a 65535×300 16-bit RGB frame with predictor 7 and a
    scan that contains a stuffed 0xFF, and the conclusion computes on a concrete instance -/
example : (0 < (65535 : Int) ∧ (65535 : Int) ≤ 65535) ∧ TableOk exTable ∧ NoMarker [0x7F, 0xFF, 0x00, 0x3F] = true ∧
    NoMarkerLS [0x7F, 0xFF, 0x7F, 0x3F] = true ∧ (200 : Int).toNat ≤ min 255 ((2 ^ (16 : Int).toNat - 1) / 2) ∧
    ((withScan (losslessHeader 65535 300 3 16 7 exTable) [0x7F, 0xFF, 0x00, 0x3F]).bind fun b =>
      match parse b with
      | some r => .ok (r.frame.x, r.frame.y, r.frame.p, r.frame.comps.length, r.scan.ss)
      | none => .err) = .ok (65535, 300, 16, 3, 7) := by
  refine ⟨by decide, exTable_ok, by decide, by decide, by decide, by decide⟩

/-- (9) the 16-bit bound of (4)–(8) is necessary — and this is the defect C17 reports: `lossless.Encode`
    accepts width 65536, the frame header then declares width 0, which no strict reader accepts. -/
theorem lossless_width_65536_counterexample :
    (withScan (losslessHeader 65536 1 1 8 1 exTable) [0x7F]).bind (fun b => .ok (b.drop 20 |>.take 9, parse b))
      = .ok ([0xFF, 0xC3, 0x00, 0x0B, 8, 0, 1, 0, 0], none) := by
  decide

/-! ## JPEG 2000 -/

/-- (10) every tile-part is exactly `Psot` bytes: 12 (SOT) + header + 2 (SOD) + data -/
theorem tilepart_length_is_psot (t : TilePart) :
    (writeTilePart t).length = t.psot ∧ t.psot = 14 + t.header.length + t.body.length := by
  refine ⟨writeTilePart_length t, ?_⟩
  simp [TilePart.psot]; omega

/-- (11) Σ Psot + main header + EOC = total length, EOC last (classic code-blocks: no TLM) -/
theorem j2k_psot_sum (p : J2kParams) (info : QcdInfo) (ts : List TilePart) (hht : p.htj2k = false) :
    ∃ bytes, j2kStream p info ts = .ok bytes ∧
      bytes.length = (j2kMainHeader p info).length + (ts.map TilePart.psot).sum + 2 ∧
      bytes.drop (bytes.length - 2) = [0xFF, 0xD9] :=
  j2k_total_length p info ts hht

/-- (12) the scan loop of `writeTLM` walks the tile-part writer's output exactly: every `offset += Psot`
    lands on an SOT, the buffer is consumed exactly, and the collected entries are `(Isot, Psot)` of
    every tile-part in order — for any number of tile-parts and any bodies. -/
theorem tlm_loop_walks_tileparts (ts : List TilePart) (hfit : ∀ t ∈ ts, t.Fits) :
    tlmScan (writeTileParts ts).length (writeTileParts ts) 0 = some (ts.map fun t => (t.isot.toNat, t.psot)) := by
  have := tlmScan_parts ts [] (writeTileParts ts).length hfit (by
    rw [writeTileParts_length]
    clear hfit
    induction ts with
    | nil => simp
    | cons t r ih => simp [TilePart.psot] at ih ⊢; omega)
  simpa using this

/-- (13) HTJ2K: the stream is main header, ONE TLM segment (`Ltlm = 4 + 6n`, `Ztlm = 0`, `Stlm = 0x60`) whose n
    entries are exactly the tile indices and lengths of the n tile-parts that follow, the tile-parts, EOC;
    total length = main header + TLM + Σ Psot + 2. -/
theorem htj2k_tlm_entries_are_tilepart_lengths (p : J2kParams) (info : QcdInfo) (ts : List TilePart) (hht : p.htj2k = true)
    (hne : ts ≠ []) (hfit : ∀ t ∈ ts, t.Fits) (hn : 4 + ts.length * 6 < 65536) :
    ∃ bytes, j2kStream p info ts = .ok bytes ∧
      bytes = j2kMainHeader p info ++ ([0xFF, 0x55] ++ be16 (4 + ts.length * 6) ++ [0, 0x60] ++
        ts.flatMap fun t => be16 t.isot.toNat ++ be32 t.psot) ++ writeTileParts ts ++ [0xFF, 0xD9] ∧
      bytes.length = (j2kMainHeader p info).length + (6 + 6 * ts.length) + (ts.map TilePart.psot).sum + 2 :=
  htj2k_total_length p info ts hht hne hfit hn

/-- (14) the independent A.4.2 walker accepts the tile-part chain + EOC and reads back Isot, Psot, TPsot, TNsot
    of every tile-part; in particular nothing follows EOC and every Psot lands on the next SOT / EOC. -/
theorem tile_chain_strict_walk (ts : List TilePart) (hfit : ∀ t ∈ ts, t.Fits) :
    StrictJ2k.tileWalk (ts.length + 1) (writeTileParts ts ++ [0xFF, 0xD9]) = some (ts.map sotOf) :=
  tileWalk_parts ts (ts.length + 1) hfit (by omega)

/-- (15) `TPsot`/`TNsot` of the two writers are consistent per tile (A.4.2) for any tile count and level count:
    classic: one part `0/1` per tile; HTJ2K: `NumLevels + 1` parts `k/(NumLevels+1)` per tile — instance check
    on 3 tiles × 4 resolutions (the general statement is covered by the search on every real stream). -/
theorem tpsot_tnsot_consistent_instance :
    StrictJ2k.partsConsistent 3 (((List.range 3).map fun i => classicTilePart i [] [0]).map sotOf) = true ∧
    StrictJ2k.partsConsistent 3 (((List.range 3).flatMap fun i => htTileParts i 3 [] [[1], [2], [3], [4]]).map sotOf) = true := by
  decide

/-- (16) SIZ: the segment length is 38 + 3·Csiz and Xsiz, Ysiz, Csiz, Ssiz (depth − 1, bit 7 = signed), XRsiz =
    YRsiz = 1 are exactly the arguments, whenever they fit the fields of Table A.9 -/
theorem siz_fields_roundtrip (p : J2kParams) (hp : p.Fits) :
    ∃ comps, writeSIZ p = [0xFF, 0x51] ++ be16 (38 + 3 * p.components.toNat) ++ be16 (if p.htj2k then 0x4000 else 0) ++
      be32 p.width.toNat ++ be32 p.height.toNat ++ be32 0 ++ be32 0 ++
      be32 (u32Of (if p.tileWidth = 0 then p.width else p.tileWidth)) ++
      be32 (u32Of (if p.tileHeight = 0 then p.height else p.tileHeight)) ++ be32 0 ++ be32 0 ++
      be16 p.components.toNat ++ comps ∧
      comps.length = 3 * p.components.toNat ∧
      comps.take 3 = [(p.bitDepth - 1).toNat ||| (if p.isSigned then 0x80 else 0), 1, 1] :=
  siz_layout p hp

/-- (17) COD declares the transform that was asked for: SPcod transformation byte = 1 (5-3 reversible) iff lossless -/
theorem cod_transform_byte (p : J2kParams) :
    (writeCOD p).getD 13 0 = (if p.lossless then 1 else 0) ∧ (writeCOD p).take 2 = [0xFF, 0x52] := by
  cases hl : p.lossless <;> simp [writeCOD, j2kSegment, be16, hl] <;> decide

/-- non-vacuity of (11)–(14): two tile-parts with different bodies -/
example : (∀ t ∈ [classicTilePart 0 [] [1, 2, 3], classicTilePart 1 [] [4]], t.Fits) ∧
    tlmScan 33 (writeTileParts [classicTilePart 0 [] [1, 2, 3], classicTilePart 1 [] [4]]) 0 = some [(0, 17), (1, 15)] := by
  refine ⟨by intro t ht; simp at ht; rcases ht with rfl | rfl <;> decide, by decide⟩

/-! ## what is not a theorem here -/

/-- FULL STATEMENT for JPEG 2000 / HTJ2K (not proved): for every admissible parameter set and image the bytes
    `Encoder.Encode` returns are `j2kStream p info ts` for tile-parts `ts` whose bodies contain no byte pair in
    FF90..FFFF and do not end in FF.  The framing part (given the bodies) is (10)–(17); that the bodies are
    marker-free is the MQ coder / packet-header bit-stuffing invariant (C20 `mq`, C19 `bioWriter`); that the
    real encoder's bytes equal the model's is the correspondence run (`c16-j2k-main`, `c16-j2k-tiles`). -/
def j2k_bodies_marker_free_FullStatement : Prop :=
  ∀ (ts : List TilePart), (∀ t ∈ ts, t.Fits) →
    ∀ t ∈ ts, (∀ k, k + 1 < t.body.length → t.body.getD k 0 = 0xFF → t.body.getD (k + 1) 0 < 0x90) ∧ t.body.getLast? ≠ some 0xFF

end JpegC
