import GdcVerif.Gen.JpegLs
import GdcVerif.Gen.JpegLsNear
import GdcVerif.Lemmas.JpegLs
import GdcVerif.Lemmas.JpegLsNear
import GdcVerif.Lemmas.JpegLsLockstep3
/-!
  C07 — JPEG-LS near-lossless: every reconstructed sample is within NEAR of the original.

  All theorems are about the GENERATED kernels (`Gen/JpegLs.lean`: `NewTraits`,
  `ComputeCodingParameters`, `computeThresholds`, `Traits.ComputeErrorValue`,
  `Traits.ComputeReconstructedSample`, …, regenerated from /repo/jpegls/lossless on every run;
  `bitsLen` is the hand model `Model/JpegLsBits.lean`, tied by the `jls-bitsLen` correspondence).
  Proofs: `Lemmas/JpegLsNear.lean`, `Lemmas/JpegLs.lean`, `Lemmas/GoBits.lean`.

  `JpegLsNear.traits P N = NewTraits (2^P − 1) N 64` is the parameter object both encoder and
  decoder build; `JpegLsNear.err P N Px x s = Traits.ComputeErrorValue t (s·(x − Px))` the error
  the encoder transmits; `JpegLsNear.recon P N Px x s = Traits.ComputeReconstructedSample t Px (s·err)`
  the sample both sides reconstruct; `Admissible P N`: P in 2..16, NEAR in 0..min(255, MAXVAL/2).
-/
namespace C07
open Gen.JpegLs JpegLsNear

/-- (1) derived parameters are well-formed: RANGE formula (T.87 A.2.1), the period
    `RANGE·(2NEAR+1)` covers `[−NEAR, MAXVAL+NEAR]`, `2^(qbpp−1) < RANGE ≤ 2^qbpp`, `qbpp ≤ P`,
    thresholds ordered with `T1 ≥ NEAR+1`, `LIMIT = 2(P + max(8,P)) > qbpp + 1`, `RESET = 64`. -/
theorem near_params_wf (P : Nat) (N : Int) (h : Admissible P N) :
    (traits P N).MaxVal = (2 : Int) ^ P - 1 ∧ (traits P N).Near = N ∧
    (traits P N).Range = ((traits P N).MaxVal + 2 * N) / (2 * N + 1) + 1 ∧
    (traits P N).MaxVal + 2 * N + 1 ≤ (traits P N).Range * (2 * N + 1) ∧
    (∃ q : Nat, (traits P N).Qbpp = q ∧ 1 ≤ q ∧ q ≤ P ∧ (2 : Int) ^ (q - 1) < (traits P N).Range ∧
        (traits P N).Range ≤ (2 : Int) ^ q) ∧
    (N + 1 ≤ (traits P N).T1 ∧ (traits P N).T1 ≤ (traits P N).T2 ∧ (traits P N).T2 ≤ (traits P N).T3 ∧
        (traits P N).T3 ≤ (traits P N).MaxVal) ∧
    (traits P N).Limit = 2 * (P + max 8 (P : Int)) ∧ (traits P N).Qbpp + 1 < (traits P N).Limit ∧
    (traits P N).Reset = 64 := JpegLsNear.near_params_wf P N h

example : Admissible 12 3 := by decide
example : (traits 12 3).Range = 586 ∧ (traits 12 3).Qbpp = 10 ∧ (traits 12 3).Limit = 48 ∧
    (traits 12 3).T1 = 27 ∧ (traits 12 3).T2 = 82 ∧ (traits 12 3).T3 = 297 := by decide

/-- (2) the per-sample bound, regular mode and run interruption alike (`sign` is the context
    sign resp. `sign(Rb−Ra)`; `Px` the corrected prediction resp. `Ra`/`Rb`):
    the reconstruction both sides compute is within NEAR of the source sample, inside
    `[0, MAXVAL]`, and the transmitted error lies in the modulo range `[⌈RANGE/2⌉−RANGE, ⌈RANGE/2⌉)`. -/
theorem near_sample_bound (P : Nat) (N : Int) (h : Admissible P N) (Px x sign : Int)
    (hPx : 0 ≤ Px ∧ Px ≤ (2 : Int) ^ P - 1) (hx : 0 ≤ x ∧ x ≤ (2 : Int) ^ P - 1)
    (hs : sign = 1 ∨ sign = -1) :
    (-N ≤ recon P N Px x sign - x ∧ recon P N Px x sign - x ≤ N) ∧
    (0 ≤ recon P N Px x sign ∧ recon P N Px x sign ≤ (2 : Int) ^ P - 1) ∧
    (((traits P N).Range + 1) / 2 - (traits P N).Range ≤ err P N Px x sign ∧
      err P N Px x sign < ((traits P N).Range + 1) / 2) :=
  JpegLsNear.near_sample_bound P N h Px x sign hPx hx hs

example : Admissible 8 2 ∧ (0 ≤ (250 : Int) ∧ (250 : Int) ≤ 2 ^ 8 - 1) := by decide
example : err 8 2 250 3 1 = 3 ∧ recon 8 2 250 3 1 = 5 := by decide

/-- (3) the mapped error value fits the LIMIT escape code: `MErrval − 1 < 2^qbpp`, also after the
    `k = 0` error-correction XOR (`−1 ^ e = −e−1`) -/
theorem near_mapped_fits (P : Nat) (N : Int) (h : Admissible P N) (Px x sign : Int)
    (hPx : 0 ≤ Px ∧ Px ≤ (2 : Int) ^ P - 1) (hx : 0 ≤ x ∧ x ≤ (2 : Int) ^ P - 1)
    (hs : sign = 1 ∨ sign = -1) (c : Int) (hc : c = 0 ∨ c = -1) :
    0 ≤ MapErrorValue (Go.xor c (err P N Px x sign)) ∧
      MapErrorValue (Go.xor c (err P N Px x sign)) - 1 < (2 : Int) ^ (traits P N).Qbpp.toNat :=
  JpegLsNear.near_mapped_fits P N h Px x sign hPx hx hs c hc

example : MapErrorValue (Go.xor (-1) (err 8 2 250 3 1)) = 7 := by decide

/-- (4) NEAR = 0 reconstructs exactly -/
theorem near_zero_exact (P : Nat) (hP : 2 ≤ P ∧ P ≤ 16) (Px x sign : Int)
    (hPx : 0 ≤ Px ∧ Px ≤ (2 : Int) ^ P - 1) (hx : 0 ≤ x ∧ x ≤ (2 : Int) ^ P - 1)
    (hs : sign = 1 ∨ sign = -1) : recon P 0 Px x sign = x :=
  JpegLsNear.near_zero_exact P hP Px x sign hPx hx hs

example : recon 12 0 0 4095 1 = 4095 ∧ err 12 0 0 4095 1 = -1 := by decide

/-- (5) what the near-lossless `Encode` accepts (generated validation prefix): every admissible
    (P, NEAR) with a geometry that fits the 16-bit SOF55 fields and a buffer of the required length
    is accepted; NEAR outside 0..255 is rejected; `NEAR > MAXVAL/2` is NOT rejected (that is C17's
    subject) — C07 quantifies over `Admissible` only. -/
theorem near_encode_accepts_admissible (P : Nat) (N : Int) (h : Admissible P N) (w hgt c len : Int)
    (hw : 0 < w ∧ w ≤ 65535) (hh : 0 < hgt ∧ hgt ≤ 65535) (hc : c = 1 ∨ c = 3)
    (hlen : ((w * hgt) * c) * (Int.tdiv ((P : Int) + 7) 8) ≤ len) :
    Gen.JpegLsNear.Encode_accepts len w hgt c P N = true := by
  obtain ⟨hP, h0, h255, _⟩ := h
  unfold Gen.JpegLsNear.Encode_accepts
  have hP2 : ¬ ((P : Int) < 2) := by omega
  have hP16 : ¬ ((P : Int) > 16) := by omega
  have hl : ¬ (len < ((w * hgt) * c) * (Int.tdiv ((P : Int) + 7) 8)) := by omega
  have h1 : ¬ (w ≤ 0) := by omega
  have h2 : ¬ (hgt ≤ 0) := by omega
  have h3 : ¬ (w > 65535) := by omega
  have h4 : ¬ (hgt > 65535) := by omega
  have h5 : ¬ (N < 0) := by omega
  have h6 : ¬ (N > 255) := by omega
  rcases hc with rfl | rfl <;> simp [h1, h2, h3, h4, h5, h6, hP2, hP16] <;> simpa using hlen

example : Gen.JpegLsNear.Encode_accepts 12 3 2 1 12 3 = true := by decide

/-- (6) WHOLE IMAGES, bit level (model `JpegLsScanL`, tied to `nearlossless.Encode/Decode` and
    `lossless.Encode/Decode` by `jls-scanL-enc/dec`): for every admissible (P, NEAR), every width and
    height, 1 component (ILV 0) or several (ILV 2) and every image with samples in [0, MAXVAL]: the scan
    decoder applied to the bits of the scan encoder's `WriteBits` calls returns an image `recs` in
    which EVERY sample is within NEAR of the source sample and inside [0, MAXVAL] (`recs` is the
    encoder's own working array — that equality is the lock-step invariant). -/
theorem jpegls_near_bound (P : Nat) (N : Int) (h : Admissible P N) (comps : Nat) (hc : 1 ≤ comps) (w : Nat)
    (lines : List (List JpegLsScanL.Pixel))
    (hl : ∀ l ∈ lines, JpegLsScanL.LineOk comps ((2 : Int) ^ P - 1) w l) :
    ∃ ws recs, JpegLsScanL.encodeImage (traits P N) w comps lines = .ok (ws, recs) ∧
      Lockstep.AllRel (Lockstep.AllRel (JpegLsScanL.PixClose N)) recs lines ∧
      (∀ l ∈ recs, ∀ p ∈ l, JpegLsScanL.PixOk comps ((2 : Int) ^ P - 1) p) ∧
      ∀ rest, JpegLsScanL.decodeImage (traits P N) w lines.length comps (Golomb.writesBits ws ++ rest) = .ok (recs, rest) := by
  obtain ⟨ws, recs, he, hcl, hok, _, hd⟩ := JpegLsScanL.image_roundtrip P N h comps hc w lines hl
  exact ⟨ws, recs, he, hcl, hok, hd⟩

/-- (6b) the same at BYTE level (encoder side): the un-stuffed scan bytes of the `GolombWriter` model decode
    to `recs`; only zero padding is left over -/
theorem jpegls_near_bound_bytes (P : Nat) (N : Int) (h : Admissible P N) (comps : Nat) (hc : 1 ≤ comps) (w : Nat)
    (lines : List (List JpegLsScanL.Pixel))
    (hl : ∀ l ∈ lines, JpegLsScanL.LineOk comps ((2 : Int) ^ P - 1) w l) :
    ∃ ws recs k, JpegLsScanL.encodeImage (traits P N) w comps lines = .ok (ws, recs) ∧
      Lockstep.AllRel (Lockstep.AllRel (JpegLsScanL.PixClose N)) recs lines ∧
      (∀ l ∈ recs, ∀ p ∈ l, JpegLsScanL.PixOk comps ((2 : Int) ^ P - 1) p) ∧
      JpegLsScanL.decodeImage (traits P N) w lines.length comps
        (Golomb.destuff (Golomb.finish (Golomb.writeAll Golomb.Writer.new ws)).out false) =
        .ok (recs, List.replicate k false) :=
  JpegLsScanL.image_bytes_roundtrip P N h comps hc w lines hl

/-- per sample: what `PixClose` / `AllRel` say at a given line, column and component -/
theorem jpegls_near_bound_sample (N : Int) (recs lines : List (List JpegLsScanL.Pixel))
    (hrl : Lockstep.AllRel (Lockstep.AllRel (JpegLsScanL.PixClose N)) recs lines)
    (y x k : Nat) (hy : y < lines.length) (hx : x < lines[y].length) (hk : k < lines[y][x].length) :
    ∃ (hy' : y < recs.length) (hx' : x < recs[y].length) (hk' : k < recs[y][x].length),
      -N ≤ recs[y][x][k] - lines[y][x][k] ∧ recs[y][x][k] - lines[y][x][k] ≤ N := by
  have hy' : y < recs.length := by rw [hrl.length_eq]; exact hy
  have h1 := hrl.get y hy' hy
  have hx' : x < recs[y].length := by rw [h1.length_eq]; exact hx
  have h2 := h1.get x hx' hx
  have hk' : k < recs[y][x].length := by rw [Lockstep.AllRel.length_eq h2]; exact hk
  exact ⟨hy', hx', hk', Lockstep.AllRel.get h2 k hk' hk⟩

example : Admissible 8 3 ∧ JpegLsScanL.LineOk 3 ((2 : Int) ^ 8 - 1) 1 [[255, 0, 17]] := by
  refine ⟨by decide, rfl, ?_⟩
  intro p hp
  simp only [List.mem_singleton] at hp
  subst hp
  refine ⟨rfl, ?_⟩
  intro v hv
  simp only [List.mem_cons, List.mem_singleton, List.not_mem_nil, or_false] at hv
  rcases hv with rfl | rfl | rfl <;> (unfold JpegLsScanL.SampOk; decide)

end C07
