import GdcVerif.Spec.T81H
import GdcVerif.Model.JpegLossless
import GdcVerif.Lemmas.JpegLossless
import GdcVerif.Lemmas.T81H
import GdcVerif.Lemmas.T81HStream
import GdcVerif.Lemmas.JllEndToEnd
import GdcVerif.Lemmas.T81HEncDec
/-!
  C13 — JPEG Lossless streams and decoders conform to T.81 Annex H.

  `T81H` is the independent specification (Spec/T81H.lean); `JLL` is the code-shaped model of
  the repo's scan loops (Model/JpegLossless.lean, over the regenerated `Gen.JpegLossless.Predictor`).
  Property theorems only.

  All former findings are repaired in /repo and proved in full; their old witnesses are regression
  `example`s: `jll-firstrow-predictor-enc` and `-dec` (fix 946feeb: first line Ra, line start Rb),
  `jll-td23-rejected` (fix 879b6e2), `sv1-sos-selector` (fix f4e8601), `jll-pred456-wrap` (fix 479126d).
-/
namespace T81H
open JLL

/-! ## the specification is self-consistent -/

/-- per-sample round trip of the spec: for every prediction and every sample < 2^16,
    decoding the (SSSS, additional bits) of the modulo-2^16 difference restores the sample -/
theorem spec_sample_roundtrip (x p : Int) (hx : 0 ≤ x ∧ x < 65536) :
    decodeSample p (encodeSample x p).1 (encodeSample x p).2.1 = x := sample_roundtrip x p hx

/-- Table H.2 / F.2.2.1: EXTEND inverts the additional bits, SSSS ≤ 16, SSSS = 16 ⇔ 32768 -/
theorem spec_extend_extraBits (d : Int) (hlo : -32767 ≤ d) (hhi : d ≤ 32768) :
    extend (extraBits d).1 (ssss d) = d ∧ ssss d ≤ 16 ∧ (extraBits d).1 < 2 ^ (extraBits d).2 ∧
    (ssss d = 16 ↔ d = 32768) := extend_extraBits d hlo hhi

example : encodeSample 0 32768 = (16, 0, 0) ∧ decodeSample 32768 16 0 = 0 ∧
    encodeSample 3 10 = (3, 0, 3) ∧ decodeSample 10 3 0 = 3 := by decide

/-! ## code vs specification: prediction -/

/-- Table H.1: the repo's `Predictor` (regenerated from predictors.go) is the standard's table -/
theorem code_predictor_table_conforms (sel : Nat) (ra rb rc : Int) (h : 1 ≤ sel ∧ sel ≤ 7) :
    Gen.JpegLossless.Predictor (sel : Int) ra rb rc = predictor sel ra rb rc :=
  predictor_agrees sel ra rb rc h

/-- H.1.2.1, FULL: the prediction of jpeg/lossless (encoder scan, frequency pass and decoder scan;
    since fix 946feeb) equals the standard's Px at every position — first sample 2^(P−1), first line
    Ra, line start Rb, elsewhere the selected predictor — for every precision and predictor 1..7 -/
theorem px_conformance (P sel row col : Nat) (nb : Nb) (hP : 2 ≤ P ∧ P ≤ 16) (hs : 1 ≤ sel ∧ sel ≤ 7) :
    encPredicted P sel row col nb = px P 0 sel row col nb.left nb.up nb.upLeft ∧
    decPredicted P sel row col nb = px P 0 sel row col nb.left nb.up nb.upLeft ∧
    freqPredicted P sel row col nb = px P 0 sel row col nb.left nb.up nb.upLeft := by
  have h := encPredicted_conforms P sel row col nb (by omega) hs
  refine ⟨h, by rw [decPredicted_eq_enc]; exact h, ?_⟩
  rw [freqPredicted_eq_enc _ _ _ _ _ (by omega) (by omega)]; exact h

example : encPredicted 8 7 3 2 ⟨10, 21, 5⟩ = px 8 0 7 3 2 10 21 5 := by decide

/-- regression: the witnesses of the former defect `jll-firstrow-predictor-*` (first line, col 1, Ra = 10:
    the code predicted 2^(P−1) = 128 for predictors 2, 3, 6, 7; second line, col 0, Rb = 10: wrong for
    predictors 3, 5, 7) now give the standard's value 10 for every predictor -/
example : ∀ sel ∈ [1, 2, 3, 4, 5, 6, 7],
    encPredicted 8 (sel : Nat) 0 1 ⟨10, 0, 0⟩ = 10 ∧ px 8 0 sel 0 1 10 0 0 = 10 ∧
    decPredicted 8 (sel : Nat) 1 0 ⟨0, 10, 0⟩ = 10 ∧ px 8 0 sel 1 0 0 10 0 = 10 := by decide

/-- SV1 (both sides) follows H.1.2.1 at every position -/
theorem sv1_px_conforms (P row col : Nat) (nb : Nb) (hP : 1 ≤ P) :
    sv1Predicted P row col nb = px P 0 1 row col nb.left nb.up nb.upLeft :=
  sv1Predicted_conforms P row col nb hP

/-! ## code vs specification: difference and reconstruction -/

/-- the code's int16 difference and the standard's modulo-2^16 difference are the same residue;
    they differ as integers only at 32768 / −32768 (category 16) -/
theorem code_diff_conforms (x p : Int) :
    (encDiff x p - diff x p) % 65536 = 0 ∧ (diff x p ≠ 32768 → encDiff x p = diff x p) ∧
    (diff x p = 32768 → encDiff x p = -32768) := by
  simp only [encDiff, Gen.JpegLossless.losslessDifference, Go.wrap16, diff]
  split <;> omega

/-- jpeg/lossless (mask shape, fix 479126d): the decoder's reconstruction is the standard's
    modulo-2^16 reconstruction, for EVERY prediction (in range or not) and every P-bit sample -/
theorem code_recon_conforms (P x p : Int) (hP : 2 ≤ P ∧ P ≤ 16) (hx : 0 ≤ x ∧ x < Go.shl 1 P) :
    decSample P p (encDiff x p) = recon p (diff x p) := by
  have hf := pow_facts P hP.1 hP.2
  simp only at hf
  rw [recon_diff x p (by omega)]
  exact diff_wrap_inverse' P p x hP hx

/-- regression: the former defect's witness (prediction 65534 at P = 15) now reconstructs like the standard -/
example : decSample 15 65534 (encDiff 0 65534) = 0 ∧ recon 65534 (diff 0 65534) = 0 := by decide

/-- lossless14sv1 (single wrap): conforms whenever the prediction is inside [0, 2^P), which the
    SV1 trees guarantee (`sv1_px_conforms`: the prediction is a sample or 2^(P−1)) -/
theorem sv1_recon_conforms (P x p : Int) (hP : 2 ≤ P ∧ P ≤ 16)
    (hx : 0 ≤ x ∧ x < Go.shl 1 P) (hp : 0 ≤ p ∧ p < Go.shl 1 P) :
    sv1DecSample P p (encDiff x p) = recon p (diff x p) := by
  have hf := pow_facts P hP.1 hP.2
  simp only at hf
  have hx16 : 0 ≤ x ∧ x < 65536 := by omega
  rw [recon_diff x p hx16]
  simp only [sv1DecSample, wrapDec]
  generalize Go.shl 1 P = M at *
  by_cases h16 : P = 16
  · have hM : M = 65536 := hf.2.2.2.2.2.1 h16
    subst hM
    exact core_16 x p _ hx hp rfl
  · have h15 : M ≤ 32768 := hf.2.2.2.1 (by omega)
    exact core_small M x p _ hx (by omega) rfl

example : (2:Int) ≤ 12 ∧ (0:Int) ≤ 4095 ∧ (4095:Int) < Go.shl 1 12 ∧ (0:Int) ≤ 2048 ∧ (2048:Int) < Go.shl 1 12 := by decide

/-! ## code vs specification: scan header table selectors (B.2.3) -/

/-- jpeg/lossless (fix 879b6e2) and lossless14sv1 (fix f4e8601): the table destination is the high
    nibble of the selector byte, every legal destination 0..3 is accepted, anything else is an
    error (never an index panic) — exactly B.2.3's Td -/
theorem selectors_conform (b : Nat) :
    (td b = some (b / 16) → jllSelector b = .ok (b / 16) ∧ sv1Selector b = .ok (b / 16)) ∧
    (td b = none → jllSelector b = .err ∧ sv1Selector b = .err) := by
  unfold jllSelector sv1Selector td
  simp only [Nat.shiftRight_eq_div_pow]
  by_cases h : b / 16 ≤ 3
  · rw [if_pos h, if_neg (by omega)]; simp
  · rw [if_neg h, if_pos (by omega)]; simp

/-- regression: the former witnesses (`jll-td23-rejected`: byte 0x20; `sv1-sos-selector`: byte 0x10) -/
example : td 0x20 = some 2 ∧ jllSelector 0x20 = .ok 2 ∧ td 0x10 = some 1 ∧ sv1Selector 0x10 = .ok 1 ∧
    td 0x40 = none ∧ jllSelector 0x40 = .err ∧ sv1Selector 0xFF = .err := by decide

/-! ## STREAM LEVEL — the independent specification decodes the model encoder's stream -/

/-- `specDecode (modelEncode img) = img`, FULL: the stream that the byte-exact model of `lossless.Encode`
    (sv1 = false) / `lossless14sv1.Encode` (sv1 = true) produces is accepted by the strict Annex B reader
    and decoded by the Annex H procedure (`Spec/T81HStream.lean`) to exactly the source samples, with
    the same width, height and precision — for every geometry 1..65535, 1 or 3 components, P 2..16,
    every admissible content, SV1, and EVERY predictor argument 0..7 (0: whatever automatic selection
    picks) on every image. -/
theorem encoder_stream_conforms (sv1 : Bool) (pix : Array Nat) (w h nc P predictor : Nat)
    (hw : 1 ≤ w ∧ w ≤ 65535) (hh : 1 ≤ h ∧ h ≤ 65535) (hc : nc = 1 ∨ nc = 3)
    (hP : 2 ≤ P ∧ P ≤ 16) (hpr : predictor ≤ 7) (hpix : PixOk P w h nc pix) :
    ∃ stream s, Stream.encode sv1 pix w h nc P predictor = .ok stream ∧
      pixelsToSamples P w h nc pix = .ok s ∧
      specDecode stream =
        some { width := w, height := h, precision := P,
               planes := (List.range nc).map fun c => (List.range (w * h)).map fun i => cell s c i } :=
  encode_specDecode' sv1 pix w h nc P predictor hw hh hc hP hpr hpix

/-- non-vacuity / regression: the geometry and predictor of the old witness (2×2, 8 bit, predictor 2,
    samples 10 20 30 40) satisfy the hypotheses -/
example : PixOk 8 2 2 1 #[10, 20, 30, 40] ∧ (2 : Nat) ≤ 7 := by
  refine ⟨?_, by decide⟩; simp only [PixOk]; decide

/-- two independent transcriptions of B.1.1.5 and Annex C agree: the spec's bit sequence of an
    entropy-coded segment and its code table are the model's -/
theorem spec_bits_and_codes_agree (scan : List Nat) (bits vals : List Nat) :
    ecsBits scan = (unstuff scan).flatMap (fun b => bitsOf b 8) ∧
    codeTable bits vals = vals.zip (specCodes bits 0 0) :=
  ⟨ecsBits_eq scan, codeTable_eq bits vals⟩

/-! ## STREAM LEVEL, decoder direction — the model decoders decode the independent spec ENCODER's streams -/

/-- `modelDecode (specEncode img cfg) = img`: every interchange stream the independent T.81 encoder
    (`Spec/T81HEnc.lean`: arbitrary component ids, an arbitrary table destination 0..3 per component,
    arbitrary valid Huffman tables — several DHT segments, later ones replacing earlier ones at the
    same destination — one interleaved scan) produces is decoded by the byte-exact model of
    `lossless.Decode` (sv1 = false) resp. `lossless14sv1.Decode` (sv1 = true, Ss = 1, distinct ids) to
    exactly the source samples in the native byte layout, with the same width, height, component
    count and precision — for every geometry 1..65535, 1 or 3 components, P 2..16 and every
    predictor 1..7 (SV1: selection value 1). -/
theorem decoder_accepts_spec_streams (sv1 : Bool) (P w h : Nat) (planes : List (List Int)) (cfg : EncCfg)
    (bytes : List Nat) (hcfg : CfgOk sv1 planes.length cfg) (himg : ImgOk P w h planes)
    (henc : specEncode P w h planes cfg = some bytes) :
    Stream.decode sv1 bytes =
      .ok ((List.range (w * h)).flatMap (fun i => (List.range planes.length).flatMap fun c =>
             bytesOf P ((planes.getD c []).getD i 0)), w, h, planes.length, P) :=
  decode_specEncode_gen sv1 P w h planes cfg bytes hcfg himg henc

/-- non-vacuity: three components on destinations 2, 0, 1 with three different tables (destination 1
    written twice), a 2×2 8-bit image; the spec encoder succeeds on it -/
example : CfgOk false 3 exCfg ∧ CfgOk true 3 exCfg ∧ ImgOk 8 2 2 exPlanes ∧
    (specEncode 8 2 2 exPlanes exCfg).isSome = true := by
  refine ⟨by decide, by decide, by decide, ?_⟩
  rw [specEncode_isSome]; decide

end T81H
