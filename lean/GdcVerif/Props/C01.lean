import GdcVerif.Model.Rle
import GdcVerif.Spec.PackBits
import GdcVerif.Lemmas.Rle
/-!
  C01 — RLE Lossless: decode(encode(frame)) is the identity for every frame geometry.

  Property theorems only; helper lemmas live in `Lemmas/Rle.lean`.
  The model (`Model/Rle.lean`) is tied to /repo/rle/rle.go by the correspondence run.
-/
namespace Rle

/-- (1) the encoder accepts every such frame, never overruns `tempBuffer[132]` -/
theorem rle_encode_ok (i : Info) (hi : i.Accepted) (src : Array Byte) (hlen : src.size = i.nativeLen) :
    ∃ enc, encodeFrame i src = .ok enc := rle_encode_ok' i hi src hlen

/-- (2) round trip: Decode ∘ Encode returns the source, plus one zero byte iff the native length is odd -/
theorem rle_roundtrip (i : Info) (hi : i.Accepted) (hf : i.Fits32) (src : Array Byte)
    (hlen : src.size = i.nativeLen) :
    ∃ enc, encodeFrame i src = .ok enc ∧
      decodeFrame i enc = .ok (src ++ (if i.nativeLen % 2 = 1 then #[0] else #[])) :=
  rle_roundtrip' i hi hf src hlen

/-- (3) the stream is well-formed per Annex G: even length, 64-byte header, count = planes,
    offsets[0] = 64, ascending, even, in range, unused offsets zero -/
theorem rle_stream_wf (i : Info) (hi : i.Accepted) (hf : i.Fits32) (src : Array Byte)
    (hlen : src.size = i.nativeLen) (enc : List Byte) (he : encodeFrame i src = .ok enc) :
    AnnexG.headerOk enc i.numberOfSegments = true := rle_stream_wf' i hi hf src hlen enc he

/-- (4) the independent Annex G reader recovers the byte planes of the source from the stream -/
theorem rle_spec_agrees (i : Info) (hi : i.Accepted) (hf : i.Fits32) (src : Array Byte)
    (hlen : src.size = i.nativeLen) (enc : List Byte) (he : encodeFrame i src = .ok enc) :
    AnnexG.readPlanes enc i.numberOfSegments i.pixelCount =
      some ((List.range i.numberOfSegments).map
        (AnnexG.planeOf src.toList i.bytesAllocated i.spp i.pixelCount i.planar)) :=
  rle_spec_agrees' i hi hf src hlen enc he

/-- non-vacuity: a concrete frame meets every hypothesis and the conclusion computes -/
example : let i : Info := { width := 3, height := 1, bitsAllocated := 16, spp := 1, planar := 0 }
    i.Accepted ∧ i.Fits32 ∧ (#[1, 0, 1, 0, 1, 7] : Array Byte).size = i.nativeLen := by
  decide

end Rle
