import GdcVerif.Model.Rle
import GdcVerif.Spec.PackBits
import GdcVerif.Lemmas.Rle
/-!
  C01 — RLE Lossless: decode(encode(frame)) is the identity for every frame geometry.

  Property theorems only; helper lemmas live in `Lemmas/Rle.lean`.
  The model (`Model/Rle.lean`) is tied to /repo/rle/rle.go by the correspondence run.

  Since the repair that makes `encodeFrame` refuse a frame whose encoding passes 0xFFFFFFFE bytes (the segment
  offsets of the RLE header are 32-bit; before, `uint32(buffer.Len())` wrapped silently), the 32-bit bound is no
  longer a hypothesis of the round-trip theorems but a proved property of the encoder: `rle_encode_guard` says
  when it refuses, and (2)–(4) hold for EVERY stream it returns.
-/
namespace Rle

/-- (1) the encoder accepts every such frame of up to 2 GiB − 50 native bytes (the static bound `Fits32` implies
    the encoding fits), never overruns `tempBuffer[132]` -/
theorem rle_encode_ok (i : Info) (hi : i.Accepted) (hf : i.Fits32) (src : Array Byte)
    (hlen : src.size = i.nativeLen) :
    ∃ enc, encodeFrame i src = .ok enc := rle_encode_ok' i hi hf src hlen

/-- (1') the size guard characterised: for every accepted description and every source, the encoder returns an
    error exactly when the encoded frame (64-byte header + padded segments, `EncFits`) would be longer than
    0xFFFFFFFE bytes; it never panics; and every stream it returns is even and at most 0xFFFFFFFE bytes long,
    so every segment offset fits its 32-bit field -/
theorem rle_encode_guard (i : Info) (hi : i.Accepted) (src : Array Byte) (hlen : src.size = i.nativeLen) :
    (encodeFrame i src = .err ↔ ¬ EncFits i src) ∧ encodeFrame i src ≠ .panic ∧
    (∀ enc, encodeFrame i src = .ok enc → enc.length ≤ maxEncodedFrameLength ∧ enc.length % 2 = 0) :=
  rle_encode_guard' i hi src hlen

/-- (2) round trip, for EVERY stream the encoder returns (no size hypothesis): Decode ∘ Encode returns the
    source, plus one zero byte iff the native length is odd -/
theorem rle_roundtrip (i : Info) (hi : i.Accepted) (src : Array Byte)
    (hlen : src.size = i.nativeLen) (enc : List Byte) (he : encodeFrame i src = .ok enc) :
    decodeFrame i enc = .ok (src ++ (if i.nativeLen % 2 = 1 then #[0] else #[])) :=
  rle_roundtrip' i hi src hlen enc he

/-- (2') and with the static bound there is such a stream -/
theorem rle_roundtrip_fits32 (i : Info) (hi : i.Accepted) (hf : i.Fits32) (src : Array Byte)
    (hlen : src.size = i.nativeLen) :
    ∃ enc, encodeFrame i src = .ok enc ∧
      decodeFrame i enc = .ok (src ++ (if i.nativeLen % 2 = 1 then #[0] else #[])) := by
  obtain ⟨enc, he⟩ := rle_encode_ok' i hi hf src hlen
  exact ⟨enc, he, rle_roundtrip' i hi src hlen enc he⟩

/-- (3) the stream is well-formed per Annex G: even length, 64-byte header, count = planes,
    offsets[0] = 64, ascending, even, in range, unused offsets zero -/
theorem rle_stream_wf (i : Info) (hi : i.Accepted) (src : Array Byte)
    (hlen : src.size = i.nativeLen) (enc : List Byte) (he : encodeFrame i src = .ok enc) :
    AnnexG.headerOk enc i.numberOfSegments = true := rle_stream_wf' i hi src hlen enc he

/-- (4) the independent Annex G reader recovers the byte planes of the source from the stream -/
theorem rle_spec_agrees (i : Info) (hi : i.Accepted) (src : Array Byte)
    (hlen : src.size = i.nativeLen) (enc : List Byte) (he : encodeFrame i src = .ok enc) :
    AnnexG.readPlanes enc i.numberOfSegments i.pixelCount =
      some ((List.range i.numberOfSegments).map
        (AnnexG.planeOf src.toList i.bytesAllocated i.spp i.pixelCount i.planar)) :=
  rle_spec_agrees' i hi src hlen enc he

/-- non-vacuity: a concrete frame meets every hypothesis and the conclusion computes -/
example : let i : Info := { width := 3, height := 1, bitsAllocated := 16, spp := 1, planar := 0 }
    i.Accepted ∧ i.Fits32 ∧ (#[1, 0, 1, 0, 1, 7] : Array Byte).size = i.nativeLen ∧
    EncFits i #[1, 0, 1, 0, 1, 7] ∧ ∃ enc, encodeFrame i #[1, 0, 1, 0, 1, 7] = .ok enc := by
  refine ⟨by decide, by decide, by decide, ?_, ?_⟩
  · exact fits32_encFits _ (Info.Accepted.geo (by decide)) (by decide) _
  · exact rle_encode_ok _ (by decide) (by decide) _ (by decide)

/-- non-vacuity of the refusing branch: the static worst case 64 + planes·(2·pixels + 1) of the hunters' witness
    geometry (19700 x 19700, 32-bit, 3 samples: 12 planes of 388 090 000 bytes, literal-coded segments of
    391 121 954 bytes each) is beyond the 32-bit range, while a 2 GiB − 50 byte frame is always inside: `Fits32`
    is not vacuous at the top, and descriptions outside it exist inside the property's quantifier -/
example : let big : Info := { width := 19700, height := 19700, bitsAllocated := 32, spp := 3, planar := 0 }
    big.Accepted ∧ ¬ big.Fits32 ∧ 64 + 12 * 391121954 > maxEncodedFrameLength := by decide

end Rle
