import GdcVerif.Model.Htj2k
import GdcVerif.Lemmas.Htj2k
import GdcVerif.Lemmas.Htj2kBlock
/-!
  C06 — HTJ2K Lossless (.201/.202): exact round trip and exact third-party decode.

  PARTIAL.  Theorems below cover: the MEL coder (mel.go; same text as the cleanup pass's MEL writer),
  `calculateMaxLevels`, the band-precision (Kmax) / missing-MSB bookkeeping shared by encoder, QCD marker,
  packet header and decoder (generated kernels), the sign-magnitude words at the two ends of the cleanup
  pass, prefix-freeness and completeness of the VLC source tables (generated), and the Psot/TLM arithmetic
  of `writeHTJ2KTileParts`/`writeTLM`.  NOT modelled: the quad-pair control flow of the cleanup pass
  (`openjph_cleanup_*`), MagSgn/VLC bit packing, `ojphMELReader`, T2, DWT, RCT — there the property is only
  searched (harness `c06.go`).

  The round-1 finding `htj2k-kmax-0levels-min-sample` (Kmax = P-1 at 0 levels) is repaired in /repo (18c42dd):
  `kmax_0levels` is now a full theorem and the old witnesses are regression examples.
-/
namespace Htj2k

/-! ## MEL coder -/

/-- the generated `MelE` is Table 2 of ISO/IEC 15444-15 (13 states, exponents 0,0,0,1,1,1,2,2,2,3,3,4,5) -/
theorem melE_is_T814_table2 : Gen.Htj2k.MelE = #[0, 0, 0, 1, 1, 1, 2, 2, 2, 3, 3, 4, 5] := by decide

/-- (1) MEL round trip, every symbol sequence: `NewMELDecoder(Flush(EncodeBit*(bits)))` returns exactly `bits`
    on its first `len(bits)` `DecodeBit` calls, each with `ok = true` — including the final flush of a pending
    run (Flush appends a terminating 1 that is never asked for) and the 7-bit byte after every 0xFF byte. -/
theorem mel_roundtrip (bits : List Bool) : melDecode (melEncode bits) bits.length = (bits, true) :=
  mel_roundtrip' bits

/-- non-vacuity: 40 zeros drive k up and emit only 1-bits (0xFF, then a 7-bit byte 0x71); then a 1 -/
example : melEncode (List.replicate 40 false ++ [true]) = [0xFF, 0x71, 0x80] ∧
    melDecode [0xFF, 0x71, 0x80] 41 = (List.replicate 40 false ++ [true], true) := by decide +kernel

/-- (1b) byte stuffing of the MEL stream: no byte that follows 0xFF has its top bit set, so the MEL bytes never
    contain a marker code 0xFF80..0xFFFF (shared with C16) -/
theorem mel_stuffed (bits : List Bool) : Stuffed false (melEncode bits) := mel_stuffed' bits

example : Stuffed false [0xFF, 0x71, 0x80] ∧ ¬ Stuffed false [0xFF, 0x80] := by simp [Stuffed]

/-! ## calculateMaxLevels -/

/-- (2) `calculateMaxLevels(w, h)` ∈ 0..6; it is ⌈log2(min(w,h))⌉ clamped to 6 (and 0 for min ≤ 0): when the
    clamp is not hit, `2^(r-1) < min ≤ 2^r`; when it returns 6, `min > 32`.  (`w,h ≤ 2^62`: beyond that Go's
    `1 << maxLevels` wraps and the loop does not terminate; the codec passes uint16 values.) -/
theorem calculateMaxLevels_spec (w h : Int) (hw : w ≤ 2 ^ 62) (hh : h ≤ 2 ^ 62) :
    let r := calculateMaxLevels w h
    let m := if h < w then h else w
    0 ≤ r ∧ r ≤ 6 ∧ (m ≤ 0 → r = 0) ∧
    (0 < m → r < 6 → m ≤ 2 ^ r.toNat ∧ (0 < r → (2 : Int) ^ (r.toNat - 1) < m)) ∧
    (0 < m → r = 6 → (32 : Int) < m) :=
  calculateMaxLevels_spec' w h hw hh

example : calculateMaxLevels 1 9 = 0 ∧ calculateMaxLevels 3 5 = 2 ∧ calculateMaxLevels 64 64 = 6 ∧
    calculateMaxLevels 65535 33 = 6 ∧ calculateMaxLevels 32 600 = 5 := by decide

/-! ## Band precision (Kmax) and missing MSBs: encoder = QCD = decoder (generated kernels) -/

/-- (3) encoder (`jpeg2000/encoder.go`) and decoder (`t2/bitplane.go`) index the QCD exponents identically -/
theorem subbandIndex_enc_dec_agree (numLevels res band : Int) :
    Gen.Htj2kEnc.subbandIndex numLevels res band = Gen.Htj2kDec.subbandIndex numLevels res band := by
  unfold Gen.Htj2kEnc.subbandIndex Gen.Htj2kDec.subbandIndex
  rfl

/-- the index is injective on existing bands and stays inside the `3·numLevels+1` exponents -/
theorem subbandIndex_range (nl res band : Int) (h : 0 ≤ Gen.Htj2kEnc.subbandIndex nl res band) :
    Gen.Htj2kEnc.subbandIndex nl res band < 3 * nl + 1 ∧ 0 ≤ res ∧ res ≤ nl ∧
    (res = 0 → band = 0) ∧ (0 < res → 1 ≤ band ∧ band ≤ 3) ∧
    Gen.Htj2kEnc.subbandIndex nl res band = (if res = 0 then 0 else 3 * (res - 1) + band) := by
  unfold Gen.Htj2kEnc.subbandIndex at h ⊢
  by_cases h1 : res < 0 <;> by_cases h2 : res > nl <;> by_cases h3 : res = 0 <;> by_cases h4 : band = 0 <;>
    by_cases h5 : band < 1 <;> by_cases h6 : band > 3 <;> simp_all <;> omega

/-- (4) HT branch of `codeBlockPassLayout`: one pass (none for an all-zero block), and the number of zero bit
    planes signalled in the packet header is `bandNumbps - 1` (clamped at 0) — independent of the block -/
theorem ht_passlayout (e : Gen.Htj2kEnc.Encoder) (h : e.params.HTJ2KMode = true) (cb bn : Int) :
    e.codeBlockPassLayout cb bn = (if cb = 0 then 0 else 1, if bn - 1 < 0 then 0 else bn - 1) := by
  unfold Gen.Htj2kEnc.Encoder.codeBlockPassLayout
  simp only [h]
  by_cases h1 : cb = 0 <;> by_cases h2 : bn - 1 < 0 <;> simp [h1, h2]

/-- (5) missing-MSB agreement: the encoder codes with `missingMSBs = kmax - 1` (`SetKMax(bandNumbps)`); the decoder's
    `htj2kMissingMSBs` returns that same number whether it takes the packet header's zero-bit-plane count
    (as written by (4)) or falls back to the band precision — for every band precision ≥ 1 -/
theorem ht_missing_msbs_agree (e : Gen.Htj2kEnc.Encoder) (h : e.params.HTJ2KMode = true)
    (td : Gen.Htj2kDec.TileDecoder) (info : Gen.Htj2kDec.cbInfo) (cb kmax : Int) (hk : 1 ≤ kmax) :
    (info.zeroBitplanesSet = true → info.zeroBitplanes = (e.codeBlockPassLayout cb kmax).2 →
      td.htj2kMissingMSBs info kmax = kmax - 1) ∧
    (info.zeroBitplanesSet = false → td.htj2kMissingMSBs info kmax = kmax - 1) := by
  rw [ht_passlayout e h]
  unfold Gen.Htj2kDec.TileDecoder.htj2kMissingMSBs
  constructor
  · intro hs hz
    simp only [hs, if_true, hz]
    have : ¬ (kmax - 1 < 0) := by omega
    simp [this]
  · intro hs
    have : ¬ (kmax ≤ 0) := by omega
    simp [hs, this]

/-- (6) QCD byte round trip: `Sqcd = uint8(guard << 5)`, `SPqcd = uint8(expn << 3)` read back by
    `bandNumbpsFromQCD` (style 0) give `expn + guard - 1`, for every 5-bit exponent and 3-bit guard count -/
theorem qcd_byte_roundtrip (expn guard : Int) (he : 0 ≤ expn ∧ expn ≤ 31) (hg : 0 ≤ guard ∧ guard ≤ 7) :
    decBandNumbps (qcdSqcd guard) (qcdSPqcd expn) = expn + guard - 1 := by
  unfold decBandNumbps qcdSqcd qcdSPqcd Go.uwrap8
  omega

/-- (7) Kmax agreement over the whole finite index space of the HTJ2K lossless encoder: for every
    `numLevels` (the encoder clamps to 0..6), bit depth 1..16, with or without RCT, every resolution and band, the decoder recomputes from
    the QCD bytes exactly the `bandNumbps` the encoder hands to `SetKMax` -/
theorem kmax_enc_dec_agree (nl bd : Nat) (rct : Bool) (res band : Nat) (hbd : 1 ≤ bd ∧ bd ≤ 16) :
    decBandNumbps (qcdSqcd htGuardBits) (qcdSPqcd (htExpn nl bd rct res band)) = encBandNumbps nl bd rct res band := by
  have hb : biboLog2 nl res band ≤ 4 := by
    unfold biboLog2; dsimp only; repeat' split
    all_goals omega
  have h0 : 0 ≤ htExpn nl bd rct res band ∧ htExpn nl bd rct res band ≤ 31 := by
    unfold htExpn; cases rct <;> simp <;> omega
  rw [qcd_byte_roundtrip _ _ h0 (by decide)]
  rfl

example : encBandNumbps 5 8 false 0 0 = 9 ∧ encBandNumbps 5 8 false 1 1 = 10 ∧ encBandNumbps 5 8 false 5 3 = 9 ∧
    encBandNumbps 5 8 true 0 0 = 10 ∧ encBandNumbps 0 16 false 0 0 = 16 ∧ encBandNumbps 0 8 true 0 0 = 9 := by decide

/-! ## Is Kmax large enough? -/

/-- (8) 0 decomposition levels, one component (repaired by 18c42dd; was the finding `htj2k-kmax-0levels-min-sample`):
    every level-shifted P-bit sample — including the most negative one, magnitude 2^(P-1) — fits in the Kmax
    magnitude bits of the only band. -/
theorem kmax_0levels (P : Nat) (h1 : 1 ≤ P) (v : Int) (hlo : -(2 : Int) ^ (P - 1) ≤ v) (hhi : v < 2 ^ (P - 1)) :
    v.natAbs < 2 ^ (encBandNumbps 0 P false 0 0).toNat := by
  have hk : (encBandNumbps 0 P false 0 0).toNat = (P - 1) + 1 := by
    unfold encBandNumbps htExpn htGuardBits; simp <;> omega
  rw [hk, Nat.pow_succ]
  have e : ((2 ^ (P - 1) : Nat) : Int) = (2 : Int) ^ (P - 1) := by simp [Int.natCast_pow]
  have hp : 0 < 2 ^ (P - 1) := Nat.two_pow_pos _
  omega

/-- regression anchors: the old witnesses (8-bit unsigned 0 ↦ −128, 16-bit unsigned 0 ↦ −32768) now fit, and the
    sign-magnitude word at the repaired Kmax carries them exactly -/
example : (-128 : Int).natAbs < 2 ^ (encBandNumbps 0 8 false 0 0).toNat ∧
    (-32768 : Int).natAbs < 2 ^ (encBandNumbps 0 16 false 0 0).toNat ∧
    fromSignMag 8 (toSignMag 8 (-128)) = -128 ∧ fromSignMag 16 (toSignMag 16 (-32768)) = -32768 := by decide

/-- (9) 0 levels with RCT (3 components): Y ∈ [−2^(P−1), 2^(P−1)), Cb/Cr ∈ (−2^P, 2^P) all fit (Kmax = P+1) -/
theorem kmax_0levels_rct (P : Nat) (v : Int) (hlo : -(2 : Int) ^ P ≤ v) (hhi : v ≤ 2 ^ P) :
    v.natAbs < 2 ^ (encBandNumbps 0 P true 0 0).toNat := by
  have hk : (encBandNumbps 0 P true 0 0).toNat = P + 1 := by
    unfold encBandNumbps htExpn htGuardBits; simp <;> omega
  rw [hk, Nat.pow_succ]
  have e : ((2 ^ P : Nat) : Int) = (2 : Int) ^ P := by simp [Int.natCast_pow]
  have hp : 0 < 2 ^ P := Nat.two_pow_pos _
  omega

/-- (10) the band-exponent table the encoder uses is exactly the ceil-log2 of the squared BIBO gains of quantization.go:
    `2^(X-1) < G ≤ 2^X` for every band of every decomposition depth 0..6 -/
theorem biboLog2_is_ceil_log2_of_gain : ∀ nl : Fin 7, ∀ res : Fin 7, ∀ band : Fin 4, res.val ≤ nl.val →
    bandGain nl res band ≤ 2 ^ biboLog2 nl res band * 10 ^ 8 ∧
    (0 < biboLog2 nl res band → 2 ^ (biboLog2 nl res band - 1) * 10 ^ 8 < bandGain nl res band) :=
  biboLog2_is_ceil_log2_gain

/-- (11) Kmax sufficiency for 1..6 levels, GIVEN the analysis-gain bound of the band.
    LABELLED HYPOTHESIS `hgain` (not proved here for depth ≥ 2; it is the defining property of the BIBO gain table
    `openJPH53LowBIBO/HighBIBO`, a statement about the cascaded 5/3 analysis filters): the coefficient's magnitude is
    at most `bandGain / 10^8` times the largest sample magnitude `2^(precision-1)`.
    Conclusion: the coefficient fits in the Kmax magnitude bits the encoder hands to the block coder — for every band
    except HH of the first decomposition, whose nominal gain is exactly 4 = 2^X (handled exactly by (12)). -/
theorem kmax_sufficient_of_gain (nl bd : Nat) (rct : Bool) (res band : Nat) (c : Int)
    (hnl : 1 ≤ nl ∧ nl ≤ 6) (hbd : 1 ≤ bd) (hres : res ≤ nl) (hband : band ≤ 3)
    (hnotHH1 : ¬ (band = 3 ∧ res = nl))
    (hgain : c.natAbs * 10 ^ 8 ≤ bandGain nl res band * 2 ^ (bd + rct.toNat - 1)) :
    c.natAbs < 2 ^ (encBandNumbps nl bd rct res band).toNat :=
  kmax_sufficient_of_gain' nl bd rct res band c hnl hbd hres hband hnotHH1 hgain

example : bandGain 5 0 0 = 291282489 ∧ bandGain 5 5 3 = 400000000 ∧ bandGain 6 1 3 = 807128100 ∧
    (300 : Int).natAbs * 10 ^ 8 ≤ bandGain 5 0 0 * 2 ^ (8 + false.toNat - 1) := by decide

/-- (12) one decomposition level, PROVED from the lifting formulas of dwt53.go (no gain hypothesis): with
    `M = 2^(precision-1)` and samples in `[-M, M-1]`, the first pass maps into `inLow1`/`inHigh1` and the second pass
    of either kind stays strictly inside `(-4M, 4M)`, and `4M = 2^Kmax` for all four level-1 bands. Neighbours are
    arbitrary in-range values, which covers the symmetric extension at the borders. -/
theorem kmax_level1_sufficient (bd : Nat) (rct : Bool) (hbd : 1 ≤ bd) (M : Int) (hM : M = 2 ^ (bd + rct.toNat - 1)) :
    (∀ a b c d e, inSamples M a → inSamples M b → inSamples M c → inSamples M d → inSamples M e →
      inLow1 M (lift53Low (lift53High a b c) c (lift53High c d e))) ∧
    (∀ a b c, inSamples M a → inSamples M b → inSamples M c → inHigh1 M (lift53High a b c)) ∧
    (∀ res band, res ≤ 1 → band ≤ 3 →
      let K : Int := ((2 ^ (encBandNumbps 1 bd rct res band).toNat : Nat) : Int)
      (∀ a b c d e, inLow1 M a → inLow1 M b → inLow1 M c → inLow1 M d → inLow1 M e →
        -K < lift53Low (lift53High a b c) c (lift53High c d e) ∧ lift53Low (lift53High a b c) c (lift53High c d e) < K) ∧
      (∀ a b c d e, inHigh1 M a → inHigh1 M b → inHigh1 M c → inHigh1 M d → inHigh1 M e →
        -K < lift53Low (lift53High a b c) c (lift53High c d e) ∧ lift53Low (lift53High a b c) c (lift53High c d e) < K) ∧
      (∀ a b c, inLow1 M a → inLow1 M b → inLow1 M c → -K < lift53High a b c ∧ lift53High a b c < K) ∧
      (∀ a b c, inHigh1 M a → inHigh1 M b → inHigh1 M c → -K < lift53High a b c ∧ lift53High a b c < K)) := by
  have hM1 : 1 ≤ M := by
    rw [hM]; have : (0 : Int) < 2 ^ (bd + rct.toNat - 1) := Int.pow_pos (by decide); omega
  refine ⟨fun a b c d e => pass1_low M a b c d e, fun a b c => pass1_high M a b c, ?_⟩
  intro res band hres hband
  have hK := kmax_level1 bd rct res band hbd hres hband
  simp only [hK, ← hM]
  exact ⟨fun a b c d e => pass2_LL M a b c d e hM1, fun a b c d e => pass2_lowOfHigh M a b c d e hM1,
    fun a b c => pass2_highOfLow M a b c hM1, fun a b c => pass2_HH M a b c hM1⟩

example : inSamples 128 (-128) ∧ inSamples 128 127 ∧ lift53High (-128) 127 (-128) = 255 ∧ inHigh1 128 255 ∧
    lift53High (-255) 255 (-255) = 510 ∧ (510 : Int) < 2 ^ (encBandNumbps 1 8 false 1 3).toNat := by
  unfold inSamples inHigh1; decide

/-- (13) the sign-magnitude word built by `encodeOpenJPHCleanup` and taken apart by `decodeOpenJPHCleanup` is exact for
    every coefficient that fits in Kmax magnitude bits — the block coder's contract, which (8), (9), (11), (12)
    establish for the coefficients the encoder produces -/
theorem signmag_roundtrip (kmax : Nat) (hk : kmax ≤ 31) (v : Int) (hv : v.natAbs < 2 ^ kmax) :
    fromSignMag kmax (toSignMag kmax v) = v := signmag_roundtrip' kmax hk v hv

/-- the contract is tight: a magnitude of exactly 2^Kmax turns into the word 0x80000000 ("−0"), its magnitude field is
    0 (coded as insignificant) and it comes back as 0 — what the old Kmax = P−1 did to the sample −128 -/
example : toSignMag 7 (-128) = 0x80000000 ∧ magField 7 (toSignMag 7 (-128)) = 0 ∧ fromSignMag 7 (toSignMag 7 (-128)) = 0 ∧
    fromSignMag 15 (toSignMag 15 (-32767)) = -32767 := by decide

/-! ## Scup locator -/

/-- (14) `writeScupLocator` then `parseStandardSegments`: the 12-bit Scup value is read back exactly, the upper nibble
    of the second-to-last byte (VLC bits) is untouched, both bytes stay bytes -/
theorem scup_roundtrip (oldLast2 scup : Nat) (hs : scup < 4096) :
    let w := scupWrite oldLast2 scup
    scupRead w.1 w.2 = scup ∧ w.1 / 16 = oldLast2 % 256 / 16 ∧ w.1 < 256 ∧ w.2 < 256 := by
  unfold scupWrite scupRead; omega

/-- (15) an accepted locator splits the code-block exactly: MagSgn bytes + (MEL+VLC) bytes = Lcup, with at least the two
    locator bytes in the suffix and at most 4079 -/
theorem scup_split_exact (lcup scup ms cl : Nat) (h : scupSplit lcup scup = some (ms, cl)) :
    ms + cl = lcup ∧ cl = scup ∧ 2 ≤ cl ∧ cl ≤ 4079 := by
  unfold scupSplit at h
  split at h
  · simp at h
  · simp only [Option.some.injEq, Prod.mk.injEq] at h; omega

example : scupWrite 0xA7 0x123 = (0xA3, 0x12) ∧ scupRead 0xA3 0x12 = 0x123 ∧ scupSplit 300 0x123 = some (9, 291) ∧
    scupSplit 1 2 = none ∧ scupSplit 5000 4080 = none := by decide

/-! ## VLC / U-VLC tables (generated from vlc_tables.go) -/

set_option maxRecDepth 100000 in
/-- (16) `VLCTbl0` (initial quad row): all 444 rows well-formed; within each of the 8 contexts no codeword is a
    prefix (LSB-first) of another -/
theorem vlc_tbl0_prefix_free : vlcTableOk Gen.Htj2k.VLCTbl0 = true := by decide +kernel

set_option maxRecDepth 100000 in
/-- (17) `VLCTbl1` (non-initial rows): same -/
theorem vlc_tbl1_prefix_free : vlcTableOk Gen.Htj2k.VLCTbl1 = true := by decide +kernel

set_option maxRecDepth 100000 in
/-- (18) both tables are complete prefix codes in every context: Kraft sum exactly 1 (= 128/128), so every 7-bit
    window the decoder peeks at matches exactly one row -/
theorem vlc_tbl_complete :
    (List.range 8).map (vlcKraft Gen.Htj2k.VLCTbl0) = List.replicate 8 128 ∧
    (List.range 8).map (vlcKraft Gen.Htj2k.VLCTbl1) = List.replicate 8 128 := by decide +kernel

/-- (19) the four U-VLC prefixes `1`, `01`, `001`, `000` (LSB first) are prefix-free and complete -/
theorem uvlc_prefix_free : prefixFreeKeys uvlcPrefixes = true ∧
    uvlcPrefixes.foldl (fun acc k => acc + 2 ^ (3 - k.2.2)) 0 = 8 := by decide

/-- the encoder's `ojphUVLC` uses exactly those prefixes, and its (prefix, suffix, extension) value decodes back:
    u = 1, 2, 3 + suf, 5 + suf (suf < 28), 33 + (suf − 28) + 4·ext -/
theorem ojphUVLC_decodes (code : Int) (h1 : 1 ≤ code) (h2 : code ≤ 92) :
    let (pre, preLen, suf, sufLen, ext, extLen) := ojphUVLC code
    ((pre.toNat, preLen.toNat) ∈ [(1, 1), (2, 2), (4, 3), (0, 3)]) ∧ 0 ≤ suf ∧ suf < 2 ^ sufLen.toNat ∧
    0 ≤ ext ∧ ext < 2 ^ extLen.toNat ∧
    code = (if pre = 1 then 1 else if pre = 2 then 2 else if pre = 4 then 3 + suf
            else if suf < 28 then 5 + suf else 33 + (suf - 28) + 4 * ext) := by
  have : ∀ c : Fin 93, 1 ≤ c.val →
      (let (pre, preLen, suf, sufLen, ext, extLen) := ojphUVLC (c.val : Int)
       ((pre.toNat, preLen.toNat) ∈ [(1, 1), (2, 2), (4, 3), (0, 3)]) ∧ 0 ≤ suf ∧ suf < 2 ^ sufLen.toNat ∧
       0 ≤ ext ∧ ext < 2 ^ extLen.toNat ∧
       (c.val : Int) = (if pre = 1 then 1 else if pre = 2 then 2 else if pre = 4 then 3 + suf
            else if suf < 28 then 5 + suf else 33 + (suf - 28) + 4 * ext)) := by decide
  have hc := this ⟨code.toNat, by omega⟩ (by simp; omega)
  have e : ((code.toNat : Nat) : Int) = code := by omega
  simp only [e] at hc
  exact hc

/-! ## U-VLC encode/decode pair -/

/-- (22) non-initial quad rows: `decodeOJPHUVLC(false, mode, window)` returns exactly the `(u0, u1)` that
    `ojphEncodeNonInitialUVLC` coded and consumes exactly the coded bits — for every `u0, u1 ≤ 32` (the encoder never
    writes the 4-bit extension, so 32 is the largest value the pair can carry; Kmax ≤ 30 keeps u below it) and for
    EVERY continuation `rest` of the VLC bit stream after the code (the decoder's 6-bit prefix look-ahead never
    lets following bits change the result). Tables: model of `generateUVLCTables`, compared entry by entry with the
    package's `UVLCTbl1`. -/
theorem uvlc_noninitial_roundtrip (u0 u1 rest : Nat) (h0 : u0 ≤ 32) (h1 : u1 ≤ 32) :
    decodeUVLC false (uvlcMode false u0 u1)
      ((encodeNonInitialUVLC u0 u1).1 + rest * 2 ^ (encodeNonInitialUVLC u0 u1).2) =
      (u0, u1, (encodeNonInitialUVLC u0 u1).2) := uvlc_noninitial_roundtrip' u0 u1 rest h0 h1

/-- (23) initial quad row: same for `ojphEncodeInitialUVLC` with its three layouts (both > 2 with MEL event 1 and codes
    of u−2; u0 > 2 with a 1-bit u1 ∈ {1,2} between prefix and suffix; the general prefix-prefix-suffix-suffix layout),
    the mode including the MEL event exactly as `mel.encode(min(u0,u1) > 2)` signals it -/
theorem uvlc_initial_roundtrip (u0 u1 rest : Nat) (h0 : u0 ≤ 32) (h1 : u1 ≤ 32) :
    decodeUVLC true (uvlcMode true u0 u1)
      ((encodeInitialUVLC u0 u1).1 + rest * 2 ^ (encodeInitialUVLC u0 u1).2) =
      (u0, u1, (encodeInitialUVLC u0 u1).2) := uvlc_initial_roundtrip' u0 u1 rest h0 h1

example : encodeInitialUVLC 7 9 = (0x1000, 16) ∧ uvlcMode true 7 9 = 256 ∧ decodeUVLC true 256 (0x1000 + 5 * 2 ^ 16) = (7, 9, 16) ∧
    encodeInitialUVLC 5 1 = (0, 9) ∧ uvlcMode true 5 1 = 192 ∧ encodeNonInitialUVLC 32 0 = (0xD8, 8) ∧
    uvlcTbl0 64 = 5803 ∧ uvlcTbl1 255 = 9218 := by decide

/-! ## HT packet header: empty-band signalling (seeded change C06-m2 lands here) -/

/-- (24) what `encodeHTJ2KPacketHeader` writes, for ANY sequence of bands (absent / code-blocks but none coded / coded):
    `0` when no band is coded; otherwise `1`, then in band order nothing for an absent band, ONE `0` for each band with
    code-blocks but none coded — also for those before the first coded band (`for range skippedBands`) — and the band's
    own bits for a coded band. Tied to the real writer by op `htj2k-pkthdr` (all 26 kind patterns × 3 body variants). -/
theorem ht_header_bits (bands : List HtBand) :
    encodeHtBands bands = if bands.any HtBand.isCoded then true :: bandsBits bands else [false] :=
  encodeHtBands_eq bands

/-- (25) round trip with the decoder's reading (`parsePacketHeaderMulti`: packet bit, then per band with code-blocks the
    root of a fresh inclusion tag tree — `0` = nothing of the band included, no further bits for it), for any pattern
    of empty bands, given only that a coded band starts with its root bit `1` and that the rest of its bits is
    self-delimiting for the band parser (`HtBand.WellFormed`): every band is classified correctly, every coded band's
    bits are handed to the band parser at the right offset, and exactly the header's bits are consumed. -/
theorem ht_header_bands_roundtrip {α : Type} (parseTail : List Bool → Option (α × List Bool)) (info : List Bool → α)
    (bands : List HtBand) (hwf : ∀ b ∈ bands, b.WellFormed parseTail info) (rest : List Bool) :
    decodeHtBands parseTail (bands.map HtBand.present) (encodeHtBands bands ++ rest) =
      some (bands.map (HtBand.result info), rest) :=
  ht_bands_roundtrip' parseTail info bands hwf rest

/-- the checkerboard case (HL, LH empty, HH coded): two `0` bits between the packet bit and HH's bits; with a single `0`
    (the seeded variant) the decoder would take HH's root bit `1` for LH's and mis-assign the band -/
example : encodeHtBands [.empty, .empty, .coded [true, true, false]] = [true, false, false, true, true, false] ∧
    encodeHtBands [.empty, .absent, .empty] = [false] ∧
    encodeHtBands [.coded [true], .empty, .coded [true, false]] = [true, true, false, true, false] ∧
    decodeHtBands (fun s => some (s.take 2, s.drop 2)) [true, true, true] [true, false, false, true, true, false, true] =
      some ([some none, some none, some (some [true, false])], [true]) := by decide

/-! ## U_q, missing MSBs and Kmax (seeded change C06-m1 lands here) -/

/-- (26) the exponent the cleanup encoder computes for a significant coefficient (`prepareOJPHSample`:
    `bits.Len32(((t+t)>>p &^ 1) - 1)` on the sign-magnitude word, `p = 31 - Kmax`) is the bit length of `2|v|-1`:
    between 1 and Kmax+1 for every admissible coefficient, 0 for 0 -/
theorem sample_exponent_range (kmax : Nat) (hk : 1 ≤ kmax ∧ kmax ≤ 30) (v : Int) (hv : v.natAbs < 2 ^ kmax) :
    sampleVal kmax (toSignMag kmax v) = 2 * v.natAbs ∧
    sampleEQ kmax (toSignMag kmax v) ≤ kmax + 1 ∧ (v ≠ 0 → 1 ≤ sampleEQ kmax (toSignMag kmax v)) ∧
    (v = 0 → sampleEQ kmax (toSignMag kmax v) = 0) :=
  ⟨sampleVal_signMag kmax hk v hv, sampleEQ_range kmax hk v hv⟩

/-- (27) FIRST row pair: the U_q the encoder signals (`uq = max(eQMax, 1)`, eQMax the largest exponent of the quad) lies in
    `1 .. missingMSBs+2` (missingMSBs = Kmax-1), so the decoder's check `uq > mmsbp2` accepts it … -/
theorem uq_initial_accepted (kmax : Nat) (hk : 1 ≤ kmax ∧ kmax ≤ 30) (v0 v1 v2 v3 : Int)
    (h0 : v0.natAbs < 2 ^ kmax) (h1 : v1.natAbs < 2 ^ kmax) (h2 : v2.natAbs < 2 ^ kmax) (h3 : v3.natAbs < 2 ^ kmax) :
    let uq := uqInitial (max (max (sampleEQ kmax (toSignMag kmax v0)) (sampleEQ kmax (toSignMag kmax v1)))
      (max (sampleEQ kmax (toSignMag kmax v2)) (sampleEQ kmax (toSignMag kmax v3))))
    1 ≤ uq ∧ uq ≤ (kmax - 1) + 2 ∧ uqAccepted uq (kmax - 1) = true := by
  have a0 := (sampleEQ_range kmax hk v0 h0).1
  have a1 := (sampleEQ_range kmax hk v1 h1).1
  have a2 := (sampleEQ_range kmax hk v2 h2).1
  have a3 := (sampleEQ_range kmax hk v3 h3).1
  generalize sampleEQ kmax (toSignMag kmax v0) = e0 at a0
  generalize sampleEQ kmax (toSignMag kmax v1) = e1 at a1
  generalize sampleEQ kmax (toSignMag kmax v2) = e2 at a2
  generalize sampleEQ kmax (toSignMag kmax v3) = e3 at a3
  intro uq
  have hu : uq = max (max (max e0 e1) (max e2 e3)) 1 := rfl
  refine ⟨by omega, by omega, ?_⟩
  simp only [uqAccepted, Bool.not_eq_true', decide_eq_false_iff_not]
  omega

/-- (28) … and the accepted range is EXACT: every `uq` in `1 .. missingMSBs+2` is signalled by some admissible quad
    (Kmax ≥ 2), in particular `uq = missingMSBs+2` by any |v| > 2^(Kmax-1); the check accepts `uq` iff `uq ≤ missingMSBs+2`.
    A one-sided tightening (`>=`) rejects blocks the encoder produces. -/
theorem uq_accepted_range_exact (kmax : Nat) (hk : 2 ≤ kmax ∧ kmax ≤ 30) :
    (∀ uq : Nat, uqAccepted uq (kmax - 1) = true ↔ uq ≤ (kmax - 1) + 2) ∧
    (∀ uq : Nat, 1 ≤ uq → uq ≤ (kmax - 1) + 2 →
      ∃ v : Int, v.natAbs < 2 ^ kmax ∧ uqInitial (sampleEQ kmax (toSignMag kmax v)) = uq) := by
  constructor
  · intro uq
    simp only [uqAccepted, Bool.not_eq_true', decide_eq_false_iff_not]
    omega
  · intro uq h1 h2
    obtain ⟨v, hv, he⟩ := sampleEQ_onto kmax uq hk ⟨h1, by omega⟩
    exact ⟨v, hv, by rw [he]; unfold uqInitial; omega⟩

/-- (29) LATER row pairs: `U_q = max(eQMax, kappa)`, `kappa = max(1, maxE)` for quads with ≥ 2 significant samples, `maxE` one
    less than the larger exponent of the two samples above — again in `1 .. missingMSBs+2`, accepted by the same check
    in the second loop of `decodeOJPHScratchMagSgn`; with a single significant sample it equals the first-row value,
    so the range is exact here too -/
theorem uq_later_accepted (kmax eQMax e0 e1 : Nat) (two : Bool) (hk : 1 ≤ kmax)
    (hq : eQMax ≤ kmax + 1) (h0 : e0 ≤ kmax + 1) (h1 : e1 ≤ kmax + 1) :
    1 ≤ uqLater eQMax two e0 e1 ∧ uqLater eQMax two e0 e1 ≤ ((kmax - 1 : Nat) : Int) + 2 ∧
    uqAccepted (uqLater eQMax two e0 e1) (kmax - 1) = true ∧
    (1 ≤ eQMax → uqLater eQMax false e0 e1 = uqInitial eQMax) := by
  have h := uqLater_range kmax eQMax e0 e1 two hq h0 h1
  refine ⟨h.1, by omega, ?_, ?_⟩
  · simp only [uqAccepted, Bool.not_eq_true', decide_eq_false_iff_not]; omega
  · intro h1; unfold uqLater uqInitial; simp; omega

example : sampleEQ 8 (toSignMag 8 129) = 9 ∧ uqInitial 9 = (8 - 1) + 2 ∧ uqAccepted 9 7 = true ∧ uqAccepted 10 7 = false ∧
    sampleEQ 8 (toSignMag 8 128) = 8 ∧ sampleEQ 8 (toSignMag 8 (-1)) = 1 ∧ uqLater 3 true 9 2 = 8 := by decide

/-! ## MagSgn bit packing -/

/-- (30) MagSgn stream round trip: for every sequence of codewords `(cwd, len)`, `len ≥ 1`, written by
    `ojphMSWriter.encode` (LSB first, a byte that follows 0xFF carries 7 bits) and closed by `terminate` (open byte
    filled with 1s; an all-ones last byte dropped), `MagSgnDecoder.readBits` with the same lengths returns exactly
    `cwd mod 2^len` each — the dropped / missing tail is regenerated by the decoder's 0xFF feeding -/
theorem magsgn_roundtrip (ws : List (Nat × Nat)) (hpos : ∀ w ∈ ws, 1 ≤ w.2) :
    MsReader.readAll { rest := ((({} : MsWriter).encodeAll ws).terminate) } (ws.map (·.2)) =
      ws.map (fun w => w.1 % 2 ^ w.2) := magsgn_roundtrip' ws hpos

/-- (31) the MagSgn bytes obey the stuffing rule (no byte ≥ 0x80 after 0xFF) and are bytes -/
theorem magsgn_stuffed (ws : List (Nat × Nat)) :
    Stuffed false (({} : MsWriter).encodeAll ws).buf ∧ ∀ x ∈ (({} : MsWriter).encodeAll ws).buf, x < 256 := by
  have h := (msw_all ws {} ⟨by decide, by decide, by decide, trivial, by simp⟩).1
  exact ⟨h.stuffed, h.bytes⟩

example : (({} : MsWriter).encodeAll [(0xFF, 8), (0x7F, 7), (5, 3), (1, 1)]).terminate = [0xFF, 0x7F, 0xFD] ∧
    MsReader.readAll { rest := [0xFF, 0x7F, 0xFD] } [8, 7, 3, 1] = [0xFF, 0x7F, 5, 1] ∧
    (({} : MsWriter).encodeAll [(0xFF, 8)]).terminate = [] ∧ MsReader.readAll { rest := [] } [8] = [0xFF] := by decide

/-! ## MEL/VLC termination: the fusion byte, and Scup -/

/-- (32) `terminateOJPHMELVLC` shares one byte between the MEL tail (top bits) and the VLC tail (bottom bits) only when
    the shared byte agrees with the MEL register on every MEL bit and with the VLC register on every VLC bit
    (and is not 0xFF): neither reader sees a changed bit -/
theorem fusion_byte_lossless (melTmp vlcTmp melMask vlcMask : Nat)
    (h : (((melTmp ||| vlcTmp) ^^^ melTmp) &&& melMask) ||| (((melTmp ||| vlcTmp) ^^^ vlcTmp) &&& vlcMask) = 0) :
    (melTmp ||| vlcTmp) &&& melMask = melTmp &&& melMask ∧ (melTmp ||| vlcTmp) &&& vlcMask = vlcTmp &&& vlcMask :=
  fusion_condition melTmp vlcTmp melMask vlcMask h

/-- (33) Scup = MEL bytes + VLC bytes is at least 2 in all three exits of `terminateOJPHMELVLC` (the VLC writer starts
    with the locator byte 0xFF and 4 used bits; `usedBits = 0` only right after it appended a byte), so the locator
    written by `writeScupLocator` always lands inside the suffix and `parseStandardSegments` accepts it
    (`scup_roundtrip`, `scup_split_exact`) as long as the suffix is shorter than 4080 bytes -/
theorem scup_consistent (pk : MelPacker) (vlcBuf : List Nat) (vlcTmp vlcUsed : Nat)
    (hbuf : 1 ≤ vlcBuf.length) (hinv : vlcUsed = 0 → 2 ≤ vlcBuf.length) (hu : vlcUsed ≤ 8)
    (msLen : Nat) (hlt : scupOf (terminateMelVlc pk vlcBuf vlcTmp vlcUsed) ≤ 4079) :
    let scup := scupOf (terminateMelVlc pk vlcBuf vlcTmp vlcUsed)
    2 ≤ scup ∧ scupSplit (msLen + scup) scup = some (msLen, scup) := by
  intro scup
  have h2 : 2 ≤ scup := scup_at_least_two pk vlcBuf vlcTmp vlcUsed hbuf hinv hu
  refine ⟨h2, ?_⟩
  unfold scupSplit
  have : ¬ (msLen + scup < 2 ∨ scup < 2 ∨ scup > msLen + scup ∨ scup > 4079) := by
    show ¬ (msLen + scup < 2 ∨ scup < 2 ∨ scup > msLen + scup ∨ scup > 4079)
    omega
  simp [this]

example : terminateMelVlc { buf := [0x12], tmp := 0b101, remainingBits := 5 } [0xFF, 0x34] 0b00010 2 = ([0x12, 0xA2], [0xFF, 0x34]) ∧
    terminateMelVlc { buf := [0x12], tmp := 0b101, remainingBits := 5 } [0xFF, 0x34] 0b10000010 8 = ([0x12, 0xA0], [0xFF, 0x34, 0x82]) ∧
    terminateMelVlc { buf := [0x12], tmp := 0b101, remainingBits := 5 } [0xFF] 0b0010 4 = ([0x12, 0xA0], [0xFF, 0x02]) := by
  decide

/-! ## Kmax for the second decomposition (part of the gain hypothesis discharged) -/

/-- (34) two decomposition levels, bands HL and LH of the second decomposition (resolution 1), PROVED from the lifting
    formulas by interval composition (gains 9/4 · 3/2 · 2 = 27/4 < 8 = 2^X): LL1 values lie in `inLL1`, the first pass of
    the second decomposition maps them into `inLow2a` / `inHigh2a`, and the second pass of the other kind stays strictly
    inside `(-8M, 8M)` with `8M = 2^Kmax` (M = 2^(precision-1) ≥ 8). For LL2 and HH2 the per-level interval bound
    (gains 81/16 > 4 and 9 > 8) is too weak; there `kmax_sufficient_of_gain` with its hypothesis remains. -/
theorem kmax_level2_hl_lh_sufficient (bd : Nat) (rct : Bool) (hbd : 4 ≤ bd) (M : Int) (hM : M = 2 ^ (bd + rct.toNat - 1)) :
    (∀ a b c d e, inLow1 M a → inLow1 M b → inLow1 M c → inLow1 M d → inLow1 M e →
      inLL1 M (lift53Low (lift53High a b c) c (lift53High c d e))) ∧
    (∀ a b c d e, inLL1 M a → inLL1 M b → inLL1 M c → inLL1 M d → inLL1 M e →
      inLow2a M (lift53Low (lift53High a b c) c (lift53High c d e))) ∧
    (∀ a b c, inLL1 M a → inLL1 M b → inLL1 M c → inHigh2a M (lift53High a b c)) ∧
    (∀ band, band = 1 ∨ band = 2 →
      let K : Int := ((2 ^ (encBandNumbps 2 bd rct 1 band).toNat : Nat) : Int)
      (∀ a b c, inLow2a M a → inLow2a M b → inLow2a M c → -K < lift53High a b c ∧ lift53High a b c < K) ∧
      (∀ a b c d e, inHigh2a M a → inHigh2a M b → inHigh2a M c → inHigh2a M d → inHigh2a M e →
        -K < lift53Low (lift53High a b c) c (lift53High c d e) ∧ lift53Low (lift53High a b c) c (lift53High c d e) < K)) := by
  have hM8 : 8 ≤ M := by
    rw [hM]
    have h : (2 : Int) ^ 3 ≤ 2 ^ (bd + rct.toNat - 1) := two_pow_le_int 3 _ (by omega)
    have : (2 : Int) ^ 3 = 8 := by decide
    omega
  refine ⟨fun a b c d e => pass2_LL_interval M a b c d e, fun a b c d e => lvl2_pass1_low M a b c d e,
    fun a b c => lvl2_pass1_high M a b c, ?_⟩
  intro band hband
  have hK := kmax_level2_hl_lh bd rct band (by omega) hband
  simp only [hK, ← hM]
  exact ⟨fun a b c => lvl2_highOfLow M a b c hM8, fun a b c d e => lvl2_lowOfHigh M a b c d e hM8⟩

/-! ## The cleanup pass itself: context VLC, one sample, the first-row quad pair

  `Model/Htj2kBlock.lean` is a code-shaped model of the WHOLE cleanup encoder (`encodeOpenJPHCleanup` with both row
  loops, the three bit writers, termination, fusion byte, Scup) — byte-exact against `HTEncoder.Encode` on every block
  the harness tries (op `ht-enc`) — and of the decoder at stream level (`ht-dec`, incl. foreign band precisions).
  Proved so far: the layers a whole-block lock-step needs, up to and including one first-row quad pair. -/

/-- (35) context-VLC round trip over the generated tables, both quad-row kinds: for every index the encoder can form
    (`eps ⊆ rho`, not an all-zero quad in context 0) `initOJPHEncoderVLCTable` holds a row, and `InitVLCTables` maps that
    row's codeword followed by ANY further bits, in the same context, back to the same row — so the decoder recovers
    rho, u_off (= eps ≠ 0) and an (e_k, e_1) pair with `e_1 = eps & e_k`. -/
theorem vlc_cxt_roundtrip (initial : Bool) (cq rho eps : Nat) (hcq : cq < 8) (hrho : rho < 16) (heps : eps < 16)
    (hsub : eps &&& rho = eps) (hnz : ¬ (rho = 0 ∧ cq = 0)) :
    ∃ r, encSelect (rowsOf initial) cq rho eps = some r ∧
      (∀ rest, decLookup (rowsOf initial) cq ((r.cwd + rest * 2 ^ r.len) % 128) = some r) ∧
      r.rho = rho ∧ r.uoff = (if eps = 0 then 0 else 1) ∧ eps &&& r.ek = r.e1 ∧ 1 ≤ r.len ∧ r.len ≤ 7 := by
  obtain ⟨hok, hcomp⟩ := rowsOf_ok initial
  obtain ⟨r, hr⟩ := Option.isSome_iff_exists.mp (encSelect_isSome (rowsOf initial) hcomp cq rho eps hcq hrho heps hsub hnz)
  refine ⟨r, hr, fun rest => (vlc_cxt_roundtrip' _ hok cq rho eps r hr rest).1, ?_⟩
  have h := vlc_cxt_roundtrip' _ hok cq rho eps r hr 0
  exact ⟨h.2.1, h.2.2.1, h.2.2.2.1, h.2.2.2.2.1, h.2.2.2.2.2.1⟩

/-- (36) one sample through MagSgn: from the `m = U_q - e_k` low bits of `s = 2|v| - 2 + sign` (`prepareOJPHSample`,
    `ojphEncodeMagSgn`) and the quad row's (e_k, e_1) bits, `decodeOJPHSampleMS` + the final shift return exactly `v`, and
    its `v_n` is `2|v| - 1`; hypotheses: `U_q` bounds the sample's exponent, an e_k bit occurs only with `U_q ≥ 2` and then
    e_1 says whether the exponent equals `U_q` (what `eps` and the VLC row guarantee) -/
theorem sample_roundtrip (kmax : Nat) (hk : 1 ≤ kmax ∧ kmax ≤ 30) (v : Int) (hv : v.natAbs < 2 ^ kmax) (hv0 : v ≠ 0)
    (uq ekb e1b : Nat) (hek : ekb ≤ 1)
    (h1 : (prepSample kmax (toSignMag kmax v)).2.1 ≤ uq) (huq : 1 ≤ uq)
    (h2 : ekb = 1 → 2 ≤ uq ∧ (e1b = 1 ↔ (prepSample kmax (toSignMag kmax v)).2.1 = uq) ∧ e1b ≤ 1)
    (h3 : ekb = 0 → e1b = 0) :
    let s := (prepSample kmax (toSignMag kmax v)).2.2
    let mn := uq - ekb
    let msVal := s % 2 ^ mn
    let vn := (msVal % 2 ^ mn + e1b * 2 ^ mn) / 2 * 2 + 1
    1 ≤ mn ∧ vn = 2 * v.natAbs - 1 ∧
    fromSignMag kmax (msVal % 2 * 2 ^ 31 + (vn + 2) * 2 ^ (30 - kmax) % 2 ^ 32) = v :=
  sample_roundtrip' kmax hk v hv hv0 uq ekb e1b hek h1 huq h2 h3

/-- (37) the first-row quad pair, VLC + MEL + U-VLC lock step: whatever context `cq0` the pair starts in, from the MEL
    events and VLC items one turn of `encodeOJPHInitialRows` writes (two quads, or one at a narrow right edge) followed by
    ANY further events / bits, one turn of `decodeOpenJPHInitialRow` recovers both quads' VLC rows (hence rho, e_k, e_1),
    both `U_q = 1 + u`, the next context, and leaves exactly the rest of both streams -/
theorem initial_pair_roundtrip (w x cq0 : Nat) (q0 q1 : QuadSig) (hcq : cq0 < 8) (h0 : q0.Valid) (h1 : q1.Valid)
    (mr : List Bool) (vr : Nat) :
    decInitialPair w x cq0 { mel := pairMel cq0 (decide (x + 2 < w)) q0 q1 ++ mr,
                             vlc := winOf (pairVlcItems cq0 (decide (x + 2 < w)) q0 q1) vr } =
      (((quadRow true cq0 q0.rho q0.eps, 1 + q0.u),
        (if x + 2 < w then quadRow true (q0.rho / 2 ||| q0.rho % 2) q1.rho q1.eps else none,
         1 + (if x + 2 < w then q1.u else 0))),
       (if x + 2 < w then q1.rho / 2 ||| q1.rho % 2 else 0), { mel := mr, vlc := vr }) :=
  initial_pair_roundtrip' w x cq0 q0 q1 hcq h0 h1 mr vr

/-- (38) its hypotheses hold for every quad the encoder prepares from admissible coefficients: `rho < 16`, `eps ⊆ rho`,
    `eps = 0 ↔ u = 0`, `u ≤ 32` (indeed ≤ Kmax) -/
theorem prepared_quad_valid (kmax : Nat) (hk : 1 ≤ kmax ∧ kmax ≤ 30) (v0 v1 v2 v3 : Int)
    (h0 : v0.natAbs < 2 ^ kmax) (h1 : v1.natAbs < 2 ^ kmax) (h2 : v2.natAbs < 2 ^ kmax) (h3 : v3.natAbs < 2 ^ kmax) :
    let q := prepQuad kmax [toSignMag kmax v0, toSignMag kmax v1, toSignMag kmax v2, toSignMag kmax v3]
    QuadSig.Valid ⟨q.rho, max q.eQMax 1 - 1, epsOf q.eQ q.eQMax ((max q.eQMax 1 - 1 : Nat) : Int)⟩ :=
  prepQuad_valid kmax hk v0 v1 v2 v3 h0 h1 h2 h3

set_option maxRecDepth 100000 in
/-- non-vacuity / regression anchor: a whole 2×2 block through the encoder model (bytes as the real encoder emits them)
    and back through the stream-level decoder model, evaluated by the kernel -/
example : htEncodeBlock 8 2 2 [5, -3, 0, 127] = some [136, 2, 1, 0, 116, 0] ∧
    (htEncodeState 8 2 2 [5, -3, 0, 127]).bind (htDecodeFromEnc 8 2 2) = some [5, -3, 0, 127] ∧
    (htEncodeState 8 2 2 [5, -3, 0, 127]).bind (htDecodeFromEnc 6 2 2) = none := by decide +kernel

/-! ## Tile-parts: Psot / TPsot / TNsot / TLM (shared with C16) -/

/-- (20) the Psot values `writeHTJ2KTileParts` writes add up to the bytes it emits (one tile-part per resolution:
    12-byte SOT, header, 2-byte SOD, packets), provided each part is shorter than 2^32 bytes -/
theorem tileparts_psot_sum (parts : List (Nat × Nat)) (hfit : ∀ p ∈ parts, p.2 + p.1 + 14 < 2 ^ 32) :
    (psots parts).sum = (parts.map (fun p => tilePartLen p.1 p.2)).sum := psots_sum parts hfit

/-- (21) `writeTLM`'s walk over the tile-part buffer (follow Psot from offset 0, reject `< 14` or overrun) succeeds,
    visits one offset per tile-part — so the TLM marker lists exactly the Psot values, `Ltlm = 4 + 6·n` — and
    ends exactly at the end of the buffer -/
theorem tileparts_tlm_walk (parts : List (Nat × Nat)) (hfit : ∀ p ∈ parts, p.2 + p.1 + 14 < 2 ^ 32) :
    ∃ offs, tlmWalk (parts.map (fun p => tilePartLen p.1 p.2)).sum (psots parts) 0 = some offs ∧
      offs.length = parts.length :=
  let ⟨offs, h1, h2, _⟩ := tlmWalk_psots parts hfit 0 _ (by simp)
  ⟨offs, h1, h2⟩

example : psots [(0, 10), (0, 0), (5, 7)] = [24, 14, 26] ∧
    tlmWalk 64 [24, 14, 26] 0 = some [0, 24, 38] ∧ tilePartsOk 64 true [24, 14, 26] [0, 1, 2] [3, 3, 3] [24, 14, 26] = true := by
  decide

end Htj2k
