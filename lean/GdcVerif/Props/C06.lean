import GdcVerif.Model.Htj2k
import GdcVerif.Lemmas.Htj2k
/-!
  C06 — HTJ2K Lossless (.201/.202): exact round trip and exact third-party decode.

  PARTIAL.  Theorems below cover: the MEL coder (mel.go; same text as the cleanup pass's MEL writer),
  `calculateMaxLevels`, the band-precision (Kmax) / missing-MSB bookkeeping shared by encoder, QCD marker,
  packet header and decoder (generated kernels), the sign-magnitude words at the two ends of the cleanup
  pass, prefix-freeness and completeness of the VLC source tables (generated), and the Psot/TLM arithmetic
  of `writeHTJ2KTileParts`/`writeTLM`.  NOT modelled: the quad-pair control flow of the cleanup pass
  (`openjph_cleanup_*`), MagSgn/VLC bit packing, `ojphMELReader`, T2, DWT, RCT — there the property is only
  searched (harness `c06.go`).

  FINDING (reproduced by the harness on the unchanged tree, class `htj2k-kmax-0levels-min-sample`):
  with 0 decomposition levels and one component the band precision is Kmax = P-1, one bit short of the
  magnitude 2^(P-1) of the most negative DC-shifted sample; see `kmax_0levels_counterexample`,
  `signmag_counterexample` and the `_partial` theorems.
-/
namespace Htj2k

/-! ## MEL coder -/

/-- the generated `MelE` is Table 2 of ISO/IEC 15444-15 (13 states, exponents 0,0,0,1,1,1,2,2,2,3,3,4,5) -/
theorem melE_is_T814_table2 : Gen.Htj2k.MelE = #[0, 0, 0, 1, 1, 1, 2, 2, 2, 3, 3, 4, 5] := by decide

/-- (1) MEL round trip, every symbol sequence: `NewMELDecoder(Flush(EncodeBit*(bits)))` returns exactly `bits`
    on its first `len(bits)` `DecodeBit` calls, each with `ok = true` — including the final flush of a pending
    run (Flush appends a terminating 1 that is never asked for) and the 7-bit byte after every 0xFF byte. -/
theorem mel_roundtrip (bits : List Bool) : melDecode (melEncode bits) bits.length = (bits, true) :=
  mel_roundtrip' bits

/-- non-vacuity: 40 zeros drive k up and emit only 1-bits (0xFF, then a 7-bit byte 0x71); then a 1 -/
example : melEncode (List.replicate 40 false ++ [true]) = [0xFF, 0x71, 0x80] ∧
    melDecode [0xFF, 0x71, 0x80] 41 = (List.replicate 40 false ++ [true], true) := by decide +kernel

/-- (1b) byte stuffing of the MEL stream: no byte that follows 0xFF has its top bit set, so the MEL bytes never
    contain a marker code 0xFF80..0xFFFF (shared with C16) -/
theorem mel_stuffed (bits : List Bool) : Stuffed false (melEncode bits) := mel_stuffed' bits

example : Stuffed false [0xFF, 0x71, 0x80] ∧ ¬ Stuffed false [0xFF, 0x80] := by simp [Stuffed]

/-! ## calculateMaxLevels -/

/-- (2) `calculateMaxLevels(w, h)` ∈ 0..6; it is ⌈log2(min(w,h))⌉ clamped to 6 (and 0 for min ≤ 0): when the
    clamp is not hit, `2^(r-1) < min ≤ 2^r`; when it returns 6, `min > 32`.  (`w,h ≤ 2^62`: beyond that Go's
    `1 << maxLevels` wraps and the loop does not terminate; the codec passes uint16 values.) -/
theorem calculateMaxLevels_spec (w h : Int) (hw : w ≤ 2 ^ 62) (hh : h ≤ 2 ^ 62) :
    let r := calculateMaxLevels w h
    let m := if h < w then h else w
    0 ≤ r ∧ r ≤ 6 ∧ (m ≤ 0 → r = 0) ∧
    (0 < m → r < 6 → m ≤ 2 ^ r.toNat ∧ (0 < r → (2 : Int) ^ (r.toNat - 1) < m)) ∧
    (0 < m → r = 6 → (32 : Int) < m) :=
  calculateMaxLevels_spec' w h hw hh

example : calculateMaxLevels 1 9 = 0 ∧ calculateMaxLevels 3 5 = 2 ∧ calculateMaxLevels 64 64 = 6 ∧
    calculateMaxLevels 65535 33 = 6 ∧ calculateMaxLevels 32 600 = 5 := by decide

/-! ## Band precision (Kmax) and missing MSBs: encoder = QCD = decoder (generated kernels) -/

/-- (3) encoder (`jpeg2000/encoder.go`) and decoder (`t2/bitplane.go`) index the QCD exponents identically -/
theorem subbandIndex_enc_dec_agree (numLevels res band : Int) :
    Gen.Htj2kEnc.subbandIndex numLevels res band = Gen.Htj2kDec.subbandIndex numLevels res band := by
  unfold Gen.Htj2kEnc.subbandIndex Gen.Htj2kDec.subbandIndex
  rfl

/-- the index is injective on existing bands and stays inside the `3·numLevels+1` exponents -/
theorem subbandIndex_range (nl res band : Int) (h : 0 ≤ Gen.Htj2kEnc.subbandIndex nl res band) :
    Gen.Htj2kEnc.subbandIndex nl res band < 3 * nl + 1 ∧ 0 ≤ res ∧ res ≤ nl ∧
    (res = 0 → band = 0) ∧ (0 < res → 1 ≤ band ∧ band ≤ 3) ∧
    Gen.Htj2kEnc.subbandIndex nl res band = (if res = 0 then 0 else 3 * (res - 1) + band) := by
  unfold Gen.Htj2kEnc.subbandIndex at h ⊢
  by_cases h1 : res < 0 <;> by_cases h2 : res > nl <;> by_cases h3 : res = 0 <;> by_cases h4 : band = 0 <;>
    by_cases h5 : band < 1 <;> by_cases h6 : band > 3 <;> simp_all <;> omega

/-- (4) HT branch of `codeBlockPassLayout`: one pass (none for an all-zero block), and the number of zero bit
    planes signalled in the packet header is `bandNumbps - 1` (clamped at 0) — independent of the block -/
theorem ht_passlayout (e : Gen.Htj2kEnc.Encoder) (h : e.params.HTJ2KMode = true) (cb bn : Int) :
    e.codeBlockPassLayout cb bn = (if cb = 0 then 0 else 1, if bn - 1 < 0 then 0 else bn - 1) := by
  unfold Gen.Htj2kEnc.Encoder.codeBlockPassLayout
  simp only [h]
  by_cases h1 : cb = 0 <;> by_cases h2 : bn - 1 < 0 <;> simp [h1, h2]

/-- (5) missing-MSB agreement: the encoder codes with `missingMSBs = kmax - 1` (`SetKMax(bandNumbps)`); the decoder's
    `htj2kMissingMSBs` returns that same number whether it takes the packet header's zero-bit-plane count
    (as written by (4)) or falls back to the band precision — for every band precision ≥ 1 -/
theorem ht_missing_msbs_agree (e : Gen.Htj2kEnc.Encoder) (h : e.params.HTJ2KMode = true)
    (td : Gen.Htj2kDec.TileDecoder) (info : Gen.Htj2kDec.cbInfo) (cb kmax : Int) (hk : 1 ≤ kmax) :
    (info.zeroBitplanesSet = true → info.zeroBitplanes = (e.codeBlockPassLayout cb kmax).2 →
      td.htj2kMissingMSBs info kmax = kmax - 1) ∧
    (info.zeroBitplanesSet = false → td.htj2kMissingMSBs info kmax = kmax - 1) := by
  rw [ht_passlayout e h]
  unfold Gen.Htj2kDec.TileDecoder.htj2kMissingMSBs
  constructor
  · intro hs hz
    simp only [hs, if_true, hz]
    have : ¬ (kmax - 1 < 0) := by omega
    simp [this]
  · intro hs
    have : ¬ (kmax ≤ 0) := by omega
    simp [hs, this]

/-- (6) QCD byte round trip: `Sqcd = uint8(guard << 5)`, `SPqcd = uint8(expn << 3)` read back by
    `bandNumbpsFromQCD` (style 0) give `expn + guard - 1`, for every 5-bit exponent and 3-bit guard count -/
theorem qcd_byte_roundtrip (expn guard : Int) (he : 0 ≤ expn ∧ expn ≤ 31) (hg : 0 ≤ guard ∧ guard ≤ 7) :
    decBandNumbps (qcdSqcd guard) (qcdSPqcd expn) = expn + guard - 1 := by
  unfold decBandNumbps qcdSqcd qcdSPqcd Go.uwrap8
  omega

/-- (7) Kmax agreement over the whole finite index space of the HTJ2K lossless encoder: for every
    `numLevels` (the encoder clamps to 0..6), bit depth 1..16, with or without RCT, every resolution and band, the decoder recomputes from
    the QCD bytes exactly the `bandNumbps` the encoder hands to `SetKMax` -/
theorem kmax_enc_dec_agree (nl bd : Nat) (rct : Bool) (res band : Nat) (hbd : 1 ≤ bd ∧ bd ≤ 16) :
    decBandNumbps (qcdSqcd htGuardBits) (qcdSPqcd (htExpn nl bd rct res band)) = encBandNumbps nl bd rct res band := by
  have hb : biboLog2 nl res band ≤ 4 := by
    unfold biboLog2; dsimp only; repeat' split
    all_goals omega
  have h0 : 0 ≤ htExpn nl bd rct res band ∧ htExpn nl bd rct res band ≤ 31 := by
    unfold htExpn; cases rct <;> simp <;> omega
  rw [qcd_byte_roundtrip _ _ h0 (by decide)]
  rfl

example : encBandNumbps 5 8 false 0 0 = 9 ∧ encBandNumbps 5 8 false 1 1 = 10 ∧ encBandNumbps 5 8 false 5 3 = 9 ∧
    encBandNumbps 5 8 true 0 0 = 10 ∧ encBandNumbps 0 16 false 0 0 = 15 := by decide

/-! ## Is Kmax large enough?  (the finding) -/

/-- what the block coder needs from the band precision: every coefficient magnitude fits in Kmax bits.
    Full statement for the 0-level (no DWT) single-component path: every DC-shifted P-bit sample. -/
def kmax_0levels_FullStatement : Prop :=
  ∀ (P : Nat), 1 ≤ P → P ≤ 16 → ∀ (v : Int), -(2 : Int) ^ (P - 1) ≤ v → v < 2 ^ (P - 1) →
    v.natAbs < 2 ^ (encBandNumbps 0 P false 0 0).toNat

/-- the full statement is FALSE on the unchanged tree: P = 8, unsigned sample 0 (DC-shifted −128) -/
theorem kmax_0levels_counterexample : ¬ kmax_0levels_FullStatement := by
  intro h
  have := h 8 (by decide) (by decide) (-128) (by decide) (by decide)
  revert this
  decide

/-- what does hold: every sample except the most negative one fits (Kmax = P−1 for 0 levels, 1 component) -/
theorem kmax_0levels_partial (P : Nat) (_h1 : 1 ≤ P) (_h16 : P ≤ 16) (v : Int)
    (hlo : -(2 : Int) ^ (P - 1) < v) (hhi : v < 2 ^ (P - 1)) :
    v.natAbs < 2 ^ (encBandNumbps 0 P false 0 0).toNat := by
  have hk : (encBandNumbps 0 P false 0 0).toNat = P - 1 := by
    unfold encBandNumbps htExpn biboLog2 htGuardBits; simp <;> omega
  rw [hk]
  have e : ((2 ^ (P - 1) : Nat) : Int) = (2 : Int) ^ (P - 1) := by simp [Int.natCast_pow]
  omega

/-- with RCT (3 components) the extra precision bit makes 0 levels safe: Y ∈ [−2^(P−1), 2^(P−1)), Cb/Cr ∈ (−2^P, 2^P) -/
theorem kmax_0levels_rct (P : Nat) (_h1 : 1 ≤ P) (_h16 : P ≤ 16) (v : Int)
    (hlo : -(2 : Int) ^ P < v) (hhi : v < 2 ^ P) :
    v.natAbs < 2 ^ (encBandNumbps 0 P true 0 0).toNat := by
  have hk : (encBandNumbps 0 P true 0 0).toNat = P := by
    unfold encBandNumbps htExpn biboLog2 htGuardBits; simp <;> omega
  rw [hk]
  have e : ((2 ^ P : Nat) : Int) = (2 : Int) ^ P := by simp [Int.natCast_pow]
  omega

/-- (8) the sign-magnitude word built by `encodeOpenJPHCleanup` and taken apart by `decodeOpenJPHCleanup` is exact
    whenever the magnitude fits in Kmax bits -/
theorem signmag_roundtrip_partial (kmax : Nat) (hk : kmax ≤ 31) (v : Int) (hv : v.natAbs < 2 ^ kmax) :
    fromSignMag kmax (toSignMag kmax v) = v := signmag_roundtrip' kmax hk v hv

def signmag_roundtrip_FullStatement : Prop :=
  ∀ (kmax : Nat), 1 ≤ kmax → kmax ≤ 30 → ∀ v : Int, v.natAbs ≤ 2 ^ kmax → fromSignMag kmax (toSignMag kmax v) = v

/-- … and loses a coefficient of magnitude exactly 2^Kmax: −128 at Kmax 7 becomes the word 0x80000000 ("−0"),
    its magnitude field is 0 (the sample is coded as insignificant) and it comes back as 0 -/
theorem signmag_counterexample :
    toSignMag 7 (-128) = 0x80000000 ∧ magField 7 (toSignMag 7 (-128)) = 0 ∧ fromSignMag 7 (toSignMag 7 (-128)) = 0 ∧
    ¬ signmag_roundtrip_FullStatement := by
  refine ⟨by decide, by decide, by decide, ?_⟩
  intro h
  have := h 7 (by decide) (by decide) (-128) (by decide)
  revert this
  decide

example : fromSignMag 15 (toSignMag 15 (-32767)) = -32767 ∧ (32767 : Int).natAbs < 2 ^ 15 := by decide

/-! ## VLC / U-VLC tables (generated from vlc_tables.go) -/

set_option maxRecDepth 100000 in
/-- (9) `VLCTbl0` (initial quad row): all 444 rows well-formed; within each of the 8 contexts no codeword is a
    prefix (LSB-first) of another -/
theorem vlc_tbl0_prefix_free : vlcTableOk Gen.Htj2k.VLCTbl0 = true := by decide +kernel

set_option maxRecDepth 100000 in
/-- (10) `VLCTbl1` (non-initial rows): same -/
theorem vlc_tbl1_prefix_free : vlcTableOk Gen.Htj2k.VLCTbl1 = true := by decide +kernel

set_option maxRecDepth 100000 in
/-- (11) both tables are complete prefix codes in every context: Kraft sum exactly 1 (= 128/128), so every 7-bit
    window the decoder peeks at matches exactly one row -/
theorem vlc_tbl_complete :
    (List.range 8).map (vlcKraft Gen.Htj2k.VLCTbl0) = List.replicate 8 128 ∧
    (List.range 8).map (vlcKraft Gen.Htj2k.VLCTbl1) = List.replicate 8 128 := by decide +kernel

/-- (12) the four U-VLC prefixes `1`, `01`, `001`, `000` (LSB first) are prefix-free and complete -/
theorem uvlc_prefix_free : prefixFreeKeys uvlcPrefixes = true ∧
    uvlcPrefixes.foldl (fun acc k => acc + 2 ^ (3 - k.2.2)) 0 = 8 := by decide

/-- the encoder's `ojphUVLC` uses exactly those prefixes, and its (prefix, suffix, extension) value decodes back:
    u = 1, 2, 3 + suf, 5 + suf (suf < 28), 33 + (suf − 28) + 4·ext -/
theorem ojphUVLC_decodes (code : Int) (h1 : 1 ≤ code) (h2 : code ≤ 92) :
    let (pre, preLen, suf, sufLen, ext, extLen) := ojphUVLC code
    ((pre.toNat, preLen.toNat) ∈ [(1, 1), (2, 2), (4, 3), (0, 3)]) ∧ 0 ≤ suf ∧ suf < 2 ^ sufLen.toNat ∧
    0 ≤ ext ∧ ext < 2 ^ extLen.toNat ∧
    code = (if pre = 1 then 1 else if pre = 2 then 2 else if pre = 4 then 3 + suf
            else if suf < 28 then 5 + suf else 33 + (suf - 28) + 4 * ext) := by
  have : ∀ c : Fin 93, 1 ≤ c.val →
      (let (pre, preLen, suf, sufLen, ext, extLen) := ojphUVLC (c.val : Int)
       ((pre.toNat, preLen.toNat) ∈ [(1, 1), (2, 2), (4, 3), (0, 3)]) ∧ 0 ≤ suf ∧ suf < 2 ^ sufLen.toNat ∧
       0 ≤ ext ∧ ext < 2 ^ extLen.toNat ∧
       (c.val : Int) = (if pre = 1 then 1 else if pre = 2 then 2 else if pre = 4 then 3 + suf
            else if suf < 28 then 5 + suf else 33 + (suf - 28) + 4 * ext)) := by decide
  have hc := this ⟨code.toNat, by omega⟩ (by simp; omega)
  have e : ((code.toNat : Nat) : Int) = code := by omega
  simp only [e] at hc
  exact hc

/-! ## Tile-parts: Psot / TPsot / TNsot / TLM (shared with C16) -/

/-- (13) the Psot values `writeHTJ2KTileParts` writes add up to the bytes it emits (one tile-part per resolution:
    12-byte SOT, header, 2-byte SOD, packets), provided each part is shorter than 2^32 bytes -/
theorem tileparts_psot_sum (parts : List (Nat × Nat)) (hfit : ∀ p ∈ parts, p.2 + p.1 + 14 < 2 ^ 32) :
    (psots parts).sum = (parts.map (fun p => tilePartLen p.1 p.2)).sum := psots_sum parts hfit

/-- (14) `writeTLM`'s walk over the tile-part buffer (follow Psot from offset 0, reject `< 14` or overrun) succeeds,
    visits one offset per tile-part — so the TLM marker lists exactly the Psot values, `Ltlm = 4 + 6·n` — and
    ends exactly at the end of the buffer -/
theorem tileparts_tlm_walk (parts : List (Nat × Nat)) (hfit : ∀ p ∈ parts, p.2 + p.1 + 14 < 2 ^ 32) :
    ∃ offs, tlmWalk (parts.map (fun p => tilePartLen p.1 p.2)).sum (psots parts) 0 = some offs ∧
      offs.length = parts.length :=
  let ⟨offs, h1, h2, _⟩ := tlmWalk_psots parts hfit 0 _ (by simp)
  ⟨offs, h1, h2⟩

example : psots [(0, 10), (0, 0), (5, 7)] = [24, 14, 26] ∧
    tlmWalk 64 [24, 14, 26] 0 = some [0, 24, 38] ∧ tilePartsOk 64 true [24, 14, 26] [0, 1, 2] [3, 3, 3] [24, 14, 26] = true := by
  decide

end Htj2k
