import GdcVerif.Model.Adapters
import GdcVerif.Model.Frames
import GdcVerif.Props.C17
/-!
  C10 / C17 at the DICOM adapter level (`*/codec.go`) — theorems about the hand model
  `Model/Adapters.lean` (tied to the Go adapters by the `adapter-*`, `adapter-loop`, `params-*`
  correspondence lines of the C17 check) and, where a low-level encoder is involved, about the
  go2lean-GENERATED validation prefixes.

  1. what each adapter passes down, and `adapter_depth_matches_container` (FALSE exactly on
     BitsAllocated = 16 ∧ BitsStored ≤ 8 for the eight adapters that pass BitsStored);
  2. the frame loop: outputs = map over the input frames, in order; on the first failing frame the
     frames added so far stay added;
  3. codec.Parameters extraction of the JPEG-family adapters is sound for every source.
-/
namespace C10Adapters
open Adapters

/-! ## 1. FrameInfo → low-level arguments -/

/-- geometry and component count are handed down unchanged by every adapter -/
theorem adapter_geometry_passed (k : Codec) (fi : FI) (e : Int) (p : Passed) (h : passDown k fi e = some p) :
    p.w = fi.W ∧ p.h = fi.H ∧ p.c = fi.SPP := by
  unfold passDown at h
  cases k <;> simp only [] at h <;> (repeat' split at h)
  all_goals first | (cases h; done) | (cases h; simp)

/-- signedness reaches only the JPEG 2000 family (the JPEG / JPEG-LS / RLE low-level APIs have no such argument) -/
theorem adapter_signed_passed (k : Codec) (fi : FI) (e : Int) (p : Passed) (h : passDown k fi e = some p) :
    p.signed = (match k with
      | .j2kLossless | .j2kLossy | .htj2k => fi.PR != 0
      | _ => false) := by
  unfold passDown at h
  cases k <;> simp only [] at h <;> (repeat' split at h)
  all_goals first | (cases h; done) | (cases h; simp)

/-- the encoder reads as many bytes per sample as the native frame has -/
def DepthMatches (k : Codec) (fi : FI) (e : Int := 12) : Prop :=
  ∀ p, passDown k fi e = some p → bytesRead k p.depth = containerBytes fi

/-- FULL (after the container guard): for every adapter and every in-scope FrameInfo, whenever the adapter
    goes on to call the low-level encoder, the encoder reads exactly ⌈BitsAllocated/8⌉ bytes per sample -/
theorem adapter_depth_matches_container (k : Codec) (fi : FI) (hs : fi.InScope) (e : Int) (_he : e = 8 ∨ e = 12) :
    DepthMatches k fi e := by
  obtain ⟨hba, h1, h2, _, _, _, _⟩ := hs
  unfold DepthMatches passDown bytesRead containerBytes
  cases k <;> simp only [Codec.usesBitsStored]
  all_goals rcases hba with hb | hb <;> simp only [hb] at h2 ⊢
  all_goals (repeat' split)
  all_goals simp_all
  all_goals omega

/-- regression anchor (was the finding family `c10-declen-*-ba16-bs-le8` / `adapter-depth-container-mismatch`):
    BitsAllocated 16 with BitsStored 8 is now REJECTED by the eight BitsStored-passing adapters -/
example :
    let fi : FI := ⟨2, 2, 16, 8, 1, 0⟩
    fi.InScope ∧ passDown .baseline fi = none ∧ passDown .extended fi = none ∧ passDown .lossless fi = none ∧
    passDown .sv1 fi = none ∧ passDown .jls fi = none ∧ passDown .jlsNear fi = none ∧
    passDown .j2kLossless fi = none ∧ passDown .j2kLossy fi = none ∧
    (passDown .htj2k fi).isSome ∧ (passDown .rle fi).isSome ∧
    (passDown .lossless ⟨2, 2, 16, 12, 1, 0⟩).isSome ∧ (passDown .baseline ⟨2, 2, 8, 8, 1, 0⟩).isSome := by decide

/-- RLE and HTJ2K size the samples from BitsAllocated: always right -/
theorem adapter_depth_matches_container_rle_htj2k (fi : FI) (hs : fi.InScope) :
    DepthMatches .rle fi ∧ DepthMatches .htj2k fi := by
  obtain ⟨hba, _, _, _, _, _, _⟩ := hs
  unfold DepthMatches passDown bytesRead containerBytes
  rcases hba with hb | hb <;> simp only [hb] <;> exact ⟨by intro p hp; cases hp; simp, by intro p hp; cases hp; simp⟩

example : (⟨16, 12, 16, 12, 1, 0⟩ : FI).InScope ∧ (⟨16, 12, 16, 8, 1, 0⟩ : FI).InScope ∧
    Codec.usesBitsStored .sv1 = true := by decide

/-- (guard added after the hunters' finding `adapter-zero-bit-depth-accepted`) the two adapters that do not hand
    BitsStored itself down — baseline always declares 8 bit, extended 8 or 12 — refuse a FrameInfo that declares
    0-bit samples: whenever they go on to the low-level encoder, 1 ≤ BitsStored ≤ the depth they declare.
    (The other BitsStored-passing adapters hand 0 down and the GENERATED prefixes reject it: depth ≥ 1 resp. ≥ 2.) -/
theorem adapter_zero_depth_rejected (k : Codec) (hk : k = .baseline ∨ k = .extended) (fi : FI) (e : Int) (p : Passed)
    (h : passDown k fi e = some p) : 1 ≤ fi.BS ∧ (fi.BS : Int) ≤ p.depth := by
  unfold passDown at h
  rcases hk with hk | hk <;> subst hk <;> simp only [] at h <;> (repeat' split at h)
  all_goals first | (cases h; done) | (cases h; simp; omega)

/-- the hunter's witness (BitsAllocated = BitsStored = 0, 4×4) is refused whatever the parameter depth; 1-bit data still passes -/
example : passDown .baseline ⟨4, 4, 0, 0, 1, 0⟩ = none ∧ passDown .extended ⟨4, 4, 0, 0, 1, 0⟩ 12 = none ∧
    passDown .extended ⟨4, 4, 0, 0, 1, 0⟩ 8 = none ∧ (passDown .baseline ⟨4, 4, 8, 1, 1, 0⟩).isSome := by decide

/-! ## 2. The frame loop -/

/-- success: every frame was non-empty and encoded, and the destination holds exactly the image of
    the frame list under the per-frame function, in order (appended to what was there) -/
theorem loopFrom_ok {Out : Type} (work : List Nat → Option Out) :
    ∀ (frames : List (List Nat)) (i : Nat) (dst out : List Out),
      loopFrom work frames i dst = .ok out →
        out.map some = dst.map some ++ frames.map work ∧ ∀ f ∈ frames, f ≠ [] := by
  intro frames
  induction frames with
  | nil => intro i dst out h; simp [loopFrom] at h; subst h; simp
  | cons f rest ih =>
    intro i dst out h
    rw [loopFrom] at h
    split at h
    · cases h
    · rename_i hne
      split at h
      · cases h
      · rename_i o ho
        obtain ⟨h1, h2⟩ := ih _ _ _ h
        refine ⟨by rw [h1]; simp [ho], ?_⟩
        intro g hg
        rcases List.mem_cons.mp hg with rfl | hg
        · intro hc; subst hc; simp at hne
        · exact h2 g hg

/-- failure: the error names the FIRST frame that is empty or fails; the frames before it were
    encoded and stay added to the destination (what the code does: no rollback) -/
theorem loopFrom_err {Out : Type} (work : List Nat → Option Out) :
    ∀ (frames : List (List Nat)) (i : Nat) (dst out : List Out) (j : Nat),
      loopFrom work frames i dst = .err out j →
        i ≤ j ∧ j - i < frames.length ∧
        out.map some = dst.map some ++ (frames.take (j - i)).map work ∧
        (∀ f ∈ frames.take (j - i), f ≠ [] ∧ (work f).isSome) ∧
        (∀ f, frames[j - i]? = some f → f = [] ∨ work f = none) := by
  intro frames
  induction frames with
  | nil => intro i dst out j h; simp [loopFrom] at h
  | cons f rest ih =>
    intro i dst out j h
    rw [loopFrom] at h
    split at h
    · rename_i he
      cases h
      refine ⟨Nat.le_refl _, by simp, by simp, by simp, ?_⟩
      intro g hg; simp at hg; subst hg; left; exact List.length_eq_zero_iff.mp he
    · rename_i hne
      split at h
      · rename_i hw
        cases h
        refine ⟨Nat.le_refl _, by simp, by simp, by simp, ?_⟩
        intro g hg; simp at hg; subst hg; right; exact hw
      · rename_i o ho
        obtain ⟨h1, h2, h3, h4, h5⟩ := ih _ _ _ _ h
        have hj : j - i = (j - (i + 1)) + 1 := by omega
        refine ⟨by omega, by rw [hj]; simp; omega, ?_, ?_, ?_⟩
        · rw [h3, hj]; simp [ho]
        · rw [hj]; intro g hg
          simp only [List.take_succ_cons, List.mem_cons] at hg
          rcases hg with rfl | hg
          · exact ⟨by intro hc; subst hc; simp at hne, by simp [ho]⟩
          · exact h4 g hg
        · rw [hj]; intro g hg; simp only [List.getElem?_cons_succ] at hg; exact h5 g hg

/-- `Codec.Encode` / `Codec.Decode` of every adapter: on success the output frame list is the map of
    the input frame list (1:1, same order), and it is non-empty when the adapter has the zero-frame check -/
theorem encodeAll_ok {Out : Type} (zeroCheck : Bool) (work : List Nat → Option Out) (frames : List (List Nat))
    (out : List Out) (h : encodeAll zeroCheck work frames = .ok out) :
    out.map some = frames.map work ∧ out.length = frames.length ∧ (zeroCheck = true → frames ≠ []) := by
  unfold encodeAll at h
  split at h
  · cases h
  · rename_i hz
    obtain ⟨h1, _⟩ := loopFrom_ok work frames 0 [] out h
    simp at h1
    refine ⟨h1, ?_, ?_⟩
    · have := congrArg List.length h1; simpa using this
    · intro hc hf; subst hc; subst hf; simp at hz

/-- on an error the destination holds the outputs of the frames BEFORE the failing one (prefix, in order) -/
theorem encodeAll_err {Out : Type} (zeroCheck : Bool) (work : List Nat → Option Out) (frames : List (List Nat))
    (out : List Out) (j : Nat) (h : encodeAll zeroCheck work frames = .err out j) :
    out.map some = (frames.take j).map work ∧ out.length = min j frames.length := by
  unfold encodeAll at h
  split at h
  · cases h; simp
  · obtain ⟨_, h2, h3, _, _⟩ := loopFrom_err work frames 0 [] out j h
    simp at h2 h3
    have h3' : out.map some = (frames.take j).map work := by rw [h3, List.map_take]
    refine ⟨h3', ?_⟩
    have := congrArg List.length h3
    simp at this; omega

/-- the successful loop is the run of a state machine without state (`Frames.Machine`), hence a `map`:
    the C10 consequences (`Frames.map_getElem`, `map_perm`, `map_sublist`, `map_replicate`) apply -/
theorem encodeAll_ok_is_machine_run {Out : Type} [Inhabited Out] (zeroCheck : Bool) (work : List Nat → Option Out)
    (frames : List (List Nat)) (out : List Out) (h : encodeAll zeroCheck work frames = .ok out) :
    out = (Frames.Machine.run ⟨fun (_ : Unit) f => ((), (work f).getD default)⟩ () frames) := by
  have hm := Frames.Machine.run_eq_map_of_inv (St := Unit) ⟨fun _ f => ((), (work f).getD default)⟩
    (fun _ => True) () (fun _ _ _ => trivial) (fun _ _ _ => rfl) () trivial frames
  rw [hm]
  obtain ⟨h1, _, _⟩ := encodeAll_ok zeroCheck work frames out h
  apply List.ext_getElem?
  intro n
  have := congrArg (fun l => l[n]?) h1
  simp only [List.getElem?_map] at this ⊢
  cases ho : out[n]? <;> cases hf : frames[n]? <;> simp [ho, hf] at this ⊢
  rw [← this]; rfl

example : encodeAll true (fun f => if f.length < 3 then none else some f.length) [[1, 2, 3], [4, 5, 6, 7]] = .ok [3, 4] ∧
    encodeAll true (fun f => if f.length < 3 then none else some f.length) [[1, 2, 3], [], [4, 5, 6]] = .err [3] 1 ∧
    encodeAll true (fun f => if f.length < 3 then none else some f.length) [[1, 2, 3], [9], [4, 5, 6]] = .err [3] 1 ∧
    encodeAll true (fun f => some f.length) [] = .err [] 0 ∧
    encodeAll false (fun f => some f.length) [] = .ok [] := by decide

/-! ## 3. codec.Parameters extraction (JPEG family) — C17: whatever the caller passes, the low-level
    encoder receives a parameter it accepts -/

/-- jpeg/baseline: for EVERY parameters argument (nil, typed nil, typed with any quality, any foreign
    implementation returning anything) and any constructor argument, the quality handed down is 1..100 -/
theorem baseline_params_sound (ctorQuality : Int) (src : PSrc Gen.ValidateJpegBaseline.JPEGBaselineParameters) :
    let q := baselineQuality (newBaselineCodecQuality ctorQuality) src
    1 ≤ q ∧ q ≤ 100 := by
  have hv := C17.baseline_validate_quality
  simp only []
  unfold baselineQuality
  exact ⟨(hv _).1, (hv _).2.1⟩

/-- … and a legal typed quality is used as is; a legal foreign `int` quality too -/
theorem baseline_params_faithful (cq q : Int) (hq : 1 ≤ q ∧ q ≤ 100) :
    baselineQuality cq (.typed { Quality := q }) = q ∧
    baselineQuality cq (.foreign fun key => if key = "quality" then .int q else .absent) = q := by
  have hv := C17.baseline_validate_quality
  unfold baselineQuality
  refine ⟨(hv _).2.2 hq, ?_⟩
  have : (q ≥ 1 && q ≤ 100) = true := by simp; omega
  simp only [if_pos, this]
  exact (hv _).2.2 hq

theorem extended_params_sound (cd cq : Int) (src : PSrc Gen.ValidateJpegExtended.JPEGExtendedParameters) :
    let r := extendedParams (newExtendedCodec cd cq).1 (newExtendedCodec cd cq).2 src
    (1 ≤ r.Quality ∧ r.Quality ≤ 100) ∧ (r.BitDepth = 8 ∨ r.BitDepth = 12) := by
  simp only []
  unfold extendedParams
  exact C17.extended_validate _

theorem lossless_params_sound (cp : Int) (ts57 : Bool) (src : PSrc Gen.ValidateJpegLossless.JPEGLosslessParameters) :
    let r := losslessPredictor cp ts57 src
    1 ≤ r ∧ r ≤ 7 ∧ (ts57 = true → r = 1) := by
  have hv := C17.lossless_validate_predictor (losslessSrcParams cp src)
  simp only [] at hv ⊢
  unfold losslessPredictor
  simp only []
  split
  · simp
  · rename_i h
    simp at h
    refine ⟨by omega, by omega, ?_⟩
    intro ht; simp [ht] at h

theorem near_params_sound (ctorNear : Int) (src : PSrc Gen.ValidateJpegLsNear.JPEGLSNearLosslessParameters) :
    let r := nearNear (newNearCodecNear ctorNear) src
    0 ≤ r ∧ r ≤ 255 := by
  simp only []
  unfold nearNear
  exact C17.jpeglsNear_validate_near _

/-- the NEAR bound of T.87 is NOT established by the adapter either (known finding
    `jpegls-near-exceeds-maxval-half`): a typed NEAR = 200 reaches `Encode` at any depth -/
theorem near_params_keep_200 (cn : Int) : nearNear cn (.typed { NEAR := 200 }) = 200 := by
  unfold nearNear; simp only []; decide

end C10Adapters
