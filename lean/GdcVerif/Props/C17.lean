import GdcVerif.Lemmas.C17
/-!
  C17 — encoders reject unrepresentable input.

  Every theorem below is about a go2lean-GENERATED definition (`Gen/Validate*.lean`,
  `Gen/JpegLs.lean`: the validation prefix of the Go `Encode` as it is in /repo now), except the
  RLE ones, which are about the hand model `Model/Rle.lean` (tied by C01/C17 correspondence).
  `…Representable` (Lemmas/C17.lean) is written from the formats, not from the code.

  Shape per encoder:
    * `X_accepts_representable_FullStatement` — the property, as a `Prop`;
    * if the unchanged code violates it: `X_…_counterexample` (the negation, on a concrete
      witness, by `decide`) and `X_accepts_representable_partial` (true under the stated
      complementary hypotheses = exactly the guards the code lacks);
    * otherwise `X_accepts_representable`.
-/
namespace C17
open Gen

/-! ## The 16-bit size field (mechanism of the mis-declared stream) -/

/-- a dimension that is `Dim16` is read back unchanged from the SOF header -/
theorem declared16_faithful (v : Int) (h : Dim16 v) : declared16 v = v :=
  declared16_of_fits v (by unfold Dim16 at h; omega) h.2

/-- width 65536 is written as 0, 65537 as 1 -/
theorem declared16_wraps : declared16 65536 = 0 ∧ declared16 65537 = 1 := by decide

example : Dim16 65535 ∧ ¬ Dim16 65536 ∧ ¬ Dim16 0 := by decide

/-! ## JPEG Baseline — jpeg/baseline/encoder.go `Encode` -/

def baseline_accepts_representable_FullStatement : Prop :=
  ∀ len w h c q, ValidateJpegBaseline.Encode_accepts len w h c q = true → BaselineRepresentable len w h c q

/-- FINDING `jpeg-dim-over-65535`: width 65536 × height 1 is accepted (and declared as width 0) -/
theorem baseline_accepts_representable_counterexample :
    ValidateJpegBaseline.Encode_accepts 65536 65536 1 1 90 = true ∧
    ¬ BaselineRepresentable 65536 65536 1 1 90 := by decide

theorem baseline_FullStatement_false : ¬ baseline_accepts_representable_FullStatement :=
  fun h => baseline_accepts_representable_counterexample.2 (h _ _ _ _ _ baseline_accepts_representable_counterexample.1)

/-- missing in the code: the upper bound 65535 on width and height (hypotheses `hw`, `hh`).
    Everything else (positive dimensions, 1|3 components, quality 1..100, buffer length) is proved. -/
theorem baseline_accepts_representable_partial (len w h c q : Int)
    (hacc : ValidateJpegBaseline.Encode_accepts len w h c q = true)
    (hw : w ≤ 65535) (hh : h ≤ 65535) : BaselineRepresentable len w h c q := by
  unfold ValidateJpegBaseline.Encode_accepts at hacc
  unfold BaselineRepresentable Dim16
  simp at hacc
  omega

example : ValidateJpegBaseline.Encode_accepts 12 2 2 3 75 = true ∧ (2 : Int) ≤ 65535 := by decide

/-! ## JPEG Extended — jpeg/extended `Encode`, `EncodeSimple`, `encodeSequential12` -/

def extended_accepts_representable_FullStatement : Prop :=
  ∀ len w h c p q, ValidateJpegExtended.Encode_accepts len w h c p q = true → ExtendedRepresentable len w h c p q

/-- FINDING `jpeg-dim-over-65535` (12-bit path: `encodeSequential12`) -/
theorem extended_accepts_representable_counterexample :
    ValidateJpegExtended.Encode_accepts 131072 65536 1 1 12 90 = true ∧
    ¬ ExtendedRepresentable 131072 65536 1 1 12 90 := by decide

theorem extended_FullStatement_false : ¬ extended_accepts_representable_FullStatement :=
  fun h => extended_accepts_representable_counterexample.2 (h _ _ _ _ _ _ extended_accepts_representable_counterexample.1)

/-- missing in the code: the upper bound 65535 on width and height. Proved: positive dimensions,
    depth 8 (1|3 components, 1 byte/sample) or 12 (monochrome, 2 bytes/sample), quality, buffer. -/
theorem extended_accepts_representable_partial (len w h c p q : Int)
    (hacc : ValidateJpegExtended.Encode_accepts len w h c p q = true)
    (hw : w ≤ 65535) (hh : h ≤ 65535) : ExtendedRepresentable len w h c p q := by
  unfold ValidateJpegExtended.Encode_accepts ValidateJpegExtended.EncodeSimple_accepts
    ValidateJpegExtended.encodeSequential12_accepts ValidateJpegBaseline.Encode_accepts
    ValidateJpegExtended.sequential12Precision at hacc
  unfold ExtendedRepresentable Dim16
  by_cases hp : p = 12
  · subst hp
    simp at hacc
    omega
  · simp [hp] at hacc
    omega

/-- the same for the exported `EncodeSimple` entry point -/
theorem extendedSimple_accepts_representable_partial (len w h c p q : Int)
    (hacc : ValidateJpegExtended.EncodeSimple_accepts len w h c p q = true)
    (hw : w ≤ 65535) (hh : h ≤ 65535) : ExtendedRepresentable len w h c p q := by
  unfold ValidateJpegExtended.EncodeSimple_accepts
    ValidateJpegExtended.encodeSequential12_accepts ValidateJpegBaseline.Encode_accepts
    ValidateJpegExtended.sequential12Precision at hacc
  unfold ExtendedRepresentable Dim16
  by_cases hp : p = 12
  · subst hp
    simp at hacc
    omega
  · simp [hp] at hacc
    omega

example : ValidateJpegExtended.Encode_accepts 8 2 2 1 12 50 = true ∧
    ValidateJpegExtended.Encode_accepts 12 2 2 3 8 50 = true ∧
    ValidateJpegExtended.Encode_accepts 24 2 2 3 12 50 = false := by decide

/-! ## JPEG Lossless — jpeg/lossless/encoder.go `Encode` -/

def lossless_accepts_representable_FullStatement : Prop :=
  ∀ len w h c p pred, ValidateJpegLossless.Encode_accepts len w h c p pred = true →
    LosslessRepresentable len w h c p pred

/-- FINDING `jpeg-dim-over-65535` -/
theorem lossless_accepts_representable_counterexample :
    ValidateJpegLossless.Encode_accepts 65536 65536 1 1 8 1 = true ∧
    ¬ LosslessRepresentable 65536 65536 1 1 8 1 := by decide

theorem lossless_FullStatement_false : ¬ lossless_accepts_representable_FullStatement :=
  fun h => lossless_accepts_representable_counterexample.2 (h _ _ _ _ _ _ lossless_accepts_representable_counterexample.1)

/-- missing in the code: the upper bound 65535 on width and height -/
theorem lossless_accepts_representable_partial (len w h c p pred : Int)
    (hacc : ValidateJpegLossless.Encode_accepts len w h c p pred = true)
    (hw : w ≤ 65535) (hh : h ≤ 65535) : LosslessRepresentable len w h c p pred := by
  unfold ValidateJpegLossless.Encode_accepts at hacc
  unfold LosslessRepresentable Dim16
  simp at hacc
  obtain ⟨h1, h2, h3, h4, h5⟩ := hacc
  rw [tdiv8 p (by omega)] at h5
  omega

example : ValidateJpegLossless.Encode_accepts 24 2 2 3 12 4 = true := by decide

/-! ## JPEG Lossless SV1 — jpeg/lossless14sv1/encoder.go `Encode` (predictor fixed to 1) -/

def sv1_accepts_representable_FullStatement : Prop :=
  ∀ len w h c p, ValidateJpegSv1.Encode_accepts len w h c p = true → LosslessRepresentable len w h c p 1

/-- FINDING `jpeg-dim-over-65535` -/
theorem sv1_accepts_representable_counterexample :
    ValidateJpegSv1.Encode_accepts 65536 1 65536 1 8 = true ∧
    ¬ LosslessRepresentable 65536 1 65536 1 8 1 := by decide

theorem sv1_FullStatement_false : ¬ sv1_accepts_representable_FullStatement :=
  fun h => sv1_accepts_representable_counterexample.2 (h _ _ _ _ _ sv1_accepts_representable_counterexample.1)

/-- missing in the code: the upper bound 65535 on width and height -/
theorem sv1_accepts_representable_partial (len w h c p : Int)
    (hacc : ValidateJpegSv1.Encode_accepts len w h c p = true)
    (hw : w ≤ 65535) (hh : h ≤ 65535) : LosslessRepresentable len w h c p 1 := by
  unfold ValidateJpegSv1.Encode_accepts at hacc
  unfold LosslessRepresentable Dim16
  simp at hacc
  obtain ⟨h1, h2, h3, h5⟩ := hacc
  rw [tdiv8 p (by omega)] at h5
  omega

example : ValidateJpegSv1.Encode_accepts 8 2 2 1 16 = true := by decide

/-! ## JPEG-LS lossless — jpegls/lossless/encoder.go `Encode` (NEAR = 0) -/

def jpegls_accepts_representable_FullStatement : Prop :=
  ∀ len w h c p, JpegLs.Encode_accepts len w h c p = true → JpegLsRepresentable len w h c p 0

/-- FINDING `jpegls-no-buffer-length-check`: a 2×2 image with an empty buffer is accepted
    (the scan loop then indexes past the buffer: panic) -/
theorem jpegls_accepts_short_buffer_counterexample :
    JpegLs.Encode_accepts 0 2 2 1 8 = true ∧ ¬ JpegLsRepresentable 0 2 2 1 8 0 := by decide

/-- FINDING `jpegls-dim-over-65535` -/
theorem jpegls_accepts_dim_counterexample :
    JpegLs.Encode_accepts 65536 65536 1 1 8 = true ∧ ¬ JpegLsRepresentable 65536 65536 1 1 8 0 := by decide

theorem jpegls_FullStatement_false : ¬ jpegls_accepts_representable_FullStatement :=
  fun h => jpegls_accepts_short_buffer_counterexample.2 (h _ _ _ _ _ jpegls_accepts_short_buffer_counterexample.1)

/-- missing in the code: the bound 65535 on width/height AND the whole buffer-length guard
    (hypothesis `hbuf`). Proved: positive dimensions, 1|3 components, depth 2..16. -/
theorem jpegls_accepts_representable_partial (len w h c p : Int)
    (hacc : JpegLs.Encode_accepts len w h c p = true)
    (hw : w ≤ 65535) (hh : h ≤ 65535) (hbuf : len ≥ w * h * c * bytesPerSample p) :
    JpegLsRepresentable len w h c p 0 := by
  unfold JpegLs.Encode_accepts at hacc
  unfold JpegLsRepresentable Dim16
  simp at hacc
  obtain ⟨h1, h2, h3⟩ := hacc
  have : (1 : Int) ≤ ((2 : Int) ^ p.toNat - 1) / 2 := by
    have h4 : (4 : Int) ≤ (2 : Int) ^ p.toNat := by
      have hn : (2 : Nat) ^ 2 ≤ 2 ^ p.toNat := Nat.pow_le_pow_right (by decide) (by omega)
      have hc : ((2 ^ p.toNat : Nat) : Int) = (2 : Int) ^ p.toNat := by simp
      omega
    omega
  omega

example : JpegLs.Encode_accepts 4 2 2 1 8 = true := by decide

/-! ## JPEG-LS near-lossless — jpegls/nearlossless/encoder.go `Encode` -/

def jpeglsNear_accepts_representable_FullStatement : Prop :=
  ∀ len w h c p near, ValidateJpegLsNear.Encode_accepts len w h c p near = true →
    JpegLsRepresentable len w h c p near

/-- FINDING `jpegls-near-exceeds-maxval-half`: NEAR = 200 at P = 2 (MAXVAL = 3, limit 1) is accepted -/
theorem jpeglsNear_accepts_near_counterexample :
    ValidateJpegLsNear.Encode_accepts 4 2 2 1 2 200 = true ∧ ¬ JpegLsRepresentable 4 2 2 1 2 200 := by decide

/-- FINDING `jpegls-no-buffer-length-check` (near-lossless entry point) -/
theorem jpeglsNear_accepts_short_buffer_counterexample :
    ValidateJpegLsNear.Encode_accepts 0 2 2 1 8 3 = true ∧ ¬ JpegLsRepresentable 0 2 2 1 8 3 := by decide

theorem jpeglsNear_FullStatement_false : ¬ jpeglsNear_accepts_representable_FullStatement :=
  fun h => jpeglsNear_accepts_near_counterexample.2 (h _ _ _ _ _ _ jpeglsNear_accepts_near_counterexample.1)

/-- missing in the code: 65535 bound, buffer-length guard, NEAR ≤ MAXVAL/2.
    Proved: positive dimensions, components, depth, 0 ≤ NEAR ≤ 255. -/
theorem jpeglsNear_accepts_representable_partial (len w h c p near : Int)
    (hacc : ValidateJpegLsNear.Encode_accepts len w h c p near = true)
    (hw : w ≤ 65535) (hh : h ≤ 65535) (hbuf : len ≥ w * h * c * bytesPerSample p)
    (hnear : near ≤ ((2 : Int) ^ p.toNat - 1) / 2) :
    JpegLsRepresentable len w h c p near := by
  unfold ValidateJpegLsNear.Encode_accepts at hacc
  unfold JpegLsRepresentable Dim16
  simp at hacc
  omega

example : ValidateJpegLsNear.Encode_accepts 4 2 2 1 8 3 = true ∧ (3 : Int) ≤ ((2 : Int) ^ (8 : Int).toNat - 1) / 2 := by decide

/-! ## JPEG 2000 — jpeg2000/encoder.go `Encoder.Encode` = `validateParams` ; `convertPixelData` -/

def j2k_accepts_representable_FullStatement : Prop :=
  ∀ (e : ValidateJ2k.Encoder) (len : Int),
    ValidateJ2k.Encoder.Encode_accepts e len = true → J2kRepresentable e.params len

/-- `DefaultEncodeParams(16,16,1,8,false)` -/
def j2kDefault16 : ValidateJ2k.EncodeParams :=
  { (default : ValidateJ2k.EncodeParams) with
    Width := 16, Height := 16, Components := 1, BitDepth := 8, NumLevels := 5, Lossless := true,
    Quality := 80, CodeBlockWidth := 64, CodeBlockHeight := 64, NumLayers := 1, EnableMCT := true }
def j2kEnc (p : ValidateJ2k.EncodeParams) : ValidateJ2k.Encoder := { (default : ValidateJ2k.Encoder) with params := p }

/-- non-vacuity: the default parameters are accepted and representable -/
example : ValidateJ2k.Encoder.Encode_accepts (j2kEnc j2kDefault16) 256 = true ∧
    J2kRepresentable j2kDefault16 256 := by decide

/-- FINDING `j2k-negative-tile-size`: TileWidth = −1 is accepted -/
theorem j2k_accepts_negative_tile_counterexample :
    ValidateJ2k.Encoder.Encode_accepts (j2kEnc { j2kDefault16 with TileWidth := -1 }) 256 = true ∧
    ¬ J2kRepresentable { j2kDefault16 with TileWidth := -1 } 256 := by decide

/-- FINDING `j2k-precinct-not-power-of-two`: PrecinctWidth = 3 is accepted -/
theorem j2k_accepts_precinct3_counterexample :
    ValidateJ2k.Encoder.Encode_accepts (j2kEnc { j2kDefault16 with PrecinctWidth := 3 }) 256 = true ∧
    ¬ J2kRepresentable { j2kDefault16 with PrecinctWidth := 3 } 256 := by decide

/-- FINDING `j2k-codeblock-area-over-4096`: 128×128 code-blocks are accepted (xcb+ycb = 14 > 12) -/
theorem j2k_accepts_codeblock_area_counterexample :
    ValidateJ2k.Encoder.Encode_accepts (j2kEnc { j2kDefault16 with CodeBlockWidth := 128, CodeBlockHeight := 128 }) 256 = true ∧
    ¬ J2kRepresentable { j2kDefault16 with CodeBlockWidth := 128, CodeBlockHeight := 128 } 256 := by decide

/-- FINDING `j2k-progression-order-unchecked`: ProgressionOrder = 9 is accepted -/
theorem j2k_accepts_progression_counterexample :
    ValidateJ2k.Encoder.Encode_accepts (j2kEnc { j2kDefault16 with ProgressionOrder := 9 }) 256 = true ∧
    ¬ J2kRepresentable { j2kDefault16 with ProgressionOrder := 9 } 256 := by decide

/-- FINDING `j2k-lossy-quality-unchecked`: Lossless = false with Quality = 0 is accepted -/
theorem j2k_accepts_quality_counterexample :
    ValidateJ2k.Encoder.Encode_accepts (j2kEnc { j2kDefault16 with Lossless := false, Quality := 0 }) 256 = true ∧
    ¬ J2kRepresentable { j2kDefault16 with Lossless := false, Quality := 0 } 256 := by decide

theorem j2k_FullStatement_false : ¬ j2k_accepts_representable_FullStatement :=
  fun h => j2k_accepts_negative_tile_counterexample.2 (h _ _ j2k_accepts_negative_tile_counterexample.1)

/-- missing in the code (each a hypothesis here): 32-bit bound on the image size, code-block
    area ≤ 4096, tile sizes ≥ 0, precinct sizes 0 or a power of two ≤ 2^15, layers ≤ 65535,
    progression order ≤ 4, lossy quality 1..100.
    Proved from the generated guard chain: positive dimensions, 1..4 components, depth 1..16,
    levels 0..6, code-block width/height ∈ {4,…,1024} powers of two (via the generated
    `isPowerOfTwo`), layers ≥ 1, buffer length. -/
theorem j2k_accepts_representable_partial (e : ValidateJ2k.Encoder) (len : Int)
    (hacc : ValidateJ2k.Encoder.Encode_accepts e len = true)
    (hW : e.params.Width ≤ 4294967295) (hH : e.params.Height ≤ 4294967295)
    (harea : e.params.CodeBlockWidth * e.params.CodeBlockHeight ≤ 4096)
    (htile : 0 ≤ e.params.TileWidth ∧ 0 ≤ e.params.TileHeight)
    (hpw : e.params.PrecinctWidth = 0 ∨ e.params.PrecinctWidth ∈ pow2s 0 15)
    (hph : e.params.PrecinctHeight = 0 ∨ e.params.PrecinctHeight ∈ pow2s 0 15)
    (hlay : e.params.NumLayers ≤ 65535)
    (hprog : 0 ≤ e.params.ProgressionOrder ∧ e.params.ProgressionOrder ≤ 4)
    (hq : e.params.Lossless = false → 1 ≤ e.params.Quality ∧ e.params.Quality ≤ 100) :
    J2kRepresentable e.params len := by
  unfold ValidateJ2k.Encoder.Encode_accepts ValidateJ2k.Encoder.validateParams_accepts
    ValidateJ2k.Encoder.convertPixelData_accepts at hacc
  simp at hacc
  obtain ⟨⟨h1, h2, h3, h4, h5, h6, h7⟩, h8⟩ := hacc
  rw [tdiv8 _ (by omega)] at h8
  have hcw := isPowerOfTwo_range e.params.CodeBlockWidth (by omega) (by omega) h5.2
  have hch := isPowerOfTwo_range e.params.CodeBlockHeight (by omega) (by omega) h6.2
  unfold J2kRepresentable
  refine ⟨⟨by omega, hW⟩, ⟨by omega, hH⟩, by omega, by omega, by omega, hcw, hch, harea, htile, hpw, hph,
    ⟨by omega, hlay⟩, hprog, hq, by omega⟩

/-! ## RLE — rle/rle.go `Codec.encodeFrame` (hand model `Rle.encodeFrame`; no guard to generate) -/

/-- PS3.5 Annex G: 1..15 segments (the header has room for 15 offsets); a frame has at least
    one pixel -/
def RleRepresentable (i : Rle.Info) (len : Nat) : Prop :=
  1 ≤ i.numberOfSegments ∧ i.numberOfSegments ≤ 15 ∧ 1 ≤ i.pixelCount ∧ len ≠ 0

def rle_FullStatement : Prop :=
  ∀ (i : Rle.Info) (src : Array Rle.Byte),
    Rle.encodeFrame i src ≠ .panic ∧ (∀ enc, Rle.encodeFrame i src = .ok enc → RleRepresentable i src.size)

/-- FINDING `rle-more-than-15-segments`: BitsAllocated 32 × SamplesPerPixel 4 = 16 segments:
    `offsets[15]` index panic in `NextSegment` -/
theorem rle_16_segments_panics :
    Rle.encodeFrame { width := 1, height := 1, bitsAllocated := 32, spp := 4, planar := 0 }
      #[1, 2, 3, 4, 5, 6, 7, 8, 9, 10, 11, 12, 13, 14, 15, 16] = .panic := by decide

/-- FINDING `rle-degenerate-frame-accepted`: SamplesPerPixel = 0 (no segment) and Width = 0 (no
    pixel) yield a stream instead of an error -/
theorem rle_degenerate_accepted :
    Rle.encodeFrame { width := 1, height := 1, bitsAllocated := 8, spp := 0, planar := 0 } #[1] ≠ .err ∧
    Rle.encodeFrame { width := 1, height := 1, bitsAllocated := 8, spp := 0, planar := 0 } #[1] ≠ .panic ∧
    Rle.encodeFrame { width := 0, height := 3, bitsAllocated := 8, spp := 1, planar := 0 } #[1] ≠ .err ∧
    Rle.encodeFrame { width := 0, height := 3, bitsAllocated := 8, spp := 1, planar := 0 } #[1] ≠ .panic := by decide

theorem rle_FullStatement_false : ¬ rle_FullStatement :=
  fun h => (h _ _).1 rle_16_segments_panics

/-- what holds for every input: whenever a stream is returned, the frame has at most 15 byte
    planes and a non-empty source (never a stream with a truncated segment table).
    Missing: "no panic" (witness above; under `numberOfSegments ≤ 15` and the exact native length
    it is C01's `rle_encode_ok`), and the lower bounds `1 ≤ planes`, `1 ≤ pixels`. -/
theorem rle_stream_implies_representable_partial (i : Rle.Info) (src : Array Rle.Byte) (enc : List Rle.Byte)
    (h : Rle.encodeFrame i src = .ok enc) : i.numberOfSegments ≤ 15 ∧ src.size ≠ 0 := by
  unfold Rle.encodeFrame at h
  split at h
  · cases h
  · rename_i hne
    split at h
    · split at h <;> cases h
    · exact ⟨by omega, hne⟩

example : Rle.encodeFrame { width := 2, height := 1, bitsAllocated := 8, spp := 1, planar := 0 } #[7, 7] ≠ .panic ∧
    Rle.encodeFrame { width := 2, height := 1, bitsAllocated := 8, spp := 1, planar := 0 } #[7, 7] ≠ .err := by decide

/-! ## DICOM adapters: `Validate` normalises instead of rejecting — what reaches `Encode` -/

/-- jpeg/baseline/parameters.go: after `Validate` the quality is always one the encoder accepts -/
theorem baseline_validate_quality (p : ValidateJpegBaseline.JPEGBaselineParameters) :
    let q := (ValidateJpegBaseline.JPEGBaselineParameters.Validate p).1.Quality
    1 ≤ q ∧ q ≤ 100 ∧ ((1 ≤ p.Quality ∧ p.Quality ≤ 100) → q = p.Quality) := by
  unfold ValidateJpegBaseline.JPEGBaselineParameters.Validate
  simp only []
  split <;> simp_all <;> omega

/-- jpeg/extended/parameters.go -/
theorem extended_validate (p : ValidateJpegExtended.JPEGExtendedParameters) :
    let r := (ValidateJpegExtended.JPEGExtendedParameters.Validate p).1
    (1 ≤ r.Quality ∧ r.Quality ≤ 100) ∧ (r.BitDepth = 8 ∨ r.BitDepth = 12) := by
  unfold ValidateJpegExtended.JPEGExtendedParameters.Validate
  simp only []
  split <;> split <;> simp_all <;> omega

/-- jpeg/lossless/parameters.go -/
theorem lossless_validate_predictor (p : ValidateJpegLossless.JPEGLosslessParameters) :
    let r := (ValidateJpegLossless.JPEGLosslessParameters.Validate p).1.Predictor
    0 ≤ r ∧ r ≤ 7 := by
  unfold ValidateJpegLossless.JPEGLosslessParameters.Validate
  simp only []
  split <;> simp_all <;> omega

/-- jpegls/nearlossless/parameters.go: only 0..255 is enforced … -/
theorem jpeglsNear_validate_near (p : ValidateJpegLsNear.JPEGLSNearLosslessParameters) :
    let r := (ValidateJpegLsNear.JPEGLSNearLosslessParameters.Validate p).1.NEAR
    0 ≤ r ∧ r ≤ 255 := by
  unfold ValidateJpegLsNear.JPEGLSNearLosslessParameters.Validate
  simp only []
  split <;> simp_all <;> omega

/-- … so NEAR = 200 survives `Validate` and reaches `Encode` whatever the bit depth -/
theorem jpeglsNear_validate_keeps_200 :
    (ValidateJpegLsNear.JPEGLSNearLosslessParameters.Validate { NEAR := 200 }).1.NEAR = 200 := by decide

/-- jpeg2000/lossless/parameters.go (hand model of the integer part) -/
theorem j2kLossless_validate (p : C17Model.J2kLosslessParams) :
    let r := p.Validate
    (0 ≤ r.NumLevels ∧ r.NumLevels ≤ 6) ∧ 1 ≤ r.NumLayers ∧ 0 ≤ r.Rate ∧ r.ProgressionOrder ≤ 4 := by
  unfold C17Model.J2kLosslessParams.Validate
  simp only []
  repeat' split
  all_goals simp_all
  all_goals omega

/-- jpeg2000/lossy/parameters.go (hand model of the integer part) -/
theorem j2kLossy_validate (p : C17Model.J2kLossyParams) :
    let r := p.Validate
    (0 ≤ r.NumLevels ∧ r.NumLevels ≤ 6) ∧ 1 ≤ r.NumLayers ∧ 1 ≤ r.Rate := by
  unfold C17Model.J2kLossyParams.Validate
  simp only []
  repeat' split
  all_goals simp_all
  all_goals omega

end C17
