import GdcVerif.Lemmas.C17
import GdcVerif.Lemmas.Rle
/-!
  C17 — encoders reject unrepresentable input.

  Every theorem below is about a go2lean-GENERATED definition (`Gen/Validate*.lean`,
  `Gen/JpegLs.lean`: the validation prefix of the Go `Encode` as it is in /repo now), except the
  RLE ones, which are about the hand model `Model/Rle.lean` (tied by C01/C17 correspondence).
  `…Representable` (Lemmas/C17.lean) is written from the formats, not from the code.

  State after the `fix:` commits c081061 … a965712 in /repo: for every encoder
  `X_accepts_representable` holds at full strength (accepts = true → Representable, all integers,
  no extra hypothesis), except
    * JPEG-LS near-lossless: NEAR ≤ MAXVAL/2 is still not enforced (known finding, kept as
      `_counterexample` + `_partial`);
    * JPEG 2000: full since d320418 (32-bit SIZ fields) and the guards added after the hunters' round
      (tile extent ≤ 2^32−1, at most 65535 tiles, source byte count within a Go `int`); the only extra
      hypothesis is the `uint8` type invariant of ProgressionOrder.
  The witnesses of the repaired defects are kept as `example`s (regression anchors): the
  regenerated function now rejects them.
-/
namespace C17
open Gen

/-! ## The 16-bit size field (mechanism of the mis-declared stream) -/

/-- a dimension that is `Dim16` is read back unchanged from the SOF header -/
theorem declared16_faithful (v : Int) (h : Dim16 v) : declared16 v = v :=
  declared16_of_fits v (by unfold Dim16 at h; omega) h.2

/-- width 65536 is written as 0, 65537 as 1 -/
theorem declared16_wraps : declared16 65536 = 0 ∧ declared16 65537 = 1 := by decide

example : Dim16 65535 ∧ ¬ Dim16 65536 ∧ ¬ Dim16 0 := by decide

/-! ## JPEG Baseline — jpeg/baseline/encoder.go `Encode` -/

/-- positive 16-bit dimensions, 1|3 components, quality 1..100, buffer length -/
theorem baseline_accepts_representable (len w h c q : Int)
    (hacc : ValidateJpegBaseline.Encode_accepts len w h c q = true) : BaselineRepresentable len w h c q := by
  unfold ValidateJpegBaseline.Encode_accepts at hacc
  unfold BaselineRepresentable Dim16
  simp at hacc
  omega

/-- regression anchor (was FINDING `jpeg-dim-over-65535`, fixed by c081061): width 65536 is rejected, 65535 accepted -/
example : ValidateJpegBaseline.Encode_accepts 65536 65536 1 1 90 = false ∧
    ValidateJpegBaseline.Encode_accepts 65535 65535 1 1 90 = true := by decide

example : ValidateJpegBaseline.Encode_accepts 12 2 2 3 75 = true := by decide

/-! ## JPEG Extended — jpeg/extended `Encode`, `EncodeSimple`, `encodeSequential12` -/

/-- positive 16-bit dimensions, depth 8 (1|3 components, 1 byte/sample) or 12 (monochrome,
    2 bytes/sample), quality, buffer — through the tail calls into `encodeSequential12` / `baseline.Encode` -/
theorem extended_accepts_representable (len w h c p q : Int)
    (hacc : ValidateJpegExtended.Encode_accepts len w h c p q = true) : ExtendedRepresentable len w h c p q := by
  unfold ValidateJpegExtended.Encode_accepts ValidateJpegExtended.EncodeSimple_accepts
    ValidateJpegExtended.encodeSequential12_accepts ValidateJpegBaseline.Encode_accepts
    ValidateJpegExtended.sequential12Precision at hacc
  unfold ExtendedRepresentable Dim16
  by_cases hp : p = 12
  · subst hp
    simp at hacc
    omega
  · simp [hp] at hacc
    omega

/-- the same for the exported `EncodeSimple` entry point -/
theorem extendedSimple_accepts_representable (len w h c p q : Int)
    (hacc : ValidateJpegExtended.EncodeSimple_accepts len w h c p q = true) : ExtendedRepresentable len w h c p q := by
  unfold ValidateJpegExtended.EncodeSimple_accepts
    ValidateJpegExtended.encodeSequential12_accepts ValidateJpegBaseline.Encode_accepts
    ValidateJpegExtended.sequential12Precision at hacc
  unfold ExtendedRepresentable Dim16
  by_cases hp : p = 12
  · subst hp
    simp at hacc
    omega
  · simp [hp] at hacc
    omega

/-- regression anchor (was `jpeg-dim-over-65535` on the 12-bit path, fixed by c081061) -/
example : ValidateJpegExtended.Encode_accepts 131072 65536 1 1 12 90 = false ∧
    ValidateJpegExtended.Encode_accepts 131070 65535 1 1 12 90 = true := by decide

example : ValidateJpegExtended.Encode_accepts 8 2 2 1 12 50 = true ∧
    ValidateJpegExtended.Encode_accepts 12 2 2 3 8 50 = true ∧
    ValidateJpegExtended.Encode_accepts 24 2 2 3 12 50 = false := by decide

/-! ## JPEG Lossless — jpeg/lossless/encoder.go `Encode` -/

theorem lossless_accepts_representable (len w h c p pred : Int)
    (hacc : ValidateJpegLossless.Encode_accepts len w h c p pred = true) : LosslessRepresentable len w h c p pred := by
  unfold ValidateJpegLossless.Encode_accepts at hacc
  unfold LosslessRepresentable Dim16
  simp at hacc
  obtain ⟨h1, h2, h3, h4, h5⟩ := hacc
  rw [tdiv8 p (by omega)] at h5
  omega

/-- regression anchor (was `jpeg-dim-over-65535`, fixed by c081061) -/
example : ValidateJpegLossless.Encode_accepts 65536 65536 1 1 8 1 = false ∧
    ValidateJpegLossless.Encode_accepts 65535 65535 1 1 8 1 = true := by decide

example : ValidateJpegLossless.Encode_accepts 24 2 2 3 12 4 = true := by decide

/-! ## JPEG Lossless SV1 — jpeg/lossless14sv1/encoder.go `Encode` (predictor fixed to 1) -/

theorem sv1_accepts_representable (len w h c p : Int)
    (hacc : ValidateJpegSv1.Encode_accepts len w h c p = true) : LosslessRepresentable len w h c p 1 := by
  unfold ValidateJpegSv1.Encode_accepts at hacc
  unfold LosslessRepresentable Dim16
  simp at hacc
  obtain ⟨h1, h2, h3, h5⟩ := hacc
  rw [tdiv8 p (by omega)] at h5
  omega

/-- regression anchor (was `jpeg-dim-over-65535`, fixed by c081061) -/
example : ValidateJpegSv1.Encode_accepts 65536 1 65536 1 8 = false ∧
    ValidateJpegSv1.Encode_accepts 65535 1 65535 1 8 = true := by decide

example : ValidateJpegSv1.Encode_accepts 8 2 2 1 16 = true := by decide

/-! ## JPEG-LS lossless — jpegls/lossless/encoder.go `Encode` (NEAR = 0) -/

theorem jpegls_accepts_representable (len w h c p : Int)
    (hacc : JpegLs.Encode_accepts len w h c p = true) : JpegLsRepresentable len w h c p 0 := by
  unfold JpegLs.Encode_accepts at hacc
  unfold JpegLsRepresentable Dim16
  simp at hacc
  obtain ⟨h1, h2, h3, h4⟩ := hacc
  rw [tdiv8 p (by omega)] at h4
  have : (1 : Int) ≤ ((2 : Int) ^ p.toNat - 1) / 2 := by
    have h4 : (4 : Int) ≤ (2 : Int) ^ p.toNat := by
      have hn : (2 : Nat) ^ 2 ≤ 2 ^ p.toNat := Nat.pow_le_pow_right (by decide) (by omega)
      have hc : ((2 ^ p.toNat : Nat) : Int) = (2 : Int) ^ p.toNat := by simp
      omega
    omega
  omega

/-- regression anchors (were `jpegls-no-buffer-length-check`, fixed by b0e179c, and
    `jpegls-dim-over-65535`, fixed by 47d622b) -/
example : JpegLs.Encode_accepts 0 2 2 1 8 = false ∧ JpegLs.Encode_accepts 3 2 2 1 8 = false ∧
    JpegLs.Encode_accepts 65536 65536 1 1 8 = false ∧ JpegLs.Encode_accepts 65535 65535 1 1 8 = true := by decide

example : JpegLs.Encode_accepts 4 2 2 1 8 = true := by decide

/-! ## JPEG-LS near-lossless — jpegls/nearlossless/encoder.go `Encode` -/

def jpeglsNear_accepts_representable_FullStatement : Prop :=
  ∀ len w h c p near, ValidateJpegLsNear.Encode_accepts len w h c p near = true →
    JpegLsRepresentable len w h c p near

/-- KNOWN FINDING `jpegls-near-exceeds-maxval-half` (not fixed: the repo's own test expects
    NEAR = 255 at 8 bit): NEAR = 200 at P = 2 (MAXVAL = 3, limit 1) is accepted -/
theorem jpeglsNear_accepts_near_counterexample :
    ValidateJpegLsNear.Encode_accepts 4 2 2 1 2 200 = true ∧ ¬ JpegLsRepresentable 4 2 2 1 2 200 := by decide

theorem jpeglsNear_FullStatement_false : ¬ jpeglsNear_accepts_representable_FullStatement :=
  fun h => jpeglsNear_accepts_near_counterexample.2 (h _ _ _ _ _ _ jpeglsNear_accepts_near_counterexample.1)

/-- missing in the code: NEAR ≤ MAXVAL/2 (hypothesis `hnear`). Proved: 16-bit positive dimensions,
    components, depth, 0 ≤ NEAR ≤ 255, buffer length. -/
theorem jpeglsNear_accepts_representable_partial (len w h c p near : Int)
    (hacc : ValidateJpegLsNear.Encode_accepts len w h c p near = true)
    (hnear : near ≤ ((2 : Int) ^ p.toNat - 1) / 2) :
    JpegLsRepresentable len w h c p near := by
  unfold ValidateJpegLsNear.Encode_accepts at hacc
  unfold JpegLsRepresentable Dim16
  simp at hacc
  obtain ⟨h1, h2, h3, h4, h5⟩ := hacc
  rw [tdiv8 p (by omega)] at h5
  omega

/-- regression anchors (were `jpegls-no-buffer-length-check` / `jpegls-dim-over-65535` on this entry point) -/
example : ValidateJpegLsNear.Encode_accepts 0 2 2 1 8 3 = false ∧
    ValidateJpegLsNear.Encode_accepts 65536 65536 1 1 8 3 = false := by decide

example : ValidateJpegLsNear.Encode_accepts 4 2 2 1 8 3 = true ∧ (3 : Int) ≤ ((2 : Int) ^ (8 : Int).toNat - 1) / 2 := by decide

/-! ## JPEG 2000 — jpeg2000/encoder.go `Encoder.Encode` = `validateParams` ; `convertPixelData` -/

def j2k_accepts_representable_FullStatement : Prop :=
  ∀ (e : ValidateJ2k.Encoder) (len : Int),
    ValidateJ2k.Encoder.Encode_accepts e len = true → J2kRepresentable e.params len

/-- `DefaultEncodeParams(16,16,1,8,false)` -/
def j2kDefault16 : ValidateJ2k.EncodeParams :=
  { (default : ValidateJ2k.EncodeParams) with
    Width := 16, Height := 16, Components := 1, BitDepth := 8, NumLevels := 5, Lossless := true,
    Quality := 80, CodeBlockWidth := 64, CodeBlockHeight := 64, NumLayers := 1, EnableMCT := true }
def j2kEnc (p : ValidateJ2k.EncodeParams) : ValidateJ2k.Encoder := { (default : ValidateJ2k.Encoder) with params := p }

/-- non-vacuity: the default parameters are accepted and representable -/
example : ValidateJ2k.Encoder.Encode_accepts (j2kEnc j2kDefault16) 256 = true ∧
    J2kRepresentable j2kDefault16 256 := by decide

/-- regression anchors — each was a FINDING, now rejected by the regenerated guard chain:
    `j2k-negative-tile-size` (1b6e509), `j2k-precinct-not-power-of-two` (1434162),
    `j2k-codeblock-area-over-4096` (e398db4), `j2k-progression-order-unchecked` (4c8a156),
    `j2k-lossy-quality-unchecked` (a965712), `j2k-layers-over-65535` (fa1268b) -/
example :
    ValidateJ2k.Encoder.Encode_accepts (j2kEnc { j2kDefault16 with TileWidth := -1 }) 256 = false ∧
    ValidateJ2k.Encoder.Encode_accepts (j2kEnc { j2kDefault16 with PrecinctWidth := 3 }) 256 = false ∧
    ValidateJ2k.Encoder.Encode_accepts (j2kEnc { j2kDefault16 with PrecinctHeight := 65536 }) 256 = false ∧
    ValidateJ2k.Encoder.Encode_accepts (j2kEnc { j2kDefault16 with CodeBlockWidth := 128, CodeBlockHeight := 128 }) 256 = false ∧
    ValidateJ2k.Encoder.Encode_accepts (j2kEnc { j2kDefault16 with ProgressionOrder := 9 }) 256 = false ∧
    ValidateJ2k.Encoder.Encode_accepts (j2kEnc { j2kDefault16 with Lossless := false, Quality := 0 }) 256 = false ∧
    ValidateJ2k.Encoder.Encode_accepts (j2kEnc { j2kDefault16 with NumLayers := 65536 }) 256 = false := by decide

/-- the new guards do not over-reject: the extreme representable values are accepted -/
example :
    ValidateJ2k.Encoder.Encode_accepts (j2kEnc { j2kDefault16 with CodeBlockWidth := 128, CodeBlockHeight := 32 }) 256 = true ∧
    ValidateJ2k.Encoder.Encode_accepts (j2kEnc { j2kDefault16 with CodeBlockWidth := 4, CodeBlockHeight := 1024 }) 256 = true ∧
    ValidateJ2k.Encoder.Encode_accepts (j2kEnc { j2kDefault16 with PrecinctWidth := 32768, PrecinctHeight := 1 }) 256 = true ∧
    ValidateJ2k.Encoder.Encode_accepts (j2kEnc { j2kDefault16 with TileWidth := 0, TileHeight := 7 }) 256 = true ∧
    ValidateJ2k.Encoder.Encode_accepts (j2kEnc { j2kDefault16 with ProgressionOrder := 4, NumLayers := 65535 }) 256 = true ∧
    ValidateJ2k.Encoder.Encode_accepts (j2kEnc { j2kDefault16 with Lossless := false, Quality := 100 }) 256 = true := by decide

/-- regression anchor (class `j2k-dim-over-32bit`, repaired by d320418): an extent beyond the
    32-bit SIZ fields is now rejected -/
example :
    ValidateJ2k.Encoder.Encode_accepts (j2kEnc { j2kDefault16 with Width := 4294967296, Height := 1 }) 4294967296 = false ∧
    ¬ J2kRepresentable { j2kDefault16 with Width := 4294967296, Height := 1 } 4294967296 := by decide

/-- regression anchors (hunters' findings, repaired in `validateParams`):
    `j2k-tile-count-over-65535` — 256×257 with 1×1 tiles (65792 tiles; Isot is 16 bit) and 256×256 (65536) are
    rejected, 255×257 (65535 tiles) is accepted;
    `j2k-tile-size-over-32bit` — a tile extent of 2^32 (XTsiz/YTsiz are 32 bit) is rejected, 2^32 − 1 accepted -/
example :
    ValidateJ2k.Encoder.Encode_accepts (j2kEnc { j2kDefault16 with Width := 256, Height := 257, TileWidth := 1, TileHeight := 1 }) 65792 = false ∧
    ¬ J2kRepresentable { j2kDefault16 with Width := 256, Height := 257, TileWidth := 1, TileHeight := 1 } 65792 ∧
    ValidateJ2k.Encoder.Encode_accepts (j2kEnc { j2kDefault16 with Width := 256, Height := 256, TileWidth := 1, TileHeight := 1 }) 65536 = false ∧
    ValidateJ2k.Encoder.Encode_accepts (j2kEnc { j2kDefault16 with Width := 255, Height := 257, TileWidth := 1, TileHeight := 1 }) 65535 = true ∧
    J2kRepresentable { j2kDefault16 with Width := 255, Height := 257, TileWidth := 1, TileHeight := 1 } 65535 ∧
    ValidateJ2k.Encoder.Encode_accepts (j2kEnc { j2kDefault16 with TileWidth := 4294967296, TileHeight := 4294967296 }) 256 = false ∧
    ¬ J2kRepresentable { j2kDefault16 with TileWidth := 4294967296, TileHeight := 4294967296 } 256 ∧
    ValidateJ2k.Encoder.Encode_accepts (j2kEnc { j2kDefault16 with TileWidth := 4294967295, TileHeight := 0 }) 256 = true := by decide

/-- regression anchor (`j2k-extent-product-overflow`): width × height × components × bytes beyond a Go `int`
    is rejected whatever the buffer length (was: the product wrapped, the length check passed, `make` panicked);
    the largest square that fits is accepted when the buffer holds it -/
example :
    ValidateJ2k.Encoder.Encode_accepts (j2kEnc { j2kDefault16 with Width := 4294967295, Height := 4294967295 }) 0 = false ∧
    ValidateJ2k.Encoder.Encode_accepts (j2kEnc { j2kDefault16 with Width := 2147483648, Height := 1073741824, Components := 4, BitDepth := 16 }) 0 = false ∧
    ValidateJ2k.Encoder.Encode_accepts (j2kEnc { j2kDefault16 with Width := 3037000500, Height := 3037000500 }) 9223372037000250000 = false ∧
    ¬ J2kRepresentable { j2kDefault16 with Width := 3037000500, Height := 3037000500 } 9223372037000250000 ∧
    ValidateJ2k.Encoder.Encode_accepts (j2kEnc { j2kDefault16 with Width := 3037000499, Height := 3037000499 }) 9223372030926249001 = true := by decide

/-- Everything the format predicate asks for is proved from the generated guard chain
    (`validateParams` ; `convertPixelData` as composed by `Encoder.Encode`): positive dimensions
    within the 32-bit SIZ fields, 1..4 components, depth 1..16, a source byte count
    width·height·components·bytes that fits a Go `int` (so the `Int` reading of the two products in
    `convertPixelData` is the Go value), levels 0..6, code-block sides ∈ {4,…,1024} powers of two
    (via the generated `isPowerOfTwo`) with area ≤ 4096, tile sizes within 0..2^32−1 and at most
    65535 tiles (`tilesAlong`, the ⌈·⌉ of T.800 B.3, from the generated `(W + t − 1) / t`),
    precinct sizes 0 or a power of two ≤ 2^15, 1..65535 layers, progression order ≤ 4, lossy
    quality 1..100, buffer length.
    `hu8` is not a guard but the type invariant of the Go field (`ProgressionOrder uint8`), which
    go2lean's `Int` reading of the structure drops.
    Outside the translated prefix (float/slice-valued arguments, checked after it in `validateParams`):
    ROI / ROIConfig, CustomQuantSteps length, MCT matrix and binding shapes — harness only. -/
theorem j2k_accepts_representable (e : ValidateJ2k.Encoder) (len : Int)
    (hacc : ValidateJ2k.Encoder.Encode_accepts e len = true)
    (hu8 : 0 ≤ e.params.ProgressionOrder) :
    J2kRepresentable e.params len := by
  unfold ValidateJ2k.Encoder.Encode_accepts ValidateJ2k.Encoder.validateParams_accepts
    ValidateJ2k.Encoder.convertPixelData_accepts at hacc
  simp at hacc
  obtain ⟨⟨h1, h2, h3, hext, h4, h5, h6, h7, h8, h9, htiles, h10, h11, h12⟩, h13⟩ := hacc
  rw [tdiv8 _ (by omega)] at h13 hext
  rw [tdiv_tiles _ _ (by omega) (by omega), tdiv_tiles _ _ (by omega) (by omega)] at htiles
  have hbps : 0 < bytesPerSample e.params.BitDepth := by unfold bytesPerSample; omega
  have hfit := mul_le_of_le_tdiv_tdiv _ _ _ _ (by decide) (Int.mul_pos (by omega) hbps) (by omega) hext
  rw [← Int.mul_assoc] at hfit
  have hcw := isPowerOfTwo_range e.params.CodeBlockWidth (by omega) (by omega) h5.2
  have hch := isPowerOfTwo_range e.params.CodeBlockHeight (by omega) (by omega) h6.2
  have hpw : e.params.PrecinctWidth = 0 ∨ e.params.PrecinctWidth ∈ pow2s 0 15 := by
    rcases h10.1 with hz | hz
    · exact Or.inl hz
    · exact Or.inr (isPowerOfTwo_precinct _ hz.2 hz.1)
  have hph : e.params.PrecinctHeight = 0 ∨ e.params.PrecinctHeight ∈ pow2s 0 15 := by
    rcases h10.2 with hz | hz
    · exact Or.inl hz
    · exact Or.inr (isPowerOfTwo_precinct _ hz.2 hz.1)
  unfold J2kRepresentable
  refine ⟨⟨by omega, by omega⟩, ⟨by omega, by omega⟩, by omega, by omega, by omega, hcw, hch, by omega,
    ⟨by omega, by omega⟩, ⟨by omega, by omega⟩, htiles.2, hpw, hph,
    by omega, ⟨hu8, by omega⟩, ?_, hfit, by omega⟩
  intro hl
  rcases h12 with hq | hq
  · rw [hl] at hq; cases hq
  · exact hq

/-- a multi-tile instance of the hypotheses: 33×17 in 8×8 tiles (5 × 3 tiles) -/
example : ValidateJ2k.Encoder.Encode_accepts (j2kEnc { j2kDefault16 with Width := 33, Height := 17, TileWidth := 8, TileHeight := 8 }) 561 = true ∧
    tilesAlong 33 8 * tilesAlong 17 8 = 15 := by decide

/-! ## RLE — rle/rle.go `Codec.encodeFrame` (hand model `Rle.encodeFrame`, tied by the C01/C17
    `rle-enc` correspondence lines; the model carries the guard added by 1dbcb53) -/

/-- PS3.5 Annex G: 1..15 segments (the header has room for 15 offsets); a frame has at least
    one pixel -/
def RleRepresentable (i : Rle.Info) (len : Nat) : Prop :=
  1 ≤ i.numberOfSegments ∧ i.numberOfSegments ≤ 15 ∧ 1 ≤ i.pixelCount ∧ len ≠ 0

/-- for EVERY frame info and EVERY source buffer (any length, any content) the encoder does not
    panic: the `offsets[15]` overrun is excluded by the new guard, the `tempBuffer[132]` overrun by
    C01's encoder invariant (`encodeSegment_spec`), read positions are checked against `len(src)`. -/
theorem rle_encode_never_panics (i : Rle.Info) (src : Array Rle.Byte) : Rle.encodeFrame i src ≠ .panic := by
  unfold Rle.encodeFrame
  split
  · simp
  · split
    · simp
    · split
      · simp
      · rename_i body offs oob heq
        have hoob : oob = false := encodeSegments_oob i src _ _ _ _ _ _ heq
        subst hoob
        simp

/-- whenever a stream is returned, the frame is representable -/
theorem rle_stream_implies_representable (i : Rle.Info) (src : Array Rle.Byte) (enc : List Rle.Byte)
    (h : Rle.encodeFrame i src = .ok enc) : RleRepresentable i src.size := by
  unfold Rle.encodeFrame at h
  unfold RleRepresentable
  split at h
  · cases h
  · rename_i hne
    split at h
    · cases h
    · rename_i hg
      exact ⟨by omega, by omega, by omega, hne⟩

/-- whenever a stream is returned — ANY frame description, ANY source buffer — it is even and at most
    0xFFFFFFFE bytes long: every segment offset fits the 32-bit field the header gives it and the frame fits a
    DICOM item (the guard added by the repair of `rle-offsets-beyond-4gib`; before it `uint32(buffer.Len())`
    wrapped silently and a stream beyond 4 GiB carried a non-ascending offset table) -/
theorem rle_stream_fits_32bit (i : Rle.Info) (src : Array Rle.Byte) (enc : List Rle.Byte)
    (h : Rle.encodeFrame i src = .ok enc) :
    enc.length ≤ Rle.maxEncodedFrameLength ∧ enc.length % 2 = 0 := by
  unfold Rle.encodeFrame at h
  split at h
  · cases h
  · split at h
    · cases h
    · rename_i hg
      split at h
      · cases h
      · rename_i body offs oob heq
        have hoob : oob = false := encodeSegments_oob i src _ _ _ _ _ _ heq
        have hfit := encodeSegments_fits i src _ _ _ _ _ _ heq (by decide)
        have hfit1 : 64 + body.length ≤ Rle.maxEncodedFrameLength := hfit.1
        have hfit2 : offs.length = 0 + i.numberOfSegments := hfit.2
        subst hoob
        simp only [Bool.false_eq_true, ↓reduceIte] at h
        injection h with h
        subst h
        have hmax : Rle.maxEncodedFrameLength = 4294967294 := rfl
        have hlen : (Rle.le32 offs.length ++
            (offs ++ List.replicate (15 - offs.length) 0).flatMap Rle.le32).length = 64 := by
          simp only [List.length_append, Rle.le32_length, Rle.flatMap_le32_length, List.length_replicate]
          omega
        rw [List.length_append, hlen]
        split <;> rename_i hp <;> (try simp only [List.length_append, List.length_cons, List.length_nil]) <;> omega

/-- regression anchor (was FINDING `rle-more-than-15-segments`, fixed by 1dbcb53):
    BitsAllocated 32 × SamplesPerPixel 4 = 16 segments is now an error, not an `offsets[15]` panic -/
theorem rle_16_segments_rejected :
    Rle.encodeFrame { width := 1, height := 1, bitsAllocated := 32, spp := 4, planar := 0 }
      #[1, 2, 3, 4, 5, 6, 7, 8, 9, 10, 11, 12, 13, 14, 15, 16] = .err := by decide

/-- regression anchor (was FINDING `rle-degenerate-frame-accepted`, fixed by 1dbcb53) -/
theorem rle_degenerate_rejected :
    Rle.encodeFrame { width := 1, height := 1, bitsAllocated := 8, spp := 0, planar := 0 } #[1] = .err ∧
    Rle.encodeFrame { width := 0, height := 3, bitsAllocated := 8, spp := 1, planar := 0 } #[1] = .err ∧
    Rle.encodeFrame { width := 3, height := 0, bitsAllocated := 8, spp := 1, planar := 0 } #[1] = .err := by decide

/-- non-vacuity: an ordinary frame is encoded (15-plane frames are exercised on the real code and the model by the `rle-enc` lines) -/
example : Rle.encodeFrame { width := 2, height := 1, bitsAllocated := 8, spp := 1, planar := 0 } #[7, 7] ≠ .panic ∧
    Rle.encodeFrame { width := 2, height := 1, bitsAllocated := 8, spp := 1, planar := 0 } #[7, 7] ≠ .err := by
  -- (the size guard compares the length of the encoded segments, built by well-founded recursion: not a `decide`)
  obtain ⟨enc, he⟩ := Rle.rle_encode_ok' { width := 2, height := 1, bitsAllocated := 8, spp := 1, planar := 0 }
    (by decide) (by decide) #[7, 7] (by decide)
  rw [he]
  constructor
  · intro h; cases h
  · intro h; cases h

/-! ## DICOM adapters: `Validate` normalises instead of rejecting — what reaches `Encode` -/

/-- jpeg/baseline/parameters.go: after `Validate` the quality is always one the encoder accepts -/
theorem baseline_validate_quality (p : ValidateJpegBaseline.JPEGBaselineParameters) :
    let q := (ValidateJpegBaseline.JPEGBaselineParameters.Validate p).1.Quality
    1 ≤ q ∧ q ≤ 100 ∧ ((1 ≤ p.Quality ∧ p.Quality ≤ 100) → q = p.Quality) := by
  unfold ValidateJpegBaseline.JPEGBaselineParameters.Validate
  simp only []
  split <;> simp_all <;> omega

/-- jpeg/extended/parameters.go -/
theorem extended_validate (p : ValidateJpegExtended.JPEGExtendedParameters) :
    let r := (ValidateJpegExtended.JPEGExtendedParameters.Validate p).1
    (1 ≤ r.Quality ∧ r.Quality ≤ 100) ∧ (r.BitDepth = 8 ∨ r.BitDepth = 12) := by
  unfold ValidateJpegExtended.JPEGExtendedParameters.Validate
  simp only []
  split <;> split <;> simp_all <;> omega

/-- jpeg/lossless/parameters.go -/
theorem lossless_validate_predictor (p : ValidateJpegLossless.JPEGLosslessParameters) :
    let r := (ValidateJpegLossless.JPEGLosslessParameters.Validate p).1.Predictor
    0 ≤ r ∧ r ≤ 7 := by
  unfold ValidateJpegLossless.JPEGLosslessParameters.Validate
  simp only []
  split <;> simp_all <;> omega

/-- jpegls/nearlossless/parameters.go: only 0..255 is enforced … -/
theorem jpeglsNear_validate_near (p : ValidateJpegLsNear.JPEGLSNearLosslessParameters) :
    let r := (ValidateJpegLsNear.JPEGLSNearLosslessParameters.Validate p).1.NEAR
    0 ≤ r ∧ r ≤ 255 := by
  unfold ValidateJpegLsNear.JPEGLSNearLosslessParameters.Validate
  simp only []
  split <;> simp_all <;> omega

/-- … so NEAR = 200 survives `Validate` and reaches `Encode` whatever the bit depth -/
theorem jpeglsNear_validate_keeps_200 :
    (ValidateJpegLsNear.JPEGLSNearLosslessParameters.Validate { NEAR := 200 }).1.NEAR = 200 := by decide

/-- jpeg2000/lossless/parameters.go (hand model of the integer part) -/
theorem j2kLossless_validate (p : C17Model.J2kLosslessParams) :
    let r := p.Validate
    (0 ≤ r.NumLevels ∧ r.NumLevels ≤ 6) ∧ 1 ≤ r.NumLayers ∧ 0 ≤ r.Rate ∧ r.ProgressionOrder ≤ 4 := by
  unfold C17Model.J2kLosslessParams.Validate
  simp only []
  repeat' split
  all_goals simp_all
  all_goals omega

/-- jpeg2000/lossy/parameters.go (hand model of the integer part) -/
theorem j2kLossy_validate (p : C17Model.J2kLossyParams) :
    let r := p.Validate
    (0 ≤ r.NumLevels ∧ r.NumLevels ≤ 6) ∧ 1 ≤ r.NumLayers ∧ 1 ≤ r.Rate := by
  unfold C17Model.J2kLossyParams.Validate
  simp only []
  repeat' split
  all_goals simp_all
  all_goals omega

/-- jpeg2000/htj2k/parameters.go `Validate` (generated; `nearestPowerOf2` hand-modelled and proved
    in general, `nearestPowerOf2_range`): for EVERY input the normalised parameters have quality
    1..100, code-block sides that are powers of two in 4..1024, and 0..6 levels.
    (The area ≤ 4096 is not enforced here: 1024×1024 survives `Validate` and is now rejected with
    an error by `validateParams`.) -/
theorem htj2k_validate (p : ValidateHtj2k.Parameters) :
    let r := (ValidateHtj2k.Parameters.Validate p).1
    (1 ≤ r.Quality ∧ r.Quality ≤ 100) ∧ r.BlockWidth ∈ pow2s 2 10 ∧ r.BlockHeight ∈ pow2s 2 10 ∧
      (0 ≤ r.NumLevels ∧ r.NumLevels ≤ 6) := by
  simp only [htj2k_validate_quality, htj2k_validate_levels, htj2k_validate_width, htj2k_validate_height]
  have hw := clampI_range 4 1024 p.BlockWidth (by decide)
  have hh := clampI_range 4 1024 p.BlockHeight (by decide)
  exact ⟨clampI_range 1 100 _ (by decide), nearestPowerOf2_range _ hw.1 hw.2,
    nearestPowerOf2_range _ hh.1 hh.2, clampI_range 0 6 _ (by decide)⟩

example : (ValidateHtj2k.Parameters.Validate { Quality := 0, BlockWidth := 100, BlockHeight := 3, NumLevels := 9 }).1 =
    { Quality := 1, BlockWidth := 128, BlockHeight := 4, NumLevels := 6 } := by decide

end C17
