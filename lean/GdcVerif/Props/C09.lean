import GdcVerif.Lemmas.RleTotal
import GdcVerif.Lemmas.ParsersTotal
/-!
  C09 — decoding ends within time/memory bounded by input length and declared image size.

  Wall-clock and heap numbers are runtime facts (searched by the harness in child processes with a
  watchdog, RLIMIT_AS and allocation accounting).  The logic behind them is proved on the models:
  * every modelled parser loop has a termination MEASURE (unread bytes) that strictly decreases —
    the models are defined by well-founded recursion on that measure (no fuel), and the progress
    lemmas the recursion rests on are stated here;
  * the models return the list of allocation sizes; theorems bound them.
-/

namespace JM

/-- (1) `Reader.ReadMarker`: the fill-byte loop consumes at least one byte per 0xFF and the call as
    a whole at least two bytes -/
theorem c09_readMarker_progress (bs : Bytes) (m : Nat) (rest : Bytes) (h : readMarker bs = some (m, rest)) :
    rest.length + 2 ≤ bs.length := readMarker_progress h

/-- (2) `Reader.ReadSegment` consumes at least the two length bytes (length = 2 included; lengths 0
    and 1 are errors), so the marker loops of all JPEG-family decoders consume ≥ 2 bytes per turn -/
theorem c09_readSegment_progress (bs pl rest : Bytes) (h : readSegment bs = some (pl, rest)) :
    rest.length + 2 ≤ bs.length := readSegment_progress h

/-- (3) the payload buffer ReadSegment allocates is below 64 KiB whatever the input -/
theorem c09_readSegment_alloc (bs : Bytes) (hb : ∀ b ∈ bs, b < 256) : readSegmentAlloc bs ≤ 65533 := by
  match bs with
  | [] => simp [readSegmentAlloc]
  | [_] => simp [readSegmentAlloc]
  | hi :: lo :: r =>
    have h1 := hb hi (by simp)
    have h2 := hb lo (by simp)
    unfold readSegmentAlloc
    simp only
    split <;> omega

example : readMarker [0xFF, 0xFF, 0xFF, 0xC3, 7] = some (0xFFC3, [7]) := by decide

end JM

namespace J2kH

/-- (4) one "unknown marker" turn of consumeMainHeader (2 marker bytes, 2 length bytes,
    `offset += length − 2`) makes net progress ≥ 2 even for the length fields 0 and 1 that move the
    offset backwards -/
theorem c09_skip_progress (a b : Nat) (rest r : Bytes) (h : skipSegment rest = some r) :
    r.length + 2 ≤ (a :: b :: rest).length := skip_iteration_progress a b rest r h

/-- (4') the backwards step is real: length field 0 gives the two length bytes back -/
theorem c09_skip_backwards : skipSegment [0, 0, 9, 9] = some [0, 0, 9, 9] := by decide

end J2kH

namespace Rle

/-- Full statement for RLE memory: FALSE on the unchanged code (see the counterexample). -/
def rle_alloc_bound_FullStatement : Prop :=
  ∀ (i : Info) (data : List Byte), ∀ a ∈ (decodeFrameC i data).2, a ≤ 64 * i.samples + 1

/-- (5) decodeFrame allocates exactly one buffer, of `frameSize` = ⌈bytesAllocated·S⌉₂ bytes
    (S = Width·Height·SamplesPerPixel as declared by the FrameInfo) … -/
theorem rle_alloc_is_frame (i : Info) (data : List Byte) : ∀ a ∈ (decodeFrameC i data).2, a = i.frameSize :=
  decodeFrameC_allocs i data

/-- (6) … which is at most 8192·S + 1 for EVERY description (uint16 wrap of BitsAllocated = 0) … -/
theorem rle_alloc_bound_any (i : Info) (data : List Byte) :
    ∀ a ∈ (decodeFrameC i data).2, a ≤ 8192 * i.samples + 1 := by
  intro a ha
  rw [decodeFrameC_allocs i data a ha]
  have h1 := frameSize_le i
  have h2 := Nat.mul_le_mul_right i.samples (bytesAllocated_le i)
  omega

/-- (7) partial: within the property's budget (64 bytes per declared sample) when
    1 ≤ BitsAllocated ≤ 512.  Missing: BitsAllocated = 0 or > 512 (never validated). -/
theorem rle_alloc_bound_partial (i : Info) (data : List Byte) (h1 : 1 ≤ i.bitsAllocated) (h2 : i.bitsAllocated ≤ 512) :
    ∀ a ∈ (decodeFrameC i data).2, a ≤ 64 * i.samples + 1 := by
  intro a ha
  rw [decodeFrameC_allocs i data a ha]
  have h3 := frameSize_le i
  have h4 := Nat.mul_le_mul_right i.samples (bytesAllocated_le_64 i h1 h2)
  omega

/-- (8) the unchanged code exceeds the budget 512 MiB + 64·S with S = 2^22: BitsAllocated = 0 makes
    the 2048×2048 frame buffer 32 GiB -/
theorem rle_alloc_counterexample :
    let i : Info := { width := 2048, height := 2048, bitsAllocated := 0, spp := 1, planar := 0 }
    i.samples ≤ 2 ^ 22 ∧ (decodeFrameC i [1]).2 = [2 ^ 35] ∧ 2 ^ 35 > 512 * 2 ^ 20 + 64 * i.samples := by
  decide

example : let i : Info := { width := 3, height := 2, bitsAllocated := 16, spp := 3, planar := 0 }
    1 ≤ i.bitsAllocated ∧ i.bitsAllocated ≤ 512 := by decide

end Rle
