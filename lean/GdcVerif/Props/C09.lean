import GdcVerif.Lemmas.RleTotal
import GdcVerif.Lemmas.ParsersTotal
import GdcVerif.Lemmas.J2kAlloc
import GdcVerif.Lemmas.J2kLevels
import GdcVerif.Lemmas.J2kGluePasses
import GdcVerif.Lemmas.J2kProgressionExit
import GdcVerif.Lemmas.JpegAlloc
import GdcVerif.Lemmas.J2kTileClamp
import GdcVerif.Lemmas.J2kPacketBodyAlloc
import GdcVerif.Lemmas.C09MakeSites
/-!
  C09 — decoding ends within time/memory bounded by input length and declared image size.

  Wall-clock and heap numbers are runtime facts (searched by the harness in child processes with a
  watchdog, RLIMIT_AS and allocation accounting).  The logic behind them is proved on the models:
  * TIME of the header walks: every modelled decoder loop is `PC.run step`, a well-founded
    recursion on the number of unread bytes (no fuel); a continuing turn leaves strictly fewer
    unread bytes (`*_lt`), so the number of turns is at most len(input) + 1 (`turns_le`);
  * MEMORY: the models carry the list of allocation sizes; RLE: every allocation ≤ 15·S + 1;
    JPEG 2000 parser: the SUM of all allocations ≤ 2·len(input) + 196605.
-/

namespace JM
open PC

/-- (1) `Reader.ReadMarker`: the fill-byte loop and the call as a whole consume ≥ 2 bytes -/
theorem c09_readMarker_progress (bs : Bytes) (m : Nat) (rest : Bytes) (h : readMarker bs = some (m, rest)) :
    rest.length + 2 ≤ bs.length := readMarker_progress h

/-- (2) `Reader.ReadSegment` consumes at least the two length bytes (length = 2 included; lengths 0
    and 1 are errors), and its payload buffer is cut from the input -/
theorem c09_readSegment_progress (bs pl rest : Bytes) (h : readSegment bs = some (pl, rest)) :
    rest.length + 2 ≤ bs.length ∧ pl.length + 2 ≤ bs.length := readSegment_progress h

/-- (3) the payload buffer ReadSegment allocates (before it knows the data is there) is below 64 KiB -/
theorem c09_readSegment_alloc (bs : Bytes) (hb : ∀ b ∈ bs, b < 256) : readSegmentAlloc bs ≤ 65533 := by
  match bs with
  | [] => simp [readSegmentAlloc]
  | [_] => simp [readSegmentAlloc]
  | hi :: lo :: r =>
    have h1 := hb hi (by simp)
    have h2 := hb lo (by simp)
    unfold readSegmentAlloc
    simp only
    split <;> omega

/-- (4) the marker loops of the four JPEG-family decoders and the two JPEG-LS decoders: a turn that
    continues leaves strictly fewer unread bytes -/
theorem c09_sv1_turn (st st' : Sv1) (bs r : Bytes) (h : sv1Step st bs = .more st' r) : r.length < bs.length := sv1Step_lt h
theorem c09_jll_turn (st st' : Jll) (bs r : Bytes) (h : jllStep st bs = .more st' r) : r.length < bs.length := jllStep_lt h
theorem c09_baseline_turn (st st' : Bl) (bs r : Bytes) (h : blStep st bs = .more st' r) : r.length < bs.length := blStep_lt h
theorem c09_jls_turn (st st' : JlsH.St) (bs r : Bytes) (h : JlsH.step st bs = .more st' r) : r.length < bs.length := JlsH.step_lt h
theorem c09_jlsnear_turn (st st' : JlsH.St) (bs r : Bytes) (h : JlsH.nstep st bs = .more st' r) : r.length < bs.length := JlsH.nstep_lt h

/-- (5) … hence at most len + 1 turns (stated for the generic runner; instances below) -/
theorem c09_sv1_turns (st : Sv1) (bs : Bytes) : turns sv1Step sv1Step_lt st bs ≤ bs.length + 1 := turns_le _ _ st bs
theorem c09_baseline_turns (st : Bl) (bs : Bytes) : turns blStep blStep_lt st bs ≤ bs.length + 1 := turns_le _ _ st bs

example : readMarker [0xFF, 0xFF, 0xFF, 0xC3, 7] = some (0xFFC3, [7]) := by decide

/-- (5') MEMORY, jpeg/lossless: every allocation up to the first Huffman symbol (segment payloads,
    Huffman values, scan byte buffer, sample planes, output buffer) is at most len(input), or 65533
    (a ReadSegment that fails after allocating), or 8·w·h for the frame header in force at the scan —
    i.e. ≤ c₁·len + 8·S -/
theorem c09_jll_allocs (bs : Bytes) (hb : IsBytes bs) :
    ∀ a ∈ (jllDecode bs).1.allocs, a ≤ bs.length ∨ a ≤ 65533 ∨
      a ≤ 8 * ((jllDecode bs).1.width * (jllDecode bs).1.height) := jllDecode_allocs bs hb

/-- (5'') MEMORY, JPEG-LS lossless: likewise, with the sample buffer 8·w·h·comps -/
theorem c09_jls_allocs (bs : Bytes) (hb : IsBytes bs) :
    ∀ a ∈ (JlsH.header bs).1.allocs, a ≤ bs.length ∨ a ≤ 65533 ∨
      a ≤ 8 * ((JlsH.header bs).1.width * (JlsH.header bs).1.height * (JlsH.header bs).1.comps) :=
  JlsH.header_allocs bs hb

/-- (5c) MEMORY, lossless14sv1: with the second frame header rejected (commit 7825a71) every
    allocation up to the first Huffman symbol (segment payloads, Huffman values, the component planes
    allocated by parseSOF3, also by a frame header that is rejected after its extent was read, scan
    buffer, output buffer) is at most len(input), or 65533, or 8·w·h of the decoder's frame header -/
theorem c09_sv1_allocs (bs : Bytes) (hb : IsBytes bs) :
    ∀ a ∈ (sv1Decode bs).1.allocs, a ≤ bs.length ∨ a ≤ 65533 ∨
      a ≤ 8 * ((sv1Decode bs).1.width * (sv1Decode bs).1.height) := sv1Decode_allocs bs hb

/-- (5d) MEMORY, baseline: likewise with 64·w·h (component planes are whole 8×8 blocks of the MCU
    grid: ⌈w·H/(8·Hmax)⌉·⌈h·V/(8·Vmax)⌉·64 ≤ 64·w·h) -/
theorem c09_baseline_allocs (bs : Bytes) (hb : IsBytes bs) :
    ∀ a ∈ (blDecode bs).1.allocs, a ≤ bs.length ∨ a ≤ 65533 ∨
      a ≤ 64 * ((blDecode bs).1.width * (blDecode bs).1.height) := blDecode_allocs bs hb

/-- (5e) MEMORY, JPEG-LS near-lossless: the context table and the sample buffer are allocated at SOS,
    once NEAR is known — same bound as the lossless decoder -/
theorem c09_jlsnear_allocs (bs : Bytes) (hb : IsBytes bs) :
    ∀ a ∈ (JlsH.nheader bs).1.allocs, a ≤ bs.length ∨ a ≤ 65533 ∨
      a ≤ 8 * ((JlsH.nheader bs).1.width * (JlsH.nheader bs).1.height * (JlsH.nheader bs).1.comps) :=
  JlsH.nheader_allocs bs hb

example : IsBytes [0xff, 0xd8, 0xff, 0xc3] := by unfold IsBytes; decide

end JM

namespace J2kH
open PC

/-- (6) one turn of consumeMainHeader / parseTileHeader / the tile loop leaves strictly fewer unread
    bytes — also for skipSegment with the length fields 0 and 1, which move the Go offset BACK into
    the length field, and for tile data delimited by Psot or by the marker scan -/
theorem c09_j2k_turn (st st' : St) (bs r : Bytes) (h : step st bs = .more st' r) : r.length < bs.length := step_lt h

theorem c09_j2k_turns (st : St) (bs : Bytes) : turns step step_lt st bs ≤ bs.length + 1 := turns_le _ _ st bs

/-- (6') the backwards step is real: length field 0 consumes nothing behind the marker -/
theorem c09_skip_backwards : skipSegment [0, 0, 9, 9] = some 0 := by decide

/-- (7) MEMORY: the allocations of the whole header walk (main header and all tile-part headers)
    add up to at most 2·len(input) + 196605 bytes -/
theorem c09_j2k_alloc_sum (bs : Bytes) (hb : IsBytes bs) : (parse bs).1.allocs.sum ≤ 2 * bs.length + 196605 :=
  parse_alloc_sum bs hb

example : IsBytes [0xff, 0x4f, 0xff, 0x51] := by unfold IsBytes; decide

/-- (7') TIME, decomposition levels: every COD segment the parser accepts declares at most 32 decomposition levels
    (guard `numLevels > 32` of parseCodingStyleParams, T.800 Table A.15) — element 4 of the canonical COD content
    `[scod, prog, layers, mct, levels, …]`; so every per-resolution loop of the tile and packet decoders makes at
    most 33 turns per component, whatever the level byte of the stream (it was 0..255: class c09-j2k-levels-over-32) -/
theorem c09_j2k_cod_levels_le_32 (bs : Bytes) (c : List Nat) (k : Nat) (h : parseCOD bs = some (c, k)) :
    ∃ lv, c[4]? = some lv ∧ lv ≤ 32 := parseCOD_levels h

/-- (7'') the same for every accepted COC segment (content `[scoc, levels, …]`), for every Csiz -/
theorem c09_j2k_coc_levels_le_32 (csiz : Nat) (bs : Bytes) (comp : Nat) (c : List Nat) (k : Nat)
    (h : parseCOC csiz bs = some (comp, c, k)) : ∃ lv, c[1]? = some lv ∧ lv ≤ 32 := parseCOC_levels h

/-- non-vacuity: a COD with 32 levels is accepted; the former witness's COD (255 levels) and one with 33 are rejected -/
example : parseCOD [0, 12, 0, 2, 0, 1, 0, 32, 4, 4, 0, 1] = some ([0, 2, 1, 0, 32, 4, 4, 0, 1], 12) := by decide
example : parseCOD [0, 12, 0, 2, 0, 1, 0, 255, 4, 4, 0, 1] = none := by decide
example : parseCOD [0, 12, 0, 2, 0, 1, 0, 33, 4, 4, 0, 1] = none := by decide
example : parseCOC 3 [0, 9, 0, 0, 32, 4, 4, 0, 1] = some (0, [0, 32, 4, 4, 0, 1], 9) := by decide
example : parseCOC 3 [0, 9, 0, 0, 40, 4, 4, 0, 1] = none := by decide

end J2kH

namespace Rle

/-- (8) decodeFrame allocates exactly one buffer, the frame, and only for accepted descriptions -/
theorem rle_alloc_is_frame (i : Info) (data : List Byte) :
    ∀ a ∈ (decodeFrameC i data).2, a = i.frameSize ∧ ¬ i.Rejected := decodeFrameC_allocs i data

/-- (9) FULL: every allocation of `Codec.decodeFrame` is at most 15·S + 1 bytes, S = Width·Height·
    SamplesPerPixel as declared by the FrameInfo — for EVERY FrameInfo and byte string (commit
    9650374; before it BitsAllocated = 0 made it 8192·S) -/
theorem rle_alloc_bound (i : Info) (data : List Byte) : ∀ a ∈ (decodeFrameC i data).2, a ≤ 15 * i.samples + 1 := by
  intro a ha
  obtain ⟨h1, h2⟩ := decodeFrameC_allocs i data a ha
  rw [h1]
  exact frameSize_le_samples i h2

/-- regression anchor: the former witness (2048×2048, BitsAllocated 0: 32 GiB) allocates nothing now -/
example : (decodeFrameC { width := 2048, height := 2048, bitsAllocated := 0, spp := 1, planar := 0 } [1]).2 = [] := by
  decide

/-- non-vacuity: an accepted description does allocate its frame -/
example : (decodeFrameC { width := 3, height := 2, bitsAllocated := 16, spp := 1, planar := 0 } [1]).2 = [12] := by
  decide

end Rle

/-! ### JPEG 2000 tile decoder: header-derived buffer sizes (generated kernel of `t2.NewTileDecoder`) -/
namespace TileClamp
open Gen.J2kTileClamp

/-- (10) FULL over the generated kernel: whatever SIZ and tile index, the rectangle `NewTileDecoder` stores
    lies inside the image area [XOsiz, Xsiz) × [YOsiz, Ysiz) and inside one XTsiz × YTsiz cell -/
theorem c09_tile_rect (tile : Tile) (siz : SIZSegment) (ht : Bool) :
    let td := NewTileDecoder tile siz ht
    (siz.XOsiz ≤ td.tileX0 ∧ siz.YOsiz ≤ td.tileY0 ∧ td.tileX1 ≤ siz.Xsiz ∧ td.tileY1 ≤ siz.Ysiz) ∧
    (td.tileX1 - td.tileX0 ≤ siz.XTsiz ∧ td.tileY1 - td.tileY0 ≤ siz.YTsiz) :=
  ⟨tile_inside_image tile siz ht, tile_within_cell tile siz ht⟩

/-- (11) every component buffer of `TileDecoder.Decode` (`comp.width·comp.height` entries) is at most the
    DECLARED image area and at most one tile cell — independent of the position of the image on the
    reference grid; this is what keeps S-bounded memory for images with large XOsiz/YOsiz -/
theorem c09_tile_comp_area (tile : Tile) (siz : SIZSegment) (ht : Bool) (dx dy : Int)
    (hox : 0 ≤ siz.XOsiz) (hoy : 0 ≤ siz.YOsiz) :
    let td := NewTileDecoder tile siz ht
    td.tileX0 ≤ td.tileX1 → td.tileY0 ≤ td.tileY1 →
    compExtent td.tileX0 td.tileX1 dx * compExtent td.tileY0 td.tileY1 dy
        ≤ (siz.Xsiz - siz.XOsiz) * (siz.Ysiz - siz.YOsiz) ∧
    compExtent td.tileX0 td.tileX1 dx * compExtent td.tileY0 td.tileY1 dy ≤ siz.XTsiz * siz.YTsiz :=
  comp_area_le tile siz ht dx dy hox hoy

end TileClamp

/-! ### JPEG 2000 packet bodies: the length hand-over decodePacket → gatherCBData -/
namespace PktBody

/-- (12) every code-block buffer `gatherCBData` allocates for a packet is at most the packet's body, and the
    body is at most the tile data that was left when the packet's header had been read — whatever lengths the
    header declares (up to 2^32−1 per segment), in every mode, also through the end-of-data `break` of
    `decodePacket` that hands the declared lengths over untrimmed -/
theorem c09_cb_buffer_le_tile_data (total : Nat) (mode : Mode) (off : Nat) (cs : List Incl) (r : BodyRes)
    (h : bodyLoop total mode off cs = some r) (hoff : off ≤ total) (ncb : Nat) :
    (∀ a ∈ gatherAllocs r.body ncb 0 0 r.incls, a ≤ r.body) ∧ r.body ≤ total - off ∧
    (gatherAllocs r.body ncb 0 0 r.incls).sum ≤ total - off := by
  obtain ⟨e1, e2, _⟩ := bodyLoop_body total mode off cs r h
  have s := gatherAllocs_sum r.body ncb 0 0 r.incls
  have := e2 hoff
  exact ⟨gatherAllocs_le _ _ _ _ _, by omega, by omega⟩

/-- (13) over a whole tile: all code-block buffers together are at most the tile data -/
theorem c09_tile_cb_buffers_le_tile_data (total : Nat) (mode : Mode) (ps : List Pkt) (rs : List PktRes)
    (h : decodeSeq total mode 0 ps = some rs) : (tileAllocs rs).sum ≤ total :=
  decodeSeq_sum total mode 0 ps rs h

/-- the seeded witness's shape: a 5-byte header is all of the tile data and declares 0x22000000 bytes: the walk
    breaks at once, the declared length survives — and nothing is allocated for it -/
example : (bodyLoop 5 .default 5 [{ included := true, len := 0x22000000 }]) =
    some { incls := [{ included := true, len := 0x22000000 }], body := 0, off := 5, partialBuf := true } := by decide
example : gatherAllocs 0 1 0 0 [{ included := true, len := 0x22000000 }] = [] := by decide

/-- non-vacuity: 3 body bytes behind the header, 1000 declared: trimmed to 3, one buffer of 3 bytes -/
example : (bodyLoop 8 .default 5 [{ included := true, len := 1000 }]) =
    some { incls := [{ included := true, len := 3 }], body := 3, off := 8, partialBuf := false } := by decide
example : gatherAllocs 3 1 0 0 [{ included := true, len := 3 }] = [3] := by decide

end PktBody

namespace J2kGlue
open J2k J2kPH

/-- (14) TIME, claimed coding passes: a code-block whose packet headers claim 91 or more coding passes in total —
    whatever QCD, the zero-bit-plane count, the data and the block size — is never handed to the T1 decoder by
    `buildAndDecodeCodeBlocks` (guard `info.maxBitplane >= 31`, repair of class c09-time-j2k-claimed-coding-passes):
    it is left at zero.  Below that the starting bit-plane is at most 30, so T1 runs at most 3·31 passes per block
    (before the repair a 64 KiB stream made it run 2.6 million). -/
theorem c09_claimed_passes_not_decoded (w h orient nb : Nat) (i : Incl) (data : List Nat) (hp : 91 ≤ i.numPasses) :
    t1Decode w h orient nb i data = some (List.replicate (w * h) 0) :=
  t1Decode_claimed_passes_zero w h orient nb i data hp

/-- the former witness's shape: 2664672 claimed passes for a 64x64 block with QCD 9 bit-planes; and the boundary:
    90 passes give 30 bit-planes (decoded), 91 give 31 (dropped) -/
example : estimateMaxBitplane 2664672 0 9 = 888224 := by decide
example : estimateMaxBitplane 90 0 9 = 30 := by decide
example : estimateMaxBitplane 91 0 9 = 31 := by decide

end J2kGlue

namespace J2kProg

/-- (15) TIME, LRCP without precincts: `decLRCPx` is decodeLRCP WITH the exit `if visited == 0 { return }` at the end
    of a layer (repair of class c09-time-j2k-no-precinct-loop).  SOUND: it generates exactly the packet sequence of
    the loop without the exit, for every precinct table, layer, resolution and component count — what a pass visits
    does not depend on the layer, so the skipped layers contribute nothing. -/
theorem c09_lrcp_exit_sound (nL nR nC : Nat) (idx : Nat → Nat → List Nat) :
    decLRCPx nR nC idx (range nL) = decLRCP nL nR nC idx := decLRCPx_eq_decLRCP nL nR nC idx

/-- (15') the same for decodeRLCP with `if visited == 0 { break }` at the end of a layer of one resolution -/
theorem c09_rlcp_exit_sound (nL nR nC : Nat) (idx : Nat → Nat → List Nat) :
    decRLCPx nL nR nC idx = decRLCP nL nR nC idx := decRLCPx_eq_decRLCP nL nR nC idx

/-- (15'') BOUNDED: with no precinct in any (component, resolution) the repaired LRCP loop ends after its first
    layer pass, whatever the declared layer count (it made layers x resolutions x components turns) -/
theorem c09_lrcp_no_precinct (nR nC : Nat) (idx : Nat → Nat → List Nat) (h : ∀ c r, idx c r = []) (ls : List Nat) :
    decLRCPx nR nC idx ls = [] := decLRCPx_no_precinct nR nC idx h ls

/-- non-vacuity: a table with precincts (2 layers, 2 resolutions, 1 component, precincts 0,1 at resolution 1 only) -/
example : decLRCPx 2 1 (fun _ r => if r = 1 then [0, 1] else []) (range 2) =
    [(0, 1, 0, 0), (0, 1, 0, 1), (1, 1, 0, 0), (1, 1, 0, 1)] := by decide
example : decRLCPx 2 2 1 (fun _ r => if r = 1 then [0, 1] else []) =
    [(0, 1, 0, 0), (0, 1, 0, 1), (1, 1, 0, 0), (1, 1, 0, 1)] := by decide

end J2kProg

/-! ### the sized `make`s of the decode path (generated table `Gen.Facts.decodeMakes`, gofacts/allocs.go) -/
namespace C09Makes

/-- (14) every `make` of the decode path whose size expression is a product of two or more non-constant
    factors (local variables resolved) is one of the reviewed expressions of Lemmas/C09MakeSites.lean —
    each bounded by the frame dimensions, a block extent or a code-block grid, none a product of
    header-declared counts; regenerated from the source on every run -/
theorem c09_decode_make_products : Gen.Facts.decodeMakeProducts = reviewed.map (fun r => (r.1, r.2.1, r.2.2.1)) ∧
    (∀ r ∈ reviewed, r.2.2.2 = "dims" ∨ r.2.2.2 = "block" ∨ r.2.2.2 = "grid") ∧
    Gen.Facts.decodeMakes.length ≥ 100 ∧ Gen.Facts.decodePathFunctions ≥ 200 :=
  ⟨c09_make_products_reviewed, c09_no_header_count_product, c09_makes_scanned⟩

end C09Makes
