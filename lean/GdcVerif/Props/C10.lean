import GdcVerif.Model.Frames
import GdcVerif.Gen.Facts
/-!
  C10 — DICOM codec contract: frames map 1:1, in order, independently, deterministically; inputs
  unmodified; decoded frame length.

  * abstract refinement theorems over the field language of `Model/Frames.lean` (read/write/kill sets are
    computed from the step and proved sound there — they are not hypotheses);
  * the instance: `Gen.Facts` (regenerated from the Go source by `gofacts` on every run) classifies every
    field of jpeg2000.Encoder / jpeg2000.Decoder; a field-level skeleton of `Decoder.Decode` is tied to those
    facts by `decide` (same classes for all 19 fields), the leak is exhibited on it, and the repaired skeleton
    refines `map`;
  * the decoded-frame-length theorems over the code-shaped adapter model (tied to the real adapters by the
    `c10-declen` correspondence lines).
-/
namespace C10
open Frames Frames.Cmd

/-! ### abstract refinement -/

/-- (1) refinement: a step whose every exposed read is of a never-written field maps frames one by one -/
theorem frames_run_eq_map {F V Fr : Type} [DecidableEq F] (c : Cmd F V Fr) (h : Refines c)
    (s0 : F → V) (fs : List Fr) : runFrames c s0 fs = fs.map (frameFn c s0) := run_eq_map c h s0 fs

/-- (2) exactly one output per input frame -/
theorem frames_one_output_per_input {F V Fr : Type} [DecidableEq F] (c : Cmd F V Fr) (h : Refines c)
    (s0 : F → V) (fs : List Fr) : (runFrames c s0 fs).length = fs.length := by
  rw [run_eq_map c h]; exact List.length_map ..

/-- (3) same order, and output i depends only on frame i (and the configuration `s0`) -/
theorem frames_output_depends_only_on_own_frame {F V Fr : Type} [DecidableEq F] (c : Cmd F V Fr)
    (h : Refines c) (s0 : F → V) (fs : List Fr) (i : Nat) (hi : i < fs.length) :
    (runFrames c s0 fs)[i]? = some (frameFn c s0 fs[i]) := by
  rw [run_eq_map c h]; simp [hi]

/-- (4) not on earlier calls made on the same object: any two states that agree on the configuration
    (the never-written fields) — e.g. a fresh object and one that has already processed any history —
    produce the same outputs -/
theorem frames_history_independent {F V Fr : Type} [DecidableEq F] (c : Cmd F V Fr) (h : Refines c)
    (s1 s2 : F → V) (hc : ∀ f, f ∉ c.writes → s1 f = s2 f) (fs : List Fr) :
    runFrames c s1 fs = runFrames c s2 fs := by
  rw [run_eq_map_aux c h s2 s1 hc, run_eq_map c h s2]

/-- (5) permutations, sub-sequences and repetitions of the frames commute with the codec -/
theorem frames_permutation {F V Fr : Type} [DecidableEq F] (c : Cmd F V Fr) (h : Refines c)
    (s0 : F → V) {fs gs : List Fr} (hp : fs.Perm gs) : (runFrames c s0 fs).Perm (runFrames c s0 gs) := by
  rw [run_eq_map c h, run_eq_map c h]; exact hp.map _

theorem frames_subsequence {F V Fr : Type} [DecidableEq F] (c : Cmd F V Fr) (h : Refines c)
    (s0 : F → V) {fs gs : List Fr} (hp : fs.Sublist gs) : (runFrames c s0 fs).Sublist (runFrames c s0 gs) := by
  rw [run_eq_map c h, run_eq_map c h]; exact hp.map _

theorem frames_repetition {F V Fr : Type} [DecidableEq F] (c : Cmd F V Fr) (h : Refines c)
    (s0 : F → V) (n : Nat) (fr : Fr) :
    runFrames c s0 (List.replicate n fr) = List.replicate n (frameFn c s0 fr) := by
  rw [run_eq_map c h]; exact List.map_replicate

/-- (6) semantic form for caches: an invariant that is preserved and under which the output does not
    depend on the state gives the same conclusion (used for the encoder's qcd* memo fields) -/
theorem frames_memo_invariant {St Fr Out : Type} (m : Machine St Fr Out) (Good : St → Prop) (s0 : St)
    (h0 : Good s0) (hpres : ∀ s fr, Good s → Good (m.step s fr).1)
    (hout : ∀ s fr, Good s → (m.step s fr).2 = (m.step s0 fr).2) (fs : List Fr) :
    m.run s0 fs = fs.map (fun fr => (m.step s0 fr).2) :=
  Machine.run_eq_map_of_inv m Good s0 hpres hout s0 h0 fs

/-! ### field classes, computed from a step exactly as gofacts computes them from the Go code -/

def allReads {F V Fr : Type} : Cmd F V Fr → List F
  | .skip => []
  | .set _ e => e.reads
  | .out e => e.reads
  | .seq a b => allReads a ++ allReads b
  | .ite c _ a b => c.reads ++ allReads a ++ allReads b

def classOf {V Fr : Type} (c : Cmd String V Fr) (f : String) : String :=
  if f ∉ c.writes then "config"
  else if f ∈ c.exposed then "leaky"
  else if f ∈ allReads c then "killed" else "writeonly"

/-- no leaky field ⇒ the step refines `map` -/
theorem refines_of_no_leaky_class {V Fr : Type} (c : Cmd String V Fr)
    (h : ∀ f, f ∈ c.exposed → classOf c f ≠ "leaky") : Refines c := by
  intro f hf hw
  have := h f hf
  unfold classOf at this
  simp [hw, hf] at this

/-! ### the Decoder skeleton (jpeg2000/decoder.go Decode, field granularity) -/

abbrev V := List Nat
/-- a frame (codestream) abstracted to what the field logic looks at:
    [hasROIcom, hasMCT, hasMCC, payload…] -/
abbrev Fr := List Nat

def nonEmpty (v : V) : Bool := !v.isEmpty
def flag (i : Nat) (cs : V) : Bool := cs.getD i 0 != 0
def mix (a b : V) : V := a ++ b
infixr:60 " ;; " => Cmd.seq

/-- Decode, statement by statement (decoder.go): parse → extractImageParameters → captureROIShifts →
    extractROIFromCOM → extractMCTFromMarkers → extractBindings → resolveROI → decodeTiles
    (→ applyInverseTransforms → applyInverseDCLevelShift) → GetPixelData -/
def decoderModel : Cmd String V Fr :=
  .set "cs" (.frm id) ;;
  .set "width" (.fld "cs") ;; .set "height" (.fld "cs") ;; .set "components" (.fld "cs") ;;
  .set "bitDepth" (.fld "cs") ;; .set "isSigned" (.fld "cs") ;;
  -- captureROIShifts: `if d.cs == nil || d.cs.SIZ == nil { return }`
  .ite (.fld "cs") List.isEmpty .skip
    (.set "roiShifts" (.app mix (.fld "components") (.fld "cs")) ;; .set "roiSrgn" (.app mix (.fld "components") (.fld "cs"))) ;;
  -- extractROIFromCOM: keeps a config that is already there, else takes the stream's
  .ite (.fld "roiConfig") nonEmpty .skip
    (.ite (.fld "cs") (flag 0) (.set "roiConfig" (.fld "cs")) .skip) ;;
  -- extractMCTFromMarkers: only assigns when the stream carries MCT / JP2MCT
  .ite (.fld "cs") (flag 1)
    (.set "mctInverse" (.app mix (.fld "cs") (.fld "components")) ;; .set "mctOffsets" (.app mix (.fld "cs") (.fld "components")) ;;
      .ite (.app mix (.fld "mctInverse") (.fld "mctOffsets")) nonEmpty .skip .skip) .skip ;;
  -- extractBindings: `d.bindings = append(d.bindings, b)`
  .ite (.fld "cs") (flag 2) (.set "bindings" (.app mix (.fld "bindings") (.fld "cs"))) .skip ;;
  -- resolveROI
  .set "RoiRects" (.cst []) ;;
  .ite (.fld "roiConfig") nonEmpty
    (.set "roiShifts" (.app mix (.fld "roiConfig") (.app mix (.fld "width") (.app mix (.fld "height") (.fld "components")))) ;;
      .set "RoiRects" (.fld "roiConfig") ;; .set "roiMasks" (.fld "roiConfig") ;; .set "roiSrgn" (.fld "roiShifts"))
    (.ite (.fld "roi") nonEmpty
      (.set "roiShifts" (.app mix (.fld "roi") (.fld "components")) ;; .set "roiSrgn" (.fld "components") ;;
        .set "RoiRects" (.fld "roi") ;; .set "roiMasks" (.app mix (.fld "roi") (.app mix (.fld "width") (.fld "height"))))
      .skip) ;;
  -- decodeTiles, applyInverseTransforms, applyInverseDCLevelShift
  .set "data" (.app mix (.fld "cs") (.app mix (.fld "roiShifts") (.app mix (.fld "roiSrgn")
      (.app mix (.fld "RoiRects") (.app mix (.fld "roiMasks") (.app mix (.fld "blockDecoderFactory") (.fld "components"))))))) ;;
  .set "data" (.app mix (.fld "data") (.app mix (.fld "bindings") (.app mix (.fld "mctInverse")
      (.app mix (.fld "mctOffsets") (.app mix (.fld "width") (.app mix (.fld "height") (.fld "components"))))))) ;;
  .set "data" (.app mix (.fld "data") (.app mix (.fld "bitDepth") (.app mix (.fld "isSigned") (.fld "components")))) ;;
  .out (.fld "data")

/-- TIE: the skeleton and the Go source agree on the class of every one of the Decoder's fields
    (the right-hand side is regenerated from /repo on every run) -/
theorem decoder_model_matches_facts :
    Gen.Facts.decoderFieldClass.map (fun p => (p.1, classOf decoderModel p.1)) = Gen.Facts.decoderFieldClass := by
  decide

/-- the Decoder fields that carry state from one Decode call into the next -/
theorem decoder_leaky_fields :
    (Gen.Facts.decoderFieldClass.filter (fun p => p.2 == "leaky")).map (·.1) =
      ["roiConfig", "roiShifts", "roiSrgn", "roiMasks", "mctInverse", "mctOffsets", "bindings"] := by decide

/-- FINDING (decoder state leak), on the skeleton: after a stream with MCC markers, decoding a second
    stream on the same object does not give what a fresh object gives -/
theorem decoder_reuse_counterexample :
    runFrames decoderModel (fun _ => []) [[0, 0, 1, 7], [0, 0, 1, 9]] ≠
      [[0, 0, 1, 7], [0, 0, 1, 9]].map (frameFn decoderModel (fun _ => [])) := by decide

/-- the repaired skeleton: Decode resets the stream-derived fields first (`d.bindings = nil`,
    `d.mctInverse = nil`, `d.mctOffsets = nil`, `d.roiMasks = nil`), keeps a stream-derived ROI
    configuration apart from the caller's (`roiFromStream`), and builds the shift tables unconditionally -/
def decoderModelRepaired : Cmd String V Fr :=
  .set "cs" (.frm id) ;;
  .set "bindings" (.cst []) ;; .set "mctInverse" (.cst []) ;; .set "mctOffsets" (.cst []) ;;
  .set "roiMasks" (.cst []) ;; .set "roiFromStream" (.cst []) ;;
  .set "width" (.fld "cs") ;; .set "height" (.fld "cs") ;; .set "components" (.fld "cs") ;;
  .set "bitDepth" (.fld "cs") ;; .set "isSigned" (.fld "cs") ;;
  .set "roiShifts" (.app mix (.fld "components") (.fld "cs")) ;; .set "roiSrgn" (.app mix (.fld "components") (.fld "cs")) ;;
  .ite (.fld "roiConfig") nonEmpty (.set "roiFromStream" (.fld "roiConfig"))
    (.ite (.fld "cs") (flag 0) (.set "roiFromStream" (.fld "cs")) .skip) ;;
  .ite (.fld "cs") (flag 1)
    (.set "mctInverse" (.app mix (.fld "cs") (.fld "components")) ;; .set "mctOffsets" (.app mix (.fld "cs") (.fld "components"))) .skip ;;
  .ite (.fld "cs") (flag 2) (.set "bindings" (.app mix (.fld "bindings") (.fld "cs"))) .skip ;;
  .set "RoiRects" (.cst []) ;;
  .ite (.fld "roiFromStream") nonEmpty
    (.set "roiShifts" (.app mix (.fld "roiFromStream") (.app mix (.fld "width") (.app mix (.fld "height") (.fld "components")))) ;;
      .set "RoiRects" (.fld "roiFromStream") ;; .set "roiMasks" (.fld "roiFromStream") ;; .set "roiSrgn" (.fld "roiShifts"))
    (.ite (.fld "roi") nonEmpty
      (.set "roiShifts" (.app mix (.fld "roi") (.fld "components")) ;; .set "roiSrgn" (.fld "components") ;;
        .set "RoiRects" (.fld "roi") ;; .set "roiMasks" (.app mix (.fld "roi") (.app mix (.fld "width") (.fld "height"))))
      .skip) ;;
  .set "data" (.app mix (.fld "cs") (.app mix (.fld "roiShifts") (.app mix (.fld "roiSrgn")
      (.app mix (.fld "RoiRects") (.app mix (.fld "roiMasks") (.app mix (.fld "blockDecoderFactory") (.fld "components"))))))) ;;
  .set "data" (.app mix (.fld "data") (.app mix (.fld "bindings") (.app mix (.fld "mctInverse")
      (.app mix (.fld "mctOffsets") (.app mix (.fld "width") (.app mix (.fld "height") (.fld "components"))))))) ;;
  .set "data" (.app mix (.fld "data") (.app mix (.fld "bitDepth") (.app mix (.fld "isSigned") (.fld "components")))) ;;
  .out (.fld "data")

theorem decoder_repaired_refines : Refines decoderModelRepaired := by decide

/-- with the repair every frame sequence decodes frame by frame, whatever the object decoded before -/
theorem decoder_repaired_run_eq_map (s0 : String → V) (fs : List Fr) :
    runFrames decoderModelRepaired s0 fs = fs.map (frameFn decoderModelRepaired s0) :=
  run_eq_map _ decoder_repaired_refines s0 fs

/-! ### the Encoder: facts -/

/-- every Encoder field is configuration, killed before read, or one of the named fields -/
theorem encoder_leaky_fields :
    (Gen.Facts.encoderFieldClass.filter (fun p => p.2 == "leaky")).map (·.1) =
      ["params", "qcdReady", "qcdStyle", "qcdGuard", "qcdExpn", "qcdSteps"] := by decide

/-- the per-image scratch fields named in the property are killed before they are read -/
theorem encoder_scratch_fields_killed :
    ["data", "irreversibleMCTData", "roiShifts", "RoiRects", "roiStyles", "roiMasks",
      "openJPEGMainHeaderBytes", "openJPEGNumTiles"].all
      (fun f => Gen.Facts.encoderFieldClass.contains (f, "killed")) = true := by decide

/-- the qcd* fields form a memo: `quantizationInfo` is their only writer and it reads nothing but
    `params` and the memo itself — so the cached value is a function of the configuration -/
theorem encoder_qcd_is_memo_of_params :
    (["qcdReady", "qcdStyle", "qcdGuard", "qcdExpn", "qcdSteps"].all (fun f =>
        Gen.Facts.encoderFieldWriters.contains (f, [("(*Encoder).quantizationInfo", "whole")]))) = true ∧
    (Gen.Facts.encoderWriterReads.filter (fun p => p.1 == "(*Encoder).quantizationInfo")).map (·.2) =
      [["params", "qcdExpn", "qcdGuard", "qcdReady", "qcdSteps", "qcdStyle"]] := by decide

/-- the `params` object is written in exactly these places (a normalisation `NumLayers = 1` that
    `validateParams` makes unreachable, and ROI helpers that receive `params.ROIConfig`) -/
theorem encoder_params_content_stores :
    (Gen.Facts.encoderContentStores.filter (fun p => p.1 == "params")).map (fun p => (p.2.1, p.2.2.1)) =
      [("NumLayers", "(*Encoder).applyRateDistortionGlobal"), ("ROIConfig", "(*Encoder).resolveROI"),
       ("ROIConfig", "(*Encoder).resolveROI")] := by decide

/-- abstract encoder with a memo: once `Good` (cache empty or holding the value computed from the
    configuration) the output never depends on the cache -/
example : ∀ (fs : List Nat),
    let m : Machine (Nat × Option Nat) Nat Nat :=
      ⟨fun s fr => let q := s.2.getD (s.1 * 2); ((s.1, some q), fr + q)⟩
    m.run (5, none) fs = fs.map (fun fr => fr + 10) := by
  intro fs m
  have := frames_memo_invariant m (fun s => s.1 = 5 ∧ (s.2 = none ∨ s.2 = some 10)) (5, none)
    ⟨rfl, Or.inl rfl⟩
    (by intro s fr ⟨h1, h2⟩; refine ⟨h1, Or.inr ?_⟩; cases h2 with
        | inl h => simp [m, h, h1]
        | inr h => simp [m, h])
    (by intro s fr ⟨h1, h2⟩; cases h2 with
        | inl h => simp [m, h, h1]
        | inr h => simp [m, h])
    fs
  simpa [m] using this

/-! ### inputs unmodified -/

/-- no Encode* function of the library stores a byte through the caller's pixel data -/
theorem encode_inputs_unmodified :
    Gen.Facts.inputParamStores = [] ∧ 15 ≤ (Gen.Facts.inputParams.filter (fun p => p.2.2.2)).length := by
  decide

/-- nothing in the library part of the analysis is unclassified -/
theorem facts_no_unknown_in_library : Gen.Facts.unknowns.filter (fun u => u.2.2.2) = [] := by decide

/-! ### decoded frame length -/

/-- the frame-length clause holds for a codec kind and FrameInfo -/
def LengthOK (k : Kind) (i : Info) : Prop :=
  decodedLen k i = some (if k = .rle then expectedLen i + expectedLen i % 2 else expectedLen i)

instance (k : Kind) (i : Info) : Decidable (LengthOK k i) := by unfold LengthOK; exact inferInstance

def length_FullStatement : Prop :=
  ∀ k i, i.InScope → (decodedLen k i).isSome → LengthOK k i

/-- FINDING: BitsStored is passed as the depth — a 16-bit-allocated frame with BitsStored ≤ 8 comes
    back half size (lossless JPEG, 2×2) -/
theorem length_counterexample_bits_stored :
    let i : Info := ⟨2, 2, 1, 16, 8⟩
    i.InScope ∧ decodedLen .jpegll i = some 4 ∧ expectedLen i = 8 := by decide

/-- FINDING: 8-bit grayscale JPEG Extended returns the MCU-padded image/jpeg buffer -/
theorem length_counterexample_extended_padding :
    let i : Info := ⟨9, 7, 1, 8, 8⟩
    i.InScope ∧ decodedLen .extended i = some 128 ∧ expectedLen i = 63 := by decide

theorem length_FullStatement_false : ¬ length_FullStatement := by
  intro h
  have := h .jpegll ⟨2, 2, 1, 16, 8⟩ (by decide) (by decide)
  exact absurd this (by decide)

/-- RLE and HTJ2K size the container from BitsAllocated: always the required length -/
theorem length_rle_htj2k (i : Info) (hs : i.InScope) : LengthOK .rle i ∧ LengthOK .htj2k i := by
  obtain ⟨hba, _, _, _, _, _⟩ := hs
  unfold LengthOK decodedLen expectedLen
  rcases hba with h | h <;> simp [h]

/-- the codecs that pass BitsStored down are right exactly when ⌈BitsStored/8⌉ = ⌈BitsAllocated/8⌉ -/
theorem length_partial (k : Kind) (hk : k = .jpegll ∨ k = .jls ∨ k = .j2k) (i : Info) (hs : i.InScope) :
    LengthOK k i ↔ ¬ (i.ba = 16 ∧ i.bs ≤ 8) := by
  obtain ⟨hba, h1, h2, hspp, hw, hh⟩ := hs
  have hpos : 0 < i.w * i.h * i.spp := by
    rcases hspp with h | h <;> simp [h, Nat.mul_pos hw hh]
  generalize hn : i.w * i.h * i.spp = n at hpos
  have key : ∀ a b : Nat, n * a = n * b ↔ a = b := fun a b =>
    ⟨fun h => Nat.eq_of_mul_eq_mul_left hpos h, fun h => by rw [h]⟩
  unfold LengthOK decodedLen expectedLen
  rcases hk with rfl | rfl | rfl <;> rcases hba with hb | hb
  all_goals simp only [hb, hn] at h2 ⊢
  all_goals simp
  · have : (i.bs + 7) / 8 = 1 := by omega
    rw [this, Nat.mul_one]
  · rw [key]; omega
  · have h8 : i.bs ≤ 8 := h2
    simp [h8]; omega
  · by_cases h8 : i.bs ≤ 8
    · have : n ≠ n * 2 := by omega
      simp [h8, this]
    · simp [h8]; omega
  · have h8 : i.bs ≤ 8 := h2
    simp [h8]
  · by_cases h8 : i.bs ≤ 8
    · have : n ≠ n * 2 := by omega
      simp [h8, this]
    · simp [h8]; omega

end C10
