import GdcVerif.Gen.JpegLs
import GdcVerif.Lemmas.JpegLs
import GdcVerif.Lemmas.JpegLsNear
import GdcVerif.Model.Golomb
import GdcVerif.Lemmas.Golomb
/-!
  C03 — JPEG-LS lossless: exact reconstruction at every bit depth (per-sample layer).

  Theorems over the GENERATED kernels of /repo/jpegls/lossless (`Gen/JpegLs.lean`):
  `Encoder.computeErrorValue`, `Traits.ComputeReconstructedSample`, `MapErrorValue`,
  `UnmapErrorValue`, `ApplySign`, `BitwiseSign`, `ComputeContextID`,
  `GradientQuantizer.ComputeContext`.

  FINDING (unchanged tree): `Encoder.computeErrorValue` narrows to int8/int16 instead of reducing
  modulo RANGE, so for P ∉ {8,16} the error value is not brought into `[−RANGE/2, RANGE/2)` and
  its mapped value overflows the qbpp-bit field of the LIMIT escape code
  (`ls_lossless_sample_exact_counterexample`).  The full statement is kept as
  `ls_lossless_sample_exact_FullStatement`; it is proved
    * for P ∈ {8,16} on the kernel as it is (`ls_lossless_sample_exact_partial`), and
    * for every P in 2..16 for ANY encoder whose `computeErrorValue` agrees with
      `Traits.ModuloRange` (`ls_lossless_sample_exact_of_reduction`) — which is what the proposed
      repair makes the kernel (then the hypothesis is closed by `fun _ => rfl`).
-/
namespace C03
open Gen.JpegLs JpegLsLemmas

/-- the lossless encoder object for precision `P` (fields the kernels read; NewEncoder) -/
def IsEncoder (enc : Encoder) (P : Nat) : Prop :=
  enc.bitDepth = P ∧ enc.maxVal = (2 : Int) ^ P - 1 ∧ enc.traits = NewTraits ((2 : Int) ^ P - 1) 0 64

instance (enc : Encoder) (P : Nat) : Decidable (IsEncoder enc P) := by unfold IsEncoder; infer_instance

/-- per-sample statement for one encoder object: for every prediction `Px`, source sample `x` and
    sign: the decoder's reconstruction from the transmitted error is `x`, and the mapped error
    (with or without the k = 0 correction XOR) fits the escape code's `qbpp`-bit field. -/
def SampleExact (enc : Encoder) (P : Nat) : Prop :=
  ∀ (Px x s : Int), (0 ≤ Px ∧ Px ≤ (2 : Int) ^ P - 1) → (0 ≤ x ∧ x ≤ (2 : Int) ^ P - 1) → (s = 1 ∨ s = -1) →
    Traits.ComputeReconstructedSample enc.traits Px (s * Encoder.computeErrorValue enc (s * (x - Px))) = x ∧
    ∀ c : Int, (c = 0 ∨ c = -1) →
      0 ≤ MapErrorValue (Go.xor c (Encoder.computeErrorValue enc (s * (x - Px)))) ∧
      MapErrorValue (Go.xor c (Encoder.computeErrorValue enc (s * (x - Px)))) - 1 < (2 : Int) ^ enc.traits.Qbpp.toNat

/-- the property's per-sample layer at full strength -/
def ls_lossless_sample_exact_FullStatement : Prop :=
  ∀ (P : Nat) (enc : Encoder), 2 ≤ P ∧ P ≤ 16 → IsEncoder enc P → SampleExact enc P

/-- (1) full strength for any encoder whose error reduction is `ModuloRange` (the proposed repair) -/
theorem ls_lossless_sample_exact_of_reduction (P : Nat) (enc : Encoder) (hP : 2 ≤ P ∧ P ≤ 16)
    (he : IsEncoder enc P)
    (hred : ∀ d : Int, -((2 : Int) ^ P) < d ∧ d < 2 ^ P →
      Encoder.computeErrorValue enc d = Traits.ModuloRange enc.traits d) :
    SampleExact enc P := by
  intro Px x s hPx hx hs
  obtain ⟨_, _, ht⟩ := he
  have hadm : JpegLsNear.Admissible P 0 := ⟨hP, by omega, by omega, by
    have : (0 : Int) < 2 ^ P := Int.pow_pos (by decide)
    omega⟩
  have hd : -((2 : Int) ^ P) < s * (x - Px) ∧ s * (x - Px) < 2 ^ P := by
    rcases hs with rfl | rfl <;> omega
  have hE : Encoder.computeErrorValue enc (s * (x - Px)) = JpegLsNear.err P 0 Px x s := by
    rw [hred _ hd, ht]
    exact (computeErrorValue_near0 _ rfl _).symm
  rw [hE, ht]
  refine ⟨JpegLsNear.near_zero_exact P hP Px x s hPx hx hs, ?_⟩
  intro c hc
  exact JpegLsNear.near_mapped_fits P 0 hadm Px x s hPx hx hs c hc

/-- (2) full strength on the repaired kernel: `Encoder.computeErrorValue` IS `Traits.ModuloRange` -/
theorem ls_lossless_sample_exact : ls_lossless_sample_exact_FullStatement := by
  intro P enc hP he
  exact ls_lossless_sample_exact_of_reduction P enc hP he (fun _ _ => rfl)

/-- the 12-bit encoder object (the former counterexample) -/
def enc12 : Encoder := { width := 4, height := 1, components := 1, bitDepth := 12, maxVal := 4095,
                         traits := NewTraits 4095 0 64 }

example : IsEncoder enc12 12 ∧ Encoder.computeErrorValue enc12 (1 * (4095 - 0)) = -1 := by decide

/-- (4) the decoder's unmapping inverts the encoder's mapping (all 32-bit error values) -/
theorem map_unmap_inverse (e : Int) (h : -2147483648 ≤ e ∧ e < 2147483648) :
    UnmapErrorValue (MapErrorValue e) = e := unmap_map e h

example : UnmapErrorValue (MapErrorValue (-2048)) = -2048 := by decide

/-- (5) sign application is an involution; with sign = BitwiseSign it is multiplication by ±1 -/
theorem applySign_involutive (i s : Int) (hs : s = 0 ∨ s = -1)
    (h : -9223372036854775807 ≤ i ∧ i < 9223372036854775808) : ApplySign (ApplySign i s) s = i :=
  JpegLsLemmas.applySign_involutive i s hs h

theorem applySign_eq_mul (v qs : Int) (h : -9223372036854775807 ≤ v ∧ v < 9223372036854775808) :
    ApplySign v (BitwiseSign qs) = (if qs < 0 then -1 else 1) * v := by
  rcases bitwiseSign_cases qs with ⟨hn, hb⟩ | ⟨hn, hb⟩ <;> rw [hb]
  · rw [applySign_neg v (by unfold Go.I64; omega)]; simp [hn]
  · rw [applySign_zero v (by unfold Go.I64; omega)]
    have : ¬ qs < 0 := by omega
    simp [this]

/-- (6) context identifiers stay in range: `|qs| ≤ 364` and the table index is in `0..364`
    (the table has 365 entries), for every neighbourhood and every threshold set -/
theorem context_index_in_bounds (g : GradientQuantizer) (a b c d : Int) :
    let q := GradientQuantizer.ComputeContext g a b c d
    let qs := ComputeContextID q.1 q.2.1 q.2.2
    (-364 ≤ qs ∧ qs ≤ 364) ∧
      (0 ≤ ApplySign qs (BitwiseSign qs) ∧ ApplySign qs (BitwiseSign qs) ≤ 364) :=
  context_index_range g a b c d

example : ComputeContextID 4 4 4 = 364 ∧ ApplySign (-364) (BitwiseSign (-364)) = 364 := by decide

/-! ### bit writer (hand model `Model/Golomb.lean` of golomb.go, tied by `jls-gw`/`jls-emv`/`jls-dv`) -/

/-- (7) byte stuffing, also needed by C16: for EVERY sequence of `WriteBits(value, count)` calls
    (uint32 values, any counts — also counts the callers never use) followed by `Flush()`, the
    bytes written contain no 0xFF followed by a byte ≥ 0x80; the same holds for the bytes written
    at any moment before (`Golomb.Inv` is an invariant). -/
theorem golomb_writer_stuffed (ws : List (Nat × Int)) (hv : ∀ p ∈ ws, p.1 < Golomb.M32) :
    Golomb.Stuffed (Golomb.writeAll Golomb.Writer.new ws).out ∧
    Golomb.Stuffed (Golomb.finish (Golomb.writeAll Golomb.Writer.new ws)).out ∧
    (∀ b ∈ (Golomb.finish (Golomb.writeAll Golomb.Writer.new ws)).out, b < 256) :=
  ⟨(Golomb.inv_writeAll ws _ Golomb.inv_new hv).2.1,
   (Golomb.inv_finish _ (Golomb.inv_writeAll ws _ Golomb.inv_new hv)).2.1,
   (Golomb.inv_finish _ (Golomb.inv_writeAll ws _ Golomb.inv_new hv)).2.2.2⟩

example : (Golomb.finish (Golomb.writeAll Golomb.Writer.new [(255, 8), (255, 8), (1, 1)])).out = [255, 127, 192] := by
  decide

/-- (8) the same for every sequence of `EncodeMappedValue(k, mapped, limit, qbpp)` calls, whatever
    the arguments -/
theorem golomb_encode_stuffed (calls : List (Int × Int × Int × Int)) :
    Golomb.Stuffed (Golomb.finish
      (calls.foldl (fun w q => Golomb.encodeMappedValue w q.1 q.2.1 q.2.2.1 q.2.2.2) Golomb.Writer.new)).out :=
  (Golomb.inv_finish _ (Golomb.inv_encodeAll calls _ Golomb.inv_new)).2.1

example : (Golomb.finish (Golomb.encodeMappedValue Golomb.Writer.new 0 8190 48 12)).out =
    [0, 0, 0, 0, 31, 253] := by decide

/-- the limited-length Golomb code round trip at bit level (value ↦ bits ↦ value) — STATED, NOT
    PROVED here (see the registry: unproved layer); evaluated on the real writer/reader and on the
    model by the harness (`jls-emv`, `jls-dv`, class `jls-golomb-code-roundtrip`). -/
def golomb_code_roundtrip_FullStatement : Prop :=
  ∀ (k m limit qbpp : Int) (rest : List Bool), 0 ≤ k ∧ k ≤ 16 → 1 ≤ qbpp ∧ qbpp ≤ 16 →
    qbpp + 1 < limit ∧ limit ≤ 64 → 0 ≤ m ∧ m - 1 < 2 ^ qbpp.toNat →
    (Go.shr m k ≥ limit - (qbpp + 1) → 1 ≤ m) →
    Golomb.decodeValue k limit qbpp (Golomb.writesBits (Golomb.encodeWrites k m limit qbpp) ++ rest) = some (m, rest)

/-- (9) what the unreduced error of the finding does to the escape code: mapped value 8190 at
    qbpp = 12 is written as (8190−1) mod 4096 and read back as 4094 — model-level replay of the
    P = 12 witness (`ls_lossless_sample_exact_counterexample`) -/
theorem golomb_escape_truncates :
    Golomb.decodeValue 0 48 12 (Golomb.writesBits (Golomb.encodeWrites 0 8190 48 12)) = some (4094, []) := by
  decide

end C03
