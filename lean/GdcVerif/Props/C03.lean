import GdcVerif.Gen.JpegLs
import GdcVerif.Lemmas.JpegLs
import GdcVerif.Lemmas.JpegLsNear
import GdcVerif.Model.Golomb
import GdcVerif.Lemmas.Golomb
import GdcVerif.Lemmas.GolombCode
import GdcVerif.Lemmas.GolombExact
import GdcVerif.Lemmas.JpegFrames
import GdcVerif.Lemmas.JpegLsScanStep
import GdcVerif.Lemmas.JpegLsLockstep3
import GdcVerif.Lemmas.GolombReader3
import GdcVerif.Lemmas.JpegLsRunInt
import GdcVerif.Lemmas.JpegLsCtx
import GdcVerif.Lemmas.JpegLsRunCtx
/-!
  C03 — JPEG-LS lossless: exact reconstruction at every bit depth.

  Theorems over the GENERATED kernels of /repo/jpegls/lossless (`Gen/JpegLs.lean`):
  `Encoder.computeErrorValue`, `Traits.ComputeReconstructedSample`, `MapErrorValue`,
  `UnmapErrorValue`, `ApplySign`, `BitwiseSign`, `ComputeContextID`,
  `GradientQuantizer.ComputeContext`, `Context.UpdateContext`, `RunModeContext.*`,
  and over the code-shaped hand models `Model/Golomb.lean` (bit writer, limited-length Golomb code)
  and `Model/JpegLsRun.lean` (run mode), both tied to the real code by correspondence lines.

  History: until fix bb6666a `Encoder.computeErrorValue` narrowed to int8/int16 instead of reducing
  modulo RANGE, so for P ∉ {8,16} the per-sample statement was false (witness P = 12, Px = 0,
  x = 4095: mapped error 8190 did not fit qbpp = 12 bits).  The statement is now proved at full
  strength (`ls_lossless_sample_exact`); the witness is kept as an `example` (repaired behaviour)
  and `golomb_escape_truncates` documents at model level what the unreduced value did to the
  escape code.
-/
namespace C03
open Gen.JpegLs JpegLsLemmas

/-- the lossless encoder object for precision `P` (fields the kernels read; NewEncoder) -/
def IsEncoder (enc : Encoder) (P : Nat) : Prop :=
  enc.bitDepth = P ∧ enc.maxVal = (2 : Int) ^ P - 1 ∧ enc.traits = NewTraits ((2 : Int) ^ P - 1) 0 64

instance (enc : Encoder) (P : Nat) : Decidable (IsEncoder enc P) := by unfold IsEncoder; infer_instance

/-- per-sample statement for one encoder object: for every prediction `Px`, source sample `x` and
    sign: the decoder's reconstruction from the transmitted error is `x`, and the mapped error
    (with or without the k = 0 correction XOR) fits the escape code's `qbpp`-bit field. -/
def SampleExact (enc : Encoder) (P : Nat) : Prop :=
  ∀ (Px x s : Int), (0 ≤ Px ∧ Px ≤ (2 : Int) ^ P - 1) → (0 ≤ x ∧ x ≤ (2 : Int) ^ P - 1) → (s = 1 ∨ s = -1) →
    Traits.ComputeReconstructedSample enc.traits Px (s * Encoder.computeErrorValue enc (s * (x - Px))) = x ∧
    ∀ c : Int, (c = 0 ∨ c = -1) →
      0 ≤ MapErrorValue (Go.xor c (Encoder.computeErrorValue enc (s * (x - Px)))) ∧
      MapErrorValue (Go.xor c (Encoder.computeErrorValue enc (s * (x - Px)))) - 1 < (2 : Int) ^ enc.traits.Qbpp.toNat

/-- the property's per-sample layer at full strength -/
def ls_lossless_sample_exact_FullStatement : Prop :=
  ∀ (P : Nat) (enc : Encoder), 2 ≤ P ∧ P ≤ 16 → IsEncoder enc P → SampleExact enc P

/-- (1) full strength for any encoder whose error reduction is `ModuloRange` (the proposed repair) -/
theorem ls_lossless_sample_exact_of_reduction (P : Nat) (enc : Encoder) (hP : 2 ≤ P ∧ P ≤ 16)
    (he : IsEncoder enc P)
    (hred : ∀ d : Int, -((2 : Int) ^ P) < d ∧ d < 2 ^ P →
      Encoder.computeErrorValue enc d = Traits.ModuloRange enc.traits d) :
    SampleExact enc P := by
  intro Px x s hPx hx hs
  obtain ⟨_, _, ht⟩ := he
  have hadm : JpegLsNear.Admissible P 0 := ⟨hP, by omega, by omega, by
    have : (0 : Int) < 2 ^ P := Int.pow_pos (by decide)
    omega⟩
  have hd : -((2 : Int) ^ P) < s * (x - Px) ∧ s * (x - Px) < 2 ^ P := by
    rcases hs with rfl | rfl <;> omega
  have hE : Encoder.computeErrorValue enc (s * (x - Px)) = JpegLsNear.err P 0 Px x s := by
    rw [hred _ hd, ht]
    exact (computeErrorValue_near0 _ rfl _).symm
  rw [hE, ht]
  refine ⟨JpegLsNear.near_zero_exact P hP Px x s hPx hx hs, ?_⟩
  intro c hc
  exact JpegLsNear.near_mapped_fits P 0 hadm Px x s hPx hx hs c hc

/-- (2) full strength on the repaired kernel: `Encoder.computeErrorValue` IS `Traits.ModuloRange` -/
theorem ls_lossless_sample_exact : ls_lossless_sample_exact_FullStatement := by
  intro P enc hP he
  exact ls_lossless_sample_exact_of_reduction P enc hP he (fun _ _ => rfl)

/-- the 12-bit encoder object (the former counterexample) -/
def enc12 : Encoder := { width := 4, height := 1, components := 1, bitDepth := 12, maxVal := 4095,
                         traits := NewTraits 4095 0 64 }

example : IsEncoder enc12 12 ∧ Encoder.computeErrorValue enc12 (1 * (4095 - 0)) = -1 := by decide

/-- (4) the decoder's unmapping inverts the encoder's mapping (all 32-bit error values) -/
theorem map_unmap_inverse (e : Int) (h : -2147483648 ≤ e ∧ e < 2147483648) :
    UnmapErrorValue (MapErrorValue e) = e := unmap_map e h

example : UnmapErrorValue (MapErrorValue (-2048)) = -2048 := by decide

/-- (5) sign application is an involution; with sign = BitwiseSign it is multiplication by ±1 -/
theorem applySign_involutive (i s : Int) (hs : s = 0 ∨ s = -1)
    (h : -9223372036854775807 ≤ i ∧ i < 9223372036854775808) : ApplySign (ApplySign i s) s = i :=
  JpegLsLemmas.applySign_involutive i s hs h

theorem applySign_eq_mul (v qs : Int) (h : -9223372036854775807 ≤ v ∧ v < 9223372036854775808) :
    ApplySign v (BitwiseSign qs) = (if qs < 0 then -1 else 1) * v := by
  rcases bitwiseSign_cases qs with ⟨hn, hb⟩ | ⟨hn, hb⟩ <;> rw [hb]
  · rw [applySign_neg v (by unfold Go.I64; omega)]; simp [hn]
  · rw [applySign_zero v (by unfold Go.I64; omega)]
    have : ¬ qs < 0 := by omega
    simp [this]

/-- (6) context identifiers stay in range: `|qs| ≤ 364` and the table index is in `0..364`
    (the table has 365 entries), for every neighbourhood and every threshold set -/
theorem context_index_in_bounds (g : GradientQuantizer) (a b c d : Int) :
    let q := GradientQuantizer.ComputeContext g a b c d
    let qs := ComputeContextID q.1 q.2.1 q.2.2
    (-364 ≤ qs ∧ qs ≤ 364) ∧
      (0 ≤ ApplySign qs (BitwiseSign qs) ∧ ApplySign qs (BitwiseSign qs) ≤ 364) :=
  context_index_range g a b c d

example : ComputeContextID 4 4 4 = 364 ∧ ApplySign (-364) (BitwiseSign (-364)) = 364 := by decide

/-- (6b) regular-mode context update (generated `Context.UpdateContext`, T.87 A.6): `1 ≤ N ≤ RESET` and
    `−128 ≤ C ≤ 127` are preserved and `−N < B ≤ 0` holds after every update (whatever A, B were and
    whatever error value, NEAR) — so the Golomb parameter loop sees N ≥ 1 and the bias stays a byte -/
theorem updateContext_invariants (ctx : Context) (e near reset : Int) (hr : 1 ≤ reset)
    (hN : 1 ≤ ctx.N ∧ ctx.N ≤ reset) (hC : -128 ≤ ctx.C ∧ ctx.C ≤ 127) :
    (1 ≤ (Context.UpdateContext ctx e near reset).N ∧ (Context.UpdateContext ctx e near reset).N ≤ reset) ∧
    (-128 ≤ (Context.UpdateContext ctx e near reset).C ∧ (Context.UpdateContext ctx e near reset).C ≤ 127) ∧
    (-(Context.UpdateContext ctx e near reset).N < (Context.UpdateContext ctx e near reset).B ∧
       (Context.UpdateContext ctx e near reset).B ≤ 0) :=
  JpegLsLemmas.updateContext_inv ctx e near reset hr hN hC

example : (Context.UpdateContext { A := 9, N := 64, B := -63, C := -128 } (-5) 0 64).N = 33 := by decide

/-! ### bit writer (hand model `Model/Golomb.lean` of golomb.go, tied by `jls-gw`/`jls-emv`/`jls-dv`) -/

/-- (7) byte stuffing, also needed by C16: for EVERY sequence of `WriteBits(value, count)` calls
    (uint32 values, any counts — also counts the callers never use) followed by `Flush()`, the
    bytes written contain no 0xFF followed by a byte ≥ 0x80; the same holds for the bytes written
    at any moment before (`Golomb.Inv` is an invariant). -/
theorem golomb_writer_stuffed (ws : List (Nat × Int)) (hv : ∀ p ∈ ws, p.1 < Golomb.M32) :
    Golomb.Stuffed (Golomb.writeAll Golomb.Writer.new ws).out ∧
    Golomb.Stuffed (Golomb.finish (Golomb.writeAll Golomb.Writer.new ws)).out ∧
    (∀ b ∈ (Golomb.finish (Golomb.writeAll Golomb.Writer.new ws)).out, b < 256) :=
  ⟨(Golomb.inv_writeAll ws _ Golomb.inv_new hv).2.1,
   (Golomb.inv_finish _ (Golomb.inv_writeAll ws _ Golomb.inv_new hv)).2.1,
   (Golomb.inv_finish _ (Golomb.inv_writeAll ws _ Golomb.inv_new hv)).2.2.2⟩

example : (Golomb.finish (Golomb.writeAll Golomb.Writer.new [(255, 8), (255, 8), (1, 1)])).out = [255, 127, 192] := by
  decide

/-- (8) the same for every sequence of `EncodeMappedValue(k, mapped, limit, qbpp)` calls, whatever
    the arguments -/
theorem golomb_encode_stuffed (calls : List (Int × Int × Int × Int)) :
    Golomb.Stuffed (Golomb.finish
      (calls.foldl (fun w q => Golomb.encodeMappedValue w q.1 q.2.1 q.2.2.1 q.2.2.2) Golomb.Writer.new)).out :=
  (Golomb.inv_finish _ (Golomb.inv_encodeAll calls _ Golomb.inv_new)).2.1

example : (Golomb.finish (Golomb.encodeMappedValue Golomb.Writer.new 0 8190 48 12)).out =
    [0, 0, 0, 0, 31, 253] := by decide

/-- (9) the limited-length Golomb code round trip at bit level (value ↦ bits ↦ value): for every
    k ≤ 31, qbpp in 1..16, limit with qbpp+1 < limit ≤ 64 and every mapped value with
    `m − 1 < 2^qbpp`, `DecodeValue` reads back what `EncodeMappedValue` wrote — through the plain
    unary path, the > 31-bit prefix split and the LIMIT escape — and leaves the following bits
    untouched.  (`hesc`: a mapped value of 0 is never escaped; it holds whenever limit > qbpp+1.) -/
theorem golomb_code_roundtrip (k m limit qbpp : Int) (rest : List Bool)
    (hk : 0 ≤ k ∧ k ≤ 31) (hq : 1 ≤ qbpp ∧ qbpp ≤ 16) (hl : qbpp + 1 < limit ∧ limit ≤ 64)
    (hm : 0 ≤ m ∧ m - 1 < 2 ^ qbpp.toNat) :
    Golomb.decodeValue k limit qbpp (Golomb.writesBits (Golomb.encodeWrites k m limit qbpp) ++ rest) = some (m, rest) :=
  Golomb.code_roundtrip k m limit qbpp rest hk hq hl hm (by
    intro hge
    rw [Golomb.shr_eq' m k hk.1] at hge
    by_cases h1 : 1 ≤ m
    · exact h1
    · have : m = 0 := by omega
      subst this; simp at hge; omega)

example : Golomb.decodeValue 2 32 8 (Golomb.writesBits (Golomb.encodeWrites 2 200 32 8) ++ [true, false]) =
    some (200, [true, false]) := by decide

/-- (10) run-length code (model `JpegLsRun.encodeRunLength` / `decodeRunLength` of
    `RunModeScanner.EncodeRunLength` / `DecodeRunLength`, tied by `jls-runseg-*`): for every RUNindex
    0..31, every line remainder ≥ 1 and every run length 0..remainder, the decoder reads back the same
    run length, ends with the same RUNindex as the encoder and leaves the following bits untouched -/
theorem runlength_roundtrip (idx rl remaining : Int) (rest : List Bool)
    (hidx : 0 ≤ idx ∧ idx ≤ 31) (hrl : 0 ≤ rl ∧ rl ≤ remaining) (hrem : 1 ≤ remaining) :
    ∃ idx' ws, JpegLsRun.encodeRunLength idx rl (rl == remaining) = .ok (idx', ws) ∧ (0 ≤ idx' ∧ idx' ≤ 31) ∧
      JpegLsRun.decodeRunLength (Golomb.writesBits ws ++ rest) idx remaining = .ok (rl, idx', rest) :=
  JpegLsRun.runlength_roundtrip' idx rl remaining rest hidx hrl hrem

example : (JpegLsRun.encodeRunLength 3 5 false).toOption = some (6, [(1, 1), (1, 1), (1, 1), (0, 2)]) := by decide

/-- (11) run-interruption sample (`EncodeRunInterruption` / `DecodeRunInterruption`, limit
    `LIMIT − J[RUNindex] − 1`): for every admissible (P, NEAR) — NEAR = 0 is the lossless package —
    every RUNindex, either run-interruption context (any A, N, NN with Golomb parameter ≤ 31) and every
    error value of the modulo range (non-zero for context 1, as the run test guarantees), the
    decoder recovers the error value and reaches the same successor context -/
theorem run_interruption_roundtrip (P : Nat) (N : Int) (h : JpegLsNear.Admissible P N) (idx : Int)
    (ctx : RunModeContext) (e : Int) (rest : List Bool) (hidx : 0 ≤ idx ∧ idx ≤ 31)
    (hk : JpegLsRun.getGolombCode ctx ≤ 31)
    (hrit : ctx.runInterruptionType = 0 ∨ ctx.runInterruptionType = 1)
    (he0 : ctx.runInterruptionType = 1 → e ≠ 0)
    (he : ((JpegLsNear.traits P N).Range + 1) / 2 - (JpegLsNear.traits P N).Range ≤ e ∧
          e < ((JpegLsNear.traits P N).Range + 1) / 2) :
    ∃ ws ctx', JpegLsRun.encodeRunInterruption (JpegLsNear.traits P N) idx ctx e = .ok (ws, ctx') ∧
      JpegLsRun.decodeRunInterruption (JpegLsNear.traits P N) idx ctx (Golomb.writesBits ws ++ rest) = .ok (e, ctx', rest) :=
  JpegLsRun.run_interruption_roundtrip_traits P N h idx ctx e rest hidx hk hrit he0 he

example : JpegLsRun.getGolombCode { runInterruptionType := 1, A := 4, N := 1, NN := 0 } = 2 := by decide

/-- (11b) run-interruption contexts along a scan: `NewRunModeContext` satisfies, and the generated
    `RunModeContext.UpdateVariables` preserves, `1 ≤ N ≤ RESET`, `0 ≤ NN ≤ N`, `0 ≤ A ≤ 2^17·N`
    (for mapped values up to 2^17); under it `GetGolombCode` (hand-modelled loop) returns at most 31 —
    the hypothesis `hk` of `run_interruption_roundtrip` -/
theorem run_context_invariants (ctx : RunModeContext) (e em reset : Int) (h : JpegLsRun.RunCtxInv ctx reset)
    (hr : 2 ≤ reset ∧ reset ≤ 64) (hem : 0 ≤ em ∧ em ≤ 131072) :
    JpegLsRun.RunCtxInv (RunModeContext.UpdateVariables ctx e em reset) reset ∧
    JpegLsRun.getGolombCode ctx ≤ 31 :=
  ⟨JpegLsRun.updateVariables_inv ctx e em reset h hr.1 hem, JpegLsRun.getGolombCode_le ctx reset h hr.2⟩

theorem run_context_initial (rit range : Int) (hrit : rit = 0 ∨ rit = 1) (hr : 2 ≤ range ∧ range ≤ 65536) :
    JpegLsRun.RunCtxInv (NewRunModeContext rit range) 64 := JpegLsRun.newRunModeContext_inv rit range hrit hr

example : JpegLsRun.getGolombCode (NewRunModeContext 1 256) = 2 := by decide

/-- well-formed `WriteBits` calls: a uint32 value and a count in 0..32 (every call site of the scans) -/
def WritesOk (ws : List (Nat × Int)) : Prop := ∀ p ∈ ws, p.1 < Golomb.M32 ∧ 0 ≤ p.2 ∧ p.2 ≤ 32

/-- (8b) end of scan: for every sequence of well-formed `WriteBits` calls, `Flush()` leaves
    `isFFWritten = false`, i.e. the scan never ends on 0xFF (no `FF FF D9` with the EOI marker);
    and if at least one bit was written the scan is not empty.  (Bookkeeping invariant of
    `Lemmas/GolombExact.lean`: the `freeBitCount` low bits of the buffer are zero, `isFFWritten` ⇔
    last byte = 0xFF, `0 ≤ freeBitCount ≤ 32` between calls.) -/
theorem golomb_scan_end (ws : List (Nat × Int)) (hv : WritesOk ws) :
    (Golomb.finish (Golomb.writeAll Golomb.Writer.new ws)).out.getLast? ≠ some 255 ∧
    ((∃ p ∈ ws, 1 ≤ p.2) → (Golomb.finish (Golomb.writeAll Golomb.Writer.new ws)).out ≠ []) :=
  ⟨Golomb.finish_last_ne _ (Golomb.K_writeAll ws _ Golomb.K_new hv),
   fun h => Golomb.finish_out_ne _ (Golomb.M_writeAll ws _ Golomb.K_new hv (Or.inr h))⟩

example : WritesOk [(255, 8)] ∧ (Golomb.finish (Golomb.writeAll Golomb.Writer.new [(255, 8)])).out = [255, 0] := by
  refine ⟨?_, by decide⟩
  intro p hp; simp at hp; subst hp; decide

theorem stuffed_pairStuffed : ∀ (l : List Nat), Golomb.Stuffed l → JpegC.PairStuffed l
  | [], _ => trivial
  | [_], _ => trivial
  | a :: b :: rest, h => ⟨h.1, stuffed_pairStuffed (b :: rest) h.2⟩

/-- (8c) instantiation of C16's bridge (`JpegC.noMarkerLS_of_pairStuffed`): the bytes the
    `GolombWriter` model emits for ANY well-formed write sequence followed by `Flush()` satisfy the
    strict-parser scan predicate `StrictJpeg.NoMarkerLS` (every 0xFF is followed by a byte < 0x80, the
    scan does not end on 0xFF) — so the JPEG-LS container theorem of C16 has no open scan hypothesis
    beyond "the scan bytes come out of the GolombWriter" (correspondence `jls-gw`, `jls-emv`,
    `jls-runseg-enc`) -/
theorem jpegls_scan_nomarker (ws : List (Nat × Int)) (hv : WritesOk ws) :
    StrictJpeg.NoMarkerLS (Golomb.finish (Golomb.writeAll Golomb.Writer.new ws)).out = true := by
  have hI := Golomb.inv_finish _ (Golomb.inv_writeAll ws _ Golomb.inv_new (fun p hp => (hv p hp).1))
  exact JpegC.noMarkerLS_of_pairStuffed _ (stuffed_pairStuffed _ hI.2.1) hI.2.2.2 (golomb_scan_end ws hv).1

/-- (11c) regular-mode sample of the scan model (`Model/JpegLsScan.lean`, tied to the four real
    line walks by `jls-scan-enc` / `jls-scan-dec`): for every admissible (P, NEAR), every context
    table, context id, neighbourhood and source sample in range, the decoder step on the bits the
    encoder step wrote yields the same reconstruction, the same updated context table and leaves the
    following bits — the per-step agreement lock-step needs for regular mode -/
theorem regular_sample_roundtrip (P : Nat) (N : Int) (h : JpegLsNear.Admissible P N) (cs : Array Context)
    (qs a b c xs : Int) (rest : List Bool) (hxs : 0 ≤ xs ∧ xs ≤ (2 : Int) ^ P - 1)
    (ws : List (Nat × Int)) (cs' : Array Context) (rec : Int)
    (henc : JpegLsScan.encRegular (JpegLsNear.traits P N) cs qs a b c xs = .ok (ws, cs', rec)) :
    JpegLsScan.decRegular (JpegLsNear.traits P N) cs qs a b c (Golomb.writesBits ws ++ rest) = .ok (cs', rec, rest) :=
  JpegLsScan.regular_roundtrip P N h cs qs a b c xs rest hxs ws cs' rec henc

example : (JpegLsScan.encRegular (JpegLsNear.traits 8 0) #[NewContext 256, NewContext 256] 1 10 20 10 200).toOption.map
    (fun r => (r.1, r.2.2)) = some ([(1, 24), (150, 8)], 200) := by decide

/-- (11d) WHOLE IMAGES, bit level.  `JpegLsScanL` is the list-shaped twin of the scan model (tied to the
    real `lossless.Encode/Decode` and `nearlossless.Encode/Decode` by `jls-scanL-enc/dec`): encoder and
    decoder share one state (context table, run contexts, RUNindex, reconstructed previous line and
    reconstructed part of the current line, edge register); one step = one regular pixel or one run
    segment.  For every precision P in 2..16, every width ≥ 0 and height, 1 component (ILV 0) or several
    (ILV 2), and every image whose samples are below 2^P: the scan decoder applied to the bits of all
    `WriteBits` calls of the scan encoder (followed by anything) returns exactly the source image and
    leaves what follows.  Lock-step (`Lockstep.lockstep_var`) over the per-step theorems (6b)–(11c). -/
theorem jpegls_lossless_roundtrip (P : Nat) (hP : 2 ≤ P ∧ P ≤ 16) (comps : Nat) (hc : 1 ≤ comps) (w : Nat)
    (lines : List (List JpegLsScanL.Pixel))
    (hl : ∀ l ∈ lines, JpegLsScanL.LineOk comps ((2 : Int) ^ P - 1) w l) :
    ∃ ws, (JpegLsScanL.encodeImage (JpegLsNear.traits P 0) w comps lines).toOption.map (·.1) = some ws ∧
      ∀ rest, JpegLsScanL.decodeImage (JpegLsNear.traits P 0) w lines.length comps (Golomb.writesBits ws ++ rest)
        = .ok (lines, rest) := by
  have hadm : JpegLsNear.Admissible P 0 := ⟨hP, by omega, by omega, by
    have : (0 : Int) < 2 ^ P := Int.pow_pos (by decide)
    omega⟩
  obtain ⟨ws, recs, he, hcl, _, _, hd⟩ := JpegLsScanL.image_roundtrip P 0 hadm comps hc w lines hl
  have heq := JpegLsScanL.image_close_zero_eq hcl
  subst heq
  exact ⟨ws, by rw [he]; rfl, hd⟩

/-- (11e) WHOLE IMAGES, byte level (encoder side): the scan bytes the `GolombWriter` model emits for
    the encoder's `WriteBits` calls followed by `Flush()` — which are the bytes of the real `Encode`'s
    entropy-coded segment by correspondence (`jls-scanL-enc`) — un-stuffed by the T.87 rule (every byte
    8 bits, the byte after 0xFF its low 7: `Golomb.destuff`), decode to exactly the source image; what
    is left over is zero padding only.  Uses the exactness of the writer (`Golomb.writer_destuff`:
    un-stuffed bytes = written bits ++ zeros, through both overflow flushes of `WriteBits`) and the
    well-formedness of every call the scan issues (`WritesFit`). -/
theorem jpegls_lossless_roundtrip_bytes (P : Nat) (hP : 2 ≤ P ∧ P ≤ 16) (comps : Nat) (hc : 1 ≤ comps) (w : Nat)
    (lines : List (List JpegLsScanL.Pixel))
    (hl : ∀ l ∈ lines, JpegLsScanL.LineOk comps ((2 : Int) ^ P - 1) w l) :
    ∃ ws k, (JpegLsScanL.encodeImage (JpegLsNear.traits P 0) w comps lines).toOption.map (·.1) = some ws ∧
      JpegLsScanL.decodeImage (JpegLsNear.traits P 0) w lines.length comps
        (Golomb.destuff (Golomb.finish (Golomb.writeAll Golomb.Writer.new ws)).out false) =
        .ok (lines, List.replicate k false) := by
  have hadm : JpegLsNear.Admissible P 0 := ⟨hP, by omega, by omega, by
    have : (0 : Int) < 2 ^ P := Int.pow_pos (by decide)
    omega⟩
  obtain ⟨ws, recs, k, he, hcl, _, hd⟩ := JpegLsScanL.image_bytes_roundtrip P 0 hadm comps hc w lines hl
  have heq := JpegLsScanL.image_close_zero_eq hcl
  subst heq
  exact ⟨ws, k, by rw [he]; rfl, hd⟩

/-- (11f) exactness of the bit writer on its own: for every well-formed sequence of `WriteBits` calls
    (`count ∈ 0..32`, `value < 2^count`) followed by `Flush()`, the un-stuffed bytes are the written bits
    followed by zero bits -/
theorem golomb_writer_exact (ws : List (Nat × Int)) (hf : Golomb.WritesFit ws) :
    ∃ k, Golomb.destuff (Golomb.finish (Golomb.writeAll Golomb.Writer.new ws)).out false =
      Golomb.writesBits ws ++ List.replicate k false := Golomb.writer_destuff ws hf

example : Golomb.destuff (Golomb.finish (Golomb.writeAll Golomb.Writer.new [(255, 8), (1, 1)])).out false =
    Golomb.writesBits [(255, 8), (1, 1)] ++ List.replicate 6 false := by decide

example : JpegLsScanL.LineOk 1 ((2 : Int) ^ 12 - 1) 4 [[4095], [0], [4095], [0]] := by
  refine ⟨rfl, ?_⟩
  intro p hp
  simp only [List.mem_cons, List.mem_singleton, List.not_mem_nil, or_false] at hp
  rcases hp with rfl | rfl | rfl | rfl <;> exact ⟨rfl, by intro v hv; simp at hv; subst hv; unfold JpegLsScanL.SampOk; decide⟩

/-! ### bit reader (code-shaped model `Model/GolombReader.lean` of `GolombReader`: 64-bit cache,
    `fillReadCache` with its optimistic path and `positionFF`, the bit stuffed after 0xFF; tied by `jls-gr`) -/

/-- (11g) READER EXACTNESS.  `GolombReader.Rep r S` says that the reader state `r` represents the
    remaining bit stream `S` (the cache is a window onto `S`, the unread bytes un-stuff to the rest).
    On well-stuffed scan data `d` (bytes, every 0xFF followed by a byte < 0x80, not ending on 0xFF):
    a fresh reader represents `Golomb.destuff d`; `ReadBit` returns the next bit and fails exactly when
    the stream is exhausted; `ReadBits(n)`, 1 ≤ n ≤ 32, returns the next n bits as a number and fails
    exactly when fewer than n are left — each re-establishing `Rep` for the rest.  So the two
    operations the decoders call deliver exactly the bit sequence `destuff d`, whatever path
    `fillReadCache` takes (optimistic whole-byte reads, slow path, end of data). -/
theorem golomb_reader_exact (d : List Nat) (hd : GolombReader.WellStuffed d) :
    GolombReader.Rep (GolombReader.new d) (Golomb.destuff d false) ∧
    (∀ (r : GolombReader.Reader) (S : List Bool), GolombReader.Rep r S →
      (S = [] ∧ GolombReader.readBit r = .error .err) ∨
      ∃ b S' r', S = b :: S' ∧ GolombReader.readBit r = .ok ((if b then 1 else 0), r') ∧
        GolombReader.Rep r' S' ∧ r'.data = r.data) ∧
    (∀ (r : GolombReader.Reader) (S : List Bool) (n : Nat), GolombReader.Rep r S → 1 ≤ n → n ≤ 32 →
      if S.length < n then GolombReader.readBits r (n : Int) = .error .err
      else ∃ r', GolombReader.readBits r (n : Int) = .ok (Golomb.natOfBits (S.take n), r') ∧
        GolombReader.Rep r' (S.drop n) ∧ r'.data = r.data) :=
  ⟨GolombReader.rep_new d hd, fun r S h => GolombReader.readBit_aux r S h,
   fun r S n h h1 h32 => GolombReader.readBits_spec r S h n h1 h32⟩

/-- (11h) writer and reader together: for every well-formed write sequence, a fresh reader on the
    bytes the writer emits represents exactly the written bits followed by zero padding -/
theorem golomb_reader_on_writer (ws : List (Nat × Int)) (hf : Golomb.WritesFit ws) :
    ∃ k, GolombReader.Rep (GolombReader.new (Golomb.finish (Golomb.writeAll Golomb.Writer.new ws)).out)
      (Golomb.writesBits ws ++ List.replicate k false) := by
  have hok : WritesOk ws := fun p hp => by
    obtain ⟨h0, h32, hv⟩ := hf p hp
    refine ⟨?_, h0, h32⟩
    have : (2 : Nat) ^ p.2.toNat ≤ 2 ^ 32 := Nat.pow_le_pow_right (by decide) (by omega)
    have e : Golomb.M32 = 2 ^ 32 := by decide
    omega
  have hI := Golomb.inv_finish _ (Golomb.inv_writeAll ws _ Golomb.inv_new (fun p hp => (hok p hp).1))
  have hws := GolombReader.wellStuffed_of _ hI.2.2.2 hI.2.1 (golomb_scan_end ws hok).1
  obtain ⟨k, hk⟩ := Golomb.writer_destuff ws hf
  exact ⟨k, by rw [← hk]; exact GolombReader.rep_new _ hws⟩

example : (GolombReader.readBits (GolombReader.new [255, 127, 192]) 17).toOption.map (·.1) = some 131071 := by decide

/-- (12) what an unreduced error of the finding does to the escape code: mapped value 8190 at
    qbpp = 12 is written as (8190−1) mod 4096 and read back as 4094 — model-level replay of the
    former P = 12 witness (repaired by bb6666a; regression anchor) -/
theorem golomb_escape_truncates :
    Golomb.decodeValue 0 48 12 (Golomb.writesBits (Golomb.encodeWrites 0 8190 48 12)) = some (4094, []) := by
  decide

end C03
