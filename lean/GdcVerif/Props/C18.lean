import GdcVerif.Model.NonInt
import GdcVerif.Gen.Facts
/-!
  C18 — registered codecs are safe for concurrent use.

  * the abstract non-interference theorem (`Model/NonInt.lean`): locations written by one thread are touched
    by no other ⇒ (i) no race in any schedule, (ii) every thread computes, under every interleaving, exactly
    what it computes alone (induction on the schedule);
  * the instance, discharged by `decide` over `Gen.Facts` (regenerated from the Go source on every run):
    package-level variables are written only during initialisation (named exceptions), no method of a
    codec.Codec implementation stores through its receiver, the library starts no goroutine and uses no
    sync/atomic/unsafe, nothing is unclassified;
  * `validate_noop_on_valid_*`: over the generated store conditions of each `Validate` method, no store
    executes on an already-valid parameters object — for all seven parameter types (htj2k since fix 870ac76);
  * `no_direct_store_into_parameters_outside_validate`, `codec_parameters_deep_entries`: stores through the
    `parameters` argument of the codec methods.

  What no theorem here exhibits: the Go memory model and the race detector's view of the execution; the step
  from "no store in the typed AST" to "no data race" is the trusted reading of the facts.
-/
namespace C18
open NonInt

/-! ### abstract theorems -/

/-- (i) no schedule contains a race -/
theorem no_race {L Val : Type} [DecidableEq L] [Inhabited Val] (prog : Prog L Val) (h : Isolated prog) :
    ¬ Race prog := no_race_of_isolated prog h

/-- (ii) for every schedule, on everything thread `t` reads or writes the interleaved run agrees with `t`
    running alone for the same number of steps from the same initial store -/
theorem thread_computes_as_alone {L Val : Type} [DecidableEq L] [Inhabited Val] (prog : Prog L Val)
    (h : Isolated prog) (t : Nat) (c : Conf L Val) (sched : List Nat) :
    (∀ l, l ∈ accesses (prog t) → (run prog c sched).store l = (solo prog t c (sched.count t)).store l) ∧
      (run prog c sched).pc t = (solo prog t c (sched.count t)).pc t :=
  ⟨noninterference prog h t c sched, noninterference_pc prog h t c sched⟩

/-- the transition of a step depends on its read set only and changes its write set only — a fact about the
    model's definition of a step, not a hypothesis -/
theorem step_wellformed {L Val : Type} [DecidableEq L] [Inhabited Val] (st : Step L Val) (s s' : L → Val) :
    (∀ l, l ∉ st.writes → st.tr s l = s l) ∧
      ((∀ l, l ∈ st.reads → s l = s' l) → ∀ l, l ∈ st.writes → st.tr s l = st.tr s' l) :=
  ⟨fun l h => tr_frame st s l h, fun h l hl => tr_dep st s s' h l hl⟩

/-- non-vacuity, the shape of the codecs: location 0 is a shared table that nobody writes, threads 0 and 1
    read it and write their private locations 1 and 2; both hypotheses hold and the run is computed -/
def exProg : Prog Nat Nat := fun t =>
  if t = 0 then [⟨[0], [1], fun s _ => s 0 + 1⟩, ⟨[0, 1], [1], fun s _ => s 0 + s 1⟩]
  else if t = 1 then [⟨[0], [2], fun s _ => s 0 * 2⟩] else []

theorem exProg_isolated : Isolated exProg := by
  intro u v huv l hl
  unfold exProg at *
  by_cases hu0 : u = 0 <;> by_cases hu1 : u = 1 <;> by_cases hv0 : v = 0 <;> by_cases hv1 : v = 1 <;>
    simp_all [writesOf, accesses] <;> omega

example : (run exProg ⟨fun l => if l = 0 then 5 else 0, fun _ => 0⟩ [1, 0, 1, 0, 0]).store 1 = 11 ∧
    (solo exProg 0 ⟨fun l => if l = 0 then 5 else 0, fun _ => 0⟩ 2).store 1 = 11 := by decide

/-- a racy program violates the hypothesis and the conclusion: thread 1 writes what thread 0 reads -/
example : ∃ prog : Prog Nat Nat, Race prog ∧
    (run prog ⟨fun _ => 0, fun _ => 0⟩ [1, 0]).store 1 ≠ (solo prog 0 ⟨fun _ => 0, fun _ => 0⟩ 1).store 1 :=
  ⟨fun t => if t = 0 then [⟨[0], [1], fun s _ => s 0⟩] else if t = 1 then [⟨[], [0], fun _ _ => 7⟩] else [],
    ⟨1, 0, by decide, ⟨[], [0], fun _ _ => 7⟩, by simp, ⟨[0], [1], fun s _ => s 0⟩, by simp, 0, by simp, Or.inl (by simp)⟩,
    by decide⟩

/-! ### the instance: facts about the Go source -/

/-- F1: every store rooted in a library package-level variable happens in `init`, in a function reachable
    only from `init`, or in an exported table builder that only `init` calls — except the named ones:
    `htj2k.GenerateVLCTables` is also reachable at run time, through `NewVLCDecoderOptimized`'s lazy guard
    `VLCDecodeTbl0[0].CwdLen == 0` (false once init has run; checked dynamically by the harness) -/
theorem package_variables_written_only_during_init :
    ((Gen.Facts.pkgVarWrites.filter (fun w => w.2.2.2.2 &&
        !(w.2.2.2.1 == "init" || w.2.2.2.1 == "init-only" || w.2.2.2.1 == "init-exported"))).map
        (fun w => (w.1, w.2.1))) =
      [("jpeg2000/htj2k.VLCDecodeTbl0", "jpeg2000/htj2k.GenerateVLCTables"),
       ("jpeg2000/htj2k.VLCDecodeTbl1", "jpeg2000/htj2k.GenerateVLCTables")] := by decide

/-- the exported table builders that only `init` calls (a client calling them later is outside the property) -/
theorem exported_init_only_table_builders :
    ((Gen.Facts.pkgVarWrites.filter (fun w => w.2.2.2.1 == "init-exported")).map (·.2.1)).eraseDups =
      ["jpeg2000/htj2k.InitVLCTables"] := by decide

/-- F2: no method of any of the ten codec.Codec implementations stores through its receiver -/
theorem no_codec_method_stores_through_receiver :
    Gen.Facts.codecRecvStores = [] ∧ Gen.Facts.codecTypes.length = 10 ∧ 60 ≤ Gen.Facts.codecMethods.length := by
  decide

/-- F5: the library packages start no goroutine, use no sync / sync/atomic, import no unsafe -/
theorem no_concurrency_primitives_in_library :
    Gen.Facts.goStmts.filter (·.2.2) = [] ∧ Gen.Facts.syncUses.filter (·.2.2) = [] ∧
      Gen.Facts.unsafeImports = [] := by decide

/-- nothing in the library is unclassified by the analysis -/
theorem no_unknown_in_library : Gen.Facts.unknowns.filter (fun u => u.2.2.2) = [] := by decide

/-- the analysis looked at something: package variables exist and are written in init -/
example : 40 ≤ (Gen.Facts.pkgVars.filter (·.2.2.2)).length ∧
    2 ≤ (Gen.Facts.pkgVarWrites.filter (fun w => w.2.2.2.1 == "init")).length := by decide

/-! ### `Validate` performs no store on an already-valid object -/
open Gen.Facts

def noStore (cs : List (String × Bool)) : Bool := cs.all (fun c => !c.2)

theorem validate_noop_on_valid_baseline (p : V_jpeg_baseline_JPEGBaselineParameters)
    (h : 1 ≤ p.Quality ∧ p.Quality ≤ 100) : noStore p.storeConds = true := by
  simp [noStore, V_jpeg_baseline_JPEGBaselineParameters.storeConds]; omega

theorem validate_noop_on_valid_extended (p : V_jpeg_extended_JPEGExtendedParameters)
    (h : 1 ≤ p.Quality ∧ p.Quality ≤ 100 ∧ (p.BitDepth = 8 ∨ p.BitDepth = 12)) : noStore p.storeConds = true := by
  simp [noStore, V_jpeg_extended_JPEGExtendedParameters.storeConds]; omega

theorem validate_noop_on_valid_jpeg_lossless (p : V_jpeg_lossless_JPEGLosslessParameters)
    (h : 0 ≤ p.Predictor ∧ p.Predictor ≤ 7) : noStore p.storeConds = true := by
  simp [noStore, V_jpeg_lossless_JPEGLosslessParameters.storeConds]; omega

theorem validate_noop_on_valid_jpegls_near (p : V_jpegls_nearlossless_JPEGLSNearLosslessParameters)
    (h : 0 ≤ p.NEAR ∧ p.NEAR ≤ 255) : noStore p.storeConds = true := by
  simp [noStore, V_jpegls_nearlossless_JPEGLSNearLosslessParameters.storeConds]; omega

theorem validate_noop_on_valid_j2k_lossless (p : V_jpeg2000_lossless_JPEG2000LosslessParameters)
    (h : 0 ≤ p.NumLevels ∧ p.NumLevels ≤ 6 ∧ 1 ≤ p.NumLayers ∧ 0 ≤ p.Rate ∧ (0 < p.Rate → p.len_RateLevels ≠ 0) ∧
      p.ProgressionOrder ≤ 4 ∧ 0 ≤ p.TargetRatio ∧
      ¬ (p.AppendLosslessLayer = true ∧ p.NumLayers < 2 ∧ 0 < p.TargetRatio)) :
    noStore p.storeConds = true := by
  obtain ⟨h1, h2, h3, h4, h5, h6, h7, h8⟩ := h
  simp only [noStore, V_jpeg2000_lossless_JPEG2000LosslessParameters.storeConds, List.all_cons, List.all_nil,
    Bool.and_true, Bool.and_eq_true, Bool.not_eq_true', Bool.or_eq_false_iff, decide_eq_false_iff_not,
    Bool.and_eq_false_iff]
  refine ⟨⟨by omega, by omega⟩, by omega, by omega, ?_, ?_, by omega, by omega, ?_⟩
  · by_cases hr : 0 < p.Rate
    · exact Or.inr (h5 hr)
    · exact Or.inl (by omega)
  · by_cases hr : 0 < p.Rate
    · exact Or.inr (h5 hr)
    · exact Or.inl (by omega)
  · by_cases ha : p.AppendLosslessLayer = true
    · by_cases hl : p.NumLayers < 2
      · exact Or.inr (by intro ht; exact h8 ⟨ha, hl, ht⟩)
      · exact Or.inl (Or.inr hl)
    · exact Or.inl (Or.inl (by simpa using ha))

theorem validate_noop_on_valid_j2k_lossy (p : V_jpeg2000_lossy_JPEG2000LossyParameters)
    (h : 0 < p.Rate ∧ p.len_RateLevels ≠ 0 ∧ 0 ≤ p.NumLevels ∧ p.NumLevels ≤ 6 ∧ 1 ≤ p.NumLayers ∧
      0 < p.QuantStepScale) : noStore p.storeConds = true := by
  simp [noStore, V_jpeg2000_lossy_JPEG2000LossyParameters.storeConds]; omega

/-- htj2k.Parameters (after fix 870ac76): the block sizes are stored only when rounding changes them.
    `nearestPowerOf2_BlockWidth` is the value of the helper `nearestPowerOf2(p.BlockWidth)`; an object is
    valid when it is in range and its block sizes already are what the helper returns -/
theorem validate_noop_on_valid_htj2k (p : V_jpeg2000_htj2k_Parameters)
    (h : 1 ≤ p.Quality ∧ p.Quality ≤ 100 ∧ 4 ≤ p.BlockWidth ∧ p.BlockWidth ≤ 1024 ∧ 4 ≤ p.BlockHeight ∧
      p.BlockHeight ≤ 1024 ∧ 0 ≤ p.NumLevels ∧ p.NumLevels ≤ 6 ∧
      p.nearestPowerOf2_BlockWidth = p.BlockWidth ∧ p.nearestPowerOf2_BlockHeight = p.BlockHeight) :
    noStore p.storeConds = true := by
  obtain ⟨h1, h2, h3, h4, h5, h6, h7, h8, h9, h10⟩ := h
  simp [noStore, V_jpeg2000_htj2k_Parameters.storeConds, h9, h10]
  omega

/-- regression anchor for finding `c18-race-jpeg2000/htj2k.(*Parameters).Validate` (fixed by 870ac76): on
    the object GetDefaultParameters() returns (quality 80, 64×64 blocks, 5 levels) no store executes any more -/
example :
    ((V_jpeg2000_htj2k_Parameters.mk 64 64 5 80 64 64).storeConds.filter (·.2)).map (·.1) = [] := by decide

/-- F2b, the static form of "a shared already-valid parameters object is only read": no codec method — nor
    anything it calls with the pointer — stores INTO the parameters object it was handed (the typed pointer
    obtained from the `parameters` argument by type assertion, or anything derived from it without a copy),
    except through the object's own `Validate` (store-free on valid objects, above).  A store that is undone
    before the call returns is still a store and would be listed (seeded change C18-m1: `p.NumLevels = clamped`
    with a deferred restore in lossy encodeFrameOnce appears as a `direct` entry, with the precise store in
    `typedParameterDirectStores`) -/
theorem no_direct_store_into_parameters_outside_validate :
    Gen.Facts.codecParameterStores.filter (fun s => s.2.2.2 == "direct" && s.2.2.1 != "Validate") = [] := by
  decide

/-- what remains is over-approximation: three JPEG 2000 Encode paths whose per-call encoder captured the MCT
    arrays of a generic parameters object — stores somewhere in memory REACHABLE from the argument (the arrays
    are only read; the shared objects are hashed before, during and after the concurrent workload by the
    harness).  Decode takes a parameters object only in htj2k (Validate) -/
theorem codec_parameters_deep_entries :
    (Gen.Facts.codecParameterStores.filter (fun s => s.2.2.1 != "Validate")).map (fun s => (s.1, s.2.1, s.2.2.1)) =
      [("jpeg2000/lossless.Codec", "Encode", "call:jpeg2000/lossless.(*Codec).encodeLosslessAllFrames"),
       ("jpeg2000/lossy.Codec", "Encode", "call:jpeg2000/lossy.(*Codec).encodeFrameOnce"),
       ("jpeg2000/lossy.Codec", "Encode", "call:jpeg2000/lossy.(*Codec).encodeFrameWithTargetRatio")] ∧
    ((Gen.Facts.codecParameterStores.filter (fun s => s.2.1 == "Decode")).map (·.1)).eraseDups = ["jpeg2000/htj2k.Codec"] := by
  decide

/-- helpers that store into a typed parameters object they receive only ever get a freshly created one: the
    only such helper fills the object `extractLosslessParameters` has just allocated -/
theorem typed_parameter_helpers :
    (Gen.Facts.typedParameterDirectStores.map (·.1)).eraseDups =
      ["jpeg2000/lossless.(*Codec).extractBasicLosslessParams"] := by decide

/-- every parameter type with a Validate method is covered above -/
theorem validate_types_covered :
    Gen.Facts.validateTypes =
      ["V_jpeg_baseline_JPEGBaselineParameters", "V_jpeg_extended_JPEGExtendedParameters",
       "V_jpeg_lossless_JPEGLosslessParameters", "V_jpeg2000_htj2k_Parameters",
       "V_jpeg2000_lossless_JPEG2000LosslessParameters", "V_jpeg2000_lossy_JPEG2000LossyParameters",
       "V_jpegls_nearlossless_JPEGLSNearLosslessParameters"] := by decide

end C18
