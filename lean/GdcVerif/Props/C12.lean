import GdcVerif.Model.J2kQuant
import GdcVerif.Lemmas.J2kQuant
/-!
  C12 — JPEG 2000 irreversible path: loss bounded by the declared quantisation steps.  PARTIAL.

  Proved here (logical layers, exact integer arithmetic):
  * the 16-bit SPqcd field (exponent, mantissa) packs/unpacks without loss;
  * the mantissa/exponent chosen by `encodeQuantizationStep` (integer part, hand model) reproduce the
    fixed-point step to within one part in 2^11, from below;
  * `encodeQuantizationStep` on float64 inputs (exact dyadic model incl. its float prefix): declared step ≤ requested
    step < declared·(1+2^-11);
  * dead-zone quantiser + mid-point reconstruction: |x − x̂| ≤ Δ/2 outside the dead zone, |x| < Δ inside;
  * `Decoder.GetPixelData`'s clamp (four GENERATED loop bodies) equals the declared-range clamp for every
    int32 input, signed and unsigned, P = 1..16 (8-bit loops: P = 1..8) — unconditional;
  * sub-band numbering: encoder (`subbandIndex`, generated), step-size table (`subbandParams`, generated)
    and decoder (`log2GainForSubband`, hand model) agree on (orientation, level) of every QCD entry.
  NOT proved (searched only, see go/cmd/vharness/c12.go): the float32 9/7 lifting pair, the ICT pair, the
  T1 bit-plane coder and therefore the end-to-end numeric bound.  `c12_bound_FullStatement` stays a `def`.
-/
namespace J2kQuant
open Gen.J2kQuant

/-- (1a) unpack ∘ pack = id on the fields -/
theorem c12_qcd_unpack_pack (e m : Nat) (he : e < 32) (hm : m < 2048) : unpack (pack e m) = (e, m) :=
  unpack_pack' e m he hm
/-- (1b) pack ∘ unpack = id on every 16-bit word -/
theorem c12_qcd_pack_unpack (w : Nat) (hw : w < 65536) : pack (unpack w).1 (unpack w).2 = w :=
  pack_unpack' w hw
example : unpack (pack 13 1029) = (13, 1029) ∧ pack (unpack 0xABCD).1 (unpack 0xABCD).2 = 0xABCD := by decide

/-- (2) encode then decode a step: with l = ⌊log2 fixed⌋ (fixed = step·2^13 ≥ 1) and an exponent that is
    not clamped (0 ≤ numbps − (l−13) ≤ 31), the word written by `encodeQuantizationStep` decodes
    (`decodeQuantStep`, gain g) to  (2048+mant)·2^(l−11) · 2^(g + bitDepth − numbps − 13)  with
    (2048+mant)·2^(l−11) ≤ fixed < (2048+mant+1)·2^(l−11): the declared step never exceeds the encoder's
    and is within 2^-11 relative of it.  (For l < 11 the mantissa is exact.) -/
theorem c12_step_encode_decode (fixed : Nat) (numbps : Int) (hf : fixed ≠ 0)
    (hlo : 0 ≤ numbps - ((log2 fixed : Int) - 13)) (hhi : numbps - ((log2 fixed : Int) - 13) ≤ 31) :
    let em := encodeFixed fixed numbps
    unpack (pack em.1 em.2) = em ∧
    (em.1 : Int) = numbps - ((log2 fixed : Int) - 13) ∧
    (11 < log2 fixed →
        stepNum em.2 * 2 ^ (log2 fixed - 11) ≤ fixed ∧ fixed < (stepNum em.2 + 1) * 2 ^ (log2 fixed - 11)) ∧
    (log2 fixed ≤ 11 → stepNum em.2 = fixed * 2 ^ (11 - log2 fixed)) := by
  intro em
  obtain ⟨b1, b2⟩ := log2_bounds fixed hf
  have hm : em.2 < 2048 := by simp only [em, encodeFixed]; exact Nat.mod_lt _ (by decide)
  have he : (em.1 : Int) = numbps - ((log2 fixed : Int) - 13) := by
    simp only [em, encodeFixed]
    split <;> split <;> omega
  refine ⟨unpack_pack' _ _ (by omega) hm, he, ?_, ?_⟩
  · intro hl
    have := mant_trunc fixed (log2 fixed) (by omega) b1 b2
    simp only [em, encodeFixed, stepNum, hl, if_true]
    exact ⟨this.2.1, this.2.2⟩
  · intro hl
    by_cases h11 : 11 < log2 fixed
    · omega
    · have := mant_small fixed (log2 fixed) hl b1 b2
      simp only [em, encodeFixed, stepNum, h11, if_false]
      exact this
example : encodeFixed 6000 8 = (9, 952) ∧ log2 6000 = 12 ∧ stepNum 952 * 2 = 6000 := by decide

/-- (2'') what "declared step" means relative to the REQUESTED step: `encodeQuantizationStep` on a float64 step
    `m·2^e` (exact dyadic model of its float prefix; here e < −13, step ≥ 2^-13, leading bit of the fixed-point
    value above 2^11, exponent not clamped) writes a word whose decoded value D·2^-13 (D = (2048+mant)·2^(l−11))
    satisfies  D·2^k ≤ m < (D + 2^(l−11))·2^k  with k = −e−13: declared ≤ requested < declared·(1 + 2^-11).
    How the requested step follows from Quality (math.Pow, norm table) is not modelled — it is the float64
    `StepSizes[i]`, fed to the model by the correspondence op `j2k-encstep`. -/
theorem c12_declared_vs_requested (m : Nat) (e numbps : Int) (he : e + 13 < 0)
    (hm : 2 ^ (-(e + 13)).toNat ≤ m)
    (hlo : 0 ≤ numbps - ((log2 (fixedOfDyadic m e) : Int) - 13))
    (hhi : numbps - ((log2 (fixedOfDyadic m e) : Int) - 13) ≤ 31)
    (hl : 11 < log2 (fixedOfDyadic m e)) :
    let fixed := fixedOfDyadic m e
    let em := encodeFixed fixed numbps
    let D := stepNum em.2 * 2 ^ (log2 fixed - 11)
    unpack (encodeStepDyadic m e numbps) = em ∧
    D * 2 ^ (-(e + 13)).toNat ≤ m ∧ m < (D + 2 ^ (log2 fixed - 11)) * 2 ^ (-(e + 13)).toNat := by
  show unpack (encodeStepDyadic m e numbps) = encodeFixed (fixedOfDyadic m e) numbps ∧
    stepNum (encodeFixed (fixedOfDyadic m e) numbps).2 * 2 ^ (log2 (fixedOfDyadic m e) - 11) * 2 ^ (-(e + 13)).toNat ≤ m ∧
    m < (stepNum (encodeFixed (fixedOfDyadic m e) numbps).2 * 2 ^ (log2 (fixedOfDyadic m e) - 11) +
      2 ^ (log2 (fixedOfDyadic m e) - 11)) * 2 ^ (-(e + 13)).toNat
  have hp : 0 < 2 ^ (-(e + 13)).toNat := Nat.pow_pos (by decide)
  have hm0 : m ≠ 0 := fun h => by rw [h] at hm; omega
  have hf0 := fixedOfDyadic_ne_zero m e
  obtain ⟨h1, _, h3, _⟩ := c12_step_encode_decode (fixedOfDyadic m e) numbps hf0 hlo hhi
  obtain ⟨d1, d2⟩ := h3 hl
  obtain ⟨f1, f2⟩ := fixed_floor m e he hm
  refine ⟨?_, ?_, ?_⟩
  · simp only [encodeStepDyadic, hm0, if_false]; exact h1
  · exact Nat.le_trans (Nat.mul_le_mul_right _ d1) f1
  · have hle : fixedOfDyadic m e + 1 ≤ stepNum (encodeFixed (fixedOfDyadic m e) numbps).2 * 2 ^ (log2 (fixedOfDyadic m e) - 11) +
        2 ^ (log2 (fixedOfDyadic m e) - 11) := by
      rw [Nat.add_mul, Nat.one_mul] at d2; omega
    exact Nat.lt_of_lt_of_le f2 (Nat.mul_le_mul_right _ hle)
example : fixedOfDyadic 6000 (-13 - 0) = 6000 ∧ fixedOfDyadic 49155 (-16) = 6144 ∧
    unpack (encodeStepDyadic 49155 (-16) 8) = (9, 1024) := by decide

/-- (2') the encoder's and the decoder's gain conventions differ by exactly the sub-band gain:
    `OpenJPEGRuntimeQuantizationSteps` (encoder) uses 2^g, `log2GainForSubband` (decoder, 9/7) uses 2^0 —
    the factor 2^g is applied by the decoder's synthesis filter (`twoInvK97`, not modelled). -/
theorem c12_gain_convention (e : Nat) (P idx : Int) (h : 1 ≤ idx) :
    decoderLog2Gain 0 idx = 0 ∧
    stepExp e P (encoderLog2Gain (decoderOrient idx)) = stepExp e P (decoderLog2Gain 0 idx) + decoderLog2Gain 1 idx := by
  have h0 : ¬ idx = 0 := by omega
  have hm := Int.tmod_eq_emod_of_nonneg (a := idx - 1) (b := 3) (by omega)
  simp only [decoderLog2Gain, decoderOrient, encoderLog2Gain, stepExp, beq_iff_eq, h0, hm]
  simp
  have : (idx - 1) % 3 = 0 ∨ (idx - 1) % 3 = 1 ∨ (idx - 1) % 3 = 2 := by omega
  rcases this with h|h|h <;> simp [h] <;> omega
example : decoderLog2Gain 0 6 = 0 ∧ decoderLog2Gain 1 6 = 2 ∧ encoderLog2Gain (decoderOrient 6) = 2 := by decide

/-- (3) dead-zone quantiser + mid-point reconstruction (x, Δ integers over a common denominator):
    non-zero index ⇒ |2x − 2x̂| ≤ Δ; zero index ⇒ |x| < Δ.  Hence |x − x̂| < Δ always. -/
theorem c12_deadzone_midpoint (x delta : Int) (hd : 0 < delta) :
    (deadzoneQ x delta ≠ 0 →
      (2 * x - midpoint2 (deadzoneQ x delta) delta ≤ delta ∧ -delta ≤ 2 * x - midpoint2 (deadzoneQ x delta) delta)) ∧
    (deadzoneQ x delta = 0 → (-delta < x ∧ x < delta)) := deadzone_midpoint' x delta hd
example : deadzoneQ (-37) 10 = -3 ∧ midpoint2 (-3) 10 = -70 ∧ deadzoneQ 9 10 = 0 := by decide

/-- (4) GetPixelData, 16-bit grey loop (GENERATED kernel): for every int32 sample the two stored bytes are the
    declared-range clamp in P-bit two's complement — for signed and unsigned data, P = 1..16 -/
theorem c12_clamp_grey16 (d : Decoder) (P : Nat) (hd : d.bitDepth = P) (hP : 1 ≤ P ∧ P ≤ 16)
    (v a b : Int) (hv : -2147483648 ≤ v ∧ v < 2147483648) :
    val16 (clampGrey16 d v a b) = clampSpec P d.isSigned v ∧
    0 ≤ val16 (clampGrey16 d v a b) ∧ val16 (clampGrey16 d v a b) < 2 ^ P := by
  rw [clampGrey16_spec d P hd hP v a b hv]; exact ⟨rfl, clampSpec_range P hP.1 _ v⟩
/-- (4) 16-bit interleaved loop -/
theorem c12_clamp_inter16 (d : Decoder) (P : Nat) (hd : d.bitDepth = P) (hP : 1 ≤ P ∧ P ≤ 16)
    (i c v a b : Int) (hv : -2147483648 ≤ v ∧ v < 2147483648) :
    val16 (clampInter16 d i c v a b) = clampSpec P d.isSigned v ∧
    0 ≤ val16 (clampInter16 d i c v a b) ∧ val16 (clampInter16 d i c v a b) < 2 ^ P := by
  rw [clampInter16_spec d P hd hP i c v a b hv]; exact ⟨rfl, clampSpec_range P hP.1 _ v⟩
/-- (4) 8-bit grey loop (taken when bitDepth ≤ 8) -/
theorem c12_clamp_grey8 (d : Decoder) (P : Nat) (hd : d.bitDepth = P) (hP : 1 ≤ P ∧ P ≤ 8)
    (v a : Int) (hv : -2147483648 ≤ v ∧ v < 2147483648) :
    clampGrey8 d v a = clampSpec P d.isSigned v ∧ 0 ≤ clampGrey8 d v a ∧ clampGrey8 d v a < 2 ^ P := by
  rw [clampGrey8_spec d P hd hP v a hv]; exact ⟨rfl, clampSpec_range P hP.1 _ v⟩
/-- (4) 8-bit interleaved loop -/
theorem c12_clamp_inter8 (d : Decoder) (P : Nat) (hd : d.bitDepth = P) (hP : 1 ≤ P ∧ P ≤ 8)
    (v a : Int) (hv : -2147483648 ≤ v ∧ v < 2147483648) :
    clampInter8 d v a = clampSpec P d.isSigned v ∧ 0 ≤ clampInter8 d v a ∧ clampInter8 d v a < 2 ^ P := by
  rw [clampInter8_spec d P hd hP v a hv]; exact ⟨rfl, clampSpec_range P hP.1 _ v⟩
example : let d : Decoder := { width := 1, height := 1, components := 1, bitDepth := 12, isSigned := true, resilient := false, strict := false }
    val16 (clampGrey16 d 5000 0 0) = 2047 ∧ val16 (clampGrey16 d (-5000) 0 0) = 2048 ∧ val16 (clampGrey16 d (-1) 0 0) = 4095 := by decide

/-- (5) sub-band numbering: the QCD entry the encoder uses for (resolution res, band) — `subbandIndex`,
    generated — is the entry that `subbandParams` (generated; used to compute the step) and the decoder's
    `log2GainForSubband` (hand model) read as orientation `band` at level `numLevels − res`; the index is in
    range and distinct (res, band) get distinct entries. -/
theorem c12_subband_index_agrees (L res band : Int) (hr : 1 ≤ res ∧ res ≤ L) (hb : 1 ≤ band ∧ band ≤ 3) :
    let idx := subbandIndex L res band
    1 ≤ idx ∧ idx ≤ 3 * L ∧ subbandParams idx L = (band, L - res) ∧ decoderOrient idx = band ∧
    losslessLog2Gain res band = decoderLog2Gain 1 idx ∧ idx = 1 + (res - 1) * 3 + (band - 1) := by
  intro idx
  have hi : idx = 1 + (res - 1) * 3 + (band - 1) := by
    simp only [idx, subbandIndex]
    have h1 : ¬ (res < 0 ∨ L < res) := by omega
    have h2 : ¬ res = 0 := by omega
    have h3 : ¬ (band < 1 ∨ 3 < band) := by omega
    simp [h2, h3]; omega
  have hd := Int.tdiv_eq_ediv_of_nonneg (a := idx - 1) (b := 3) (by omega)
  have hm := Int.tmod_eq_emod_of_nonneg (a := idx - 1) (b := 3) (by omega)
  have h0 : ¬ idx = 0 := by omega
  have hr0 : ¬ res = 0 := by omega
  have e1 : (idx - 1) / 3 = res - 1 := by omega
  have e2 : (idx - 1) % 3 = band - 1 := by omega
  refine ⟨by omega, by omega, ?_, ?_, ?_, hi⟩
  · simp only [subbandParams, beq_iff_eq, h0, hd, hm, e1, e2]
    simp; omega
  · simp only [decoderOrient, beq_iff_eq, h0, hm, e2]; simp
  · simp only [losslessLog2Gain, decoderLog2Gain, beq_iff_eq, h0, hr0, hm, e2]
    simp
example : subbandIndex 5 3 2 = 8 ∧ subbandParams 8 5 = (2, 2) := by decide

/-- (5') the band walks of applyQuantizationBySubbandFloat (encoder) and applyDequantizationBySubbandFloat (decoder): the
    counter update is the GENERATED loop body sliced on `subbandIdx` (go2lean loop mode, `slice`), and it is `+1` for
    every band whatever its size; hence every band — EMPTY OR NOT — is (de)quantised with the QCD entry
    `subbandIndex numLevels res band` (generated), the walk visits 3·numLevels + 1 entries and LL uses entry 0.
    An edit that skips the increment for empty bands (`continue`) or moves it under the emptiness test leaves the
    translated subset or changes the kernel: the generator or this theorem breaks. -/
theorem c12_band_walk_uses_subband_index (L : Nat) :
    (∀ w h x0 y0 i b, Gen.J2kQuant.bandWalkStep w h x0 y0 i b = i + 1) ∧
    (∀ w h nl bd x0 y0 i b, Gen.J2kQuantT2.bandWalkStep w h nl bd x0 y0 i b = i + 1) ∧
    (stepWalk L).length = 3 * L + 1 ∧ (stepWalk L).head? = some (0, 0, 0) ∧ stepWalkDec L = stepWalk L ∧
    ∀ t ∈ (stepWalk L).tail, 1 ≤ t.1 ∧ t.1 ≤ L ∧ 1 ≤ t.2.1 ∧ t.2.1 ≤ 3 ∧ t.2.2 = subbandIndex L t.1 t.2.1 := by
  have e1 : ∀ w h x0 y0 i b, Gen.J2kQuant.bandWalkStep w h x0 y0 i b = i + 1 := by
    intros; simp [Gen.J2kQuant.bandWalkStep]
  have e2 : ∀ w h nl bd x0 y0 i b, Gen.J2kQuantT2.bandWalkStep w h nl bd x0 y0 i b = i + 1 := by
    intros; simp [Gen.J2kQuantT2.bandWalkStep]
  refine ⟨e1, e2, by simp [stepWalk, resLoop_length], rfl, ?_, ?_⟩
  · simp only [stepWalkDec, stepWalk, e1, e2]
  · intro t ht
    exact resLoop_spec _ (fun i => e1 0 0 0 0 i 0) L 1 1 L (by omega) (by omega) (by omega) t (by simpa [stepWalk] using ht)
example : stepWalk 2 = [(0, 0, 0), (1, 1, 1), (1, 2, 2), (1, 3, 3), (2, 1, 4), (2, 2, 5), (2, 3, 6)] := by decide

/-- The full property, as a statement about the (unmodelled) real encoder/decoder pair: `enc`/`dec` stand for
    `Encoder.Encode` / `Decoder.Decode+GetPixelData`, `bound s i` for the rational bound (numerator over a
    common denominator `den`) obtained from the stream's QCD through the inverse 9/7 and inverse ICT.
    It is NOT proved: the float32 9/7 lifting, the ICT, T1 and T2 have no model.  The harness searches it. -/
def c12_bound_FullStatement (enc : List Int → Option (List Nat)) (dec : List Nat → Option (List Int))
    (bound : List Nat → Nat → Int) (den allowance : Int) : Prop :=
  ∀ img : List Int, ∃ s, enc img = some s ∧ ∃ out, dec s = some out ∧ out.length = img.length ∧
    ∀ i (h : i < img.length) (h' : i < out.length), den * ((out[i] - img[i]).natAbs : Int) ≤ bound s i + den * allowance

end J2kQuant
