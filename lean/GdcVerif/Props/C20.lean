import GdcVerif.Model.Rct
import GdcVerif.Model.Dwt53
import GdcVerif.Model.Mqc
import GdcVerif.Lemmas.Rct
import GdcVerif.Lemmas.Dwt53
import GdcVerif.Lemmas.Dwt53Levels
import GdcVerif.Lemmas.Dwt53Int32
import GdcVerif.Lemmas.Mqc
import GdcVerif.Lemmas.MqcDec
import GdcVerif.Lemmas.MqcExact
import GdcVerif.Lemmas.MqcIdeal
import GdcVerif.Lemmas.MqcRoundtrip2
import GdcVerif.Lemmas.T1Tables
import GdcVerif.Lemmas.T1Model
import GdcVerif.Lemmas.T1Lock
import GdcVerif.Lemmas.T1LockStyles
import GdcVerif.Lemmas.T1Termall
import GdcVerif.Lemmas.T1LayeredLock
import GdcVerif.Lemmas.T1Side
import GdcVerif.Lemmas.T1Trunc
import GdcVerif.Lemmas.T1LazyFinal
import GdcVerif.Lemmas.T1PipeFinal
import GdcVerif.Lemmas.MqcLen
/-!
  C20 — JPEG 2000 building blocks are exact inverses: RCT, 5/3 DWT, MQ coder, EBCOT T1.

  Property theorems only; lemmas live in `Lemmas/Rct.lean`, `Lemmas/Dwt53.lean`, `Lemmas/Mqc.lean`.
  * RCT: theorems over the *generated* kernels `Gen.J2kColor.RCTForward/RCTInverse`.
  * DWT: theorems over the code-shaped model `Model/Dwt53.lean` (tied by correspondence), whose
    window sequence uses the generated `Gen.J2kWavelet.nextLowpassWindow`.
  * MQ: invariants of the code-shaped model `Model/Mqc.lean` over the generated tables, and the
    byte-level round trip `mq_roundtrip`.
  * T1: facts about the regenerated tables and pass predicates; the code-shaped model `Model/T1.lean` of
    `Encode` / `DecodeWithBitplane` for the code-block styles without LAZY (tied by `t1-enc` / `t1-dec`
    correspondence): every context label is in range, neither direction can index-panic (encoder: 28 of the 32
    styles, TERMALL included), and the block round trip is proved for style 0 (`t1_roundtrip`), every
    RESET / VSC / SEGSYM combination (`t1_roundtrip_styles`) and with PTERM (`t1_roundtrip_pterm`).  The layered API
    (`EncodeLayered` / `DecodeLayeredWithMode`, `Model/T1Layered.lean`, tied by `t1-lenc` / `t1-ldec` correspondence)
    round-trips for ALL 64 styles with the reported pass lengths (`t1_layered_roundtrip`).
-/
namespace C20
open Gen.J2kColor

/-! ## RCT -/

/-- the inverse RCT undoes the forward RCT for all integers (Go `>>` = floor division) -/
theorem rct_inverse (r g b : Int) :
    RCTInverse (RCTForward r g b).1 (RCTForward r g b).2.1 (RCTForward r g b).2.2 = (r, g, b) :=
  Rct.inverse_forward r g b

/-- int32 reading, forward: for `|r|,|g|,|b| ≤ 2^28` no int32 operation wraps, i.e. the literal
int32 semantics of `RCTForward` equals the generated `Int` kernel … -/
theorem rct_forward_int32 (r g b : Int) (hr : -268435456 ≤ r ∧ r ≤ 268435456)
    (hg : -268435456 ≤ g ∧ g ≤ 268435456) (hb : -268435456 ≤ b ∧ b ≤ 268435456) :
    Rct.forward32 r g b = RCTForward r g b := Rct.forward32_eq hr hg hb

/-- … and the int32 code itself round-trips on that domain -/
theorem rct_inverse_int32 (r g b : Int) (hr : -268435456 ≤ r ∧ r ≤ 268435456)
    (hg : -268435456 ≤ g ∧ g ≤ 268435456) (hb : -268435456 ≤ b ∧ b ≤ 268435456) :
    Rct.inverse32 (Rct.forward32 r g b).1 (Rct.forward32 r g b).2.1 (Rct.forward32 r g b).2.2 = (r, g, b) :=
  Rct.inverse32_forward32 hr hg hb

/-- `ApplyInverseRCTToComponents (ApplyRCTToComponents r g b)` returns the input, sample by sample -/
theorem rct_components_inverse (r g b : List Int) (hg : g.length = r.length) (hb : b.length = r.length) :
    (Rct.applyForward r g b).bind (fun t => Rct.applyInverse (t.map (·.1)) (t.map (·.2.1)) (t.map (·.2.2)))
      = some (r.zip (g.zip b)) := Rct.apply_roundtrip r g b hg hb

/-- non-vacuity: the bounds admit the extreme triple, on which the transform is not the identity -/
example : (-268435456 ≤ (268435456 : Int) ∧ (268435456 : Int) ≤ 268435456) ∧
    RCTForward 268435456 (-268435456) 268435456 = (0, 536870912, 536870912) := by decide

/-! ## 5/3 DWT -/
open Dwt53

/-- 1D: `Inverse53_1DWithParity(Forward53_1DWithParity(x, even), even) = x` for every length and both
parities (integer reading; the Go functions panic exactly on the empty slice with `even == false`) -/
theorem inverse53_forward53_1d {w : Nat} (x : Vector Int w) (even : Bool) :
    (forward53_1d id x even).bind (fun y => inverse53_1d id y even) =
      if w ≠ 0 ∨ even = true then some x else none := Dwt53.inverse53_forward53_1d x even

/-- 1D, int32 reading, forward: for `|x[k]| ≤ M ≤ 2^29 - 1` no int32 operation of the forward transform
wraps (the `Go.wrap32` model equals the integer model) and the coefficients are bounded by `2M+1` -/
theorem forward53_1d_int32 {w : Nat} (x : Vector Int w) (even : Bool) (hok : w ≠ 0 ∨ even = true)
    {M : Int} (hM0 : 0 ≤ M) (hM : M ≤ 536870911) (hb : ∀ k (h : k < w), -M ≤ x[k] ∧ x[k] ≤ M) :
    forward53_1d' Go.wrap32 x even hok = forward53_1d' id x even hok ∧
    Bnd (2 * M + 1) (toFn (forward53_1d' id x even hok)) := Dwt53.forward53_1d_int32 x even hok hM0 hM hb

/-- 1D, int32 reading: the int32 code round-trips for `|x[k]| ≤ 2^28 - 1` -/
theorem inverse53_forward53_1d_int32 {w : Nat} (x : Vector Int w) (even : Bool) (hok : w ≠ 0 ∨ even = true)
    (hb : ∀ k (h : k < w), -268435455 ≤ x[k] ∧ x[k] ≤ 268435455) :
    inverse53_1d' Go.wrap32 (forward53_1d' Go.wrap32 x even hok) even hok = x :=
  Dwt53.inverse53_forward53_1d_int32 x even hok hb

/-- 2D with stride: `Inverse53_2DWithParity ∘ Forward53_2DWithParity = id` on every window no wider than
the stride, both parities per axis; both panic iff the window does not fit into the buffer -/
theorem inverse53_forward53_2d {n : Nat} (data : Vector Int n) (width height stride : Nat) (evenRow evenCol : Bool)
    (hws : width ≤ stride) :
    (forward53_2d id data width height stride evenRow evenCol).bind
        (fun d => inverse53_2d id d width height stride evenRow evenCol) =
      if (width ≤ 1 ∧ height ≤ 1) ∨ fits n width height stride then some data else none :=
  Dwt53.inverse53_forward53_2d data width height stride evenRow evenCol hws

/-- multilevel: `InverseMultilevelWithParity(ForwardMultilevelWithParity(data, w, h, levels, x0, y0), …) = data`
for every width, height, level count and origin `(x0, y0)` (window sequence = generated `nextLowpassWindow`) -/
theorem inverse53_forward53_multilevel {n : Nat} (data : Vector Int n) (width height levels : Nat) (x0 y0 : Int)
    (hn : height * width ≤ n) :
    (forwardMultilevel id data width height levels x0 y0).bind
        (fun d => inverseMultilevel id d width height levels x0 y0) = some data :=
  Dwt53.inverse53_forward53_multilevel data width height levels x0 y0 hn

/-- multilevel, int32 reading: for `|data[k]| ≤ M` with `bndL levels M ≤ 2^29 - 1` (`bndL` iterates
`M ↦ 4M+3`, i.e. `4^levels·(M+1) ≤ 2^29`) no int32 operation wraps at any level, and the transform computed
in Go's int32 arithmetic round-trips -/
theorem inverse53_forward53_multilevel_int32 {n : Nat} (data : Vector Int n) (width height levels : Nat)
    (x0 y0 : Int) (hn : height * width ≤ n) {M : Int} (hM0 : 0 ≤ M) (hML : bndL levels M ≤ 536870911)
    (hd : Bnd M (toFn data)) :
    (forwardMultilevel Go.wrap32 data width height levels x0 y0).bind
        (fun d => inverseMultilevel Go.wrap32 d width height levels x0 y0) = some data :=
  Dwt53.inverse53_forward53_multilevel_int32 data width height levels x0 y0 hn hM0 hML hd

/-- the magnitude hypothesis holds for the sample ranges the codec feeds the transform: 16-bit signed
samples up to 6 levels, 12-bit up to 8 levels, 16-bit unsigned (after RCT: 17 bits) up to 5 levels -/
theorem dwt_magnitude_bound_examples :
    bndL 6 32768 ≤ 536870911 ∧ bndL 8 2048 ≤ 536870911 ∧ bndL 5 65535 ≤ 536870911 := Dwt53.bndL_examples

/-- non-vacuity: the hypotheses are satisfiable by non-degenerate instances — a 5×3 window in a
15-sample buffer with stride 5, any origin; a signal at the magnitude bound -/
example : (3 * 5 ≤ 15) ∧ (5 ≤ 5) ∧ fits 15 5 3 5 ∧
    (let x : Vector Int 3 := #v[268435455, -268435455, 7]
     ∀ k (h : k < 3), (-268435455 : Int) ≤ x[k] ∧ x[k] ≤ (268435455 : Int)) := by
  refine ⟨by decide, by decide, by decide, ?_⟩
  intro x k h
  have : k = 0 ∨ k = 1 ∨ k = 2 := by omega
  rcases this with rfl | rfl | rfl <;> simp [x]

/-! ## MQ coder (invariants only; the round trip is `mq_roundtrip_FullStatement`) -/
open Mqc

/-- the generated tables `qeTable / nmpsTable / nlpsTable / switchTable` are well-formed: 47 entries each;
every state `< 47` has `1 ≤ Qe ≤ 0x5601`, `NMPS, NLPS < 47`, `SWITCH ∈ {0,1}` (so no table index of the
coder can leave the tables, and `a - Qe` cannot underflow from a renormalised `a ≥ 0x8000`) -/
theorem mq_tables_wf :
    (Gen.J2kMqc.qeTable.size = 47 ∧ Gen.J2kMqc.nmpsTable.size = 47 ∧ Gen.J2kMqc.nlpsTable.size = 47 ∧
      Gen.J2kMqc.switchTable.size = 47) ∧
    ∀ s, s < 47 →
      (tab Gen.J2kMqc.qeTable s).isSome ∧ 1 ≤ (tab Gen.J2kMqc.qeTable s).getD 0 ∧
        (tab Gen.J2kMqc.qeTable s).getD 0 ≤ 0x5601 ∧
      (tab Gen.J2kMqc.nmpsTable s).isSome ∧ (tab Gen.J2kMqc.nmpsTable s).getD 0 < 47 ∧
      (tab Gen.J2kMqc.nlpsTable s).isSome ∧ (tab Gen.J2kMqc.nlpsTable s).getD 0 < 47 ∧
      (tab Gen.J2kMqc.switchTable s).isSome ∧ (tab Gen.J2kMqc.switchTable s).getD 0 ≤ 1 :=
  ⟨Mqc.tables_size, Mqc.tables_wf⟩

/-- … and every table entry is a non-negative literal (the model reads them through `Int.toNat`) -/
theorem mq_tables_nonneg : ∀ s, s < 47 →
    0 ≤ (Gen.J2kMqc.qeTable[s]?).getD (-1) ∧ 0 ≤ (Gen.J2kMqc.nmpsTable[s]?).getD (-1) ∧
    0 ≤ (Gen.J2kMqc.nlpsTable[s]?).getD (-1) ∧ 0 ≤ (Gen.J2kMqc.switchTable[s]?).getD (-1) := Mqc.tables_nonneg

/-- register invariants: after `NewMQEncoder(n)` and any sequence of `Encode(bit, cx)` with `cx < n` the
encoder has not panicked and is renormalised: `0x8000 ≤ a < 0x10000`, `1 ≤ ct ≤ 13`, `c < 2^28`
(so no uint32 operation wrapped), `bp` inside the buffer -/
theorem mq_encoder_registers (n : Nat) (ds : List (Nat × Nat)) (hds : ∀ d ∈ ds, d.2 < n) :
    ∃ e, encodeAll (Enc.new n) ds = some e ∧ 0x8000 ≤ e.a ∧ e.a < 0x10000 ∧ 1 ≤ e.ct ∧ e.ct ≤ 13 ∧
      e.c < 2 ^ 28 ∧ e.bp < e.buf.size := Mqc.encoder_registers n ds hds

/-- `ErtermEnc()` (predictable termination, PTERM) never panics: after any sequence of `Encode` calls its byte-out
loop terminates within its fuel and stays inside the buffer -/
theorem mq_erterm_no_panic (n : Nat) (ds : List (Nat × Nat)) (hds : ∀ d ∈ ds, d.2 < n) :
    ∃ e e', encodeAll (Enc.new n) ds = some e ∧ ertermEnc e = some e' := by
  obtain ⟨h0, n0, s0⟩ := Mqc.new_ok n
  obtain ⟨e, he, hr, _, _⟩ := Mqc.encodeAll_spec ds (Enc.new n) h0 n0 (by rw [s0]; exact hds)
  obtain ⟨e', he', _⟩ := T1.ertermEnc_ok e hr
  exact ⟨e, e', he, he'⟩

/-- non-vacuity -/
example : ∀ d ∈ [((1 : Nat), (0 : Nat)), (0, 1)], d.2 < 2 := by decide

/-- byte-stream invariant (reused by C16): for every decision sequence `Encode…; Flush()` returns a byte
string in which every element is a byte and every 0xFF is followed by a byte ≤ 0x8F -/
theorem mq_encoder_stream (n : Nat) (ds : List (Nat × Nat)) (hds : ∀ d ∈ ds, d.2 < n) :
    ∃ bytes, encodeBytes n ds = some bytes ∧ StreamOk bytes := Mqc.encoder_stream n ds hds

/-- … in particular `Flush` never leaves a trailing 0xFF -/
theorem mq_flush_no_trailing_ff (n : Nat) (ds : List (Nat × Nat)) (hds : ∀ d ∈ ds, d.2 < n) :
    ∃ bytes, encodeBytes n ds = some bytes ∧ bytes.getLast? ≠ some 255 := by
  obtain ⟨bytes, h1, h2⟩ := Mqc.encoder_stream n ds hds
  exact ⟨bytes, h1, h2.no_trailing_ff⟩

/-- non-vacuity: a concrete sequence over 2 contexts meets the hypothesis -/
example : ∀ d ∈ [((1 : Nat), (0 : Nat)), (0, 1), (1, 1), (1, 0)], d.2 < 2 := by decide

/-- decoder robustness: for EVERY byte string and every sequence of context ids `< n` the MQ decoder
(`NewMQDecoder`, then `Decode` per id) returns normally with one bit per request — no index panic, in
particular no read outside `data ++ [0xFF, 0xFF]`, and the `for a < 0x8000` loop terminates — and ends
renormalised: `0x8000 ≤ a < 0x10000`, `0 ≤ ct ≤ 8`, `c < 2^32`, `bp` inside the sentinel-extended data -/
theorem mq_decoder_total (bytes : List Nat) (n : Nat) (cxs : List Nat) (hcx : ∀ cx ∈ cxs, cx < n) :
    ∃ d0 bits d, Dec.new bytes n = some d0 ∧ decodeAll d0 cxs = some (bits, d) ∧
      bits.length = cxs.length ∧ (∀ b ∈ bits, b ≤ 1) ∧
      0x8000 ≤ d.a ∧ d.a < 0x10000 ∧ 0 ≤ d.ct ∧ d.ct ≤ 8 ∧ d.c < 2 ^ 32 ∧ d.bp < bytes.length + 2 :=
  Mqc.decoder_total bytes n cxs hcx

/-- `byteout()` is value preserving in exact arithmetic, in all four branches (after 0xFF / plain / carry into
the previous byte / carry that makes the previous byte 0xFF): with `val` the exact integer denoted by the
emitted bytes (a byte after 0xFF weighs 2^7, any other 2^8), `val'·2^27 + c'·2^ct' = (val·2^27 + c)·2^ct'` -/
theorem mq_byteout_exact (e : Enc) (x : Nat) (hb : BufOk e.buf e.bp) (hx1 : 1 ≤ x) (hx2 : x ≤ 65536)
    (hA : e.c + x ≤ 150994944)
    (hB : 1 ≤ e.bp → rd e.buf (e.bp - 1) = 255 → rd e.buf e.bp * 134217728 + e.c + x ≤ 19327352832) :
    ∀ e', byteout e = some e' →
      val e'.buf e'.bp * 134217728 + e'.c * 2 ^ e'.ct.toNat =
        (val e.buf e.bp * 134217728 + e.c) * 2 ^ e'.ct.toNat := Mqc.byteout_val e x hb hx1 hx2 hA hB

/-- The encoder against the IDEAL (unbounded precision) interval coder — kept next to `mq_roundtrip` because it
names what the registers mean: (1) after any decision sequence the code-shaped encoder's emitted bytes and code
register denote EXACTLY the low end `L` of the ideal encoder's interval, and `a` is its width — carries and
stuffed bytes included; (2) for any code bit source whose value lies in that final interval `[L, L+a)` the ideal
decoder (state `D = value − L`, `a`; decision by `D < Qe` with the conditional exchange of `Decode`) returns
exactly the MPS/LPS decisions of the sequence. -/
theorem mq_ideal_roundtrip (n : Nat) (ds : List (Nat × Nat)) (hds : ∀ d ∈ ds, d.2 < n)
    (src : Nat → Nat) (hsrc : ∀ k, src k ≤ 1) (P0 p0 : Nat) :
    ∃ e steps, encodeAll (Enc.new n) ds = some e ∧ trace (Enc.new n) ds = some steps ∧
      Exact e (jrun src { L := 0, a := 0x8000, P := P0, p := p0 } steps).L ∧
      e.a = (jrun src { L := 0, a := 0x8000, P := P0, p := p0 } steps).a ∧
      ((jrun src { L := 0, a := 0x8000, P := P0, p := p0 } steps).In →
        (idecRun src { D := P0, a := 0x8000, p := p0 } (steps.map (·.1))).1 = steps.map (·.2)) :=
  Mqc.roundtrip_ideal_partial n ds hds src hsrc P0 p0

/-- non-vacuity of the containment hypothesis: with no decisions the final interval is `[0, 0x8000)` and
any 15-bit prefix lies in it -/
example : (jrun (fun _ => 1) { L := 0, a := 0x8000, P := 0x7FFF, p := 15 } []).In := by
  unfold jrun J.In; decide

/-- **MQ round trip (full statement, proved)**: for every number of contexts `n` and every sequence of decisions
`(bit, contextID)` with `bit ≤ 1`, `contextID < n`: `NewMQEncoder(n)`, `Encode` each decision, `Flush()` returns bytes
from which `NewMQDecoder(bytes, n)` followed by `Decode(contextID)` per decision returns exactly the encoded bits.
Proof (Lemmas/MqcRoundtrip*.lean): facts about the encoder relative to its FINAL byte buffer `B`, proved backwards from
`Flush` (`setbits` + two `byteout`s: the stream with 0xFF padding stays below the upper end of every earlier
interval, and every earlier low end is below the next value representable after the bytes emitted later — carry
propagation and the carry parked after a 0xFF included), and a lock-step relation proved forwards: with `R` the
exact value (stuffing weights) of the bytes the decoder has consumed beyond the encoder's current byte,
`R · 2^(16 − ct_d) = c_enc · 2^16 + c_dec`; the decoder's test `c_dec < Qe·2^16` then follows from the facts at
the encoder's post-decision state, and `a`, the contexts and the renormalisation shifts agree step by step. -/
theorem mq_roundtrip (n : Nat) (ds : List (Nat × Nat)) (hds : ∀ x ∈ ds, x.1 ≤ 1 ∧ x.2 < n) :
    ∃ bytes, encodeBytes n ds = some bytes ∧ decodeBits bytes n (ds.map (·.2)) = some (ds.map (·.1)) :=
  Mqc.mq_roundtrip n ds hds

/-- non-vacuity: a concrete sequence meets the hypothesis -/
example : ∀ x ∈ [((1 : Nat), (0 : Nat)), (0, 1), (1, 1), (1, 0), (0, 0)], x.1 ≤ 1 ∧ x.2 < 2 := by decide

/-! ## EBCOT T1: regenerated tables and pass predicates -/
open Gen.J2kT1

/-- the regenerated context tables are well-formed: `lutCtxnoZc` has 2048 entries in `0..8`, `lutCtxnoSc` 256
entries in `9..13`, `lutSpb` 256 entries in `0..1`; magnitude-refinement contexts are `14..16`; hence every
context label T1 can pass to the MQ coder is `< NUMCONTEXTS = 19` (the hypothesis of the MQ theorems) -/
theorem t1_context_tables_wf :
    (lutCtxnoZc.size = 2048 ∧ ∀ i (h : i < lutCtxnoZc.size), CTXZCSTART ≤ lutCtxnoZc[i] ∧ lutCtxnoZc[i] ≤ CTXZCEND) ∧
    (lutCtxnoSc.size = 256 ∧ ∀ i (h : i < lutCtxnoSc.size), CTXSCSTART ≤ lutCtxnoSc[i] ∧ lutCtxnoSc[i] ≤ CTXSCEND) ∧
    (lutSpb.size = 256 ∧ ∀ i (h : i < lutSpb.size), 0 ≤ lutSpb[i] ∧ lutSpb[i] ≤ 1) ∧
    (∀ flags, CTXMRSTART ≤ getMagRefinementContext flags ∧ getMagRefinementContext flags ≤ CTXMREND) ∧
    (CTXZCEND < NUMCONTEXTS ∧ CTXSCEND < NUMCONTEXTS ∧ CTXMREND < NUMCONTEXTS ∧ CTXRL < NUMCONTEXTS ∧
      CTXUNI < NUMCONTEXTS) :=
  ⟨⟨T1.zc_all.1, T1.zc_range⟩, ⟨T1.sc_all.1, T1.sc_range⟩, ⟨T1.spb_all.1, T1.spb_range⟩, T1.mr_range, T1.context_ids_lt⟩

/-- a block with `planes ≥ 1` coded bit-planes has `3·planes − 2` coding passes (cleanup of the top plane,
then SPP/MRP/CUP per lower plane) -/
theorem t1_pass_count (planes : Nat) (h : 1 ≤ planes) : (T1.schedule planes).length = 3 * planes - 2 :=
  T1.schedule_length planes h

/-- over the regenerated `isLazyRawPass` / `isTerminatingPass`: the coder (MQ vs raw bypass) changes only after
a terminated pass; under TERMALL every pass is terminated; the last cleanup pass always is -/
theorem t1_segments_wf (bp mb pt style : Int) (hpt : 0 ≤ pt ∧ pt ≤ 2) :
    (isLazyRawPass (T1.next bp pt).1 mb (T1.next bp pt).2 style ≠ isLazyRawPass bp mb pt style →
      isTerminatingPass bp mb pt style = true) ∧
    (Go.and style CblkStyleTermAll ≠ 0 → isTerminatingPass bp mb pt style = true) ∧
    isTerminatingPass 0 mb 2 style = true :=
  ⟨T1.coder_switch_terminated bp mb pt style hpt, T1.terminating_termall bp mb pt style, T1.terminating_last mb style⟩

/-- non-vacuity: in a LAZY block the pass after the cleanup of bit-plane `mb-3` is raw, the cleanup itself is not -/
example : isLazyRawPass 4 8 0 1 = true ∧ isLazyRawPass 5 8 2 1 = false ∧ isTerminatingPass 5 8 2 1 = true := by decide

/-! ## EBCOT T1: the code-shaped model of the three coding passes (styles without LAZY) -/

/-- the context labels the model's passes hand to the MQ coder: for every flag word and orientation the
zero-coding lookup succeeds with a label in `0..8`, the sign-coding lookup with a label in `9..13`, the
sign-prediction lookup with a bit, and the magnitude-refinement label is in `14..16` — with `CTXRL = 17` and
`CTXUNI = 18` all labels are `< 19`, the size of the MQ context array (no table or context index panic) -/
theorem t1_model_contexts (f orient : Nat) :
    (∃ c, T1.zcCtx f orient = some c ∧ c ≤ 8) ∧ (∃ c, T1.scCtx f = some c ∧ 9 ≤ c ∧ c ≤ 13) ∧
    (∃ b, T1.spb f = some b ∧ b ≤ 1) ∧ (14 ≤ T1.mrCtx f ∧ T1.mrCtx f ≤ 16) ∧
    T1.CTXRL = 17 ∧ T1.CTXUNI = 18 ∧ T1.NUMCONTEXTS = 19 :=
  ⟨T1.zcCtx_ok f orient, T1.scCtx_ok f, T1.spb_ok f, T1.mrCtx_ok f, rfl, rfl, rfl⟩

/-- **the block encoder never panics**: for any block size, orientation, pass limit, any coefficients
(`len(coeffs) = w·h`) and any code-block style without LAZY in which TERMALL and PTERM are not combined (28 of the 32
styles without raw passes: RESET, TERMALL with `RestartInitEnc`, VSC, PTERM with `ErtermEnc`, SEGSYM), the model of
`Encode` returns bytes — every access to the padded flag and coefficient arrays, the context tables, the 19 MQ contexts
and the MQ output buffer is in range; after a termination `RestartInitEnc` re-establishes the coder invariant (the
branch `ct = 13` is unreachable) -/
theorem t1_encode_no_panic (w h orient style : Nat) (coeffs : List Int) (numPasses : Nat)
    (hlen : coeffs.length = w * h) (hL : Go.and (style : Int) CblkStyleLazy = 0)
    (hTP : Go.and (style : Int) CblkStyleTermAll ≠ 0 → T1.styPterm style = false) :
    ∃ bytes, T1.encodeBlock w h orient style coeffs numPasses = .ok bytes :=
  T1.encodeBlock_no_panic_all w h orient style coeffs numPasses hlen hL hTP

/-- non-vacuity: a 2x2 block, style RESET|TERMALL|SEGSYM -/
example : ([1, 0, 0, -3] : List Int).length = 2 * 2 ∧ Go.and ((38 : Nat) : Int) CblkStyleLazy = 0 ∧
    (Go.and ((38 : Nat) : Int) CblkStyleTermAll ≠ 0 → T1.styPterm 38 = false) := by decide

/-- **the block decoder never panics, whatever the input**: for any non-empty byte string, any claimed pass
count, any claimed top bit-plane and any style, the model of `DecodeWithBitplane` (one codeword segment; it reads
the RESET and SEGSYM bits) returns coefficients — the MQ decoder stays inside its buffer (sentinel + the c50eb7d
guard) and all flag/coefficient/table/context accesses are in range -/
theorem t1_decode_no_panic (w h orient style numPasses : Nat) (maxBitplane : Int) (bytes : List Nat)
    (hb : bytes.length ≠ 0) :
    ∃ out, T1.decodeBlock w h orient style numPasses maxBitplane bytes = .ok out :=
  T1.decodeBlock_no_panic w h orient style numPasses maxBitplane bytes hb

/-- non-vacuity -/
example : ([0xFF, 0x7F, 0x00] : List Nat).length ≠ 0 := by decide

/-- **the T1 block round trip** (code-block style 0, all passes): for every block size, orientation and coefficients
in `(-2^31, 2^31)` with top bit-plane `mb`, the model of `Encode` emits bytes from which the model of
`DecodeWithBitplane(bytes, 3·(mb+1) − 2, mb)` returns exactly the coefficients.  Proof: encoder and decoder passes
in lock-step (equal flag arrays; decoder coefficient = encoder coefficient truncated below the current bit-plane),
every coding decision being one MQ decision whose bit the decoder recovers by `Mqc.step_rel` -/
theorem t1_roundtrip (w h orient mb : Nat) (coeffs : List Int) (hlen : coeffs.length = w * h)
    (hbnd : ∀ c ∈ coeffs, -2147483648 < c ∧ c < 2147483648)
    (hmb : T1.findMaxBitplane (T1.padBlock w h coeffs) = some mb) :
    ∃ bytes, T1.encodeBlock w h orient 0 coeffs (3 * (mb + 1) - 2) = .ok bytes ∧
      T1.decodeBlock w h orient 0 (3 * (mb + 1) - 2) mb bytes = .ok coeffs := by
  rw [show 3 * (mb + 1) - 2 = 3 * mb + 1 by omega]
  exact T1.t1_roundtrip w h orient mb coeffs hlen (fun c hc => by have := hbnd c hc; omega) hmb

/-- non-vacuity: a 2x2 block with top bit-plane 1 -/
example : ([1, 0, 0, -3] : List Int).length = 2 * 2 ∧ (∀ c ∈ ([1, 0, 0, -3] : List Int), -2147483648 < c ∧ c < 2147483648) ∧
    T1.findMaxBitplane (T1.padBlock 2 2 [1, 0, 0, -3]) = some 1 := by decide

/-- **the T1 block round trip for the styles built from RESET, VSC and SEGSYM** (any combination; no LAZY, TERMALL,
PTERM; the VSC bit is not read by the code): as `t1_roundtrip`, with the segmentation symbol after every cleanup pass
and the context reset after every pass on both sides -/
theorem t1_roundtrip_styles (w h orient style mb : Nat) (coeffs : List Int) (hlen : coeffs.length = w * h)
    (hbnd : ∀ c ∈ coeffs, -2147483648 < c ∧ c < 2147483648)
    (hmb : T1.findMaxBitplane (T1.padBlock w h coeffs) = some mb)
    (hT : Go.and (style : Int) CblkStyleTermAll = 0) (hL : Go.and (style : Int) CblkStyleLazy = 0)
    (hP : T1.styPterm style = false) :
    ∃ bytes, T1.encodeBlock w h orient style coeffs (3 * (mb + 1) - 2) = .ok bytes ∧
      T1.decodeBlock w h orient style (3 * (mb + 1) - 2) mb bytes = .ok coeffs := by
  rw [show 3 * (mb + 1) - 2 = 3 * mb + 1 by omega]
  exact T1.t1_roundtrip_styles w h orient style mb coeffs hlen (fun c hc => by have := hbnd c hc; omega) hmb hT hL hP

/-- non-vacuity: style RESET|VSC|SEGSYM -/
example : Go.and ((42 : Nat) : Int) CblkStyleTermAll = 0 ∧ Go.and ((42 : Nat) : Int) CblkStyleLazy = 0 ∧
    T1.styPterm 42 = false := by decide

/-! ## EBCOT T1: the layered API (`EncodeLayered` / `DecodeLayeredWithMode`, `Model/T1Layered.lean`) -/

/-- **layered T1 round trip, ALL 64 code-block styles** (LAZY, RESET, TERMALL, VSC, PTERM, SEGSYM in any
combination; `style < 64`): `DecodeLayeredWithMode`, given the bytes and the cumulative pass lengths that
`EncodeLayered` reports (after `normalizePassRates`), returns the coefficients — the full T1 clause of C20.
MQ codeword segments: terminated by `FlushToOutput` or (PTERM) `ErtermEnc`; the bytes in front of a segment are
never touched again (`Mqc.InSeg`), the decoder of a segment is in lock-step with the restarted encoder
(`Mqc.decInit_rel`, `Mqc.decode_shift`), contexts are carried or reset on both sides, empty segments are allowed.
Raw segments (LAZY, significance and refinement passes below plane `mb - 3`): the bit writer `BypassEncode` /
`BypassFlushEnc` and the reader `RawDecode` are in lock-step bit by bit (`Mqc.raw_step`: 7-bit byte after 0xFF,
0/1 padding, a dropped trailing 0xFF or 0xFF 0x7F read back from the 0xFF 0xFF sentinel).  Segment boundaries come
from the reported lengths: `normalizePassRates` keeps the length of every terminated pass (`T1.normalize_anchor`)
although the estimates of the other passes are clipped.  Without PTERM the stream is never empty; under PTERM an
empty stream, which the decoder rejects (`empty code-block data`), is not excluded — `ErtermEnc` can end without a
byte (witness at the MQ level in the registry notes) -/
theorem t1_layered_roundtrip (w h orient style mb : Nat) (coeffs : List Int) (hlen : coeffs.length = w * h)
    (hbnd : ∀ c ∈ coeffs, -2147483648 < c ∧ c < 2147483648)
    (hmb : T1.findMaxBitplane (T1.padBlock w h coeffs) = some mb) (hs : style < 64) :
    ∃ rates bytes, T1.encodeLayered w h orient style coeffs (3 * (mb + 1) - 2) = .ok (rates, (mb : Int), bytes) ∧
      (T1.styPterm style = false → bytes ≠ []) ∧
      (bytes ≠ [] → T1.decodeLayered w h orient style (mb : Int) rates bytes = .ok coeffs) := by
  rw [show 3 * (mb + 1) - 2 = 3 * mb + 1 by omega]
  exact T1.t1_layered_roundtrip_all w h orient style mb coeffs hlen (fun c hc => by have := hbnd c hc; omega) hmb hs

/-- non-vacuity: LAZY|RESET|TERMALL|PTERM|SEGSYM = 55, a block whose top plane 5 leaves raw passes on planes 1, 0 -/
example : (55 : Nat) < 64 ∧ T1.findMaxBitplane (T1.padBlock 2 1 [-45, 19]) = some 5 := by decide

/-- **`Encode` / `DecodeWithBitplane` round trip with PTERM** (styles without LAZY and TERMALL; extends
`t1_roundtrip_styles` by `ErtermEnc` as the final termination, with the same caveat about an empty stream) -/
theorem t1_roundtrip_pterm (w h orient style mb : Nat) (coeffs : List Int) (hlen : coeffs.length = w * h)
    (hbnd : ∀ c ∈ coeffs, -2147483648 < c ∧ c < 2147483648)
    (hmb : T1.findMaxBitplane (T1.padBlock w h coeffs) = some mb)
    (hT : Go.and (style : Int) CblkStyleTermAll = 0) (hL : Go.and (style : Int) CblkStyleLazy = 0) :
    ∃ bytes, T1.encodeBlock w h orient style coeffs (3 * (mb + 1) - 2) = .ok bytes ∧
      (T1.styPterm style = false → bytes ≠ []) ∧
      (bytes ≠ [] → T1.decodeBlock w h orient style (3 * (mb + 1) - 2) mb bytes = .ok coeffs) := by
  rw [show 3 * (mb + 1) - 2 = 3 * mb + 1 by omega]
  exact T1.t1_roundtrip_plainP w h orient style mb coeffs hlen (fun c hc => by have := hbnd c hc; omega) hmb hT hL

/-- non-vacuity: RESET|PTERM|SEGSYM -/
example : Go.and ((50 : Nat) : Int) CblkStyleTermAll = 0 ∧ Go.and ((50 : Nat) : Int) CblkStyleLazy = 0 := by decide

/-- **the block encoder never panics, all 32 styles without LAZY** (TERMALL and PTERM combined included), for
coefficients in the `int32` range `(-2^31, 2^31)`: `ErtermEnc` leaves a `TermOk` state as well (`T1.term_facts`) -/
theorem t1_encode_no_panic_mq (w h orient style : Nat) (coeffs : List Int) (numPasses : Nat)
    (hlen : coeffs.length = w * h) (hbnd : ∀ c ∈ coeffs, -2147483648 < c ∧ c < 2147483648)
    (hL : Go.and (style : Int) CblkStyleLazy = 0) :
    ∃ bytes, T1.encodeBlock w h orient style coeffs numPasses = .ok bytes :=
  T1.encodeBlock_no_panic_mq w h (T1.padBlock w h coeffs)
    (T1.padBlock_bound w h coeffs (fun c hc => by have := hbnd c hc; omega)) orient style coeffs numPasses hlen rfl hL

/-- non-vacuity: TERMALL|PTERM -/
example : Go.and ((20 : Nat) : Int) CblkStyleLazy = 0 := by decide

/-- **length bound for MQ output** (crude): every `Encode` shifts the code register by at most 15 bits (`Qe ≥ 1`),
a byte leaves it every 7 or 8 shifts, `Flush` adds at most three bytes — `n` decisions give at most
`(15·n + 8)/7 + 2` bytes.  Enough to bound a codeword segment that holds one coding pass (TERMALL: a pass over
≤ 4096 samples makes ≤ 11264 decisions → ≤ 24140 bytes); the sharp bound for a whole block needs an amortised
argument over the probability states and is not attempted -/
theorem mq_len_bound (n : Nat) (ds : List (Nat × Nat)) (hds : ∀ d ∈ ds, d.2 < n) :
    ∃ bytes, Mqc.encodeBytes n ds = some bytes ∧ bytes.length ≤ (15 * ds.length + 8) / 7 + 2 :=
  Mqc.mq_len_bound n ds hds

/-- non-vacuity: the bound for one pass of a 64x64 block -/
example : (15 * 11264 + 8) / 7 + 2 = 24140 ∧ 24140 ≤ 65535 := by decide

/-! ## EBCOT T1 in the configuration of the reversible pipeline (`Model/T1Pipe.lean`)

`jpeg2000/encoder.go` feeds `Encode` the coefficients shifted left by 6 with `SetNMSEDecFractionalBits(6)`;
`t2/tile_decoder.go` decodes with `SetOpenJPEGReconstruction(true)` at `maxBitplane = numbps` (one more than the
plane index) and halves the result. -/

/-- **pipeline configuration, encoder side**: with `fb ≥ 1` fractional bits, `Encode` on the block scaled by `2^fb`
emits exactly the bytes of the plain `Encode` on the block itself — the loop stops below plane `fb`, the added low
planes are never coded, and the stream always ends with `Flush()` (every pass count; styles without LAZY, TERMALL,
PTERM, RESET) -/
theorem t1_pipeline_encode (fb w h orient style : Nat) (coeffs : List Int) (np : Nat) (hfb : 1 ≤ fb)
    (hT : Go.and (style : Int) CblkStyleTermAll = 0) (hL : Go.and (style : Int) CblkStyleLazy = 0)
    (hP : T1.styPterm style = false) (hR : T1.styReset style = false) :
    T1.encodeBlockF fb w h orient style (coeffs.map (fun c => c * ((2 ^ fb : Nat) : Int))) np =
      T1.encodeBlock w h orient style coeffs np :=
  T1.encodeBlockF_scale fb w h orient style coeffs np hfb hT hL hP hR

/-- non-vacuity: style 0 and SEGSYM|VSC = 40 qualify; the scaling by 2^6 -/
example : Go.and ((40 : Nat) : Int) CblkStyleTermAll = 0 ∧ Go.and ((40 : Nat) : Int) CblkStyleLazy = 0 ∧
    T1.styPterm 40 = false ∧ T1.styReset 40 = false ∧ [(-3 : Int), 5].map (fun c => c * ((2 ^ 6 : Nat) : Int)) = [-192, 320] := by
  decide

/-- **pipeline configuration, round trip** (style 0, all `3(mb+1)-2` passes, `|c| < 2^25` so that `c << fb` is an
`int32` for `fb ≤ 6`): the block scaled by `2^fb` through `Encode` with `fb` fractional bits, then
`DecodeWithBitplane` with OpenJPEG reconstruction started at `maxBitplane = numbps = mb + 1`, then `/= 2`
(`T1.halveT`, Go division) — gives the block back.  During decoding a sample coded down to plane `l` holds
`sign·(2·⌊|c|/2^l⌋·2^l + 2^l)` (`T1.ojv`), `sign·(2|c|+1)` at the end -/
theorem t1_pipeline_roundtrip (fb w h orient mb : Nat) (coeffs : List Int) (hfb : 1 ≤ fb)
    (hlen : coeffs.length = w * h) (hbnd : ∀ c ∈ coeffs, -33554432 < c ∧ c < 33554432)
    (hmb : T1.findMaxBitplane (T1.padBlock w h coeffs) = some mb) :
    ∃ bytes out,
      T1.encodeBlockF fb w h orient 0 (coeffs.map (fun c => c * ((2 ^ fb : Nat) : Int))) (3 * (mb + 1) - 2) = .ok bytes ∧
      T1.decodeBlockOJ w h orient 0 (3 * (mb + 1) - 2) ((mb + 1 : Nat) : Int) bytes = .ok out ∧
      out.map T1.halveT = coeffs := by
  rw [show 3 * (mb + 1) - 2 = 3 * mb + 1 by omega]
  exact T1.t1_pipeline_roundtrip fb w h orient mb coeffs hfb hlen (fun c hc => by have := hbnd c hc; omega) hmb

/-- non-vacuity -/
example : T1.findMaxBitplane (T1.padBlock 2 1 [-13, 11]) = some 3 ∧ T1.halveT (-27) = -13 ∧ T1.halveT 23 = 11 ∧
    T1.ojv 0 (-13) = -27 := by decide

/-- **pipeline configuration, the all-zero block**: both encoder configurations emit FF 7F (the flush of a fresh
coder), the pipeline still sends ONE pass, and that cleanup pass over FF 7F decodes to zeros in both reconstruction
modes at any start plane: behind FF 7F the reader feeds 1-bits, the code register stays at the top of the interval
(`Mqc.ZInv`: `C = A·2^16 - 2^(16-ct)`), and the run-length and zero-coding contexts only walk the MPS chain of
states 3,4,5,38..45 with `Qe ≤ 0x0AC1`, so every decision is 0 (styles without SEGSYM) -/
theorem t1_pipeline_zero_block (fb w h orient style mbd : Nat) (coeffs : List Int) (np : Nat)
    (hlen : coeffs.length = w * h) (hz : T1.findMaxBitplane (T1.padBlock w h coeffs) = none)
    (hS : T1.stySegsym style = false) :
    T1.encodeBlockF fb w h orient style coeffs np = .ok [255, 127] ∧
    T1.encodeBlock w h orient style coeffs np = .ok [255, 127] ∧
    T1.decodeBlockOJ w h orient style 1 (mbd : Int) [255, 127] = .ok (List.replicate (w * h) 0) ∧
    T1.decodeBlock w h orient style 1 (mbd : Int) [255, 127] = .ok (List.replicate (w * h) 0) ∧
    coeffs = List.replicate (w * h) 0 :=
  ⟨(T1.encode_zero_bytes fb w h orient style coeffs np hlen hz).1, (T1.encode_zero_bytes fb w h orient style coeffs np hlen hz).2,
    T1.decodeBlockOJ_zero w h orient style mbd hS, T1.decodeBlock_zero w h orient style mbd hS,
    T1.zero_of_nomax w h coeffs hlen hz⟩

/-- non-vacuity -/
example : T1.findMaxBitplane (T1.padBlock 2 2 [0, 0, 0, 0]) = none ∧ T1.stySegsym 0 = false := by decide

/-- side case, truncated pass count (styles without LAZY and TERMALL, `1 ≤ np < 3(mb+1)-2`): decoding the stream
with the same pass count returns every coefficient truncated below a plane `lev x y` (`T1.tr p v` keeps the sign
and clears the magnitude bits below `p`), which is the plane of the last coded pass or the one above it — exactly
the plane of the last pass when that pass is a cleanup pass -/
theorem t1_truncated (w h orient style mb np : Nat) (coeffs : List Int) (hlen : coeffs.length = w * h)
    (hbnd : ∀ c ∈ coeffs, -2147483648 < c ∧ c < 2147483648)
    (hmb : T1.findMaxBitplane (T1.padBlock w h coeffs) = some mb)
    (hT : Go.and (style : Int) CblkStyleTermAll = 0) (hL : Go.and (style : Int) CblkStyleLazy = 0)
    (h1 : 1 ≤ np) (h2 : np < 3 * (mb + 1) - 2) :
    ∃ (bytes : List Nat) (lev : Nat → Nat → Nat), T1.encodeBlock w h orient style coeffs np = .ok bytes ∧
      T1.decodeBlock w h orient style np (mb : Int) bytes =
        .ok ((List.range h).flatMap fun y => (List.range w).map fun x =>
          T1.tr (lev x y) (coeffs.getD (y * w + x) 0)) ∧
      ∀ x y, x < w → y < h → (lev x y = mb - (np + 1) / 3 ∨ lev x y = mb - (np + 1) / 3 + 1) ∧
        (np % 3 = 1 → lev x y = mb - (np + 1) / 3) :=
  T1.t1_truncated w h orient style mb np coeffs hlen (fun c hc => by have := hbnd c hc; omega) hmb hT hL h1 (by omega)

/-- non-vacuity: a block with top plane 3 and 5 of its 10 passes; truncation below plane 2 of -13 and 11 -/
example : T1.findMaxBitplane (T1.padBlock 2 1 [-13, 11]) = some 3 ∧ 5 < 3 * (3 + 1) - 2 ∧
    T1.tr 2 (-13) = -12 ∧ T1.tr 2 11 = 8 := by decide

/-- side case, all-zero block: `Encode` emits the flush of a fresh coder (no pass), `EncodeLayered` no pass and no
byte; decoding with zero passes returns the zero block -/
theorem t1_zero_block (w h orient style : Nat) (coeffs : List Int) (np : Nat) (hlen : coeffs.length = w * h)
    (hz : T1.findMaxBitplane (T1.padBlock w h coeffs) = none) :
    coeffs = List.replicate (w * h) 0 ∧
    (∃ bytes, T1.encodeBlock w h orient style coeffs np = .ok bytes ∧ bytes ≠ [] ∧
      ∀ mb : Int, T1.decodeBlock w h orient style 0 mb bytes = .ok coeffs) ∧
    T1.encodeLayered w h orient style coeffs np = .ok ([], -1, []) := by
  have hc := T1.zero_of_nomax w h coeffs hlen hz
  obtain ⟨bytes, he, hne⟩ := T1.encodeBlock_zero w h orient style coeffs np hlen hz
  refine ⟨hc, ⟨bytes, he, hne, fun mb => ?_⟩, T1.encodeLayered_zero w h orient style coeffs np hlen hz⟩
  rw [T1.decodeBlock_nopass w h orient style mb bytes (by intro h0; exact hne (List.length_eq_zero_iff.mp h0))]
  rw [← hc]

/-- non-vacuity -/
example : T1.findMaxBitplane (T1.padBlock 2 2 [0, 0, 0, 0]) = none := by decide

end C20
