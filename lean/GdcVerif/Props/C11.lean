import GdcVerif.Model.Dct
import GdcVerif.Lemmas.Dct
import GdcVerif.Lemmas.DctDqt
import GdcVerif.Lemmas.DctDetect
import GdcVerif.Lemmas.DctHuff
import GdcVerif.Lemmas.DctColour
import GdcVerif.Lemmas.DctPass
import GdcVerif.Lemmas.DctBlock
import GdcVerif.Lemmas.DctRgb
import GdcVerif.Spec.T81ZigZag
/-!
  C11 — JPEG DCT codecs (Baseline / Extended): loss bounded by the declared quantisation.  PARTIAL.

  Proved (logical layers; `Gen.*` definitions are regenerated from /repo on every run):
  * `ScaleQuantTable` per-entry expression (generated loop body incl. the quality→scale prefix): every entry is
    in 1..255 for EVERY input; for quality 1..100 and 8-bit base entries no int32 step wraps and the value is
    the IJG formula;
  * `ZigZag` (generated table) is T.81 Figure A.6 (independent spec), a permutation of 0..63, and
    `Unzig ∘ ZigZag = id = ZigZag ∘ Unzig` for the table `init()` builds (model);
  * quantiser contract on the generated 8-bit loop body (divisor 8·Q) and on `sequential12Quantize` /
    the 12-bit loop body: |c − d·quant(c)| ≤ d/2 for every coefficient and every divisor d ≥ 1;
  * edge replication index `min(8b+x, w−1)` is in 0..w−1 and the identity inside the image;
  * DQT: for every base table and every quality the bytes writeDQT emits parse back (parseDQT) to exactly the
    table the quantiser uses — general proof (model; the model is tied to the real streams by `jpg-dqt`).
  * detectBitDepth (fix 12cadee) skips segment payloads: the 12-bit decoder is selected for every stream whose
    first frame header declares precision 12, whatever bytes DQT/APPn payloads contain (old witness kept).
  * Huffman category coding of coefficients (EncodeCategory / ReceiveExtend) round-trips for every value.
  * colour matrices (generated rgbToYCbCr loop body, ycbcrToRGB): outputs in 0..255, the clamp is needed (Cb, Cr reach
    256) and makes byte() faithful, round trip within 2 per channel for every RGB triple.
  * fixed-point DCT pair: per-pass linear-form-plus-one-rounding bounds for the four generated passes, consistency of
    the forward/inverse constant matrices to 5.9e-5.
  * `c11_bound_block`, `c11_bound_grey8`: THE BOUND ITSELF for the 8-bit greyscale path — every block, every table,
    every image size, every quality: |decoded − source| ≤ (1/8)·Σ C(u)C(v)·Q[u,v] + 2 (exact integer form), on the
    model built from the generated passes.
  * `c11_bound_rgb`: the RGB bound through the colour matrix, with an allowance < 7 (the property says 5).
  NOT proved: the RGB allowance 5 and the bound for 12-bit (float IDCT);
  `c11_bound_FullStatement` (all codecs, real functions) stays a `def` and is searched.
-/
namespace Dct
open Gen.JpegStd Gen.JpegBaseline Gen.JpegExtended
set_option maxRecDepth 100000

/-- (1) every entry ScaleQuantTable can produce is a valid 8-bit DQT entry — for every quality and base value -/
theorem c11_scale_entry_in_1_255 (quality i b r : Int) :
    1 ≤ ScaleQuantTable.entry quality i b r ∧ ScaleQuantTable.entry quality i b r ≤ 255 :=
  scale_entry_range quality i b r
/-- (1') in the accepted quality range nothing wraps and the entry is the IJG formula -/
theorem c11_scale_entry_formula (quality i b r : Int) (hq : 1 ≤ quality ∧ quality ≤ 100) (hb : 0 ≤ b ∧ b ≤ 255) :
    let scale := if quality < 50 then 5000 / quality else 200 - 2 * quality
    0 ≤ scale ∧ scale ≤ 5000 ∧ Go.wrap32 scale = scale ∧ b * scale + 50 < 2147483648 ∧
    ScaleQuantTable.entry quality i b r = max 1 (min 255 ((b * scale + 50) / 100)) :=
  scale_entry_formula quality i b r hq hb
/-- (1'') hence every table the encoders can use has 64 entries in 1..255 -/
theorem c11_scaled_table_valid (base : Array Int) (quality : Int) :
    (scaleQuantTable base quality).size = base.size ∧
    ∀ v ∈ (scaleQuantTable base quality).toList, 1 ≤ v ∧ v ≤ 255 := by
  refine ⟨by simp [scaleQuantTable], ?_⟩
  intro v hv
  simp only [scaleQuantTable, Array.toList_mapIdx, List.mem_mapIdx] at hv
  obtain ⟨i, _, rfl⟩ := hv
  exact scale_entry_range _ _ _ _
example : scaleQuantTable DefaultLuminanceQuantTable 1 = Array.replicate 64 255 ∧
    (scaleQuantTable DefaultLuminanceQuantTable 100).toList.all (· == 1) = true ∧
    (scaleQuantTable DefaultChrominanceQuantTable 50) = DefaultChrominanceQuantTable := by decide

/-- (2) the zig-zag table of the code is T.81 Figure A.6 -/
theorem c11_zigzag_is_figure_A6 : ZigZag.toList = T81.zigzag.map Int.ofNat := by decide
/-- (2') it is a permutation of 0..63 -/
theorem c11_zigzag_perm : ZigZag.size = 64 ∧ (List.range 64).all (fun n => ZigZag.toList.contains (n : Int)) = true := by
  decide
/-- (2'') `init()` succeeds (no index out of range) and Unzig∘ZigZag = id, ZigZag∘Unzig = id -/
theorem c11_unzig_inverse : ∃ u, unzigInit = some u ∧ u.size = 64 ∧
    (List.range 64).all (fun i => (getI ZigZag i).bind (getI u) == some (i : Int)) = true ∧
    (List.range 64).all (fun n => (getI u n).bind (getI ZigZag) == some (n : Int)) = true := by
  refine ⟨_, rfl, ?_, ?_, ?_⟩ <;> decide

/-- (3) quantiser contract, 8-bit path (generated loop body of Encoder.quantizeBlock): with divisor d = 8·Q,
    Q ≥ 1, the quantised coefficient k satisfies |c − d·k| ≤ d/2 — for every coefficient c -/
theorem c11_quantiser_8bit (enc : Encoder) (bx bY s t i q c : Int) (hq : 1 ≤ q) :
    let k := quantizeBlock.entry enc bx bY s t i q c
    2 * (c - (q * 8) * k) ≤ q * 8 ∧ -(q * 8) ≤ 2 * (c - (q * 8) * k) := by
  intro k; simp only [k, quant8_is_symQuant]; exact symQuant_bound c (q * 8) (by omega)
/-- (3') 12-bit path: `sequential12Quantize` (generated) for every divisor d ≥ 1 -/
theorem c11_quantiser_12bit (c d : Int) (hd : 1 ≤ d) :
    2 * (c - d * sequential12Quantize c d) ≤ d ∧ -d ≤ 2 * (c - d * sequential12Quantize c d) := by
  rw [seq12_is_symQuant]; exact symQuant_bound c d (by omega)
/-- (3'') and the loop body that calls it with `qtable[i] << 3` -/
theorem c11_quantiser_12bit_entry (bx bY i c q r : Int) (hq : 1 ≤ q) :
    let k := quantizeBlock12.entry bx bY i c q r
    2 * (c - (q * 8) * k) ≤ q * 8 ∧ -(q * 8) ≤ 2 * (c - (q * 8) * k) := by
  intro k; simp only [k, quant12_entry]; exact symQuant_bound c (q * 8) (by omega)
example : quantizeBlock.entry default 0 0 0 0 0 3 (-37) = -2 ∧ sequential12Quantize 12 24 = 1 ∧ sequential12Quantize 11 24 = 0 := by decide

/-- (4) edge replication index -/
theorem c11_edge_index (b x w : Int) (hb : 0 ≤ b) (hx : 0 ≤ x) (hw : 1 ≤ w) :
    0 ≤ edgeIdx b x w ∧ edgeIdx b x w < w ∧ (b * 8 + x < w → edgeIdx b x w = b * 8 + x) := edge_idx b x w hb hx hw
example : edgeIdx 2 5 17 = 16 ∧ edgeIdx 1 3 17 = 11 := by decide

/-- (5) DQT index map: writing a table whose n-th entry is n and parsing it back gives the same table — the
    composition of writeDQT's gather and parseDQT's scatter is the identity on positions 0..63 -/
theorem c11_dqt_index_roundtrip :
    (dqtPayload 0 (Array.ofFn (n := 64) (fun i => (i.val : Int)))).bind (fun p => parseDQT8 p.tail)
      = some (Array.ofFn (n := 64) (fun i => (i.val : Int))) := by decide
/-- (5') DQT bytes emitted = table used, in general: for EVERY 64-entry base table and EVERY quality the payload
    writeDQT emits (byte(id), then byte(q[ZigZag[j]])) is parsed by parseDQT's 8-bit branch back to exactly the
    table `quantizeBlock` divides by.  (General proof: entries are in 1..255 by (1), ZigZag is a bijection of 0..63.) -/
theorem c11_dqt_roundtrip_all (base : Array Int) (hb : base.size = 64) (quality id : Int) :
    (dqtPayload id (scaleQuantTable base quality)).bind (fun p => parseDQT8 p.tail)
      = some (scaleQuantTable base quality) := by
  have hv := c11_scaled_table_valid base quality
  apply dqt_roundtrip_general id _ (by rw [hv.1, hb])
  intro n h
  have := hv.2 _ (Array.getElem_mem_toList h)
  omega
example : (dqtPayload 0 (scaleQuantTable DefaultLuminanceQuantTable 9)).map (fun p => (p[22]?, p[23]?)) = some (some 255, some 194) := by
  decide

/-- (6) extended.detectBitDepth (since fix 12cadee) reads the precision from the first SOF0..3 header whatever the
    payloads of the preceding segments contain: for any list of length-carrying segments (DQT, DHT, APPn, COM, …)
    followed by a frame header with precision byte `prec`, the result is 12 iff `prec = 12` -/
theorem c11_detect_skips_payloads (segs : List (Nat × List Nat)) (sofm l1 l2 prec : Nat) (tail : List Nat)
    (hs : ∀ s ∈ segs, plainMarker s.1 = true ∧ s.2.length + 2 < 65536) (hm : 192 ≤ sofm ∧ sofm ≤ 195) :
    detectBitDepth (0xFF :: 0xD8 :: (segsBytes segs ++ 0xFF :: sofm :: l1 :: l2 :: prec :: tail))
      = if prec = 12 then 12 else 8 := by
  simp only [detectBitDepth]
  apply detect_segments segs _ sofm l1 l2 prec tail hs hm
  have : (segsBytes segs).length ≥ segs.length := by
    induction segs with
    | nil => simp [segsBytes]
    | cons a t ih =>
      obtain ⟨m, p⟩ := a
      have := ih (fun s h => hs s (by simp [h]))
      simp [segsBytes, segBytes]; omega
  simp; omega
/-- regression anchor of finding c11-ext12-bitdepth-sniff-dqt (fixed by 12cadee): at quality 9 the luminance DQT
    contains FF C2; the pre-fix raw scan answered 8 for the encoder's own 12-bit header, the current code answers 12 -/
example : (seq12Header 9 1 1).map detectBitDepthOld = some 8 ∧ (seq12Header 9 1 1).map detectBitDepth = some 12 ∧
    (seq12Header 50 33 7).map detectBitDepth = some 12 := by decide

/-- (7) Huffman category coding of coefficients round-trips: for every non-zero value (|v| < 2^62) EncodeCategory
    gives a category ≥ 1 and `cat` amplitude bits 0 ≤ bits < 2^cat (so WriteBits' mask keeps them), and the
    decoder's EXTEND returns v.  (Baseline uses categories ≤ 11 for DC and ≤ 10 for AC, 12-bit ≤ 15/14.) -/
theorem c11_category_roundtrip (v : Int) (hv : v ≠ 0) (hb : v.natAbs < 2 ^ 62) :
    1 ≤ (encodeCategory v).1 ∧ 0 ≤ (encodeCategory v).2 ∧ (encodeCategory v).2 < (2 : Int) ^ (encodeCategory v).1 ∧
    extend (encodeCategory v).1 (encodeCategory v).2 = v := category_roundtrip v hv hb
example : encodeCategory (-37) = (6, 26) ∧ extend 6 26 = -37 ∧ encodeCategory 1023 = (10, 1023) ∧ encodeCategory 0 = (0, 0) := by
  decide

/-- (8) RGB→YCbCr (GENERATED loop body of Encoder.rgbToYCbCr): for 8-bit r, g, b the three stored bytes are in 0..255
    and equal the clamp of the fixed-point values; the unclamped values range over Y 0..255, Cb 1..256, Cr 1..256 -/
theorem c11_colour_forward_range (enc : Encoder) (row col sr st a1 a2 a3 r g b : Int)
    (hr : 0 ≤ r ∧ r ≤ 255) (hg : 0 ≤ g ∧ g ≤ 255) (hb : 0 ≤ b ∧ b ≤ 255) :
    rgbToYCbCr.entry enc row col sr st r g b a1 a2 a3 =
      (fwdY r g b, min 255 (fwdCb r g b), min 255 (fwdCr r g b)) ∧
    0 ≤ fwdY r g b ∧ fwdY r g b ≤ 255 ∧ 1 ≤ fwdCb r g b ∧ fwdCb r g b ≤ 256 ∧ 1 ≤ fwdCr r g b ∧ fwdCr r g b ≤ 256 := by
  have h := fwd_ranges r g b hr hg hb
  refine ⟨?_, h⟩
  rw [fwd_entry_eq, (clamp_byte _).2.2, (clamp_byte _).2.2, (clamp_byte _).2.2]
  congr 1
  · omega
  · congr 1 <;> omega
/-- (8') the clamp is NEEDED: pure blue gives Cb = 256 and pure red gives Cr = 256 before clamping, which `byte()` alone
    would wrap to 0 (a full-range chroma error); with the clamp the stored byte is 255 -/
theorem c11_colour_clamp_needed :
    fwdCb 0 0 255 = 256 ∧ fwdCr 255 0 0 = 256 ∧ Go.uwrap8 256 = 0 ∧
    Go.uwrap8 (Gen.JpegStd.Clamp (fwdCb 0 0 255) 0 255) = 255 ∧ Go.uwrap8 (Gen.JpegStd.Clamp (fwdCr 255 0 0) 0 255) = 255 := by decide
/-- (8'') round trip through the two GENERATED fixed-point matrices (rgbToYCbCr loop body, ycbcrToRGB): every channel of
    every 8-bit RGB triple comes back within 2 (the bound is attained, e.g. (2,0,68)) -/
theorem c11_colour_roundtrip (enc : Encoder) (row col sr st a1 a2 a3 r g b : Int)
    (hr : 0 ≤ r ∧ r ≤ 255) (hg : 0 ≤ g ∧ g ≤ 255) (hb : 0 ≤ b ∧ b ≤ 255) :
    let f := rgbToYCbCr.entry enc row col sr st r g b a1 a2 a3
    let i := ycbcrToRGB f.1 f.2.fst f.2.snd
    (-2 : Int) ≤ i.1 - r ∧ i.1 - r ≤ 2 ∧ -2 ≤ i.2.fst - g ∧ i.2.fst - g ≤ 2 ∧ -2 ≤ i.2.snd - b ∧ i.2.snd - b ≤ 2 :=
  colour_roundtrip enc row col sr st a1 a2 a3 r g b hr hg hb
example : let e : Encoder := { width := 1, height := 1, components := 3, quality := 90 }
    rgbToYCbCr.entry e 0 0 0 8 0 0 255 0 0 0 = (29, 255, 107) ∧ ycbcrToRGB 29 255 107 = (0, 1, 254) ∧
    rgbToYCbCr.entry e 0 0 0 8 2 0 68 0 0 0 = (8, 162, 123) ∧ ycbcrToRGB 8 162 123 = (0, 0, 68) := by decide

/-- (9) fixed-point DCT pair, per-pass analysis (GENERATED 1-D passes of DCTISlow/IDCTISlow).  Every pass is an integer
    linear form of its inputs with literal 13-bit-constant coefficients followed by one rounding `descale`:
    |2^s·out − form| ≤ 2^(s−1) for ALL inputs — forward rows (s = 11; outputs 0 and 4 exact), forward columns
    (s = 15; outputs 0, 4: s = 2), inverse columns incl. dequantisation (s = 11), inverse rows (s = 18, then +128, clamp,
    byte).  The four statements with their coefficient rows are `fdct_row_pass`, `fdct_col_pass`, `idct_col_pass`,
    `idct_row_pass` in Lemmas/DctPass.lean; this theorem packages the forward row pass as the representative. -/
theorem c11_dct_row_pass_bound (y d0 d1 d2 d3 d4 d5 d6 d7 : Int) :
    let r := DCTISlow.row 8 y d0 d7 d1 d6 d2 d5 d3 d4
    r.1 = 4 * (d0 + d1 + d2 + d3 + d4 + d5 + d6 + d7) ∧
    (-1024 ≤ 2048 * r.2.snd.fst - (10703 * d0 + 4433 * d1 - 4433 * d2 - 10703 * d3 - 10703 * d4 - 4433 * d5 + 4433 * d6 + 10703 * d7) ∧
      2048 * r.2.snd.fst - (10703 * d0 + 4433 * d1 - 4433 * d2 - 10703 * d3 - 10703 * d4 - 4433 * d5 + 4433 * d6 + 10703 * d7) ≤ 1024) := by
  have h := fdct_row_pass y d0 d1 d2 d3 d4 d5 d6 d7
  intro r
  refine ⟨by have := h.1; simp only [r] at this ⊢; omega, ?_⟩
  have := h.2.2.1
  simp only [r] at this ⊢
  omega
/-- (9') the forward and inverse 13-bit constant matrices (the coefficient rows of the pass theorems) are mutually
    consistent: invMatrix·fwdMatrix = 2^29·I + E with |E_ij| ≤ 31601, i.e. relative 5.9e-5 -/
theorem c11_dct_constants_consistent :
    ((matMul invMatrix fwdMatrix).zipIdx.all fun (row, i) => row.zipIdx.all fun (v, j) =>
      let e := v - (if i = j then 536870912 else 0)
      decide (-31601 ≤ e ∧ e ≤ 31601)) = true := dct_matrices_consistent

/-- every entry of a scaled table, read as a function (entries outside the array read as 1), is ≥ 1 -/
theorem tableF_ge_one (base : Array Int) (quality : Int) (v k : Nat) : 1 ≤ tableF (scaleQuantTable base quality) v k := by
  simp only [tableF]
  cases h : (scaleQuantTable base quality)[v * 8 + k]? with
  | none => simp
  | some x =>
    have hm : x ∈ (scaleQuantTable base quality).toList := by
      have := Array.mem_of_getElem? h
      simpa using this
    simpa using ((c11_scaled_table_valid base quality).2 x hm).1

/-- (10) C11, BLOCK LEVEL, 8-bit greyscale path — the first end-to-end numeric theorem.  Model: level shift, the
    GENERATED forward row/column passes, the GENERATED quantiser loop body, the GENERATED inverse column/row passes
    (dequantisation, +128, clamp, byte) composed by the functional 2-D glue `blockF` (tied to standard.DCTISlow /
    IDCTISlow and to the real block round trip by `jpg-fdct`, `jpg-idct`, `jpg-blockbound`).
    For EVERY 8×8 block of bytes and EVERY quantisation table with entries ≥ 1, every reconstructed sample satisfies
        8·(|decoded − source| − 2) ≤ Σ_{u,v} C(u)C(v)·Q[u,v]      (C(0) = 1/√2, C(u≥1) = 1)
    stated exactly in integers (`withinF`: X ≤ 0 ∨ X² ≤ 2M²).  Ingredients: the four per-pass bounds (9), the matrix
    consistency (9'), the quantiser contract (3), M1 = `vbound`/`block_int` (propagation through the composite integer
    map with the absolute row sums of the inverse matrix; total rounding budget ≤ 1.44 < 2), M2 = `rowS`/`S_le`/
    `sq_le_two` (|inv[i][0]| = 2^13, |inv[i][j]| ≤ 11363 and 11363² ≤ 2·8192², i.e. ≤ 2^13·√2·C(j) — by squaring, no
    reals), M3 = `clamp_bound`. -/
theorem c11_bound_block (blk q : Blk) (hb : ∀ y j, 0 ≤ blk y j ∧ blk y j ≤ 255) (hq : ∀ v k, 1 ≤ q v k)
    (y x : Nat) (hy : y < 8) (hx : x < 8) :
    withinF (blockF blk q y x - blk y x) q := block_bound blk q hb hq y x hy hx

/-- (10') C11 for 8-bit greyscale images at every quality and every size: for every w × h image of bytes, every
    quality (the table is `ScaleQuantTable(base, quality)`, any 64-entry base table — entries are in 1..255 by (1), and
    they are the DQT bytes by (5')), every pixel (X, Y) inside the image — partial edge blocks included, through the
    edge-replication index map (4) — the decoded sample is within (1/8)·Σ C(u)C(v)·Q[u,v] + 2 of the source sample.
    At quality 100 (all entries 1) this gives |decoded − source| ≤ 9 < 10.
    Scope: the DCT / quantisation / dequantisation / IDCT / clamp chain on the model above.  The entropy-coding layer is
    covered separately (c15_ac_runlength_roundtrip, c11_category_roundtrip: the decoder gets the quantised coefficients
    back) and so is the pixel→block addressing (c15_addressing); Huffman table construction and the marker container
    are not composed into this statement. -/
theorem c11_bound_grey8 (img : Blk) (w h : Nat) (base : Array Int) (quality : Int)
    (hb : ∀ y j, 0 ≤ img y j ∧ img y j ≤ 255) (X Y : Nat) (hX : X < w) (hY : Y < h) :
    withinF (decodedPixel img w h (tableF (scaleQuantTable base quality)) X Y - img Y X)
      (tableF (scaleQuantTable base quality)) :=
  image_bound img _ w h hb (tableF_ge_one base quality) X Y hX hY
example : withinF 9 (tableF (scaleQuantTable DefaultLuminanceQuantTable 100)) ∧
    ¬ withinF 10 (tableF (scaleQuantTable DefaultLuminanceQuantTable 100)) := by decide

/-- (11) C11 for 8-bit RGB (baseline 4:4:4) on the model: planes by the GENERATED rgbToYCbCr body (with edge
    replication), each plane block by block through `blockF` with its own table (Y: qY, Cb/Cr: qC), the GENERATED
    ycbcrToRGB per pixel (tied end to end to baseline.Encode/Decode by `jpg-rgbimage`).  For every image size, every pair of
    tables with entries ≥ 1 (in particular ScaleQuantTable of any quality), every pixel inside the image, with
    B(q) = LinB q / 2^30 ≤ (1/8)·Σ C(u)C(v)·q[u,v]:
        |R' − r| ≤ B(qY) + 1.402·B(qC) + 5.75      (= 1.44·2.402 + 2.289)
        |G' − g| ≤ B(qY) + 1.058·B(qC) + 5.96      (= 1.44·2.058 + 3)
        |B' − b| ≤ B(qY) + 1.772·B(qC) + 6.59      (= 1.44·2.772 + 2.594)
    stated exactly in integers (units 2^-58/65536).  The table part is the property's bound propagated through the colour
    matrix; the ALLOWANCE obtained by composition is below 7, NOT the property's 5: the per-component rounding budget 1.44
    enters 2.4–2.8 times, and the colour round trip (2) and the floors of ycbcrToRGB (≤ 1) add on top.  The property's
    allowance 5 is not provable by this composition; it is what the search observes. -/
theorem c11_bound_rgb (img : Rgb) (w h : Nat) (qY qC : Blk)
    (himg : ∀ y x, (0 ≤ (img y x).1 ∧ (img y x).1 ≤ 255) ∧ (0 ≤ (img y x).2.fst ∧ (img y x).2.fst ≤ 255) ∧ (0 ≤ (img y x).2.snd ∧ (img y x).2.snd ≤ 255))
    (hqY : ∀ v k, 1 ≤ qY v k) (hqC : ∀ v k, 1 ≤ qC v k) (X Y : Nat) (hX : X < w) (hY : Y < h) :
    let o := decodedRgb img w h qY qC X Y
    let K : Int := 415051741658464912
    let s : Int := 288230376151711744
    (-(65536 * (K + 268435456 * LinB qY) + 91881 * (K + 268435456 * LinB qC) + 150000 * s) ≤ s * (65536 * (o.1 - (img Y X).1)) ∧
      s * (65536 * (o.1 - (img Y X).1)) ≤ 65536 * (K + 268435456 * LinB qY) + 91881 * (K + 268435456 * LinB qC) + 150000 * s) ∧
    (-(65536 * (K + 268435456 * LinB qY) + (22554 + 46802) * (K + 268435456 * LinB qC) + 196608 * s) ≤ s * (65536 * (o.2.fst - (img Y X).2.fst)) ∧
      s * (65536 * (o.2.fst - (img Y X).2.fst)) ≤ 65536 * (K + 268435456 * LinB qY) + (22554 + 46802) * (K + 268435456 * LinB qC) + 196608 * s) ∧
    (-(65536 * (K + 268435456 * LinB qY) + 116130 * (K + 268435456 * LinB qC) + 170000 * s) ≤ s * (65536 * (o.2.snd - (img Y X).2.snd)) ∧
      s * (65536 * (o.2.snd - (img Y X).2.snd)) ≤ 65536 * (K + 268435456 * LinB qY) + 116130 * (K + 268435456 * LinB qC) + 170000 * s) :=
  rgb_bound img w h qY qC himg hqY hqC X Y hX hY
example : LinB (tableF (scaleQuantTable DefaultLuminanceQuantTable 100)) = 67108864 + 93085696 * 14 + 129117769 * 49 := by decide

/-- The full property for ALL codecs of C11, over the (unmodelled as a whole) real encoder/decoder pairs: `enc`/`dec`
    stand for baseline/extended Encode/Decode, `bound s i` for the numerator (over `den`) of the DQT bound of sample i of
    stream s (through the colour matrix for RGB), `allow` = 2 (5 RGB).  PROVED INSTANCES: 8-bit greyscale on the model with the property's allowance 2
    (`c11_bound_grey8`); 8-bit RGB with an allowance below 7 instead of 5 (`c11_bound_rgb`).  NOT proved: the RGB allowance 5, 12-bit (float IDCT of
    decodeSequential12 has no model), and the composition with Huffman table construction and the container. -/
def c11_bound_FullStatement (enc : List Int → Option (List Nat)) (dec : List Nat → Option (List Int))
    (bound : List Nat → Nat → Int) (den allow : Int) : Prop :=
  ∀ img : List Int, ∃ s, enc img = some s ∧ ∃ out, dec s = some out ∧ out.length = img.length ∧
    ∀ i (h : i < img.length) (h' : i < out.length), den * ((out[i] - img[i]).natAbs : Int) ≤ bound s i + den * allow

end Dct
