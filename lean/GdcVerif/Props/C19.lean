import GdcVerif.Model.J2kTiles
import GdcVerif.Lemmas.J2kTiles
import GdcVerif.Lemmas.J2kAssemble
import GdcVerif.Lemmas.J2kResDims
import GdcVerif.Lemmas.J2kTileRect
import GdcVerif.Lemmas.J2kProgression
/-!
  C19 — JPEG 2000 tiled images: exact reversible reconstruction for every tile grid.

  Property theorems only.  `Gen.J2kTiles.*` / `Gen.J2kT2.*` are regenerated from
  jpeg2000/encoder.go, jpeg2000/tile_assembler.go and jpeg2000/t2/geometry.go on every run; the glue
  (`J2k.*`, Model/J2kTiles.lean) is hand-written and tied by the C19 correspondence run.
  T1/MQ/DWT/packet sequencing are NOT modelled here (C20 / C04); see `tiled_roundtrip_partial`.
-/
namespace J2k
open Gen.J2kTiles

/-- (1) encoder `tileBounds` and decoder `TileLayout.GetTileBounds` (generated) return the same rectangle
    for every tile index of the grid -/
theorem tileBounds_enc_eq_dec (W H TW TH idx : Int) (hW : 1 ≤ W) (hH : 1 ≤ H) (hTW : 1 ≤ TW) (hTH : 1 ≤ TH)
    (hidx : 0 ≤ idx) (hlt : idx < encNumTiles W TW * encNumTiles H TH) :
    encTileBounds W H TW TH idx = decTileBounds W H TW TH idx := by
  unfold encNumTiles at hlt
  rw [tdiv_eq_ediv (by omega), tdiv_eq_ediv (by omega)] at hlt
  exact enc_eq_dec' W H TW TH idx hW hH hTW hTH hidx hlt

example : encTileBounds 12 12 5 5 4 = (5, 5, 10, 10) ∧ decTileBounds 12 12 5 5 4 = (5, 5, 10, 10) ∧
    encTileBounds 12 12 5 5 8 = (10, 10, 12, 12) := by decide

/-- (2a) every tile of the grid is a non-empty rectangle inside the image (so the slice bounds of the
    row copies in transformTile / AssembleTile are in range) -/
theorem tile_rect_in_image (W H TW TH idx : Int) (hW : 1 ≤ W) (hH : 1 ≤ H) (hTW : 1 ≤ TW) (hTH : 1 ≤ TH)
    (hidx : 0 ≤ idx) (hlt : idx < encNumTiles W TW * encNumTiles H TH) :
    let r := encTileBounds W H TW TH idx
    0 ≤ r.1 ∧ r.1 < r.2.2.1 ∧ r.2.2.1 ≤ W ∧ 0 ≤ r.2.1 ∧ r.2.1 < r.2.2.2 ∧ r.2.2.2 ≤ H := by
  unfold encNumTiles at hlt
  rw [tdiv_eq_ediv (by omega), tdiv_eq_ediv (by omega)] at hlt
  rw [encTileBounds_eq W H TW TH idx hW hTW hidx]
  exact rect_in_image' W H TW TH idx hW hH hTW hTH hidx hlt

/-- (2b) the rectangles COVER the image: every pixel lies in the tile with index ⌊y/TH⌋·nx + ⌊x/TW⌋ -/
theorem tile_rects_cover (W H TW TH x y : Int) (hW : 1 ≤ W) (hTW : 1 ≤ TW) (hTH : 1 ≤ TH)
    (hx0 : 0 ≤ x) (hx : x < W) (hy0 : 0 ≤ y) (hy : y < H) :
    ∃ idx, 0 ≤ idx ∧ idx < encNumTiles W TW * encNumTiles H TH ∧ inRect (encTileBounds W H TW TH idx) x y := by
  have h := cover' W H TW TH x y hTW hTH hx0 hx hy0 hy
  simp only [] at h
  refine ⟨_, h.1, ?_, ?_⟩
  · unfold encNumTiles; rw [tdiv_eq_ediv (by omega), tdiv_eq_ediv (by omega)]; exact h.2.1
  · rw [encTileBounds_eq W H TW TH _ hW hTW h.1]; exact h.2.2

/-- (2c) the rectangles are pairwise DISJOINT: a pixel determines its tile index -/
theorem tile_rects_disjoint (W H TW TH x y i j : Int) (hW : 1 ≤ W) (hTW : 1 ≤ TW) (hTH : 1 ≤ TH)
    (hi : 0 ≤ i) (hj : 0 ≤ j)
    (hin : inRect (encTileBounds W H TW TH i) x y) (hjn : inRect (encTileBounds W H TW TH j) x y) : i = j := by
  rw [encTileBounds_eq W H TW TH i hW hTW hi] at hin
  rw [encTileBounds_eq W H TW TH j hW hTW hj] at hjn
  rw [unique' W H TW TH x y i hW hTW hTH hin, unique' W H TW TH x y j hW hTW hTH hjn]

example : inRect (encTileBounds 12 12 5 5 5) 11 7 ∧ ¬ inRect (encTileBounds 12 12 5 5 4) 11 7 := by
  unfold inRect; decide

/-- (3) split/assemble identity: cutting every tile out of a component plane (encoder.go transformTile) and
    copying each one back at its rectangle (tile_assembler.go AssembleTile), for all tiles of the grid, gives
    back the plane on all W·H samples — whatever the output buffer held before -/
theorem split_assemble_identity (src out : Plane) (W H TW TH : Nat) (hW : 1 ≤ W) (hH : 1 ≤ H)
    (hTW : 1 ≤ TW) (hTH : 1 ≤ TH) (i : Nat) (hi : i < W * H) :
    splitAssemble src W H TW TH (numTilesNat W H TW TH) out i = src i :=
  split_assemble_identity' src out W H TW TH hW hH hTW hTH i hi

example : numTilesNat 12 12 5 5 = 9 ∧
    (List.range 6).map (splitAssemble (fun i => (i : Int) + 100) 3 2 2 1 (numTilesNat 3 2 2 1) (fun _ => 0))
      = [100, 101, 102, 103, 104, 105] := by decide

/-- (4a) the decoder's copies of the split kernels (t2/geometry.go) are the encoder's (encoder.go), so
    `resolutionDimsWithOrigin` computes the same thing on both sides -/
theorem resolution_dims_enc_eq_dec (len x0 : Int) (n : Nat) : resDimsT2 len x0 n = resDims len x0 n :=
  resDimsT2_eq len x0 n

/-- (4b) closed form of resolutionDimsWithOrigin for every origin and level count: the canvas interval
    [⌈x0/2ⁿ⌉, ⌈(x0+len)/2ⁿ⌉) of ISO/IEC 15444-1 B.5 -/
theorem resolution_dims_closed_form (len x0 : Int) (n : Nat) (hl : 0 ≤ len) :
    resDims len x0 n =
      ((x0 + len + 2 ^ n - 1) / 2 ^ n - (x0 + 2 ^ n - 1) / 2 ^ n, (x0 + 2 ^ n - 1) / 2 ^ n) :=
  resDims_closed len x0 n hl

/-- (4c) tile-origin agreement inside the encoder, FULL (since fix 104b234): for every tile origin, size and
    level count the sub-band extents the encoder cuts out of the transformed tile (getSubbandsForResolution) are
    the extents of the wavelet (ForwardMultilevelWithParity with the tile origin) and of the decoder
    (t2/geometry.go), namely the canvas interval lengths ⌈(x0+len)/2ⁿ⌉ − ⌈x0/2ⁿ⌉ -/
theorem subband_split_agreement (len x0 : Int) (n : Nat) (hl : 0 ≤ len) :
    encLowLen len x0 n = (resDimsT2 len x0 n).1 ∧
    encLowLen len x0 n = (x0 + len + 2 ^ n - 1) / 2 ^ n - (x0 + 2 ^ n - 1) / 2 ^ n := by
  unfold encLowLen
  rw [resDimsT2_eq, resDims_closed len x0 n hl]
  exact ⟨rfl, rfl⟩

example : encLowLen 5 5 1 = 2 ∧ encLowLen 5 8 3 = 1 ∧ encLowLen 37 0 3 = 5 := by decide

/-- regression anchor (old defect `j2k-tiled-subband-split-ignores-origin-parity`): 12×12 image, 5×5 tiles, tile 1
    has x0 = 5, width 5; one level: wavelet and decoder have 2 low-pass samples; the old encoder (ceil split of the
    tile width) cut 3, the repaired one 2.  The old shape agreed only for origins aligned to 2ⁿ. -/
example : (resDims 5 5 1).1 = 2 ∧ encLowLenOld 5 1 = 3 ∧ encLowLen 5 5 1 = 2 := by decide

theorem subband_split_old_shape_aligned (len x0 : Int) (n : Nat) (hl : 0 ≤ len) (hal : x0 % 2 ^ n = 0) :
    (resDims len x0 n).1 = encLowLenOld len n := aligned_agree len x0 n hl hal

/-- (5) code-block index agreement, FULL (since fixes 104b234 and 3981d09): encoder (buildTilePacketEncoder) and
    decoder (collectCodeBlockEntries) give the same (precinct column, grid index) to the code-block at band offset
    cbX0, for every canvas origin of the tile-component at that resolution, precinct and code-block width -/
theorem codeblock_index_agreement (resX0 cbX0 pw cbw : Int) (h0 : 0 ≤ resX0) (hpw : 1 ≤ pw) :
    decCbIndex resX0 cbX0 pw cbw = encCbIndex resX0 cbX0 pw cbw := by
  unfold decCbIndex encCbIndex Gen.J2kT2.floorDiv
  have c1 : ¬ pw ≤ 0 := by omega
  simp only [c1, decide_false, Bool.false_eq_true, if_false, ge_iff_le, h0, decide_true, if_true]

/-- (5b) no empty leading columns (the repair of the quadratic grid, fix 3981d09): in the first precinct column the
    k-th code-block of the band has grid index exactly k, whatever the origin of the tile-component — so the tag
    trees and state tables of a precinct are as wide as the number of code-blocks the band has in it -/
theorem codeblock_index_first_precinct (resX0 k pw cbw : Int) (h0 : 0 ≤ resX0) (hk : 0 ≤ k) (hpw : 1 ≤ pw) (hcb : 1 ≤ cbw)
    (hin : resX0 % pw + k * cbw < pw) : decCbIndex resX0 (k * cbw) pw cbw = (0, k) := by
  unfold decCbIndex Gen.J2kT2.floorDiv
  have c1 : ¬ pw ≤ 0 := by omega
  simp only [c1, decide_false, Bool.false_eq_true, if_false, ge_iff_le, h0, decide_true, if_true]
  rw [tdiv_eq_ediv h0]
  have hx : resX0 / pw * pw = resX0 - resX0 % pw := by
    have := Int.mul_ediv_add_emod resX0 pw; rw [Int.mul_comm] at this; omega
  have hm0 := Int.emod_nonneg resX0 (by omega : pw ≠ 0)
  have hkc : 0 ≤ k * cbw := Int.mul_nonneg hk (by omega)
  rw [hx]
  have e1 : resX0 + k * cbw - (resX0 - resX0 % pw) = resX0 % pw + k * cbw := by omega
  have e2 : resX0 - (resX0 - resX0 % pw) = resX0 % pw := by omega
  rw [e1, e2, tdiv_eq_ediv (by omega : 0 ≤ resX0 % pw + k * cbw), Int.ediv_eq_zero_of_lt (by omega) hin]
  simp only [Int.zero_mul, Int.add_zero, BEq.rfl, if_true]
  have e3 : resX0 + k * cbw - (resX0 - resX0 % pw) = resX0 % pw + k * cbw := by omega
  rw [e3, tdiv_eq_ediv (by omega : 0 ≤ resX0 % pw + k * cbw), tdiv_eq_ediv hm0,
    Int.add_mul_ediv_right _ _ (by omega : cbw ≠ 0)]
  have e4 : resX0 % pw / cbw + k - resX0 % pw / cbw = k := by omega
  rw [e4]

example : decCbIndex 16 0 32768 16 = (0, 0) ∧ encCbIndex 16 0 32768 16 = (0, 0) ∧
    decCbIndex 2048 128 32768 64 = (0, 2) ∧ decCbIndex 70 40 64 16 = (0, 2) ∧ decCbIndex 70 60 64 16 = (1, 0) := by decide

/-- regression anchors: (a) old defect `j2k-tiled-codeblock-index-canvas-vs-local` (17×8 image, 8×8 tiles, 16×16
    code-blocks: tile 2 has resX0 = 16): the decoder of that time gave grid index 1, the tile-local encoder 0;
    (b) old defect `c09-j2k-grid-offset` / `j2k-image-offset-cbgrid`: an 8×8 image at offset 2048 — the old decoder
    numbered its single 64-wide code-block column 32 (33-wide tag trees, squared over both axes), now 0 -/
example : decCbIndexOld 16 0 32768 16 = (0, 1) ∧ encCbIndexOld 0 32768 16 = (0, 0) ∧
    decCbIndexOld 2048 0 32768 64 = (0, 32) ∧ decCbIndex 2048 0 32768 64 = (0, 0) := by decide

/-- (6) tiled pipeline, partial: IF the per-tile codec (`codec k`: DWT with origin parity → T1 → T2 →
    packets → T2⁻¹ → T1⁻¹ → IDWT of tile k; unmodelled here) is the identity on every tile, THEN the tiled
    encode/decode of a component plane is the identity on all W·H samples: tile geometry, cut-out and placement
    are the theorems above.
    Named hypothesis `htile`: per-tile codec exact (C20 covers RCT/DWT, C04 the T2 primitives; T1/MQ/packet
    sequencing unproved).  Since fix 104b234 the search finds no tiling that refutes `htile` (before it, theorems
    4c and 5 failed for tiles whose origin is not aligned). -/
theorem tiled_roundtrip_partial (codec : Nat → Plane → Plane) (htile : ∀ k t, codec k t = t)
    (src out : Plane) (W H TW TH : Nat) (hW : 1 ≤ W) (hH : 1 ≤ H) (hTW : 1 ≤ TW) (hTH : 1 ≤ TH)
    (i : Nat) (hi : i < W * H) :
    splitAssembleWith codec src W H TW TH (numTilesNat W H TW TH) out i = src i := by
  have e : ∀ k o, splitAssembleWith codec src W H TW TH k o = splitAssemble src W H TW TH k o := by
    intro k
    induction k with
    | zero => intro o; rfl
    | succ k ih => intro o; unfold splitAssembleWith splitAssemble; simp only [ih, htile]
  rw [e]; exact split_assemble_identity' src out W H TW TH hW hH hTW hTH i hi

example : (fun (_ : Nat) (t : Plane) => t) 0 (fun _ => 7) 3 = 7 := rfl

/-! ## Image offsets and packet sequencing -/

/-- (7) the decoder's tile rectangle (generated kernel of t2.NewTileDecoder, `Gen.J2kTileClamp`) is the T.800 B.3
    rectangle — the tile's grid cell CLIPPED to the image area [XOsiz, Xsiz) × [YOsiz, Ysiz) — for every SIZ that
    T.800 allows (0 ≤ XTOsiz ≤ XOsiz < Xsiz, XTsiz ≥ 1, same in y) and every tile index; and the assembler's
    generated TileLayout.GetTileBounds places the tile at that rectangle in image-local coordinates.
    (A clamp against XTOsiz instead of XOsiz breaks this theorem at regeneration.) -/
theorem tile_rect_clipped_to_image (siz : Gen.J2kTileClamp.SIZSegment) (t : Int) (ht : Bool) (hok : SizOk siz)
    (h0 : 0 ≤ t) (hlt : t < b3NumX siz * b3NumY siz) :
    let td := Gen.J2kTileClamp.NewTileDecoder ⟨t⟩ siz ht
    (td.tileX0, td.tileY0, td.tileX1, td.tileY1) = b3Rect siz t ∧
    Gen.J2kTiles.TileLayout.GetTileBounds (layoutOf siz) t =
      (td.tileX0 - siz.XOsiz, td.tileY0 - siz.YOsiz, td.tileX1 - siz.XOsiz, td.tileY1 - siz.YOsiz) :=
  ⟨tileDecoder_rect_eq_b3 siz t ht hok h0, tileDecoder_rect_eq_assembler siz t ht hok h0 hlt⟩

/-- the seeded shape: XOsiz = 2^22, Xsiz = XTsiz = 2^22 + 16, XTOsiz = 0: one tile, clipped to 16 columns -/
example :
    let siz : Gen.J2kTileClamp.SIZSegment := ⟨0, 4194320, 64, 4194304, 0, 4194320, 64, 0, 0, 1⟩
    SizOk siz ∧ b3NumX siz * b3NumY siz = 1 ∧ b3Rect siz 0 = (4194304, 0, 4194320, 64) ∧
    Gen.J2kTiles.TileLayout.GetTileBounds (layoutOf siz) 0 = (0, 0, 16, 64) := by
  unfold SizOk; decide

end J2k

namespace J2kProg
open J2k

/-- (8) packet sequencing: the five progression loops of packet_encoder.go and packet_decoder.go generate the same
    packet sequence from the same position maps (both sides build the maps with the one shared buildPositionMaps) -/
theorem progression_loops_agree (nL nR nC : Nat) (idx : Nat → Nat → List Nat) (m : PosMaps) :
    encLRCP nL nR nC idx (fun _ _ _ => true) = decLRCP nL nR nC idx ∧
    encRLCP nL nR nC idx (fun _ _ _ => true) = decRLCP nL nR nC idx ∧
    encRPCL nL nR nC m (fun _ _ _ => true) = decRPCL nL nR nC m ∧
    encPCRL nL nR nC m (fun _ _ _ => true) = decPCRL nL nR nC m ∧
    encCPRL nL nR nC m (fun _ _ _ => true) = decCPRL nL nR nC m := loops_agree nL nR nC idx m

/-- (9) … and its INPUTS are equal for every tile of every grid (this is where fix 746634b was): the component
    bounds the encoder hands to its PacketEncoder are the tile's canvas rectangle, which is what TileDecoder.Decode
    derives from the SIZ segment the encoder wrote; sampling is (1, 1) on both sides; the precinct sizes are
    getPrecinctSize on the encoder and `1 << PPx` of the written COD (or the default 2^15) on the decoder.
    Hence buildPositionMaps returns the same maps and, by (8), the packet order is the same for all five progressions
    — given equal precinct index sets (C04 `precinct_count_agreement`, C19 (5)). -/
theorem progression_inputs_agree (e : Gen.J2kTiles.Encoder) (nC : Nat) (W H TW TH t : Int) (idx : Nat → Nat → List Nat)
    (hW : 1 ≤ W) (hH : 1 ≤ H) (hTW : 1 ≤ TW) (hTH : 1 ≤ TH) (h0 : 0 ≤ t)
    (hlt : t < encNumTiles W TW * encNumTiles H TH)
    (hp0 : 0 ≤ e.params.PrecinctWidth) (hp1 : 0 ≤ e.params.PrecinctHeight) :
    encInputs e nC (encTileBounds W H TW TH t) idx =
      decInputs e nC (Gen.J2kTileClamp.NewTileDecoder ⟨t⟩ (sizOf W H TW TH nC) false) idx :=
  inputs_agree' e nC W H TW TH t idx hW hH hTW hTH h0 hlt hp0 hp1

/-- (10) composition of (8) and (9): for every tile of every grid and each of the five progression orders, the
    packet sequence the encoder writes (its loops over buildPositionMaps of ITS inputs) is the sequence the decoder
    reads (its loops over buildPositionMaps of the inputs TileDecoder.Decode derives from the written SIZ/COD);
    precinctPositionKey inside buildPositionMaps is the generated kernel `Gen.J2kPosKey.precinctPositionKey` -/
theorem packet_sequence_agreement (e : Gen.J2kTiles.Encoder) (prog nL nC : Nat) (W H TW TH t : Int) (idx : Nat → Nat → List Nat)
    (hW : 1 ≤ W) (hH : 1 ≤ H) (hTW : 1 ≤ TW) (hTH : 1 ≤ TH) (h0 : 0 ≤ t)
    (hlt : t < encNumTiles W TW * encNumTiles H TH)
    (hp0 : 0 ≤ e.params.PrecinctWidth) (hp1 : 0 ≤ e.params.PrecinctHeight) :
    encSequence prog nL (encInputs e nC (encTileBounds W H TW TH t) idx) =
      decSequence prog nL (decInputs e nC (Gen.J2kTileClamp.NewTileDecoder ⟨t⟩ (sizOf W H TW TH nC) false) idx) := by
  rw [← inputs_agree' e nC W H TW TH t idx hW hH hTW hTH h0 hlt hp0 hp1]
  exact sequence_same_inputs prog nL _

/-- (10b) buildPositionMaps loses and invents no position: the sorted list for a resolution has exactly the
    positions of that resolution's entries -/
theorem position_maps_complete (i : Inputs) (r : Nat) (x : Pos) :
    x ∈ (buildMaps i).byRes r ↔ x ∈ ((entries i).filter fun e => e.2.1 == r).map fun e => e.2.2.1 :=
  mem_sortedPositions x _

/-- a concrete map: tile (0,24)-(27,33) of the regression below, 1 component, 2 resolutions, 8×8 precincts at both:
    resolution 1 (rows 24..33 → precinct rows 24, 32; 4 columns) in raster order of positions -/
example :
    let i : Inputs := { numComponents := 1, numResolutions := 2, bounds := fun _ => (0, 24, 27, 33), sampling := fun _ => (1, 1), precinctSize := fun _ => (8, 8), indices := fun _ r => if r = 0 then [0, 1] else [0, 1, 2, 3, 4, 5, 6, 7] }
    (buildMaps i).byRes 1 = [(0, 24), (8, 24), (16, 24), (24, 24), (0, 32), (8, 32), (16, 32), (24, 32)] ∧
    (buildMaps i).byRes 0 = [(0, 16), (16, 16)] ∧ (buildMaps i).lookup 0 1 (8, 32) = some 5 ∧
    (decSequence 2 1 i).length = 10 ∧ encSequence 3 1 i = decSequence 3 1 i := by decide

/-- regression anchor (old defect `j2k-tiled-precincts-position-progression`): 27×33 image, 40×24 tiles, tile 1 is
    rows 24..33; 32×32 precincts: with the canvas bounds (both sides now) precinct 0 of resolution 0 sits at y = 0,
    with the tile-local bounds the old encoder used it sat at y = 0 of a DIFFERENT rectangle — position keys differ -/
example : positionKey (0, 24, 27, 33) 1 1 0 0 32 32 0 = some (0, 0) ∧ positionKey (0, 24, 27, 33) 1 1 0 0 32 32 1 = some (0, 32) ∧
    positionKey (0, 0, 27, 9) 1 1 0 0 32 32 1 = none := by decide

end J2kProg
