import GdcVerif.Model.J2kTiles
import GdcVerif.Lemmas.J2kTiles
import GdcVerif.Lemmas.J2kAssemble
import GdcVerif.Lemmas.J2kResDims
/-!
  C19 — JPEG 2000 tiled images: exact reversible reconstruction for every tile grid.

  Property theorems only.  `Gen.J2kTiles.*` / `Gen.J2kT2.*` are regenerated from
  jpeg2000/encoder.go, jpeg2000/tile_assembler.go and jpeg2000/t2/geometry.go on every run; the glue
  (`J2k.*`, Model/J2kTiles.lean) is hand-written and tied by the C19 correspondence run.
  T1/MQ/DWT/packet sequencing are NOT modelled here (C20 / C04); see `tiled_roundtrip_partial`.
-/
namespace J2k
open Gen.J2kTiles

/-- (1) encoder `tileBounds` and decoder `TileLayout.GetTileBounds` (generated) return the same rectangle
    for every tile index of the grid -/
theorem tileBounds_enc_eq_dec (W H TW TH idx : Int) (hW : 1 ≤ W) (hH : 1 ≤ H) (hTW : 1 ≤ TW) (hTH : 1 ≤ TH)
    (hidx : 0 ≤ idx) (hlt : idx < encNumTiles W TW * encNumTiles H TH) :
    encTileBounds W H TW TH idx = decTileBounds W H TW TH idx := by
  unfold encNumTiles at hlt
  rw [tdiv_eq_ediv (by omega), tdiv_eq_ediv (by omega)] at hlt
  exact enc_eq_dec' W H TW TH idx hW hH hTW hTH hidx hlt

example : encTileBounds 12 12 5 5 4 = (5, 5, 10, 10) ∧ decTileBounds 12 12 5 5 4 = (5, 5, 10, 10) ∧
    encTileBounds 12 12 5 5 8 = (10, 10, 12, 12) := by decide

/-- (2a) every tile of the grid is a non-empty rectangle inside the image (so the slice bounds of the
    row copies in transformTile / AssembleTile are in range) -/
theorem tile_rect_in_image (W H TW TH idx : Int) (hW : 1 ≤ W) (hH : 1 ≤ H) (hTW : 1 ≤ TW) (hTH : 1 ≤ TH)
    (hidx : 0 ≤ idx) (hlt : idx < encNumTiles W TW * encNumTiles H TH) :
    let r := encTileBounds W H TW TH idx
    0 ≤ r.1 ∧ r.1 < r.2.2.1 ∧ r.2.2.1 ≤ W ∧ 0 ≤ r.2.1 ∧ r.2.1 < r.2.2.2 ∧ r.2.2.2 ≤ H := by
  unfold encNumTiles at hlt
  rw [tdiv_eq_ediv (by omega), tdiv_eq_ediv (by omega)] at hlt
  rw [encTileBounds_eq W H TW TH idx hW hTW hidx]
  exact rect_in_image' W H TW TH idx hW hH hTW hTH hidx hlt

/-- (2b) the rectangles COVER the image: every pixel lies in the tile with index ⌊y/TH⌋·nx + ⌊x/TW⌋ -/
theorem tile_rects_cover (W H TW TH x y : Int) (hW : 1 ≤ W) (hTW : 1 ≤ TW) (hTH : 1 ≤ TH)
    (hx0 : 0 ≤ x) (hx : x < W) (hy0 : 0 ≤ y) (hy : y < H) :
    ∃ idx, 0 ≤ idx ∧ idx < encNumTiles W TW * encNumTiles H TH ∧ inRect (encTileBounds W H TW TH idx) x y := by
  have h := cover' W H TW TH x y hTW hTH hx0 hx hy0 hy
  simp only [] at h
  refine ⟨_, h.1, ?_, ?_⟩
  · unfold encNumTiles; rw [tdiv_eq_ediv (by omega), tdiv_eq_ediv (by omega)]; exact h.2.1
  · rw [encTileBounds_eq W H TW TH _ hW hTW h.1]; exact h.2.2

/-- (2c) the rectangles are pairwise DISJOINT: a pixel determines its tile index -/
theorem tile_rects_disjoint (W H TW TH x y i j : Int) (hW : 1 ≤ W) (hTW : 1 ≤ TW) (hTH : 1 ≤ TH)
    (hi : 0 ≤ i) (hj : 0 ≤ j)
    (hin : inRect (encTileBounds W H TW TH i) x y) (hjn : inRect (encTileBounds W H TW TH j) x y) : i = j := by
  rw [encTileBounds_eq W H TW TH i hW hTW hi] at hin
  rw [encTileBounds_eq W H TW TH j hW hTW hj] at hjn
  rw [unique' W H TW TH x y i hW hTW hTH hin, unique' W H TW TH x y j hW hTW hTH hjn]

example : inRect (encTileBounds 12 12 5 5 5) 11 7 ∧ ¬ inRect (encTileBounds 12 12 5 5 4) 11 7 := by
  unfold inRect; decide

/-- (3) split/assemble identity: cutting every tile out of a component plane (encoder.go transformTile) and
    copying each one back at its rectangle (tile_assembler.go AssembleTile), for all tiles of the grid, gives
    back the plane on all W·H samples — whatever the output buffer held before -/
theorem split_assemble_identity (src out : Plane) (W H TW TH : Nat) (hW : 1 ≤ W) (hH : 1 ≤ H)
    (hTW : 1 ≤ TW) (hTH : 1 ≤ TH) (i : Nat) (hi : i < W * H) :
    splitAssemble src W H TW TH (numTilesNat W H TW TH) out i = src i :=
  split_assemble_identity' src out W H TW TH hW hH hTW hTH i hi

example : numTilesNat 12 12 5 5 = 9 ∧
    (List.range 6).map (splitAssemble (fun i => (i : Int) + 100) 3 2 2 1 (numTilesNat 3 2 2 1) (fun _ => 0))
      = [100, 101, 102, 103, 104, 105] := by decide

/-- (4a) the decoder's copies of the split kernels (t2/geometry.go) are the encoder's (encoder.go), so
    `resolutionDimsWithOrigin` computes the same thing on both sides -/
theorem resolution_dims_enc_eq_dec (len x0 : Int) (n : Nat) : resDimsT2 len x0 n = resDims len x0 n :=
  resDimsT2_eq len x0 n

/-- (4b) closed form of resolutionDimsWithOrigin for every origin and level count: the canvas interval
    [⌈x0/2ⁿ⌉, ⌈(x0+len)/2ⁿ⌉) of ISO/IEC 15444-1 B.5 -/
theorem resolution_dims_closed_form (len x0 : Int) (n : Nat) (hl : 0 ≤ len) :
    resDims len x0 n =
      ((x0 + len + 2 ^ n - 1) / 2 ^ n - (x0 + 2 ^ n - 1) / 2 ^ n, (x0 + 2 ^ n - 1) / 2 ^ n) :=
  resDims_closed len x0 n hl

/-- (4c) tile-origin agreement inside the encoder, FULL (since fix 104b234): for every tile origin, size and
    level count the sub-band extents the encoder cuts out of the transformed tile (getSubbandsForResolution) are
    the extents of the wavelet (ForwardMultilevelWithParity with the tile origin) and of the decoder
    (t2/geometry.go), namely the canvas interval lengths ⌈(x0+len)/2ⁿ⌉ − ⌈x0/2ⁿ⌉ -/
theorem subband_split_agreement (len x0 : Int) (n : Nat) (hl : 0 ≤ len) :
    encLowLen len x0 n = (resDimsT2 len x0 n).1 ∧
    encLowLen len x0 n = (x0 + len + 2 ^ n - 1) / 2 ^ n - (x0 + 2 ^ n - 1) / 2 ^ n := by
  unfold encLowLen
  rw [resDimsT2_eq, resDims_closed len x0 n hl]
  exact ⟨rfl, rfl⟩

example : encLowLen 5 5 1 = 2 ∧ encLowLen 5 8 3 = 1 ∧ encLowLen 37 0 3 = 5 := by decide

/-- regression anchor (old defect `j2k-tiled-subband-split-ignores-origin-parity`): 12×12 image, 5×5 tiles, tile 1
    has x0 = 5, width 5; one level: wavelet and decoder have 2 low-pass samples; the old encoder (ceil split of the
    tile width) cut 3, the repaired one 2.  The old shape agreed only for origins aligned to 2ⁿ. -/
example : (resDims 5 5 1).1 = 2 ∧ encLowLenOld 5 1 = 3 ∧ encLowLen 5 5 1 = 2 := by decide

theorem subband_split_old_shape_aligned (len x0 : Int) (n : Nat) (hl : 0 ≤ len) (hal : x0 % 2 ^ n = 0) :
    (resDims len x0 n).1 = encLowLenOld len n := aligned_agree len x0 n hl hal

/-- (5) code-block index agreement, FULL (since fix 104b234): encoder (buildTilePacketEncoder) and decoder
    (collectCodeBlockEntries) give the same (precinct column, grid index) to the code-block at band offset cbX0,
    for every canvas origin of the tile-component at that resolution, precinct and code-block width -/
theorem codeblock_index_agreement (resX0 cbX0 pw cbw : Int) (h0 : 0 ≤ resX0) (hpw : 1 ≤ pw) :
    decCbIndex resX0 cbX0 pw cbw = encCbIndex resX0 cbX0 pw cbw := by
  unfold decCbIndex encCbIndex Gen.J2kT2.floorDiv
  have c1 : ¬ pw ≤ 0 := by omega
  simp only [c1, decide_false, Bool.false_eq_true, if_false, ge_iff_le, h0, decide_true, if_true]

example : decCbIndex 16 0 32768 16 = (0, 1) ∧ encCbIndex 16 0 32768 16 = (0, 1) ∧
    decCbIndex 0 64 32768 64 = (0, 1) ∧ decCbIndex 70 40 64 16 = (0, 2) ∧ decCbIndex 70 60 64 16 = (1, 0) := by decide

/-- regression anchor (old defect `j2k-tiled-codeblock-index-canvas-vs-local`): 17×8 image, 8×8 tiles, 16×16
    code-blocks, 0 levels: tile 2 has resX0 = 16; its only code-block has grid index 1 in the decoder; the old
    encoder (tile-local) said 0 (tag-tree shapes 2×1 vs 1×1), the repaired one 1 -/
example : decCbIndex 16 0 32768 16 = (0, 1) ∧ encCbIndexOld 0 32768 16 = (0, 0) ∧ encCbIndex 16 0 32768 16 = (0, 1) := by
  decide

/-- (6) tiled pipeline, partial: IF the per-tile codec (`codec k`: DWT with origin parity → T1 → T2 →
    packets → T2⁻¹ → T1⁻¹ → IDWT of tile k; unmodelled here) is the identity on every tile, THEN the tiled
    encode/decode of a component plane is the identity on all W·H samples: tile geometry, cut-out and placement
    are the theorems above.
    Named hypothesis `htile`: per-tile codec exact (C20 covers RCT/DWT, C04 the T2 primitives; T1/MQ/packet
    sequencing unproved).  Since fix 104b234 the search finds no tiling that refutes `htile` (before it, theorems
    4c and 5 failed for tiles whose origin is not aligned). -/
theorem tiled_roundtrip_partial (codec : Nat → Plane → Plane) (htile : ∀ k t, codec k t = t)
    (src out : Plane) (W H TW TH : Nat) (hW : 1 ≤ W) (hH : 1 ≤ H) (hTW : 1 ≤ TW) (hTH : 1 ≤ TH)
    (i : Nat) (hi : i < W * H) :
    splitAssembleWith codec src W H TW TH (numTilesNat W H TW TH) out i = src i := by
  have e : ∀ k o, splitAssembleWith codec src W H TW TH k o = splitAssemble src W H TW TH k o := by
    intro k
    induction k with
    | zero => intro o; rfl
    | succ k ih => intro o; unfold splitAssembleWith splitAssemble; simp only [ih, htile]
  rw [e]; exact split_assemble_identity' src out W H TW TH hW hH hTW hTH i hi

example : (fun (_ : Nat) (t : Plane) => t) 0 (fun _ => 7) 3 = 7 := rfl

end J2k
