import GdcVerif.Gen.JpegLs
import GdcVerif.Spec.T87
import GdcVerif.Lemmas.JpegLsT87
import GdcVerif.Lemmas.JpegLsT87Ctx
import GdcVerif.Lemmas.JpegLsT87Golomb
import GdcVerif.Lemmas.JpegLsCtx
/-!
  C14 — JPEG-LS conforms to ITU-T T.87: parameters and per-sample procedures.

  Left-hand sides are the GENERATED kernels (`Gen/JpegLs.lean`, from /repo/jpegls/lossless);
  right-hand sides are `Spec/T87.lean`, an independent transcription of the standard.
  `traits P N = NewTraits (2^P−1) N 64` is the parameter object encoder and decoder build.

  FINDINGS on the unchanged tree (each kept as a `…_FullStatement`, refuted on a concrete witness,
  and proved under the complementary hypothesis):
  * default thresholds: the code's `clamp` returns MAXVAL where T.87 Figure C.3 `CLAMP` returns the
    lower bound when the Table C.3 expression exceeds MAXVAL (e.g. MAXVAL = 255, NEAR ≥ 34);
  * lossless package vs near-lossless package at NEAR = 0: `Encoder.computeErrorValue` narrows to
    int8/int16 instead of reducing modulo RANGE (P ∉ {8,16}) — same root cause as C03.
  The stream-level statements (bytes of the two encoders, cross decoding, independent decoder,
  Annex H.3 vector) are evaluated on the real code by the harness (c14.go, c14_t87.go).
-/
namespace C14
open Gen.JpegLs JpegLsNear JpegLsT87

/-! ### default parameters (T.87 A.2.1, C.2.4.1.1) -/

def default_params_eq_T87_FullStatement : Prop :=
  ∀ (P : Nat) (N : Int), Admissible P N →
    (T87.defaults ((2 : Int) ^ P - 1) N).RANGE = (traits P N).Range ∧
    (T87.defaults ((2 : Int) ^ P - 1) N).qbpp = (traits P N).Qbpp ∧
    (T87.defaults ((2 : Int) ^ P - 1) N).LIMIT = (traits P N).Limit ∧
    (T87.defaults ((2 : Int) ^ P - 1) N).RESET = (traits P N).Reset ∧
    (T87.defaults ((2 : Int) ^ P - 1) N).T1 = (traits P N).T1 ∧
    (T87.defaults ((2 : Int) ^ P - 1) N).T2 = (traits P N).T2 ∧
    (T87.defaults ((2 : Int) ^ P - 1) N).T3 = (traits P N).T3

/-- (1) RANGE, qbpp (`bitsLen` = ⌈log2⌉), LIMIT (from bpp) and RESET equal the standard's formulas
    for every admissible (P, NEAR) -/
theorem default_range_qbpp_limit_eq_T87 (P : Nat) (N : Int) (h : Admissible P N) :
    (T87.defaults ((2 : Int) ^ P - 1) N).RANGE = (traits P N).Range ∧
    (T87.defaults ((2 : Int) ^ P - 1) N).qbpp = (traits P N).Qbpp ∧
    (T87.defaults ((2 : Int) ^ P - 1) N).LIMIT = (traits P N).Limit ∧
    (T87.defaults ((2 : Int) ^ P - 1) N).RESET = (traits P N).Reset := range_qbpp_limit_eq P N h

example : Admissible 16 255 ∧ (T87.defaults 65535 255).RANGE = 130 ∧ (T87.defaults 65535 255).qbpp = 8 ∧
    (T87.defaults 65535 255).LIMIT = 64 := by decide

example : Admissible 8 3 ∧ (T87.rawT 255 3).1 ≤ 255 ∧ (T87.rawT 255 3).2.1 ≤ 255 ∧ (T87.rawT 255 3).2.2 ≤ 255 ∧
    (T87.defaults 255 3).T1 = 12 ∧ (T87.defaults 255 3).T2 = 22 ∧ (T87.defaults 255 3).T3 = 42 := by decide

/-- (3) full strength on the repaired kernel: `clamp` IS Figure C.3 `CLAMP` -/
theorem default_params_eq_T87 : default_params_eq_T87_FullStatement := by
  intro P N h
  have r := range_qbpp_limit_eq P N h
  have hc : ∀ i j M : Int, clamp i j M = T87.CLAMP i j M := by
    intro i j M; unfold clamp T87.CLAMP
    by_cases h1 : i < j <;> by_cases h2 : i > M <;> simp [h1, h2]
  have f := (JpegLsLemmas.cp_fields ((2 : Int) ^ P - 1) N 64).2.2.2.1
  rw [computeThresholds_raw] at f
  have hT1 : (traits P N).T1 = _ := congrArg Prod.fst f
  have hT2 : (traits P N).T2 = _ := congrArg (fun p => p.2.1) f
  have hT3 : (traits P N).T3 = _ := congrArg (fun p => p.2.2) f
  simp only at hT1 hT2 hT3
  refine ⟨r.1, r.2.1, r.2.2.1, r.2.2.2, ?_, ?_, ?_⟩
  · rw [hT1, hc]; rfl
  · rw [hT2, hc, hc]; rfl
  · rw [hT3, hc, hc, hc]; rfl

example : (T87.defaults 255 34).T3 = 177 ∧ (traits 8 34).T3 = 177 := by decide

/-! ### per-sample procedures -/

/-- (4) MED prediction = A.4.1 -/
theorem predict_eq_T87 (a b c : Int) : Predict a b c = T87.med a b c := predict_eq a b c

/-- (5) gradient quantisation = A.3.3 (both copies in the code: `Traits.QuantizeGradient` and
    `GradientQuantizer.quantizeGradient`, which the scans use) -/
theorem quantizeGradient_eq_T87 (t : Traits) (d : Int) :
    Traits.QuantizeGradient t d = T87.quantizeGradient (specOf t) d ∧
    GradientQuantizer.quantizeGradient { T1 := t.T1, T2 := t.T2, T3 := t.T3, Near := t.Near } d =
      T87.quantizeGradient (specOf t) d := ⟨quantizeGradient_eq t d, gq_quantizeGradient_eq t d⟩

/-- (6) reconstruction = A.4.4/A.4.5 for every admissible (P, NEAR), every prediction in range and
    every decodable error value (|e| ≤ RANGE), including the `& MaxVal` shortcut for NEAR = 0 -/
theorem reconstruct_eq_T87 (P : Nat) (N : Int) (h : Admissible P N) (Px e : Int)
    (hPx : 0 ≤ Px ∧ Px ≤ (2 : Int) ^ P - 1) (he : -(traits P N).Range ≤ e ∧ e ≤ (traits P N).Range) :
    Traits.ComputeReconstructedSample (traits P N) Px e = T87.reconstruct (specOf (traits P N)) Px e :=
  reconstruct_eq (JpegLsLemmas.newTraits_wf P N h.1 ⟨h.2.1, h.2.2.2⟩ 64) Px e hPx he

example : Traits.ComputeReconstructedSample (traits 8 0) 250 10 = 4 ∧ T87.reconstruct (specOf (traits 8 0)) 250 10 = 4 := by
  decide

/-- (7) error un-mapping with the k = 0 correction = A.5.2 read backwards -/
theorem unmap_eq_T87 (ctx : Context) (k near m : Int) (hm : 0 ≤ m ∧ m < 4294967296) :
    Go.xor (UnmapErrorValue m) (Context.GetErrorCorrection ctx k near) =
      T87.unmapErrval (decide (near = 0 ∧ k = 0 ∧ 2 * ctx.B ≤ -ctx.N)) m := unmap_eq ctx k near m hm

example : Go.xor (UnmapErrorValue 5) (Context.GetErrorCorrection { A := 4, N := 2, B := -1, C := 0 } 0 0) = 2 := by decide

/-- (8) modulo reduction of the near-lossless path = A.4.4 -/
theorem moduloRange_eq_T87 (P : Nat) (N : Int) (h : Admissible P N) (e : Int) :
    Traits.ModuloRange (traits P N) e = T87.moduloReduce (specOf (traits P N)) e :=
  moduloRange_eq _ e (by
    have hr : 2 ≤ (traits P N).Range := (JpegLsLemmas.newTraits_wf P N h.1 ⟨h.2.1, h.2.2.2⟩ 64).range_ge
    omega)

/-! ### context update (T.87 A.6, code segments A.12 / A.13) and run-interruption state (A.7.2) -/

/-- (10) `Context.UpdateContext` IS code segments A.12 + A.13 whenever the CharLS-style overflow
    guard of the code (A or |B| reaching 2^24, not in the standard) does not fire.  `B >> 1` of a
    negative `B` is the standard's `-((1 - B) >> 1)`; the order of the `C` step and the `B` clamp in
    A.13 is immaterial. -/
theorem contextUpdate_eq_T87 (c : Context) (e near reset : Int) (p : T87.Params)
    (hN : p.NEAR = near) (hR : p.RESET = reset)
    (hA : c.A + Go.abs e < 16777216)
    (hB : -16777216 < c.B + e * (2 * near + 1) ∧ c.B + e * (2 * near + 1) < 16777216) :
    ctxSpec (Context.UpdateContext c e near reset) = T87.contextUpdate p (ctxSpec c) e :=
  updateContext_eq c e near reset p hN hR hA hB

/-- the guard of (10) is met by every state a scan reaches: with `A ≤ 64·2^16` (the bound the RESET
    halving maintains for |Errval| ≤ 2^16), `−N < B ≤ 0`, `N ≤ 64` (both from
    `JpegLsLemmas.updateContext_inv`) and `|Errval·(2·NEAR+1)| ≤ 2^17` the hypotheses hold -/
theorem contextUpdate_guard_reachable (c : Context) (e near : Int)
    (hA : 0 ≤ c.A ∧ c.A ≤ 64 * 65536) (hBN : -c.N < c.B ∧ c.B ≤ 0) (hNr : 1 ≤ c.N ∧ c.N ≤ 64)
    (he : -65536 ≤ e ∧ e ≤ 65536) (hm : -131072 ≤ e * (2 * near + 1) ∧ e * (2 * near + 1) ≤ 131072) :
    c.A + Go.abs e < 16777216 ∧
    (-16777216 < c.B + e * (2 * near + 1) ∧ c.B + e * (2 * near + 1) < 16777216) := by
  generalize e * (2 * near + 1) = m at *
  unfold Go.abs; split <;> omega

example : ctxSpec (Context.UpdateContext { A := 9, N := 64, B := -5, C := 3 } (-70) 0 64) =
      T87.contextUpdate (T87.defaults 255 0) { A := 9, B := -5, C := 3, N := 64 } (-70) ∧
    T87.contextUpdate (T87.defaults 255 0) { A := 9, B := -5, C := 3, N := 64 } (-70) =
      { A := 39, B := -5, C := 2, N := 33 } := by decide

/-- (10c) FULL for the states a scan reaches: starting from the initial context of any RANGE in 2..65536
    (`NewContext`, regenerated), after ANY sequence of error values with |Errval| ≤ 2^16 and
    |Errval·(2·NEAR+1)| ≤ 2^17 (RESET = 64) the code's context is the standard's (A.12 + A.13 iterated)
    — the 2^24 overflow guard of the code is unreachable (`CtxReach`: 0 ≤ A ≤ N·2^16, 1 ≤ N ≤ 64,
    −N < B ≤ 0, −128 ≤ C ≤ 127 is an inductive invariant) -/
theorem contextRun_eq_T87 (range near : Int) (p : T87.Params) (hN : p.NEAR = near) (hR : p.RESET = 64)
    (hr : 2 ≤ range ∧ range ≤ 65536) (es : List Int)
    (hes : ∀ e ∈ es, (-65536 ≤ e ∧ e ≤ 65536) ∧ (-131072 ≤ e * (2 * near + 1) ∧ e * (2 * near + 1) ≤ 131072)) :
    ctxSpec (es.foldl (fun c e => Context.UpdateContext c e near 64) (NewContext range)) =
      es.foldl (fun q e => T87.contextUpdate p q e) (ctxSpec (NewContext range)) ∧
    CtxReach (es.foldl (fun c e => Context.UpdateContext c e near 64) (NewContext range)) :=
  ctxReach_run near p hN hR es _ (ctxReach_init range hr) hes

example : ctxSpec ([3, -200, 7].foldl (fun c e => Context.UpdateContext c e 0 64) (NewContext 256)) =
    { A := 214, B := 0, C := 1, N := 4 } := by decide

/-- (11) run-interruption contexts: `RunModeContext.UpdateVariables` = code segment A.23 and
    `RunModeContext.ComputeMap` = code segment A.21, for all inputs -/
theorem runInterruption_eq_T87 (c : RunModeContext) (e em k reset : Int) (p : T87.Params) (hR : p.RESET = reset) :
    riSpec (RunModeContext.UpdateVariables c e em reset) = T87.riUpdate p (riSpec c) e em ∧
    RunModeContext.ComputeMap c e k = T87.riMap (riSpec c) k e :=
  ⟨riUpdate_eq c e em reset p hR, riMap_eq c e k⟩

example : riSpec (RunModeContext.UpdateVariables { runInterruptionType := 1, A := 5, N := 64, NN := 3 } (-2) 3 64) =
    { RItype := 1, A := 3, N := 33, Nn := 2 } := by decide

/-- (12) Golomb coding parameter: the regular-mode loop (`Context.ComputeGolombParameter`, model
    `JpegLsScan.golombParam` with the fuel the scan model uses) yields T.87 A.10's `k` — the least `k`
    with `N·2^k ≥ A` — whenever `A ≤ N·2^16` (beyond that the code's cap `k < 16` stops the loop, the
    standard has no cap); the run-interruption loop (`RunModeContext.GetGolombCode`) yields A.20's `k`
    for `TEMP = A + (N>>1)·RItype` whenever `TEMP ≤ N·2^32` -/
theorem golombParameter_eq_T87 :
    (∀ ctx : Context, ctx.A ≤ ctx.N * 2 ^ 16 →
      ∃ k : Nat, JpegLsScan.golombParam ctx 17 0 = (k : Int) ∧ T87.IsGolombK ctx.N ctx.A k) ∧
    (∀ c : RunModeContext, (c.runInterruptionType = 0 ∨ c.runInterruptionType = 1) →
      c.A + c.N / 2 * c.runInterruptionType ≤ c.N * 2 ^ 32 →
      ∃ k : Nat, JpegLsRun.getGolombCode c = (k : Int) ∧
        T87.IsGolombK c.N (if c.runInterruptionType = 1 then c.A + c.N / 2 else c.A) k) :=
  ⟨fun ctx h => golombParam_eq ctx h, fun c h1 h2 => getGolombCode_eq c h1 h2⟩

example : JpegLsScan.golombParam { A := 37, N := 5, B := 0, C := 0 } 17 0 = 3 ∧ T87.IsGolombK 5 37 3 := by
  refine ⟨by decide, by decide, ?_⟩
  intro j hj
  have : j = 0 ∨ j = 1 ∨ j = 2 := by omega
  rcases this with h | h | h <;> subst h <;> decide

/-- (13) run-interruption sample, encoder side (`RunModeScanner.EncodeRunInterruption`, model
    `JpegLsRun.encodeRunInterruption`): the Golomb parameter is A.20's `k`, the value written is
    A.22's `EMErrval = 2·|Errval| − RItype − map` with A.21's `map`, coded with the limit
    `LIMIT − J[RUNindex] − 1` (A.7.2), and the state afterwards is A.23's — for every run index inside
    the J table and every context whose `TEMP ≤ N·2^32` -/
theorem runInterruptionEncode_eq_T87 (t : Traits) (idx : Int) (c : RunModeContext) (e : Int)
    (hidx : 0 ≤ idx ∧ idx ≤ 31)
    (hrit : c.runInterruptionType = 0 ∨ c.runInterruptionType = 1)
    (hA : c.A + c.N / 2 * c.runInterruptionType ≤ c.N * 2 ^ 32) :
    ∃ (k : Nat) (j : Int),
      T87.IsGolombK c.N (if c.runInterruptionType = 1 then c.A + c.N / 2 else c.A) k ∧
      JpegLsRun.J? idx = .ok j ∧
      JpegLsRun.encodeRunInterruption t idx c e =
        .ok (Golomb.encodeWrites k (T87.riEMErrval (riSpec c) k e) (t.Limit - j - 1) t.Qbpp,
             RunModeContext.UpdateVariables c e (T87.riEMErrval (riSpec c) k e) t.Reset) ∧
      riSpec (RunModeContext.UpdateVariables c e (T87.riEMErrval (riSpec c) k e) t.Reset) =
        T87.riUpdate (specOf t) (riSpec c) e (T87.riEMErrval (riSpec c) k e) :=
  encodeRunInterruption_eq t idx c e hidx hrit hA

/-! ### lossless package = near-lossless package at NEAR = 0 (kernel level) -/

/-- the lossless encoder's error reduction agrees with the near-lossless path at NEAR = 0 -/
def lossless_eq_near0_FullStatement : Prop :=
  ∀ (P : Nat) (enc : Encoder), 2 ≤ P ∧ P ≤ 16 → enc.bitDepth = P → enc.traits = traits P 0 →
    ∀ d : Int, -((2 : Int) ^ P) < d ∧ d < 2 ^ P →
      Encoder.computeErrorValue enc d = Traits.ComputeErrorValue (traits P 0) d

/-- (9) full strength on the repaired kernel -/
theorem lossless_eq_near0 : lossless_eq_near0_FullStatement := by
  intro P enc _ _ ht d _
  rw [JpegLsLemmas.computeErrorValue_near0 _ rfl]
  unfold Encoder.computeErrorValue
  rw [ht]

end C14
