import GdcVerif.Model.J2kLossless
import GdcVerif.Lemmas.J2kLossless
import GdcVerif.Gen.J2kTiles
/-!
  C05 — the JPEG 2000 Lossless-Only transfer syntaxes stay lossless under every accepted parameter set.

  Decision logic only: what `Validate` + `configureLosslessEncodeParams` hand to the encoder, and what
  `finalizeBlock` / `appendRDLosslessLayer` put into the last layer.  The models are hand-written
  (Model/J2kLossless.lean: float64 fields and slices are outside go2lean's subset) and tied by the C05
  correspondence run.  NOT modelled: the PCRD slope search (rate_distortion.go) — only its output enters
  `finalize` as an arbitrary list `alloc`; T1/T2/packet decoding (C04).
-/
namespace J2kL

/-- (1) every parameter object is accepted (Validate returns nil) and, when it keeps the final lossless layer
    or requests no rate target, the encoder parameters are: reversible, ≥ 1 layer, 0..6 levels, progression
    0..4; an active rate target comes with AppendLosslessLayer and ≥ 2 layers; with a rate ladder the
    LayerRates end in 0 (the all-pass layer); and whenever the layered path is taken
    (NumLayers > 1 ∨ TargetRatio > 0) the encoder's `appendLossless` flag is on. -/
theorem lossless_params_sound (p : LParams) (bs ba : Int) (hbs : 1 ≤ bs) (hba : 1 ≤ ba)
    (hpg : 0 ≤ p.ProgressionOrder) (hs : inScope p) :
    let e := encodeParams bs ba p
    e.Lossless = true ∧ 1 ≤ e.NumLayers ∧ 0 ≤ e.NumLevels ∧ e.NumLevels ≤ 6 ∧
    0 ≤ e.ProgressionOrder ∧ e.ProgressionOrder ≤ 4 ∧
    (e.TargetRatio.pos = true → e.AppendLosslessLayer = true ∧ 2 ≤ e.NumLayers) ∧
    ((validate p).Rate > 0 → e.LayerRates.getLast? = some Frac.zero) ∧
    (useLayered e = true → appendLosslessFlag e = true) := by
  have F := validate_spec p
  have hs' : (validate p).AppendLosslessLayer = true ∨ ((validate p).Rate = 0 ∧ (validate p).TargetRatio.num = 0) := by
    rcases hs with h | ⟨h1, h2⟩
    · left; rw [F.app]; exact h
    · right; exact ⟨F.rt0 h1, F.tr0 h2⟩
  have C := configure_sound (validate p) bs ba hbs hba (F.ly rfl) (F.rt rfl) (F.tr rfl) hs'
  simp only [] at C
  obtain ⟨c1, c2, c3, c4, c5, c6, c7, c8⟩ := C
  have hlv := F.lv rfl
  have hpg' := F.pg rfl hpg
  intro e
  show (configure bs ba (validate p)).Lossless = true ∧ _
  refine ⟨c1, c2, c3 ▸ hlv.1, c3 ▸ hlv.2, c4 ▸ hpg'.1, c4 ▸ hpg'.2, c6, ?_, c8⟩
  intro hr
  rcases hs' with h | ⟨h, _⟩
  · exact c7 hr h
  · omega

/-- non-vacuity: the default parameter object (Rate=20 ladder, AppendLosslessLayer) on a 12-in-16-bit frame:
    in scope; 1+1 layers; LayerRates = [1280,…,40, 15, 0] -/
example :
    let p : LParams := { NumLevels := 5, AllowMCT := true, Rate := 20, RateLevels := defaultRateLevels, ProgressionOrder := 0, NumLayers := 1, TargetRatio := Frac.zero, UsePCRDOpt := false, AppendLosslessLayer := true }
    inScope p ∧ (encodeParams 12 16 p).NumLayers = 8 ∧ (encodeParams 12 16 p).LayerRates.length = 8 ∧
    (encodeParams 12 16 p).LayerRates.getLast? = some Frac.zero ∧ appendLosslessFlag (encodeParams 12 16 p) = true := by
  unfold inScope; decide

/-- and an out-of-range object is repaired, not rejected -/
example :
    let p : LParams := { NumLevels := 9, AllowMCT := false, Rate := -3, RateLevels := [], ProgressionOrder := 7, NumLayers := 0, TargetRatio := ⟨-1, 1⟩, UsePCRDOpt := true, AppendLosslessLayer := false }
    inScope (validate p) ∧ (encodeParams 8 8 p).NumLevels = 5 ∧ (encodeParams 8 8 p).NumLayers = 1 ∧
    useLayered (encodeParams 8 8 p) = false := by
  unfold inScope; decide

/-- (2) last layer: for EVERY allocation the budget logic can return (any list of per-layer pass counts —
    negative, zero, above the total, not monotone), with ≥ 1 layer and a block of n ≥ 1 passes,
    finalizeBlock / appendRDLosslessLayer set the cumulative pass count of the last layer to n, i.e. the packet
    headers announce every remaining pass of every code-block; the number of layers is unchanged. -/
theorem last_layer_carries_all_passes (rate : Int → Int) (n total : Int) (alloc : List Int)
    (hn : 1 ≤ n) (ha : alloc ≠ []) :
    ((finalize rate n total alloc true).getLast?).map (·.1) = some n ∧
    (finalize rate n total alloc true).length = alloc.length := finalize_last' rate n total alloc hn ha

example : finalize (fun k => 10 * k) 19 190 [1, 7, 0] true = [(1, 0, 10), (7, 10, 70), (19, 70, 190)] := by decide

/-- (3) FULL statement about the byte slices: for every allocation the layer slices are contiguous
    (each starts where the previous one ended), so their concatenation is CompleteData[0 : rate n] -/
def layer_slices_contiguous_FullStatement : Prop :=
  ∀ (alloc : List Int) (n : Int), 1 ≤ n → alloc ≠ [] →
    let ls := finalize (fun k => 10 * k) n (10 * n) alloc true
    ∀ i, i + 1 < ls.length → (ls.getD i (0, 0, 0)).2.2 = (ls.getD (i + 1) (0, 0, 0)).2.1

/-- (3) is false for allocations that are not monotone: [5, 3, ·] — layer 1 gets no bytes and pass count 3 < 5,
    the last layer then restarts at byte rate(3) and repeats bytes 30..50 (and the header announces 19−3 passes).
    The real allocators are monitored for monotonicity by the C05 harness on every run (no violation seen);
    this is a latent hazard of finalizeBlock, not a reproduced defect. -/
theorem layer_slices_contiguous_counterexample : ¬ layer_slices_contiguous_FullStatement := by
  intro h
  have := h [5, 3, 0] 19 (by decide) (by decide) 1 (by decide)
  revert this
  decide

/-- (4) generic `codec.Parameters` objects (extractBasicLosslessParams, after the repair that lets "rate": 0
    override the default): the extracted Rate is the key's value when it is an int ≥ 0 and the default 20
    otherwise — so it is 0 exactly when the bag says "rate": 0; the extracted object is in the property's scope
    exactly when the bag does not switch the final lossless layer off, or asks for no rate target with its own
    keys ("rate": 0 and no / a zero "targetRatio"); the progression order is reduced modulo 256 (uint8) and then
    repaired by Validate; for every in-scope generic object the conclusions of (1) hold, and when the bag keeps
    the final lossless layer and the extracted Rate is positive (in particular when "rate" is absent) the layered
    path with ≥ 2 layers and a closing all-pass layer is taken. -/
theorem generic_params_sound (g : GParams) (bs ba : Int) (hbs : 1 ≤ bs) (hba : 1 ≤ ba) :
    (extractGeneric g).Rate ≥ 0 ∧ ((extractGeneric g).Rate = 0 ↔ g.rate = some 0) ∧
    0 ≤ (extractGeneric g).ProgressionOrder ∧
    (inScope (extractGeneric g) ↔
      (g.appendLosslessLayer ≠ some false ∨ (g.rate = some 0 ∧ ∀ t, g.targetRatio = some t → t.num = 0))) ∧
    (inScope (extractGeneric g) →
      let e := encodeParams bs ba (extractGeneric g)
      e.Lossless = true ∧ 1 ≤ e.NumLayers ∧ 0 ≤ e.NumLevels ∧ e.NumLevels ≤ 6 ∧
      0 ≤ e.ProgressionOrder ∧ e.ProgressionOrder ≤ 4 ∧
      (e.TargetRatio.pos = true → e.AppendLosslessLayer = true ∧ 2 ≤ e.NumLayers) ∧
      ((validate (extractGeneric g)).Rate > 0 → e.LayerRates.getLast? = some Frac.zero) ∧
      (useLayered e = true → appendLosslessFlag e = true)) ∧
    (g.appendLosslessLayer ≠ some false → (extractGeneric g).Rate > 0 →
      let e := encodeParams bs ba (extractGeneric g)
      e.Lossless = true ∧ 2 ≤ e.NumLayers ∧ 0 ≤ e.NumLevels ∧ e.NumLevels ≤ 6 ∧
      0 ≤ e.ProgressionOrder ∧ e.ProgressionOrder ≤ 4 ∧ e.AppendLosslessLayer = true ∧
      e.LayerRates.getLast? = some Frac.zero ∧ appendLosslessFlag e = true) := by
  have hrate0 := extract_rate g
  have hzero := extract_rate_zero g
  have hprog := extract_prog g
  have happ := extract_append g
  have htgt := extract_target g
  have htz : (extractGeneric g).TargetRatio.num = 0 ↔ ∀ t, g.targetRatio = some t → t.num = 0 := by
    rw [htgt]
    cases g.targetRatio with
    | none => simp [Frac.zero]
    | some t => simp
  have hscope : inScope (extractGeneric g) ↔
      (g.appendLosslessLayer ≠ some false ∨ (g.rate = some 0 ∧ ∀ t, g.targetRatio = some t → t.num = 0)) := by
    unfold inScope
    rw [happ, hzero, htz]
  refine ⟨hrate0, hzero, hprog, hscope, ?_, ?_⟩
  · intro hs
    exact lossless_params_sound (extractGeneric g) bs ba hbs hba hprog hs
  intro hne hrate
  have hs : inScope (extractGeneric g) := hscope.mpr (Or.inl hne)
  have S := lossless_params_sound (extractGeneric g) bs ba hbs hba hprog hs
  simp only [] at S
  obtain ⟨s1, s2, s3, s4, s5, s6, s7, s8, s9⟩ := S
  have F := validate_spec (extractGeneric g)
  have hvr : (validate (extractGeneric g)).Rate > 0 := by
    rw [validate_rate_pos _ hrate]; exact hrate
  have hA : (encodeParams bs ba (extractGeneric g)).AppendLosslessLayer = true := by
    show (validate (extractGeneric g)).AppendLosslessLayer = true
    rw [F.app]; exact happ.mpr hne
  have hpos : (encodeParams bs ba (extractGeneric g)).TargetRatio.pos = true := by
    show (configure bs ba (validate (extractGeneric g))).TargetRatio.pos = true
    unfold configure
    by_cases h : (validate (extractGeneric g)).TargetRatio.pos = true
    · simp [h]
    · have h' : (validate (extractGeneric g)).TargetRatio.pos = false := by simpa using h
      simp only [h', Bool.not_false, Bool.true_and, hvr, decide_true, if_true]
      exact rateToTargetRatio_pos _ bs ba hvr hbs hba
  have h7 := s7 hpos
  intro e
  refine ⟨s1, h7.2, s3, s4, s5, s6, hA, s8 hvr, ?_⟩
  apply s9
  unfold useLayered
  simp [hpos]

example :
    let g : GParams := ⟨some 9, none, some (-4), some [], some 260, some 3, none, none, none⟩
    extractGeneric g = { defaultLParams with ProgressionOrder := 4, NumLayers := 3 } ∧
    (encodeParams 12 16 (extractGeneric g)).NumLayers = 4 := by decide

/-- non-vacuity of the repaired branch (the hunters' witness): "rate": 0, "targetRatio": 0,
    "appendLosslessLayer": false, "rateLevels": [10, 5] — the bag is in scope through its own keys, the
    extracted Rate is 0 and the encoder gets ONE layer and no rate target (before the repair: Rate 20 and a
    single rate-limited layer without the closing lossless layer) -/
example :
    let g : GParams := ⟨some 5, some true, some 0, some [10, 5], some 0, some 1, some Frac.zero, some false, some false⟩
    (extractGeneric g).Rate = 0 ∧ (extractGeneric g).AppendLosslessLayer = false ∧
    (g.rate = some 0 ∧ ∀ t, g.targetRatio = some t → t.num = 0) ∧
    (encodeParams 8 8 (extractGeneric g)).NumLayers = 1 ∧
    (encodeParams 8 8 (extractGeneric g)).TargetRatio.pos = false ∧
    useLayered (encodeParams 8 8 (extractGeneric g)) = false := by
  refine ⟨by decide, by decide, ⟨rfl, ?_⟩, by decide, by decide, by decide⟩
  intro t ht
  cases ht
  rfl

/-- (5) the encoder's own decision, GENERATED from encoder.go initRDLayerConfig: for a reversible parameter set the
    layer count is max(1, NumLayers) and `appendLossless` is on exactly when there are ≥ 2 layers — it does not
    depend on LayerRates, on AppendLosslessLayer or on anything else; and it is the `appendLosslessFlag` of the
    hand model that `lossless_params_sound` speaks about. -/
theorem initRDLayerConfig_sound (e : Gen.J2kTiles.Encoder) (hL : e.params.Lossless = true) :
    let r := Gen.J2kTiles.Encoder.initRDLayerConfig e
    1 ≤ r.1 ∧ (1 ≤ e.params.NumLayers → r.1 = e.params.NumLayers) ∧ (r.2 = true ↔ e.params.NumLayers > 1) ∧
    ∀ m : EParams, m.Lossless = e.params.Lossless → m.NumLayers = e.params.NumLayers →
      m.AppendLosslessLayer = e.params.AppendLosslessLayer → 1 ≤ m.NumLayers → r.2 = appendLosslessFlag m := by
  unfold Gen.J2kTiles.Encoder.initRDLayerConfig appendLosslessFlag
  simp only [hL, Bool.true_and]
  by_cases h0 : e.params.NumLayers ≤ 0
  · simp only [h0, decide_true, if_true]
    refine ⟨by decide, fun h => by omega, ?_, fun m _ h2 _ h4 => by omega⟩
    simp; omega
  · simp only [h0, decide_false, Bool.false_eq_true, if_false]
    by_cases h1 : e.params.NumLayers > 1
    · simp only [h1, decide_true, if_true, Bool.and_true]
      refine ⟨by omega, fun _ => trivial, by simp, ?_⟩
      intro m hm1 hm2 hm3 _
      rw [hm1, hm2]; simp [h1]
    · simp only [h1, decide_false, Bool.false_eq_true, if_false, Bool.and_false]
      refine ⟨by omega, fun _ => trivial, by simp, ?_⟩
      intro m hm1 hm2 hm3 _
      rw [hm1, hm2]; simp [h1]

example :
    let e : Gen.J2kTiles.Encoder := { (default : Gen.J2kTiles.Encoder) with params :=
      { (default : Gen.J2kTiles.EncodeParams) with Lossless := true, NumLayers := 3, AppendLosslessLayer := false } }
    Gen.J2kTiles.Encoder.initRDLayerConfig e = (3, true) := by decide

end J2kL
