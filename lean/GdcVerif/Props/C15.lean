import GdcVerif.Model.JpegAddr
import GdcVerif.Lemmas.JpegAddr
/-!
  C15 — JPEG DCT streams and decoders agree with an independent implementation.  PARTIAL, with a DEFECT.

  What a theorem can carry here is the decoder's *addressing logic* (exact): which data unit each pixel shows.
  Numeric agreement with image/jpeg within 2 (6) grey levels is differential testing — SEARCHED, not proved.

  * `c15_addressing_FullStatement` (every pixel shows the data unit T.81 A.1.1/A.2.3 assigns to it) is FALSE for
    the code as it is: `comp.width = ⌈w·H/(8·maxH)⌉` can be smaller than the `mcuCols·H` blocks per row the
    scan walk produces, so block (comp.width, y) is stored on top of block (0, y+1).
    `c15_addressing_counterexample` proves it on 17×16 4:2:0 (`decide`); the harness confirms it on the real
    decoder through the public API (`jpg-cellmap`, and the image/jpeg comparison).
  * `c15_addressing_partial`: under `comp.width = mcuCols·H` (all 4:4:4 and grey frames; subsampled frames whose
    width fills the last MCU) the walk is injective on offsets, stays inside `comp.data`, and every pixel reads
    inside the data unit the standard designates, which is in the walk and is not skipped.
  * `c15_addressing_repaired`: with the proposed repair (`comp.width = mcuCols·H`, `comp.height = mcuRows·V`)
    the same holds for every frame.
  * restart markers: the scan collection keeps the entropy-coded bytes and drops exactly the RSTn markers;
    the Gray.Pix copy of DecodeSimple is tightly packed iff width and height are multiples of 8.
-/
namespace JpegAddr
set_option maxRecDepth 100000

/-- the witness frame: 17×16, Y 2×2, Cb 1×1, Cr 1×1 -/
def witness : Frame := { w := 17, h := 16, comps := [⟨2, 2⟩, ⟨1, 1⟩, ⟨1, 1⟩] }

/-- Full statement (EXPECTED FALSE on the unchanged code): every pixel shows the designated data unit -/
def c15_addressing_FullStatement : Prop :=
  ∀ (f : Frame), validFrame f = true → (∀ c ∈ f.comps, maxH f % c.H = 0 ∧ maxV f % c.V = 0) →
    (∀ c0 ∈ f.comps.head?, c0.H = maxH f ∧ c0.V = maxV f) →
    ∀ c ∈ f.comps, ∀ x y, x < f.w → y < f.h → shown f c x y = (specOrdinal f c x y : Int)

/-- the scan walk stores block (3,0) — a padding data unit of the second MCU — at the offset of block (0,1),
    which was decoded before it; pixel (0,8) therefore shows data unit 5 instead of data unit 2 -/
theorem c15_addressing_counterexample :
    let c : Comp := ⟨2, 2⟩
    validFrame witness = true ∧ compWidth witness c = 3 ∧ mcuCols witness * c.H = 4 ∧
    (3, 0) ∈ walk witness c ∧ (0, 1) ∈ walk witness c ∧
    writeOffset (compWidth witness c) (dataLen witness c) (3, 0) = some 192 ∧
    writeOffset (compWidth witness c) (dataLen witness c) (0, 1) = some 192 ∧
    shown witness c 0 8 = 5 ∧ specOrdinal witness c 0 8 = 2 ∧
    shownRepaired witness c 0 8 = 2 := by decide

theorem c15_addressing_FullStatement_false : ¬ c15_addressing_FullStatement := by
  intro h
  have := h witness (by decide) (by decide) (by decide) ⟨2, 2⟩ (by decide) 0 8 (by decide) (by decide)
  revert this; decide

/-- PARTIAL (the code as it is): if the component buffer is as wide as the walk (`comp.width = mcuCols·H`), then
    (a) distinct blocks of the walk have distinct offsets, (b) a block that is written lies inside comp.data,
    (c) for every pixel the address convertToPixels reads lies inside the data unit T.81 designates, that unit
        is in the walk and is not skipped.
    Missing for the full statement: nothing under this hypothesis except the list-level step "last writer of a
    uniquely written address is that block" (evaluated by the driver on every correspondence case);
    without the hypothesis the statement is false (see the counterexample). -/
theorem c15_addressing_partial (f : Frame) (c : Comp) (hH : 0 < c.H) (hV : 0 < c.V)
    (hcw : compWidth f c = mcuCols f * c.H) :
    (∀ b ∈ walk f c, ∀ b' ∈ walk f c, blockOffset (compWidth f c) b.1 b.2 = blockOffset (compWidth f c) b'.1 b'.2 → b = b') ∧
    (∀ b off, writeOffset (compWidth f c) (dataLen f c) b = some off → off + 64 ≤ dataLen f c) ∧
    (∀ x y, x < f.w → y < f.h → 0 < maxH f → 0 < maxV f →
      let bx := x * c.H / maxH f / 8
      let by' := y * c.V / maxV f / 8
      bx < compWidth f c ∧ by' < compHeight f c ∧ (bx, by') ∈ walk f c ∧
      writeOffset (compWidth f c) (dataLen f c) (bx, by') = some (blockOffset (compWidth f c) bx by')) := by
  refine ⟨?_, ?_, ?_⟩
  · intro b hb b' hb' he
    have h1 := (mem_walk_bounds f c b hb).1
    have h2 := (mem_walk_bounds f c b' hb').1
    rw [← hcw] at h1 h2
    have := offset_inj _ _ _ _ _ h1 h2 he
    exact Prod.ext this.1 this.2
  · intro b off h
    simp only [writeOffset] at h
    split at h
    · cases h
    · cases h; omega
  · intro x y hx hy hmh hmv bx by'
    have hbx : bx < compWidth f c := by
      simp only [bx, compWidth, Nat.div_div_eq_div_mul]
      exact div_lt_divCeil _ _ _ (by omega) (Nat.mul_lt_mul_of_pos_right hx hH)
    have hby : by' < compHeight f c := by
      simp only [by', compHeight, Nat.div_div_eq_div_mul]
      exact div_lt_divCeil _ _ _ (by omega) (Nat.mul_lt_mul_of_pos_right hy hV)
    have hch : compHeight f c ≤ mcuRows f * c.V := by
      simp only [compHeight, mcuRows]; exact divCeil_mul_le _ _ _ (by omega)
    refine ⟨hbx, hby, walk_mem_of_bounds f c bx by' hH hV (by rw [← hcw]; exact hbx) (by omega), ?_⟩
    exact writeOffset_some _ _ (bx, by') (inblock_lt (compWidth f c) (compHeight f c) bx by' hbx hby 63 (by omega))

/-- REPAIR: with `comp.width := mcuCols·H`, `comp.height := mcuRows·V` (whole MCUs, as libjpeg allocates) offsets are
    injective on the whole walk and no block of the walk is skipped — for every frame and sampling factors -/
theorem c15_addressing_repaired (f : Frame) (c : Comp) :
    let cw := mcuCols f * c.H
    let ch := mcuRows f * c.V
    (∀ b ∈ walk f c, ∀ b' ∈ walk f c, blockOffset cw b.1 b.2 = blockOffset cw b'.1 b'.2 → b = b') ∧
    (∀ b ∈ walk f c, writeOffset cw (cw * ch * 64) b = some (blockOffset cw b.1 b.2)) := by
  intro cw ch
  constructor
  · intro b hb b' hb' he
    have := offset_inj _ _ _ _ _ (mem_walk_bounds f c b hb).1 (mem_walk_bounds f c b' hb').1 he
    exact Prod.ext this.1 this.2
  · intro b hb
    have hbd := mem_walk_bounds f c b hb
    exact writeOffset_some _ _ b (inblock_lt cw ch b.1 b.2 hbd.1 hbd.2 63 (by omega))
example : (walk witness ⟨2, 2⟩).length = 8 ∧ compWidth witness ⟨1, 1⟩ = mcuCols witness * 1 := by decide

/-- restart markers: for entropy-coded data `pre` in which every FF is stuffed, followed by a restart marker,
    the collected scan is `pre` followed by the collection of the rest — RSTn removed, nothing else; any other
    marker ends the scan -/
theorem c15_scan_filter_rst (pre rest : List Nat) (k : Nat) (hk : k < 8)
    (hw : wellStuffed pre = true) (hne : ∀ b ∈ pre.getLast?, b ≠ 0xFF) :
    scanFilter (pre ++ 0xFF :: (0xD0 + k) :: rest) = pre ++ scanFilter rest ∧
    scanFilter (pre ++ 0xFF :: 0xD9 :: rest) = pre := by
  rw [scanFilter_prefix pre _ hw hne, scanFilter_prefix pre _ hw hne, sf_rst k rest hk, sf_eoi]
  simp
example : scanFilter [0x12, 0xFF, 0x00, 0x34, 0xFF, 0xD3, 0x56, 0xFF, 0xD9, 0x99] = [0x12, 0xFF, 0x00, 0x34, 0x56] := by decide

/-- DecodeSimple's Gray.Pix copy returns width·height samples only when both are multiples of 8 -/
theorem c15_repack_tight_iff (w h : Nat) (hw : 0 < w) (hh : 0 < h) :
    w * h ≤ pixLen w h ∧ (pixLen w h = w * h → w % 8 = 0 ∧ h % 8 = 0) := pixLen_ge w h hw hh
example : pixLen 17 9 = 384 ∧ pixLen 16 8 = 128 ∧ pixLen 1 1 = 64 := by decide

end JpegAddr
