import GdcVerif.Model.JpegAddr
import GdcVerif.Lemmas.JpegAddr
import GdcVerif.Lemmas.JpegAddrFull
import GdcVerif.Lemmas.JpegAddrNI
import GdcVerif.Lemmas.JpegAc
import GdcVerif.Lemmas.JpegDri
import GdcVerif.Lemmas.JpegScan
/-!
  C15 — JPEG DCT streams and decoders agree with an independent implementation.  PARTIAL.

  What a theorem can carry here is the decoder's *addressing and scan-structure logic* (exact).  Numeric
  agreement with image/jpeg within 2 (6) grey levels is differential testing — SEARCHED, not proved.

  Proved for the code at /repo HEAD (after fixes 2d44354, 4dc30ed, 5946dc5), at full strength:
  * `c15_addressing`: for EVERY frame size, sampling factors and pixel the baseline decoder shows the data unit
    T.81 A.1.1/A.2.3 designates (walk, blockOffset, skip rule, convertToPixels — code-shaped model tied to
    baseline.Decode by `jpg-cellmap`).  The pre-fix model is kept as `shownOld` with its witness
    (regression anchor: `c15_block_alias_regression`).
  * `c15_restart_intervals`: the scan collection cuts the entropy-coded data exactly at the RSTn markers (and
    nowhere else) — whatever number of 0xFF fill bytes precedes the marker (T.81 B.1.1.2; since fix
    PENDING:c15-fill-bytes-before-marker) —, without DRI behaves as before, and the MCU loop switches interval / resets
    the DC predictors exactly before MCUs Ri, 2Ri, … (T.81 E.1.4).
  * `c15_grey_factors_ignored` (since fix PENDING:c15-grey-sampling-factors): a single-component frame is decoded with
    factors 1×1 whatever its header declares; every pixel shows the data unit of the raster order (T.81 A.2.3).
  * `c15_addressing_noninterleaved` (since fix PENDING:c15-noninterleaved-scans): a component coded in a scan of its own
    is walked over its own ⌈xi/8⌉ × ⌈yi/8⌉ grid, which fits the component buffer, and every pixel shows the data unit
    T.81 A.2.3 designates — every frame size and every factor.
  * `c15_ac_runlength_roundtrip`: the decoder's AC run/size loop inverts the encoder's for every coefficient block
    (symbol level; tied to baseline.Decode by `jpg-acblock`, to the reference encoder by `jpg-acsyms`).
  * `baseline_scan_symbols_roundtrip`: block order, DC prediction and run-length coding round-trip at the symbol level
    for grey and 4:4:4 (encoder side tied to baseline.Encode by `jpg-scan-enc`); the bit-level statement is a `def` with
    the one missing lemma named.
  * `c15_dri_value`: the generated parseDRI expression is the 16-bit Ri (typed 8-bit shift semantics).
  * `c15_repack_tight`: DecodeSimple's grey row copy reads inside Pix and fills width·height samples bijectively.

  WHAT COMPOSES for foreign (subsampled) streams: `c15_addressing` covers every H, V ∈ 1..4 and every size, so the decoder
  model is  bytes → [bit-level reader: missing lemma] → symbols → `decBlocks` over `JpegAddr.walk` order (with
  `mcuInterval` resets when DRI > 0) → per-block `idctF` with the component's table → `shown` pixel map → ycbcrToRGB.
  Every arrow except the bit-level reader is a theorem or a generated kernel; the up-sampling by replication is part of
  `specOrdinal`.  Numeric agreement with image/jpeg (its IDCT and colour arithmetic differ) stays differential testing.
-/
namespace JpegAddr
set_option maxRecDepth 100000

/-- the frame on which the pre-fix decoder failed: 17×16, Y 2×2, Cb 1×1, Cr 1×1 -/
def witness : Frame := { w := 17, h := 16, comps := [⟨2, 2⟩, ⟨1, 1⟩, ⟨1, 1⟩] }

/-- (1) FULL addressing theorem: every pixel shows the designated data unit — no hypothesis on width, height,
    divisibility of sampling factors or component order -/
theorem c15_addressing (f : Frame) (c : Comp) (hH : 0 < c.H) (hV : 0 < c.V)
    (x y : Nat) (hx : x < f.w) (hy : y < f.h) :
    shown f c x y = (specOrdinal f c x y : Int) := shown_eq_spec f c hH hV x y hx hy

/-- (1') the walk's offsets are injective, and no block of the walk is skipped (all of them fit comp.data) -/
theorem c15_walk_injective_in_bounds (f : Frame) (c : Comp) :
    (∀ b ∈ walk f c, ∀ b' ∈ walk f c,
        blockOffset (compWidth f c) b.1 b.2 = blockOffset (compWidth f c) b'.1 b'.2 → b = b') ∧
    (∀ b ∈ walk f c, writeOffset (compWidth f c) (dataLen f c) b = some (blockOffset (compWidth f c) b.1 b.2) ∧
        blockOffset (compWidth f c) b.1 b.2 + 64 ≤ dataLen f c) := by
  constructor
  · intro b hb b' hb' he
    have := offset_inj _ _ _ _ _ (mem_walk_bounds f c b hb).1 (mem_walk_bounds f c b' hb').1 he
    exact Prod.ext this.1 this.2
  · intro b hb
    have hbd := mem_walk_bounds f c b hb
    have := inblock_lt (compWidth f c) (compHeight f c) b.1 b.2 hbd.1 hbd.2 63 (by omega)
    exact ⟨writeOffset_some _ _ b this, by simp only [dataLen]; omega⟩

/-- regression anchor of finding c15-baseline-dec-block-alias (fixed by 2d44354): on the witness frame the
    pre-fix geometry stored block (3,0) over block (0,1) and pixel (0,8) showed data unit 5; the current code
    shows data unit 2, as T.81 designates -/
theorem c15_block_alias_regression :
    let c : Comp := ⟨2, 2⟩
    compWidthOld witness c = 3 ∧ mcuCols witness * c.H = 4 ∧
    writeOffset (compWidthOld witness c) (dataLenOld witness c) (3, 0) = some 192 ∧
    writeOffset (compWidthOld witness c) (dataLenOld witness c) (0, 1) = some 192 ∧
    shownOld witness c 0 8 = 5 ∧ specOrdinal witness c 0 8 = 2 ∧ shown witness c 0 8 = 2 := by decide
example : validFrame witness = true ∧ (walk witness ⟨2, 2⟩).length = 8 ∧ shown witness ⟨1, 1⟩ 16 15 = 1 := by decide

/-- (2) restart intervals: for entropy-coded data `pre` in which every FF is stuffed, and ANY number `n` of 0xFF fill
    bytes in front of the marker (T.81 B.1.1.2),
    * `pre ++ FF ++ fill ++ RSTk ++ rest` closes the current interval with exactly `cur ++ pre` and starts an empty one;
    * `pre ++ FF ++ fill ++ m` for any other marker code `m` (not 00, not FF, not RSTn) ends the scan with `cur ++ pre`
      as the last interval;
    * without DRI the joined intervals are the scan filter (RSTn and fill bytes dropped, nothing else);
    * MCU n (0-based) is decoded from interval ⌊n/Ri⌋ and the DC predictors are reset exactly when Ri | n, n > 0 -/
theorem c15_restart_intervals (pre rest cur : List Nat) (acc : List (List Nat)) (k n m : Nat) (hk : k < 8)
    (hw : wellStuffed pre = true) (hne : ∀ b ∈ pre.getLast?, b ≠ 0xFF)
    (hm : m ≠ 0 ∧ m ≠ 0xFF ∧ isRST m = false) :
    scanSplitAux (pre ++ 0xFF :: (List.replicate n 0xFF ++ (0xD0 + k) :: rest)) cur acc
      = scanSplitAux rest [] (acc ++ [cur ++ pre]) ∧
    scanSplitAux (pre ++ 0xFF :: (List.replicate n 0xFF ++ m :: rest)) cur acc = acc ++ [cur ++ pre] ∧
    (∀ s, scanIntervals 0 s = [scanFilter s]) ∧
    (∀ ri n, 0 < ri → (mcuInterval ri n).1 = n / ri ∧ ((mcuInterval ri n).2 = true ↔ (0 < n ∧ n % ri = 0))) := by
  have h1 : isRST (0xD0 + k) = true := by simp [isRST]; omega
  have h2 : ¬ (0xD0 + k = 0) := by omega
  have h3 : ¬ (0xD0 + k = 0xFF) := by omega
  refine ⟨?_, ?_, ?_, fun ri n h => mcuInterval_spec ri h n⟩
  · rw [scanSplit_prefix pre _ cur acc hw hne]
    simp only [scanSplitAux]
    rw [scanSplitGo, if_pos rfl, scanSplitGo_fill, scanSplitGo, if_neg h3, if_neg h2, if_pos h1]
  · rw [scanSplit_prefix pre _ cur acc hw hne]
    simp only [scanSplitAux]
    rw [scanSplitGo, if_pos rfl, scanSplitGo_fill, scanSplitGo, if_neg hm.2.1, if_neg hm.1]
    simp [hm.2.2]
  · intro s
    simp only [scanIntervals, if_true]
    rw [scanSplit_flatten]; simp
example : scanIntervals 2 [0x12, 0xFF, 0x00, 0x34, 0xFF, 0xD3, 0x56, 0xFF, 0xD9, 0x99] = [[0x12, 0xFF, 0x00, 0x34], [0x56]] ∧
    scanIntervals 0 [0x12, 0xFF, 0x00, 0x34, 0xFF, 0xD3, 0x56, 0xFF, 0xD9, 0x99] = [[0x12, 0xFF, 0x00, 0x34, 0x56]] ∧
    mcuInterval 3 7 = (2, false) ∧ mcuInterval 3 6 = (2, true) := by decide
/-- regression anchor of finding c15h-baseline-fill-bytes-before-marker: `FF FF D3` is a restart marker preceded by one
    fill byte (before the fix the scan ended there and the interval `56` was lost); fill bytes before EOI; a trailing
    run of FF at the end of the data keeps one FF -/
example : scanIntervals 2 [0x12, 0xFF, 0xFF, 0xD3, 0x56, 0xFF, 0xFF, 0xFF, 0xD9, 0x99] = [[0x12], [0x56]] ∧
    scanIntervals 0 [0x12, 0xFF, 0xFF, 0xD3, 0x56, 0xFF, 0xFF, 0xD9] = [[0x12, 0x56]] ∧
    scanIntervals 1 [0x12, 0xFF, 0xFF, 0xFF] = [[0x12, 0xFF]] ∧
    wellStuffed [0x12, 0xFF, 0x00, 0x34] = true ∧ (0xDA ≠ 0 ∧ 0xDA ≠ 0xFF ∧ isRST 0xDA = false) := by decide

/-- (3) single-component frames (since fix PENDING:c15-grey-sampling-factors): whatever sampling factors the frame
    header declares for the only component, the decoder works with 1×1 (`parsedFrame`) and every pixel shows the data
    unit of the raster order over ⌈w/8⌉ columns — a scan with one component is never interleaved (T.81 A.2.3) -/
theorem c15_grey_factors_ignored (w h : Nat) (c : Comp) (x y : Nat) (hx : x < w) (hy : y < h) :
    parsedFrame { w := w, h := h, comps := [c] } = { w := w, h := h, comps := [⟨1, 1⟩] } ∧
    shown (parsedFrame { w := w, h := h, comps := [c] }) ⟨1, 1⟩ x y = ((y / 8 * divCeil w 8 + x / 8 : Nat) : Int) :=
  grey_shown w h c x y hx hy
/-- the hunters' witness geometry: 24×16, factors 2×2 — pixel (17, 9) shows data unit 1·3 + 2 = 5; read with the declared
    factors (the pre-fix behaviour) the same pixel shows data unit 6 of a 2×2-block MCU walk -/
example : shown (parsedFrame { w := 24, h := 16, comps := [⟨2, 2⟩] }) ⟨1, 1⟩ 17 9 = 5 ∧
    shown { w := 24, h := 16, comps := [⟨2, 2⟩] } ⟨2, 2⟩ 17 9 = 6 ∧
    validFrame { w := 24, h := 16, comps := [⟨2, 2⟩] } = true := by decide

/-- (4) non-interleaved scans (since fix PENDING:c15-noninterleaved-scans): a component coded in a scan of its own is
    walked in raster order over `niCols × niRows` = ⌈xi/8⌉ × ⌈yi/8⌉ data units (xi = ⌈X·Hi/Hmax⌉, yi = ⌈Y·Vi/Vmax⌉),
    this grid lies inside the component buffer parseSOF allocated, and every pixel shows the data unit T.81 A.2.3
    designates — no hypothesis on the frame size or the factors -/
theorem c15_addressing_noninterleaved (f : Frame) (c : Comp) (hH : 0 < c.H) (hV : 0 < c.V)
    (x y : Nat) (hx : x < f.w) (hy : y < f.h) :
    shownNI f c x y = (specOrdinalNI f c x y : Int) ∧
    niCols f c ≤ compWidth f c ∧ niRows f c ≤ compHeight f c ∧
    (walkNI f c).length = niRows f c * niCols f c :=
  ⟨shownNI_eq_spec f c hH hV x y hx hy, niCols_le f c, niRows_le f c, walkNI_length f c⟩
/-- 17×16 4:2:0: luma scan 3×2 data units (the interleaved walk has 8), chroma scans 2×1; pixel (16, 9) of Y shows data
    unit 1·3 + 2 = 5 in its own scan and 2·4… = 6 in the interleaved walk -/
example : niCols witness ⟨2, 2⟩ = 3 ∧ niRows witness ⟨2, 2⟩ = 2 ∧ niCols witness ⟨1, 1⟩ = 2 ∧ niRows witness ⟨1, 1⟩ = 1 ∧
    shownNI witness ⟨2, 2⟩ 16 9 = 5 ∧ shown witness ⟨2, 2⟩ 16 9 = 6 ∧ shownNI witness ⟨1, 1⟩ 16 15 = 1 := by decide

/-- (2') the restart interval parseDRI stores (GENERATED right-hand side of `d.restartInt = …`; go2lean gives a shift
    whose left operand is a byte the 8-bit wrap Go gives it) is the 16-bit big-endian value Ri of T.81 B.2.4.4 for every
    pair of bytes — in particular for Ri ≥ 256.  `int(data[0]<<8)` instead of `int(data[0])<<8` would translate to
    `Go.uwrap8 (Go.shl data_0 8) = 0` and lose the high byte (256 → 0, 300 → 44). -/
theorem c15_dri_value (d0 d1 : Nat) (h0 : d0 < 256) (h1 : d1 < 256) :
    Gen.JpegBaseline.parseDRI.restartInt (d0 : Int) (d1 : Int) = (d0 : Int) * 256 + d1 := dri_value d0 d1 h0 h1
example : Gen.JpegBaseline.parseDRI.restartInt 1 44 = 300 ∧ Go.or (Go.uwrap8 (Go.shl 1 8)) 44 = 44 := by decide

/-- (3) DecodeSimple's grey row copy (fix 5946dc5): for Stride ≥ width every read is inside the `pixLen` bytes
    image/jpeg's sub-image holds, every destination index is inside width·height, and distinct pixels go to
    distinct destinations.  Regression anchor: before the fix the whole padded buffer was returned
    (`pixLen 1 1 = 64` bytes for a 1×1 image). -/
theorem c15_repack_tight (w h x y : Nat) (hx : x < w) (hy : y < h) :
    repackSrc (8 * divCeil w 8) x y < pixLen w h ∧ repackDst w x y < w * h ∧
    (∀ x' y', x' < w → y' < h → repackDst w x y = repackDst w x' y' → x = x' ∧ y = y') := by
  have hw8 : w ≤ 8 * divCeil w 8 := by simp only [divCeil]; omega
  have hh8 : h ≤ 8 * divCeil h 8 := by simp only [divCeil]; omega
  refine ⟨?_, ?_, ?_⟩
  · simp only [repackSrc, pixLen]
    generalize 8 * divCeil w 8 = S at *
    generalize 8 * divCeil h 8 = Hh at *
    calc y * S + x < y * S + S := by omega
      _ = (y + 1) * S := by rw [Nat.add_mul, Nat.one_mul]
      _ ≤ Hh * S := Nat.mul_le_mul_right _ (by omega)
      _ = S * Hh := Nat.mul_comm _ _
  · simp only [repackDst]
    calc y * w + x < y * w + w := by omega
      _ = (y + 1) * w := by rw [Nat.add_mul, Nat.one_mul]
      _ ≤ h * w := Nat.mul_le_mul_right _ hy
      _ = w * h := Nat.mul_comm _ _
  · intro x' y' hx' hy' he
    simp only [repackDst] at he
    have := offset_inj w x y x' y' hx hx' (by simp only [blockOffset]; omega)
    exact this
example : pixLen 1 1 = 64 ∧ repackDst 17 16 8 = 152 ∧ repackSrc 24 16 8 = 208 := by decide

end JpegAddr

namespace JpegAc

/-- (4) run-length coding of the AC coefficients: decodeBlock's AC loop (code-shaped model: ZRL advances 16, EOB ends,
    `k += r`, EXTEND) applied to the symbols encodeBlock's AC loop emits for ANY 63 coefficients (zig-zag order, each
    |v| < 2^15, i.e. category ≤ 15) returns exactly those coefficients — every position 1..63, zero runs of any length
    (≥ 16, ≥ 32, ≥ 48 included), trailing zeros via EOB, a non-zero last coefficient without EOB -/
theorem c15_ac_runlength_roundtrip (ac : List Int) (hl : ac.length = 63) (hb : ∀ v ∈ ac, v.natAbs < 2 ^ 15) :
    decodeAC (encAC ac 0) = some ac := decode_encode ac hl hb
example : encAC (List.replicate 62 0 ++ [5]) 0 = [ZRL, ZRL, ZRL, (14 * 16 + 3, 5)] ∧
    encAC ([0, -2] ++ List.replicate 61 0) 0 = [(1 * 16 + 2, 1), EOB] ∧
    decodeAC [ZRL, ZRL, ZRL, (14 * 16 + 3, 5)] = some (List.replicate 62 0 ++ [5]) := by decide

end JpegAc

namespace JpegScan

/-- (5) the baseline scan at the level of Huffman SYMBOLS: for any MCU-ordered list of (component, block) — greyscale
    (one component) and 4:4:4 (Y, Cb, Cr per block position) alike, any number of blocks — decodeBlock's symbol
    consumption (DC: `dcPred += EXTEND`, AC loop) applied to the symbols encodeBlock emits (DC difference against the
    per-component predictor, category coding, run-length coding) returns exactly the quantised coefficient blocks.
    Hypotheses: 63 AC coefficients per block with |v| < 2^15, DC values and initial predictors below 2^30 in magnitude
    (the 8-bit codecs stay below 2^11).  Composition of `c15_ac_runlength_roundtrip`, `c11_category_roundtrip` and the
    DC prediction.  The encoder side of this model (`encBlocks` over `quantF ∘ fdctF` of the planes) is tied to the real
    baseline.Encode by `jpg-scan-enc` (the Huffman symbols decoded from the real stream), the decoder side by
    `jpg-acblock` and the whole-image ops `jpg-greyimage` / `jpg-rgbimage`. -/
theorem baseline_scan_symbols_roundtrip (l : List (Nat × Block)) (pred : Nat → Int)
    (hl : ∀ b ∈ l, b.2.2.length = 63 ∧ (∀ v ∈ b.2.2, v.natAbs < 2 ^ 15) ∧ b.2.1.natAbs < 2 ^ 30)
    (hp : ∀ c, (pred c).natAbs < 2 ^ 30) :
    decBlocks pred (l.map (·.1)) (encBlocks pred l) = some l := scan_symbols_roundtrip l pred hl hp
example : encBlocks (fun _ => 0) [(0, (5, List.replicate 63 0)), (0, (3, 7 :: List.replicate 62 0))] =
    [((3, 5), [JpegAc.EOB]), ((2, 1), [(3, 7), JpegAc.EOB])] := by decide

/-- The bit-level statement `decodeScan (encodeScan coeffBlocks) = coeffBlocks` for baseline grey / 4:4:4 (entropy-coded
    BYTES, with the per-image optimal tables).  NOT proved here.  What composes, and the one missing lemma:
    * symbols: `baseline_scan_symbols_roundtrip` (this file);
    * tables: `JLL.optimal_table_valid_any_alphabet` (Props/C02) — the DC and AC tables built from the counted symbols are
      valid and contain every emitted symbol (total count < 9 227 464 per table, `optimal_table_depth_from_total`);
    * codes and bits: `JLL.canonical_decode_encode_thm` (a symbol's code followed by anything decodes to that symbol and
      consumes exactly its bits), `JLL.huffbits_roundtrip_thm` / `readBits_correct` (WriteBits/Flush vs ReadBit(s), stuffing);
    * MISSING: the fused reader lemma for the DCT scan — wp-jll's `entropy_layer_roundtrip` reads a list of
      (category, amplitude) symbols with ONE table; the DCT decoder alternates a DC table and an AC table per component and
      decides from the symbols read so far (k, EOB, ZRL) which table comes next.  Needed: for a tagged symbol list
      [(table, symbol, amplitude)] written with `symWrites` per tag, the code-shaped bit-level decodeBlock loop returns the
      same symbols that `decBlocks` consumes — an induction of the same shape as `entropy_roundtrip` with the table chosen by
      the tag, plus `decAC`'s control flow.
    `enc`/`dec` stand for the byte-level scan encoder / decoder. -/
def baseline_scan_roundtrip_FullStatement (enc : List (Nat × Block) → Option (List Nat))
    (dec : List Nat → List Nat → Option (List (Nat × Block))) : Prop :=
  ∀ l : List (Nat × Block), (∀ b ∈ l, b.2.2.length = 63 ∧ (∀ v ∈ b.2.2, v.natAbs < 2 ^ 11) ∧ b.2.1.natAbs < 2 ^ 11) →
    ∃ bytes, enc l = some bytes ∧ dec (l.map (·.1)) bytes = some l

end JpegScan
