import GdcVerif.Model.J2kSample
import GdcVerif.Model.J2kTiles
import GdcVerif.Lemmas.J2kSample
import GdcVerif.Lemmas.J2kHeaderCodes
import GdcVerif.Lemmas.J2kResDims
import GdcVerif.Lemmas.J2kTagTree
import GdcVerif.Lemmas.J2kBio
import GdcVerif.Lemmas.J2kBandState
import GdcVerif.Lemmas.J2kPacketHeader
import GdcVerif.Lemmas.J2kGlueImage
import GdcVerif.Lemmas.J2kGlueSample
import GdcVerif.Lemmas.J2kGlueFrame
import GdcVerif.Lemmas.J2kContainer
/-!
  C04 — JPEG 2000 reversible path, single tile: exact reconstruction for every configuration.

  Property theorems only.  Proved layers: sample (de)serialisation + DC level shift (full), code-block pass layout
  (generated kernel) and its reading by the decoder, single-tile sub-band split agreement (x0 = 0 instance of
  C19's theorems), packet-header codes (pass count, comma code, fixed-width fields) on bit lists, the bit
  writer's 0xFF invariants, and the composition of abstract layers.  NOT modelled: MQ coder and EBCOT T1 (C20),
  packet sequencing (packet_encoder.go / packet_decoder.go / tile_decoder.go).
-/
namespace J2k
open Gen.J2kTiles

/-- sample layer, as the property reads the container: for every precision 1..16, signed or unsigned, every
    sample that fits: container → convertPixelData → DC shift → (exact core) → inverse DC shift → GetPixelData
    gives the container bytes back.  (Full strength since fix 81cd602; before it the 8-bit branch took the sign
    from bit 7.) -/
theorem sample_roundtrip (P : Int) (signed : Bool) (s : Int) (hP1 : 1 ≤ P) (hP2 : P ≤ 16)
    (hr : inRange P signed s) :
    sampleRoundTrip P signed s = container P s := sample_roundtrip' P signed s hP1 hP2 hr

example : inRange 12 true (-2048) ∧ inRange 8 true (-128) ∧ inRange 1 false 1 ∧ inRange 7 true 63 ∧
    sampleRoundTrip 12 true (-2048) = (0, 8) ∧ sampleRoundTrip 8 true (-128) = (128, 0) := by
  unfold inRange; decide

/-- regression anchor (old defect `j2k-signed-p-lt8-container`): P = 4, signed, sample −3 in container byte 0x0D
    is read as −3 (was +13) and comes back as 0x0D (was 0x07); a sign-extended container byte 0xFD reads the same -/
example : inRange 4 true (-3) ∧ container 4 (-3) = (13, 0) ∧ readSample 4 true 13 0 = -3 ∧
    readSample 4 true 0xFD 0 = -3 ∧ sampleRoundTrip 4 true (-3) = (13, 0) := by
  unfold inRange; decide

/-- code-block pass layout (generated from encoder.go codeBlockPassLayout), classic EBCOT mode:
    numPasses = 3·bps − 2, the missing MSB planes add up to the band's bit planes, the count fits the
    pass-count code (≤ 164), and the decoder's two readings (from the pass count, tile_decoder.go
    estimateMaxBitplane `(totalPasses+2)/3`, and from QCD `bandNumbps − zbp`) both return bps -/
theorem passLayout_facts (e : Encoder) (hht : e.params.HTJ2KMode = false) (cblk band : Int)
    (h1 : 1 ≤ cblk) (h2 : cblk ≤ band) (h3 : cblk ≤ 55) :
    let r := Encoder.codeBlockPassLayout e cblk band
    r.1 = 3 * cblk - 2 ∧ r.2 + cblk = band ∧ 1 ≤ r.1 ∧ r.1 ≤ 164 ∧
    Int.tdiv (r.1 + 2) 3 = cblk ∧ band - r.2 = cblk := by
  unfold Encoder.codeBlockPassLayout
  have c1 : cblk > 0 := by omega
  have c2 : ¬ (band - cblk < 0) := by omega
  simp only [hht, c1, c2, decide_true, decide_false, if_true, Bool.false_eq_true, if_false]
  refine ⟨by omega, by omega, by omega, by omega, ?_, by omega⟩
  rw [Int.tdiv_eq_ediv_of_nonneg (by omega)]; omega

example : Encoder.codeBlockPassLayout (encOf 8 8) 9 10 = (25, 1) := by decide

/-- an all-zero code-block (bps = 0) is given one pass and all planes missing -/
theorem passLayout_zero (e : Encoder) (hht : e.params.HTJ2KMode = false) (band : Int) (hb : 0 ≤ band) :
    Encoder.codeBlockPassLayout e 0 band = (1, band) := by
  unfold Encoder.codeBlockPassLayout
  simp [hht]; omega

/-- single tile (origin 0): the encoder's sub-band extents are the ones the wavelet and the decoder use, and they
    are the ceil splits ⌈len/2ⁿ⌉, for every size and level count — the x0 = 0 instance of C19 (4c) -/
theorem single_tile_subband_split_agrees (len : Int) (n : Nat) (hl : 0 ≤ len) :
    encLowLen len 0 n = (resDimsT2 len 0 n).1 ∧ encLowLen len 0 n = ceilDivPow2 len n := by
  refine ⟨by unfold encLowLen; rw [resDimsT2_eq], ?_⟩
  unfold encLowLen; exact aligned_agree len 0 n hl (by simp)

example : (resDims 37 0 3).1 = 5 ∧ encLowLen 37 0 3 = 5 := by decide

/-- code-block partition of a sub-band: encoder (partitionIntoCodeBlocks) and decoder (buildAndDecodeCodeBlocks)
    cut the SAME rectangle for every grid position, each is non-empty and inside the band, every coefficient of
    the band lies in the block (⌊x/cbw⌋, ⌊y/cbh⌋) of the grid, and in no other — for every band and block size ≥ 1 -/
theorem codeblocks_partition_subband (bw bh cbw cbh : Int) (hbw : 1 ≤ bw) (hbh : 1 ≤ bh) (hcw : 1 ≤ cbw) (hch : 1 ≤ cbh) :
    (∀ cbx cby, encCbRect bw bh cbw cbh cbx cby = decCbRect bw bh cbw cbh cbx cby) ∧
    (∀ cbx cby, 0 ≤ cbx → cbx < numCb bw cbw → 0 ≤ cby → cby < numCb bh cbh →
      let r := encCbRect bw bh cbw cbh cbx cby
      0 ≤ r.1 ∧ r.1 < r.2.2.1 ∧ r.2.2.1 ≤ bw ∧ 0 ≤ r.2.1 ∧ r.2.1 < r.2.2.2 ∧ r.2.2.2 ≤ bh) ∧
    (∀ x y, 0 ≤ x → x < bw → 0 ≤ y → y < bh →
      0 ≤ x / cbw ∧ x / cbw < numCb bw cbw ∧ 0 ≤ y / cbh ∧ y / cbh < numCb bh cbh ∧
      inRect (encCbRect bw bh cbw cbh (x / cbw) (y / cbh)) x y) ∧
    (∀ x y cbx cby, inRect (encCbRect bw bh cbw cbh cbx cby) x y → cbx = x / cbw ∧ cby = y / cbh) := by
  have hn1 : numCb bw cbw = (bw + cbw - 1) / cbw := by unfold numCb; exact tdiv_eq_ediv (by omega)
  have hn2 : numCb bh cbh = (bh + cbh - 1) / cbh := by unfold numCb; exact tdiv_eq_ediv (by omega)
  refine ⟨fun _ _ => rfl, ?_, ?_, ?_⟩
  · intro cbx cby h1 h2 h3 h4
    rw [hn1] at h2; rw [hn2] at h4
    have hx := tile_start_lt (by omega : 0 < cbw) h2
    have hy := tile_start_lt (by omega : 0 < cbh) h4
    have hx0 : 0 ≤ cbx * cbw := Int.mul_nonneg h1 (by omega)
    have hy0 : 0 ≤ cby * cbh := Int.mul_nonneg h3 (by omega)
    show 0 ≤ (encCbRect bw bh cbw cbh cbx cby).1 ∧ (encCbRect bw bh cbw cbh cbx cby).1 < (encCbRect bw bh cbw cbh cbx cby).2.2.1 ∧
      (encCbRect bw bh cbw cbh cbx cby).2.2.1 ≤ bw ∧ 0 ≤ (encCbRect bw bh cbw cbh cbx cby).2.1 ∧
      (encCbRect bw bh cbw cbh cbx cby).2.1 < (encCbRect bw bh cbw cbh cbx cby).2.2.2 ∧ (encCbRect bw bh cbw cbh cbx cby).2.2.2 ≤ bh
    unfold encCbRect
    simp only []
    refine ⟨hx0, ?_, ?_, hy0, ?_, ?_⟩ <;> split <;> omega
  · intro x y hx0 hx hy0 hy
    rw [hn1, hn2]
    have a1 := ediv_mul_le' x (by omega : 0 < cbw)
    have a2 := lt_ediv_mul_add x (by omega : 0 < cbw)
    have b1 := ediv_mul_le' y (by omega : 0 < cbh)
    have b2 := lt_ediv_mul_add y (by omega : 0 < cbh)
    refine ⟨Int.ediv_nonneg hx0 (by omega), quot_lt_numTiles (by omega) hx, Int.ediv_nonneg hy0 (by omega),
      quot_lt_numTiles (by omega) hy, ?_⟩
    unfold inRect encCbRect
    simp only []
    refine ⟨a1, ?_, b1, ?_⟩ <;> split <;> omega
  · intro x y cbx cby hin
    unfold inRect encCbRect at hin
    simp only [] at hin
    obtain ⟨h1, h2, h3, h4⟩ := hin
    constructor
    · symm; apply ediv_unique (by omega) h1; split at h2 <;> omega
    · symm; apply ediv_unique (by omega) h3; split at h4 <;> omega

example : encCbRect 37 5 16 4 2 1 = (32, 4, 37, 5) ∧ numCb 37 16 = 3 ∧ numCb 5 4 = 2 := by decide

/-- precinct partition, LIVE code: the encoder (buildTilePacketEncoder, inline since 104b234) and the decoder
    (buildResolutionPrecinctOrder) count the same number of precinct columns — and, the code being the same in y,
    rows — for every canvas origin, resolution extent and precinct size; with `codeblock_index_agreement` (C19)
    every code-block lands in the same precinct with the same grid index on both sides -/
theorem precinct_count_agreement (x0 resW pw : Int) (h0 : 0 ≤ x0) (hw : 0 ≤ resW) (hpw : 1 ≤ pw) :
    encNumPrecinct x0 resW pw = decNumPrecinct x0 resW pw := numPrecinct_agree x0 resW pw h0 hw hpw

example : encNumPrecinct 0 17 16 = 2 ∧ decNumPrecinct 0 17 16 = 2 ∧ encNumPrecinct 5 12 8 = 3 ∧ decNumPrecinct 40 1 32768 = 1 := by
  decide

/-- precinct partition, GENERATED kernels Encoder.getResolutionDimensions / getPrecinctSize / calculatePrecinctIndex
    (no caller on the current tree — kept under proof so that an edit shows): for every image size ≥ 1, level count,
    resolution 0..levels and precinct configuration, the resolution extents are the decoder's (origin 0:
    ⌈W/2^(L−r)⌉ × ⌈H/2^(L−r)⌉), hence the number of precinct columns and rows are the decoder's, and the precinct
    index is `row·columns + column` with the decoder's column count -/
theorem precinct_grid_agreement_generated (e : Encoder) (r : Int)
    (hW : 1 ≤ e.params.Width) (hH : 1 ≤ e.params.Height) (hr0 : 0 ≤ r) (hr : r ≤ e.params.NumLevels) :
    let n := (e.params.NumLevels - r).toNat
    let dims := Encoder.getResolutionDimensions e r
    let ps := Encoder.getPrecinctSize e r
    dims.1 = (resDimsT2 e.params.Width 0 n).1 ∧ dims.2 = (resDimsT2 e.params.Height 0 n).1 ∧
    1 ≤ ps.1 ∧ 1 ≤ ps.2 ∧
    Int.tdiv (dims.1 + ps.1 - 1) ps.1 = decNumPrecinct 0 (resDimsT2 e.params.Width 0 n).1 ps.1 ∧
    Int.tdiv (dims.2 + ps.2 - 1) ps.2 = decNumPrecinct 0 (resDimsT2 e.params.Height 0 n).1 ps.2 ∧
    ∀ cbX0 cbY0, Encoder.calculatePrecinctIndex e cbX0 cbY0 r =
      Int.tdiv cbY0 ps.2 * decNumPrecinct 0 (resDimsT2 e.params.Width 0 n).1 ps.1 + Int.tdiv cbX0 ps.1 := by
  intro n dims ps
  have hn : ((n : Nat) : Int) = e.params.NumLevels - r := by
    show (((e.params.NumLevels - r).toNat : Nat) : Int) = _; omega
  have hcd : ∀ len : Int, 1 ≤ len → ceilDivPow2 len (e.params.NumLevels - r) = (resDimsT2 len 0 n).1 ∧
      1 ≤ ceilDivPow2 len (e.params.NumLevels - r) := by
    intro len hl
    have h1 := aligned_agree len 0 n (by omega) (by simp)
    unfold encLowLenOld at h1
    rw [hn] at h1
    refine ⟨by rw [resDimsT2_eq]; exact h1.symm, ?_⟩
    rw [← hn, ceilDivPow2_eq len n (by omega)]
    have hp : (0 : Int) < 2 ^ n := Int.pow_pos (by decide)
    have := numTiles_pos hp hl; omega
  obtain ⟨hw1, hw2⟩ := hcd e.params.Width hW
  obtain ⟨hh1, hh2⟩ := hcd e.params.Height hH
  have hd : dims = (ceilDivPow2 e.params.Width (e.params.NumLevels - r), ceilDivPow2 e.params.Height (e.params.NumLevels - r)) := by
    show Encoder.getResolutionDimensions e r = _
    unfold Encoder.getResolutionDimensions
    have c1 : ¬ (e.params.NumLevels - r < 0) := by omega
    have c2 : ¬ (ceilDivPow2 e.params.Width (e.params.NumLevels - r) < 1) := by omega
    have c3 : ¬ (ceilDivPow2 e.params.Height (e.params.NumLevels - r) < 1) := by omega
    simp only [c1, c2, c3, decide_false, Bool.false_eq_true, if_false]
  have hps : ps = (2 ^ (Encoder.getPrecinctSizeExponents e r).1.toNat, 2 ^ (Encoder.getPrecinctSizeExponents e r).2.toNat) := by
    show Encoder.getPrecinctSize e r = _
    unfold Encoder.getPrecinctSize Go.shl
    simp
  have hp1 : 1 ≤ ps.1 := by rw [hps]; exact Int.pow_pos (by decide)
  have hp2 : 1 ≤ ps.2 := by rw [hps]; exact Int.pow_pos (by decide)
  have hcx : Int.tdiv (dims.1 + ps.1 - 1) ps.1 = decNumPrecinct 0 (resDimsT2 e.params.Width 0 n).1 ps.1 := by
    rw [hd]; simp only []
    rw [hw1, decNumPrecinct_zero _ _ (by rw [← hw1]; exact hw2) hp1]
    exact tdiv_eq_ediv (by rw [← hw1]; omega)
  have hcy : Int.tdiv (dims.2 + ps.2 - 1) ps.2 = decNumPrecinct 0 (resDimsT2 e.params.Height 0 n).1 ps.2 := by
    rw [hd]; simp only []
    rw [hh1, decNumPrecinct_zero _ _ (by rw [← hh1]; exact hh2) hp2]
    exact tdiv_eq_ediv (by rw [← hh1]; omega)
  refine ⟨by rw [hd]; exact hw1, by rw [hd]; exact hh1, hp1, hp2, hcx, hcy, ?_⟩
  intro cbX0 cbY0
  unfold Encoder.calculatePrecinctIndex
  show Int.tdiv cbY0 ps.2 * Int.tdiv (dims.1 + ps.1 - 1) ps.1 + Int.tdiv cbX0 ps.1 = _
  rw [hcx]

/-- the sizes of the seeded case: 33×33, 1 level, 32×32 precincts: resolution 1 is 33 wide → 2 precinct columns
    (a floor shift would still give 33 here; at resolution 0 it is ⌈33/2⌉ = 17 with 16-wide precincts → 2 columns,
    where a floor shift gives 16 → 1 column) -/
example :
    let e : Encoder := { (encOf 33 33) with params := { (encOf 33 33).params with NumLevels := 1, PrecinctWidth := 32, PrecinctHeight := 32 } }
    Encoder.getResolutionDimensions e 0 = (17, 17) ∧ Encoder.getPrecinctSize e 0 = (16, 16) ∧
    Encoder.calculatePrecinctIndex e 16 16 0 = 3 ∧ Encoder.getPrecinctSize e 1 = (32, 32) ∧
    Encoder.calculatePrecinctIndex e 32 32 1 = 3 := by decide

/-- pass-count code: every count 1..164 decodes to itself and consumes exactly its code word -/
theorem numPasses_roundtrip (n : Nat) (h1 : 1 ≤ n) (h2 : n ≤ 164) (rest : List Bool) :
    ∃ code, encNumPasses n = some code ∧ decNumPasses (code ++ rest) = some (n, rest) :=
  numPasses_roundtrip' n h1 h2 rest

example : encNumPasses 37 = some (writeBitsL 0xff80 16) ∧ encNumPasses 165 = none := by decide

/-- comma code (Lblock increment): unbounded -/
theorem comma_roundtrip (n : Nat) (rest : List Bool) : decComma (encComma n ++ rest) = some (n, rest) :=
  comma_roundtrip' n rest

/-- fixed-width field writeBits(v, n) / readBits(n): every value that fits comes back -/
theorem bits_roundtrip (n v : Nat) (hv : v < 2 ^ n) (rest : List Bool) :
    readBitsL n 0 (writeBitsL v n ++ rest) = some (v, rest) := bits_roundtrip' n v hv rest

example : (5 : Nat) < 2 ^ 3 ∧ writeBitsL 5 3 = [true, false, true] := by decide

/-- Lblock length coding (encodeCodeBlockLengths with one codeword segment / decodeDataLengthWithReader without
    TERMALL): for every Lblock state, data length and pass count the increment rule makes the field wide enough
    (`len < 2^(Lblock + ⌊log2 passes⌋)`), and the decoder gets back the same length AND the same new Lblock,
    consuming exactly the code.  Hypothesis: the field is at most 32 bits wide (bioReader.readBits' limit; lengths
    below 2^29 with ≤ 164 passes satisfy it from Lblock ≤ 29).  Not covered: contributions with a pass terminated
    before the last (TERMALL / LAZY: several length fields; the decoder reads them only in TERMALL mode). -/
theorem lblock_roundtrip (numLenBits dataLen newPasses : Nat) (rest : List Bool)
    (hw : (encLen numLenBits dataLen newPasses).1 + floorLog2 newPasses ≤ 32) :
    decLen numLenBits newPasses ((encLen numLenBits dataLen newPasses).2 ++ rest) =
      some (dataLen, (encLen numLenBits dataLen newPasses).1, rest) ∧
    dataLen < 2 ^ ((encLen numLenBits dataLen newPasses).1 + floorLog2 newPasses) :=
  lblock_roundtrip' numLenBits dataLen newPasses rest hw

example : encLen 0 512 34 = (5, [true, true, false] ++ writeBitsL 512 10) ∧ (encLen 0 512 34).1 + floorLog2 34 ≤ 32 ∧
    floorLog2 34 = 5 ∧ floorLog2 0 = 0 ∧ floorLog2 1 = 0 := by decide

/-- bioWriter: after emitting 0xFF the next byte has 7 usable bits, otherwise 8 (bit stuffing) -/
theorem bio_byteOut_ct (w : BioW) :
    (w.byteOut.ct = 7 ↔ w.byteOut.buf.getLast? = some 255) ∧ (w.byteOut.ct = 7 ∨ w.byteOut.ct = 8) :=
  byteOut_ct' w

/-- bioWriter.flush never ends a packet header on 0xFF and always emits at least one byte (C16 reuses this) -/
theorem bio_flush_last_not_FF (w : BioW) : w.flush.getLast? ≠ some 255 ∧ w.flush ≠ [] :=
  ⟨flush_last_not_FF' w, flush_nonempty' w⟩

example : (BioW.new.writeBitsList (List.replicate 8 true)).flush = [255, 0] ∧
    (BioW.new.writeBitsList (List.replicate 9 true)).flush = [255, 64] := by decide

/-- packet-header bit I/O, byte level, FULL: every non-empty header bit string (a header has at least its
    packet-present bit) written by bioWriter and flushed is read back by bioReader bit for bit from
    `stream ++ rest` — 0xFF stuffing included — and `alignToByte` leaves the reader exactly at `rest`, the first
    byte after the header (full strength since fix aaeb057) -/
theorem bio_roundtrip (bits : List Bool) (rest : List Nat) (hne : bits ≠ []) :
    headerRoundTrip BioR.alignToByte bits rest = some (bits, rest) := bio_roundtrip' bits rest hne

example : headerRoundTrip BioR.alignToByte [true, false, true, true, true, true, true, true, true, true, true] [0xA5] =
    some ([true, false, true, true, true, true, true, true, true, true, true], [0xA5]) := by decide

/-- regression anchor (old defect `j2k-packet-header-full-0xFF-align`, root cause of the rare ≈1/3000 failures):
    a header whose bits end exactly on a byte 0xFF — eight 1-bits — is flushed as FF 00; the old alignToByte
    (early return when ct = 0) left the stuffing byte 00 unread, the repaired one consumes it -/
example : (BioW.new.writeBitsList (List.replicate 8 true)).flush = [255, 0] ∧
    headerRoundTrip BioR.alignToByteOld (List.replicate 8 true) [0x80] = some (List.replicate 8 true, [0, 0x80]) ∧
    headerRoundTrip BioR.alignToByte (List.replicate 8 true) [0x80] = some (List.replicate 8 true, [0x80]) := by
  decide

/-- composition of abstract layers: if every layer inverts on its domain and hands its successor an
    admissible input, the pipeline is the identity -/
theorem pipeline_identity {α β γ : Type} (l1 : Layer α β) (l2 : Layer β γ)
    (h : ∀ x, l1.ok x → l2.ok (l1.enc x)) (x : α) (hx : l1.ok x) :
    (l1.comp l2 h).dec ((l1.comp l2 h).enc x) = x := (l1.comp l2 h).contract x hx

/-- the end-to-end statement, partial: container bytes → samples (`front`, proved above except signed P<8) →
    RCT (`rct`, C20) → 5/3 DWT (`dwt`, C20) → code-block partition + T1 (`t1`, NOT modelled) → T2 packets and
    codestream (`t2`, primitives proved above, sequencing NOT modelled).  Named hypotheses: the five layer
    contracts (fields `contract`) and the four hand-over conditions h12…h45.  Conclusion: decode ∘ encode = id. -/
theorem reversible_roundtrip_partial {A B C D E F : Type}
    (front : Layer A B) (rct : Layer B C) (dwt : Layer C D) (t1 : Layer D E) (t2 : Layer E F)
    (h12 : ∀ x, front.ok x → rct.ok (front.enc x)) (h23 : ∀ x, rct.ok x → dwt.ok (rct.enc x))
    (h34 : ∀ x, dwt.ok x → t1.ok (dwt.enc x)) (h45 : ∀ x, t1.ok x → t2.ok (t1.enc x))
    (x : A) (hx : front.ok x) :
    front.dec (rct.dec (dwt.dec (t1.dec (t2.dec (t2.enc (t1.enc (dwt.enc (rct.enc (front.enc x))))))))) = x := by
  have a := h12 x hx
  have b := h23 _ a
  have c := h34 _ b
  have d := h45 _ c
  rw [t2.contract _ d, t1.contract _ c, dwt.contract _ b, rct.contract _ a, front.contract _ hx]

/-- non-vacuity of the layer structure: the sample layer is an instance for unsigned 8-bit samples -/
example : ∃ l : Layer Int (Int × Int), l.ok 200 ∧ l.enc 200 = (200, 0) :=
  ⟨{ enc := container 8, dec := fun c => dcUnshift 8 false (dcShift 8 false (readSample 8 false c.1 c.2)),
     ok := fun s => s = 200, contract := by intro x hx; subst hx; decide }, rfl, by decide⟩

end J2k

/-! ## Tag trees (jpeg2000/t2/tagtree.go) — used by every packet header (inclusion and zero-bit-plane trees) -/
namespace J2kTT

/-- the queries of a header sequence: leaf (x, y) with threshold t, as root→leaf paths of a w×h tree -/
def queries (w h : Nat) (qs : List (Nat × Nat × Nat)) : List (List Node × Nat) :=
  qs.map fun q => (ttPath w h q.1 q.2.1, q.2.2)

/-- tag-tree round trip, every w×h, every sequence of (leaf, threshold) queries, from ANY pair of encoder /
    decoder tree states in lock step (`Inv`; in particular two fresh trees): the decoder, fed the encoder's bits
    followed by anything, consumes exactly those bits, ends in lock step again, and answers each query with the
    leaf's value when it is below the threshold (or was already known) and with the sentinel 999 plus the fact
    `threshold ≤ value` otherwise.  Hypotheses: thresholds ≤ 999 (the Go sentinel) and the heap property of the
    encoder's node values, which `tagtree_setValue` shows SetValue maintains. -/
theorem tagtree_roundtrip (w h : Nat) (qs : List (Nat × Nat × Nat)) (se : TTEnc) (sd : TTDec) (rest : List Bool)
    (hinv : Inv se sd) (hheap : GlobalHeap se.val (ttNumLevels w h)) (ht : ∀ q ∈ qs, q.2.2 ≤ sentinel) :
    ∃ sd' rs, sd.decodeAll (queries w h qs) ((se.encodeAll (queries w h qs)).2 ++ rest) = some (sd', rs, rest) ∧
      Inv (se.encodeAll (queries w h qs)).1 sd' ∧ (se.encodeAll (queries w h qs)).1.val = se.val ∧
      AnswersAll se.val (queries w h qs) rs := by
  apply all_sync
  · exact hinv
  · intro q hq
    unfold queries at hq
    obtain ⟨q0, hq0, rfl⟩ := List.mem_map.mp hq
    exact ⟨ht q0 hq0, heapPath_ttPath se.val w h q0.1 q0.2.1 hheap⟩

/-- SetValue (minimum propagation with early break) keeps the heap property, and — when the value set is not
    below anything already signalled — the encoder/decoder lock step; fresh trees satisfy both -/
theorem tagtree_setValue (w h x y v : Nat) (se : TTEnc) (sd : TTDec) (hinv : Inv se sd)
    (hheap : GlobalHeap se.val (ttNumLevels w h)) (hlow : ∀ n, se.low n ≤ v) (hv : v ≤ sentinel) :
    Inv (se.setValue w h x y v) sd ∧ GlobalHeap (se.setValue w h x y v).val (ttNumLevels w h) ∧
    Inv TTEnc.init TTDec.init ∧ GlobalHeap TTEnc.init.val (ttNumLevels w h) :=
  ⟨setValue_inv se sd w h x y v hinv hlow hv, by rw [setValue_val_eq]; exact setValue_globalHeap se.val _ x y v hheap,
    inv_init, globalHeap_init _⟩

/-- Go's flat node index `py*levelWidths[level] + px` neither aliases two nodes of a level nor leaves the
    allocated `levelWidths·levelHeights` array -/
theorem tagtree_index_sound (lw lh : Nat) (a b : Node) (ha : a.2.1 < lw) (hb : b.2.1 < lw) (hl : a.1 = b.1)
    (hy : a.2.2 < lh) : (flatten lw a = flatten lw b → a = b) ∧ flatten lw a < lw * lh :=
  ⟨flatten_inj lw a b ha hb hl, flatten_in_range lw lh a ha hy⟩

/-- non-vacuity: a 3×2 inclusion-style tree, leaves set to layers 0/2, queried with growing thresholds -/
example :
    let se := ((TTEnc.init.setValue 3 2 0 0 0).setValue 3 2 2 1 2)
    let qs := queries 3 2 [(0, 0, 1), (2, 1, 1), (1, 0, 1), (2, 1, 3)]
    ttNumLevels 3 2 = 3 ∧ ttPath 3 2 2 1 = [(2, 0, 0), (1, 1, 0), (0, 2, 1)] ∧
    (se.encodeAll qs).2 = [true, true, true, false, false, false, true, true] ∧
    (TTDec.init.decodeAll qs ((se.encodeAll qs).2 ++ [true, false])).map (fun r => (r.2.1, r.2.2)) =
      some ([0, 999, 999, 2], [true, false]) := by decide

end J2kTT

/-! ## decodePacket: per-band header state across the packets of a precinct (t2/packet_decoder.go) -/
namespace J2kBand

/-- `p` applied n times -/
def iter {S : Type} (p : S → S) : Nat → S → S
  | 0, x => x
  | n + 1, x => p (iter p n x)

/-- the packets of one precinct, layer after layer -/
def packets {S : Type} (nonEmpty : Nat → Bool) (fresh : S) (p : S → S) (bands : List Nat) : Nat → Ctx S → Ctx S
  | 0, c => c
  | n + 1, c => packetStep nonEmpty fresh p bands (packets nonEmpty fresh p bands n c)

/-- invariant of the repaired bookkeeping (fix 120e6ac): after every packet "the state written back for band b
    is the state read for band b, updated by the header parser": each band that has code-blocks carries the
    parser's update of ITS OWN previous state, bands without code-blocks never get a context, nothing else moves.
    `p` is an arbitrary header-parser effect; bands are distinct; contexts start absent. -/
theorem band_state_writeback {S : Type} (nonEmpty : Nat → Bool) (fresh : S) (p : S → S) (bands : List Nat)
    (hnd : bands.Nodup) (n : Nat) :
    ∀ b, packets nonEmpty fresh p bands n (fun _ => none) b =
      if b ∈ bands ∧ nonEmpty b = true ∧ 0 < n then some (iter p n fresh) else none := by
  induction n with
  | zero => intro b; simp [packets]
  | succ n ih =>
    intro b
    unfold packets
    rw [packetStep_eq nonEmpty fresh p bands _ hnd]
    · unfold expected
      rw [ih b]
      by_cases hb : b ∈ bands ∧ nonEmpty b = true
      · by_cases hn : 0 < n
        · simp [hb, hn, iter]
        · have : n = 0 := by omega
          subst this; simp [hb, iter]
      · have : ¬ (b ∈ bands ∧ nonEmpty b = true ∧ 0 < n + 1) := fun h => hb ⟨h.1, h.2.1⟩
        have h2 : ¬ (b ∈ bands ∧ nonEmpty b = true ∧ 0 < n) := fun h => hb ⟨h.1, h.2.1⟩
        simp [hb, this, h2]
    · intro b hb hne
      rw [ih b]; simp [hne]

/-- regression anchor (old defect `j2k-multilayer-empty-band-decoder-state`): resolution of width 1 — only LH
    (band 2) has code-blocks. Old shape: the state of band 2 is never written back (i = 1 ≥ len(bandStates) = 1),
    so the second layer starts from a fresh state again; repaired shape: the counter increments survive.
    States are counters, the parser effect is +1. -/
example :
    let ne : Nat → Bool := fun b => b == 2
    (packetStepOld ne 0 (· + 1) [1, 2, 3] (packetStepOld ne 0 (· + 1) [1, 2, 3] (fun _ => none))) 2 = some 0 ∧
    (packetStep ne 0 (· + 1) [1, 2, 3] (packetStep ne 0 (· + 1) [1, 2, 3] (fun _ => none))) 2 = some 2 ∧
    -- old shape, bands 2 and 3 non-empty: band 2 receives band 3's state
    (packetStepOld (fun b => b != 1) 0 (· + 1) [1, 2, 3]
      (fun b => if b == 2 then some 10 else if b == 3 then some 20 else none)) 2 = some 21 := by decide

end J2kBand
/-! ## One packet header: encodePacketHeaderWithTagTreeMulti against parsePacketHeaderMulti -/
namespace J2kPH
open J2k J2kTT

/-- `packet_header_roundtrip`: for ONE packet of a precinct (any number of bands, any grid, any layer < 998), from
    any pair of encoder/decoder states in lock step (`BandsInv`: what the previous packets of the precinct leave
    behind — first inclusion pending for some code-blocks, Lblock counters and tag-tree state for the others), and
    any admissible contributions (per code-block: not included, or 1..164 passes and < 2^24 bytes in one codeword
    segment; fewer than 32 missing bit planes): the decoder, fed the encoder's header bits followed by anything,
    (a) consumes exactly the header, (b) reports for every band and code-block exactly what was encoded —
    inclusion, number of passes, data length, and the zero-bit-plane count (on first inclusion from the tag tree,
    later from its state) — or "empty packet" when no band has a code-block, (c) ends in lock step for the next
    layer, and (d) the header has at least one bit, so `bio_roundtrip` carries it over the byte level:
    written by bioWriter, flushed, read back by bioReader, aligned — the reader stands at the packet body. -/
theorem packet_header_roundtrip (layer : Nat) (hlayer : layer + 1 ≤ sentinel) (bes : List BandE) (bds : List BandD)
    (css : List (List Contrib)) (rest : List Bool) (body : List Nat)
    (hinv : BandsInv layer bes bds) (hok : CsOk bes css) :
    (∃ bds', decHeader layer bds ((encHeader layer bes css).2 ++ rest) =
        some (bds', (if bes.all (fun b => b.cbs.isEmpty) then none else some (expBands bes css)), rest) ∧
      BandsInv (layer + 1) (encHeader layer bes css).1 bds') ∧
    headerRoundTrip BioR.alignToByte (encHeader layer bes css).2 body = some ((encHeader layer bes css).2, body) := by
  obtain ⟨bds', hd, hinv', hne⟩ := header_sync layer hlayer bes bds css rest hinv hok
  exact ⟨⟨bds', hd, hinv'⟩, bio_roundtrip _ body hne⟩

/-- the state threading over layers: starting from fresh states (PacketEncoder.ResetState; a decoder that has not
    seen the precinct) — which are in lock step for every grid with distinct positions and < 32 missing bit planes —
    every packet of the precinct, layer after layer (first inclusion in whatever layer, later contributions, layers
    without contribution), is decoded to what was encoded, whatever follows each header -/
theorem packet_headers_roundtrip_layers (spec : List (Nat × Nat × List (Nat × Nat × Nat)))
    (hspec : ∀ b ∈ spec, (b.2.2.map fun c => (c.1, c.2.1)).Nodup ∧ ∀ c ∈ b.2.2, c.2.2 < 32)
    (lss : List (List (List Contrib))) (tail : List Bool)
    (hok : ∀ css ∈ lss, CsOk (spec.map fun b => BandE.fresh b.1 b.2.1 b.2.2) css) (hlen : lss.length ≤ sentinel) :
    decLayers tail 0 (spec.map fun b => BandD.fresh b.1 b.2.1 b.2.2)
      (encLayers 0 (spec.map fun b => BandE.fresh b.1 b.2.1 b.2.2) lss) =
      some (expLayers 0 (spec.map fun b => BandE.fresh b.1 b.2.1 b.2.2) lss) := by
  have hfresh : ∀ (sp : List (Nat × Nat × List (Nat × Nat × Nat))),
      (∀ b ∈ sp, (b.2.2.map fun c => (c.1, c.2.1)).Nodup ∧ ∀ c ∈ b.2.2, c.2.2 < 32) →
      BandsInv 0 (sp.map fun b => BandE.fresh b.1 b.2.1 b.2.2) (sp.map fun b => BandD.fresh b.1 b.2.1 b.2.2) := by
    intro sp
    induction sp with
    | nil => intro _; trivial
    | cons b bs ih =>
      intro hs
      exact ⟨bandInv_fresh b.1 b.2.1 b.2.2 (hs b (by simp)).1 (hs b (by simp)).2, ih (fun b' hb' => hs b' (by simp [hb']))⟩
  exact layers_sync tail lss 0 _ _ (hfresh spec hspec) hok (by omega)

/-- non-vacuity: a resolution with three bands (HL 2×1 grid, LH empty, HH 1×1), three layers: first inclusions in
    layers 0, 1 and 2, a later contribution, a layer without contribution -/
example :
    let spec : List (Nat × Nat × List (Nat × Nat × Nat)) := [(2, 1, [(0, 0, 3), (1, 0, 1)]), (1, 1, []), (1, 1, [(0, 0, 7)])]
    let lss : List (List (List Contrib)) :=
      [[[some (4, 20), none], [], [none]], [[none, some (7, 300)], [], [none]], [[some (1, 5), some (1, 2)], [], [some (37, 70000)]]]
    (∀ css ∈ lss, CsOk (spec.map fun b => BandE.fresh b.1 b.2.1 b.2.2) css) ∧
    decLayers [true, false] 0 (spec.map fun b => BandD.fresh b.1 b.2.1 b.2.2)
      (encLayers 0 (spec.map fun b => BandE.fresh b.1 b.2.1 b.2.2) lss) =
      some [some [[⟨true, 4, 20, 3⟩, ⟨false, 0, 0, 0⟩], [], [⟨false, 0, 0, 0⟩]],
            some [[⟨false, 0, 0, 0⟩, ⟨true, 7, 300, 1⟩], [], [⟨false, 0, 0, 0⟩]],
            some [[⟨true, 1, 5, 3⟩, ⟨true, 1, 2, 1⟩], [], [⟨true, 37, 70000, 7⟩]]] := by
  refine ⟨?_, by decide⟩
  intro css hcss
  simp only [List.mem_cons, List.not_mem_nil, or_false] at hcss
  rcases hcss with rfl | rfl | rfl <;> (simp [CsOk, COk, BandE.fresh]; try omega)

end J2kPH

/-! ## Round 5 — the composition: glue model of Encoder.Encode → Decoder.Decode, single tile, single layer, one
    codeword segment per block (Model/J2kGlue*.lean; tied to the real encoder and decoder by whole-codestream
    correspondence `j2k-glue-img-enc/dec` and piecewise `j2k-glue-enc/dec/t1enc/t1dec`) -/
namespace J2kGlue
open J2k J2kPH Dwt53

/-- (G1) THE TILE-PART BODY, T2 only: packets back to back, each = header bits through bioWriter/flush ++ the included
    blocks' bytes; the decoder — given only the band geometry of each precinct — parses every header from the
    reader's bit supply, aligns, cuts the bodies by the decoded lengths, and ends exactly where the encoder stopped.
    Composes `packet_header_roundtrip` (tag trees, pass/length codes), `bio_roundtrip` (stuffing, alignment) and the
    body concatenation, for any packet sequence. -/
theorem tile_body_roundtrip (ps : List Packet) (tail : List Nat) (h : ∀ p ∈ ps, PacketOk p) :
    decTile (ps.map fun p => p.map Band.spec) (encTile ps ++ tail) = some (ps.map fun p => some (Packet.expected p), tail) :=
  decTile_encTile ps tail h

/-- (G2) ONE CODE-BLOCK AROUND T1, in the pipeline's own configuration — encodeCodeBlock shifts the coefficients left
    by 6 and runs T1 with 6 fractional bits; its layout (numPasses = 3·numbps − 2, zero bit-planes = bandNumbps −
    numbps, 1 pass for an all-zero block) travels through the packet header; estimateMaxBitplane rebuilds
    `maxBitplane = numbps` from pass count and zero bit-planes; DecodeWithBitplane with OpenJPEG reconstruction and
    the halving give the coefficients back (`C20.t1_pipeline_roundtrip`, `C20.t1_pipeline_encode`; all-zero blocks:
    `C20.t1_pipeline_zero_block`).
    The block's bytes are non-empty, its fields admissible for the packet header (1..164 passes, < 32 zero bit-planes). -/
theorem codeblock_t1_handover (b : Blk) (hok : BlkOk b) :
    ∃ np zbp data, t1Encode b = some (np, zbp, data) ∧ data ≠ [] ∧ 1 ≤ np ∧ np ≤ 164 ∧ zbp < 32 ∧
      data.length ≤ 65535 ∧ t1Decode b.w b.h b.orient b.nb ⟨true, np, data.length, zbp⟩ data = some b.coeffs :=
  blk_roundtrip b hok

/-- (G3) T2 + T1 FOR A TILE: the coefficients of every code-block entering T1 on the encoder are the coefficients
    leaving T1 on the decoder, for every packet sequence both sides agree on (C19 `packet_sequence_agreement`). -/
theorem tile_codeblocks_roundtrip (ps : List PPacket) (tail : List Nat) (hok : ∀ p ∈ ps, PPacketOk p) :
    ∃ bytes, encodeTileBody ps = some bytes ∧
      decodeTileBody (ps.map fun p => p.map PBand.geo) (bytes ++ tail) =
        some (ps.map fun p => p.map fun b => b.blks.map fun pb => pb.blk.coeffs) :=
  tile_blocks_roundtrip ps tail hok

/-- (G4) SUB-BAND CUT + CODE-BLOCK PARTITION + PLACEMENT: the bands of all resolutions tile the Mallat layout, the
    `cbw × cbh` grid tiles every band, and the decoder's block-by-block copy restores every sample of every
    component plane the encoder cut the blocks from (default precincts, tile at the canvas origin) -/
theorem cut_paste_identity (c : TCfg) (nC prog : Nat) (planes : Nat → Plane) (hw : 0 < c.cbw) (hh : 0 < c.cbh)
    (k x y : Nat) (hk : k < nC) (hx : x < c.W) (hy : y < c.H) :
    pasteTile c nC prog ((tilePackets c nC prog planes).map coeffsOf) k x y = planes k x y :=
  pasteTile_tilePackets c nC prog planes hw hh k x y hk hx hy

/-- (G5) the magnitude side conditions are met by the codec's sample ranges: `bndL L (2^P) < 2^25` gives both
    "no int32 operation of the 5/3 transform wraps" (C20 needs ≤ 2^29 − 1) and "every coefficient fits `coeff << 6`
    in int32" — 8-bit up to 8 levels, 12-bit up to 6, 16-bit up to 4.  (16-bit with 5 or 6 levels: the crude bound
    `M ↦ 4M + 3` per level is too weak; the int32 side still holds — C20 `dwt_magnitude_bound_examples`.) -/
theorem dwt_coefficient_bound_examples :
    bndL 8 (2 ^ 8) < 2 ^ 25 ∧ bndL 6 (2 ^ 12) < 2 ^ 25 ∧ bndL 4 (2 ^ 16) < 2 ^ 25 := by decide

/-- encoder: container samples → convertPixelData → DC shift → RCT → 5/3 → cut → T1 → packets → codestream -/
def encodeImage (c : ICfg) (samp : Nat → Nat → Nat → Int) : Option (List Nat) :=
  (encodeBody c fun k x y => frontSample c.P c.signed (samp k x y)).bind (frame c)

/-- decoder: `unframe` stands for the codestream parser's result (the tile-part data of tile 0; the coding parameters
    it reads from SIZ/COD/QCD are `c`), then packets → T1 → paste → inverse 5/3 → inverse RCT → inverse DC shift →
    GetPixelData's container bytes -/
def decodeImage (c : ICfg) (unframe : List Nat → Option (List Nat)) (stream : List Nat) : Option (Nat → Nat → Nat → Int × Int) :=
  ((unframe stream).bind (decodeBody c)).map fun v k x y => writeSample c.P c.signed (dcUnshift c.P c.signed (v k x y))

/-- (G6) `reversible_single_tile_roundtrip` — THE COMPOSITION.  For a single-tile, single-layer image of 1..16-bit
    samples (signed or not), any component count (RCT for three with MCT on), any progression order, positive
    code-block size, `L` levels with `bndL L (2^P) < 2^25`: Decode(Encode(container)) = container, sample for sample.

    Instantiated with the ACTUAL theorems: `sample_roundtrip` (container ↔ DC-shifted sample), C20 `rct_inverse`,
    C20 `inverse53_forward53_multilevel_int32` (+ `forwardLevels_bnd`), (G4), (G2) over C20 `t1_roundtrip`, (G1) over
    `packet_header_roundtrip` / `bio_roundtrip`, C16 `j2k_psot_sum` (the codestream exists and ends in EOC).

    NAMED HYPOTHESES — what is still unproved:
    * `hs : SegmentLenHyp`   — T1 output of a block ≤ 65535 bytes (decodePacket truncates longer segments; only the crude
                               bound `C20.mq_len_bound` exists);
    * `hframe`               — the parser hands TileDecoder the tile-part body the encoder framed; discharged in (G9).
    The T1 configuration is the pipeline's own (shift by 6 / 6 fractional bits / OpenJPEG reconstruction / halving), and
    the all-zero block (sent with one pass over FF 7F) is a theorem of C20 — both were hypotheses in round 5. -/
theorem reversible_single_tile_roundtrip (c : ICfg) (samp : Nat → Nat → Nat → Int)
    (hw : 0 < c.cbw) (hh : 0 < c.cbh) (hP1 : 1 ≤ c.P) (hP2 : c.P ≤ 16) (hL : bndL c.L (2 ^ c.P) < 2 ^ 25)
    (hr : ∀ k x y, inRange c.P c.signed (samp k x y))
    (hs : SegmentLenHyp)
    (unframe : List Nat → Option (List Nat))
    (hframe : ∀ body stream, frame c body = some stream → ∃ tail, unframe stream = some (body ++ tail)) :
    ∃ stream, encodeImage c samp = some stream ∧ ∃ out, decodeImage c unframe stream = some out ∧
      ∀ k x y, k < c.C → x < c.W → y < c.H → out k x y = container c.P (samp k x y) := by
  have hPnat : ((c.P : Nat) : Int).toNat = c.P := by simp
  have hv : ∀ k x y, -(2 ^ (c.P - 1)) ≤ frontSample c.P c.signed (samp k x y) ∧
      frontSample c.P c.signed (samp k x y) < 2 ^ (c.P - 1) := by
    intro k x y
    have := frontSample_bound (c.P : Int) c.signed (samp k x y) (by omega) (by omega) (hr k x y)
    rw [hPnat] at this
    exact this
  -- the codestream exists
  have hstream : ∀ body, ∃ stream, frame c body = some stream := by
    intro body
    obtain ⟨bytes, hb, _, _⟩ := JpegC.j2k_total_length c.params (JpegC.losslessQcdInfo c.params)
      [JpegC.classicTilePart 0 [] body] rfl
    exact ⟨bytes, by unfold frame; rw [hb]⟩
  -- body, framed
  obtain ⟨body, henc, _⟩ := image_core_roundtrip c (fun k x y => frontSample c.P c.signed (samp k x y)) [] hw hh hP1 hP2 hL hv hs
  obtain ⟨stream, hfr⟩ := hstream body
  obtain ⟨tail, hun⟩ := hframe body stream hfr
  obtain ⟨body', henc', v', hdec, hv'⟩ := image_core_roundtrip c (fun k x y => frontSample c.P c.signed (samp k x y)) tail hw hh hP1 hP2 hL hv hs
  have hbb : body' = body := by rw [henc] at henc'; injection henc' with h; exact h.symm
  subst hbb
  refine ⟨stream, by unfold encodeImage; rw [henc]; exact hfr, ?_⟩
  refine ⟨fun k x y => writeSample c.P c.signed (dcUnshift c.P c.signed (v' k x y)),
    by unfold decodeImage; rw [hun]; simp [hdec], ?_⟩
  intro k x y hk hx hy
  simp only []
  rw [hv' k x y hk hx hy, ← sampleRoundTrip_front]
  exact sample_roundtrip (c.P : Int) c.signed (samp k x y) (by omega) (by omega) (hr k x y)

/-- (G7) where the body sits: the codestream is main header ++ 12 bytes SOT ++ SOD ++ body ++ EOC (C16 model of
    buildCodestream / writeTile), so the framing hypothesis `hframe` of (G6) is satisfiable — by the reader that skips
    `|main header| + 14` bytes — with `tail = FF D9`; the core theorem holds for every tail -/
theorem frame_layout (c : ICfg) (body : List Nat) :
    ∃ pre, pre.length = (JpegC.j2kMainHeader c.params (JpegC.losslessQcdInfo c.params)).length + 14 ∧
      frame c body = some (pre ++ (body ++ [0xFF, 0xD9])) := by
  refine ⟨JpegC.j2kMainHeader c.params (JpegC.losslessQcdInfo c.params) ++
    (JpegC.writeTilePart (JpegC.classicTilePart 0 [] body)).take 14, ?_, ?_⟩
  · have h := JpegC.writeTilePart_length (JpegC.classicTilePart 0 [] body)
    simp only [List.length_append, List.length_take]
    have : 14 ≤ (JpegC.writeTilePart (JpegC.classicTilePart 0 [] body)).length := by
      rw [h]; simp [JpegC.TilePart.psot, JpegC.classicTilePart]
    omega
  · unfold frame
    simp [JpegC.j2kStream, JpegC.j2kTail, JpegC.writeTLM, ICfg.params, JpegC.Outcome.map, JpegC.writeTileParts,
      JpegC.writeTilePart, JpegC.classicTilePart, JpegC.be16, JpegC.be32]
    decide

/-- (G8) THE PARSER SIDE OF THE FRAMING: `unframe` — codestream/parser.go on a one-tile-part stream: SOC, marker
    segments stepped over by their length words up to SOT, Lsot = 10, tile-part header up to SOD,
    readTileDataWithLength(tileStart, Psot) — applied to the encoder's codestream returns exactly the tile-part body
    (EOC stays unread), whenever the header fields fit their length words (≤ 16384 components, ≤ 32 levels,
    body + 14 < 2^32).  Tied to the real parser by the correspondence line `j2k-unframe`. -/
theorem parser_walk_returns_body (c : ICfg) (body : List Nat) (hok : FrameOk c body) :
    ∃ stream, frame c body = some stream ∧ unframe stream = some body :=
  unframe_frame c body hok

/-- (G9) (G6) with the framing hypothesis DISCHARGED by (G8): Decode(Encode(container)) = container with the decoder
    reading the tile-part body through the parser walk `unframe`.  Remaining named hypothesis: `SegmentLenHyp`
    (plus the size precondition `hbody`); the coding parameters the decoder uses are the encoder's (SIZ/COD/QCD field
    round trips: C16). -/
theorem reversible_single_tile_roundtrip_framed (c : ICfg) (samp : Nat → Nat → Nat → Int)
    (hw : 0 < c.cbw) (hh : 0 < c.cbh) (hP1 : 1 ≤ c.P) (hP2 : c.P ≤ 16) (hL : bndL c.L (2 ^ c.P) < 2 ^ 25)
    (hC : c.C ≤ 16384) (hL32 : c.L ≤ 32)
    (hr : ∀ k x y, inRange c.P c.signed (samp k x y))
    (hs : SegmentLenHyp)
    (hbody : ∀ body, (encodeBody c fun k x y => frontSample c.P c.signed (samp k x y)) = some body → body.length + 14 < 4294967296) :
    ∃ stream, encodeImage c samp = some stream ∧ ∃ out, decodeImage c unframe stream = some out ∧
      ∀ k x y, k < c.C → x < c.W → y < c.H → out k x y = container c.P (samp k x y) := by
  -- the framing hypothesis of (G6), for the bodies that occur
  have hPnat : ((c.P : Nat) : Int).toNat = c.P := by simp
  have hv : ∀ k x y, -(2 ^ (c.P - 1)) ≤ frontSample c.P c.signed (samp k x y) ∧
      frontSample c.P c.signed (samp k x y) < 2 ^ (c.P - 1) := by
    intro k x y
    have := frontSample_bound (c.P : Int) c.signed (samp k x y) (by omega) (by omega) (hr k x y)
    rw [hPnat] at this
    exact this
  obtain ⟨body, henc, v', hdec, hv'⟩ := image_core_roundtrip c (fun k x y => frontSample c.P c.signed (samp k x y)) [] hw hh hP1 hP2 hL hv hs
  obtain ⟨stream, hfr, hun⟩ := unframe_frame c body ⟨hC, hL32, hbody body henc⟩
  refine ⟨stream, by unfold encodeImage; rw [henc]; exact hfr, ?_⟩
  rw [List.append_nil] at hdec
  refine ⟨fun k x y => writeSample c.P c.signed (dcUnshift c.P c.signed (v' k x y)),
    by unfold decodeImage; rw [hun]; simp [hdec], ?_⟩
  intro k x y hk hx hy
  simp only []
  rw [hv' k x y hk hx hy, ← sampleRoundTrip_front]
  exact sample_roundtrip (c.P : Int) c.signed (samp k x y) (by omega) (by omega) (hr k x y)

/-- non-vacuity of (G1): the hypothesis is satisfiable — a resolution with two live bands (HL with a 2×1 grid, HH 1×1),
    one block's data ending in 0xFF -/
example : PacketOk [⟨2, 1, [⟨0, 0, 3, 4, [0x12, 0xFF]⟩, ⟨1, 0, 1, 7, [0x80]⟩]⟩, ⟨1, 1, [⟨0, 0, 7, 1, [1, 2, 3]⟩]⟩] := by
  unfold PacketOk; decide

/-- non-vacuity of (G2), the hand-over arithmetic by evaluation: a 2×2 block with top bit-plane 1 (7 after the shift by
    6) in a band of 9 bit-planes: numbps 2, 4 passes, 7 zero bit-planes, and the decoder's estimate of `maxBitplane`
    (a count) from either source; an all-zero block: 1 pass, all 9 planes missing, estimate 1; halving of the
    OpenJPEG-reconstructed values -/
example :
    shift6 [1, 0, 0, -3] = [64, 0, 0, -192] ∧ cblkNumbps ⟨2, 2, 1, 9, [1, 0, 0, -3]⟩ = 2 ∧ passLayout 2 9 = (4, 7) ∧
    estimateMaxBitplane 4 7 9 = 2 ∧ cblkNumbps ⟨2, 2, 0, 9, [0, 0, 0, 0]⟩ = 0 ∧ passLayout 0 9 = (1, 9) ∧
    estimateMaxBitplane 1 9 9 = 1 ∧ estimateMaxBitplane 13 0 3 = 5 ∧ T1.halveT 3 = 1 ∧ T1.halveT (-7) = -3 := by decide

/-- non-vacuity of (G4)/(G6): the geometry of a 5×3 tile-component, 1 level, 4×4 code-blocks: LL 3×2, HL 2×2, LH 3×1,
    HH 2×1, one block each; packet sequence for 3 components, resolution-major and component-major -/
example :
    bandRects 5 3 1 0 = [⟨0, 0, 0, 3, 2⟩] ∧ bandRects 5 3 1 1 = [⟨1, 3, 0, 2, 2⟩, ⟨2, 0, 2, 3, 1⟩, ⟨3, 3, 2, 2, 1⟩] ∧
    blkRects 4 4 ⟨1, 3, 0, 2, 2⟩ = [⟨0, 0, 3, 0, 2, 2⟩] ∧
    packetSeq ⟨5, 3, 1, 4, 4, fun _ _ => 9⟩ 3 0 = [(0, 0), (0, 1), (0, 2), (1, 0), (1, 1), (1, 2)] ∧
    packetSeq ⟨5, 3, 1, 4, 4, fun _ _ => 9⟩ 3 4 = [(0, 0), (1, 0), (0, 1), (1, 1), (0, 2), (1, 2)] ∧
    packetSeq ⟨1, 1, 2, 4, 4, fun _ _ => 9⟩ 1 0 = [(0, 0)] := by decide

end J2kGlue
