import GdcVerif.Model.J2kSample
import GdcVerif.Model.J2kTiles
import GdcVerif.Lemmas.J2kSample
import GdcVerif.Lemmas.J2kHeaderCodes
import GdcVerif.Lemmas.J2kResDims
/-!
  C04 — JPEG 2000 reversible path, single tile: exact reconstruction for every configuration.

  Property theorems only.  Proved layers: sample (de)serialisation + DC level shift, code-block pass layout
  (generated kernel) and its reading by the decoder, single-tile sub-band split agreement (x0 = 0 instance of
  C19's theorems), packet-header codes (pass count, comma code, fixed-width fields) on bit lists, the bit
  writer's 0xFF invariants, and the composition of abstract layers.  NOT modelled: MQ coder and EBCOT T1 (C20),
  tag trees, packet sequencing (packet_encoder.go / packet_decoder.go / tile_decoder.go); the bioWriter ↔
  bioReader byte-level round trip is modelled (Model/J2kSample.lean) and tied by correspondence but not proved.
-/
namespace J2k
open Gen.J2kTiles

/-- FULL statement of the sample layer, as the property reads the container: for every precision 1..16,
    signed or unsigned, every sample that fits: container → convertPixelData → DC shift → (exact core) →
    inverse DC shift → GetPixelData gives the container bytes back -/
def sample_roundtrip_FullStatement : Prop :=
  ∀ (P : Int) (signed : Bool) (s : Int), 1 ≤ P → P ≤ 16 → inRange P signed s →
    sampleRoundTrip P signed s = container P s

/-- proved part: everything except negative signed samples at P < 8 (there the code reads the byte as 8-bit
    two's complement: sign from bit 7 instead of bit P−1) -/
theorem sample_roundtrip_partial (P : Int) (signed : Bool) (s : Int) (hP1 : 1 ≤ P) (hP2 : P ≤ 16)
    (hr : inRange P signed s) (hb : ¬ (signed = true ∧ P < 8 ∧ s < 0)) :
    sampleRoundTrip P signed s = container P s := sample_roundtrip' P signed s hP1 hP2 hr hb

example : inRange 12 true (-2048) ∧ inRange 8 true (-128) ∧ inRange 1 false 1 ∧ inRange 7 true 63 ∧
    sampleRoundTrip 12 true (-2048) = (0, 8) ∧ sampleRoundTrip 8 true (-128) = (128, 0) := by
  unfold inRange; decide

/-- the FULL statement is false on the unchanged tree: P = 4, signed, sample −3: container byte 0x0D is read
    as +13 and comes back clamped to +7 (byte 0x07) -/
theorem sample_roundtrip_counterexample : ¬ sample_roundtrip_FullStatement := by
  intro h
  have := h 4 true (-3) (by decide) (by decide) (by unfold inRange; decide)
  revert this
  decide

/-- code-block pass layout (generated from encoder.go codeBlockPassLayout), classic EBCOT mode:
    numPasses = 3·bps − 2, the missing MSB planes add up to the band's bit planes, the count fits the
    pass-count code (≤ 164), and the decoder's two readings (from the pass count, tile_decoder.go
    estimateMaxBitplane `(totalPasses+2)/3`, and from QCD `bandNumbps − zbp`) both return bps -/
theorem passLayout_facts (e : Encoder) (hht : e.params.HTJ2KMode = false) (cblk band : Int)
    (h1 : 1 ≤ cblk) (h2 : cblk ≤ band) (h3 : cblk ≤ 55) :
    let r := Encoder.codeBlockPassLayout e cblk band
    r.1 = 3 * cblk - 2 ∧ r.2 + cblk = band ∧ 1 ≤ r.1 ∧ r.1 ≤ 164 ∧
    Int.tdiv (r.1 + 2) 3 = cblk ∧ band - r.2 = cblk := by
  unfold Encoder.codeBlockPassLayout
  have c1 : cblk > 0 := by omega
  have c2 : ¬ (band - cblk < 0) := by omega
  simp only [hht, c1, c2, decide_true, decide_false, if_true, Bool.false_eq_true, if_false]
  refine ⟨by omega, by omega, by omega, by omega, ?_, by omega⟩
  rw [Int.tdiv_eq_ediv_of_nonneg (by omega)]; omega

example : Encoder.codeBlockPassLayout (encOf 8 8) 9 10 = (25, 1) := by decide

/-- an all-zero code-block (bps = 0) is given one pass and all planes missing -/
theorem passLayout_zero (e : Encoder) (hht : e.params.HTJ2KMode = false) (band : Int) (hb : 0 ≤ band) :
    Encoder.codeBlockPassLayout e 0 band = (1, band) := by
  unfold Encoder.codeBlockPassLayout
  simp [hht]; omega

/-- single tile (origin 0): the encoder's sub-band extents (tile-local ceil splits) are the ones the wavelet
    and the decoder use, for every size and level count — the x0 = 0 instance of C19 (4c) -/
theorem single_tile_subband_split_agrees (len : Int) (n : Nat) (hl : 0 ≤ len) :
    (resDims len 0 n).1 = encLowLen len n ∧ (resDimsT2 len 0 n) = resDims len 0 n :=
  ⟨aligned_agree len 0 n hl (by simp), resDimsT2_eq len 0 n⟩

example : (resDims 37 0 3).1 = 5 ∧ encLowLen 37 3 = 5 := by decide

/-- pass-count code: every count 1..164 decodes to itself and consumes exactly its code word -/
theorem numPasses_roundtrip (n : Nat) (h1 : 1 ≤ n) (h2 : n ≤ 164) (rest : List Bool) :
    ∃ code, encNumPasses n = some code ∧ decNumPasses (code ++ rest) = some (n, rest) :=
  numPasses_roundtrip' n h1 h2 rest

example : encNumPasses 37 = some (writeBitsL 0xff80 16) ∧ encNumPasses 165 = none := by decide

/-- comma code (Lblock increment): unbounded -/
theorem comma_roundtrip (n : Nat) (rest : List Bool) : decComma (encComma n ++ rest) = some (n, rest) :=
  comma_roundtrip' n rest

/-- fixed-width field writeBits(v, n) / readBits(n): every value that fits comes back -/
theorem bits_roundtrip (n v : Nat) (hv : v < 2 ^ n) (rest : List Bool) :
    readBitsL n 0 (writeBitsL v n ++ rest) = some (v, rest) := bits_roundtrip' n v hv rest

example : (5 : Nat) < 2 ^ 3 ∧ writeBitsL 5 3 = [true, false, true] := by decide

/-- bioWriter: after emitting 0xFF the next byte has 7 usable bits, otherwise 8 (bit stuffing) -/
theorem bio_byteOut_ct (w : BioW) :
    (w.byteOut.ct = 7 ↔ w.byteOut.buf.getLast? = some 255) ∧ (w.byteOut.ct = 7 ∨ w.byteOut.ct = 8) :=
  byteOut_ct' w

/-- bioWriter.flush never ends a packet header on 0xFF and always emits at least one byte (C16 reuses this) -/
theorem bio_flush_last_not_FF (w : BioW) : w.flush.getLast? ≠ some 255 ∧ w.flush ≠ [] :=
  ⟨flush_last_not_FF' w, flush_nonempty' w⟩

example : (BioW.new.writeBitsList (List.replicate 8 true)).flush = [255, 0] ∧
    (BioW.new.writeBitsList (List.replicate 9 true)).flush = [255, 64] := by decide

/-- FULL statement of the bit I/O layer (modelled, tied by correspondence, NOT proved):
    what bioWriter wrote and flushed, bioReader reads back bit for bit -/
def bio_roundtrip_FullStatement : Prop :=
  ∀ bits : List Bool,
    ((BioR.new (BioW.new.writeBitsList bits).flush).readBitsList bits.length).map (·.1) = some bits

/-- bounded instance of the statement above (every bit string of the stuffing-critical shapes up to 18 bits:
    a run of k ones followed by a tail), not a proof of it -/
theorem bio_roundtrip_bounded_partial :
    ∀ k < 10, ∀ tail ∈ [[], [false], [true], [true, false, true], [false, true, true, true, true, true, true, true, true]],
      ((BioR.new (BioW.new.writeBitsList (List.replicate k true ++ tail)).flush).readBitsList
        (List.replicate k true ++ tail).length).map (·.1) = some (List.replicate k true ++ tail) := by
  decide

/-- composition of abstract layers: if every layer inverts on its domain and hands its successor an
    admissible input, the pipeline is the identity -/
theorem pipeline_identity {α β γ : Type} (l1 : Layer α β) (l2 : Layer β γ)
    (h : ∀ x, l1.ok x → l2.ok (l1.enc x)) (x : α) (hx : l1.ok x) :
    (l1.comp l2 h).dec ((l1.comp l2 h).enc x) = x := (l1.comp l2 h).contract x hx

/-- the end-to-end statement, partial: container bytes → samples (`front`, proved above except signed P<8) →
    RCT (`rct`, C20) → 5/3 DWT (`dwt`, C20) → code-block partition + T1 (`t1`, NOT modelled) → T2 packets and
    codestream (`t2`, primitives proved above, sequencing NOT modelled).  Named hypotheses: the five layer
    contracts (fields `contract`) and the four hand-over conditions h12…h45.  Conclusion: decode ∘ encode = id. -/
theorem reversible_roundtrip_partial {A B C D E F : Type}
    (front : Layer A B) (rct : Layer B C) (dwt : Layer C D) (t1 : Layer D E) (t2 : Layer E F)
    (h12 : ∀ x, front.ok x → rct.ok (front.enc x)) (h23 : ∀ x, rct.ok x → dwt.ok (rct.enc x))
    (h34 : ∀ x, dwt.ok x → t1.ok (dwt.enc x)) (h45 : ∀ x, t1.ok x → t2.ok (t1.enc x))
    (x : A) (hx : front.ok x) :
    front.dec (rct.dec (dwt.dec (t1.dec (t2.dec (t2.enc (t1.enc (dwt.enc (rct.enc (front.enc x))))))))) = x := by
  have a := h12 x hx
  have b := h23 _ a
  have c := h34 _ b
  have d := h45 _ c
  rw [t2.contract _ d, t1.contract _ c, dwt.contract _ b, rct.contract _ a, front.contract _ hx]

/-- non-vacuity of the layer structure: the sample layer is an instance for unsigned 8-bit samples -/
example : ∃ l : Layer Int (Int × Int), l.ok 200 ∧ l.enc 200 = (200, 0) :=
  ⟨{ enc := container 8, dec := fun c => dcUnshift 8 false (dcShift 8 false (readSample 8 false c.1 c.2)),
     ok := fun s => s = 200, contract := by intro x hx; subst hx; decide }, rfl, by decide⟩

end J2k
