import GdcVerif.Driver.Util
import GdcVerif.Model.Rle
namespace Drv.Rle
open Drv

def info (a : List String) : Option (Rle.Info × String) :=
  match a with
  | [w, h, ba, spp, pl, hx] =>
    match nats? [w, h, ba, spp, pl] with
    | some [w, h, ba, spp, pl] =>
      some ({ width := w, height := h, bitsAllocated := ba, spp := spp, planar := pl }, hx)
    | _ => none
  | _ => none

/-- ops: `rle-enc W H BA SPP PLANAR hex`, `rle-dec W H BA SPP PLANAR hex` -/
def step? : List String → Option String
  | "rle-enc" :: a =>
    some <| match info a with
    | some (i, hx) =>
      match Rle.encodeFrame i (hexToBytes hx).toArray with
      | .ok bs => "ok " ++ bytesToHex bs
      | .err => "err"
      | .panic => "panic"
    | none => "bad-op"
  | "rle-dec" :: a =>
    some <| match info a with
    | some (i, hx) =>
      match Rle.decodeFrame i (hexToBytes hx) with
      | .ok bs => "ok " ++ bytesToHex bs.toList
      | .err => "err"
      | .panic => "panic"
    | none => "bad-op"
  | _ => none

end Drv.Rle
