/-! The driver's I/O loop, shared by the per-property executables `drv_<ID>` (roots in `Drv/`). -/
namespace Drv

def stepLine (steppers : List (List String → Option String)) (line : String) : String :=
  let toks := (line.trimAscii.toString.splitOn " ").filter (· ≠ "")
  match steppers.findSome? (· toks) with
  | some r => r
  | none => "bad-op"

partial def loop (steppers : List (List String → Option String)) (h out : IO.FS.Stream) : IO Unit := do
  let line ← h.getLine
  if line.isEmpty then return ()
  out.putStrLn (stepLine steppers line)
  loop steppers h out

def run (steppers : List (List String → Option String)) : IO Unit := do
  loop steppers (← IO.getStdin) (← IO.getStdout)

end Drv
