import GdcVerif.Driver.Util
import GdcVerif.Model.Htj2k
import GdcVerif.Model.Htj2kBlock
namespace Drv.Htj2k
open Drv

/-- "0101…" ("-" = empty) -/
def parseBits (s : String) : Option (List Bool) :=
  if s = "-" then some [] else
  s.toList.mapM (fun c => if c = '0' then some false else if c = '1' then some true else none)

def bitsToStr (bs : List Bool) : String :=
  if bs.isEmpty then "-" else String.ofList (bs.map (fun b => if b then '1' else '0'))

def htEncoder (ht : Bool) : Gen.Htj2kEnc.Encoder :=
  { (default : Gen.Htj2kEnc.Encoder) with params := { (default : Gen.Htj2kEnc.EncodeParams) with HTJ2KMode := ht } }

def cbInfoOf (set : Bool) (z : Int) : Gen.Htj2kDec.cbInfo :=
  { (default : Gen.Htj2kDec.cbInfo) with zeroBitplanesSet := set, zeroBitplanes := z }

def kmaxLine (nl bd comps res band : Int) : String :=
  let idx := Gen.Htj2kEnc.subbandIndex nl res band
  let valid := decide (idx ≥ 0)
  let rct := decide (comps ≥ 3)
  let ex : Int := if valid then Htj2k.htExpn nl.toNat bd.toNat rct res.toNat band.toNat else 0
  let bnb : Int := if valid then Htj2k.encBandNumbps nl.toNat bd.toNat rct res.toNat band.toNat else 0
  let didx := Gen.Htj2kDec.subbandIndex nl res band
  let dvalid := decide (didx ≥ 0)
  let dn : Int := if dvalid then Htj2k.decBandNumbps (Htj2k.qcdSqcd Htj2k.htGuardBits) (Htj2k.qcdSPqcd ex) else 0
  let zbp := ((htEncoder true).codeBlockPassLayout 1 bnb).2
  let mm := (default : Gen.Htj2kDec.TileDecoder).htj2kMissingMSBs (cbInfoOf true zbp) dn
  s!"ok {bnb} {dn} {if dvalid then 1 else 0} {zbp} {mm} {Htj2k.htGuardBits} {ex}"

def step? : List String → Option String
  | ["mel-enc", bs] =>
    some <| match parseBits bs with
    | some bits => "ok " ++ bytesToHex (Htj2k.melEncode bits)
    | none => "bad-op"
  | ["mel-dec", n, hx] =>
    some <| match n.toNat? with
    | some n =>
      let r := Htj2k.melDecode (hexToBytes hx) n
      (if r.2 then "ok " else "err ") ++ bitsToStr r.1
    | none => "bad-op"
  | ["ojph-mel-enc", bs] =>
    some <| match parseBits bs with
    | some bits =>
      let m := Htj2k.MelEnc.encodeAll {} bits
      s!"ok {bytesToHex m.pk.buf} {m.pk.tmp} {m.pk.remainingBits} {m.run} {m.k.val} {m.threshold}"
    | none => "bad-op"
  | ["htj2k-maxlevels", w, h] =>
    some <| match ints? [w, h] with
    | some [w, h] => s!"ok {Htj2k.calculateMaxLevels w h}"
    | _ => "bad-op"
  | ["htj2k-nearestpow2", n] =>
    some <| match n.toInt? with
    | some n => s!"ok {Htj2k.nearestPowerOf2 n}"
    | none => "bad-op"
  | ["htj2k-kmax", nl, bd, comps, res, band] =>
    some <| match ints? [nl, bd, comps, res, band] with
    | some [nl, bd, comps, res, band] => kmaxLine nl bd comps res band
    | _ => "bad-op"
  | ["htj2k-passlayout", h, cb, bn] =>
    some <| match ints? [h, cb, bn] with
    | some [h, cb, bn] =>
      let r := (htEncoder (h != 0)).codeBlockPassLayout cb bn
      s!"ok {r.1} {r.2}"
    | _ => "bad-op"
  | ["htj2k-missingmsbs", s, z, bn] =>
    some <| match ints? [s, z, bn] with
    | some [s, z, bn] => s!"ok {(default : Gen.Htj2kDec.TileDecoder).htj2kMissingMSBs (cbInfoOf (s != 0) z) bn}"
    | _ => "bad-op"
  | ["htj2k-subband", nl, res, band] =>
    some <| match ints? [nl, res, band] with
    | some [nl, res, band] => s!"ok {Gen.Htj2kEnc.subbandIndex nl res band} {Gen.Htj2kDec.subbandIndex nl res band}"
    | _ => "bad-op"
  | ["htj2k-mele", k] =>
    some <| match k.toNat? with
    | some k => if h : k < 13 then s!"ok {Htj2k.melE ⟨k, h⟩}" else "panic"
    | none => "bad-op"
  | ["htj2k-uvlc", code] =>
    some <| match code.toInt? with
    | some c => let (a, b, c1, d, e, f) := Htj2k.ojphUVLC c; s!"ok {a} {b} {c1} {d} {e} {f}"
    | none => "bad-op"
  | ["htj2k-vlctbl-len", ti] =>
    some <| match ti.toNat? with
    | some 0 => s!"ok {Gen.Htj2k.VLCTbl0.size}"
    | some 1 => s!"ok {Gen.Htj2k.VLCTbl1.size}"
    | _ => "bad-op"
  | ["htj2k-vlctbl", ti, i] =>
    some <| match nats? [ti, i] with
    | some [ti, i] =>
      let t := if ti = 0 then Gen.Htj2k.VLCTbl0 else Gen.Htj2k.VLCTbl1
      match t[i]? with
      | some row => "ok " ++ " ".intercalate (row.toList.map toString)
      | none => "panic"
    | _ => "bad-op"
  | ["htj2k-uvlctbl", t, i] =>
    some <| match nats? [t, i] with
    | some [t, i] => s!"ok {if t = 0 then Htj2k.uvlcTbl0 i else Htj2k.uvlcTbl1 i}"
    | _ => "bad-op"
  | ["htj2k-uvlc-pair", ini, u0, u1] =>
    some <| match nats? [ini, u0, u1] with
    | some [ini, u0, u1] =>
      let c := if ini = 1 then Htj2k.encodeInitialUVLC u0 u1 else Htj2k.encodeNonInitialUVLC u0 u1
      s!"ok {c.1} {c.2}"
    | _ => "bad-op"
  | ["htj2k-pkthdr", pat, b0, b1, b2] =>
    some <| match parseBits b0, parseBits b1, parseBits b2 with
    | some b0, some b1, some b2 =>
      let mk := fun (c : Char) (b : List Bool) =>
        if c = '0' then Htj2k.HtBand.absent else if c = '1' then Htj2k.HtBand.empty else Htj2k.HtBand.coded b
      match pat.toList with
      | [c0, c1, c2] => "ok " ++ bitsToStr (Htj2k.padToByte (Htj2k.encodeHtBands [mk c0 b0, mk c1 b1, mk c2 b2]))
      | _ => "bad-op"
    | _, _, _ => "bad-op"
  | ["htj2k-uqcheck", later, ke, kd, v] =>
    some <| match nats? [later, ke, kd], v.toInt? with
    | some [later, ke, kd], some v =>
      let e := Htj2k.sampleEQ ke (Htj2k.toSignMag ke v)
      let uq : Int := if later = 0 then (Htj2k.uqInitial e : Nat) else Htj2k.uqLater e false 0 0
      if Htj2k.uqAccepted uq (kd - 1) then "ok" else "err"
    | _, _ => "bad-op"
  | ["ms-dec", hx, ns] =>
    some <| match parseInts ns with
    | some ns =>
      let rec go (r : Htj2k.MsReader) : List Nat → List String
        | [] => []
        | n :: rest => let x := r.readBits n; s!"{x.1}:{if x.2.1 then 1 else 0}" :: go x.2.2 rest
      "ok " ++ ",".intercalate (go { rest := hexToBytes hx } (ns.map Int.toNat))
    | none => "bad-op"
  | ["ms-enc", ws] =>
    some <| match parseInts ws with
    | some l =>
      let rec pairs : List Int → List (Nat × Nat)
        | a :: b :: rest => (a.toNat, b.toNat) :: pairs rest
        | _ => []
      let m := (({} : Htj2k.MsWriter).encodeAll (pairs l))
      s!"ok {bytesToHex m.buf} {bytesToHex m.terminate}"
    | none => "bad-op"
  | ["ht-enc", w, h, kmax, vs] =>
    some <| match nats? [w, h, kmax], parseInts vs with
    | some [w, h, kmax], some vs =>
      match Htj2k.htEncodeBlock kmax w h vs with
      | some bs => "ok " ++ bytesToHex bs
      | none => "nil"
    | _, _ => "bad-op"
  | ["ht-dec", w, h, ke, kd, vs] =>
    some <| match nats? [w, h, ke, kd], parseInts vs with
    | some [w, h, ke, kd], some vs =>
      match Htj2k.htEncodeState ke w h vs with
      | none => "ok " ++ intsToStr (List.replicate (w * h) 0)
      | some e =>
        match Htj2k.htDecodeFromEnc kd w h e with
        | some out => "ok " ++ intsToStr out
        | none => "err"
    | _, _ => "bad-op"
  | ["htj2k-vlc-enc", t, idx] =>
    some <| match nats? [t, idx] with
    | some [t, idx] => s!"ok {Htj2k.encEntry (if t = 0 then Htj2k.vlcRows0 else Htj2k.vlcRows1) (idx / 256) (idx / 16 % 16) (idx % 16)}"
    | _ => "bad-op"
  | ["htj2k-vlc-dec", t, idx] =>
    some <| match nats? [t, idx] with
    | some [t, idx] => s!"ok {Htj2k.decEntry (if t = 0 then Htj2k.vlcRows0 else Htj2k.vlcRows1) (idx / 128) (idx % 128)}"
    | _ => "bad-op"
  | ["htj2k-signmag", kmax, v] =>
    some <| match kmax.toNat?, v.toInt? with
    | some k, some v => s!"ok {Htj2k.fromSignMag k (Htj2k.toSignMag k v)}"
    | _, _ => "bad-op"
  | ["htj2k-tileparts", span, eoc, ps, tps, tns, tlm] =>
    some <| match nats? [span, eoc], parseInts ps, parseInts tps, parseInts tns, parseInts tlm with
    | some [span, eoc], some ps, some tps, some tns, some tlm =>
      let n := fun (l : List Int) => l.map Int.toNat
      if Htj2k.tilePartsOk span (eoc = 1) (n ps) (n tps) (n tns) (n tlm) then "ok 1" else "ok 0"
    | _, _, _, _, _ => "bad-op"
  | _ => none

end Drv.Htj2k
