import GdcVerif.Driver.Util
import GdcVerif.Model.J2kTiles
import GdcVerif.Model.J2kSample
import GdcVerif.Model.J2kLossless
import GdcVerif.Model.J2kTagTree
import GdcVerif.Model.J2kPacketHeader
import GdcVerif.Model.J2kProgression
/-! Line-protocol ops for the JPEG 2000 pipeline-logic checks C19 / C04 / C05. -/
namespace Drv.J2k
open Drv

def t4 (r : Int × Int × Int × Int) : String := s!"{r.1} {r.2.1} {r.2.2.1} {r.2.2.2}"

def bitsToStr (bs : List Bool) : String :=
  if bs.isEmpty then "-" else String.ofList (bs.map fun b => if b then '1' else '0')

def strToBits (s : String) : List Bool := if s = "-" then [] else s.toList.map (· == '1')

def posList (ps : List J2kProg.Pos) : String := String.join (ps.map fun p => s!" {p.1},{p.2}")

/-- buildPositionMaps for components sharing one rectangle, sampling (1,1), one precinct size, indices 0..n[res]-1 -/
def posMapsStr (nC nR : Nat) (b : Int × Int × Int × Int) (pw ph : Int) (n : List Nat) : String :=
  let i : J2kProg.Inputs := ⟨nC, nR, fun _ => b, fun _ => (1, 1), fun _ => (pw, ph), fun _ r => List.range (n.getD r 0)⟩
  let m := J2kProg.buildMaps i
  let per := (List.range nR).map fun r =>
    let ps := m.byRes r
    let lk := ps.map fun p => match m.lookup 0 r p with | some v => s!" {v}" | none => " -1"
    s!" r{r}:{posList ps} lk:{String.join lk}"
  s!"ok{String.join per} all:{posList m.all}"

def boolStr (b : Bool) : String := if b then "1" else "0"

def fracStr (f : J2kL.Frac) : String := s!"{f.num}/{f.den}"

def triples (ls : List (Int × Int × Int)) : String :=
  -- an empty byte slice has no observable position in the Go value: canonical form -1,-1
  if ls.isEmpty then "-" else ";".intercalate (ls.map fun t =>
    if t.2.1 == t.2.2 then s!"{t.1},-1,-1" else s!"{t.1},{t.2.1},{t.2.2}")

/-- "a:b:c;d:e:f" → [[a,b,c],[d,e,f]] (naturals); "-" = empty -/
def parseTriples (s : String) : Option (List (List Nat)) :=
  if s = "-" then some [] else (s.splitOn ";").mapM fun t => (t.splitOn ":").mapM String.toNat?

/-- tag-tree encoder ops: [0,x,y,v] = SetValue, [1,x,y,t] = Encode -/
def ttRun (w h : Nat) : List (List Nat) → J2kTT.TTEnc → List Bool → Option (List Bool)
  | [], _, acc => some acc
  | [0, x, y, v] :: rest, s, acc => ttRun w h rest (s.setValue w h x y v) acc
  | [1, x, y, t] :: rest, s, acc => let r := s.encode w h x y t; ttRun w h rest r.1 (acc ++ r.2)
  | _, _, _ => none

def ttDecRun (w h : Nat) : List (List Nat) → J2kTT.TTDec → List Bool → List Nat → Option (List Nat × Nat)
  | [], _, bits, acc => some (acc, bits.length)
  | [x, y, t] :: rest, s, bits, acc =>
    match s.decode w h x y t bits with
    | none => none
    | some (s', v, bits') => ttDecRun w h rest s' bits' (acc ++ [v])
  | _, _, _, _ => none

/-- one layer of contributions: "np:len,x,np:len" (x = not included) -/
def parseContribs (s : String) : Option (List J2kPH.Contrib) :=
  (s.splitOn ",").mapM fun t =>
    if t = "x" then some none else
    match (t.splitOn ":").mapM String.toNat? with
    | some [np, len] => some (some (np, len))
    | _ => none

def inclStr (i : J2kPH.Incl) : String := if i.included then s!"{i.numPasses}:{i.dataLength}:{i.zbp}" else "x"

/-- all layers of one single-band precinct: header bytes per layer (encoder model) and what the decoder model reads
    back from those bits -/
def pktRun (layer : Nat) : List (List J2kPH.Contrib) → List J2kPH.BandE → List J2kPH.BandD → List String → List String →
    Option (List String × List String)
  | [], _, _, hs, ds => some (hs.reverse, ds.reverse)
  | c :: cs, be, bd, hs, ds =>
    let r := J2kPH.encHeader layer be [c]
    match J2kPH.decHeader layer bd r.2 with
    | none => none
    | some (bd', outs, rest) =>
      let d := match outs with
        | none => "empty"
        | some oss => ",".intercalate ((oss.getD 0 []).map inclStr) ++ s!"/{rest.length}"
      pktRun (layer + 1) cs r.1 bd' (bytesToHex (J2kPH.headerBytes r.2) :: hs) (d :: ds)

/-- optional integer token: "x" = key absent -/
def optInt (s : String) : Option (Option Int) := if s = "x" then some none else (s.toInt?).map some
def optBool (s : String) : Option (Option Bool) := if s = "x" then some none else (s.toInt?).map fun v => some (v != 0)

def step? : List String → Option String
  | ["j2k-pkthdr", w, h, cbs, layers] => some <| match nats? [w, h], parseTriples cbs, (layers.splitOn "|").mapM parseContribs with
    | some [w, h], some cbs, some ls =>
      let tri := cbs.filterMap fun t => match t with | [x, y, z] => some (x, y, z) | _ => none
      match pktRun 0 ls [J2kPH.BandE.fresh w h tri] [J2kPH.BandD.fresh w h tri] [] [] with
      | some (hs, ds) => "ok " ++ " ".intercalate hs ++ " | " ++ " ".intercalate ds
      | none => "err"
    | _, _, _ => "bad-op"
  | ["j2k-gparams", lv, mct, rate, levels, prog, ly, trn, trd, pcrd, app, bs, ba] =>
    some <| match optInt lv, optBool mct, optInt rate, optInt prog, optInt ly, optInt trn, optBool pcrd, optBool app,
        ints? [trd, bs, ba], (if levels = "x" then some none else (parseInts levels).map some) with
    | some lv, some mct, some rate, some prog, some ly, some trn, some pcrd, some app, some [trd, bs, ba], some levels =>
      let g : J2kL.GParams := ⟨lv, mct, rate, levels, prog, ly, trn.map (fun n => ⟨n, trd⟩), pcrd, app⟩
      let e := J2kL.encodeParams bs ba (J2kL.extractGeneric g)
      s!"ok {boolStr e.Lossless} {e.NumLevels} {e.ProgressionOrder} {e.NumLayers} {boolStr e.TargetRatio.pos} " ++
        s!"{boolStr e.UsePCRDOpt} {boolStr e.EnableMCT} {boolStr e.AppendLosslessLayer} " ++
        (if e.LayerRates.isEmpty then "-" else ",".intercalate (e.LayerRates.map fracStr))
    | _, _, _, _, _, _, _, _, _, _ => "bad-op"
  | ["j2k-cbrect", bw, bh, cbw, cbh, cbx, cby] => some <| match ints? [bw, bh, cbw, cbh, cbx, cby] with
    | some [bw, bh, cbw, cbh, cbx, cby] =>
      s!"ok {J2k.numCb bw cbw} {J2k.numCb bh cbh} " ++ t4 (J2k.encCbRect bw bh cbw cbh cbx cby)
    | _ => "bad-op"
  | ["j2k-lblock-enc", l, len, np] => some <| match nats? [l, len, np] with
    | some [l, len, np] => let r := J2k.encLen l len np; s!"ok {r.1} {bitsToStr r.2}"
    | _ => "bad-op"
  | ["j2k-lblock-dec", l, np, bits] => some <| match nats? [l, np] with
    | some [l, np] => match J2k.decLen l np (strToBits bits) with
      | some (len, l', rest) => s!"ok {len} {l'} {rest.length}"
      | none => "err"
    | _ => "bad-op"
  | ["j2k-bio-align", hx, n] => some <| match n.toNat? with
    | some n =>
      let data := hexToBytes hx
      match (J2k.BioR.new data).readBitsList n with
      | some (bs, r) => match r.alignToByte with
        | some r' => s!"ok {bitsToStr bs} {data.length - r'.data.length}"
        | none => "err"
      | none => "err"
    | none => "bad-op"
  | ["j2k-tt-enc", w, h, ops] => some <| match nats? [w, h], parseTriples ops with
    | some [w, h], some ops => match ttRun w h ops J2kTT.TTEnc.init [] with
      | some bits => "ok " ++ bitsToStr bits
      | none => "bad-op"
    | _, _ => "bad-op"
  | ["j2k-tt-dec", w, h, bits, qs] => some <| match nats? [w, h], parseTriples qs with
    | some [w, h], some qs => match ttDecRun w h qs J2kTT.TTDec.init (strToBits bits) [] with
      | some (vs, left) => s!"ok {intsToStr (vs.map Int.ofNat)} {left}"
      | none => "err"
    | _, _ => "bad-op"
  -- C19
  | ["j2k-tb-enc", w, h, tw, th, idx] => some <| match ints? [w, h, tw, th, idx] with
    | some [w, h, tw, th, idx] => "ok " ++ t4 (J2k.encTileBounds w h tw th idx)
    | _ => "bad-op"
  | ["j2k-tb-dec", w, h, tw, th, idx] => some <| match ints? [w, h, tw, th, idx] with
    | some [w, h, tw, th, idx] =>
      let l := J2k.decLayout w h tw th
      s!"ok {l.numTilesX} {l.numTilesY} " ++ t4 (J2k.decTileBounds w h tw th idx)
    | _ => "bad-op"
  | ["j2k-resdims-enc", len, x0, n] => some <| match ints? [len, x0, n] with
    | some [len, x0, n] => let r := J2k.resDims len x0 n.toNat; s!"ok {r.1}"
    | _ => "bad-op"
  | ["j2k-resdims-dec", len, x0, n] => some <| match ints? [len, x0, n] with
    | some [len, x0, n] => let r := J2k.resDimsT2 len x0 n.toNat; s!"ok {r.1} {r.2}"
    | _ => "bad-op"
  | ["j2k-enclow", len, n] => some <| match ints? [len, n] with
    | some [len, n] => s!"ok {J2k.encLowLen len 0 n.toNat}"
    | _ => "bad-op"
  | ["j2k-split-assemble", w, h, tw, th, vals] => some <| match nats? [w, h, tw, th], parseInts vals with
    | some [w, h, tw, th], some vs =>
      let src : J2k.Plane := fun i => vs.getD i 0
      let out := J2k.splitAssemble src w h tw th (J2k.numTilesNat w h tw th) (fun _ => -1)
      "ok " ++ intsToStr ((List.range (w * h)).map out)
    | _, _ => "bad-op"
  | ["j2k-cbidx-dec", resX0, cbX0, pw, cbw] => some <| match ints? [resX0, cbX0, pw, cbw] with
    | some [a, b, c, d] => let r := J2k.decCbIndex a b c d; s!"ok {r.1} {r.2}"
    | _ => "bad-op"
  | ["j2k-cbidx-enc", cbX0, pw, cbw] => some <| match ints? [cbX0, pw, cbw] with
    | some [b, c, d] => let r := J2k.encCbIndex 0 b c d; s!"ok {r.2}"
    | _ => "bad-op"
  | ["j2k-poskey", x0, y0, x1, y1, dx, dy, lv, res, pw, ph, idx] =>
    some <| match ints? [x0, y0, x1, y1, dx, dy, lv, res, pw, ph, idx] with
    | some [x0, y0, x1, y1, dx, dy, lv, res, pw, ph, idx] =>
      let g := Gen.J2kPosKey.precinctPositionKey ⟨x0, y0, x1, y1⟩ dx dy lv res pw ph idx
      if g.2 then s!"ok {g.1.X} {g.1.Y}" else "none"
    | _ => "bad-op"
  | "j2k-posmaps" :: nC :: nR :: x0 :: y0 :: x1 :: y1 :: pw :: ph :: ns =>
    some <| match ints? [nC, nR, x0, y0, x1, y1, pw, ph], ints? ns with
    | some [nC, nR, x0, y0, x1, y1, pw, ph], some ns => posMapsStr nC.toNat nR.toNat (x0, y0, x1, y1) pw ph (ns.map Int.toNat)
    | _, _ => "bad-op"
  | ["j2k-enclow-at", len, x0, n] => some <| match ints? [len, x0, n] with
    | some [len, x0, n] => s!"ok {J2k.encLowLen len x0 n.toNat}"
    | _ => "bad-op"
  | ["j2k-cbidx-enc-at", origin, cbX0, pw, cbw] => some <| match ints? [origin, cbX0, pw, cbw] with
    | some [a, b, c, d] => let r := J2k.encCbIndex a b c d; s!"ok {r.2}"
    | _ => "bad-op"
  -- C04
  | ["j2k-sample-read", p, sg, b0, b1] => some <| match ints? [p, sg, b0, b1] with
    | some [p, sg, b0, b1] => s!"ok {J2k.dcShift p (sg != 0) (J2k.readSample p (sg != 0) b0 b1)}"
    | _ => "bad-op"
  | ["j2k-sample-write", p, sg, v] => some <| match ints? [p, sg, v] with
    | some [p, sg, v] => let r := J2k.writeSample p (sg != 0) (J2k.dcUnshift p (sg != 0) v); s!"ok {r.1} {r.2}"
    | _ => "bad-op"
  | ["j2k-passlayout", cblk, band] => some <| match ints? [cblk, band] with
    | some [cblk, band] =>
      let r := Gen.J2kTiles.Encoder.codeBlockPassLayout (J2k.encOf 1 1) cblk band; s!"ok {r.1} {r.2}"
    | _ => "bad-op"
  | ["j2k-numpasses", n] => some <| match n.toNat? with
    | some n => match J2k.encNumPasses n with
      | some bs => "ok " ++ bitsToStr bs
      | none => "err"
    | none => "bad-op"
  | ["j2k-numpasses-dec", bits] => some <| match J2k.decNumPasses (strToBits bits) with
    | some (n, _) => s!"ok {n}"
    | none => "err"
  | ["j2k-comma", n] => some <| match n.toNat? with
    | some n => "ok " ++ bitsToStr (J2k.encComma n)
    | none => "bad-op"
  | ["j2k-comma-dec", bits] => some <| match J2k.decComma (strToBits bits) with
    | some (n, _) => s!"ok {n}"
    | none => "err"
  | ["j2k-bio-w", bits] => some <| "ok " ++ bytesToHex (J2k.BioW.new.writeBitsList (strToBits bits)).flush
  | ["j2k-bio-r", hx, n] => some <| match n.toNat? with
    | some n => match (J2k.BioR.new (hexToBytes hx)).readBitsList n with
      | some (bs, _) => "ok " ++ bitsToStr bs
      | none => "err"
    | none => "bad-op"
  -- C05
  | ["j2k-lparams", lv, mct, rate, levels, prog, ly, trn, trd, pcrd, app, bs, ba] =>
    some <| match ints? [lv, mct, rate, prog, ly, trn, trd, pcrd, app, bs, ba], parseInts levels with
    | some [lv, mct, rate, prog, ly, trn, trd, pcrd, app, bs, ba], some levels =>
      let p : J2kL.LParams := ⟨lv, mct != 0, rate, levels, prog, ly, ⟨trn, trd⟩, pcrd != 0, app != 0⟩
      let e := J2kL.encodeParams bs ba p
      s!"ok {boolStr e.Lossless} {e.NumLevels} {e.ProgressionOrder} {e.NumLayers} {boolStr e.TargetRatio.pos} " ++
        s!"{boolStr e.UsePCRDOpt} {boolStr e.EnableMCT} {boolStr e.AppendLosslessLayer} " ++
        (if e.LayerRates.isEmpty then "-" else ",".intercalate (e.LayerRates.map fracStr))
    | _, _ => "bad-op"
  | ["j2k-finalize", n, total, rates, alloc, app] =>
    some <| match ints? [n, total, app], parseInts rates, parseInts alloc with
    | some [n, total, app], some rates, some alloc =>
      let rate : Int → Int := fun k => rates.getD (k.toNat - 1) 0
      "ok " ++ triples (J2kL.finalize rate n total alloc (app != 0))
    | _, _, _ => "bad-op"
  | _ => none

end Drv.J2k
