import GdcVerif.Driver.Util
import GdcVerif.Model.Adapters
import GdcVerif.Gen.JpegLs
import GdcVerif.Gen.ValidateJpegSv1
import GdcVerif.Gen.ValidateJ2k
/-!
  Driver ops for the adapter models (run under the C17 check):
    adapter-pass <codec> W H BA BS SPP PR   → `ok w h c depth signed` | `ok-planes n` (rle) | `err`
        = `Adapters.passDown`, then the GENERATED validation prefix of the low-level encoder on a
          frame of the native length W·H·SPP·⌈BA/8⌉ (an empty frame is an adapter error)
    adapter-loop <zeroCheck> <need> <len,len,…|->   → `ok n` | `err k` (k = frames added before the error)
    params-baseline <ctorQ> <kind> <v>   params-extended <ctorD> <ctorQ> <kind> <q> <d> <BA> <BS>
    params-lossless <ctorP> <kind> <v>   params-near <ctorN> <kind> <v>        → `ok …`
        kind ∈ nil | tnil | typed | fint (foreign, Go int) | fother (foreign, other type) | fabs (foreign, absent)
-/
namespace Drv.Adapters
open Drv Gen _root_.Adapters

def codec? : String → Option Codec
  | "rle" => some .rle | "baseline" => some .baseline | "extended" => some .extended
  | "lossless" => some .lossless | "sv1" => some .sv1 | "jls" => some .jls | "jlsnear" => some .jlsNear
  | "j2klossless" => some .j2kLossless | "j2klossy" => some .j2kLossy | "htj2k" => some .htj2k
  | _ => none

/-- the generated validation prefix of the low-level encoder behind each adapter (default parameters) -/
def lowAccepts (k : Codec) (len : Int) (p : Passed) (lossless : Bool) : Bool :=
  match k with
  | .rle => true
  | .baseline => ValidateJpegBaseline.Encode_accepts len p.w p.h p.c 90
  | .extended => ValidateJpegExtended.Encode_accepts len p.w p.h p.c p.depth 90
  | .lossless => ValidateJpegLossless.Encode_accepts len p.w p.h p.c p.depth 1
  | .sv1 => ValidateJpegSv1.Encode_accepts len p.w p.h p.c p.depth
  | .jls => JpegLs.Encode_accepts len p.w p.h p.c p.depth
  | .jlsNear => ValidateJpegLsNear.Encode_accepts len p.w p.h p.c p.depth 2
  | .j2kLossless | .j2kLossy | .htj2k =>
    let q : ValidateJ2k.EncodeParams := { (default : ValidateJ2k.EncodeParams) with
      Width := p.w, Height := p.h, Components := p.c, BitDepth := p.depth, IsSigned := p.signed,
      NumLevels := 5, Lossless := lossless, CodeBlockWidth := 64, CodeBlockHeight := 64, Quality := 80,
      NumLayers := 1, EnableMCT := true }
    ValidateJ2k.Encoder.Encode_accepts { (default : ValidateJ2k.Encoder) with params := q } len

def src (T : Type) (mk : Int → T) (key : String) (kind : String) (v : Int) : Option (PSrc T) :=
  match kind with
  | "nil" => some .nil
  | "tnil" => some .typedNil
  | "typed" => some (.typed (mk v))
  | "fint" => some (.foreign fun k => if k == key then .int v else .absent)
  | "fother" => some (.foreign fun _ => .other)
  | "fabs" => some (.foreign fun _ => .absent)
  | _ => none

def step? : List String → Option String
  | ["adapter-pass", cs, w, h, ba, bs, spp, pr] => some <|
    match codec? cs, nats? [w, h, ba, bs, spp, pr] with
    | some k, some [w, h, ba, bs, spp, pr] =>
      let fi : FI := ⟨w, h, ba, bs, spp, pr⟩
      let len := nativeLen fi
      if len == 0 then "err" else
      match passDown k fi 12 with
      | none => "err"
      | some p =>
        if k == .rle then
          let planes := bytesRead .rle p.depth * p.c
          if planes < 1 || planes > 15 || p.w * p.h < 1 then "err" else s!"ok-planes {planes}"
        else if lowAccepts k len p (k != .j2kLossy) then
          s!"ok {p.w} {p.h} {p.c} {p.depth} {if p.signed then 1 else 0}"
        else "err"
    | _, _ => "bad-op"
  | ["adapter-loop", zc, need, lens] => some <|
    match nats? [zc, need], parseInts lens with
    | some [zc, need], some ls =>
      let frames : List (List Nat) := ls.map fun n => List.replicate n.toNat 0
      match encodeAll (zc != 0) (fun f => if f.length < need then none else some ()) frames with
      | .ok dst => s!"ok {dst.length}"
      | .err dst _ => s!"err {dst.length}"
    | _, _ => "bad-op"
  | ["params-baseline", cq, kind, v] => some <|
    match ints? [cq, v] with
    | some [cq, v] =>
      match src _ (fun q => ({ Quality := q } : ValidateJpegBaseline.JPEGBaselineParameters)) "quality" kind v with
      | some s => s!"ok {baselineQuality (newBaselineCodecQuality cq) s}"
      | none => "bad-op"
    | _ => "bad-op"
  | ["params-extended", cd, cq, kind, q, d, ba, bs] => some <|
    match ints? [cd, cq, q, d], nats? [ba, bs] with
    | some [cd, cq, q, d], some [ba, bs] =>
      let s : Option (PSrc ValidateJpegExtended.JPEGExtendedParameters) :=
        match kind with
        | "nil" => some .nil
        | "tnil" => some .typedNil
        | "typed" => some (.typed { Quality := q, BitDepth := d })
        | "fint" => some (.foreign fun k => if k == "quality" then .int q else if k == "bitDepth" then .int d else .absent)
        | "fother" => some (.foreign fun _ => .other)
        | "fabs" => some (.foreign fun _ => .absent)
        | _ => none
      match s with
      | some s =>
        let c := newExtendedCodec cd cq
        let r := extendedParams c.1 c.2 s
        -- 8×8 monochrome frame of the native length: the depth is what `passDown` selects from
        -- BitsStored and the (validated) parameter
        let fi : FI := ⟨8, 8, ba, bs, 1, 0⟩
        match passDown .extended fi r.BitDepth with
        | none => "err"
        | some p =>
          if ValidateJpegExtended.Encode_accepts (nativeLen fi) p.w p.h p.c p.depth r.Quality then s!"ok {r.Quality} {p.depth}"
          else "err"
      | none => "bad-op"
    | _, _ => "bad-op"
  | ["params-lossless", cp, kind, v] => some <|
    match ints? [cp, v] with
    | some [cp, v] =>
      match src _ (fun q => ({ Predictor := q } : ValidateJpegLossless.JPEGLosslessParameters)) "predictor" kind v with
      | some s => s!"ok {losslessPredictor cp true s}"
      | none => "bad-op"
    | _ => "bad-op"
  | ["params-near", cn, kind, v] => some <|
    match ints? [cn, v] with
    | some [cn, v] =>
      match src _ (fun q => ({ NEAR := q } : ValidateJpegLsNear.JPEGLSNearLosslessParameters)) "near" kind v with
      | some s => s!"ok {nearNear (newNearCodecNear cn) s}"
      | none => "bad-op"
    | _ => "bad-op"
  | _ => none

end Drv.Adapters
