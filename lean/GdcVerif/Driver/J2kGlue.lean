import GdcVerif.Driver.Util
import GdcVerif.Model.J2kGlue
import GdcVerif.Model.J2kGlueImage
/-! Line-protocol ops for the glue model of the reversible single-tile pipeline (C04 round 5).
    Text format: packets separated by `/`, bands by `;`, a band is `w,h:blk|blk|…`. -/
namespace Drv.Glue
open Drv _root_.J2kGlue J2kPH

def splitNE (s : String) (sep : String) : List String := if s = "" then [] else s.splitOn sep

/-- generic `packets/bands;…` parser over a block parser -/
def parsePackets {β : Type} (blk : String → Option β) (s : String) : Option (List (List (Nat × Nat × List β))) :=
  (splitNE s "/").mapM fun p => (splitNE p ";").mapM fun b =>
    match b.splitOn ":" with
    | [wh, blks] =>
      match nats? (wh.splitOn ","), (splitNE blks "|").mapM blk with
      | some [w, h], some bs => some (w, h, bs)
      | _, _ => none
    | _ => none

def parseCB (s : String) : Option CB :=
  match s.splitOn "," with
  | [x, y, z, np, hx] => match nats? [x, y, z, np] with
    | some [x, y, z, np] => some ⟨x, y, z, np, hexToBytes hx⟩
    | _ => none
  | _ => none

def parsePos (s : String) : Option (Nat × Nat) :=
  match nats? (s.splitOn ",") with
  | some [x, y] => some (x, y)
  | _ => none

def parseInts_ (s : String) : Option (List Int) := if s = "-" then some [] else (s.splitOn "_").mapM String.toInt?

def parsePBlk (s : String) : Option PBlk :=
  match s.splitOn "," with
  | [x, y, w, h, o, nb, cs] => match nats? [x, y, w, h, o, nb], parseInts_ cs with
    | some [x, y, w, h, o, nb], some cs => some ⟨x, y, ⟨w, h, o, nb, cs⟩⟩
    | _, _ => none
  | _ => none

def parseGeo (s : String) : Option BlkGeo :=
  match nats? (s.splitOn ",") with
  | some [x, y, w, h, o, nb] => some ⟨x, y, w, h, o, nb⟩
  | _ => none

def inclStr (q : Incl × List Nat) : String :=
  if q.1.included then s!"1,{q.1.numPasses},{q.1.dataLength},{q.1.zbp},{bytesToHex q.2}" else "0"

def pktStr (o : Option (List (List (Incl × List Nat)))) : String :=
  match o with
  | none => "nohdr"
  | some bands => ";".intercalate (bands.map fun b => "|".intercalate (b.map inclStr))

def intsStr_ (xs : List Int) : String := if xs.isEmpty then "-" else "_".intercalate (xs.map toString)

def parseICfg (a : List String) : Option ICfg :=
  match nats? a with
  | some [w, h, c, p, sg, l, cbw, cbh, prog, mct] => some ⟨w, h, c, p, sg != 0, l, cbw, cbh, prog, mct != 0⟩
  | _ => none

/-- convertPixelData + applyDCLevelShift: interleaved container bytes → DC-shifted component planes -/
def frontPlanes (c : ICfg) (pix : Array Nat) : Nat → Plane := fun k x y =>
  let i := (y * c.W + x) * c.C + k
  let (b0, b1) := if c.P ≤ 8 then ((pix.getD i 0 : Nat), 0) else (pix.getD (2 * i) 0, pix.getD (2 * i + 1) 0)
  J2k.dcShift c.P c.signed (J2k.readSample c.P c.signed b0 b1)

/-- applyInverseDCLevelShift + GetPixelData -/
def backBytes (c : ICfg) (p : Nat → Plane) : List Nat :=
  (List.range c.H).flatMap fun y => (List.range c.W).flatMap fun x => (List.range c.C).flatMap fun k =>
    let w := J2k.writeSample c.P c.signed (J2k.dcUnshift c.P c.signed (p k x y))
    if c.P ≤ 8 then [w.1.toNat] else [w.1.toNat, w.2.toNat]

def step? (args : List String) : Option String :=
  match args with
  | ["j2k-glue-enc", pk] => some <| match parsePackets parseCB pk with
    | some ps => "ok " ++ bytesToHex (encTile (ps.map fun p => p.map fun b => (⟨b.1, b.2.1, b.2.2⟩ : Band)))
    | none => "bad-op"
  | ["j2k-glue-dec", sp, hx] => some <| match parsePackets parsePos sp with
    | some ss =>
      match decTile (ss.map fun p => p.map fun b => (⟨b.1, b.2.1, b.2.2⟩ : BandSpec)) (hexToBytes hx) with
      | none => "err"
      | some (os, rest) => "ok " ++ "/".intercalate (os.map pktStr) ++ s!" rest={rest.length}"
    | none => "bad-op"
  | ["j2k-glue-t1enc", pk] => some <| match parsePackets parsePBlk pk with
    | some ps =>
      match encodeTileBody (ps.map fun p => p.map fun b => (⟨b.1, b.2.1, b.2.2⟩ : PBand)) with
      | some bs => "ok " ++ bytesToHex bs
      | none => "panic"
    | none => "bad-op"
  | ["j2k-glue-t1dec", gs, hx] => some <| match parsePackets parseGeo gs with
    | some gs =>
      match decodeTileBody (gs.map fun p => p.map fun b => (⟨b.1, b.2.1, b.2.2⟩ : BandGeo)) (hexToBytes hx) with
      | none => "err"
      | some out => "ok " ++ "/".intercalate (out.map fun p => ";".intercalate (p.map fun b => "|".intercalate (b.map intsStr_)))
    | none => "bad-op"
  | ["j2k-glue-img-enc", w, h, c, p, sg, l, cbw, cbh, prog, mct, hx] =>
    some <| match parseICfg [w, h, c, p, sg, l, cbw, cbh, prog, mct] with
    | some cfg =>
      match encodeBody cfg (frontPlanes cfg (hexToBytes hx).toArray) with
      | none => "panic"
      | some body => match frame cfg body with
        | some bs => "ok " ++ bytesToHex bs
        | none => "err"
    | none => "bad-op"
  | ["j2k-unframe", hx] => some <| match unframe (hexToBytes hx) with
    | some body => "ok " ++ bytesToHex body
    | none => "err"
  | ["j2k-glue-img-dec", w, h, c, p, sg, l, cbw, cbh, prog, mct, hx] =>
    some <| match parseICfg [w, h, c, p, sg, l, cbw, cbh, prog, mct] with
    | some cfg =>
      match decodeBody cfg (hexToBytes hx) with
      | none => "err"
      | some pl => "ok " ++ bytesToHex (backBytes cfg pl)
    | none => "bad-op"
  | _ => none

end Drv.Glue
