import GdcVerif.Driver.Util
import GdcVerif.Model.Frames
import GdcVerif.Gen.Facts
/-!
  Driver ops of C10 / C18.  The harness sends DYNAMIC observations made on the real code; the driver answers
  from `Gen.Facts` (static facts regenerated from the source) and from the frame-length model.

  c10-declen <kind> W H SPP BA BS          → ok <len> | err
  fact-fields <encoder|decoder>            → ok <f1,f2,…>
  fact-field <obj> <field> <changed> <sensitive>
        → ok | inconsistent <class>   (changed ⇒ the field is written; sensitive ⇒ config or leaky)
  fact-field-stationary <obj> <field> <changed>   → ok | inconsistent memo-not-stationary
        (a leaky field changed on a call after the first one)
  fact-codec-params-changed <type> <0|1>   → ok | inconsistent      (a shared parameters object changed during the
        workload ⇒ a non-Validate store through `parameters` is listed for that codec type)
  fact-pkgvars <package>                   → ok <v1,v2,…>           (library package-level variables)
  fact-pkgvar-changed <package.var> <0|1>  → ok | inconsistent      (changed ⇒ a run-time store is listed)
  fact-codec-changed <type> <0|1>          → ok | inconsistent      (changed ⇒ a receiver store is listed)
  fact-codec-types                         → ok <t1,t2,…>
  fact-validate <type> <k=v,…> <changed fields|->  → ok | inconsistent <fields the kernel says are stored>
  fact-goroutines <delta>                  → ok | inconsistent      (goroutines left behind ⇒ a go statement is listed)
  fact-concurrency                         → ok go=<n> sync=<n> unsafe_imports=<n>   (library packages)
-/
namespace Drv.Facts
open Drv Frames

def kind? : String → Option Kind
  | "rle" => some .rle | "baseline" => some .baseline | "extended" => some .extended
  | "jpegll" => some .jpegll | "jls" => some .jls | "j2k" => some .j2k | "htj2k" => some .htj2k
  | _ => none

def classes (obj : String) : List (String × String) :=
  if obj = "encoder" then Gen.Facts.encoderFieldClass else if obj = "decoder" then Gen.Facts.decoderFieldClass else []

def fields (obj : String) : List String :=
  if obj = "encoder" then Gen.Facts.encoderFields.map (·.1)
  else if obj = "decoder" then Gen.Facts.decoderFields.map (·.1) else []

/-- fields that are leaky only through a nil guard with a bare return (C10.decoder_leaky_fields_when_nil_guards_dead):
    if the guard is dead they are killed before read, so a perturbation must never reach the output -/
def guardOnlyLeaky (obj : String) : List String :=
  if obj = "decoder" then ["roiShifts", "roiSrgn"] else []

def parseKV (s : String) : Option (List (String × Int)) :=
  if s = "-" then some [] else
  (s.splitOn ",").mapM (fun kv => match kv.splitOn "=" with
    | [k, v] => v.toInt?.map (fun n => (k, n))
    | _ => none)

def step? : List String → Option String
  | ["c10-declen", k, w, h, spp, ba, bs] =>
    some <| match kind? k, nats? [w, h, spp, ba, bs] with
    | some k, some [w, h, spp, ba, bs] =>
      match decodedLen k ⟨w, h, spp, ba, bs⟩ with
      | some n => s!"ok {n}"
      | none => "err"
    | _, _ => "bad-op"
  | ["fact-fields", obj] => some ("ok " ++ ",".intercalate (fields obj))
  | ["fact-field", obj, f, ch, se] =>
    some <| match (classes obj).lookup f with
    | none => "inconsistent unknown-field"
    | some cls =>
      let okCh := ch = "0" || cls != "config"
      let okSe := se = "0" || cls = "config" || (cls = "leaky" && !(guardOnlyLeaky obj).contains f)
      if okCh && okSe then "ok" else "inconsistent " ++ cls
  | ["fact-field-stationary", obj, f, ch] =>
    -- the memo contract behind encoder_run_eq_map_given_stationary_memo / decoder_run_eq_map: a leaky field
    -- must not change any more on the calls after the first one
    some <| match (classes obj).lookup f with
    | none => "inconsistent unknown-field"
    | some cls => if ch = "0" || cls != "leaky" || (guardOnlyLeaky obj).contains f then "ok" else "inconsistent memo-not-stationary"
  | ["fact-codec-params-changed", ty, ch] =>
    some <| if !Gen.Facts.codecTypes.contains ty then "inconsistent unknown-type"
      else if ch = "0" || Gen.Facts.codecParameterStores.any (fun s => s.1 = ty && s.2.2.1 != "Validate") then "ok"
      else "inconsistent"
  | ["fact-pkgvars", pkg] =>
    some ("ok " ++ ",".intercalate ((Gen.Facts.pkgVars.filter (fun v => v.1 = pkg && v.2.2.2 && v.2.1 != "_")).map (·.2.1)))
  | ["fact-pkgvar-changed", v, ch] =>
    some <| if ch = "0" || Gen.Facts.pkgVarWrites.any (fun w => w.1 = v && (w.2.2.2.1 = "runtime" || w.2.2.2.1 = "dead"))
      then "ok" else "inconsistent"
  | ["fact-codec-changed", ty, ch] =>
    some <| if !Gen.Facts.codecTypes.contains ty then "inconsistent unknown-type"
      else if ch = "0" || Gen.Facts.codecRecvStores.any (fun s => s.1 = ty) then "ok" else "inconsistent"
  | ["fact-codec-types"] => some ("ok " ++ ",".intercalate Gen.Facts.codecTypes)
  | ["fact-validate", ty, kv, changed] =>
    some <| match parseKV kv with
    | none => "bad-op"
    | some a =>
      match Gen.Facts.validateStoreConds ty a with
      | none => "inconsistent unknown-type"
      | some conds =>
        let stored := (conds.filter (·.2)).map (fun c => (c.1.splitOn "[").headD c.1)
        let ch := if changed = "-" then [] else changed.splitOn ","
        if ch.all (fun f => stored.contains f) then "ok" else "inconsistent " ++ ",".intercalate stored
  | ["fact-goroutines", d] =>
    some <| if d = "0" || !(Gen.Facts.goStmts.filter (·.2.2)).isEmpty then "ok" else "inconsistent"
  | ["fact-concurrency"] =>
    some s!"ok go={(Gen.Facts.goStmts.filter (·.2.2)).length} sync={(Gen.Facts.syncUses.filter (·.2.2)).length} unsafe_imports={(Gen.Facts.unsafeImports.filter (·.2.2)).length}"
  | _ => none

end Drv.Facts
