import GdcVerif.Driver.Util
import GdcVerif.Gen.JpegLs
import GdcVerif.Gen.JpegLsNear
import GdcVerif.Gen.JpegLsRun
import GdcVerif.Model.JpegLsBits
import GdcVerif.Model.Golomb
import GdcVerif.Model.JpegLsRun
import GdcVerif.Model.JpegLsScan
import GdcVerif.Model.JpegLsScanL
import GdcVerif.Model.GolombReader
/-!
  Driver ops for the JPEG-LS kernels: every op evaluates a GENERATED definition
  (`Gen/JpegLs*.lean`) — or the hand model `JpegLsBits.bitsLen` — on the arguments the real Go
  function saw in the harness.  All arguments are decimal integers; answers are `ok v…`.
-/
namespace Drv.JpegLs
open Drv Gen.JpegLs

def ok (xs : List Int) : String := "ok " ++ " ".intercalate (xs.map toString)
def okb (b : Bool) : String := if b then "ok 1" else "ok 0"

def tr (m n : Int) : Traits := NewTraits m n 64

def kernel (op : String) (a : List Int) : Option String :=
  match op, a with
  | "jls-traits", [m, n, r] =>
    let t := NewTraits m n r
    some (ok [t.MaxVal, t.Near, t.Range, t.Qbpp, t.Limit, t.Reset, t.T1, t.T2, t.T3])
  | "jls-params", [m, n, r] =>
    let t := ComputeCodingParameters m n r
    some (ok [t.MaxVal, t.Near, t.Range, t.Qbpp, t.Limit, t.T1, t.T2, t.T3, t.Reset])
  | "jls-bitsLen", [n] => some (ok [JpegLsBits.bitsLen n])
  | "jls-thresholds", [m, n] => let (a, b, c) := computeThresholds m n; some (ok [a, b, c])
  | "jls-clamp", [v, lo, hi] => some (ok [clamp v lo hi])
  | "jls-t-quantize", [m, n, e] => some (ok [Traits.quantize (tr m n) e])
  | "jls-t-dequantize", [m, n, e] => some (ok [Traits.dequantize (tr m n) e])
  | "jls-t-modrange", [m, n, e] => some (ok [Traits.ModuloRange (tr m n) e])
  | "jls-t-cev", [m, n, e] => some (ok [Traits.ComputeErrorValue (tr m n) e])
  | "jls-t-fix", [m, n, v] => some (ok [Traits.fixReconstructedValue (tr m n) v])
  | "jls-t-crs", [m, n, p, e] => some (ok [Traits.ComputeReconstructedSample (tr m n) p e])
  | "jls-t-corrpred", [m, n, v] => some (ok [Traits.correctPrediction (tr m n) v])
  | "jls-t-CorrPred", [m, n, v] => some (ok [Traits.CorrectPrediction (tr m n) v])
  | "jls-t-map", [m, n, e] => some (ok [Traits.MapErrorValue (tr m n) e])
  | "jls-t-unmap", [m, n, v] => some (ok [Traits.UnmapErrorValue (tr m n) v])
  | "jls-t-qgrad", [m, n, d] => some (ok [Traits.QuantizeGradient (tr m n) d])
  | "jls-t-isnear", [m, n, x, y] => some (okb (Traits.IsNear (tr m n) x y))
  | "jls-ctx-update", [A, N, B, C, e, near, reset] =>
    let c := Context.UpdateContext { A := A, N := N, B := B, C := C } e near reset
    some (ok [c.A, c.N, c.B, c.C])
  | "jls-ctx-errcorr", [A, N, B, C, k, near] =>
    some (ok [Context.GetErrorCorrection { A := A, N := N, B := B, C := C } k near])
  | "jls-map", [e] => some (ok [MapErrorValue e])
  | "jls-unmap", [v] => some (ok [UnmapErrorValue v])
  | "jls-predict", [a, b, c] => some (ok [Predict a b c])
  | "jls-qgrad0", [d] => some (ok [quantizeGradient d])
  | "jls-gq", [t1, t2, t3, n, d] =>
    some (ok [GradientQuantizer.quantizeGradient { T1 := t1, T2 := t2, T3 := t3, Near := n } d])
  | "jls-gqctx", [t1, t2, t3, n, a, b, c, d] =>
    let (x, y, z) := GradientQuantizer.ComputeContext { T1 := t1, T2 := t2, T3 := t3, Near := n } a b c d
    some (ok [x, y, z])
  | "jls-ctx0", [a, b, c, d] => let (x, y, z) := ComputeContext a b c d; some (ok [x, y, z])
  | "jls-ctxid", [a, b, c] => some (ok [ComputeContextID a b c])
  | "jls-bsign", [i] => some (ok [BitwiseSign i])
  | "jls-asign", [i, s] => some (ok [ApplySign i s])
  | "jls-signint", [n] => some (ok [signInt n])
  | "jls-rm-update", [rit, A, N, NN, e, em, reset] =>
    let c := RunModeContext.UpdateVariables { runInterruptionType := rit, A := A, N := N, NN := NN } e em reset
    some (ok [c.runInterruptionType, c.A, c.N, c.NN])
  | "jls-rm-map", [rit, A, N, NN, e, k] =>
    some (okb (RunModeContext.ComputeMap { runInterruptionType := rit, A := A, N := N, NN := NN } e k))
  | "jls-rm-cev", [rit, A, N, NN, temp, k] =>
    some (ok [RunModeContext.ComputeErrorValue { runInterruptionType := rit, A := A, N := N, NN := NN } temp k])
  | "jls-enc-cev", [p, d] =>
    some (ok [Encoder.computeErrorValue { width := 1, height := 1, components := 1, bitDepth := p,
                                          maxVal := 2 ^ p.toNat - 1, traits := tr (2 ^ p.toNat - 1) 0 } d])
  | "jls-dec-cev", [p, d] =>
    some (ok [Decoder.computeErrorValue { width := 1, height := 1, components := 1, bitDepth := p,
                                          maxVal := 2 ^ p.toNat - 1, interleave := 0,
                                          traits := tr (2 ^ p.toNat - 1) 0 } d])
  | "jls-newctx", [r] => let c := NewContext r; some (ok [c.A, c.N, c.B, c.C])
  | "jls-newrmctx", [rit, r] => let c := NewRunModeContext rit r; some (ok [c.runInterruptionType, c.A, c.N, c.NN])
  | "jls-corrpred", [p, b, r] => some (ok [CorrectPrediction p b r])
  | "jls-accepts", [l, w, h, c, p] => some (okb (Encode_accepts l w h c p))
  | "jls-near-accepts", [l, w, h, c, p, n] => some (okb (Gen.JpegLsNear.Encode_accepts l w h c p n))
  | "jls-run-inc", [i] => some (ok [Gen.JpegLsRun.IncrementRunIndex i])
  | "jls-run-dec", [i] => some (ok [Gen.JpegLsRun.DecrementRunIndex i])
  | "jls-run-abs", [i] => some (ok [Gen.JpegLsRun.Abs i])
  | "jls-run-sign", [i] => some (ok [Gen.JpegLsRun.Sign i])
  | "jls-J", [i] => some (match Gen.JpegLsRun.J[i.toNat]? with | some v => (if i < 0 then "panic" else ok [v]) | none => "panic")
  | _, _ => none

/-- pairs (value, count) from a flat list -/
def pairs : List Int → List (Nat × Int)
  | v :: c :: rest => (v.toNat, c) :: pairs rest
  | _ => []

def quads : List Int → List (Int × Int × Int × Int)
  | a :: b :: c :: d :: rest => (a, b, c, d) :: quads rest
  | _ => []

/-- `jls-gw v1 c1 v2 c2 …` : WriteBits(v1,c1); …; Flush()  →  bytes of the model writer -/
def gw (a : List Int) : String :=
  "ok " ++ bytesToHex (Golomb.finish (Golomb.writeAll Golomb.Writer.new (pairs a))).out

/-- `jls-emv k1 m1 limit1 qbpp1 …` : EncodeMappedValue(…) …; Flush() → bytes -/
def emv (a : List Int) : String :=
  let w := (quads a).foldl (fun w q => Golomb.encodeMappedValue w q.1 q.2.1 q.2.2.1 q.2.2.2) Golomb.Writer.new
  "ok " ++ bytesToHex (Golomb.finish w).out

/-- `jls-dv hex count k limit qbpp` : `count` DecodeValue calls on the destuffed bit sequence -/
def dv (hx : String) (a : List Int) : String :=
  match a with
  | [count, k, limit, qbpp] =>
    let rec go : Nat → List Bool → List Int → Option (List Int)
      | 0, _, acc => some acc.reverse
      | n + 1, bs, acc =>
        match Golomb.decodeValue k limit qbpp bs with
        | some (v, rest) => go n rest (v :: acc)
        | none => none
    match go count.toNat (Golomb.destuff (hexToBytes hx) false) [] with
    | some vs => ok vs
    | none => "err"
  | _ => "bad-op"

def failStr : JpegLsRun.Fail → String
  | .err => "err"
  | .panic => "panic"

def stInts (st : JpegLsRun.St) : List Int :=
  [st.runIndex, st.ctx0.A, st.ctx0.N, st.ctx0.NN, st.ctx1.A, st.ctx1.N, st.ctx1.NN]

/-- common argument layout of the run-segment ops:
    `mode comps P near runIndex A0 N0 NN0 A1 N1 NN1 width x pixels…` (mode 0 = lossless package,
    1 = near-lossless package: the model is the same, the harness drives the respective real code) -/
def runsegArgs (a : List Int) : Option (Traits × Int × Int × JpegLsRun.St × Array Int × Int) :=
  match a with
  | _mode :: comps :: p :: near :: ri :: a0 :: n0 :: nn0 :: a1 :: n1 :: nn1 :: width :: x :: pixels =>
    some (NewTraits (2 ^ p.toNat - 1) near 64, width, comps,
      { runIndex := ri, ctx0 := { runInterruptionType := 0, A := a0, N := n0, NN := nn0 },
        ctx1 := { runInterruptionType := 1, A := a1, N := n1, NN := nn1 } }, pixels.toArray, x)
  | _ => none

def runRa (p : Array Int) (width x : Int) : Int :=
  if x > 0 then p.getD (width + x - 1).toNat 0 else p.getD 0 0

/-- `jls-runseg-enc …` → `ok <bytes> processed runIndex A0 N0 NN0 A1 N1 NN1 pixels…` -/
def runsegEnc (a : List Int) : String :=
  match runsegArgs a with
  | none => "bad-op"
  | some (t, width, comps, st, p, x) =>
    let r := if comps > 1 then JpegLsRun.encodeSegmentILV2 t width comps st p x
             else JpegLsRun.encodeSegmentILV0 t width st p x (runRa p width x)
    match r with
    | .error f => failStr f
    | .ok (ws, processed, p, st) =>
      "ok " ++ bytesToHex (Golomb.finish (Golomb.writeAll Golomb.Writer.new ws)).out ++ " " ++
        " ".intercalate ((processed :: stInts st ++ p.toList).map toString)

/-- `jls-runseg-dec <bytes> …` → `ok processed runIndex A0 N0 NN0 A1 N1 NN1 pixels…` -/
def runsegDec (hx : String) (a : List Int) : String :=
  match runsegArgs a with
  | none => "bad-op"
  | some (t, width, comps, st, p, x) =>
    let bs := Golomb.destuff (hexToBytes hx) false
    let r := if comps > 1 then JpegLsRun.decodeSegmentILV2 t width comps st p x bs
             else JpegLsRun.decodeSegmentILV0 t width st p x (runRa p width x) bs
    match r with
    | .error f => failStr f
    | .ok (processed, p, st, _) => ok (processed :: stInts st ++ p.toList)

def chunk (n : Nat) : Nat → List Int → List (Array Int)
  | 0, _ => []
  | f + 1, l => if l.isEmpty then [] else (l.take n).toArray :: chunk n f (l.drop n)

/-- `jls-scan-enc mode comps P near width height pixels…` → `ok <entropy-coded segment>`
    (mode 0 = jpegls/lossless, 1 = jpegls/nearlossless on the real side; one model) -/
def scanEnc (a : List Int) : String :=
  match a with
  | _mode :: comps :: p :: near :: width :: height :: pixels =>
    let t := NewTraits (2 ^ p.toNat - 1) near 64
    match JpegLsScan.scanEncode t width comps (chunk (width * comps).toNat height.toNat pixels) with
    | .ok bs => "ok " ++ bytesToHex bs
    | .error f => failStr f
  | _ => "bad-op"

/-- `jls-scan-dec <scan bytes> mode comps P near width height` → `ok pixels…` -/
def scanDec (hx : String) (a : List Int) : String :=
  match a with
  | [_mode, comps, p, near, width, height] =>
    let t := NewTraits (2 ^ p.toNat - 1) near 64
    match JpegLsScan.scanDecode t width height comps (hexToBytes hx) with
    | .ok lines => ok (lines.flatMap (·.toList))
    | .error f => failStr f
  | _ => "bad-op"

def chunkL (n : Nat) : Nat → List Int → List (List Int)
  | 0, _ => []
  | f + 1, l => if l.isEmpty then [] else l.take n :: chunkL n f (l.drop n)

/-- `jls-scanL-enc …` : same arguments and answer as `jls-scan-enc`, evaluated on the list model
    `Model/JpegLsScanL.lean` (the one the lock-step theorems are about) -/
def scanLEnc (a : List Int) : String :=
  match a with
  | _mode :: comps :: p :: near :: width :: height :: pixels =>
    let t := NewTraits (2 ^ p.toNat - 1) near 64
    let pxs := chunkL comps.toNat (width * height).toNat pixels
    let lines := (List.range height.toNat).map (fun y => (pxs.drop (y * width.toNat)).take width.toNat)
    match JpegLsScanL.encodeImage t width.toNat comps.toNat lines with
    | .ok (ws, _) => "ok " ++ bytesToHex (Golomb.finish (Golomb.writeAll Golomb.Writer.new ws)).out
    | .error f => failStr f
  | _ => "bad-op"

def scanLDec (hx : String) (a : List Int) : String :=
  match a with
  | [_mode, comps, p, near, width, height] =>
    let t := NewTraits (2 ^ p.toNat - 1) near 64
    match JpegLsScanL.decodeImage t width.toNat height.toNat comps.toNat (Golomb.destuff (hexToBytes hx) false) with
    | .ok (lines, _) => ok (lines.flatMap (fun l => l.flatMap id))
    | .error f => failStr f
  | _ => "bad-op"

/-- `jls-gr <bytes> op…` : a sequence of reader calls on the model `GolombReader`
    (op −1 = `ReadBit`, op n ≥ 0 = `ReadBits(n)`); answer: the values read, then `err`/`panic` at the
    first failing call (later ops are not executed) -/
def grOps (hx : String) (ops : List Int) : String :=
  let vals (acc : List Int) : String := "ok" ++ String.join (acc.reverse.map (fun v => " " ++ toString v))
  let rec go : List Int → GolombReader.Reader → List Int → String
    | [], _, acc => vals acc
    | op :: rest, r, acc =>
      match (if op = -1 then GolombReader.readBit r else GolombReader.readBits r op) with
      | .ok (v, r) => go rest r ((v : Int) :: acc)
      | .error .err => vals acc ++ " err"
      | .error .panic => vals acc ++ " panic"
  go ops (GolombReader.new (hexToBytes hx)) []

def step? : List String → Option String
  | "jls-gr" :: hx :: a => (ints? a).map (grOps hx)
  | "jls-scanL-dec" :: hx :: a => (ints? a).map (scanLDec hx)
  | "jls-scanL-enc" :: a => (ints? a).map scanLEnc
  | "jls-scan-dec" :: hx :: a => (ints? a).map (scanDec hx)
  | "jls-scan-enc" :: a => (ints? a).map scanEnc
  | "jls-runseg-dec" :: hx :: a => (ints? a).map (runsegDec hx)
  | "jls-runseg-enc" :: a => (ints? a).map runsegEnc
  | "jls-dv" :: hx :: a => (ints? a).map (dv hx)
  | "jls-gw" :: a => (ints? a).map gw
  | "jls-emv" :: a => (ints? a).map emv
  | op :: a =>
    if op.startsWith "jls-" then
      match ints? a with
      | some xs => kernel op xs
      | none => none
    else none
  | _ => none

end Drv.JpegLs
