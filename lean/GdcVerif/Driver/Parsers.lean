import GdcVerif.Driver.Util
import GdcVerif.Model.JpegMarkers
import GdcVerif.Model.JlsHeader
import GdcVerif.Model.J2kHeader
/-! Driver ops of the C08/C09 parser models. -/
namespace Drv.Parsers
open Drv

def sp (xs : List Nat) : String := " ".intercalate (xs.map toString)

/-- ops:
  `jm-readmarker hex`      → `ok <marker> <unread>` | `err`
  `jm-readsegment hex`     → `ok <payload length> <unread>` | `err`
  `jm-build b0,…,b15 n`    → `ok` | `panic`        (HuffmanTable.Build with len(Values) = n)
  `parse-sv1 hex`          → `ok w h comps precision` | `err` | `panic` | `scan`
  `parse-bl-sosfirst hex`  → `err` | `panic` | `scan`
  `parse-jls hex`          → `err` | `panic` | `scan`
  `parse-j2k hex`          → `ok xsiz ysiz xosiz yosiz xtsiz ytsiz csiz levels layers nprec sqcd nspqcd ncom` | `err` | `panic` | `unmodelled`
-/
def step? : List String → Option String
  | ["jm-readmarker", hx] =>
    some <| match JM.readMarker (hexToBytes hx) with
    | some (m, rest) => s!"ok {m} {rest.length}"
    | none => "err"
  | ["jm-readsegment", hx] =>
    some <| match JM.readSegment (hexToBytes hx) with
    | some (pl, rest) => s!"ok {pl.length} {rest.length}"
    | none => "err"
  | ["jm-build", bits, n] =>
    some <| match parseInts bits, n.toNat? with
    | some bs, some n =>
      match JM.build (bs.map Int.toNat) n with
      | .ok () => "ok"
      | .err => "err"
      | .panic _ => "panic"
      | .scan => "scan"
    | _, _ => "bad-op"
  | ["parse-sv1", hx] =>
    some <| match (JM.sv1Decode (hexToBytes hx)).1 with
    | .ok st => "ok " ++ sp [st.width, st.height, st.comps.length, st.precision]
    | .err => "err"
    | .panic _ => "panic"
    | .scan => "scan"
  | ["parse-bl-sosfirst", hx] =>
    some <| match JM.blSosFirst (hexToBytes hx) with
    | .ok () => "ok"
    | .err => "err"
    | .panic _ => "panic"
    | .scan => "scan"
  | ["parse-jls", hx] =>
    some <| match (JlsH.header (hexToBytes hx)).1 with
    | .ok () => "ok"
    | .err => "err"
    | .panic _ => "panic"
    | .scan => "scan"
  | ["parse-j2k", hx] =>
    some <| match J2kH.parse (hexToBytes hx) with
    | .ok h =>
      match h.siz, h.cod, h.qcd with
      | some s, some c, some q =>
        "ok " ++ sp [s.xsiz, s.ysiz, s.xosiz, s.yosiz, s.xtsiz, s.ytsiz, s.csiz, c.levels, c.layers, c.nprec, q.1, q.2, h.ncom]
      | _, _, _ => "bad-model"
    | .err => "err"
    | .panic _ => "panic"
    | .unmodelled => "unmodelled"
  | _ => none

end Drv.Parsers
