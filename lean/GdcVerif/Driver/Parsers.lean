import GdcVerif.Driver.Util
import GdcVerif.Model.JpegMarkers
import GdcVerif.Model.JlsHeader
import GdcVerif.Model.J2kHeader
/-! Driver ops of the C08/C09 parser models. -/
namespace Drv.Parsers
open Drv PC

def sp (xs : List Nat) : String := " ".intercalate (xs.map toString)

def resStr : Res → String
  | .ok => "ok"
  | .err => "err"
  | .panic _ => "panic"
  | .beyond => "beyond"

/-- ops:
  `jm-readmarker hex`      → `ok <marker> <unread>` | `err`
  `jm-readsegment hex`     → `ok <payload length> <unread>` | `err`
  `jm-build b0,…,b15 n`    → `ok` | `err` | `panic`   (HuffmanTable.Build with len(Values) = n)
  `parse-sv1 hex`          → `ok w h comps precision` | `err` | `panic` | `beyond`
  `parse-jll hex`          → `ok w h comps precision` | `err` | `panic` | `beyond`
  `parse-bl hex`           → `err` | `panic` | `beyond`
  `parse-jls hex`, `parse-jlsn hex` → `err` | `panic` | `beyond`
  `parse-j2k hex`          → `ok xsiz ysiz xosiz yosiz xtsiz ytsiz csiz ncoc nqcc npoc nrgn ncom nmct nmcc nmco ntiles datalen | cod… | qcd…` | `err` | `panic` | `beyond`
-/
def step? : List String → Option String
  | ["jm-readmarker", hx] =>
    some <| match JM.readMarker (hexToBytes hx) with
    | some (m, rest) => s!"ok {m} {rest.length}"
    | none => "err"
  | ["jm-readsegment", hx] =>
    some <| match JM.readSegment (hexToBytes hx) with
    | some (pl, rest) => s!"ok {pl.length} {rest.length}"
    | none => "err"
  | ["jm-build", bits, n] =>
    some <| match parseInts bits, n.toNat? with
    | some bs, some n =>
      match JM.build (bs.map Int.toNat) n with
      | .ok () => "ok"
      | .error e => resStr e
    | _, _ => "bad-op"
  | ["parse-sv1", hx] =>
    some <| match JM.sv1Decode (hexToBytes hx) with
    | (st, .ok) => "ok " ++ sp [st.width, st.height, st.comps.length, st.precision]
    | (_, r) => resStr r
  | ["parse-jll", hx] =>
    some <| match JM.jllDecode (hexToBytes hx) with
    | (st, .ok) => "ok " ++ sp [st.width, st.height, st.comps, st.precision]
    | (_, r) => resStr r
  | ["parse-bl", hx] => some <| resStr (JM.blDecode (hexToBytes hx)).2
  | ["parse-jls", hx] => some <| resStr (JlsH.header (hexToBytes hx)).2
  | ["parse-jlsn", hx] => some <| resStr (JlsH.nheader (hexToBytes hx)).2
  | ["parse-j2k", hx] =>
    some <| match J2kH.parse (hexToBytes hx) with
    | (st, .ok) =>
      match st.siz, st.cod, st.qcd with
      | some s, some c, some q =>
        "ok " ++ sp [s.xsiz, s.ysiz, s.xosiz, s.yosiz, s.xtsiz, s.ytsiz, s.csiz, st.coc.length, st.qcc.length,
                     st.npoc, st.nrgn, st.ncom, st.nmct, st.nmcc, st.nmco, st.tiles.length, (st.tiles.map (·.dataLen)).foldl (· + ·) 0]
          ++ " | " ++ sp c ++ " | " ++ sp q
      | _, _, _ => "bad-model"
    | (_, r) => resStr r
  | _ => none

end Drv.Parsers
