import GdcVerif.Driver.Util
import GdcVerif.Model.JpegMarkers
import GdcVerif.Model.JlsHeader
import GdcVerif.Model.J2kHeader
import GdcVerif.Model.J2kMct
import GdcVerif.Model.J2kPacketBody
/-! Driver ops of the C08/C09 parser models. -/
namespace Drv.Parsers
open Drv PC

def sp (xs : List Nat) : String := " ".intercalate (xs.map toString)

def resStr : Res → String
  | .ok => "ok"
  | .err => "err"
  | .panic _ => "panic"
  | .beyond => "beyond"

def semi (s : String) : List String := if s = "-" then [] else s.splitOn ";"

def pktIncl? (s : String) : Option PktBody.Incl :=
  if s = "x" then some { included := false, len := 0 }
  else s.toNat?.map fun n => { included := true, len := n }

def pkt? (s : String) : Option PktBody.Pkt :=
  match s.splitOn ":" with
  | [h, ds] =>
    match h.toNat? with
    | some h =>
      if ds = "e" then some { hdrLen := h, incls := none }
      else ((ds.splitOn ",").mapM pktIncl?).map fun cs => { hdrLen := h, incls := some cs }
    | none => none
  | _ => none

def pktResStr : PktBody.PktRes → String
  | .empty => "e"
  | .full r =>
    ",".intercalate (r.incls.map fun c => if c.included then toString c.len else "x") ++ ":" ++ toString r.body ++ ":" ++
      (if r.partialBuf then "1" else "0")

def mctSeg? (s : String) : Option Mct.MctSeg :=
  match s.splitOn ":" with
  | [i, a, e, p, vs] =>
    match i.toNat?, a.toNat?, e.toNat?, p.toNat?, parseInts vs with
    | some i, some a, some e, some p, some vs => some { index := i, arrayType := a, elemType := e, vals := vs, pad := p }
    | _, _, _, _, _ => none
  | _ => none

def mccSeg? (s : String) : Option Mct.MccSeg :=
  match s.splitOn ":" with
  | [i, ct, ids, outs, d, o, rv] =>
    match i.toNat?, ct.toNat?, parseInts ids, parseInts outs, d.toNat?, o.toNat?, rv.toNat? with
    | some i, some ct, some ids, some outs, some d, some o, some rv =>
      some { index := i, collType := ct, numComps := ids.length, compIDs := ids.map Int.toNat, outIDs := outs.map Int.toNat,
             decorr := d, offs := o, reversible := rv = 1 }
    | _, _, _, _, _, _, _ => none
  | _ => none

/-- ops:
  `pkt-body total mode hdrLen:d,d,x;…` → `ok l,l,x:body:partial;… big=k` | `err`   (decodePacket → gatherCBData hand-over; big = MiB allocated for code-block buffers)
  `mct-apply comps mct;… mcc;… mco;…` → `ok v0,…` | `panic`   (decoder-side Part-2 transform of a zero image, one value per component)
  `jm-readmarker hex`      → `ok <marker> <unread>` | `err`
  `jm-readsegment hex`     → `ok <payload length> <unread>` | `err`
  `jm-build b0,…,b15 n`    → `ok` | `err` | `panic`   (HuffmanTable.Build with len(Values) = n)
  `parse-sv1 hex`          → `ok w h comps precision` | `err` | `panic` | `beyond`
  `parse-jll hex`          → `ok w h comps precision` | `err` | `panic` | `beyond`
  `parse-bl hex`           → `err` | `panic` | `beyond`
  `parse-jls hex`, `parse-jlsn hex` → `err` | `panic` | `beyond`
  `parse-j2k hex`          → `ok xsiz ysiz xosiz yosiz xtsiz ytsiz csiz ncoc nqcc npoc nrgn ncom nmct nmcc nmco ntiles datalen | cod… | qcd…` | `err` | `panic` | `beyond`
-/
def step? : List String → Option String
  | ["jm-readmarker", hx] =>
    some <| match JM.readMarker (hexToBytes hx) with
    | some (m, rest) => s!"ok {m} {rest.length}"
    | none => "err"
  | ["jm-readsegment", hx] =>
    some <| match JM.readSegment (hexToBytes hx) with
    | some (pl, rest) => s!"ok {pl.length} {rest.length}"
    | none => "err"
  | ["jm-build", bits, n] =>
    some <| match parseInts bits, n.toNat? with
    | some bs, some n =>
      match JM.build (bs.map Int.toNat) n with
      | .ok () => "ok"
      | .error e => resStr e
    | _, _ => "bad-op"
  | ["parse-sv1", hx] =>
    some <| match JM.sv1Decode (hexToBytes hx) with
    | (st, .ok) => "ok " ++ sp [st.width, st.height, st.comps.length, st.precision]
    | (_, r) => resStr r
  | ["parse-jll", hx] =>
    some <| match JM.jllDecode (hexToBytes hx) with
    | (st, .ok) => "ok " ++ sp [st.width, st.height, st.comps, st.precision]
    | (_, r) => resStr r
  | ["parse-bl", hx] => some <| resStr (JM.blDecode (hexToBytes hx)).2
  | ["parse-jls", hx] => some <| resStr (JlsH.header (hexToBytes hx)).2
  | ["parse-jlsn", hx] => some <| resStr (JlsH.nheader (hexToBytes hx)).2
  | ["parse-j2k", hx] =>
    some <| match J2kH.parse (hexToBytes hx) with
    | (st, .ok) =>
      match st.siz, st.cod, st.qcd with
      | some s, some c, some q =>
        "ok " ++ sp [s.xsiz, s.ysiz, s.xosiz, s.yosiz, s.xtsiz, s.ytsiz, s.csiz, st.coc.length, st.qcc.length,
                     st.npoc, st.nrgn, st.ncom, st.nmct, st.nmcc, st.nmco, st.tiles.length, (st.tiles.map (·.dataLen)).foldl (· + ·) 0]
          ++ " | " ++ sp c ++ " | " ++ sp q
      | _, _, _ => "bad-model"
    | (_, r) => resStr r
  | ["pkt-body", total, mode, ps] =>
    some <| match total.toNat?, mode.toNat?, (ps.splitOn ";").mapM pkt? with
    | some total, some mode, some ps =>
      let m : PktBody.Mode := if mode = 1 then .resilient else if mode = 2 then .strict else .default
      match PktBody.decodeSeq total m 0 ps with
      | none => "err"
      | some rs => "ok " ++ ";".intercalate (rs.map pktResStr) ++ " big=" ++ toString ((PktBody.tileAllocs rs).foldl (· + ·) 0 / 1048576)
    | _, _, _ => "bad-op"
  | ["mct-apply", comps, a, b, c] =>
    some <| match comps.toNat?, (semi a).mapM mctSeg?, (semi b).mapM mccSeg?, (semi c).mapM parseInts with
    | some comps, some mct, some mcc, some mco =>
      match Mct.transform { mct := mct, mcc := mcc, mco := mco.map (·.map Int.toNat) } comps (List.replicate comps 0) with
      | some v => "ok " ++ intsToStr v
      | none => "panic"
    | _, _, _, _ => "bad-op"
  | _ => none

end Drv.Parsers
