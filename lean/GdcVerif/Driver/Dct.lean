import GdcVerif.Driver.Util
import GdcVerif.Model.Dct
import GdcVerif.Model.JpegAddr
import GdcVerif.Model.J2kQuant
import GdcVerif.Model.JpegAc
import GdcVerif.Model.JpegScan
/-! Driver ops of the lossy codecs work package (C11, C15, C12). -/
namespace Drv.Dct
open Drv

def okInts (xs : List Int) : String := "ok " ++ intsToStr xs
def okBytes (xs : List Int) : String := "ok " ++ bytesToHex (xs.map Int.toNat)
def bytesI (s : String) : List Int := (hexToBytes s).map Int.ofNat

def frameOf (w h n h0 v0 h1 v1 h2 v2 : Nat) : JpegAddr.Frame :=
  { w := w, h := h, comps := if n == 1 then [⟨h0, v0⟩] else [⟨h0, v0⟩, ⟨h1, v1⟩, ⟨h2, v2⟩] }

def step? : List String → Option String
  | ["jpg-scaleq", b, q] => some <| match nats? [b, q] with
    | some [b, q] =>
      okInts (Dct.scaleQuantTable (if b == 0 then Gen.JpegStd.DefaultLuminanceQuantTable else Gen.JpegStd.DefaultChrominanceQuantTable) q).toList
    | _ => "bad-op"
  | ["jpg-zigzag"] => some (okInts Gen.JpegStd.ZigZag.toList)
  | ["jpg-unzig"] => some <| match Dct.unzigInit with
    | some u => okInts u.toList
    | none => "panic"
  | ["jpg-dqt", comps, q] => some <| match nats? [comps, q] with
    | some [comps, q] => match Dct.baselineDQT comps q with
      | some ps => "ok " ++ " ".intercalate (ps.map (fun p => bytesToHex (p.map Int.toNat)))
      | none => "panic"
    | _ => "bad-op"
  | ["jpg-dqt12", q] => some <| match q.toNat? with
    | some q => match Dct.dqtPayload 0 (Dct.scaleQuantTable Gen.JpegStd.DefaultLuminanceQuantTable q) with
      | some p => okBytes p
      | none => "panic"
    | none => "bad-op"
  | ["jpg-fdct", hx] => some <|
    let a := (bytesI hx).toArray
    if a.size != 64 then "panic" else okInts (Dct.listOfBlk (Dct.fdctF (Dct.blkOfArray a)))
  | ["jpg-idct", cs, qs] => some <| match parseInts cs, parseInts qs with
    | some c, some q =>
      if c.length != 64 || q.length != 64 then "panic" else
      okBytes (Dct.listOfBlk (Dct.idctF (Dct.blkOfArray c.toArray) (Dct.tableF q.toArray)))
    | _, _ => "bad-op"
  | ["jpg-blockbound", b, q, hx] => some <| match nats? [b, q] with
    | some [b, q] =>
      let tab := Dct.tableF (Dct.scaleQuantTable (if b == 0 then Gen.JpegStd.DefaultLuminanceQuantTable else Gen.JpegStd.DefaultChrominanceQuantTable) q)
      let a := (bytesI hx).toArray
      if a.size != 64 then "panic" else
      let blk := Dct.blkOfArray a
      let out := Dct.blockF blk tab
      if (List.range 64).all (fun i => decide (Dct.withinF (out (i / 8) (i % 8) - blk (i / 8) (i % 8)) tab)) then "ok true" else "ok false"
    | _ => "bad-op"
  | ["jpg-clamp", v, lo, hi] => some <| match ints? [v, lo, hi] with
    | some [v, lo, hi] => s!"ok {Gen.JpegStd.Clamp v lo hi}"
    | _ => "bad-op"
  | ["jpg-divceil", a, b] => some <| match ints? [a, b] with
    | some [a, b] => s!"ok {Gen.JpegStd.DivCeil a b}"
    | _ => "bad-op"
  | ["jpg-cellmap", w, h, n, h0, v0, h1, v1, h2, v2, ci] => some <| match nats? [w, h, n, h0, v0, h1, v1, h2, v2, ci] with
    | some [w, h, n, h0, v0, h1, v1, h2, v2, ci] =>
      let f := frameOf w h n h0 v0 h1 v1 h2 v2
      if !JpegAddr.validFrame f then "err" else
      let pf := JpegAddr.parsedFrame f          -- a single component is decoded with factors 1x1
      match pf.comps[ci]? with
      | some c =>
        okInts ((List.range h).flatMap fun y => (List.range w).map fun x => JpegAddr.shown pf c x y)
      | none => "bad-op"
    | _ => "bad-op"
  -- the same observation when component ci is coded in a scan of its own (non-interleaved walk)
  | ["jpg-cellmap-ni", w, h, n, h0, v0, h1, v1, h2, v2, ci] => some <| match nats? [w, h, n, h0, v0, h1, v1, h2, v2, ci] with
    | some [w, h, n, h0, v0, h1, v1, h2, v2, ci] =>
      let f := frameOf w h n h0 v0 h1 v1 h2 v2
      if !JpegAddr.validFrame f || n == 1 then "err" else
      match f.comps[ci]? with
      | some c =>
        okInts ((List.range h).flatMap fun y => (List.range w).map fun x => JpegAddr.shownNI f c x y)
      | none => "bad-op"
    | _ => "bad-op"
  | ["jpg-rstfilter", hx] => some ("ok " ++ bytesToHex (JpegAddr.scanFilter (hexToBytes hx)))
  | ["jpg-rstsplit", ri, hx] => some <| match ri.toNat? with
    | some ri => "ok " ++ " ".intercalate ((JpegAddr.scanIntervals ri (hexToBytes hx)).map bytesToHex)
    | none => "bad-op"
  | ["jpg-mcuinterval", ri, n] => some <| match nats? [ri, n] with
    | some [ri, n] => let r := JpegAddr.mcuInterval ri n; s!"ok {r.1} {if r.2 then 1 else 0}"
    | _ => "bad-op"
  | ["jpg-category", v] => some <| match v.toInt? with
    | some v => let r := Dct.encodeCategory v; s!"ok {r.1} {r.2}"
    | none => "bad-op"
  | ["jpg-extend", n, b] => some <| match nats? [n, b] with
    | some [n, b] => s!"ok {Dct.extend n b}"
    | _ => "bad-op"
  | ["j2k-encstep", m, e, nb] => some <| match m.toNat?, e.toInt?, nb.toInt? with
    | some m, some e, some nb => s!"ok {J2kQuant.encodeStepDyadic m e nb}"
    | _, _, _ => "bad-op"
  | ["jpg-ycc2rgb", y, cb, cr] => some <| match ints? [y, cb, cr] with
    | some [y, cb, cr] => let r := Gen.JpegBaseline.ycbcrToRGB y cb cr; s!"ok {r.1} {r.2.1} {r.2.2}"
    | _ => "bad-op"
  | ["jpg-rgb2ycc", r, g, b] => some <| match ints? [r, g, b] with
    | some [r, g, b] => let v := Gen.JpegBaseline.rgbToYCbCr.entry default 0 0 0 8 r g b 0 0 0; s!"ok {v.1} {v.2.1} {v.2.2}"
    | _ => "bad-op"
  | ["jpg-acblock", dc, acs] => some <| match dc.toInt?, parseInts acs with
    | some dc, some ac =>
      match JpegAc.decodeAC (JpegAc.encAC ac 0) with
      | none => "err"
      | some ac' =>
        -- natural-order coefficients: coef[ZigZag[k]] = zz[k]
        let zz := dc :: ac'
        let coef := (List.range 64).foldl (fun (a : Option (Array Int)) (k : Nat) => do
          let a ← a
          let z ← Dct.getI Gen.JpegStd.ZigZag k
          let v ← zz[k]?
          Dct.setI a z v) (some (Array.replicate 64 0))
        match coef with
        | some c => okBytes (Dct.listOfBlk (Dct.idctF (Dct.blkOfArray c) (fun _ _ => 1)))
        | none => "panic"
    | _, _ => "bad-op"
  | ["jpg-acsyms", acs] => some <| match parseInts acs with
    | some ac => "ok " ++ " ".intercalate ((JpegAc.encAC ac 0).map (fun s => s!"{s.1}:{s.2}"))
    | none => "bad-op"
  | ["jpg-dri", a, b] => some <| match ints? [a, b] with
    | some [a, b] => s!"ok {Gen.JpegBaseline.parseDRI.restartInt a b}"
    | _ => "bad-op"
  | ["jpg-rgbimage", w, h, q, hx] => some <| match nats? [w, h, q] with
    | some [w, h, q] =>
      let px := (bytesI hx).toArray
      if px.size != w * h * 3 then "bad-op" else
      let img : Dct.Rgb := fun y x => ((px[(y * w + x) * 3]?).getD 0, (px[(y * w + x) * 3 + 1]?).getD 0, (px[(y * w + x) * 3 + 2]?).getD 0)
      let qY := Dct.tableF (Dct.scaleQuantTable Gen.JpegStd.DefaultLuminanceQuantTable q)
      let qC := Dct.tableF (Dct.scaleQuantTable Gen.JpegStd.DefaultChrominanceQuantTable q)
      okBytes ((List.range h).flatMap fun y => (List.range w).flatMap fun x =>
        let o := Dct.decodedRgb img w h qY qC x y
        [o.1, o.2.1, o.2.2])
    | _ => "bad-op"
  | ["jpg-greyimage", w, h, q, hx] => some <| match nats? [w, h, q] with
    | some [w, h, q] =>
      let px := (bytesI hx).toArray
      if px.size != w * h then "bad-op" else
      let img : Dct.Blk := fun y x => (px[y * w + x]?).getD 0
      let qY := Dct.tableF (Dct.scaleQuantTable Gen.JpegStd.DefaultLuminanceQuantTable q)
      okBytes ((List.range h).flatMap fun y => (List.range w).map fun x => Dct.decodedPixel img w h qY x y)
    | _ => "bad-op"
  | ["jpg-scan-enc", comps, w, h, q, hx] => some <| match nats? [comps, w, h, q] with
    | some [comps, w, h, q] =>
      let px := (bytesI hx).toArray
      if px.size != w * h * comps then "bad-op" else
      let qY := Dct.tableF (Dct.scaleQuantTable Gen.JpegStd.DefaultLuminanceQuantTable q)
      let qC := Dct.tableF (Dct.scaleQuantTable Gen.JpegStd.DefaultChrominanceQuantTable q)
      let planes : List (Dct.Blk × Dct.Blk) :=
        if comps == 1 then
          let img : Dct.Blk := fun y x => (px[y * w + x]?).getD 0
          [(fun row col => img (Dct.edgeIdx 0 row h).toNat (Dct.edgeIdx 0 col w).toNat, qY)]
        else
          let img : Dct.Rgb := fun y x => ((px[(y * w + x) * 3]?).getD 0, (px[(y * w + x) * 3 + 1]?).getD 0, (px[(y * w + x) * 3 + 2]?).getD 0)
          [(Dct.planeOf img w h 0, qY), (Dct.planeOf img w h 1, qC), (Dct.planeOf img w h 2, qC)]
      let bw := (w + 7) / 8
      let bh := (h + 7) / 8
      let zz : Dct.Blk → List Int := fun qc => (List.range 64).map fun (k : Nat) =>
        match Dct.getI Gen.JpegStd.ZigZag (k : Int) with
        | some z => qc (z.toNat / 8) (z.toNat % 8)
        | none => 0
      let blocks : List (Nat × JpegScan.Block) := (List.range (bw * bh)).flatMap fun b =>
        planes.zipIdx.map fun (pq, ci) =>
          let z := zz (Dct.quantF (Dct.fdctF (Dct.blockOfPlane pq.1 (b % bw) (b / bw))) pq.2)
          (ci, (z.headD 0, z.tail))
      let syms := JpegScan.encBlocks (fun _ => 0) blocks
      "ok " ++ " ".intercalate (syms.map fun s =>
        " ".intercalate (s!"D{s.1.1}:{s.1.2}" :: s.2.map fun a => s!"A{a.1}:{a.2}"))
    | _ => "bad-op"
  | ["jpg-detect", hx] => some s!"ok {Dct.detectBitDepth (hexToBytes hx)}"
  | ["jpg-rstfilter-tie"] => some "ok true"
  | ["jpg-repack-len", w, h] => some <| match nats? [w, h] with
    | some [w, h] => s!"ok {JpegAddr.repackDst w (w - 1) (h - 1) + 1}"
    | _ => "bad-op"
  | ["j2k-decstep", w, p, g] => some <| match nats? [w, p, g] with
    | some [w, p, g] =>
      let em := J2kQuant.unpack w
      s!"ok {J2kQuant.stepNum em.2} {J2kQuant.stepExp em.1 p g}"
    | _ => "bad-op"
  | ["j2k-nbands", l] => some <| match l.toNat? with
    | some l =>
      let idxs := (List.range l).flatMap fun (r : Nat) => (List.range 3).map fun (b : Nat) =>
        Gen.J2kQuant.subbandIndex (l : Int) ((r : Int) + 1) ((b : Int) + 1)
      s!"ok {(0 :: idxs).length}"
    | none => "bad-op"
  | ["j2k-qcd-tie"] => some "ok true"
  | ["j2k-clamp", p, s, v] => some <| match ints? [p, s, v] with
    | some [p, s, v] =>
      let d : Gen.J2kQuant.Decoder := { width := 1, height := 1, components := 1, bitDepth := p, isSigned := s != 0, resilient := false, strict := false }
      if p ≤ 8 then s!"ok {Gen.J2kQuant.clampGrey8 d v 0}" else s!"ok {J2kQuant.val16 (Gen.J2kQuant.clampGrey16 d v 0 0)}"
    | _ => "bad-op"
  | _ => none

end Drv.Dct
