import GdcVerif.Driver.Util
import GdcVerif.Model.C17Params
import GdcVerif.Gen.JpegLs
import GdcVerif.Gen.ValidateJpegBaseline
import GdcVerif.Gen.ValidateJpegExtended
import GdcVerif.Gen.ValidateJpegLossless
import GdcVerif.Gen.ValidateJpegSv1
import GdcVerif.Gen.ValidateJpegLsNear
import GdcVerif.Gen.ValidateJ2k
import GdcVerif.Gen.ValidateHtj2k
/-!
  C17 driver ops. `val-<encoder> <len> <args…>` evaluates the GENERATED validation prefix
  (`accept` / `reject`); `norm-<params> <fields…>` evaluates the generated / hand-modelled
  `Validate` normaliser (`ok <fields…>`).
-/
namespace Drv.C17
open Drv Gen

def ar (b : Bool) : String := if b then "accept" else "reject"
def b01 (x : Int) : Bool := x != 0

def step? : List String → Option String
  | "val-baseline" :: a => some <| match ints? a with
    | some [len, w, h, c, q] => ar (ValidateJpegBaseline.Encode_accepts len w h c q)
    | _ => "bad-op"
  | "val-extended" :: a => some <| match ints? a with
    | some [len, w, h, c, p, q] => ar (ValidateJpegExtended.Encode_accepts len w h c p q)
    | _ => "bad-op"
  | "val-extsimple" :: a => some <| match ints? a with
    | some [len, w, h, c, p, q] => ar (ValidateJpegExtended.EncodeSimple_accepts len w h c p q)
    | _ => "bad-op"
  | "val-lossless" :: a => some <| match ints? a with
    | some [len, w, h, c, p, pred] => ar (ValidateJpegLossless.Encode_accepts len w h c p pred)
    | _ => "bad-op"
  | "val-sv1" :: a => some <| match ints? a with
    | some [len, w, h, c, p] => ar (ValidateJpegSv1.Encode_accepts len w h c p)
    | _ => "bad-op"
  | "val-jpegls" :: a => some <| match ints? a with
    | some [len, w, h, c, p] => ar (JpegLs.Encode_accepts len w h c p)
    | _ => "bad-op"
  | "val-jpeglsnear" :: a => some <| match ints? a with
    | some [len, w, h, c, p, near] => ar (ValidateJpegLsNear.Encode_accepts len w h c p near)
    | _ => "bad-op"
  | "val-j2k" :: a => some <| match ints? a with
    | some [len, w, h, c, bd, tw, th, nl, ll, cbw, cbh, pw, ph, q, prog, lay] =>
      let p : ValidateJ2k.EncodeParams := { (default : ValidateJ2k.EncodeParams) with
        Width := w, Height := h, Components := c, BitDepth := bd, TileWidth := tw, TileHeight := th,
        NumLevels := nl, Lossless := b01 ll, CodeBlockWidth := cbw, CodeBlockHeight := cbh,
        PrecinctWidth := pw, PrecinctHeight := ph, Quality := q, ProgressionOrder := prog, NumLayers := lay,
        EnableMCT := true }
      ar (ValidateJ2k.Encoder.Encode_accepts { (default : ValidateJ2k.Encoder) with params := p } len)
    | _ => "bad-op"
  | "norm-baseline" :: a => some <| match ints? a with
    | some [q] => let r := ValidateJpegBaseline.JPEGBaselineParameters.Validate { Quality := q }
      s!"{ar r.2} {r.1.Quality}"
    | _ => "bad-op"
  | "norm-extended" :: a => some <| match ints? a with
    | some [q, bd] => let r := ValidateJpegExtended.JPEGExtendedParameters.Validate { Quality := q, BitDepth := bd }
      s!"{ar r.2} {r.1.Quality} {r.1.BitDepth}"
    | _ => "bad-op"
  | "norm-lossless" :: a => some <| match ints? a with
    | some [pr] => let r := ValidateJpegLossless.JPEGLosslessParameters.Validate { Predictor := pr }
      s!"{ar r.2} {r.1.Predictor}"
    | _ => "bad-op"
  | "norm-near" :: a => some <| match ints? a with
    | some [n] => let r := ValidateJpegLsNear.JPEGLSNearLosslessParameters.Validate { NEAR := n }
      s!"{ar r.2} {r.1.NEAR}"
    | _ => "bad-op"
  | "norm-htj2k" :: a => some <| match ints? a with
    | some [q, bw, bh, nl] =>
      let r := ValidateHtj2k.Parameters.Validate { Quality := q, BlockWidth := bw, BlockHeight := bh, NumLevels := nl }
      s!"{ar r.2} {r.1.Quality} {r.1.BlockWidth} {r.1.BlockHeight} {r.1.NumLevels}"
    | _ => "bad-op"
  | "norm-j2klossless" :: a => some <| match ints? a with
    | some [nl, lay, rate, rlen, prog, trpos, app] =>
      let r := C17Model.J2kLosslessParams.Validate { NumLevels := nl, NumLayers := lay, Rate := rate, rateLevelsLen := rlen, ProgressionOrder := prog, targetRatioPos := b01 trpos, AppendLosslessLayer := b01 app }
      s!"accept {r.NumLevels} {r.NumLayers} {r.Rate} {r.rateLevelsLen} {r.ProgressionOrder}"
    | _ => "bad-op"
  | "norm-j2klossy" :: a => some <| match ints? a with
    | some [rate, rlen, nl, lay] =>
      let r := C17Model.J2kLossyParams.Validate { Rate := rate, rateLevelsLen := rlen, NumLevels := nl, NumLayers := lay }
      s!"accept {r.Rate} {r.rateLevelsLen} {r.NumLevels} {r.NumLayers}"
    | _ => "bad-op"
  | _ => none

end Drv.C17
