/-! Shared helpers of the line-protocol driver (hex, integer lists). Core Lean only. -/
namespace Drv

def hexVal (c : Char) : Nat :=
  if '0' ≤ c ∧ c ≤ '9' then c.toNat - '0'.toNat
  else if 'a' ≤ c ∧ c ≤ 'f' then c.toNat - 'a'.toNat + 10
  else if 'A' ≤ c ∧ c ≤ 'F' then c.toNat - 'A'.toNat + 10 else 0

/-- "-" is the empty byte string -/
def hexToBytes (s : String) : List Nat :=
  let rec go : List Char → List Nat → List Nat
    | a :: b :: rest, acc => go rest ((hexVal a * 16 + hexVal b) :: acc)
    | _, acc => acc.reverse
  if s = "-" then [] else go s.toList []

def hexDigit (n : Nat) : Char := "0123456789abcdef".toList.getD n '0'

def bytesToHex (bs : List Nat) : String :=
  if bs.isEmpty then "-" else
  String.ofList (bs.foldr (fun b acc => hexDigit (b / 16 % 16) :: hexDigit (b % 16) :: acc) [])

/-- comma separated integers; "-" is the empty list -/
def parseInts (s : String) : Option (List Int) :=
  if s = "-" then some [] else (s.splitOn ",").mapM String.toInt?

def intsToStr (xs : List Int) : String :=
  if xs.isEmpty then "-" else ",".intercalate (xs.map toString)

def nats? (a : List String) : Option (List Nat) := a.mapM String.toNat?
def ints? (a : List String) : Option (List Int) := a.mapM String.toInt?

end Drv
