import GdcVerif.Driver.Util
import GdcVerif.Spec.T81H
import GdcVerif.Spec.T81HStream
import GdcVerif.Spec.T81HEnc
import GdcVerif.Model.JpegLossless
/-!
  Driver ops of the T.81 Annex H specification (C13):
    t81-px P sel row col ra rb rc   → ok px
    t81-sample x px                 → ok diff ssss extraValue extraCount recon
    t81-canon b1,…,b16 values(hex)  → ok sym:code:len,…   (Annex C)
    t81-td b                        → ok td | err
  and of the two decoders' selector handling, phrased as the outcome of decoding the 1x1 probe
  stream of c13SelectorProbe (sample 77; tables defined at destinations 0 and b>>4 when ≤ 3):
    jll-selector b / sv1-selector b → ok 77 | err | panic
-/
namespace Drv.T81H
open Drv

def natsCsv? (s : String) : Option (List Nat) :=
  if s = "-" then some [] else (s.splitOn ",").mapM String.toNat?

def step? : List String → Option String
  | ["t81-px", p, sel, row, col, ra, rb, rc] =>
    some <| match nats? [p, sel, row, col], ints? [ra, rb, rc] with
    | some [p, sel, row, col], some [ra, rb, rc] => s!"ok {T81H.px p 0 sel row col ra rb rc}"
    | _, _ => "bad-op"
  | ["t81-sample", x, px] =>
    some <| match ints? [x, px] with
    | some [x, px] =>
      let d := T81H.diff x px
      let e := T81H.encodeSample x px
      s!"ok {d} {e.1} {e.2.1} {e.2.2} {T81H.decodeSample px e.1 e.2.1}"
    | _ => "bad-op"
  | ["t81-canon", bits, vals] =>
    some <| match natsCsv? bits with
    | some bits =>
      let tbl := T81H.codeTable bits (hexToBytes vals)
      let ent := (List.range 256).filterMap fun s =>
        match tbl.find? (fun e => e.1 == s) with
        | some (_, c, l) => some s!"{s}:{c}:{l}"
        | none => none
      "ok " ++ ",".intercalate ent
    | none => "bad-op"
  | ["t81-stream-dec", hx] =>      -- specDecode → ok w h P plane|plane|… | err
    some <| match T81H.specDecode (hexToBytes hx) with
    | some im => s!"ok {im.width} {im.height} {im.precision} " ++ "|".intercalate (im.planes.map intsToStr)
    | none => "err"
  | ["t81-stream-enc", p, w, h, sel, ids, td, tables, planes] =>
    -- specEncode; tables = th/b1.b2.….b16/hexvals joined by '+', planes = comma lists joined by '|'  → ok hex | err
    some <| match nats? [p, w, h, sel], natsCsv? ids, natsCsv? td with
    | some [p, w, h, sel], some ids, some td =>
      let tabs := (tables.splitOn "+").mapM fun t =>
        match t.splitOn "/" with
        | [th, bits, vals] => do
          let th ← th.toNat?
          let bits ← (bits.splitOn ".").mapM String.toNat?
          pure (th, bits, hexToBytes vals)
        | _ => none
      match tabs, (planes.splitOn "|").mapM parseInts with
      | some tabs, some pls =>
        match T81H.specEncode p w h pls { sel := sel, ids := ids, td := td, tables := tabs } with
        | some bs => "ok " ++ bytesToHex bs
        | none => "err"
      | _, _ => "bad-op"
    | _, _, _ => "bad-op"
  | ["t81-td", b] =>
    some <| match b.toNat? with
    | some b => match T81H.td b with
      | some t => s!"ok {t}"
      | none => "err"
    | none => "bad-op"
  | ["jll-selector", b] =>
    some <| match b.toNat? with
    | some b => match JLL.jllSelector b with
      | .ok _ => "ok 77"        -- the table at the selected destination b>>4 ∈ 0..3 is defined by the probe
      | .err => "err"
      | .panic => "panic"
    | none => "bad-op"
  | ["sv1-selector", b] =>
    some <| match b.toNat? with
    | some b => match JLL.sv1Selector b with
      | .ok _ => "ok 77"        -- likewise
      | .err => "err"
      | .panic => "panic"
    | none => "bad-op"
  | _ => none

end Drv.T81H
