import GdcVerif.Driver.Util
import GdcVerif.Model.Rct
import GdcVerif.Model.Dwt53
import GdcVerif.Model.Mqc
import GdcVerif.Gen.J2kT1
import GdcVerif.Model.T1
import GdcVerif.Model.T1Layered
import GdcVerif.Model.T1Pipe
/-! Driver ops of C20: RCT, 5/3 DWT, MQ coder. -/
namespace Drv.C20
open Drv

def triple (t : Int × Int × Int) : String := s!"ok {t.1} {t.2.1} {t.2.2}"

def vecOut {n : Nat} : Option (Vector Int n) → String
  | none => "panic"
  | some v => "ok " ++ intsToStr v.toList

def bool? : String → Option Bool
  | "1" => some true
  | "0" => some false
  | _ => none

def natsOut (xs : List Nat) : String := intsToStr (xs.map Int.ofNat)

/-- MQ encoder script: see `go/cmd/vharness/c20.go` (c20MqScript) for the op codes -/
def runScript : List Int → Mqc.Enc → Option Mqc.Enc
  | [], e => some e
  | 0 :: cx :: bit :: rest, e => (Mqc.encode e bit.toNat cx.toNat).bind (runScript rest)
  | 1 :: rest, e => (Mqc.flushToOutput e).bind (runScript rest)
  | 2 :: rest, e => (Mqc.ertermEnc e).bind (runScript rest)
  | 3 :: rest, e => runScript rest (Mqc.restartInitEnc e)
  | 4 :: rest, e => (Mqc.segmarkEnc e).bind (runScript rest)
  | 5 :: rest, e => runScript rest (Mqc.bypassInitEnc e)
  | 6 :: bit :: rest, e => (Mqc.bypassEncode e bit.toNat).bind (runScript rest)
  | 7 :: er :: rest, e => (Mqc.bypassFlushEnc e (er != 0)).bind (runScript rest)
  | 9 :: cx :: st :: rest, e => (Mqc.setContextState e cx.toNat st.toNat).bind (runScript rest)
  | 10 :: rest, e => runScript rest (Mqc.resetContexts e)
  | _, _ => none
termination_by l => l.length
decreasing_by all_goals simp_wf <;> omega

def step? : List String → Option String
  | ["rct-fwd", r, g, b] => some <| match ints? [r, g, b] with
    | some [r, g, b] => triple (Gen.J2kColor.RCTForward r g b)
    | _ => "bad-op"
  | ["rct-inv", y, cb, cr] => some <| match ints? [y, cb, cr] with
    | some [y, cb, cr] => triple (Gen.J2kColor.RCTInverse y cb cr)
    | _ => "bad-op"
  | ["rct-fwd32", r, g, b] => some <| match ints? [r, g, b] with
    | some [r, g, b] => triple (Rct.forward32 r g b)
    | _ => "bad-op"
  | ["rct-inv32", y, cb, cr] => some <| match ints? [y, cb, cr] with
    | some [y, cb, cr] => triple (Rct.inverse32 y cb cr)
    | _ => "bad-op"
  | ["dwt-win", w, h, x0, y0] => some <| match ints? [w, h, x0, y0] with
    | some [w, h, x0, y0] =>
      let r := Gen.J2kWavelet.nextLowpassWindow w h x0 y0
      s!"ok {r.1} {r.2.1}"
    | _ => "bad-op"
  | ["dwt-fwd1", ev, xs] => some <| match bool? ev, parseInts xs with
    | some ev, some xs => vecOut (Dwt53.forward53_1d Go.wrap32 (Vector.mk xs.toArray rfl) ev)
    | _, _ => "bad-op"
  | ["dwt-inv1", ev, xs] => some <| match bool? ev, parseInts xs with
    | some ev, some xs => vecOut (Dwt53.inverse53_1d Go.wrap32 (Vector.mk xs.toArray rfl) ev)
    | _, _ => "bad-op"
  | ["dwt-fwd", w, h, l, x0, y0, xs] => some <| match nats? [w, h, l], ints? [x0, y0], parseInts xs with
    | some [w, h, l], some [x0, y0], some xs =>
      vecOut (Dwt53.forwardMultilevel Go.wrap32 (Vector.mk xs.toArray rfl) w h l x0 y0)
    | _, _, _ => "bad-op"
  | ["dwt-inv", w, h, l, x0, y0, xs] => some <| match nats? [w, h, l], ints? [x0, y0], parseInts xs with
    | some [w, h, l], some [x0, y0], some xs =>
      vecOut (Dwt53.inverseMultilevel Go.wrap32 (Vector.mk xs.toArray rfl) w h l x0 y0)
    | _, _, _ => "bad-op"
  -- decisions: comma list of `contextID*2 + bit`
  | ["mq-enc", n, ds] => some <| match n.toNat?, parseInts ds with
    | some n, some ds =>
      match Mqc.encodeBytes n (ds.map fun d => ((d % 2).toNat, (d / 2).toNat)) with
      | some bs => "ok " ++ bytesToHex bs
      | none => "panic"
    | _, _ => "bad-op"
  | ["mq-dec", n, hx, cxs] => some <| match n.toNat?, parseInts cxs with
    | some n, some cxs =>
      match Mqc.decodeBits (hexToBytes hx) n (cxs.map Int.toNat) with
      | some bs => "ok " ++ natsOut bs
      | none => "panic"
    | _, _ => "bad-op"
  | ["mq-script", n, ops] => some <| match n.toNat?, parseInts ops with
    | some n, some ops =>
      match runScript ops (Mqc.Enc.new n) with
      | some e => "ok " ++ bytesToHex (Mqc.getBuffer e)
      | none => "panic"
    | _, _ => "bad-op"
  | ["t1-enc", w, h, o, sty, np, xs] => some <| match nats? [w, h, o, sty, np], parseInts xs with
    | some [w, h, o, sty, np], some xs =>
      match T1.encodeBlock w h o sty xs np with
      | .ok bs => "ok " ++ bytesToHex bs
      | .err => "err"
      | .panic => "panic"
    | _, _ => "bad-op"
  | ["t1-dec", w, h, o, sty, np, mb, hx] => some <| match nats? [w, h, o, sty, np], mb.toInt? with
    | some [w, h, o, sty, np], some mb =>
      match T1.decodeBlock w h o sty np mb (hexToBytes hx) with
      | .ok xs => "ok " ++ intsToStr xs
      | .err => "err"
      | .panic => "panic"
    | _, _ => "bad-op"
  | ["t1-encf", fb, w, h, o, sty, np, xs] => some <| match nats? [fb, w, h, o, sty, np], parseInts xs with
    | some [fb, w, h, o, sty, np], some xs =>
      match T1.encodeBlockF fb w h o sty xs np with
      | .ok bs => "ok " ++ bytesToHex bs
      | .err => "err"
      | .panic => "panic"
    | _, _ => "bad-op"
  | ["t1-decoj", w, h, o, sty, np, mb, hx] => some <| match nats? [w, h, o, sty, np], mb.toInt? with
    | some [w, h, o, sty, np], some mb =>
      match T1.decodeBlockOJ w h o sty np mb (hexToBytes hx) with
      | .ok xs => "ok " ++ intsToStr xs ++ " | " ++ intsToStr (xs.map T1.halveT)
      | .err => "err"
      | .panic => "panic"
    | _, _ => "bad-op"
  | ["t1-lenc", w, h, o, sty, np, xs] => some <| match nats? [w, h, o, sty, np], parseInts xs with
    | some [w, h, o, sty, np], some xs =>
      match T1.encodeLayered w h o sty xs np with
      | .ok (rates, mb, bs) => s!"ok {natsOut rates} {mb} {bytesToHex bs}"
      | .err => "err"
      | .panic => "panic"
    | _, _ => "bad-op"
  | ["t1-ldec", w, h, o, sty, mb, lens, hx] => some <| match nats? [w, h, o, sty], mb.toInt?, parseInts lens with
    | some [w, h, o, sty], some mb, some lens =>
      match T1.decodeLayered w h o sty mb (lens.map Int.toNat) (hexToBytes hx) with
      | .ok xs => "ok " ++ intsToStr xs
      | .err => "err"
      | .panic => "panic"
    | _, _, _ => "bad-op"
  | ["t1-lut", name, i] => some <| match i.toNat? with
    | some i =>
      let t := match name with
        | "zc" => Gen.J2kT1.lutCtxnoZc
        | "sc" => Gen.J2kT1.lutCtxnoSc
        | _ => Gen.J2kT1.lutSpb
      match t[i]? with
      | some v => s!"ok {v}"
      | none => "panic"
    | none => "bad-op"
  | ["mq-raw", hx, n] => some <| match n.toNat? with
    | some n =>
      let rec go : Nat → Mqc.Dec → List Nat → Option (List Nat)
        | 0, _, acc => some acc.reverse
        | k + 1, d, acc => match Mqc.rawDecode d with
          | none => none
          | some (b, d) => go k d (b :: acc)
      match go n (Mqc.Dec.newRaw (hexToBytes hx)) [] with
      | some bs => "ok " ++ natsOut bs
      | none => "panic"
    | none => "bad-op"
  | _ => none

end Drv.C20
