import GdcVerif.Driver.Util
import GdcVerif.Model.JpegLossless
import GdcVerif.Model.JpegLosslessScan
import GdcVerif.Model.OptimalHuffman
import GdcVerif.Model.JpegLosslessStream
/-!
  Driver ops of the JPEG Lossless / SV1 work package (kernel level).
    jll-pred p ra rb rc                      → ok v            Gen.Predictor
    jll-cat d                                → ok cat bits     encodeLosslessDifference
    jll-ldiff s p / jll-diffcat d            → ok v            losslessDifference / diffCategory (hook ops)
    jll-ext cat hex                          → ok v | err      ReadBits(cat) over hex, then receiveLosslessDifference
    jll-huffbits v:n,v:n,…                   → ok hex          WriteBits*; Flush
    jll-readbits hex n,n,…  (0 = ReadBit)    → ok v,v,… | err  ReadBit / ReadBits sequence
    jll-build b1,…,b16 values(hex)           → ok | err        HuffmanTable.Build
    jll-canon b1,…,b16 values(hex)           → ok sym:code:len,…   BuildHuffmanCodes
    jll-hdec b1,…,b16 values(hex) hex k      → ok s,s,… | err   BuildStandardHuffmanTable + k × Decode
-/
namespace Drv.JpegLossless
open Drv JLL

def pairs? (s : String) : Option (List (Nat × Nat)) :=
  if s = "-" then some [] else
  (s.splitOn ",").mapM fun t =>
    match t.splitOn ":" with
    | [a, b] => do let x ← a.toNat?; let y ← b.toNat?; pure (x, y)
    | _ => none

def natsCsv? (s : String) : Option (List Nat) :=
  if s = "-" then some [] else (s.splitOn ",").mapM String.toNat?

def natsToStr (xs : List Nat) : String :=
  if xs.isEmpty then "-" else ",".intercalate (xs.map toString)

def readSeq (d : HuffDec) : List Nat → List Nat → Option (List Nat)
  | [], acc => some acc.reverse
  | n :: rest, acc =>
    if n = 0 then
      match d.readBit with
      | none => none
      | some (b, d') => readSeq d' rest ((if b then 1 else 0) :: acc)
    else
      match d.readBits n with
      | none => none
      | some (v, d') => readSeq d' rest (v :: acc)

def decodeSeq (t : Table) (d : HuffDec) : Nat → List Nat → Outcome (List Nat)
  | 0, acc => .ok acc.reverse
  | k + 1, acc =>
    match d.decode t with
    | .ok (s, d') => decodeSeq t d' k (s :: acc)
    | .err => .err
    | .panic => .panic

def outStr : Outcome (List Nat) → String
  | .ok bs => "ok " ++ bytesToHex bs
  | .err => "err"
  | .panic => "panic"

def scanEnc (sv1 : Bool) (p pred w h nc bits vals pix : String) : String :=
  match nats? [p, pred, w, h, nc], natsCsv? bits with
  | some [p, pred, w, h, nc], some bits =>
    let values := (hexToBytes vals).toArray
    outStr (do
      let s ← pixelsToSamples p w h nc (hexToBytes pix).toArray
      let _ ← Table.build bits values
      encodeScan sv1 p pred w h nc (buildHuffmanCodes bits values) s)
  | _, _ => "bad-op"

def scanDec (sv1 : Bool) (p pred w h nc bits vals scan : String) : String :=
  match nats? [p, pred, w, h, nc], natsCsv? bits with
  | some [p, pred, w, h, nc], some bits =>
    let values := (hexToBytes vals).toArray
    outStr (do
      let t ← Table.build bits values
      let s ← decodeScan sv1 p pred w h nc t (hexToBytes scan)
      samplesToPixels p w h nc s)
  | _, _ => "bad-op"

def streamDec (sv1 : Bool) (hx : String) : String :=
  match JLL.Stream.decode sv1 (hexToBytes hx) with
  | .ok (pix, w, h, nc, p) => s!"ok {w} {h} {nc} {p} " ++ bytesToHex pix
  | .err => "err"
  | .panic => "panic"

def step? : List String → Option String
  | ["jll-pred", p, ra, rb, rc] =>
    some <| match ints? [p, ra, rb, rc] with
    | some [p, ra, rb, rc] => s!"ok {Gen.JpegLossless.Predictor p ra rb rc}"
    | _ => "bad-op"
  | ["jll-opt", fs] =>      -- jll-opt f0,…,f255 → ok b1,…,b16 values(hex) | err | panic   BuildOptimalHuffmanTable
    some <| match natsCsv? fs with
    | some fs =>
      match JLL.Opt.buildOptimal fs with
      | .ok (bits, vals) => "ok " ++ intsToStr bits ++ " " ++ bytesToHex vals
      | .err => "err"
      | .panic => "panic"
    | none => "bad-op"
  | ["jll-ldiff", a, b] =>
    some <| match ints? [a, b] with
    | some [a, b] => s!"ok {Gen.JpegLossless.losslessDifference a b}"
    | _ => "bad-op"
  | ["jll-diffcat", d] =>
    some <| match d.toInt? with
    | some d => s!"ok {diffCategory d}"
    | none => "bad-op"
  | ["jll-cat", d] =>
    some <| match d.toInt? with
    | some d => let r := encodeLosslessDifference d; s!"ok {r.1} {r.2}"
    | none => "bad-op"
  | ["jll-ext", cat, hx] =>
    some <| match cat.toNat? with
    | some cat =>
      let d : HuffDec := { data := hexToBytes hx }
      if cat = 16 then s!"ok {receiveLosslessDifference 16 0}"
      else match d.readBits cat with
        | none => "err"
        | some (v, _) => s!"ok {receiveLosslessDifference cat v}"
    | none => "bad-op"
  | ["jll-huffbits", ws] =>
    some <| match pairs? ws with
    | some ws => "ok " ++ bytesToHex (writeAll {} ws)
    | none => "bad-op"
  | ["jll-readbits", hx, ns] =>
    some <| match natsCsv? ns with
    | some ns =>
      match readSeq { data := hexToBytes hx } ns [] with
      | some vs => "ok " ++ natsToStr vs
      | none => "err"
    | none => "bad-op"
  | ["jll-build", bits, vals] =>        -- HuffmanTable.Build: ok | err
    some <| match natsCsv? bits with
    | some bits =>
      match Table.build bits (hexToBytes vals).toArray with
      | .ok _ => "ok"
      | .err => "err"
      | .panic => "panic"
    | none => "bad-op"
  | ["jll-canon", bits, vals] =>        -- BuildHuffmanCodes (independent of Build)
    some <| match natsCsv? bits with
    | some bits =>
      let values := (hexToBytes vals).toArray
      let cs := buildHuffmanCodes bits values
      let ent := (List.range 256).filterMap fun s =>
        match cs[s]? with
        | some (c, l) => if l > 0 then some s!"{s}:{c}:{l}" else none
        | none => none
      "ok " ++ (if ent.isEmpty then "-" else ",".intercalate ent)
    | none => "bad-op"
  | ["jll-hdec", bits, vals, hx, k] =>  -- BuildStandardHuffmanTable (Build error dropped) + k × Decode
    some <| match natsCsv? bits, k.toNat? with
    | some bits, some k =>
      let t := Table.buildStandard bits (hexToBytes vals).toArray
      match decodeSeq t { data := hexToBytes hx } k [] with
      | .ok ss => "ok " ++ natsToStr ss
      | .err => "err"
      | .panic => "panic"
    | _, _ => "bad-op"
  | ["jll-stream-enc", w, h, nc, p, pred, pix] =>      -- lossless.Encode → ok hex | err | panic
    some <| match nats? [w, h, nc, p, pred] with
    | some [w, h, nc, p, pred] => outStr (JLL.Stream.encode false (hexToBytes pix).toArray w h nc p pred)
    | _ => "bad-op"
  | ["sv1-stream-enc", w, h, nc, p, pix] =>            -- lossless14sv1.Encode
    some <| match nats? [w, h, nc, p] with
    | some [w, h, nc, p] => outStr (JLL.Stream.encode true (hexToBytes pix).toArray w h nc p 1)
    | _ => "bad-op"
  | ["jll-stream-dec", hx] => some (streamDec false hx)  -- lossless.Decode → ok w h nc P hex | err | panic
  | ["sv1-stream-dec", hx] => some (streamDec true hx)
  | ["jll-scan-enc", p, pred, w, h, nc, bits, vals, pix] => some (scanEnc false p pred w h nc bits vals pix)
  | ["sv1-scan-enc", p, w, h, nc, bits, vals, pix] => some (scanEnc true p "1" w h nc bits vals pix)
  | ["jll-scan-dec", p, pred, w, h, nc, bits, vals, scan] => some (scanDec false p pred w h nc bits vals scan)
  | ["sv1-scan-dec", p, w, h, nc, bits, vals, scan] => some (scanDec true p "1" w h nc bits vals scan)
  | _ => none

end Drv.JpegLossless
