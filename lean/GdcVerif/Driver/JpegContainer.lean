import GdcVerif.Driver.Util
import GdcVerif.Model.JpegContainer
import GdcVerif.Spec.StrictJpeg
import GdcVerif.Spec.StrictJ2kTiles
import GdcVerif.Model.T1Layered
/-! Driver ops of check C16 (container level). See `go/cmd/vharness/c16.go` for the producing side. -/
namespace Drv.JpegContainer
open Drv JpegC

def out (o : Outcome (List Nat)) : String :=
  match o with
  | .ok bs => "ok " ++ bytesToHex bs
  | .err => "err"
  | .panic => "panic"

/-- `BITS HEX` → table; BITS must have the 16 entries of `[16]int` -/
def table? (bits vals : String) : Option HuffTable :=
  match parseInts bits with
  | some b => if b.length = 16 then some { bits := b, values := hexToBytes vals } else none
  | none => none

def q64? (s : String) : Option (List Int) :=
  match parseInts s with
  | some q => if q.length = 64 then some q else none
  | none => none

def tables? : List String → Option (List HuffTable)
  | [] => some []
  | b :: v :: rest => do
    let t ← table? b v
    let ts ← tables? rest
    pure (t :: ts)
  | _ => none

def j2kParams? (a : List Int) : Option J2kParams :=
  match a with
  | [w, h, c, d, sg, tw, th, lv, ll, cbw, cbh, pw, ph, po, ly, mct, ht] =>
    some { width := w, height := h, components := c, bitDepth := d, isSigned := sg ≠ 0, tileWidth := tw, tileHeight := th,
           numLevels := lv, lossless := ll ≠ 0, cbw := cbw, cbh := cbh, precW := pw, precH := ph, prog := po,
           numLayers := ly, enableMCT := mct ≠ 0, htj2k := ht ≠ 0 }
  | _ => none

/-- `n` consecutive groups of `k` bodies -/
def groups (k : Nat) : Nat → List (List Nat) → List (List (List Nat))
  | 0, _ => []
  | n + 1, bs => bs.take k :: groups k n (bs.drop k)

def strictLine (r : StrictJpeg.Result) : String :=
  s!"ok {r.frame.sof} {r.frame.p} {r.frame.y} {r.frame.x} {r.frame.comps.length} {r.scan.ss} {r.scan.se} {r.scan.ah} {r.scan.al} {r.hdrEnd} {r.scanEnd}"

def step? : List String → Option String
  | ["c16-seg", m, hx] =>
    some <| match m.toInt? with
    | some m => "ok " ++ bytesToHex (writeSegment m (hexToBytes hx))
    | none => "bad-op"
  | ["c16-dht", cls, id, bits, vals] =>
    some <| match nats? [cls, id], table? bits vals with
    | some [cls, id], some t => out (dhtSegment cls id t)
    | _, _ => "bad-op"
  | ["c16-hdr-jll", w, h, c, p, pred, bits, vals] =>
    some <| match ints? [w, h, p, pred], c.toNat?, table? bits vals with
    | some [w, h, p, pred], some c, some t => out (losslessHeader w h c p pred t)
    | _, _, _ => "bad-op"
  | ["c16-hdr-sv1", w, h, c, p, bits, vals] =>
    some <| match ints? [w, h, p], c.toNat?, table? bits vals with
    | some [w, h, p], some c, some t => out (sv1Header w h c p t)
    | _, _, _ => "bad-op"
  | ["c16-hdr-jls", w, h, c, p] =>
    some <| match ints? [w, h, p], c.toNat? with
    | some [w, h, p], some c => out (jpeglsHeader w h c p 0)
    | _, _ => "bad-op"
  | ["c16-hdr-near", w, h, c, p, near] =>
    some <| match ints? [w, h, p, near], c.toNat? with
    | some [w, h, p, near], some c => out (jpeglsHeader w h c p near)
    | _, _ => "bad-op"
  | "c16-hdr-base" :: w :: h :: c :: q0 :: q1 :: tabs =>
    some <| match ints? [w, h], c.toNat?, q64? q0, q64? q1, tables? tabs with
    | some [w, h], some c, some q0, some q1, some [dc0, ac0] =>
      out (baselineHeader w h c { q0 := q0, q1 := q1, dc0 := dc0, ac0 := ac0, dc1 := dc0, ac1 := ac0 })
    | some [w, h], some c, some q0, some q1, some [dc0, ac0, dc1, ac1] =>
      out (baselineHeader w h c { q0 := q0, q1 := q1, dc0 := dc0, ac0 := ac0, dc1 := dc1, ac1 := ac1 })
    | _, _, _, _, _ => "bad-op"
  | ["c16-hdr-ext12", w, h, q, b1, v1, b2, v2] =>
    some <| match ints? [w, h], q64? q, table? b1 v1, table? b2 v2 with
    | some [w, h], some q, some dc, some ac => out (ext12Header w h q dc ac)
    | _, _, _, _ => "bad-op"
  | "c16-j2k-main" :: a =>
    some <| match a.reverse with
    | steps :: expn :: style :: guard :: rest =>
      match ints? rest.reverse, ints? [guard, style], parseInts expn, parseInts steps with
      | some ps, some [g, s], some expn, some steps =>
        match j2kParams? ps with
        | some p =>
          let info : QcdInfo :=
            if p.lossless ∧ ¬ p.htj2k then losslessQcdInfo p
            else { guardBits := g, style := s, expn := expn, steps := steps }
          "ok " ++ bytesToHex (j2kMainHeader p info)
        | none => "bad-op"
      | _, _, _, _ => "bad-op"
    | _ => "bad-op"
  | "c16-j2k-tiles" :: ht :: levels :: nt :: bodies =>
    some <| match nats? [ht, nt], levels.toInt? with
    | some [ht, nt], some levels =>
      let bs := bodies.map hexToBytes
      let parts : List TilePart :=
        if ht = 0 then bs.mapIdx fun i b => classicTilePart i [] b
        else ((groups (levels + 1).toNat nt bs).mapIdx fun i g => htTileParts i levels [] g).flatten
      out (j2kTail (ht ≠ 0) parts)
    | _, _ => "bad-op"
  | ["c16-guard-base", w, h, c] =>
    -- outcome class of the argument guards only (dummy tables: they are not reached when a guard fires)
    some <| match ints? [w, h], c.toNat? with
    | some [w, h], some c =>
      let t : HuffTable := { bits := 1 :: List.replicate 15 0, values := [0] }
      let q : List Int := List.replicate 64 1
      match baselineHeader w h c { q0 := q, q1 := q, dc0 := t, ac0 := t, dc1 := t, ac1 := t } with
      | .ok _ => "ok"
      | .err => "err"
      | .panic => "panic"
    | _, _ => "bad-op"
  | ["c16-guard-ext12", w, h] =>
    some <| match ints? [w, h] with
    | some [w, h] =>
      let t : HuffTable := { bits := 1 :: List.replicate 15 0, values := [0] }
      match ext12Header w h (List.replicate 64 1) t t with
      | .ok _ => "ok"
      | .err => "err"
      | .panic => "panic"
    | _ => "bad-op"
  | "c16-j2k-pieces" :: pieces =>
    -- the body abstraction: body = concatenation of the pieces; the spec predicate `BodyOk` evaluated on every piece
    let ps := pieces.map hexToBytes
    let ok := ps.all fun p => decide (StrictJ2k.BodyOk p)
    some s!"ok {bytesToHex ps.flatten} {if ok then 1 else 0}"
  | "c16-ht-partition" :: levels :: pk =>
    -- packets as `res:headerhex:bodyhex`; output: the NumLevels+1 tile-part bodies
    some <| match levels.toInt?, pk.mapM (fun (t : String) =>
        match t.splitOn ":" with
        | [r, h, b] => r.toInt?.map fun r => (r, hexToBytes h, hexToBytes b)
        | _ => none) with
    | some l, some packets =>
      match htPartition l packets with
      | .ok parts => "ok " ++ " ".intercalate (parts.map bytesToHex)
      | .err => "err"
      | .panic => "panic"
    | _, _ => "bad-op"
  | ["c16-layer-cuts", rates, hx] =>
    -- real (already normalised) cumulative pass rates of one code-block and its byte string: the model normaliser must
    -- leave them unchanged, and every rate must be a cut that is not immediately after an 0xFF byte, in ascending order
    some <| match parseInts rates with
    | some rs =>
      let rs := rs.map Int.toNat
      let data := hexToBytes hx
      let ok := rs.all (fun r => decide (StrictJ2k.CutOk data r)) && decide (rs.Pairwise (· ≤ ·))
      s!"ok {intsToStr ((T1.normalizeRates rs data).map Int.ofNat)} {if ok then 1 else 0}"
    | none => "bad-op"
  | ["c16-strict", hx] =>
    some <| match StrictJpeg.parse (hexToBytes hx) with
    | some r => strictLine r
    | none => "err"
  | _ => none

end Drv.JpegContainer
