def hello := "world"
