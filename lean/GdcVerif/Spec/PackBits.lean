/-
  Independent reader for DICOM PS3.5 Annex G (RLE), written from the standard's text:
  G.3 (byte planes, most significant byte first, one segment per plane, colour: one group
  of planes per sample), G.4/G.5 (PackBits), G.2/Table G.5-1 (64-byte header).  Shares no
  definition with `Model/Rle.lean`.
-/
namespace AnnexG

/-- G.5: read packets until exactly `need` bytes were produced. -/
def unpack (seg : List Nat) (need : Nat) : Option (List Nat) :=
  if need = 0 then some []
  else
    match seg with
    | [] => none
    | n :: rest =>
      if n < 128 then
        -- literal run: the next n+1 bytes are copied
        if rest.length < n + 1 ∨ need < n + 1 then none
        else (unpack (rest.drop (n + 1)) (need - (n + 1))).map (rest.take (n + 1) ++ ·)
      else if n = 128 then unpack rest need           -- no operation
      else
        -- replicate run: the next byte is output 257 − n (= −n + 1 for signed n) times
        match rest with
        | [] => none
        | b :: rest' =>
          if need < 257 - n then none
          else (unpack rest' (need - (257 - n))).map (List.replicate (257 - n) b ++ ·)
termination_by seg.length
decreasing_by all_goals (simp [List.length_drop] <;> omega)

def u32 (d : List Nat) (o : Nat) : Nat :=
  d.getD o 0 + 256 * (d.getD (o + 1) 0 + 256 * (d.getD (o + 2) 0 + 256 * d.getD (o + 3) 0))

/-- Header well-formedness as the property states it: even length, `count = planes`,
    first offset 64, offsets of used segments even, strictly ascending and inside the
    stream, unused offsets zero. -/
def headerOk (s : List Nat) (planes : Nat) : Bool :=
  s.length % 2 = 0 && 64 ≤ s.length && u32 s 0 = planes && planes ≤ 15 &&
  (List.range 15).all fun k =>
    let o := u32 s (4 + 4 * k)
    if k < planes then
      o % 2 = 0 && o < s.length && (if k = 0 then o = 64 else u32 s (4 * k) < o)
    else o = 0

/-- the planes a conformant reader recovers: segment k is `s[off k : off (k+1))` -/
def readPlanes (s : List Nat) (planes pixels : Nat) : Option (List (List Nat)) :=
  if headerOk s planes then
    (List.range planes).mapM fun k =>
      let o := u32 s (4 + 4 * k)
      let e := if k + 1 < planes then u32 s (4 + 4 * (k + 1)) else s.length
      unpack ((s.take e).drop o) pixels
  else none

/-- G.3: the byte planes of a native frame. `bytes` per sample (little-endian samples),
    `spp` samples per pixel, `planar` 0 = colour-by-pixel, 1 = colour-by-plane.
    Plane index = sample · bytes + (0 for the most significant byte … bytes−1 for the least). -/
def planeOf (src : List Nat) (bytes spp pixels planar : Nat) (k : Nat) : List Nat :=
  let sample := k / bytes
  let msbIndex := k % bytes
  (List.range pixels).map fun p =>
    let sampleIndex := if planar = 0 then p * spp + sample else sample * pixels + p
    src.getD (sampleIndex * bytes + (bytes - 1 - msbIndex)) 0

end AnnexG
