/-!
  ITU-T T.87 (ISO/IEC 14495-1) — independent transcription of the parts of the standard the
  C14 theorems compare the code against.  Written from the standard's text; shares no
  definition with `Gen/` or `Model/` (core Lean only, `Nat.log2` for ⌈log2⌉).

  * C.2.4.1.1.1 / Table C.3 / Figure C.3: default thresholds T1, T2, T3 with the `CLAMP` function
  * A.2.1: RANGE, qbpp, bpp, LIMIT; C.2.4.1.1: RESET = 64, MAXVAL = 2^P − 1
  * A.3.3 gradient quantisation, A.4.1 MED prediction (edge-detecting predictor),
    A.5.2 error mapping (inverse, incl. the k = 0 special case), A.4.4/A.4.5 reconstruction
    (multiply by 2·NEAR+1, add with SIGN, one modulo step by RANGE·(2NEAR+1), clamp to [0, MAXVAL]).
-/
namespace T87

/-- Figure C.3: `if (i > MAXVAL || i < j) return j; else return i` -/
def CLAMP (i j MAXVAL : Int) : Int := if i > MAXVAL ∨ i < j then j else i

/-- ⌈log2 n⌉ : the smallest k with 2^k ≥ n -/
def ceilLog2 (n : Nat) : Nat := if n ≤ 1 then 0 else Nat.log2 (n - 1) + 1

structure Params where
  MAXVAL : Int
  NEAR : Int
  RANGE : Int
  qbpp : Int
  bpp : Int
  LIMIT : Int
  T1 : Int
  T2 : Int
  T3 : Int
  RESET : Int
deriving Repr, DecidableEq

def BASIC_T1 : Int := 3
def BASIC_T2 : Int := 7
def BASIC_T3 : Int := 21

/-- Table C.3: the unclamped default thresholds -/
def rawT (MAXVAL NEAR : Int) : Int × Int × Int :=
  if MAXVAL ≥ 128 then
    let FACTOR := (min MAXVAL 4095 + 128) / 256
    (FACTOR * (BASIC_T1 - 2) + 2 + 3 * NEAR, FACTOR * (BASIC_T2 - 3) + 3 + 5 * NEAR, FACTOR * (BASIC_T3 - 4) + 4 + 7 * NEAR)
  else
    let FACTOR := 256 / (MAXVAL + 1)
    (max 2 (BASIC_T1 / FACTOR + 3 * NEAR), max 3 (BASIC_T2 / FACTOR + 5 * NEAR), max 4 (BASIC_T3 / FACTOR + 7 * NEAR))

/-- default parameters of a scan with no LSE segment -/
def defaults (MAXVAL NEAR : Int) : Params :=
  let r := rawT MAXVAL NEAR
  let T1 := CLAMP r.1 (NEAR + 1) MAXVAL
  let T2 := CLAMP r.2.1 T1 MAXVAL
  let T3 := CLAMP r.2.2 T2 MAXVAL
  let RANGE := (MAXVAL + 2 * NEAR) / (2 * NEAR + 1) + 1
  let bpp : Int := max 2 (ceilLog2 (MAXVAL + 1).toNat)
  { MAXVAL := MAXVAL, NEAR := NEAR, RANGE := RANGE, qbpp := ceilLog2 RANGE.toNat, bpp := bpp,
    LIMIT := 2 * (bpp + max 8 bpp), T1 := T1, T2 := T2, T3 := T3, RESET := 64 }

/-- A.3.3: quantisation of a local gradient -/
def quantizeGradient (p : Params) (D : Int) : Int :=
  if D ≤ -p.T3 then -4 else if D ≤ -p.T2 then -3 else if D ≤ -p.T1 then -2 else if D < -p.NEAR then -1
  else if D ≤ p.NEAR then 0 else if D < p.T1 then 1 else if D < p.T2 then 2 else if D < p.T3 then 3 else 4

/-- A.4.1: edge-detecting (MED) predictor -/
def med (Ra Rb Rc : Int) : Int :=
  if Rc ≥ max Ra Rb then min Ra Rb else if Rc ≤ min Ra Rb then max Ra Rb else Ra + Rb - Rc

/-- A.5.2 read backwards: error value from the mapped value; `special` is the condition
    `NEAR = 0 ∧ k = 0 ∧ 2·B[Q] ≤ −N[Q]` under which the encoder used the alternative mapping -/
def unmapErrval (special : Bool) (MErrval : Int) : Int :=
  if special then
    (if MErrval % 2 = 1 then (MErrval - 1) / 2 else -(MErrval / 2) - 1)
  else
    (if MErrval % 2 = 0 then MErrval / 2 else -((MErrval + 1) / 2))

/-- A.4.4–A.4.5 (decoder side): `Rx = Px + SIGN·Errval·(2NEAR+1)`, one modulo step, clamp -/
def reconstruct (p : Params) (Px signedErrval : Int) : Int :=
  let Rx := Px + signedErrval * (2 * p.NEAR + 1)
  let Rx := if Rx < -p.NEAR then Rx + p.RANGE * (2 * p.NEAR + 1)
            else if Rx > p.MAXVAL + p.NEAR then Rx - p.RANGE * (2 * p.NEAR + 1) else Rx
  if Rx < 0 then 0 else if Rx > p.MAXVAL then p.MAXVAL else Rx

/-- A.4.4 (encoder side): reduction of the (quantised) error to `[−⌊RANGE/2⌋, ⌈RANGE/2⌉ − 1]` -/
def moduloReduce (p : Params) (Errval : Int) : Int :=
  let e := if Errval < 0 then Errval + p.RANGE else Errval
  if e ≥ (p.RANGE + 1) / 2 then e - p.RANGE else e

/-! ### A.6 update of the context variables (code segments A.12, A.13), A.7.2 run-interruption
    state (code segments A.21, A.23).  `>>` on a possibly negative value is written as the
    standard writes it (`-((1 - B) >> 1)` for negative `B`). -/

/-- the four per-context variables of regular mode -/
structure Ctx where
  A : Int
  B : Int
  C : Int
  N : Int
deriving Repr, DecidableEq

def MIN_C : Int := -128
def MAX_C : Int := 127

/-- code segment A.12: variables update -/
def updateVariables (p : Params) (q : Ctx) (Errval : Int) : Ctx :=
  let B := q.B + Errval * (2 * p.NEAR + 1)
  let A := q.A + (if Errval < 0 then -Errval else Errval)
  if q.N = p.RESET then
    { q with A := A / 2, B := (if B ≥ 0 then B / 2 else -((1 - B) / 2)), N := q.N / 2 + 1 }
  else
    { q with A := A, B := B, N := q.N + 1 }

/-- code segment A.13: update of bias-related variables `B[Q]` and `C[Q]` -/
def updateBias (q : Ctx) : Ctx :=
  if q.B ≤ -q.N then
    let B := q.B + q.N
    let C := if q.C > MIN_C then q.C - 1 else q.C
    let B := if B ≤ -q.N then -q.N + 1 else B
    { q with B := B, C := C }
  else if q.B > 0 then
    let B := q.B - q.N
    let C := if q.C < MAX_C then q.C + 1 else q.C
    let B := if B > 0 then 0 else B
    { q with B := B, C := C }
  else q

/-- A.6 as a whole -/
def contextUpdate (p : Params) (q : Ctx) (Errval : Int) : Ctx := updateBias (updateVariables p q Errval)

/-- the per-run-interruption-context variables (A.7.2) -/
structure RICtx where
  RItype : Int
  A : Int
  N : Int
  Nn : Int
deriving Repr, DecidableEq

/-- code segment A.21: computation of `map` -/
def riMap (q : RICtx) (k Errval : Int) : Bool :=
  if k = 0 ∧ Errval > 0 ∧ 2 * q.Nn < q.N then true
  else if Errval < 0 ∧ 2 * q.Nn ≥ q.N then true
  else if Errval < 0 ∧ k ≠ 0 then true
  else false

/-- code segment A.22: `EMErrval = 2·|Errval| − RItype − map` -/
def riEMErrval (q : RICtx) (k Errval : Int) : Int :=
  2 * (if Errval < 0 then -Errval else Errval) - q.RItype - (if riMap q k Errval then 1 else 0)

/-- code segment A.23: update of the run-interruption variables -/
def riUpdate (p : Params) (q : RICtx) (Errval EMErrval : Int) : RICtx :=
  let Nn := if Errval < 0 then q.Nn + 1 else q.Nn
  let A := q.A + (EMErrval + 1 - q.RItype) / 2
  if q.N = p.RESET then { q with A := A / 2, N := q.N / 2 + 1, Nn := Nn / 2 }
  else { q with A := A, N := q.N + 1, Nn := Nn }

/-- code segments A.10 `for(k=0; (N[Q]<<k) < A[Q]; k++);` and A.20 (the same loop against `TEMP`)
    as a predicate: `k` is the least exponent with `N·2^k ≥ A` -/
def IsGolombK (N A : Int) (k : Nat) : Prop := A ≤ N * 2 ^ k ∧ ∀ j : Nat, j < k → N * 2 ^ j < A

end T87
