/-!
  T.81 Figure A.6 — zig-zag sequence of the 8×8 DCT coefficients, written from the figure's rule
  (walk the anti-diagonals, alternating direction), sharing nothing with `Gen/` or `Model/`.
  `zigzag[k]` is the row-major index (8·row + column) of the k-th coefficient in zig-zag order.
-/
namespace T81

/-- one step along the zig-zag path: (column, row, moving up-right?) -/
def zigStep (s : Nat × Nat × Bool) : Nat × Nat × Bool :=
  let (x, y, up) := s
  if up then
    if x = 7 then (x, y + 1, false) else if y = 0 then (x + 1, y, false) else (x + 1, y - 1, true)
  else
    if y = 7 then (x + 1, y, true) else if x = 0 then (x, y + 1, true) else (x - 1, y + 1, false)

def zigSeq : Nat → Nat × Nat × Bool → List Nat
  | 0, _ => []
  | n + 1, s => (s.2.1 * 8 + s.1) :: zigSeq n (zigStep s)

def zigzag : List Nat := zigSeq 64 (0, 0, true)

end T81
