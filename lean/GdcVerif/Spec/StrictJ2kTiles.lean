/-!
  Strict walk over the tile-part chain of a JPEG 2000 codestream, written from ISO/IEC 15444-1
  A.4.2 (SOT: `FF90`, Lsot = 10, Isot, Psot, TPsot, TNsot), A.4.3 (SOD), A.4.4 (EOC) and A.3:
  starting at the first SOT, every tile-part is `Psot` bytes long, the next marker is found exactly
  `Psot` bytes further, the chain ends with EOC and nothing follows it.  Independent of `Model/`.
-/
namespace StrictJ2k

structure Sot where
  isot : Nat
  psot : Nat
  tpsot : Nat
  tnsot : Nat
deriving Repr, DecidableEq

def b16 (d : List Nat) : Nat := d.getD 0 0 * 256 + d.getD 1 0
def b32 (d : List Nat) : Nat := ((d.getD 0 0 * 256 + d.getD 1 0) * 256 + d.getD 2 0) * 256 + d.getD 3 0

/-- `some sots` iff `bs` is a chain of tile-parts followed by EOC and nothing else -/
def tileWalk : Nat → List Nat → Option (List Sot)
  | 0, _ => none
  | fuel + 1, bs =>
    if bs = [0xFF, 0xD9] then some []
    else if bs.take 2 ≠ [0xFF, 0x90] ∨ b16 (bs.drop 2) ≠ 10 ∨ bs.length < 12 then none
    else
      let s : Sot := { isot := b16 (bs.drop 4), psot := b32 (bs.drop 6), tpsot := bs.getD 10 0, tnsot := bs.getD 11 0 }
      -- Psot = 0 ("until EOC") is legal only for the last tile-part; the library never emits it
      if s.psot < 14 ∨ bs.length < s.psot then none
      else (tileWalk fuel (bs.drop s.psot)).map (s :: ·)

/-- per-tile consistency of TPsot / TNsot (A.4.2): parts of a tile are numbered 0,1,2,… in order and
    every non-zero TNsot of a tile equals its number of tile-parts -/
def partsConsistent (numTiles : Nat) (sots : List Sot) : Bool :=
  (List.range numTiles).all fun t =>
    let ps := sots.filter (·.isot = t)
    !ps.isEmpty && ps.zipIdx.all (fun (s, k) => s.tpsot = k && (s.tnsot = 0 || s.tnsot = ps.length))
  && sots.all (·.isot < numTiles)

/-! ### tile-part bodies (A.1, B.10.1, D.5: no marker code FF90..FFFF inside coded data) -/

/-- every 0xFF that has a successor is followed by a byte < `bound` -/
def PairBelow (bound : Nat) : List Nat → Prop
  | a :: b :: rest => (a = 255 → b < bound) ∧ PairBelow bound (b :: rest)
  | _ => True

instance (bound : Nat) : (l : List Nat) → Decidable (PairBelow bound l)
  | [] => isTrue trivial
  | [_] => isTrue trivial
  | a :: b :: rest =>
    have : Decidable (PairBelow bound (b :: rest)) := instDecidablePairBelow bound (b :: rest)
    by unfold PairBelow; infer_instance

/-- what 15444-1 requires of the bytes between SOD and the next marker: no two-byte value FF90..FFFF, and the
    last byte is not 0xFF (it would pair with the FF of the following SOT / EOC marker) -/
def BodyOk (l : List Nat) : Prop := PairBelow 0x90 l ∧ l.getLast? ≠ some 255

instance (l : List Nat) : Decidable (BodyOk l) := by unfold BodyOk; infer_instance

/-- `r` is a position inside `data` that is not immediately after an 0xFF byte -/
def CutOk (data : List Nat) (r : Nat) : Prop := r ≤ data.length ∧ (0 < r → data.getD (r - 1) 0 ≠ 0xFF)

instance (data : List Nat) (r : Nat) : Decidable (CutOk data r) := by unfold CutOk; infer_instance


end StrictJ2k
