/-!
  Strict reader for single-frame, single-scan JPEG / JPEG-LS interchange streams, written from the
  standards' text and sharing no definition with `Model/` or `Gen/`:

  * ITU-T T.81 Annex B — B.1.1.2 (markers: 0xFF followed by a byte ≠ 0, ≠ 0xFF), B.1.1.4 (marker
    segments: two-byte length that counts itself), B.1.1.5 (entropy-coded segments: a zero byte is
    stuffed after every 0xFF), B.2.1 (SOI, [tables/misc], frame header, [tables/misc], scan
    header, entropy-coded segment, EOI), B.2.2 (frame header, Table B.2), B.2.3 (scan header,
    Table B.3), B.2.4.1 (DQT), B.2.4.2 (DHT; Annex C: code lengths must form a prefix code with the
    all-ones word reserved), B.2.4.4 (DRI), B.2.4.5 (COM), B.2.4.6 (APPn).
  * ITU-T T.87 Annex C — C.1 (SOF55 = 0xFFF7, LSE = 0xFFF8), C.2.2 (frame header), C.2.3 (scan
    header: NEAR ≤ min(255, MAXVAL/2), ILV ∈ {0,1,2}, point transform, mapping-table selectors),
    A.1/C.3: in the entropy-coded segment the byte after 0xFF has its most significant bit clear.

  "Strict" means: no fill bytes, no data after EOI, every length field must match the content it
  announces, exactly one frame header and one scan, tables must be defined before the scan that
  uses them, and a non-stuffed marker inside the entropy-coded segment is an error.
  Bytes are `Nat`s (the driver and the models only produce values < 256).
-/
namespace StrictJpeg

structure Comp where
  id : Nat
  h : Nat
  v : Nat
  tq : Nat
deriving Repr, DecidableEq

structure Frame where
  /-- low byte of the SOFn marker -/
  sof : Nat
  p : Nat
  y : Nat
  x : Nat
  comps : List Comp
deriving Repr, DecidableEq

structure Sel where
  cs : Nat
  td : Nat
  ta : Nat
deriving Repr, DecidableEq

structure ScanHdr where
  sels : List Sel
  ss : Nat
  se : Nat
  ah : Nat
  al : Nat
deriving Repr, DecidableEq

structure Dqt where
  pq : Nat
  tq : Nat
  q : List Nat
deriving Repr, DecidableEq

structure Dht where
  tc : Nat
  th : Nat
  bits : List Nat
  vals : List Nat
deriving Repr, DecidableEq

/-- what has been seen between SOI and the current position -/
structure St where
  frame : Option Frame := none
  dqt : List Dqt := []
  dht : List Dht := []
  dri : Nat := 0
deriving Repr, DecidableEq

structure Result where
  frame : Frame
  scan : ScanHdr
  dqt : List Dqt
  dht : List Dht
  /-- offset of the first byte of the entropy-coded segment -/
  hdrEnd : Nat
  /-- offset of the EOI marker -/
  scanEnd : Nat
deriving Repr, DecidableEq

/-- Table B.1 / T.87 C.1: start-of-frame markers -/
def isSOF (m : Nat) : Bool :=
  (0xC0 ≤ m && m ≤ 0xC3) || (0xC5 ≤ m && m ≤ 0xC7) || (0xC9 ≤ m && m ≤ 0xCB) || (0xCD ≤ m && m ≤ 0xCF) || m = 0xF7

/-- markers that stand alone (no length field) or cannot be a marker at all: 0x00 (stuffing), 0xFF (fill),
    TEM, RSTn, SOI, EOI -/
def standalone (m : Nat) : Bool := m = 0x00 || m = 0xFF || m = 0x01 || (0xD0 ≤ m && m ≤ 0xD9)

/-- B.1.1.4: one marker segment `FF m Lh Ll payload`; returns the marker's low byte, the payload and the rest -/
def nextSegment : List Nat → Option (Nat × List Nat × List Nat)
  | ff :: m :: lh :: ll :: rest =>
    let len := lh * 256 + ll
    if ff ≠ 0xFF ∨ standalone m ∨ len < 2 ∨ rest.length < len - 2 then none
    else some (m, rest.take (len - 2), rest.drop (len - 2))
  | _ => none

/-! ### tables -/

/-- B.2.4.1: `Pq|Tq` followed by 64 one- or two-byte elements (all non-zero), repeated to the end of the payload -/
def parseDqt : Nat → List Nat → Option (List Dqt)
  | 0, _ => none
  | fuel + 1, pl =>
    match pl with
    | [] => none
    | b :: rest =>
      let pq := b / 16
      let tq := b % 16
      let sz := 64 * (pq + 1)
      if pq > 1 ∨ tq > 3 ∨ rest.length < sz then none
      else
        let raw := rest.take sz
        let q := if pq = 0 then raw else (List.range 64).map fun k => raw.getD (2 * k) 0 * 256 + raw.getD (2 * k + 1) 0
        if q.any (· = 0) then none
        else
          let t : Dqt := { pq := pq, tq := tq, q := q }
          let rest' := rest.drop sz
          if rest'.isEmpty then some [t] else (parseDqt fuel rest').map (t :: ·)

/-- Annex C: Σ Lᵢ·2^(16−i) < 2^16 — a prefix code exists and the all-ones code word stays free -/
def kraft (bits : List Nat) : Nat :=
  (bits.zipIdx.map fun (l, i) => l * 2 ^ (15 - i)).sum

/-- B.2.4.2: `Tc|Th`, sixteen counts, then Σ counts values (distinct), repeated to the end of the payload -/
def parseDht : Nat → List Nat → Option (List Dht)
  | 0, _ => none
  | fuel + 1, pl =>
    match pl with
    | [] => none
    | b :: rest =>
      let tc := b / 16
      let th := b % 16
      if tc > 1 ∨ th > 3 ∨ rest.length < 16 then none
      else
        let bits := rest.take 16
        let tot := bits.sum
        let rest1 := rest.drop 16
        if kraft bits ≥ 65536 ∨ tot > 256 ∨ rest1.length < tot then none
        else
          let vals := rest1.take tot
          if ¬ vals.Nodup then none
          else
            let t : Dht := { tc := tc, th := th, bits := bits, vals := vals }
            let rest2 := rest1.drop tot
            if rest2.isEmpty then some [t] else (parseDht fuel rest2).map (t :: ·)

/-! ### frame header (B.2.2, T.87 C.2.2) -/

def parseComps : Nat → List Nat → Option (List Comp)
  | 0, [] => some []
  | n + 1, c :: hv :: tq :: rest => (parseComps n rest).map ({ id := c, h := hv / 16, v := hv % 16, tq := tq } :: ·)
  | _, _ => none

def precisionOk (sof p : Nat) : Bool :=
  if sof = 0xC0 then p = 8
  else if sof = 0xC1 ∨ sof = 0xC2 then p = 8 ∨ p = 12
  else if sof = 0xC3 ∨ sof = 0xF7 then 2 ≤ p ∧ p ≤ 16
  else true

def parseSof (sof : Nat) : List Nat → Option Frame
  | p :: yh :: yl :: xh :: xl :: nf :: rest =>
    let y := yh * 256 + yl
    let x := xh * 256 + xl
    match parseComps nf rest with
    | none => none
    | some comps =>
      if nf < 1 ∨ x < 1 ∨ y < 1 ∨ ¬ precisionOk sof p then none
      else if comps.any (fun c => c.h < 1 ∨ c.h > 4 ∨ c.v < 1 ∨ c.v > 4 ∨ c.tq > 3) then none
      else if ¬ (comps.map (·.id)).Nodup then none
      else if (sof = 0xC3 ∨ sof = 0xF7) ∧ comps.any (·.tq ≠ 0) then none
      else some { sof := sof, p := p, y := y, x := x, comps := comps }
  | _ => none

/-! ### scan header (B.2.3, T.87 C.2.3) -/

def parseSels : Nat → List Nat → Option (List Sel × List Nat)
  | 0, rest => some ([], rest)
  | n + 1, cs :: t :: rest => (parseSels n rest).map fun (s, r) => ({ cs := cs, td := t / 16, ta := t % 16 } :: s, r)
  | _, _ => none

def hasDht (st : St) (tc th : Nat) : Bool := st.dht.any fun t => t.tc = tc ∧ t.th = th
def findDqt (st : St) (tq : Nat) : Option Dqt := st.dqt.find? fun t => t.tq = tq

/-- per-process constraints of Table B.3 / T.87 C.2.3, and "every table the scan uses is defined" -/
def scanOk (st : St) (f : Frame) (s : ScanHdr) : Bool :=
  if f.sof = 0xC0 ∨ f.sof = 0xC1 then
    s.ss = 0 && s.se = 63 && s.ah = 0 && s.al = 0 &&
    (s.sels.zip f.comps).all fun (sel, c) =>
      let lim := if f.sof = 0xC0 then 1 else 3
      sel.td ≤ lim && sel.ta ≤ lim && hasDht st 0 sel.td && hasDht st 1 sel.ta &&
      (match findDqt st c.tq with
       | none => false
       | some q => !(f.p = 8 && q.pq ≠ 0))
  else if f.sof = 0xC3 then
    1 ≤ s.ss && s.ss ≤ 7 && s.se = 0 && s.ah = 0 &&
    s.sels.all fun sel => sel.ta = 0 && hasDht st 0 sel.td
  else if f.sof = 0xF7 then
    let maxval := 2 ^ f.p - 1
    let lim := min 255 (maxval / 2)
    s.ss ≤ lim && s.se ≤ 2 && (if s.sels.length = 1 then s.se = 0 else s.se ≠ 0) && s.ah = 0 &&
    s.sels.all fun sel => sel.td = 0 && sel.ta = 0
  else false

def parseSos (st : St) : List Nat → Option ScanHdr
  | [] => none
  | ns :: rest =>
    match st.frame with
    | none => none
    | some f =>
      match parseSels ns rest with
      | some (sels, [ss, se, a]) =>
        let s : ScanHdr := { sels := sels, ss := ss, se := se, ah := a / 16, al := a % 16 }
        -- single-scan stream: the scan carries every frame component, in frame order
        if ns < 1 ∨ ns > 4 ∨ sels.map (·.cs) ≠ f.comps.map (·.id) then none
        else if scanOk st f s then some s else none
      | _ => none

/-! ### marker segments between SOI and SOS -/

def step (st : St) (m : Nat) (pl : List Nat) : Option St :=
  if (0xE0 ≤ m ∧ m ≤ 0xEF) ∨ m = 0xFE then some st
  else if m = 0xDB then (parseDqt pl.length pl).map fun ts => { st with dqt := st.dqt ++ ts }
  else if m = 0xC4 then (parseDht pl.length pl).map fun ts => { st with dht := st.dht ++ ts }
  else if m = 0xDD then
    match pl with
    | [a, b] => some { st with dri := a * 256 + b }
    | _ => none
  else if m = 0xF8 then
    match pl with
    | [] => none
    | id :: _ => if id < 1 ∨ id > 4 ∨ (id = 1 ∧ pl.length ≠ 11) then none else some st
  else if isSOF m then
    match st.frame with
    | some _ => none
    | none => (parseSof m pl).map fun f => { st with frame := some f }
  else none

/-- walks the segments up to and including SOS; returns the state, the scan header, the bytes that
    follow the SOS segment and their offset -/
def headerLoop : Nat → St → List Nat → Nat → Option (St × ScanHdr × List Nat × Nat)
  | 0, _, _, _ => none
  | fuel + 1, st, bs, off =>
    match nextSegment bs with
    | none => none
    | some (m, pl, rest) =>
      if m = 0xDA then (parseSos st pl).map fun sh => (st, sh, rest, off + 4 + pl.length)
      else
        match step st m pl with
        | none => none
        | some st' => headerLoop fuel st' rest (off + 4 + pl.length)

/-! ### entropy-coded segment (B.1.1.5; T.87 A.1) -/

/-- splits `ecs ++ FF D9 ++ rest`; any other marker inside is an error.
    `ls`: JPEG-LS escape rule (byte after FF < 0x80); `rst`: RSTm allowed (a DRI was seen). -/
def entropy (ls rst : Bool) : List Nat → Option (List Nat × List Nat)
  | [] => none
  | [_] => none
  | b :: b2 :: rest =>
    if b = 0xFF then
      if b2 = 0xD9 then some ([], rest)
      else if (if ls then b2 < 0x80 else b2 = 0) || (!ls && rst && 0xD0 ≤ b2 && b2 ≤ 0xD7) then
        (entropy ls rst rest).map fun (s, r) => (b :: b2 :: s, r)
      else none
    else (entropy ls rst (b2 :: rest)).map fun (s, r) => (b :: s, r)

/-- the "no unescaped marker" predicate for Huffman-coded JPEG scans: every 0xFF is followed by 0x00 -/
def NoMarker : List Nat → Bool
  | [] => true
  | b :: rest =>
    if b = 0xFF then
      match rest with
      | [] => false
      | b2 :: rest2 => b2 = 0 && NoMarker rest2
    else b < 256 && NoMarker rest

/-- the same for JPEG-LS scans: every 0xFF is followed by a byte < 0x80 -/
def NoMarkerLS : List Nat → Bool
  | [] => true
  | b :: rest =>
    if b = 0xFF then
      match rest with
      | [] => false
      | b2 :: rest2 => b2 < 0x80 && NoMarkerLS rest2
    else b < 256 && NoMarkerLS rest

/-- the whole stream -/
def parse (bs : List Nat) : Option Result :=
  match bs with
  | ff :: d8 :: rest =>
    if ff ≠ 0xFF ∨ d8 ≠ 0xD8 then none
    else
      match headerLoop rest.length {} rest 2 with
      | none => none
      | some (st, sh, ecs, off) =>
        match st.frame with
        | none => none
        | some f =>
          match entropy (f.sof = 0xF7) (st.dri > 0) ecs with
          | some (scan, []) =>
            if scan.isEmpty then none
            else some { frame := f, scan := sh, dqt := st.dqt, dht := st.dht, hdrEnd := off, scanEnd := off + scan.length }
          | _ => none
  | _ => none

end StrictJpeg
