/-!
  Independent specification of ITU-T T.81 Annex H (lossless mode of operation), written from
  the text of the Recommendation.  It shares no definition with `Model/` or `Gen/` (it does
  not even import the Go prelude).

  * H.1.2.1 / Table H.1   prediction, incl. the rules for the first line and the line starts
  * H.1.2.1               difference modulo 2^16; decoder adds modulo 2^16
  * H.1.2.2 / Table H.2   difference categories SSSS = 0..16 (SSSS = 16 ⇔ 32768, no extra bits)
  * F.1.2.1.1 / F.2.2.1   additional bits and EXTEND
  * Annex C (C.2)         HUFFSIZE / HUFFCODE generation
  * F.2.2.3               DECODE with MINCODE / MAXCODE / VALPTR
  * B.2.3                 scan header: Tdj is the HIGH nibble of the (Td,Ta) byte, 0..3 for lossless
-/
namespace T81H

/-! ## H.1.2.1 prediction -/

/-- Table H.1 — predictors for lossless coding.  "/2" is a shift right arithmetic (floor). -/
def predictor (sel : Nat) (ra rb rc : Int) : Int :=
  match sel with
  | 1 => ra
  | 2 => rb
  | 3 => rc
  | 4 => ra + rb - rc
  | 5 => ra + (rb - rc) / 2
  | 6 => rb + (ra - rc) / 2
  | 7 => (ra + rb) / 2
  | _ => 0          -- selection value 0: no prediction (differential coding in hierarchical mode)

/-- H.1.2.1: prediction Px at (row, col) of a scan without restart intervals.
    "At the beginning of the first line … the prediction value of 2^(P–Pt–1) is used.
     The one-dimensional horizontal predictor (Ra) is used for the first line of samples …
     The sample from the line above (Rb) is used at the start of each line, except for the
     first line.  The selected predictor is used for all other [samples]." -/
def px (P Pt sel : Nat) (row col : Nat) (ra rb rc : Int) : Int :=
  if row = 0 then
    if col = 0 then (2 : Int) ^ (P - Pt - 1) else ra
  else if col = 0 then rb
  else predictor sel ra rb rc

/-! ## H.1.2.1 difference modulo 2^16 -/

/-- the difference, as the representative in −32767 … 32768 used by Table H.2 -/
def diff (x p : Int) : Int :=
  let m := (x - p) % 65536            -- 0 … 65535
  if m ≤ 32768 then m else m - 65536

/-- decoder: "the difference is added, modulo 2^16, to the prediction" -/
def recon (p d : Int) : Int := (p + d) % 65536

/-- per-sample round trip of the specification: any prediction, any 16-bit sample -/
theorem recon_diff (x p : Int) (hx : 0 ≤ x ∧ x < 65536) : recon p (diff x p) = x := by
  unfold recon diff
  simp only
  split <;> omega

theorem diff_range (x p : Int) : -32767 ≤ diff x p ∧ diff x p ≤ 32768 := by
  unfold diff; simp only; split <;> omega

/-! ## H.1.2.2 / F.1.2.1 categories, additional bits, EXTEND -/

/-- Table H.2: SSSS = number of bits of |DIFF| (32768 ↦ 16) -/
def ssssAux (a : Nat) : Nat → Nat
  | 0 => 0
  | fuel + 1 => if a = 0 then 0 else 1 + ssssAux (a / 2) fuel
def ssss (d : Int) : Nat := ssssAux d.natAbs 17

/-- F.1.2.1.1: the SSSS low-order bits of DIFF (positive) or of DIFF − 1 (negative);
    H.1.2.2: no additional bits for SSSS = 16 -/
def extraBits (d : Int) : Nat × Nat :=      -- (value, number of bits)
  let s := ssss d
  if s = 0 ∨ s = 16 then (0, 0)
  else if d > 0 then ((d % 2 ^ s).toNat, s) else (((d - 1) % 2 ^ s).toNat, s)

/-- F.2.2.1 EXTEND(V, T), with H.1.2.2's SSSS = 16 ↦ 32768 -/
def extend (v : Nat) (t : Nat) : Int :=
  if t = 0 then 0
  else if t = 16 then 32768
  else if v < 2 ^ (t - 1) then (v : Int) - 2 ^ t + 1 else v

/-! ## Annex C: code generation -/

/-- Figure C.1 Generate_size_table: HUFFSIZE = BITS[i] copies of i, i = 1..16 -/
def huffSize (bits : List Nat) : List Nat :=
  (bits.zipIdx).flatMap fun (n, i) => List.replicate n (i + 1)

/-- Figure C.2 Generate_code_table over HUFFSIZE; state (CODE, SI) -/
def huffCodeGo : List Nat → Nat → Nat → List Nat
  | [], _, _ => []
  | s :: rest, code, si =>
    let code := code * 2 ^ (s - si)        -- "CODE = SLL CODE 1; SI = SI + 1" until SI = HUFFSIZE(K)
    code :: huffCodeGo rest (code + 1) s
def huffCode (sizes : List Nat) : List Nat :=
  match sizes with
  | [] => []
  | s :: _ => huffCodeGo sizes 0 s

/-- (symbol, code, length) triples of a table specification (BITS, HUFFVAL), Figure C.3 order -/
def codeTable (bits : List Nat) (vals : List Nat) : List (Nat × Nat × Nat) :=
  let sz := huffSize bits
  (vals.zip ((huffCode sz).zip sz)).map fun (v, c, s) => (v, c, s)

/-- F.2.2.3 DECODE by its meaning: the unique symbol whose code is a prefix of the bit string
    (bits MSB first); returns the symbol and the remaining bits -/
def isPrefix (code len : Nat) (bs : List Bool) : Bool :=
  len ≤ bs.length &&
    (bs.take len).foldl (fun acc b => acc * 2 + (if b then 1 else 0)) 0 == code
def decodeSym (tbl : List (Nat × Nat × Nat)) (bs : List Bool) : Option (Nat × List Bool) :=
  match tbl.find? (fun (_, c, l) => isPrefix c l bs) with
  | some (v, _, l) => some (v, bs.drop l)
  | none => none

/-! ## B.2.3 scan header -/

/-- Tdj: DC / lossless entropy table destination selector = high nibble; 0..3 in lossless -/
def td (b : Nat) : Option Nat := if b / 16 ≤ 3 then some (b / 16) else none

/-! ## sample-level encoder / decoder of one difference (what the entropy coder transports) -/

/-- encoder side of one sample: (SSSS, additional bits value, number of additional bits) -/
def encodeSample (x p : Int) : Nat × Nat × Nat :=
  let d := diff x p
  (ssss d, (extraBits d).1, (extraBits d).2)

/-- decoder side of one sample -/
def decodeSample (p : Int) (s v : Nat) : Int := recon p (extend v s)

end T81H
