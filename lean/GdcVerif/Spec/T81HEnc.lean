import GdcVerif.Spec.T81H
/-!
  T.81 lossless ENCODER at stream level, from the text of the Recommendation (Annex B syntax,
  Annex C codes, Annex H coding procedure, F.1.2.1 additional bits, B.1.1.5 byte stuffing and
  1-padding of the last byte): a conformant single-scan interchange stream with an arbitrary
  assignment of Huffman table destinations to components and arbitrary tables.  Layout:
  SOI, one DHT segment per table (in the order of `cfg.tables`), SOF3, SOS, entropy-coded
  segment, EOI.  Shares no definition with `Model/` or `Gen/`.
-/
namespace T81H

structure EncCfg where
  /-- predictor selection value Ss (1..7) -/
  sel : Nat
  /-- component identifiers Ci, in frame order -/
  ids : List Nat
  /-- table destination Tdj per component -/
  td : List Nat
  /-- (destination Th, BITS, HUFFVAL) of every DHT segment, in stream order -/
  tables : List (Nat × List Nat × List Nat)
deriving Repr, DecidableEq

/-- B.1.1.4 marker segment: FF m, two-byte length counting itself, payload -/
def segment (m : Nat) (pl : List Nat) : List Nat :=
  [0xFF, m, (pl.length + 2) / 256 % 256, (pl.length + 2) % 256] ++ pl

/-- the n low-order bits of v, most significant first -/
def bitsMsb (v n : Nat) : List Bool := (List.range n).map fun i => v.testBit (n - 1 - i)

/-- eight bits as a byte -/
def byteOfBits (bs : List Bool) : Nat := bs.foldl (fun acc b => acc * 2 + (if b then 1 else 0)) 0

/-- B.1.1.5 / F.1.2.3: bits to bytes; the last byte is completed with 1-bits; a zero byte follows every 0xFF -/
def packBits : List Bool → List Nat
  | [] => []
  | b :: rest =>
    let chunk := (b :: rest).take 8
    let byte := byteOfBits (chunk ++ List.replicate (8 - chunk.length) true)
    (if byte = 0xFF then [0xFF, 0] else [byte]) ++ packBits ((b :: rest).drop 8)
termination_by l => l.length
decreasing_by simp [List.length_drop]; omega

/-- Huffman code of the category followed by the additional bits of one difference -/
def encodeDiffBits (tbl : List (Nat × Nat × Nat)) (d : Int) : Option (List Bool) :=
  match tbl.find? (fun e => e.1 = ssss d) with
  | none => none
  | some (_, code, len) => some (bitsMsb code len ++ bitsMsb (extraBits d).1 (extraBits d).2)

/-- the table installed at destination `th` when the scan starts: the LAST one written for it -/
def cfgTable (cfg : EncCfg) (th : Nat) : Option (List (Nat × Nat × Nat)) :=
  match (cfg.tables.filter fun t => t.1 = th).getLast? with
  | none => none
  | some (_, bits, vals) => some (codeTable bits vals)

/-- bits of the entropy-coded segment: positions k = 0 .. n-1 (pixel k / nc in raster order, component k % nc) -/
def scanBitsFrom (P w nc : Nat) (sel : Nat) (planes : List (List Int)) (tbls : List (List (Nat × Nat × Nat))) :
    Nat → Nat → Option (List Bool)
  | 0, _ => some []
  | n + 1, i =>
    let c := i % nc
    let pix := i / nc
    let row := pix / w
    let col := pix % w
    match tbls[c]?, planes[c]? with
    | some tbl, some plane =>
      let x := plane.getD pix 0
      let ra := plane.getD (pix - 1) 0
      let rb := plane.getD (pix - w) 0
      let rc := plane.getD (pix - w - 1) 0
      match encodeDiffBits tbl (diff x (px P 0 sel row col ra rb rc)), scanBitsFrom P w nc sel planes tbls n (i + 1) with
      | some b, some r => some (b ++ r)
      | _, _ => none
    | _, _ => none

/-- the whole interchange stream (`none`: a category without a code, or an undefined destination) -/
def specEncode (P w h : Nat) (planes : List (List Int)) (cfg : EncCfg) : Option (List Nat) :=
  let nc := planes.length
  match cfg.td.mapM (cfgTable cfg) with
  | none => none
  | some tbls =>
    match scanBitsFrom P w nc cfg.sel planes tbls (w * h * nc) 0 with
    | none => none
    | some bits =>
      let dht := cfg.tables.flatMap fun (th, b, v) => segment 0xC4 ([th] ++ b ++ v)
      let sof := segment 0xC3 ([P, h / 256 % 256, h % 256, w / 256 % 256, w % 256, nc] ++
        cfg.ids.flatMap fun id => [id, 0x11, 0])
      let sos := segment 0xDA ([nc] ++ ((cfg.ids.zip cfg.td).flatMap fun (id, t) => [id, t * 16]) ++ [cfg.sel, 0, 0])
      some ([0xFF, 0xD8] ++ dht ++ sof ++ sos ++ packBits bits ++ [0xFF, 0xD9])

end T81H
