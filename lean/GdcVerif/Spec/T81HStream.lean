import GdcVerif.Spec.T81H
import GdcVerif.Spec.StrictJpeg
/-!
  T.81 lossless decoder at STREAM level, from the text of the Recommendation: the strict
  interchange-format reader of `Spec/StrictJpeg.lean` (Annex B) followed by the Annex H decoding
  procedure of `Spec/T81H.lean` over the entropy-coded segment (B.1.1.5 byte stuffing, F.2.2.3
  DECODE, F.2.2.4 RECEIVE, F.2.2.1 EXTEND, H.1.2.1 prediction and modulo-2^16 reconstruction).
  Single scan, all components interleaved with 1x1 sampling (one sample of each component per
  MCU, A.2.3), no restart interval.  Shares no definition with `Model/` or `Gen/`.
-/
namespace T81H

/-- B.1.1.5: remove the zero byte stuffed after every 0xFF -/
def unstuffEcs : List Nat → List Nat
  | [] => []
  | b :: rest =>
    if b = 0xFF then
      match rest with
      | [] => [b]
      | _ :: rest2 => b :: unstuffEcs rest2
    else b :: unstuffEcs rest

/-- a byte as eight bits, most significant first -/
def byteBits (b : Nat) : List Bool := (List.range 8).map fun i => b.testBit (7 - i)

/-- the bit sequence of an entropy-coded segment -/
def ecsBits (scan : List Nat) : List Bool := (unstuffEcs scan).flatMap byteBits

/-- F.2.2.4 RECEIVE(n): the next n bits as a number, most significant first -/
def receive (n : Nat) (bs : List Bool) : Option (Nat × List Bool) :=
  if bs.length < n then none
  else some ((bs.take n).foldl (fun acc b => acc * 2 + (if b then 1 else 0)) 0, bs.drop n)

/-- one difference: DECODE the category, RECEIVE its additional bits (none for SSSS = 0, 16), EXTEND -/
def decodeDiff (tbl : List (Nat × Nat × Nat)) (bs : List Bool) : Option (Int × List Bool) :=
  match decodeSym tbl bs with
  | none => none
  | some (s, rest) =>
    if s > 16 then none
    else if s = 0 ∨ s = 16 then some (extend 0 s, rest)
    else match receive s rest with
      | none => none
      | some (v, rest2) => some (extend v s, rest2)

/-- the decoding loop over `n` sample positions starting at position `i` (position k: pixel k / nc in
    raster order, component k % nc).  `planes[c]` is the list of samples of component c decoded so
    far, in raster order; neighbours are looked up in it. -/
def decodeSamples (P Pt sel w nc : Nat) (tbls : List (List (Nat × Nat × Nat))) :
    Nat → Nat → List (List Int) → List Bool → Option (List (List Int))
  | 0, _, planes, _ => some planes
  | n + 1, i, planes, bs =>
    let c := i % nc
    let pix := i / nc
    let row := pix / w
    let col := pix % w
    match tbls[c]?, planes[c]? with
    | some tbl, some plane =>
      match decodeDiff tbl bs with
      | none => none
      | some (d, rest) =>
        let ra := plane.getD (pix - 1) 0
        let rb := plane.getD (pix - w) 0
        let rc := plane.getD (pix - w - 1) 0
        let x := recon (px P Pt sel row col ra rb rc) d
        decodeSamples P Pt sel w nc tbls n (i + 1) (planes.set c (plane ++ [x])) rest
    | _, _ => none

structure Image where
  width : Nat
  height : Nat
  precision : Nat
  /-- one raster-order sample list per component -/
  planes : List (List Int)
deriving Repr, DecidableEq

/-- the table installed at destination `td` when the scan starts: the LAST class-0 DHT with that Th -/
def tableAt (dht : List StrictJpeg.Dht) (td : Nat) : Option (List (Nat × Nat × Nat)) :=
  match (dht.filter fun t => t.tc = 0 ∧ t.th = td).getLast? with
  | none => none
  | some t => some (codeTable t.bits t.vals)

/-- decode a complete lossless (SOF3) interchange stream -/
def specDecode (bytes : List Nat) : Option Image :=
  match StrictJpeg.parse bytes with
  | none => none
  | some r =>
    if r.frame.sof ≠ 0xC3 ∨ r.frame.comps.any (fun c => c.h ≠ 1 ∨ c.v ≠ 1) then none
    else
      let nc := r.frame.comps.length
      match r.scan.sels.mapM (fun s => tableAt r.dht s.td) with
      | none => none
      | some tbls =>
        let scan := (bytes.drop r.hdrEnd).take (r.scanEnd - r.hdrEnd)
        match decodeSamples r.frame.p r.scan.al r.scan.ss r.frame.x nc tbls (r.frame.x * r.frame.y * nc) 0
                (List.replicate nc []) (ecsBits scan) with
        | none => none
        | some planes =>
          some { width := r.frame.x, height := r.frame.y, precision := r.frame.p,
                 planes := planes.map fun (pl : List Int) => pl.map (· * 2 ^ r.scan.al) }

end T81H
