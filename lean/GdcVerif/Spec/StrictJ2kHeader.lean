/-!
  Strict readers for the three main-header marker segments that carry the fields property C16 names, written from
  ISO/IEC 15444-1 Annex A: A.5.1 SIZ (Table A.9–A.11), A.6.1 COD (Tables A.12–A.21), A.6.4 QCD (Tables A.27–A.30).
  Each takes the WHOLE segment (marker, length, payload) and accepts it only when the length field matches the
  content it announces and every field is in its legal range.  Independent of `Model/` and `Gen/`.
-/
namespace StrictJ2k

def w16 (a b : Nat) : Nat := a * 256 + b
def w32 (a b c d : Nat) : Nat := ((a * 256 + b) * 256 + c) * 256 + d

structure SizComp where
  /-- bit depth − 1 -/
  depthM1 : Nat
  signed : Bool
  xr : Nat
  yr : Nat
deriving Repr, DecidableEq

structure Siz where
  rsiz : Nat
  xsiz : Nat
  ysiz : Nat
  xosiz : Nat
  yosiz : Nat
  xtsiz : Nat
  ytsiz : Nat
  xtosiz : Nat
  ytosiz : Nat
  comps : List SizComp
deriving Repr, DecidableEq

/-- Table A.11: Ssiz (bit 7 = signed, bits 0–6 = depth − 1 ≤ 37), XRsiz, YRsiz ≥ 1 — exactly `n` triples -/
def parseSizComps : Nat → List Nat → Option (List SizComp)
  | 0, [] => some []
  | n + 1, s :: xr :: yr :: rest =>
    if s % 128 > 37 ∨ xr < 1 ∨ yr < 1 then none
    else (parseSizComps n rest).map ({ depthM1 := s % 128, signed := decide (s ≥ 128), xr := xr, yr := yr } :: ·)
  | _, _ => none

def parseSiz : List Nat → Option Siz
  | 0xFF :: 0x51 :: lh :: ll :: r1 :: r2 :: x1 :: x2 :: x3 :: x4 :: y1 :: y2 :: y3 :: y4 ::
      xo1 :: xo2 :: xo3 :: xo4 :: yo1 :: yo2 :: yo3 :: yo4 :: xt1 :: xt2 :: xt3 :: xt4 :: yt1 :: yt2 :: yt3 :: yt4 ::
      xto1 :: xto2 :: xto3 :: xto4 :: yto1 :: yto2 :: yto3 :: yto4 :: c1 :: c2 :: rest =>
    let csiz := w16 c1 c2
    let s : Siz := { rsiz := w16 r1 r2, xsiz := w32 x1 x2 x3 x4, ysiz := w32 y1 y2 y3 y4,
                     xosiz := w32 xo1 xo2 xo3 xo4, yosiz := w32 yo1 yo2 yo3 yo4,
                     xtsiz := w32 xt1 xt2 xt3 xt4, ytsiz := w32 yt1 yt2 yt3 yt4,
                     xtosiz := w32 xto1 xto2 xto3 xto4, ytosiz := w32 yto1 yto2 yto3 yto4, comps := [] }
    if w16 lh ll ≠ 38 + 3 * csiz ∨ csiz < 1 ∨ csiz > 16384 then none
    else if s.xsiz < 1 ∨ s.ysiz < 1 ∨ s.xtsiz < 1 ∨ s.ytsiz < 1 then none
    else if s.xosiz ≥ s.xsiz ∨ s.yosiz ≥ s.ysiz ∨ s.xtosiz > s.xosiz ∨ s.ytosiz > s.yosiz ∨
        s.xtosiz + s.xtsiz ≤ s.xosiz ∨ s.ytosiz + s.ytsiz ≤ s.yosiz then none
    else (parseSizComps csiz rest).map fun cs => { s with comps := cs }
  | _ => none

structure Cod where
  scod : Nat
  prog : Nat
  layers : Nat
  mct : Nat
  levels : Nat
  /-- code-block width / height exponents minus 2 -/
  xcb : Nat
  ycb : Nat
  style : Nat
  /-- 0 = 9-7 irreversible, 1 = 5-3 reversible -/
  transform : Nat
  precincts : List Nat
deriving Repr, DecidableEq

def parseCod : List Nat → Option Cod
  | 0xFF :: 0x52 :: lh :: ll :: scod :: prog :: l1 :: l2 :: mct :: lev :: xcb :: ycb :: st :: tr :: prec =>
    if w16 lh ll ≠ 12 + prec.length then none
    else if prec.length ≠ (if scod % 2 = 1 then lev + 1 else 0) then none
    else if scod > 7 ∨ prog > 4 ∨ w16 l1 l2 < 1 ∨ mct > 1 ∨ lev > 32 ∨ xcb > 8 ∨ ycb > 8 ∨ xcb + ycb > 8 ∨ tr > 1 ∨ st ≥ 128 then none
    else if (prec.drop 1).any (fun b => b % 16 = 0 ∨ b / 16 = 0) then none
    else some { scod := scod, prog := prog, layers := w16 l1 l2, mct := mct, levels := lev, xcb := xcb, ycb := ycb,
                style := st, transform := tr, precincts := prec }
  | _ => none

structure Qcd where
  /-- 0 = no quantisation, 1 = scalar derived, 2 = scalar expounded -/
  style : Nat
  guard : Nat
  /-- style 0: exponents; style 1/2: 16-bit (exponent, mantissa) words -/
  vals : List Nat
deriving Repr, DecidableEq

def words : List Nat → Option (List Nat)
  | [] => some []
  | a :: b :: rest => (words rest).map (w16 a b :: ·)
  | _ => none

/-- `levels` is the number of decomposition levels COD declared: Table A.27 fixes the number of entries -/
def parseQcd (levels : Nat) : List Nat → Option Qcd
  | 0xFF :: 0x5C :: lh :: ll :: sqcd :: rest =>
    let style := sqcd % 32
    if w16 lh ll ≠ 3 + rest.length then none
    else if style = 0 then
      if rest.length ≠ 3 * levels + 1 ∨ rest.any (· % 8 ≠ 0) then none
      else some { style := 0, guard := sqcd / 32, vals := rest.map (· / 8) }
    else if style = 1 ∨ style = 2 then
      match words rest with
      | none => none
      | some ws => if ws.length ≠ (if style = 1 then 1 else 3 * levels + 1) then none
                   else some { style := style, guard := sqcd / 32, vals := ws }
    else none
  | _ => none

end StrictJ2k
