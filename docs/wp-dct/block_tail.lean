
/-! ### hand-written: clamp (M3), comparison with the C(u)C(v) weights (M2), the block theorem -/

/-- M3: +128, clamp to 0..255 and byte() move the value towards any in-range target -/
theorem clamp_bound (t b D : Int) (hb : 0 ≤ b ∧ b ≤ 255)
    (h : -D ≤ 288230376151711744 * (t - (b - 128)) ∧ 288230376151711744 * (t - (b - 128)) ≤ D) :
    -D ≤ 288230376151711744 * (Go.uwrap8 (Clamp (t + 128) 0 255) - b) ∧
    288230376151711744 * (Go.uwrap8 (Clamp (t + 128) 0 255) - b) ≤ D := by
  rw [(clamp_byte _).2.2]; omega

theorem sum7_nonneg (f : Nat → Int) (h : ∀ k, 0 ≤ f k) : 0 ≤ sum7 f := by
  have := h 1; have := h 2; have := h 3; have := h 4; have := h 5; have := h 6; have := h 7
  simp only [sum7]; omega

/-- M2, integer side: row i of |invMatrix| is 8192 = 2^13 in column 0 and at most 11363 elsewhere;
    11363² ≤ 2·8192² says 11363/8192 ≤ √2, i.e. |inv[i][j]| ≤ 2^13·√2·C(j) with C(0) = 1/√2, C(j≥1) = 1 -/
theorem rowS (i : Nat) (hi : i < 8) (f : Nat → Int) (hf : ∀ k, 0 ≤ f k) :
    sum8 (fun k => Gabs i k * f k) ≤ 8192 * f 0 + 11363 * sum7 f := by
  have := hf 0; have := hf 1; have := hf 2; have := hf 3; have := hf 4; have := hf 5; have := hf 6; have := hf 7
  have hc : i = 0 ∨ i = 1 ∨ i = 2 ∨ i = 3 ∨ i = 4 ∨ i = 5 ∨ i = 6 ∨ i = 7 := by omega
  rcases hc with rfl | rfl | rfl | rfl | rfl | rfl | rfl | rfl <;> simp only [Gabs, sum8, sum7] <;> omega

theorem rowMono (i : Nat) (hi : i < 8) (a b : Nat → Int) (h : ∀ k, a k ≤ b k) :
    sum8 (fun k => Gabs i k * a k) ≤ sum8 (fun k => Gabs i k * b k) := by
  have := h 0; have := h 1; have := h 2; have := h 3; have := h 4; have := h 5; have := h 6; have := h 7
  have hc : i = 0 ∨ i = 1 ∨ i = 2 ∨ i = 3 ∨ i = 4 ∨ i = 5 ∨ i = 6 ∨ i = 7 := by omega
  rcases hc with rfl | rfl | rfl | rfl | rfl | rfl | rfl | rfl <;> simp only [Gabs, sum8] <;> omega

theorem weights_sq : (11363 : Int) * 11363 ≤ 2 * (8192 * 8192) := by decide

theorem S_le (q : Blk) (hq : ∀ v k, 1 ≤ q v k) (y x : Nat) (hy : y < 8) (hx : x < 8) :
    sum8 (fun k => Gabs x k * colQ q y k) ≤ 67108864 * q 0 0 + 93085696 * Mq q + 129117769 * Rq q := by
  let u : Nat → Int := fun k => 8192 * q 0 k + 11363 * sum7 (fun v => q v k)
  have h1 : ∀ k, colQ q y k ≤ u k := fun k => rowS y hy (fun v => q v k) (fun v => by have := hq v k; omega)
  have hu : ∀ k, 0 ≤ u k := fun k => by
    have := hq 0 k
    have := sum7_nonneg (fun v => q v k) (fun v => by have := hq v k; omega)
    simp only [u]; omega
  have h2 := rowMono x hx (colQ q y) u h1
  have h3 := rowS x hx u hu
  have e : 8192 * u 0 + 11363 * sum7 u = 67108864 * q 0 0 + 93085696 * Mq q + 129117769 * Rq q := by
    simp only [u, Mq, Rq, sum7]; omega
  omega

theorem sq_le_two (X M : Int) (hX : 0 < X) (h : 8192 * X ≤ 11363 * M) : X * X ≤ 2 * (M * M) := by
  have hM : 0 ≤ 11363 * M := by omega
  have h1 : (8192 * X) * (8192 * X) ≤ (11363 * M) * (11363 * M) :=
    Int.mul_le_mul h h (by omega) hM
  have e1 : (8192 * X) * (8192 * X) = 67108864 * (X * X) := by
    rw [Int.mul_assoc, Int.mul_left_comm X, ← Int.mul_assoc]; rfl
  have e2 : (11363 * M) * (11363 * M) = 129117769 * (M * M) := by
    rw [Int.mul_assoc, Int.mul_left_comm M, ← Int.mul_assoc]; rfl
  rw [e1, e2] at h1
  have hM0 : 0 ≤ M := by omega
  have := Int.mul_nonneg hM0 hM0
  generalize X * X = a at *
  generalize M * M = b at *
  omega

/-- BLOCK THEOREM (8-bit grey path, model = generated passes + functional glue + generated quantiser): every sample of
    every 8×8 block, for every quantisation table with entries ≥ 1 -/
theorem block_bound (blk q : Blk) (hb : ∀ y j, 0 ≤ blk y j ∧ blk y j ≤ 255) (hq : ∀ v k, 1 ≤ q v k)
    (y x : Nat) (hy : y < 8) (hx : x < 8) :
    withinF (blockF blk q y x - blk y x) q := by
  obtain ⟨t, ht1, ht2⟩ := block_int (fun y j => blk y j - 128) q (fun y j => by have := hb y j; constructor <;> omega) hq y x hy hx
  have hout : blockF blk q y x = Go.uwrap8 (Clamp (t + 128) 0 255) := ht1
  have hc := clamp_bound t (blk y x) _ (hb y x) ht2
  rw [← hout] at hc
  have hS := S_le q hq y x hy hx
  have hR : 0 ≤ Rq q := sum7_nonneg _ (fun v => sum7_nonneg _ (fun k => by have := hq v k; omega))
  generalize blockF blk q y x - blk y x = delta at hc ⊢
  generalize sum8 (fun k => Gabs x k * colQ q y k) = S at hc hS
  simp only [withinF]
  by_cases hX : 16 * (Go.abs delta - 2) - q 0 0 - 2 * Rq q ≤ 0
  · exact Or.inl hX
  · right
    apply sq_le_two _ _ (by omega)
    simp only [Go.abs] at hX ⊢
    split <;> omega

/-- 2^26·(Q00/2) + 2^26·0.6935·M + 2^26·0.962·R (×2): the table part of the block bound with the integer weights of the
    inverse matrix; LinB q / 2^30 ≤ (1/8)·Σ C(u)C(v)·Q[u,v] since 93085696/2^27 ≤ 1/√2 and 129117769/2^27 ≤ 1 -/
def LinB (q : Blk) : Int := 67108864 * q 0 0 + 93085696 * Mq q + 129117769 * Rq q

/-- the block bound in linear form: |decoded − source| ≤ 1.44 + LinB q / 2^30 (units 2^-58) -/
theorem block_bound_lin (blk q : Blk) (hb : ∀ y j, 0 ≤ blk y j ∧ blk y j ≤ 255) (hq : ∀ v k, 1 ≤ q v k)
    (y x : Nat) (hy : y < 8) (hx : x < 8) :
    -(415051741658464912 + 268435456 * LinB q) ≤ 288230376151711744 * (blockF blk q y x - blk y x) ∧
    288230376151711744 * (blockF blk q y x - blk y x) ≤ 415051741658464912 + 268435456 * LinB q := by
  obtain ⟨t, ht1, ht2⟩ := block_int (fun y j => blk y j - 128) q (fun y j => by have := hb y j; constructor <;> omega) hq y x hy hx
  have hout : blockF blk q y x = Go.uwrap8 (Clamp (t + 128) 0 255) := ht1
  have hc := clamp_bound t (blk y x) _ (hb y x) ht2
  rw [← hout] at hc
  have hS := S_le q hq y x hy hx
  simp only [LinB]
  generalize sum8 (fun k => Gabs x k * colQ q y k) = S at hc hS
  omega

/-- every output of the block pipeline is a byte -/
theorem blockF_byte (blk q : Blk) (y x : Nat) : 0 ≤ blockF blk q y x ∧ blockF blk q y x ≤ 255 := by
  obtain ⟨t, ht, _⟩ := (irowF_facts (icolF (quantF (fdctF blk) q) q) y)
  have h := irowF_facts (icolF (quantF (fdctF blk) q) q) y
  have key : ∀ i, i < 8 → 0 ≤ irowF (icolF (quantF (fdctF blk) q) q) y i ∧ irowF (icolF (quantF (fdctF blk) q) q) y i ≤ 255 := by
    intro i hi
    have hc : i = 0 ∨ i = 1 ∨ i = 2 ∨ i = 3 ∨ i = 4 ∨ i = 5 ∨ i = 6 ∨ i = 7 := by omega
    rcases hc with rfl | rfl | rfl | rfl | rfl | rfl | rfl | rfl
    · obtain ⟨t, e, _⟩ := h.1; rw [e]; exact ⟨(clamp_byte _).1, (clamp_byte _).2.1⟩
    · obtain ⟨t, e, _⟩ := h.2.1; rw [e]; exact ⟨(clamp_byte _).1, (clamp_byte _).2.1⟩
    · obtain ⟨t, e, _⟩ := h.2.2.1; rw [e]; exact ⟨(clamp_byte _).1, (clamp_byte _).2.1⟩
    · obtain ⟨t, e, _⟩ := h.2.2.2.1; rw [e]; exact ⟨(clamp_byte _).1, (clamp_byte _).2.1⟩
    · obtain ⟨t, e, _⟩ := h.2.2.2.2.1; rw [e]; exact ⟨(clamp_byte _).1, (clamp_byte _).2.1⟩
    · obtain ⟨t, e, _⟩ := h.2.2.2.2.2.1; rw [e]; exact ⟨(clamp_byte _).1, (clamp_byte _).2.1⟩
    · obtain ⟨t, e, _⟩ := h.2.2.2.2.2.2.1; rw [e]; exact ⟨(clamp_byte _).1, (clamp_byte _).2.1⟩
    · obtain ⟨t, e, _⟩ := h.2.2.2.2.2.2.2; rw [e]; exact ⟨(clamp_byte _).1, (clamp_byte _).2.1⟩
  -- irowF … y x = sel8 … (invPos x), and invPos x < 8
  show 0 ≤ irowF (icolF (quantF (fdctF blk) q) q) y x ∧ irowF (icolF (quantF (fdctF blk) q) q) y x ≤ 255
  have hp : ∃ i, i < 8 ∧ irowF (icolF (quantF (fdctF blk) q) q) y x = irowF (icolF (quantF (fdctF blk) q) q) y i := by
    have hx : invPos x = 0 ∨ invPos x = 1 ∨ invPos x = 2 ∨ invPos x = 3 ∨ invPos x = 4 ∨ invPos x = 5 ∨ invPos x = 6 ∨ invPos x = 7 := by
      unfold invPos; split <;> simp
    rcases hx with h0 | h0 | h0 | h0 | h0 | h0 | h0 | h0
    · exact ⟨0, by omega, by simp only [irowF, h0]; rfl⟩
    · exact ⟨7, by omega, by simp only [irowF, h0]; rfl⟩
    · exact ⟨1, by omega, by simp only [irowF, h0]; rfl⟩
    · exact ⟨6, by omega, by simp only [irowF, h0]; rfl⟩
    · exact ⟨2, by omega, by simp only [irowF, h0]; rfl⟩
    · exact ⟨5, by omega, by simp only [irowF, h0]; rfl⟩
    · exact ⟨3, by omega, by simp only [irowF, h0]; rfl⟩
    · exact ⟨4, by omega, by simp only [irowF, h0]; rfl⟩
  obtain ⟨i, hi, e⟩ := hp
  rw [e]; exact key i hi

/-- IMAGE LIFT: edge replication is the identity inside the image, so every pixel of every w×h greyscale image is within
    the bound of its source sample -/
theorem image_bound (img q : Blk) (w h : Nat) (hb : ∀ y j, 0 ≤ img y j ∧ img y j ≤ 255) (hq : ∀ v k, 1 ≤ q v k)
    (X Y : Nat) (hX : X < w) (hY : Y < h) :
    withinF (decodedPixel img w h q X Y - img Y X) q := by
  have hbb := block_bound (extractBlock img w h (X / 8) (Y / 8)) q (fun y j => hb _ _) hq (Y % 8) (X % 8)
    (Nat.mod_lt _ (by decide)) (Nat.mod_lt _ (by decide))
  have ex : edgeIdx ((X / 8 : Nat) : Int) ((X % 8 : Nat) : Int) (w : Int) = (X : Int) := by
    have := (edge_idx ((X / 8 : Nat) : Int) ((X % 8 : Nat) : Int) (w : Int) (by omega) (by omega) (by omega)).2.2
    have hdm := Nat.div_add_mod X 8
    omega
  have ey : edgeIdx ((Y / 8 : Nat) : Int) ((Y % 8 : Nat) : Int) (h : Int) = (Y : Int) := by
    have := (edge_idx ((Y / 8 : Nat) : Int) ((Y % 8 : Nat) : Int) (h : Int) (by omega) (by omega) (by omega)).2.2
    have hdm := Nat.div_add_mod Y 8
    omega
  have e : extractBlock img w h (X / 8) (Y / 8) (Y % 8) (X % 8) = img Y X := by
    simp only [extractBlock, ex, ey, Int.toNat_natCast]
  rw [e] at hbb
  exact hbb
