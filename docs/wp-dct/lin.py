class Vec(list):
    def __add__(a,b): return Vec(x+y for x,y in zip(a,b))
    def __sub__(a,b): return Vec(x-y for x,y in zip(a,b))
    def __mul__(a,k): return Vec(x*k for x in a)
    __rmul__=__mul__
F={'0298631336':2446,'0390180644':3196,'0541196100':4433,'0765366865':6270,'0899976223':7373,'1175875602':9633,'1501321110':12299,'1847759065':15137,'1961570560':16069,'2053119869':16819,'2562915447':20995,'3072711026':25172}
def V(i,n=8):
    v=Vec([0]*n); v[i]=1; return v
def fwd(d, first):
    # d: list of 8 linear forms; returns dict k -> (form, shift) : out_k = descale(form, shift) (shift 0 = exact form)
    tmp0=d[0]+d[7]; tmp7=d[0]-d[7]; tmp1=d[1]+d[6]; tmp6=d[1]-d[6]; tmp2=d[2]+d[5]; tmp5=d[2]-d[5]; tmp3=d[3]+d[4]; tmp4=d[3]-d[4]
    tmp10=tmp0+tmp3; tmp13=tmp0-tmp3; tmp11=tmp1+tmp2; tmp12=tmp1-tmp2
    out={}
    out[0]=tmp10+tmp11; out[4]=tmp10-tmp11
    z1=(tmp12+tmp13)*F['0541196100']
    out[2]=z1+tmp13*F['0765366865']; out[6]=z1-tmp12*F['1847759065']
    z1=tmp4+tmp7; z2=tmp5+tmp6; z3=tmp4+tmp6; z4=tmp5+tmp7; z5=(z3+z4)*F['1175875602']
    tmp4=tmp4*F['0298631336']; tmp5=tmp5*F['2053119869']; tmp6=tmp6*F['3072711026']; tmp7=tmp7*F['1501321110']
    z1=z1*-F['0899976223']; z2=z2*-F['2562915447']; z3=z3*-F['1961570560']; z4=z4*-F['0390180644']
    z3=z3+z5; z4=z4+z5
    out[7]=tmp4+z1+z3; out[5]=tmp5+z2+z4; out[3]=tmp6+z2+z3; out[1]=tmp7+z1+z4
    return out
def inv(c):
    # c: 8 forms (dequantised coefficients of one column, index by frequency); returns forms for outputs 0..7 (before descale)
    z2=c[2]; z3=c[6]; z1=(z2+z3)*F['0541196100']; tmp2=z1-z3*F['1847759065']; tmp3=z1+z2*F['0765366865']
    z2=c[0]; z3=c[4]; tmp0=(z2+z3)*8192; tmp1=(z2-z3)*8192
    tmp10=tmp0+tmp3; tmp13=tmp0-tmp3; tmp11=tmp1+tmp2; tmp12=tmp1-tmp2
    tmp0=c[7]; tmp1=c[5]; tmp2=c[3]; tmp3=c[1]
    z1=tmp0+tmp3; z2=tmp1+tmp2; z3=tmp0+tmp2; z4=tmp1+tmp3; z5=(z3+z4)*F['1175875602']
    tmp0=tmp0*F['0298631336']; tmp1=tmp1*F['2053119869']; tmp2=tmp2*F['3072711026']; tmp3=tmp3*F['1501321110']
    z1=z1*-F['0899976223']; z2=z2*-F['2562915447']; z3=z3*-F['1961570560']; z4=z4*-F['0390180644']
    z3=z3+z5; z4=z4+z5
    tmp0=tmp0+z1+z3; tmp1=tmp1+z2+z4; tmp2=tmp2+z2+z3; tmp3=tmp3+z1+z4
    return {0:tmp10+tmp3,7:tmp10-tmp3,1:tmp11+tmp2,6:tmp11-tmp2,2:tmp12+tmp1,5:tmp12-tmp1,3:tmp13+tmp0,4:tmp13-tmp0}
d=[V(i) for i in range(8)]
f=fwd(d,True)
print("forward linear forms (k: coefficients of d0..d7; out_k = form>>11 for k not in {0,4}, out_0/4 = 4*form):")
for k in range(8): print(k, list(f[k]))
g=inv(d)
print("inverse linear forms (x: coefficients of c0..c7; ws_x = descale(form, 11)):")
for k in range(8): print(k, list(g[k]))
# consistency: scale forward rows to common scale 2^13 * T : row k form (k not 0,4) is 2^13*T_k ; rows 0,4: T_k exact -> times 8192
Fc=[f[k]*(8192 if k in (0,4) else 1) for k in range(8)]
Gc=[g[k] for k in range(8)]
P=[[sum(Gc[i][k]*Fc[k][j] for k in range(8)) for j in range(8)] for i in range(8)]
print("G*F / 2^26 - 8I, max abs entry * 2^26:", max(abs(P[i][j]-(8<<26 if i==j else 0)) for i in range(8) for j in range(8)), "vs 2^29 =", 1<<29)
print(P)
