exec(open('lin.py').read().split('d=[V(i) for i in range(8)]')[0])
d=[V(i) for i in range(8)]
f=fwd(d,True); g=inv(d)
def lf(coefs, names):
    t=[]
    for c,n in zip(coefs,names):
        if c==0: continue
        t.append(f"({c}) * {n}")
    return " + ".join(t)
fix="ijgFix0298631336, ijgFix0390180644, ijgFix0541196100, ijgFix0765366865, ijgFix0899976223, ijgFix1175875602,\n    ijgFix1501321110, ijgFix1847759065, ijgFix1961570560, ijgFix2053119869, ijgFix2562915447, ijgFix3072711026"
unf=lambda fn: f"simp only [r, {fn}, ijgDescale, Go.shr, Go.shl, Int.shiftRight_eq_div_pow, ijgConstBits, ijgPass1Bits,\n    {fix}]\n  simp"
proj=["r.1","r.2.fst","r.2.snd.fst","r.2.snd.snd.fst","r.2.snd.snd.snd.fst","r.2.snd.snd.snd.snd.fst","r.2.snd.snd.snd.snd.snd.fst","r.2.snd.snd.snd.snd.snd.snd"]
out=[]
out.append('''import GdcVerif.Gen.JpegStd
/-!
  Per-pass analysis of the fixed-point DCT pair (GENERATED 1-D passes of standard.DCTISlow / IDCTISlow).
  Core Lean has no real numbers, so "exact" cannot mean cosines here.  What is proved:
  * each pass output is an integer LINEAR form of its inputs (literal 13-bit-constant matrix rows, listed below)
    followed by ONE rounding `descale` — so  |2^s·out − form(inputs)| ≤ 2^(s−1)  for every input (rows 0 and 4 of
    the first forward pass are exact);
  * the forward and inverse constant matrices are mutually consistent: G·F = 2^29·I + E with |E_ij| ≤ 31601
    (relative 5.9e-5 ≈ 2^-14) — a finite computation on the literal matrices.
  This file is produced from the same literal tables as the theorems' statements (scratch generator, see report).
-/
namespace Dct
open Gen.JpegStd
set_option maxRecDepth 100000
''')
dn=[f"d{i}" for i in range(8)]
# forward row
order=[0,4,2,6,7,5,3,1]
st=["theorem fdct_row_pass (y d0 d1 d2 d3 d4 d5 d6 d7 : Int) :","    let r := DCTISlow.row 8 y d0 d7 d1 d6 d2 d5 d3 d4"]
conj=[]
for p,k in zip(proj,order):
    if k in (0,4): conj.append(f"    {p} = 4 * ({lf(f[k],dn)})")
    else: conj.append(f"    (-1024 ≤ 2048 * {p} - ({lf(f[k],dn)}) ∧ 2048 * {p} - ({lf(f[k],dn)}) ≤ 1024)")
st.append(" ∧\n".join(conj)+" := by")
st.append("  intro r\n  "+unf("DCTISlow.row")+"\n  refine ⟨by omega, by omega, by omega, by omega, by omega, by omega, by omega, by omega⟩\n")
out.append("/-- forward pass 1 (rows): outputs (0,4,2,6,7,5,3,1) -/\n"+"\n".join(st))
# forward col
st=["theorem fdct_col_pass (x d0 d1 d2 d3 d4 d5 d6 d7 a0 a1 a2 a3 a4 a5 a6 a7 : Int) :","    let r := DCTISlow.col 8 x d0 d7 d1 d6 d2 d5 d3 d4 a0 a1 a2 a3 a4 a5 a6 a7"]
conj=[]
for p,k in zip(proj,order):
    if k in (0,4): conj.append(f"    (-2 ≤ 4 * {p} - ({lf(f[k],dn)}) ∧ 4 * {p} - ({lf(f[k],dn)}) ≤ 2)")
    else: conj.append(f"    (-16384 ≤ 32768 * {p} - ({lf(f[k],dn)}) ∧ 32768 * {p} - ({lf(f[k],dn)}) ≤ 16384)")
st.append(" ∧\n".join(conj)+" := by")
st.append("  intro r\n  "+unf("DCTISlow.col")+"\n  refine ⟨by omega, by omega, by omega, by omega, by omega, by omega, by omega, by omega⟩\n")
out.append("/-- forward pass 2 (columns): outputs (0,4,2,6,7,5,3,1) -/\n"+"\n".join(st))
# inverse col: inputs products
pn=[f"p{i}" for i in range(8)]
iorder=[0,7,1,6,2,5,3,4]
st=["theorem idct_col_pass (x c0 c1 c2 c3 c4 c5 c6 c7 q0 q1 q2 q3 q4 q5 q6 q7 a0 a1 a2 a3 a4 a5 a6 a7 p0 p1 p2 p3 p4 p5 p6 p7 : Int)",
    "    (h0 : c0 * q0 = p0) (h1 : c1 * q1 = p1) (h2 : c2 * q2 = p2) (h3 : c3 * q3 = p3) (h4 : c4 * q4 = p4) (h5 : c5 * q5 = p5) (h6 : c6 * q6 = p6) (h7 : c7 * q7 = p7) :",
    "    let r := IDCTISlow.col 8 x c2 q2 c6 q6 c0 q0 c4 q4 c7 q7 c5 q5 c3 q3 c1 q1 a0 a1 a2 a3 a4 a5 a6 a7"]
conj=[]
for p,k in zip(proj,iorder):
    conj.append(f"    (-1024 ≤ 2048 * {p} - ({lf(g[k],pn)}) ∧ 2048 * {p} - ({lf(g[k],pn)}) ≤ 1024)")
st.append(" ∧\n".join(conj)+" := by")
st.append("  intro r\n  "+unf("IDCTISlow.col").replace("\n  simp","")+"\n  rw [h0, h1, h2, h3, h4, h5, h6, h7]\n  simp\n  refine ⟨by omega, by omega, by omega, by omega, by omega, by omega, by omega, by omega⟩\n")
out.append("/-- inverse pass 1 (columns, with dequantisation p_k = coef_k·q_k): outputs (0,7,1,6,2,5,3,4) -/\n"+"\n".join(st))
# inverse row
wn=[f"w{i}" for i in range(8)]
st=["theorem idct_row_pass (y w0 w1 w2 w3 w4 w5 w6 w7 a0 a1 a2 a3 a4 a5 a6 a7 : Int) :",
    "    let r := IDCTISlow.row 8 y w2 w6 w0 w4 w7 w5 w3 w1 a0 a1 a2 a3 a4 a5 a6 a7"]
conj=[]
for p,k in zip(proj,iorder):
    conj.append(f"    (∃ t, {p} = Go.uwrap8 (Clamp (t + 128) 0 255) ∧ -131072 ≤ 262144 * t - ({lf(g[k],wn)}) ∧ 262144 * t - ({lf(g[k],wn)}) ≤ 131072)")
st.append(" ∧\n".join(conj)+" := by")
st.append("  intro r\n  simp only [r, IDCTISlow.row]\n  refine ⟨⟨_, rfl, ?_⟩, ⟨_, rfl, ?_⟩, ⟨_, rfl, ?_⟩, ⟨_, rfl, ?_⟩, ⟨_, rfl, ?_⟩, ⟨_, rfl, ?_⟩, ⟨_, rfl, ?_⟩, ⟨_, rfl, ?_⟩⟩ <;>\n  · "+unf("IDCTISlow.row").replace("simp only [r, ","simp only [").replace("\n  simp","\n    simp")+"\n    omega\n")
out.append("/-- inverse pass 2 (rows): outputs (0,7,1,6,2,5,3,4), each `byte(Clamp(descale(form, 18) + 128, 0, 255))` -/\n"+"\n".join(st))
# matrices
Fc=[f[k]*(8192 if k in (0,4) else 1) for k in range(8)]
Gc=[g[k] for k in range(8)]
ml=lambda M: "[" + ",\n   ".join("["+", ".join(str(v) for v in row)+"]" for row in M) + "]"
out.append(f'''/-- forward constant matrix, rows = frequencies, common scale 2^13 (rows 0 and 4 are exact: 8192·(±1)) -/
def fwdMatrix : List (List Int) :=
  {ml(Fc)}
/-- inverse constant matrix, rows = sample positions, scale 2^13 -/
def invMatrix : List (List Int) :=
  {ml(Gc)}
def matMul (a b : List (List Int)) : List (List Int) :=
  a.map fun row => (List.range 8).map fun j => ((List.range 8).map fun k => row.getD k 0 * (b.getD k []).getD j 0).foldl (· + ·) 0
/-- consistency of the 13-bit constants: invMatrix · fwdMatrix = 2^29·I + E with every |E_ij| ≤ 31601 (2^29 = 536870912) -/
theorem dct_matrices_consistent :
    ((matMul invMatrix fwdMatrix).zipIdx.all fun (row, i) => row.zipIdx.all fun (v, j) =>
      let e := v - (if i = j then 536870912 else 0)
      decide (-31601 ≤ e ∧ e ≤ 31601)) = true := by decide

end Dct
''')
open('/tmp/agents/dct/verif/lean/GdcVerif/Lemmas/DctPass.lean','w').write("\n".join(out))
