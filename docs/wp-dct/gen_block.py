exec(open('gen_comb.py').read().split('if __name__=="__main__":')[0])
Gabs=[[abs(v) for v in row] for row in Gc]
As=[4096*sum(abs(e) for e in E[y])+16384*sum(abs(x) for x in Gc[y])+(1<<28) for y in range(8)]
Cs=[(1<<29)*(128*sum(abs(e) for e in E[x])+1024*sum(abs(v) for v in Gc[x]))+(1<<57) for x in range(8)]
fpos={0:0,4:1,2:2,6:3,7:4,5:5,3:6,1:7}
ipos={0:0,7:1,1:2,6:3,2:4,5:5,3:6,4:7}
def conj(h,i):  # i-th conjunct of an 8-fold right-nested conjunction
    return h+".2"*i+(".1" if i<7 else "")
o=[]
o.append('''import GdcVerif.Model.Dct
import GdcVerif.Lemmas.Dct
import GdcVerif.Lemmas.DctPass
import GdcVerif.Lemmas.DctStages
import GdcVerif.Lemmas.DctColour
/-!
  2-D combination of the per-pass bounds into a block-level theorem for the 8-bit greyscale path.
  GENERATED in part by docs/wp-dct/gen_block.py (adapters and the 8-way case splits); the final theorems at the end
  of the file are hand-written.
-/
namespace Dct
open Gen.JpegStd Gen.JpegBaseline
set_option maxRecDepth 100000

theorem sel8_mk (a b c d e f g h : Int) :
    sel8 (a, b, c, d, e, f, g, h) 0 = a ∧ sel8 (a, b, c, d, e, f, g, h) 1 = b ∧ sel8 (a, b, c, d, e, f, g, h) 2 = c ∧
    sel8 (a, b, c, d, e, f, g, h) 3 = d ∧ sel8 (a, b, c, d, e, f, g, h) 4 = e ∧ sel8 (a, b, c, d, e, f, g, h) 5 = f ∧
    sel8 (a, b, c, d, e, f, g, h) 6 = g ∧ sel8 (a, b, c, d, e, f, g, h) 7 = h := ⟨rfl, rfl, rfl, rfl, rfl, rfl, rfl, rfl⟩
''')
# --- adapters
def adapter(name, passthm, passargs, callexpr, outfun, pos, forms, names, kind):
    # kind: 'frow','fcol','icol','irow'
    st=[]
    for k in range(8):
        t=outfun(k)
        F=lf(forms[k],names)
        if kind=='frow':
            st.append(f"{t} = 4 * ({F})" if k in (0,4) else f"(-1024 ≤ 2048 * {t} - ({F}) ∧ 2048 * {t} - ({F}) ≤ 1024)")
        elif kind=='fcol':
            st.append(f"(-2 ≤ 4 * {t} - ({F}) ∧ 4 * {t} - ({F}) ≤ 2)" if k in (0,4) else f"(-16384 ≤ 32768 * {t} - ({F}) ∧ 32768 * {t} - ({F}) ≤ 16384)")
        elif kind=='icol':
            st.append(f"(-1024 ≤ 2048 * {t} - ({F}) ∧ 2048 * {t} - ({F}) ≤ 1024)")
        else:
            st.append(f"(∃ t, {t} = Go.uwrap8 (Clamp (t + 128) 0 255) ∧ -131072 ≤ 262144 * t - ({F}) ∧ 262144 * t - ({F}) ≤ 131072)")
    picks=", ".join(conj("h",pos[k]) for k in range(8))
    return (f"theorem {name} :\n    "+" ∧\n    ".join(st)+f" := by\n  have h := {passthm} {passargs}\n  simp only [] at h\n  simp only [rowF, colF, icolF, irowF]\n  generalize {callexpr} = t at h ⊢\n  obtain ⟨a0, a1, a2, a3, a4, a5, a6, a7⟩ := t\n  exact ⟨{picks}⟩\n")
# forward rows
dn=[f"d y {j}" for j in range(8)]
o.append(adapter("rowF_facts (d : Blk) (y : Nat)","fdct_row_pass","y (d y 0) (d y 1) (d y 2) (d y 3) (d y 4) (d y 5) (d y 6) (d y 7)",
  "DCTISlow.row 8 y (d y 0) (d y 7) (d y 1) (d y 6) (d y 2) (d y 5) (d y 3) (d y 4)", lambda k: f"rowF d y {k}", fpos, f, dn, 'frow'))
rn=[f"r {j} k" for j in range(8)]
o.append(adapter("colF_facts (r : Blk) (k : Nat)","fdct_col_pass","k (r 0 k) (r 1 k) (r 2 k) (r 3 k) (r 4 k) (r 5 k) (r 6 k) (r 7 k) 0 0 0 0 0 0 0 0",
  "DCTISlow.col 8 k (r 0 k) (r 7 k) (r 1 k) (r 6 k) (r 2 k) (r 5 k) (r 3 k) (r 4 k) 0 0 0 0 0 0 0 0", lambda v: f"colF r {v} k", fpos, f, rn, 'fcol'))
pn=[f"(qc {j} k * q {j} k)" for j in range(8)]
o.append(adapter("icolF_facts (qc q : Blk) (k : Nat)","idct_col_pass",
  "k (qc 0 k) (qc 1 k) (qc 2 k) (qc 3 k) (qc 4 k) (qc 5 k) (qc 6 k) (qc 7 k) (q 0 k) (q 1 k) (q 2 k) (q 3 k) (q 4 k) (q 5 k) (q 6 k) (q 7 k) 0 0 0 0 0 0 0 0 _ _ _ _ _ _ _ _ rfl rfl rfl rfl rfl rfl rfl rfl",
  "IDCTISlow.col 8 k (qc 2 k) (q 2 k) (qc 6 k) (q 6 k) (qc 0 k) (q 0 k) (qc 4 k) (q 4 k) (qc 7 k) (q 7 k) (qc 5 k) (q 5 k) (qc 3 k) (q 3 k) (qc 1 k) (q 1 k) 0 0 0 0 0 0 0 0",
  lambda y: f"icolF qc q {y} k", ipos, g, pn, 'icol'))
wn=[f"ws y {j}" for j in range(8)]
o.append(adapter("irowF_facts (ws : Blk) (y : Nat)","idct_row_pass","y (ws y 0) (ws y 1) (ws y 2) (ws y 3) (ws y 4) (ws y 5) (ws y 6) (ws y 7) 0 0 0 0 0 0 0 0",
  "IDCTISlow.row 8 y (ws y 2) (ws y 6) (ws y 0) (ws y 4) (ws y 7) (ws y 5) (ws y 3) (ws y 1) 0 0 0 0 0 0 0 0", lambda x: f"irowF ws y {x}", ipos, g, wn, 'irow'))
# constants as functions
o.append("/-- |invMatrix[i][j]| -/\ndef Gabs : Nat → Nat → Int\n"+"\n".join(f"  | {i}, {j} => {Gabs[i][j]}" for i in range(8) for j in range(8))+"\n  | _, _ => 0\n")
o.append("/-- rounding budget of the vertical stage (units 2^-29) -/\ndef Acon : Nat → Int\n"+"\n".join(f"  | {y} => {As[y]}" for y in range(8))+"\n  | _ => 0\n")
o.append("/-- rounding budget of the horizontal stage (units 2^-58) -/\ndef Ccon : Nat → Int\n"+"\n".join(f"  | {x} => {Cs[x]}" for x in range(8))+"\n  | _ => 0\n")
o.append("def sum8 (f : Nat → Int) : Int := f 0 + f 1 + f 2 + f 3 + f 4 + f 5 + f 6 + f 7\n")
o.append('''theorem quant_facts (i q c : Int) (hq : 1 ≤ q) :
    -(4 * q) ≤ c - 8 * (quantizeBlock.entry default 0 0 0 0 i q c * q) ∧
    c - 8 * (quantizeBlock.entry default 0 0 0 0 i q c * q) ≤ 4 * q := by
  have h := symQuant_bound c (q * 8) (by omega)
  rw [quant8_is_symQuant]
  have e : q * 8 * symQuant c (q * 8) = 8 * (symQuant c (q * 8) * q) := by
    rw [Int.mul_comm q 8, Int.mul_assoc, Int.mul_comm q]
  rw [e] at h
  generalize symQuant c (q * 8) * q = P at h ⊢
  omega
''')
# vbound
o.append('''theorem rowF_bound (d : Blk) (hd : ∀ y j, -128 ≤ d y j ∧ d y j ≤ 127) (j k : Nat) :
    -4096 ≤ rowF d j k ∧ rowF d j k ≤ 4096 := by
  have hr := rowF_facts d j
  obtain ⟨b0, b1, b2, b3, b4, b5, b6, b7⟩ := rbound (d j 0) (d j 1) (d j 2) (d j 3) (d j 4) (d j 5) (d j 6) (d j 7)
    (rowF d j 0) (rowF d j 1) (rowF d j 2) (rowF d j 3) (rowF d j 4) (rowF d j 5) (rowF d j 6) (rowF d j 7)
    (hd j 0) (hd j 1) (hd j 2) (hd j 3) (hd j 4) (hd j 5) (hd j 6) (hd j 7)
    hr.1 hr.2.1 hr.2.2.1 hr.2.2.2.1 hr.2.2.2.2.1 hr.2.2.2.2.2.1 hr.2.2.2.2.2.2.1 hr.2.2.2.2.2.2.2
  have hp : fwdPos k = 0 ∨ fwdPos k = 1 ∨ fwdPos k = 2 ∨ fwdPos k = 3 ∨ fwdPos k = 4 ∨ fwdPos k = 5 ∨ fwdPos k = 6 ∨ fwdPos k = 7 := by
    unfold fwdPos; split <;> simp
  simp only [rowF] at b0 b1 b2 b3 b4 b5 b6 b7 ⊢
  simp only [fwdPos] at b0 b1 b2 b3 b4 b5 b6 b7
  rcases hp with h | h | h | h | h | h | h | h <;> rw [h]
  · exact b0
  · exact b4
  · exact b2
  · exact b6
  · exact b7
  · exact b5
  · exact b3
  · exact b1

''')
o.append('''set_option maxHeartbeats 1600000 in
/-- vertical stage at column k: the inverse column pass applied to the dequantised forward column pass returns the row-pass
    values up to the quantisation residual and three roundings -/
theorem vbound (d q : Blk) (hd : ∀ y j, -128 ≤ d y j ∧ d y j ≤ 127) (hq : ∀ v k, 1 ≤ q v k) (k y : Nat) (hy : y < 8) :
    -(Acon y + 131072 * sum8 (fun v => Gabs y v * q v k)) ≤
      536870912 * (icolF (quantF (colF (rowF d)) q) q y k - rowF d y k) ∧
    536870912 * (icolF (quantF (colF (rowF d)) q) q y k - rowF d y k) ≤
      Acon y + 131072 * sum8 (fun v => Gabs y v * q v k) := by
  have hc := colF_facts (rowF d) k
  have hw := icolF_facts (quantF (colF (rowF d)) q) q k
''')
for v in range(8):
    o.append(f"  have he{v} := quant_facts (({v} : Nat) * 8 + k : Nat) (q {v} k) (colF (rowF d) {v} k) (hq {v} k)")
o.append("  have hyc : y = 0 ∨ y = 1 ∨ y = 2 ∨ y = 3 ∨ y = 4 ∨ y = 5 ∨ y = 6 ∨ y = 7 := by omega")
o.append("  rcases hyc with rfl | rfl | rfl | rfl | rfl | rfl | rfl | rfl")
for y in range(8):
    args=" ".join(f"(rowF d {j} k)" for j in range(8))+" "+" ".join(f"(colF (rowF d) {v} k)" for v in range(8))+" "+" ".join(f"(quantF (colF (rowF d)) q {v} k * q {v} k)" for v in range(8))+" "+" ".join(f"(q {v} k)" for v in range(8))+f" (icolF (quantF (colF (rowF d)) q) q {y} k)"
    o.append(f"  · have := vstage_{y} {args}\n      "
      + " ".join(f"(rowF_bound d hd {j} k)" for j in range(8)) + " " + " ".join(conj("hc",v) for v in range(8)) + " " + " ".join(f"he{v}" for v in range(8)) + f" {conj('hw',y)}\n    simp only [Acon, Gabs, sum8]\n    omega")
# hbound / block_int
o.append('''
/-- Σ_v |inv[y][v]|·q[v][k]: the quantisation steps of column k weighted by row y of the inverse matrix -/
def colQ (q : Blk) (y k : Nat) : Int := sum8 (fun v => Gabs y v * q v k)
def bcon (q : Blk) (y k : Nat) : Int := Acon y + 131072 * colQ q y k

theorem Acon_le (y : Nat) : 0 ≤ Acon y ∧ Acon y ≤ 1812029440 := by
  unfold Acon; split <;> omega

set_option maxHeartbeats 1600000 in
/-- horizontal stage + vertical stage: the value `t` the inverse row pass produces for pixel (y,x) before +128/clamp -/
theorem block_int (d q : Blk) (hd : ∀ y j, -128 ≤ d y j ∧ d y j ≤ 127) (hq : ∀ v k, 1 ≤ q v k) (y x : Nat) (hy : y < 8) (hx : x < 8) :
    ∃ t, irowF (icolF (quantF (colF (rowF d)) q) q) y x = Go.uwrap8 (Clamp (t + 128) 0 255) ∧
      -(415051741658464912 + 268435456 * sum8 (fun k => Gabs x k * colQ q y k)) ≤ 288230376151711744 * (t - d y x) ∧
      288230376151711744 * (t - d y x) ≤ 415051741658464912 + 268435456 * sum8 (fun k => Gabs x k * colQ q y k) := by
  have hr := rowF_facts d y
  have hi := irowF_facts (icolF (quantF (colF (rowF d)) q) q) y
  have hA := Acon_le y
''')
for k in range(8):
    o.append(f"  have hv{k} : -(bcon q y {k}) ≤ 536870912 * (icolF (quantF (colF (rowF d)) q) q y {k} - rowF d y {k}) ∧ 536870912 * (icolF (quantF (colF (rowF d)) q) q y {k} - rowF d y {k}) ≤ bcon q y {k} := vbound d q hd hq {k} y hy")
o.append("  have hxc : x = 0 ∨ x = 1 ∨ x = 2 ∨ x = 3 ∨ x = 4 ∨ x = 5 ∨ x = 6 ∨ x = 7 := by omega")
o.append("  rcases hxc with rfl | rfl | rfl | rfl | rfl | rfl | rfl | rfl")
W="(icolF (quantF (colF (rowF d)) q) q)"
for x in range(8):
    args=" ".join(f"(d y {j})" for j in range(8))+" "+" ".join(f"(rowF d y {k})" for k in range(8))+" "+" ".join(f"({W} y {k})" for k in range(8))+" "+" ".join(f"(bcon q y {k})" for k in range(8))
    o.append(f"  · obtain ⟨t, ht1, ht2⟩ := {conj('hi',x)}\n    refine ⟨t, ht1, ?_⟩\n    have := hstage_{x} {args} t\n      "
      + " ".join(f"(hd y {j})" for j in range(8)) + " " + " ".join(conj("hr",k) for k in range(8)) + " " + " ".join(f"hv{k}" for k in range(8)) + " ht2\n    simp only [bcon] at this\n    simp only [Gabs, sum8]\n    omega")
o.append("")
o.append(open('/tmp/agents/dct/scratch/block_tail.lean').read())
open('/tmp/agents/dct/gen_block_part.lean','w').write("\n".join(o))
print("ok")
