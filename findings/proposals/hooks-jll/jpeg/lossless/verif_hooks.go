//go:build verif

package lossless

// Export wrappers for the verification harness (add-only, no behaviour).

// VerifLosslessDifference exposes losslessDifference.
func VerifLosslessDifference(sample, predicted int) int { return losslessDifference(sample, predicted) }

// VerifDiffCategory exposes diffCategory (frequency pass of optimizeHuffmanTables).
func VerifDiffCategory(val int) int { return diffCategory(val) }
