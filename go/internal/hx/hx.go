// Package hx holds what every property harness shares: one PRNG, the case/real line
// writers of the correspondence protocol, panic capture, and the search report.
package hx

import (
	"bufio"
	"crypto/sha256"
	"encoding/hex"
	"encoding/json"
	"fmt"
	"os"
	"path/filepath"
	"runtime/debug"
	"sort"
	"strings"
)

// Rand is splitmix64; every random choice of a run derives from one seed.
type Rand struct{ s uint64 }

func NewRand(seed uint64) *Rand { return &Rand{s: seed*0x9E3779B97F4A7C15 + 0x1234567} }
func (r *Rand) U64() uint64 {
	r.s += 0x9E3779B97F4A7C15
	z := r.s
	z = (z ^ (z >> 30)) * 0xBF58476D1CE4E5B9
	z = (z ^ (z >> 27)) * 0x94D049BB133111EB
	return z ^ (z >> 31)
}
func (r *Rand) Intn(n int) int {
	if n <= 0 {
		return 0
	}
	return int(r.U64() % uint64(n))
}
func (r *Rand) Range(lo, hi int) int { return lo + r.Intn(hi-lo+1) }
func (r *Rand) Bool() bool          { return r.U64()&1 == 1 }
func (r *Rand) Pick(xs []int) int   { return xs[r.Intn(len(xs))] }
func (r *Rand) Bytes(n int) []byte {
	b := make([]byte, n)
	for i := range b {
		b[i] = byte(r.U64())
	}
	return b
}

func Hex(b []byte) string {
	if len(b) == 0 {
		return "-"
	}
	return hex.EncodeToString(b)
}

// Guard runs f and reports a panic as an outcome.
func Guard(f func()) (panicked bool, msg string) {
	defer func() {
		if r := recover(); r != nil {
			panicked = true
			st := string(debug.Stack())
			// keep the first frames below the panic
			lines := strings.Split(st, "\n")
			if len(lines) > 24 {
				lines = lines[:24]
			}
			msg = fmt.Sprintf("%v | %s", r, strings.Join(lines, " ; "))
		}
	}()
	f()
	return
}

// Failure is a concrete input on which the PROPERTY fails on the real code.
type Failure struct {
	Property string         `json:"property"`
	Class    string         `json:"class"` // stable key matched against findings/known_findings.jsonl
	What     string         `json:"what"`
	Input    map[string]any `json:"input"`
	Expected string         `json:"expected,omitempty"`
	Actual   string         `json:"actual,omitempty"`
}

// Ctx is one harness run.
type Ctx struct {
	Prop   string
	Seed   uint64
	Tier   string
	Dir    string
	R      *Rand
	cases  *bufio.Writer
	real   *bufio.Writer
	fc, fr *os.File

	NCases       int
	Evaluations  int
	distinct     map[[32]byte]struct{}
	Nontrivial   int
	Rule         string
	Samples      []any
	Distribution map[string]int
	Failures     []Failure
	Notes        []string
}

func NewCtx(prop string, seed uint64, tier, dir string) *Ctx {
	_ = os.MkdirAll(dir, 0o755)
	fc, err := os.Create(filepath.Join(dir, "cases.txt"))
	if err != nil {
		panic(err)
	}
	fr, err := os.Create(filepath.Join(dir, "real.txt"))
	if err != nil {
		panic(err)
	}
	return &Ctx{Prop: prop, Seed: seed, Tier: tier, Dir: dir, R: NewRand(seed),
		cases: bufio.NewWriterSize(fc, 1<<20), real: bufio.NewWriterSize(fr, 1<<20), fc: fc, fr: fr,
		distinct: map[[32]byte]struct{}{}, Distribution: map[string]int{}}
}

func (c *Ctx) Thorough() bool { return c.Tier == "thorough" }

// Case records one correspondence line: the op handed to the Lean driver and what the real code answered.
func (c *Ctx) Case(op, real string) {
	c.cases.WriteString(op)
	c.cases.WriteByte('\n')
	c.real.WriteString(real)
	c.real.WriteByte('\n')
	c.NCases++
}

// Eval counts one evaluation of the property on the real code; key identifies the case for the
// distinct count; nontrivial says whether it is non-trivial by the harness's stated rule.
func (c *Ctx) Eval(key string, nontrivial bool) {
	c.Evaluations++
	h := sha256.Sum256([]byte(key))
	if _, ok := c.distinct[h]; !ok {
		c.distinct[h] = struct{}{}
		if nontrivial {
			c.Nontrivial++
		}
	}
}
func (c *Ctx) Count(k string)        { c.Distribution[k]++ }
func (c *Ctx) CountN(k string, n int) { c.Distribution[k] += n }
func (c *Ctx) Sample(s any) {
	if len(c.Samples) < 6 {
		c.Samples = append(c.Samples, s)
	}
}
func (c *Ctx) Fail(f Failure) {
	f.Property = c.Prop
	if len(c.Failures) < 200 {
		c.Failures = append(c.Failures, f)
	}
	c.Distribution["failures"]++
	c.Distribution["fail:"+f.Class]++
}

func (c *Ctx) Close() {
	c.cases.Flush()
	c.real.Flush()
	c.fc.Close()
	c.fr.Close()
	keys := make([]string, 0, len(c.Distribution))
	for k := range c.Distribution {
		keys = append(keys, k)
	}
	sort.Strings(keys)
	rep := map[string]any{
		"property": c.Prop, "seed": c.Seed, "tier": c.Tier,
		"correspondence_cases": c.NCases,
		"evaluations":          c.Evaluations,
		"distinct":             len(c.distinct),
		"distinct_nontrivial":  c.Nontrivial,
		"rule":                 c.Rule,
		"samples":              c.Samples,
		"distribution":         c.Distribution,
		"failures":             c.Failures,
		"notes":                c.Notes,
	}
	b, _ := json.MarshalIndent(rep, "", " ")
	if err := os.WriteFile(filepath.Join(c.Dir, "search.json"), b, 0o644); err != nil {
		panic(err)
	}
}
