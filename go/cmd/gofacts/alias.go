package main

// The store analysis.
//
// A *root* is a package-level variable of the module or a parameter (receiver = parameter 0)
// of the function under analysis.  For every function of the module the analysis computes,
// flow-insensitively and object-level (field-insensitive) for aliases:
//
//   alias[x]        for each local x: the roots whose memory x may reference
//   storesThru[i]   element types E such that the function may store into a cell of type E
//                   reached through a reference held in parameter i (directly, via a local
//                   alias, or by handing it to a callee that does)
//   retAlias        roots that may flow into a result
//   captures[i]     roots whose references may be stored into memory reached from parameter i
//
// A store through a reference-typed prefix P (pointer deref, slice/map index) of an lvalue hits
// the memory of root R only if R ∈ roots(P) and the element type of P is one of the cell
// types of R's memory region (Go is type safe without `unsafe`; packages importing unsafe are
// reported by F5 and turn the affected facts into "unknown").  Summaries are iterated to a
// global fixpoint; dynamic calls are resolved to every module method that can implement the
// interface; calls that leave the module are looked up in a small table (extTable), anything
// not in the table that receives a rooted reference yields an explicit `unknown` fact.

import (
	"fmt"
	"go/ast"
	"go/token"
	"go/types"
	"sort"
	"strings"
)

type rootSet map[*types.Var]struct{}

func (s rootSet) addAll(o rootSet) bool {
	ch := false
	for k := range o {
		if _, ok := s[k]; !ok {
			s[k] = struct{}{}
			ch = true
		}
	}
	return ch
}

const anyType = "?" // wildcard element type: store of unknown cell type

type funcInfo struct {
	name    string // display: pkgrel.Func or pkgrel.(*T).Method
	short   string // Func or (*T).Method
	pkg     *pkgInfo
	decl    *ast.FuncDecl
	body    ast.Node // decl.Body, or the initialiser expression of a package-level var (pseudo function)
	obj     *types.Func
	params  []*types.Var // receiver first
	hasRecv bool
	pidx    map[*types.Var]int

	alias      map[*types.Var]rootSet
	storesThru map[int]map[string]bool
	unknownVia map[int]map[string]bool // param -> descriptions of unclassifiable uses
	retAlias   []rootSet               // per result index: pkgvars and own params that may flow into it
	retDirect  []rootSet               // per result index: roots the result itself may point to (not merely contain)
	captures   map[int]rootSet         // dst param -> roots (pkgvars / own params)
	captured   map[*types.Var]rootSet // roots stored INTO the object a local refers to (x.f = v)
	idx        *funcIndex
	inReach    int
	callees    map[*funcInfo]bool
	funcRefs   map[*funcInfo]bool // module functions used as values (not called) inside this function
	isInit     bool
}

type pkgVarInfo struct {
	v    *types.Var
	pkg  *pkgInfo
	name string // pkgrel.Name
	typ  string
	pos  token.Position
	mem  map[string]bool
	any  bool
}

type storeFact struct {
	root  *types.Var
	fn    *funcInfo
	kind  string
	field string // first selector below the root (receiver field / struct field), "" if none
	pos   token.Position
	// direct: the cell is in the object the root's value points to (p.f = v), not deeper in reachable memory
	direct bool
}

type unknownFact struct {
	what, where, detail string
	lib                 bool // concerns a library package (variable or function)
}

type analysis struct {
	prog     *program
	funcs    map[*types.Func]*funcInfo
	flist    []*funcInfo
	pkgVars  map[*types.Var]*pkgVarInfo
	pvlist   []*pkgVarInfo
	named    []*types.Named // module named types (for interface dispatch)
	changed  bool
	final    bool
	stores   []storeFact // pkgvar stores (final pass)
	pstores  []storeFact // stores through parameters, with positions (final pass)
	unknowns []unknownFact
	memCache map[*types.Var]map[string]bool
	memAny   map[*types.Var]bool
	dispatch map[string][]*funcInfo
	opaque   map[*types.Var]bool // package-level interface variables initialised with errors.New / fmt.Errorf: immutable values
}

func newAnalysis(prog *program) *analysis {
	an := &analysis{prog: prog, funcs: map[*types.Func]*funcInfo{}, pkgVars: map[*types.Var]*pkgVarInfo{},
		memCache: map[*types.Var]map[string]bool{}, memAny: map[*types.Var]bool{}, dispatch: map[string][]*funcInfo{}, opaque: map[*types.Var]bool{}}
	for _, p := range prog.pkgs {
		sc := p.tpkg.Scope()
		for _, n := range sc.Names() {
			switch o := sc.Lookup(n).(type) {
			case *types.Var:
				pv := &pkgVarInfo{v: o, pkg: p, name: prog.rel(p.lp.ImportPath) + "." + o.Name(),
					typ: types.TypeString(o.Type(), func(q *types.Package) string { return q.Name() }), pos: prog.fset.Position(o.Pos())}
				an.pkgVars[o] = pv
				an.pvlist = append(an.pvlist, pv)
			case *types.TypeName:
				if nt, ok := o.Type().(*types.Named); ok {
					an.named = append(an.named, nt)
				}
			}
		}
		for _, f := range p.files {
			for _, d := range f.Decls {
				if gd, isGen := d.(*ast.GenDecl); isGen && gd.Tok == token.VAR {
					for _, sp := range gd.Specs {
						vs := sp.(*ast.ValueSpec)
						if len(vs.Values) == len(vs.Names) {
							for i, nm := range vs.Names {
								if call, ok := vs.Values[i].(*ast.CallExpr); ok {
									if se, ok := call.Fun.(*ast.SelectorExpr); ok {
										if id, ok := se.X.(*ast.Ident); ok && ((id.Name == "errors" && se.Sel.Name == "New") || (id.Name == "fmt" && se.Sel.Name == "Errorf")) {
											if v, ok := p.info.Defs[nm].(*types.Var); ok && types.IsInterface(v.Type()) {
												an.opaque[v] = true
											}
										}
									}
								}
							}
						}
						for _, val := range vs.Values {
							fi := &funcInfo{pkg: p, body: val, funcRefs: map[*funcInfo]bool{}, pidx: map[*types.Var]int{}, alias: map[*types.Var]rootSet{},
								storesThru: map[int]map[string]bool{}, unknownVia: map[int]map[string]bool{}, retAlias: nil,
								captures: map[int]rootSet{}, callees: map[*funcInfo]bool{}, isInit: true}
							fi.short = "<varinit " + vs.Names[0].Name + ">"
							fi.name = prog.rel(p.lp.ImportPath) + "." + fi.short
							an.flist = append(an.flist, fi)
						}
					}
					continue
				}
				fd, ok := d.(*ast.FuncDecl)
				if !ok || fd.Body == nil {
					continue
				}
				obj, _ := p.info.Defs[fd.Name].(*types.Func)
				if obj == nil {
					continue
				}
				fi := &funcInfo{pkg: p, decl: fd, body: fd.Body, funcRefs: map[*funcInfo]bool{}, obj: obj, pidx: map[*types.Var]int{}, alias: map[*types.Var]rootSet{},
					storesThru: map[int]map[string]bool{}, unknownVia: map[int]map[string]bool{}, retAlias: nil,
					captures: map[int]rootSet{}, callees: map[*funcInfo]bool{}}
				sig := obj.Type().(*types.Signature)
				for i := 0; i < sig.Results().Len(); i++ {
					fi.retAlias = append(fi.retAlias, rootSet{})
					fi.retDirect = append(fi.retDirect, rootSet{})
				}
				if r := sig.Recv(); r != nil {
					fi.hasRecv = true
					fi.params = append(fi.params, r)
					fi.short = "(" + types.TypeString(r.Type(), func(*types.Package) string { return "" }) + ")." + fd.Name.Name
				} else {
					fi.short = fd.Name.Name
				}
				fi.short = strings.ReplaceAll(fi.short, "(.", "(")
				for i := 0; i < sig.Params().Len(); i++ {
					fi.params = append(fi.params, sig.Params().At(i))
				}
				for i, v := range fi.params {
					fi.pidx[v] = i
				}
				fi.name = prog.rel(p.lp.ImportPath) + "." + fi.short
				fi.isInit = !fi.hasRecv && fd.Name.Name == "init"
				if fi.isInit {
					// several init functions per package are legal: key them by position
					an.flist = append(an.flist, fi)
					an.funcs[obj] = fi
					continue
				}
				an.funcs[obj] = fi
				an.flist = append(an.flist, fi)
			}
		}
	}
	sort.SliceStable(an.flist, func(i, j int) bool {
		if an.flist[i].name != an.flist[j].name {
			return an.flist[i].name < an.flist[j].name
		}
		return an.flist[i].body.Pos() < an.flist[j].body.Pos()
	})
	sort.Slice(an.pvlist, func(i, j int) bool { return an.pvlist[i].name < an.pvlist[j].name })
	return an
}

// ---------------------------------------------------------------- types

func carriesRefs(t types.Type, seen map[types.Type]bool) bool {
	if t == nil {
		return false
	}
	if seen[t] {
		return false
	}
	seen[t] = true
	switch u := t.Underlying().(type) {
	case *types.Basic:
		return u.Kind() == types.UnsafePointer
	case *types.Pointer, *types.Slice, *types.Map, *types.Chan, *types.Signature, *types.Interface:
		return true
	case *types.Array:
		return carriesRefs(u.Elem(), seen)
	case *types.Struct:
		for i := 0; i < u.NumFields(); i++ {
			if carriesRefs(u.Field(i).Type(), seen) {
				return true
			}
		}
		return false
	case *types.Tuple:
		for i := 0; i < u.Len(); i++ {
			if carriesRefs(u.At(i).Type(), seen) {
				return true
			}
		}
		return false
	case *types.TypeParam:
		return true
	}
	return true
}

func refs(t types.Type) bool { return carriesRefs(t, map[types.Type]bool{}) }

func tkey(t types.Type) string { return types.TypeString(t, nil) }

// closure: cell types of a value of type t stored in place, plus everything reachable from it
func memClosure(t types.Type, out map[string]bool, anyp *bool, seen map[string]bool) {
	k := tkey(t)
	if seen[k] {
		return
	}
	seen[k] = true
	out[k] = true
	out[tkey(t.Underlying())] = true
	switch u := t.Underlying().(type) {
	case *types.Struct:
		for i := 0; i < u.NumFields(); i++ {
			memClosure(u.Field(i).Type(), out, anyp, seen)
		}
	case *types.Array:
		memClosure(u.Elem(), out, anyp, seen)
	case *types.Pointer:
		memClosure(u.Elem(), out, anyp, seen)
	case *types.Slice:
		memClosure(u.Elem(), out, anyp, seen)
	case *types.Map:
		memClosure(u.Key(), out, anyp, seen)
		memClosure(u.Elem(), out, anyp, seen)
	case *types.Chan:
		memClosure(u.Elem(), out, anyp, seen)
	case *types.Interface, *types.TypeParam:
		*anyp = true
	case *types.Signature:
		// closures may capture anything, but a func value cannot be stored *through*
	}
}

// mem(R): the cell types of the memory a store "through R" can hit.  For a package variable:
// its own storage and everything reachable; for a parameter: only what is reachable through
// references (the parameter variable itself is a private copy).
func (an *analysis) mem(r *types.Var) (map[string]bool, bool) {
	if m, ok := an.memCache[r]; ok {
		return m, an.memAny[r]
	}
	out := map[string]bool{}
	anyp := false
	seen := map[string]bool{}
	if _, isPkg := an.pkgVars[r]; isPkg {
		if an.opaque[r] {
			out[tkey(r.Type())] = true // only the variable's own cell; the error value it holds is immutable
		} else {
			memClosure(r.Type(), out, &anyp, seen)
		}
	} else {
		var refMem func(t types.Type)
		refMem = func(t types.Type) {
			switch u := t.Underlying().(type) {
			case *types.Pointer:
				memClosure(u.Elem(), out, &anyp, seen)
			case *types.Slice:
				memClosure(u.Elem(), out, &anyp, seen)
			case *types.Map:
				memClosure(u.Key(), out, &anyp, seen)
				memClosure(u.Elem(), out, &anyp, seen)
			case *types.Chan:
				memClosure(u.Elem(), out, &anyp, seen)
			case *types.Struct:
				for i := 0; i < u.NumFields(); i++ {
					refMem(u.Field(i).Type())
				}
			case *types.Array:
				refMem(u.Elem())
			case *types.Interface, *types.TypeParam:
				anyp = true
			}
		}
		refMem(r.Type())
	}
	an.memCache[r] = out
	an.memAny[r] = anyp
	return out, anyp
}

func (an *analysis) hits(r *types.Var, elem string) bool {
	m, a := an.mem(r)
	return a || elem == anyType || m[elem]
}

// ---------------------------------------------------------------- per-function walk

type fctx struct {
	an *analysis
	fi *funcInfo
	in *types.Info
}

func (c *fctx) typeOf(e ast.Expr) types.Type {
	if tv, ok := c.in.Types[e]; ok {
		return tv.Type
	}
	if id, ok := e.(*ast.Ident); ok {
		if o := c.in.Uses[id]; o != nil {
			return o.Type()
		}
		if o := c.in.Defs[id]; o != nil {
			return o.Type()
		}
	}
	return nil
}

func (c *fctx) objOf(id *ast.Ident) types.Object {
	if o := c.in.Uses[id]; o != nil {
		return o
	}
	return c.in.Defs[id]
}

func (c *fctx) varRoots(v *types.Var) rootSet {
	out := rootSet{}
	if _, ok := c.an.pkgVars[v]; ok {
		out[v] = struct{}{}
		return out
	}
	if _, ok := c.fi.pidx[v]; ok {
		out[v] = struct{}{}
	}
	if a, ok := c.fi.alias[v]; ok {
		out.addAll(a)
	}
	if a, ok := c.fi.captured[v]; ok {
		out.addAll(a)
	}
	return out
}

// rootsOf: the roots whose memory the value of e may reference (or, for an lvalue prefix, be part of)
func (c *fctx) rootsOf(e ast.Expr) rootSet {
	switch x := e.(type) {
	case nil:
		return rootSet{}
	case *ast.Ident:
		if v, ok := c.objOf(x).(*types.Var); ok {
			if _, isPkg := c.an.pkgVars[v]; !isPkg {
				if rs, ok := c.reachingDef(v, x); ok {
					if _, isParam := c.fi.pidx[v]; isParam && false {
						rs[v] = struct{}{}
					}
					return rs
				}
			}
			return c.varRoots(v)
		}
		return rootSet{}
	case *ast.ParenExpr:
		return c.rootsOf(x.X)
	case *ast.SelectorExpr:
		if sel, ok := c.in.Selections[x]; ok {
			if sel.Kind() == types.FieldVal {
				return c.rootsOf(x.X)
			}
			return c.rootsOf(x.X) // method value: closure over the receiver
		}
		// qualified identifier
		if v, ok := c.in.Uses[x.Sel].(*types.Var); ok {
			return c.varRoots(v)
		}
		return rootSet{}
	case *ast.IndexExpr:
		return c.rootsOf(x.X)
	case *ast.IndexListExpr:
		return c.rootsOf(x.X)
	case *ast.SliceExpr:
		return c.rootsOf(x.X)
	case *ast.StarExpr:
		return c.rootsOf(x.X)
	case *ast.UnaryExpr:
		if x.Op == token.AND || x.Op == token.ARROW {
			return c.rootsOf(x.X)
		}
		return rootSet{}
	case *ast.TypeAssertExpr:
		return c.rootsOf(x.X)
	case *ast.CompositeLit:
		out := rootSet{}
		for _, el := range x.Elts {
			if kv, ok := el.(*ast.KeyValueExpr); ok {
				el = kv.Value
			}
			if t := c.typeOf(el); t == nil || refs(t) {
				out.addAll(c.rootsOf(el))
			}
		}
		return out
	case *ast.FuncLit:
		return rootSet{} // captured variables are handled because the body shares the alias map
	case *ast.CallExpr:
		return c.callResultRoots(x, -1)
	case *ast.BinaryExpr, *ast.BasicLit:
		return rootSet{}
	case *ast.KeyValueExpr:
		return c.rootsOf(x.Value)
	}
	return rootSet{}
}

// valueRoots = rootsOf pruned by type: a value without references aliases nothing
func (c *fctx) valueRoots(e ast.Expr) rootSet {
	if t := c.typeOf(e); t != nil && !refs(t) {
		return rootSet{}
	}
	return c.rootsOf(e)
}

type callTarget struct {
	static  []*funcInfo  // module functions that may be called
	ext     *types.Func  // function/method outside the module (or interface method declared outside)
	extDyn  bool         // ext is an interface method (dynamic) – implementations outside the module possible
	builtin string
	conv    bool
	dynamic bool // func value
	recv    ast.Expr
}

func (c *fctx) resolve(call *ast.CallExpr) callTarget {
	fun := call.Fun
	for {
		if p, ok := fun.(*ast.ParenExpr); ok {
			fun = p.X
			continue
		}
		break
	}
	if tv, ok := c.in.Types[fun]; ok && tv.IsType() {
		return callTarget{conv: true}
	}
	switch f := fun.(type) {
	case *ast.Ident:
		switch o := c.objOf(f).(type) {
		case *types.Builtin:
			return callTarget{builtin: o.Name()}
		case *types.Func:
			if fi, ok := c.an.funcs[o]; ok {
				return callTarget{static: []*funcInfo{fi}}
			}
			return callTarget{ext: o}
		case *types.TypeName:
			return callTarget{conv: true}
		}
		return callTarget{dynamic: true}
	case *ast.SelectorExpr:
		if sel, ok := c.in.Selections[f]; ok {
			if sel.Kind() == types.FieldVal {
				return callTarget{dynamic: true}
			}
			m := sel.Obj().(*types.Func)
			if types.IsInterface(sel.Recv()) {
				cands := c.an.implementers(sel.Recv(), m)
				ct := callTarget{static: cands, recv: f.X}
				if m.Pkg() == nil || !c.an.inModule(m.Pkg()) {
					ct.ext = m
					ct.extDyn = true
				}
				return ct
			}
			if fi, ok := c.an.funcs[m]; ok {
				return callTarget{static: []*funcInfo{fi}, recv: f.X}
			}
			// generic instantiation or external method
			if o := m.Origin(); o != nil {
				if fi, ok := c.an.funcs[o]; ok {
					return callTarget{static: []*funcInfo{fi}, recv: f.X}
				}
			}
			return callTarget{ext: m, recv: f.X}
		}
		switch o := c.in.Uses[f.Sel].(type) {
		case *types.Func:
			if fi, ok := c.an.funcs[o]; ok {
				return callTarget{static: []*funcInfo{fi}}
			}
			return callTarget{ext: o}
		case *types.TypeName:
			return callTarget{conv: true}
		case *types.Builtin:
			return callTarget{builtin: o.Name()}
		}
		return callTarget{dynamic: true}
	}
	return callTarget{dynamic: true}
}

func (an *analysis) inModule(p *types.Package) bool {
	if p == nil {
		return false
	}
	pi, ok := an.prog.byPath[p.Path()]
	return ok && pi.inMod
}

// implementers: module methods named like m on module types whose method set satisfies iface
func (an *analysis) implementers(recv types.Type, m *types.Func) []*funcInfo {
	key := tkey(recv) + "#" + m.Name()
	if r, ok := an.dispatch[key]; ok {
		return r
	}
	iface, _ := recv.Underlying().(*types.Interface)
	var out []*funcInfo
	if iface != nil {
		for _, nt := range an.named {
			if types.IsInterface(nt) {
				continue
			}
			for _, t := range []types.Type{nt, types.NewPointer(nt)} {
				if types.Implements(t, iface) {
					o, _, _ := types.LookupFieldOrMethod(t, true, m.Pkg(), m.Name())
					if fn, ok := o.(*types.Func); ok {
						if fi, ok := an.funcs[fn]; ok {
							dup := false
							for _, e := range out {
								if e == fi {
									dup = true
								}
							}
							if !dup {
								out = append(out, fi)
							}
						}
					}
				}
			}
		}
	}
	an.dispatch[key] = out
	return out
}

// args of a call in callee-parameter order (receiver first for method calls)
func (c *fctx) callArgs(call *ast.CallExpr, ct callTarget) []ast.Expr {
	var args []ast.Expr
	if ct.recv != nil {
		args = append(args, ct.recv)
	}
	return append(args, call.Args...)
}

func paramIndexForArg(fi *funcInfo, argIdx int) int {
	if len(fi.params) == 0 {
		return -1
	}
	if argIdx >= len(fi.params) {
		return len(fi.params) - 1 // variadic tail
	}
	return argIdx
}

func extName(f *types.Func) string {
	if f == nil {
		return "?"
	}
	sig, _ := f.Type().(*types.Signature)
	if sig != nil && sig.Recv() != nil {
		return "(" + types.TypeString(sig.Recv().Type(), func(p *types.Package) string { return p.Path() }) + ")." + f.Name()
	}
	if f.Pkg() != nil {
		return f.Pkg().Path() + "." + f.Name()
	}
	return f.Name()
}

// translate a callee-side summary root (callee pkgvar or callee parameter) to caller-side roots
func (c *fctx) translate(callee *funcInfo, r *types.Var, args []ast.Expr) rootSet {
	if _, ok := c.an.pkgVars[r]; ok {
		return rootSet{r: {}}
	}
	out := rootSet{}
	if i, ok := callee.pidx[r]; ok {
		for ai, a := range args {
			if paramIndexForArg(callee, ai) == i {
				out.addAll(c.valueRoots(a))
			}
		}
	}
	return out
}

// callResultRoots: roots of result number idx of the call (idx < 0: of any result)
func (c *fctx) callResultRoots(call *ast.CallExpr, idx int) rootSet {
	ct := c.resolve(call)
	out := rootSet{}
	if t := c.typeOf(call); t != nil {
		if tup, ok := t.(*types.Tuple); ok && idx >= 0 && idx < tup.Len() {
			if !refs(tup.At(idx).Type()) {
				return out
			}
		} else if !refs(t) {
			return out
		}
	}
	switch {
	case ct.conv:
		if len(call.Args) == 1 {
			return c.valueRoots(call.Args[0])
		}
		return out
	case ct.builtin != "":
		switch ct.builtin {
		case "append":
			for i, a := range call.Args {
				if i == 0 {
					out.addAll(c.valueRoots(a))
				} else if t := c.typeOf(a); t != nil {
					// appended elements: only their references are copied
					et := t
					if call.Ellipsis.IsValid() && i == len(call.Args)-1 {
						if s, ok := t.Underlying().(*types.Slice); ok {
							et = s.Elem()
						}
					}
					if refs(et) {
						out.addAll(c.rootsOf(a))
					}
				}
			}
		case "min", "max", "new", "make", "len", "cap", "copy", "recover", "real", "imag", "complex":
		}
		return out
	}
	args := c.callArgs(call, ct)
	for _, callee := range ct.static {
		for ri, rs := range callee.retAlias {
			if idx >= 0 && ri != idx {
				continue
			}
			for r := range rs {
				out.addAll(c.translate(callee, r, args))
			}
		}
	}
	if ct.ext != nil || ct.dynamic {
		if ct.ext != nil {
			if e, ok := extTable[extName(ct.ext)]; ok && e.fresh {
				return out
			}
		}
		// unknown code: the result may alias any argument
		for _, a := range args {
			out.addAll(c.valueRoots(a))
		}
	}
	return out
}

// directRootsOf: the roots whose memory the VALUE of e itself may point to.  A freshly allocated object that
// merely contains references (a composite literal, the result of a constructor) points to none; rootsOf also
// reports what the object contains.  The split keeps "p.f = v" on a fresh wrapper apart from a store into the
// caller's object.
func (c *fctx) directRootsOf(e ast.Expr) rootSet {
	if t := c.typeOf(e); t != nil && !refs(t) {
		return rootSet{}
	}
	switch x := e.(type) {
	case nil:
		return rootSet{}
	case *ast.ParenExpr:
		return c.directRootsOf(x.X)
	case *ast.Ident:
		if v, ok := c.objOf(x).(*types.Var); ok {
			return c.directRoots(v, x)
		}
		return rootSet{}
	case *ast.CompositeLit, *ast.FuncLit, *ast.BasicLit:
		return rootSet{}
	case *ast.UnaryExpr:
		if x.Op == token.AND {
			switch in := unparen(x.X).(type) {
			case *ast.CompositeLit:
				return rootSet{}
			case *ast.Ident:
				if v, ok := c.objOf(in).(*types.Var); ok {
					if _, isPkg := c.an.pkgVars[v]; isPkg {
						return rootSet{v: {}}
					}
					return rootSet{} // address of a local's own storage
				}
			}
			return c.rootsOf(x.X)
		}
		return c.valueRoots(e)
	case *ast.TypeAssertExpr:
		return c.directRootsOf(x.X)
	case *ast.SliceExpr:
		return c.directRootsOf(x.X)
	case *ast.CallExpr:
		return c.callResultDirect(x, -1)
	}
	return c.valueRoots(e) // loaded from memory (x.f, x[i], *x): whatever is reachable
}

// callResultDirect: like callResultRoots, for what result idx itself may point to
func (c *fctx) callResultDirect(call *ast.CallExpr, idx int) rootSet {
	ct := c.resolve(call)
	out := rootSet{}
	if t := c.typeOf(call); t != nil {
		if tup, ok := t.(*types.Tuple); ok && idx >= 0 && idx < tup.Len() {
			if !refs(tup.At(idx).Type()) {
				return out
			}
		} else if !refs(t) {
			return out
		}
	}
	switch {
	case ct.conv:
		if len(call.Args) == 1 {
			return c.directRootsOf(call.Args[0])
		}
		return out
	case ct.builtin != "":
		if ct.builtin == "append" && len(call.Args) > 0 {
			return c.directRootsOf(call.Args[0])
		}
		return out
	}
	args := c.callArgs(call, ct)
	for _, callee := range ct.static {
		for ri, rs := range callee.retDirect {
			if idx >= 0 && ri != idx {
				continue
			}
			for r := range rs {
				if _, ok := c.an.pkgVars[r]; ok {
					out[r] = struct{}{}
				} else if i, ok := callee.pidx[r]; ok {
					for ai, a := range args {
						if paramIndexForArg(callee, ai) == i {
							out.addAll(c.directRootsOf(a))
						}
					}
				}
			}
		}
	}
	if ct.ext != nil || ct.dynamic {
		if ct.ext != nil {
			if e, ok := extTable[extName(ct.ext)]; ok && e.fresh {
				return out
			}
		}
		for _, a := range args {
			out.addAll(c.valueRoots(a))
		}
	}
	return out
}

// ---------------------------------------------------------------- lvalues

type lstep struct {
	expr  ast.Expr // the prefix expression P that this step is applied to
	deref bool     // the step dereferences P (pointer/slice/map)
	elem  types.Type
	kind  string // "index" | "field" | "star"
	field string
}

// decompose an lvalue into base identifier and steps (outermost last)
func (c *fctx) decompose(e ast.Expr) (base *ast.Ident, baseVar *types.Var, steps []lstep, ok bool) {
	switch x := e.(type) {
	case *ast.ParenExpr:
		return c.decompose(x.X)
	case *ast.Ident:
		if x.Name == "_" {
			return x, nil, nil, true
		}
		v, _ := c.objOf(x).(*types.Var)
		return x, v, nil, v != nil
	case *ast.SelectorExpr:
		if sel, isSel := c.in.Selections[x]; isSel && sel.Kind() == types.FieldVal {
			b, bv, st, ok := c.decompose(x.X)
			if !ok {
				// base is not an identifier chain (e.g. call result): treat prefix as opaque root expr
				st = nil
			}
			pt := c.typeOf(x.X)
			s := lstep{expr: x.X, kind: "field", field: x.Sel.Name}
			if pt != nil {
				if p, isPtr := pt.Underlying().(*types.Pointer); isPtr {
					s.deref = true
					s.elem = p.Elem()
				}
			}
			// promoted fields through embedded pointers are dereferences too
			if !s.deref && len(sel.Index()) > 1 && sel.Indirect() {
				s.deref = true
				s.elem = nil
			}
			return b, bv, append(st, s), ok
		}
		// qualified package variable
		if v, isVar := c.in.Uses[x.Sel].(*types.Var); isVar {
			return x.Sel, v, nil, true
		}
		return nil, nil, nil, false
	case *ast.IndexExpr:
		b, bv, st, ok := c.decompose(x.X)
		pt := c.typeOf(x.X)
		s := lstep{expr: x.X, kind: "index"}
		if pt != nil {
			switch u := pt.Underlying().(type) {
			case *types.Slice:
				s.deref, s.elem = true, u.Elem()
			case *types.Map:
				s.deref, s.elem = true, u.Elem()
			case *types.Pointer: // pointer to array
				s.deref = true
				if a, isArr := u.Elem().Underlying().(*types.Array); isArr {
					s.elem = a.Elem()
				}
			}
		}
		return b, bv, append(st, s), ok
	case *ast.StarExpr:
		b, bv, st, ok := c.decompose(x.X)
		s := lstep{expr: x.X, kind: "star", deref: true}
		if pt := c.typeOf(x.X); pt != nil {
			if p, isPtr := pt.Underlying().(*types.Pointer); isPtr {
				s.elem = p.Elem()
			}
		}
		return b, bv, append(st, s), ok
	}
	return nil, nil, nil, false
}

func stepKind(steps []lstep, how string) string {
	k := "assign"
	for _, s := range steps {
		switch s.kind {
		case "index":
			k = "elem-store"
		case "field":
			if k == "assign" {
				k = "field-store"
			}
		case "star":
			if k == "assign" {
				k = "deref-store"
			}
		}
	}
	switch how {
	case "opassign", "incdec":
		if k == "assign" {
			return how
		}
		return how + "-" + k
	case "range", "copy-dst":
		return how + "-" + k
	}
	return k
}

func firstField(steps []lstep) string {
	for _, s := range steps {
		if s.kind == "field" {
			return s.field
		}
	}
	return ""
}

// recordStoreThrough: a store into a cell of element type elem reached through a reference rooted at R
// direct: the cell is in the object the root's value points to itself (p.f = v, p[i] = v); otherwise it is
// somewhere deeper in memory reachable from it.  The distinction is carried in the summaries ("d:"/"x:"
// prefix of the element type) so that a store into a fresh object that merely CONTAINS a reference to a
// root's memory is not taken for a store into that memory.
func (c *fctx) recordStoreThrough(r *types.Var, elem string, kind, field string, pos token.Pos, direct bool) {
	if !c.an.hits(r, elem) {
		return
	}
	tag := "x:"
	if direct {
		tag = "d:"
	}
	if _, isPkg := c.an.pkgVars[r]; isPkg {
		if c.an.final {
			c.an.stores = append(c.an.stores, storeFact{root: r, fn: c.fi, kind: kind, field: field, pos: c.an.prog.fset.Position(pos)})
		}
		return
	}
	if i, ok := c.fi.pidx[r]; ok {
		m := c.fi.storesThru[i]
		if m == nil {
			m = map[string]bool{}
			c.fi.storesThru[i] = m
		}
		if !m[tag+elem] {
			m[tag+elem] = true
			c.an.changed = true
		}
		if c.an.final {
			c.an.pstores = append(c.an.pstores, storeFact{root: r, fn: c.fi, kind: kind, field: field, pos: c.an.prog.fset.Position(pos), direct: direct})
		}
	}
}

func (c *fctx) recordUnknown(r *types.Var, what string, pos token.Pos) {
	p := c.an.prog.fset.Position(pos)
	desc := fmt.Sprintf("%s @%s:%d", what, shortFile(c.an.prog, p.Filename), p.Line)
	if pv, isPkg := c.an.pkgVars[r]; isPkg {
		if c.an.final {
			c.an.unknowns = append(c.an.unknowns, unknownFact{what: "pkgvar " + pv.name, where: c.fi.name, detail: desc, lib: pv.pkg.isLib || c.fi.pkg.isLib})
		}
		return
	}
	if i, ok := c.fi.pidx[r]; ok {
		m := c.fi.unknownVia[i]
		if m == nil {
			m = map[string]bool{}
			c.fi.unknownVia[i] = m
		}
		if !m[what] {
			m[what] = true
			c.an.changed = true
		}
	}
}

func shortFile(p *program, f string) string {
	if strings.HasPrefix(f, p.repo+"/") {
		return f[len(p.repo)+1:]
	}
	return f
}

// store: an assignment-like write to lvalue e
func (c *fctx) store(e ast.Expr, how string) {
	_, bv, steps, ok := c.decompose(e)
	if !ok {
		// lvalue not rooted at an identifier, e.g. f().x = v : the prefix expression's roots decide
		if se, isSel := e.(*ast.SelectorExpr); isSel {
			for r := range c.rootsOf(se.X) {
				c.recordStoreThrough(r, anyType, "alias-"+how+"-store", se.Sel.Name, e.Pos(), false)
			}
		} else if ie, isIdx := e.(*ast.IndexExpr); isIdx {
			for r := range c.rootsOf(ie.X) {
				c.recordStoreThrough(r, anyType, "alias-"+how+"-store", "", e.Pos(), false)
			}
		}
		return
	}
	if bv == nil {
		return // blank
	}
	kind := stepKind(steps, how)
	if pv, isPkg := c.an.pkgVars[bv]; isPkg {
		_ = pv
		if c.an.final {
			c.an.stores = append(c.an.stores, storeFact{root: bv, fn: c.fi, kind: kind, field: firstField(steps), pos: c.an.prog.fset.Position(e.Pos())})
		}
		return
	}
	// local variable or parameter: only dereferencing steps leave the private copy
	for i, s := range steps {
		if !s.deref {
			continue
		}
		elem := anyType
		if s.elem != nil {
			elem = tkey(s.elem)
		}
		// the cell finally written is below this prefix; its type is the type of the full lvalue
		// if later steps are plain field/array selections inside the element.
		_ = i
		roots, direct := c.prefixRoots(s.expr)
		for r := range roots {
			field := ""
			if r == bv {
				field = firstField(steps)
			}
			k := kind
			if r != bv {
				k = "alias-" + kind
			}
			c.recordStoreThrough(r, elem, k, field, e.Pos(), direct)
		}
	}
}

// prefixRoots: roots of a reference-typed lvalue prefix; for a bare identifier only what the variable itself
// points to (not what the pointed-to object contains), and the store is then a direct one
func (c *fctx) prefixRoots(e ast.Expr) (rootSet, bool) {
	if id, ok := unparen(e).(*ast.Ident); ok {
		if v, ok := c.objOf(id).(*types.Var); ok {
			return c.directRoots(v, id), true
		}
	}
	return c.rootsOf(e), false
}

func (c *fctx) directRoots(v *types.Var, id *ast.Ident) rootSet {
	out := rootSet{}
	if _, isPkg := c.an.pkgVars[v]; isPkg {
		out[v] = struct{}{}
		return out
	}
	if id != nil {
		if rs, ok := c.reachingDefOpt(v, id, false); ok {
			return rs
		}
	}
	if _, ok := c.fi.pidx[v]; ok {
		out[v] = struct{}{}
	}
	if a, ok := c.fi.alias[v]; ok {
		out.addAll(a)
	}
	return out
}

// bind2: like bind, with the roots the value itself points to (ds) kept apart from everything it may
// reference (rs ⊇ ds): a local's alias set holds the former, its captured set the latter
func (c *fctx) bind2(lhs ast.Expr, ds, rs rootSet) {
	if id, ok := unparen(lhs).(*ast.Ident); ok && id.Name != "_" {
		if v, ok := c.objOf(id).(*types.Var); ok {
			if _, isPkg := c.an.pkgVars[v]; !isPkg {
				if len(ds) > 0 {
					c.addAlias(v, ds)
				}
				if len(rs) > 0 {
					c.addCaptured(v, rs)
				}
				return
			}
		}
	}
	c.bind(lhs, rs)
}

// bind: value of rhs flows into lvalue lhs (aliasing)
func (c *fctx) bind(lhs ast.Expr, rs rootSet) {
	if len(rs) == 0 {
		return
	}
	_, bv, steps, ok := c.decompose(lhs)
	if !ok || bv == nil {
		return
	}
	if _, isPkg := c.an.pkgVars[bv]; isPkg {
		return
	}
	if len(steps) == 0 {
		c.addAlias(bv, rs)
		return
	}
	// x.f = v / x[i] = v : the object x refers to now CONTAINS references to rs (object-level capture)
	c.addCaptured(bv, rs)
	for r := range c.varRoots(bv) {
		if i, isParam := c.fi.pidx[r]; isParam {
			cs := c.fi.captures[i]
			if cs == nil {
				cs = rootSet{}
				c.fi.captures[i] = cs
			}
			tmp := rootSet{}
			for k := range rs {
				if k != r {
					tmp[k] = struct{}{}
				}
			}
			if cs.addAll(tmp) {
				c.an.changed = true
			}
		}
	}
}

func (c *fctx) addAlias(v *types.Var, rs rootSet) {
	if _, isParam := c.fi.pidx[v]; isParam {
		// a parameter variable reassigned: it now may also reference rs
	}
	a := c.fi.alias[v]
	if a == nil {
		a = rootSet{}
		c.fi.alias[v] = a
	}
	tmp := rootSet{}
	for k := range rs {
		if k != v {
			tmp[k] = struct{}{}
		}
	}
	if a.addAll(tmp) {
		c.an.changed = true
	}
}

// ---------------------------------------------------------------- calls

func (c *fctx) handleCall(call *ast.CallExpr) {
	ct := c.resolve(call)
	switch {
	case ct.conv:
		return
	case ct.builtin != "":
		switch ct.builtin {
		case "copy":
			if len(call.Args) == 2 {
				c.storeInto(call.Args[0], "copy-dst", call.Pos())
			}
		case "clear":
			if len(call.Args) == 1 {
				c.storeInto(call.Args[0], "clear", call.Pos())
			}
		case "append":
			// append may write into spare capacity of its first argument's backing array
			if len(call.Args) >= 1 {
				if se, ok := call.Args[0].(*ast.SliceExpr); ok {
					// append(x[:k], ...) overwrites x[k:] in place
					c.storeInto(se.X, "append-inplace", call.Pos())
				} else {
					// append(x, ...) writes behind len(x) when x has spare capacity – x may be a sub-slice of a
					// caller's buffer (this is how codestream.mergeTilePart overwrites the encoded input)
					c.storeInto(call.Args[0], "append-spare-capacity", call.Pos())
				}
			}
		case "delete":
			if len(call.Args) >= 1 {
				c.storeInto(call.Args[0], "delete", call.Pos())
			}
		}
		return
	}
	args := c.callArgs(call, ct)
	for _, callee := range ct.static {
		if c.an.final || true {
			if !c.fi.callees[callee] {
				c.fi.callees[callee] = true
			}
		}
		for pi, elems := range callee.storesThru {
			for ai, a := range args {
				if paramIndexForArg(callee, ai) != pi {
					continue
				}
				for key := range elems {
					el, direct := key[2:], key[0] == 'd'
					roots := c.valueRoots(a)
					if direct {
						roots = c.directRootsOf(a)
					}
					for r := range roots {
						c.recordStoreThrough(r, el, "call:"+callee.name, "", call.Pos(), direct)
					}
				}
			}
		}
		for pi, whats := range callee.unknownVia {
			for ai, a := range args {
				if paramIndexForArg(callee, ai) != pi {
					continue
				}
				for r := range c.valueRoots(a) {
					for w := range whats {
						c.recordUnknown(r, w, call.Pos())
					}
				}
			}
		}
		for pi, srcs := range callee.captures {
			for ai, a := range args {
				if paramIndexForArg(callee, ai) != pi {
					continue
				}
				rs := rootSet{}
				for s := range srcs {
					rs.addAll(c.translate(callee, s, args))
				}
				c.bindObject(a, rs)
			}
		}
	}
	if ct.ext != nil {
		c.handleExternal(call, ct, args)
	} else if ct.dynamic {
		for _, a := range args {
			for r := range c.valueRoots(a) {
				c.recordUnknown(r, "passed to a func value", call.Pos())
			}
		}
	}
}

// bindObject: the object referenced by expression a captures references rs
func (c *fctx) bindObject(a ast.Expr, rs rootSet) {
	if len(rs) == 0 {
		return
	}
	for {
		switch x := a.(type) {
		case *ast.ParenExpr:
			a = x.X
			continue
		case *ast.UnaryExpr:
			if x.Op == token.AND {
				a = x.X
				continue
			}
		}
		break
	}
	_, bv, _, ok := c.decompose(a)
	if !ok || bv == nil {
		return
	}
	if _, isPkg := c.an.pkgVars[bv]; isPkg {
		return
	}
	c.addCaptured(bv, rs)
	for r := range c.varRoots(bv) {
		if i, isParam := c.fi.pidx[r]; isParam {
			cs := c.fi.captures[i]
			if cs == nil {
				cs = rootSet{}
				c.fi.captures[i] = cs
			}
			tmp := rootSet{}
			for k := range rs {
				if k != r {
					tmp[k] = struct{}{}
				}
			}
			if cs.addAll(tmp) {
				c.an.changed = true
			}
		}
	}
}

func (c *fctx) addCaptured(v *types.Var, rs rootSet) {
	if c.fi.captured == nil {
		c.fi.captured = map[*types.Var]rootSet{}
	}
	a := c.fi.captured[v]
	if a == nil {
		a = rootSet{}
		c.fi.captured[v] = a
	}
	tmp := rootSet{}
	for k := range rs {
		if k != v {
			tmp[k] = struct{}{}
		}
	}
	if a.addAll(tmp) {
		c.an.changed = true
	}
}

// storeInto: the memory referenced by value expression e (a slice, map or pointer) is written
func (c *fctx) storeInto(e ast.Expr, how string, pos token.Pos) {
	t := c.typeOf(e)
	elem := anyType
	if t != nil {
		switch u := t.Underlying().(type) {
		case *types.Slice:
			elem = tkey(u.Elem())
		case *types.Map:
			elem = tkey(u.Elem())
		case *types.Pointer:
			elem = tkey(u.Elem())
		case *types.Array:
			// copy(arr[:], ..) arrives here as a slice expression; a bare array cannot
			elem = tkey(u.Elem())
		}
	}
	_, bv, steps, ok := c.decompose(stripSlice(e))
	sroots, sdirect := c.prefixRoots(stripSlice(e))
	for r := range sroots {
		k := how
		field := ""
		if ok && bv == r {
			field = firstField(steps)
			if _, isPkg := c.an.pkgVars[r]; isPkg {
				k = how + "-elem-store"
			}
		} else {
			k = "alias-" + how
		}
		c.recordStoreThrough(r, elem, k, field, pos, sdirect)
	}
}

func stripSlice(e ast.Expr) ast.Expr {
	for {
		switch x := e.(type) {
		case *ast.SliceExpr:
			e = x.X
		case *ast.ParenExpr:
			e = x.X
		default:
			return e
		}
	}
}

func (c *fctx) handleExternal(call *ast.CallExpr, ct callTarget, args []ast.Expr) {
	name := extName(ct.ext)
	ent, known := extTable[name]
	if !known {
		// fall back on the bare method name for interface methods declared outside the module
		if ct.extDyn {
			ent, known = extTable["iface."+ct.ext.Name()]
		}
	}
	for ai, a := range args {
		rs := c.valueRoots(a)
		if len(rs) == 0 {
			continue
		}
		if !known {
			for r := range rs {
				c.recordUnknown(r, "passed to "+name, call.Pos())
			}
			continue
		}
		for _, si := range ent.stores {
			if si == ai {
				c.storeInto(a, "ext:"+name, call.Pos())
			}
		}
	}
	if known && ent.captureInto >= 0 && ent.captureInto < len(args) {
		rs := rootSet{}
		for ai, a := range args {
			if ai != ent.captureInto {
				rs.addAll(c.valueRoots(a))
			}
		}
		c.bindObject(args[ent.captureInto], rs)
	}
}

// ---------------------------------------------------------------- statement walk

func (c *fctx) walkBody() {
	body := c.fi.body
	callFun := map[ast.Expr]bool{}
	ast.Inspect(body, func(n ast.Node) bool {
		switch s := n.(type) {
		case *ast.Ident:
			if fn, ok := c.in.Uses[s].(*types.Func); ok {
				if fi, ok := c.an.funcs[fn]; ok && !callFun[s] {
					c.fi.funcRefs[fi] = true
				}
			}
		case *ast.AssignStmt:
			c.assign(s)
		case *ast.IncDecStmt:
			c.store(s.X, "incdec")
		case *ast.RangeStmt:
			if s.Tok == token.ASSIGN {
				if s.Key != nil {
					c.store(s.Key, "range")
				}
				if s.Value != nil {
					c.store(s.Value, "range")
				}
			}
			if s.Value != nil {
				if t := c.typeOf(s.Value); t == nil || refs(t) {
					c.bind(s.Value, c.rootsOf(s.X))
				}
			}
			if s.Key != nil {
				if t := c.typeOf(s.Key); t != nil && refs(t) {
					c.bind(s.Key, c.rootsOf(s.X))
				}
			}
		case *ast.ValueSpec:
			for i, nm := range s.Names {
				if len(s.Values) == len(s.Names) {
					c.bind(nm, c.valueRoots(s.Values[i]))
				} else if len(s.Values) == 1 {
					if call, ok := unparen(s.Values[0]).(*ast.CallExpr); ok {
						c.bind(nm, c.callResultRoots(call, i))
					} else if i == 0 {
						c.bind(nm, c.valueRoots(s.Values[0]))
					}
				}
			}
		case *ast.TypeSwitchStmt:
			if as, ok := s.Assign.(*ast.AssignStmt); ok && len(as.Rhs) == 1 {
				if ta, ok := as.Rhs[0].(*ast.TypeAssertExpr); ok {
					rs := c.rootsOf(ta.X)
					for _, cl := range s.Body.List {
						if v, ok := c.in.Implicits[cl].(*types.Var); ok {
							c.addAlias(v, rs)
						}
					}
				}
			}
		case *ast.ReturnStmt:
			if len(s.Results) == 1 && len(c.fi.retAlias) > 1 {
				if call, ok := unparen(s.Results[0]).(*ast.CallExpr); ok {
					for i := range c.fi.retAlias {
						if c.fi.retAlias[i].addAll(c.callResultRoots(call, i)) {
							c.an.changed = true
						}
						if c.fi.retDirect[i].addAll(c.callResultDirect(call, i)) {
							c.an.changed = true
						}
					}
				}
			} else {
				for i, r := range s.Results {
					if i < len(c.fi.retAlias) && c.fi.retAlias[i].addAll(c.valueRoots(r)) {
						c.an.changed = true
					}
					if i < len(c.fi.retDirect) && c.fi.retDirect[i].addAll(c.directRootsOf(r)) {
						c.an.changed = true
					}
				}
			}
		case *ast.CallExpr:
			switch f := unparen(s.Fun).(type) {
			case *ast.Ident:
				callFun[f] = true
			case *ast.SelectorExpr:
				callFun[f.Sel] = true
			}
			c.handleCall(s)
		case *ast.SendStmt:
			// channel sends publish a reference
			for r := range c.valueRoots(s.Value) {
				c.recordUnknown(r, "sent on a channel", s.Pos())
			}
		}
		return true
	})
	// named results
	if c.fi.obj == nil {
		return
	}
	sig := c.fi.obj.Type().(*types.Signature)
	for i := 0; i < sig.Results().Len(); i++ {
		v := sig.Results().At(i)
		if v.Name() != "" && i < len(c.fi.retAlias) {
			if c.fi.retAlias[i].addAll(c.varRoots(v)) {
				c.an.changed = true
			}
			if c.fi.retDirect[i].addAll(c.directRoots(v, nil)) {
				c.an.changed = true
			}
		}
	}
}

func (c *fctx) assign(s *ast.AssignStmt) {
	how := "assign"
	if s.Tok != token.ASSIGN && s.Tok != token.DEFINE {
		how = "opassign"
	}
	for i, l := range s.Lhs {
		if s.Tok != token.DEFINE {
			c.store(l, how)
		} else if id, ok := l.(*ast.Ident); ok {
			// := may assign to an existing variable of an outer... only same-scope redeclaration: local
			_ = id
		}
		var rs, ds rootSet
		if len(s.Rhs) == len(s.Lhs) {
			rs, ds = c.valueRoots(s.Rhs[i]), c.directRootsOf(s.Rhs[i])
			if t := c.typeOf(l); t != nil && !refs(t) {
				rs, ds = nil, nil
			}
		} else if len(s.Rhs) == 1 {
			if call, ok := unparen(s.Rhs[0]).(*ast.CallExpr); ok {
				rs, ds = c.callResultRoots(call, i), c.callResultDirect(call, i)
			} else if i == 0 {
				rs, ds = c.valueRoots(s.Rhs[0]), c.directRootsOf(s.Rhs[0]) // v, ok := x.(T) / m[k] / <-ch
			}
			if t := c.typeOf(l); t != nil && !refs(t) {
				rs, ds = nil, nil
			}
		}
		if how == "assign" {
			c.bind2(l, ds, rs)
		}
	}
}

func (an *analysis) run() {
	for iter := 0; iter < 50; iter++ {
		an.changed = false
		for _, fi := range an.flist {
			c := &fctx{an: an, fi: fi, in: fi.pkg.info}
			c.walkBody()
		}
		if !an.changed {
			break
		}
	}
	an.final = true
	for _, fi := range an.flist {
		c := &fctx{an: an, fi: fi, in: fi.pkg.info}
		c.walkBody()
	}
	an.final = false
}
