package main

// F-alloc (C09): every `make(T, n[, cap])` in the DECODE PATH — the functions reachable (call graph with
// interface dispatch and function values, as computed by the alias analysis) from any library function or method whose
// name starts with "Decode" — with its size expressions classified by SHAPE:
//
//	const    a constant expression
//	len      built from len(..)/cap(..) of existing objects, constants, + - / % >> and multiplication by constants
//	single   at most one non-constant factor anywhere (a variable, field, call result: linear in one quantity)
//	product  a multiplication of two or more non-constant factors, or a shift by a non-constant amount
//
// A local variable used as a size is replaced by what is assigned to it in the same function (all assignments; op-assigns
// count as the operation), up to four levels deep, so `n := a*b; make([]T, n)` is a product of a and b.  What the shape
// cannot see: allocation inside loops (the nesting depth is recorded), append growth, and values that reach the
// function already multiplied (fields, parameters, call results).

import (
	"fmt"
	"go/ast"
	"go/token"
	"go/types"
	"sort"
	"strings"
)

const (
	acConst = iota
	acLen
	acSingle
	acProduct
)

var acNames = []string{"const", "len", "single", "product"}

type allocCtx struct {
	info *types.Info
	body ast.Node
	// assignments to local variables in this function: variable -> right-hand sides (nil entry: unknown, e.g. tuple call)
	defs map[*types.Var][]ast.Expr
}

func newAllocCtx(info *types.Info, body ast.Node) *allocCtx {
	c := &allocCtx{info: info, body: body, defs: map[*types.Var][]ast.Expr{}}
	obj := func(e ast.Expr) *types.Var {
		id, ok := unparen(e).(*ast.Ident)
		if !ok {
			return nil
		}
		o := info.Uses[id]
		if o == nil {
			o = info.Defs[id]
		}
		v, _ := o.(*types.Var)
		if v == nil || v.IsField() {
			return nil
		}
		return v
	}
	ast.Inspect(body, func(n ast.Node) bool {
		switch x := n.(type) {
		case *ast.AssignStmt:
			for i, l := range x.Lhs {
				v := obj(l)
				if v == nil {
					continue
				}
				switch {
				case len(x.Lhs) != len(x.Rhs):
					c.defs[v] = append(c.defs[v], nil)
				case x.Tok == token.ASSIGN || x.Tok == token.DEFINE:
					c.defs[v] = append(c.defs[v], x.Rhs[i])
				default: // op-assign: v op= rhs  ≡  v = v op rhs
					op := map[token.Token]token.Token{token.ADD_ASSIGN: token.ADD, token.SUB_ASSIGN: token.SUB, token.MUL_ASSIGN: token.MUL,
						token.QUO_ASSIGN: token.QUO, token.REM_ASSIGN: token.REM, token.SHL_ASSIGN: token.SHL, token.SHR_ASSIGN: token.SHR,
						token.AND_ASSIGN: token.AND, token.OR_ASSIGN: token.OR, token.XOR_ASSIGN: token.XOR, token.AND_NOT_ASSIGN: token.AND_NOT}[x.Tok]
					c.defs[v] = append(c.defs[v], &ast.BinaryExpr{X: l, Op: op, Y: x.Rhs[i]})
				}
			}
		case *ast.ValueSpec:
			for i, nm := range x.Names {
				v, _ := info.Defs[nm].(*types.Var)
				if v == nil {
					continue
				}
				if len(x.Values) == len(x.Names) {
					c.defs[v] = append(c.defs[v], x.Values[i])
				} else if len(x.Values) > 0 {
					c.defs[v] = append(c.defs[v], nil)
				}
			}
		case *ast.IncDecStmt:
			if v := obj(x.X); v != nil {
				c.defs[v] = append(c.defs[v], &ast.BinaryExpr{X: x.X, Op: token.ADD, Y: &ast.BasicLit{Kind: token.INT, Value: "1"}})
			}
		case *ast.RangeStmt:
			for _, e := range []ast.Expr{x.Key, x.Value} {
				if e != nil {
					if v := obj(e); v != nil {
						c.defs[v] = append(c.defs[v], nil)
					}
				}
			}
		}
		return true
	})
	return c
}

func maxInt(a, b int) int {
	if a > b {
		return a
	}
	return b
}

// classify returns the class of e, the number of non-constant factors of its widest product, and a display string
func (c *allocCtx) classify(e ast.Expr, depth int, busy map[*types.Var]bool) (int, string) {
	e = unparen(e)
	if tv, ok := c.info.Types[e]; ok && tv.Value != nil {
		return acConst, tv.Value.String()
	}
	switch x := e.(type) {
	case *ast.BasicLit:
		return acConst, x.Value
	case *ast.Ident:
		o := c.info.Uses[x]
		if o == nil {
			o = c.info.Defs[x]
		}
		v, _ := o.(*types.Var)
		if v == nil || v.IsField() || depth >= 4 || busy[v] {
			return acSingle, x.Name
		}
		rhs, ok := c.defs[v]
		if !ok || len(rhs) == 0 {
			return acSingle, x.Name // parameter, or never assigned here
		}
		busy[v] = true
		defer delete(busy, v)
		cls := acConst
		var parts []string
		for _, r := range rhs {
			if r == nil {
				cls = maxInt(cls, acSingle)
				parts = append(parts, "?")
				continue
			}
			k, s := c.classify(r, depth+1, busy)
			cls = maxInt(cls, k)
			parts = append(parts, s)
		}
		parts = uniqSorted(parts)
		if len(parts) == 1 {
			return cls, parts[0]
		}
		return cls, x.Name + "∈{" + strings.Join(parts, " | ") + "}"
	case *ast.SelectorExpr, *ast.IndexExpr, *ast.StarExpr, *ast.TypeAssertExpr:
		return acSingle, types.ExprString(e)
	case *ast.UnaryExpr:
		k, s := c.classify(x.X, depth, busy)
		return k, x.Op.String() + s
	case *ast.CallExpr:
		if tv, ok := c.info.Types[x.Fun]; ok && tv.IsType() && len(x.Args) == 1 {
			return c.classify(x.Args[0], depth, busy) // conversion
		}
		if id, ok := unparen(x.Fun).(*ast.Ident); ok {
			if b, ok := c.info.Uses[id].(*types.Builtin); ok {
				switch b.Name() {
				case "len", "cap":
					return acLen, types.ExprString(e)
				case "min", "max":
					cls := acConst
					var parts []string
					for _, a := range x.Args {
						k, s := c.classify(a, depth, busy)
						cls = maxInt(cls, k)
						parts = append(parts, s)
					}
					return cls, b.Name() + "(" + strings.Join(parts, ", ") + ")"
				}
			}
		}
		return acSingle, types.ExprString(x.Fun) + "(…)"
	case *ast.BinaryExpr:
		kl, sl := c.classify(x.X, depth, busy)
		kr, sr := c.classify(x.Y, depth, busy)
		disp := "(" + sl + " " + x.Op.String() + " " + sr + ")"
		switch x.Op {
		case token.MUL:
			if kl == acConst {
				return kr, disp
			}
			if kr == acConst {
				return kl, disp
			}
			return acProduct, disp
		case token.SHL:
			if kr == acConst {
				return kl, disp
			}
			return acProduct, disp // 2^variable
		case token.QUO, token.REM, token.SHR, token.AND_NOT:
			return maxInt(kl, minIntAlloc(kr, acConst)), disp
		default:
			return maxInt(kl, kr), disp
		}
	}
	return acSingle, types.ExprString(e)
}

func minIntAlloc(a, b int) int {
	if a < b {
		return a
	}
	return b
}

func emitAllocs(an *analysis, w func(string, ...any)) {
	prog := an.prog
	// entry points: library functions and methods whose name starts with "Decode"
	reach := map[*funcInfo]bool{}
	var queue []*funcInfo
	for _, fi := range an.flist {
		if fi.obj == nil || fi.pkg == nil || !fi.pkg.isLib || fi.decl == nil {
			continue
		}
		if strings.HasPrefix(fi.obj.Name(), "Decode") {
			reach[fi] = true
			queue = append(queue, fi)
		}
	}
	for len(queue) > 0 {
		f := queue[0]
		queue = queue[1:]
		for _, m := range []map[*funcInfo]bool{f.callees, f.funcRefs} {
			for g := range m {
				if !reach[g] {
					reach[g] = true
					queue = append(queue, g)
				}
			}
		}
	}
	var items, prods []string
	nFuncs := 0
	for _, fi := range an.flist {
		if !reach[fi] || fi.decl == nil || fi.decl.Body == nil || fi.pkg == nil || !fi.pkg.isLib {
			continue
		}
		file := prog.fset.Position(fi.decl.Pos()).Filename
		if strings.HasSuffix(file, "_test.go") || strings.Contains(file, "verif_") {
			continue
		}
		nFuncs++
		ctx := newAllocCtx(fi.pkg.info, fi.decl.Body)
		depth := 0
		var stack []ast.Node
		ast.Inspect(fi.decl.Body, func(n ast.Node) bool {
			if n == nil {
				switch stack[len(stack)-1].(type) {
				case *ast.ForStmt, *ast.RangeStmt:
					depth--
				}
				stack = stack[:len(stack)-1]
				return true
			}
			stack = append(stack, n)
			switch x := n.(type) {
			case *ast.ForStmt, *ast.RangeStmt:
				depth++
			case *ast.CallExpr:
				id, ok := unparen(x.Fun).(*ast.Ident)
				if !ok {
					break
				}
				if b, ok := fi.pkg.info.Uses[id].(*types.Builtin); !ok || b.Name() != "make" {
					break
				}
				for k := 1; k < len(x.Args) && k <= 2; k++ {
					cls, disp := ctx.classify(x.Args[k], 0, map[*types.Var]bool{})
					what := "len"
					if k == 2 {
						what = "cap"
					}
					items = append(items, fmt.Sprintf("(%s, %s, %s, %s, %s, %d)", q(prog.rel(fi.pkg.lp.ImportPath)), q(fi.short), q(what), q(disp), q(acNames[cls]), depth))
					if cls == acProduct {
						prods = append(prods, fmt.Sprintf("(%s, %s, %s)", q(prog.rel(fi.pkg.lp.ImportPath)), q(fi.short), q(disp)))
					}
				}
			}
			return true
		})
	}
	items = uniqSorted(items)
	sort.Strings(items)
	w("/-- F-alloc (C09): (package, function, len | cap, size expression with local variables resolved, shape class, loop nesting\n    depth) for every sized `make` in the functions reachable from a library function or method named Decode*;\n    shape class ∈ const | len | single | product (see gofacts/allocs.go) -/\n")
	w("def decodeMakes : List (String × String × String × String × String × Nat) := %s\n\n", leanList(items, true))
	w("/-- the entries of decodeMakes of shape class product: (package, function, size expression), sorted, without repeats -/\n")
	w("def decodeMakeProducts : List (String × String × String) := %s\n\n", leanList(uniqSorted(prods), true))
	w("/-- number of functions in the decode path that were scanned -/\n")
	w("def decodePathFunctions : Nat := %d\n\n", nFuncs)
}
