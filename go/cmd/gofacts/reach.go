package main

// Reaching-definition refinement of the (otherwise flow-insensitive) local alias map.
//
// For a use of a local variable v the analysis looks for the nearest definition of v that dominates the
// use syntactically: an earlier statement of an enclosing statement list (or the Init of an enclosing
// if/for/switch, or the range clause that declares v) with no other assignment to v, and no `&v`,
// anywhere between the definition and the use, and no assignment to v inside an enclosing loop body or
// a function literal.  If such a definition exists the roots of v at the use are the roots of the
// defining right-hand side (plus what was stored INTO the object v refers to: `captured`); otherwise the
// flow-insensitive alias set is used.  This removes the classic false alias
//     p := shared; if p == nil { p = fresh() }; …      and      x = make(…); x[i] = …

import (
	"go/ast"
	"go/token"
	"go/types"
)

type funcIndex struct {
	usePath   map[*ast.Ident][]ast.Node // node stack from the function body down to the identifier
	assignPos map[*types.Var][]token.Pos
	inFuncLit map[*types.Var]bool // assigned or address-taken inside a function literal
}

func (c *fctx) index() *funcIndex {
	if c.fi.idx != nil {
		return c.fi.idx
	}
	ix := &funcIndex{usePath: map[*ast.Ident][]ast.Node{}, assignPos: map[*types.Var][]token.Pos{}, inFuncLit: map[*types.Var]bool{}}
	c.fi.idx = ix
	var stack []ast.Node
	litDepth := 0
	noteAssign := func(e ast.Expr, pos token.Pos) {
		if id, ok := unparen(e).(*ast.Ident); ok {
			if v, ok := c.objOf(id).(*types.Var); ok {
				ix.assignPos[v] = append(ix.assignPos[v], pos)
				if litDepth > 0 {
					ix.inFuncLit[v] = true
				}
			}
		}
	}
	ast.Inspect(c.fi.body, func(n ast.Node) bool {
		if n == nil {
			top := stack[len(stack)-1]
			if _, ok := top.(*ast.FuncLit); ok {
				litDepth--
			}
			stack = stack[:len(stack)-1]
			return true
		}
		stack = append(stack, n)
		switch x := n.(type) {
		case *ast.FuncLit:
			litDepth++
		case *ast.AssignStmt:
			for _, l := range x.Lhs {
				noteAssign(l, x.Pos())
			}
		case *ast.IncDecStmt:
			noteAssign(x.X, x.Pos())
		case *ast.RangeStmt:
			if x.Key != nil {
				noteAssign(x.Key, x.Pos())
			}
			if x.Value != nil {
				noteAssign(x.Value, x.Pos())
			}
		case *ast.ValueSpec:
			for _, nm := range x.Names {
				noteAssign(nm, x.Pos())
			}
		case *ast.UnaryExpr:
			if x.Op == token.AND {
				noteAssign(x.X, x.Pos())
			}
		case *ast.Ident:
			if v, ok := c.objOf(x).(*types.Var); ok && !v.IsField() {
				if _, isPkg := c.an.pkgVars[v]; !isPkg && refs(v.Type()) {
					ix.usePath[x] = append([]ast.Node(nil), stack...)
				}
			}
		}
		return true
	})
	return ix
}

func (ix *funcIndex) assignedIn(v *types.Var, from, to token.Pos) bool {
	for _, p := range ix.assignPos[v] {
		if from <= p && p < to {
			return true
		}
	}
	return false
}

// directDef: statement s defines v as a whole; returns the roots of the value assigned
func (c *fctx) directDef(s ast.Stmt, v *types.Var, onlyDirect bool) (rootSet, bool) {
	val := c.valueRoots
	res := c.callResultRoots
	if onlyDirect {
		val = c.directRootsOf
		res = c.callResultDirect
	}
	switch x := s.(type) {
	case *ast.AssignStmt:
		if x.Tok != token.ASSIGN && x.Tok != token.DEFINE {
			return nil, false
		}
		for k, l := range x.Lhs {
			id, ok := unparen(l).(*ast.Ident)
			if !ok {
				continue
			}
			if ov, _ := c.objOf(id).(*types.Var); ov != v {
				continue
			}
			if len(x.Rhs) == len(x.Lhs) {
				return val(x.Rhs[k]), true
			}
			if len(x.Rhs) == 1 {
				if call, ok := unparen(x.Rhs[0]).(*ast.CallExpr); ok {
					return res(call, k), true
				}
				if k == 0 {
					return val(x.Rhs[0]), true
				}
				return rootSet{}, true
			}
		}
	case *ast.DeclStmt:
		gd, ok := x.Decl.(*ast.GenDecl)
		if !ok || gd.Tok != token.VAR {
			return nil, false
		}
		for _, sp := range gd.Specs {
			vs := sp.(*ast.ValueSpec)
			for k, nm := range vs.Names {
				if ov, _ := c.in.Defs[nm].(*types.Var); ov != v {
					continue
				}
				switch {
				case len(vs.Values) == 0:
					return rootSet{}, true // zero value
				case len(vs.Values) == len(vs.Names):
					return val(vs.Values[k]), true
				default:
					if call, ok := unparen(vs.Values[0]).(*ast.CallExpr); ok {
						return res(call, k), true
					}
				}
			}
		}
	}
	return nil, false
}

func stmtList(n ast.Node) []ast.Stmt {
	switch x := n.(type) {
	case *ast.BlockStmt:
		return x.List
	case *ast.CaseClause:
		return x.Body
	case *ast.CommClause:
		return x.Body
	}
	return nil
}

// reachingDef: roots of local v at the use `id`, if a unique dominating definition is found
func (c *fctx) reachingDef(v *types.Var, id *ast.Ident) (rootSet, bool) {
	return c.reachingDefOpt(v, id, true)
}

// withCaptured = false: only what the variable itself points to (see prefixRoots)
func (c *fctx) reachingDefOpt(v *types.Var, id *ast.Ident, withCaptured bool) (rootSet, bool) {
	if c.fi.inReach > 40 {
		return nil, false
	}
	ix := c.index()
	path, ok := ix.usePath[id]
	if !ok || ix.inFuncLit[v] {
		return nil, false
	}
	usePos := id.Pos()
	c.fi.inReach++
	defer func() { c.fi.inReach-- }()
	done := func(rs rootSet, defEnd token.Pos) (rootSet, bool) {
		if ix.assignedIn(v, defEnd, usePos) {
			return nil, false
		}
		out := rootSet{}
		out.addAll(rs)
		if cp, ok := c.fi.captured[v]; ok && withCaptured {
			out.addAll(cp)
		}
		return out, true
	}
	for k := len(path) - 2; k >= 0; k-- {
		node, child := path[k], path[k+1]
		if list := stmtList(node); list != nil {
			idx := -1
			for i, s := range list {
				if ast.Node(s) == child {
					idx = i
				}
			}
			if idx < 0 {
				continue // child is a case expression etc.
			}
			for j := idx - 1; j >= 0; j-- {
				if rs, ok := c.directDef(list[j], v, !withCaptured); ok {
					return done(rs, list[j].End())
				}
				if ix.assignedIn(v, list[j].Pos(), list[j].End()) {
					return nil, false
				}
			}
			continue
		}
		switch x := node.(type) {
		case *ast.IfStmt:
			if x.Init != nil && child != ast.Node(x.Init) {
				if rs, ok := c.directDef(x.Init, v, !withCaptured); ok {
					return done(rs, x.Init.End())
				}
				if ix.assignedIn(v, x.Init.Pos(), x.Init.End()) {
					return nil, false
				}
			}
		case *ast.SwitchStmt:
			if x.Init != nil && child != ast.Node(x.Init) {
				if rs, ok := c.directDef(x.Init, v, !withCaptured); ok {
					return done(rs, x.Init.End())
				}
			}
		case *ast.TypeSwitchStmt:
			return nil, false
		case *ast.ForStmt:
			if child == ast.Node(x.Init) {
				continue
			}
			// loop-carried definitions
			if ix.assignedIn(v, x.Body.Pos(), x.Body.End()) || (x.Post != nil && ix.assignedIn(v, x.Post.Pos(), x.Post.End())) {
				return nil, false
			}
			if x.Init != nil {
				if rs, ok := c.directDef(x.Init, v, !withCaptured); ok {
					return done(rs, x.Init.End())
				}
			}
		case *ast.RangeStmt:
			if child != ast.Node(x.Body) {
				continue
			}
			for _, kv := range []ast.Expr{x.Key, x.Value} {
				if kid, ok := kv.(*ast.Ident); ok && x.Tok == token.DEFINE {
					if ov, _ := c.in.Defs[kid].(*types.Var); ov == v {
						if ix.assignedIn(v, x.Body.Pos(), usePos) {
							return nil, false
						}
						rs := rootSet{}
						if refs(v.Type()) {
							rs = c.rootsOf(x.X)
						}
						out := rootSet{}
						out.addAll(rs)
						if cp, ok := c.fi.captured[v]; ok && withCaptured {
							out.addAll(cp)
						}
						return out, true
					}
				}
			}
			if ix.assignedIn(v, x.Body.Pos(), x.Body.End()) {
				return nil, false
			}
		case *ast.FuncLit, *ast.SelectStmt, *ast.LabeledStmt:
			return nil, false
		}
	}
	return nil, false
}
