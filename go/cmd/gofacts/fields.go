package main

// F3: per-field read / write / kill analysis of a stateful object type (jpeg2000.Encoder from
// Encode, jpeg2000.Decoder from Decode).
//
// For every function reachable from the entry method (static calls, interface dispatch resolved
// inside the module) every selection X.f with X of the object type is classified:
//   whole write   X.f = v            (plain `=`; the only access that can kill)
//   partial write X.f[i] = v, X.f.g = v, X.f op= v, X.f++, X.f handed to a callee that stores
//                 through it, a store through a local initialised from X.f   (read + write)
//   read          every other occurrence
//
// Kill analysis (path-insensitive abstract interpretation with state Unkilled/Killed over the
// statement structure, interprocedural through summaries):
//   readBeforeKill(m,f)  some path through m reads f while it is Unkilled
//   (loops: the body is walked once from the state before the loop; kills inside it do not survive the loop)
//   killsOnReturn(m,f)   every path to a return of m (for functions whose last result is an
//                        error: every return whose last result may be nil) has killed f
// The Go idioms `if err := call(); err != nil { …return }` and `x, err := call()` followed by
// `if err != nil { …return }` let a callee's error returns leave the field unkilled.
// class(f) = config     no write of f is reachable from the entry
//            writeonly  written, never read in the reachable code
//            killed     written and read, and ¬readBeforeKill(entry,f)
//            leaky      written and read, and readBeforeKill(entry,f)

import (
	"go/ast"
	"go/token"
	"go/types"
	"sort"
)

type fieldObj struct {
	typeName string // e.g. jpeg2000.Encoder
	entry    string
	named    *types.Named
	st       *types.Struct
	fields   []string
	ftypes   []string
	entryFn  *funcInfo
	reach    []*funcInfo
	reads    map[string]map[*funcInfo]bool // direct
	writes   map[string]map[*funcInfo]string
	mayRead  map[*funcInfo]map[string]bool // transitive
	class    map[string]string
	contents []contentStore // stores through reference-typed fields
	methodTR map[*funcInfo][]string
	an       *analysis
	sumMemo  map[sumKey]*killSum
	inProg   map[sumKey]bool
}

type contentStore struct{ field, sub, fn, kind string }

type sumKey struct {
	fn *funcInfo
	f  string
}
type killSum struct {
	readBeforeKill bool
	killsOnReturn  bool
}

func (an *analysis) reachableFrom(start *funcInfo) []*funcInfo {
	seen := map[*funcInfo]bool{start: true}
	work := []*funcInfo{start}
	for len(work) > 0 {
		f := work[len(work)-1]
		work = work[:len(work)-1]
		for c := range f.callees {
			if !seen[c] {
				seen[c] = true
				work = append(work, c)
			}
		}
	}
	var out []*funcInfo
	for f := range seen {
		out = append(out, f)
	}
	sort.Slice(out, func(i, j int) bool { return out[i].name < out[j].name })
	return out
}

func (an *analysis) fieldAnalysis(pkgRel, typeName, entry string) *fieldObj {
	fo := &fieldObj{typeName: pkgRel + "." + typeName, entry: entry, an: an,
		reads: map[string]map[*funcInfo]bool{}, writes: map[string]map[*funcInfo]string{},
		mayRead: map[*funcInfo]map[string]bool{}, class: map[string]string{},
		sumMemo: map[sumKey]*killSum{}, inProg: map[sumKey]bool{}, methodTR: map[*funcInfo][]string{}}
	for _, p := range an.prog.pkgs {
		if an.prog.rel(p.lp.ImportPath) != pkgRel {
			continue
		}
		if tn, ok := p.tpkg.Scope().Lookup(typeName).(*types.TypeName); ok {
			fo.named, _ = tn.Type().(*types.Named)
		}
	}
	if fo.named == nil {
		return nil
	}
	fo.st, _ = fo.named.Underlying().(*types.Struct)
	if fo.st == nil {
		return nil
	}
	for i := 0; i < fo.st.NumFields(); i++ {
		fo.fields = append(fo.fields, fo.st.Field(i).Name())
		fo.ftypes = append(fo.ftypes, types.TypeString(fo.st.Field(i).Type(), func(q *types.Package) string { return q.Name() }))
	}
	for _, fi := range an.flist {
		if fi.hasRecv && fi.decl.Name.Name == entry && fo.isObj(fi.params[0].Type()) {
			fo.entryFn = fi
		}
	}
	if fo.entryFn == nil {
		return nil
	}
	fo.reach = an.reachableFrom(fo.entryFn)
	for _, fi := range fo.reach {
		fo.scanDirect(fi)
	}
	// transitive may-read
	for _, fi := range fo.reach {
		fo.mayRead[fi] = map[string]bool{}
		for f, m := range fo.reads {
			if m[fi] {
				fo.mayRead[fi][f] = true
			}
		}
	}
	for ch := true; ch; {
		ch = false
		for _, fi := range fo.reach {
			for c := range fi.callees {
				for f := range fo.mayRead[c] {
					if !fo.mayRead[fi][f] {
						fo.mayRead[fi][f] = true
						ch = true
					}
				}
			}
		}
	}
	for _, f := range fo.fields {
		w, r := len(fo.writes[f]) > 0, len(fo.reads[f]) > 0
		switch {
		case !w:
			fo.class[f] = "config"
		case !r:
			fo.class[f] = "writeonly"
		default:
			s := fo.summary(fo.entryFn, f)
			if s.readBeforeKill {
				fo.class[f] = "leaky"
			} else {
				fo.class[f] = "killed"
			}
		}
	}
	return fo
}

func (fo *fieldObj) isObj(t types.Type) bool {
	if t == nil {
		return false
	}
	if p, ok := t.Underlying().(*types.Pointer); ok {
		t = p.Elem()
	}
	if p, ok := t.(*types.Pointer); ok {
		t = p.Elem()
	}
	n, ok := t.(*types.Named)
	return ok && n.Obj() == fo.named.Obj()
}

// fieldSel: e is X.f with X of the object type
func (fo *fieldObj) fieldSel(in *types.Info, e ast.Expr) (string, bool) {
	for {
		if p, ok := e.(*ast.ParenExpr); ok {
			e = p.X
			continue
		}
		break
	}
	se, ok := e.(*ast.SelectorExpr)
	if !ok {
		return "", false
	}
	sel, ok := in.Selections[se]
	if !ok || sel.Kind() != types.FieldVal {
		return "", false
	}
	tv, ok := in.Types[se.X]
	if !ok || !fo.isObj(tv.Type) {
		return "", false
	}
	return se.Sel.Name, true
}

// fieldUnder: the object field at the bottom of an lvalue / reference expression, with the next selector
func (fo *fieldObj) fieldUnder(in *types.Info, e ast.Expr) (field, sub string, whole bool, ok bool) {
	whole = true
	for {
		if f, is := fo.fieldSel(in, e); is {
			return f, sub, whole, true
		}
		switch x := e.(type) {
		case *ast.ParenExpr:
			e = x.X
		case *ast.IndexExpr:
			e, whole = x.X, false
		case *ast.SliceExpr:
			e, whole = x.X, false
		case *ast.StarExpr:
			e, whole = x.X, false
		case *ast.SelectorExpr:
			if sel, is := in.Selections[x]; is && sel.Kind() == types.FieldVal {
				sub = x.Sel.Name
				e, whole = x.X, false
			} else {
				return "", "", false, false
			}
		case *ast.UnaryExpr:
			if x.Op == token.AND {
				e, whole = x.X, false
			} else {
				return "", "", false, false
			}
		default:
			return "", "", false, false
		}
	}
}

func (fo *fieldObj) addRead(f string, fi *funcInfo) {
	if fo.reads[f] == nil {
		fo.reads[f] = map[*funcInfo]bool{}
	}
	fo.reads[f][fi] = true
}
func (fo *fieldObj) addWrite(f string, fi *funcInfo, kind string) {
	if fo.writes[f] == nil {
		fo.writes[f] = map[*funcInfo]string{}
	}
	old, ok := fo.writes[f][fi]
	switch {
	case !ok:
		fo.writes[f][fi] = kind
	case old != kind:
		fo.writes[f][fi] = "whole+partial"
	}
}

// scanDirect: direct reads/writes of object fields in fi
func (fo *fieldObj) scanDirect(fi *funcInfo) {
	in := fi.pkg.info
	wholeLHS := map[ast.Expr]bool{}
	// locals initialised from a reference-typed field: stores through them write the field's contents
	fieldAlias := map[*types.Var][]string{}
	ast.Inspect(fi.decl.Body, func(n ast.Node) bool {
		if as, ok := n.(*ast.AssignStmt); ok && len(as.Lhs) == len(as.Rhs) {
			for i, l := range as.Lhs {
				if id, ok := l.(*ast.Ident); ok {
					if f, _, _, ok := fo.fieldUnder(in, as.Rhs[i]); ok {
						if v, ok := (&fctx{an: fo.an, fi: fi, in: in}).objOf(id).(*types.Var); ok && refs(v.Type()) {
							fieldAlias[v] = append(fieldAlias[v], f)
						}
					}
				}
			}
		}
		return true
	})
	c := &fctx{an: fo.an, fi: fi, in: in}
	storeTo := func(l ast.Expr, plain bool) {
		if f, sub, whole, ok := fo.fieldUnder(in, l); ok {
			if whole && plain {
				fo.addWrite(f, fi, "whole")
				wholeLHS[unparen(l)] = true
			} else {
				fo.addWrite(f, fi, "partial")
				if !whole {
					fo.contents = append(fo.contents, contentStore{f, sub, fi.short, "store"})
				}
			}
			return
		}
		// store through a local alias of a field
		_, bv, steps, ok := c.decompose(l)
		if ok && bv != nil {
			for _, f := range fieldAlias[bv] {
				der := false
				for _, s := range steps {
					der = der || s.deref
				}
				if der {
					fo.addWrite(f, fi, "partial")
					fo.contents = append(fo.contents, contentStore{f, firstField(steps), fi.short, "alias-store"})
				}
			}
		}
	}
	ast.Inspect(fi.decl.Body, func(n ast.Node) bool {
		switch s := n.(type) {
		case *ast.AssignStmt:
			for _, l := range s.Lhs {
				if s.Tok == token.DEFINE {
					continue
				}
				storeTo(l, s.Tok == token.ASSIGN)
			}
		case *ast.IncDecStmt:
			storeTo(s.X, false)
		case *ast.RangeStmt:
			if s.Tok == token.ASSIGN {
				if s.Key != nil {
					storeTo(s.Key, true)
				}
				if s.Value != nil {
					storeTo(s.Value, true)
				}
			}
		case *ast.CallExpr:
			ct := c.resolve(s)
			args := c.callArgs(s, ct)
			if ct.builtin == "copy" && len(s.Args) == 2 {
				if f, sub, _, ok := fo.fieldUnder(in, s.Args[0]); ok {
					fo.addWrite(f, fi, "partial")
					fo.contents = append(fo.contents, contentStore{f, sub, fi.short, "copy-dst"})
				}
			}
			for _, callee := range ct.static {
				for pi := range callee.storesThru {
					if pi == 0 && callee.hasRecv && fo.isObj(callee.params[0].Type()) {
						continue // the callee's own field accesses are scanned directly
					}
					for ai, a := range args {
						if paramIndexForArg(callee, ai) != pi {
							continue
						}
						if f, sub, _, ok := fo.fieldUnder(in, a); ok {
							if t := c.typeOf(a); t != nil && refs(t) {
								fo.addWrite(f, fi, "partial")
								fo.contents = append(fo.contents, contentStore{f, sub, fi.short, "call:" + callee.short})
							}
						} else if _, bv, steps, ok := c.decompose(stripAddr(a)); ok && bv != nil {
							// the argument is reached through a local initialised from a field (p := e.params; p.X.M())
							for _, f := range fieldAlias[bv] {
								if t := c.typeOf(a); t != nil && refs(t) {
									fo.addWrite(f, fi, "partial")
									fo.contents = append(fo.contents, contentStore{f, firstField(steps), fi.short, "alias-call:" + callee.short})
								}
							}
						}
					}
				}
			}
		}
		return true
	})
	ast.Inspect(fi.decl.Body, func(n ast.Node) bool {
		if e, ok := n.(ast.Expr); ok {
			if f, is := fo.fieldSel(in, e); is {
				if _, isSel := e.(*ast.SelectorExpr); isSel && !wholeLHS[e] {
					fo.addRead(f, fi)
				}
			}
		}
		return true
	})
}

func stripAddr(e ast.Expr) ast.Expr {
	for {
		switch x := e.(type) {
		case *ast.ParenExpr:
			e = x.X
		case *ast.UnaryExpr:
			if x.Op != token.AND {
				return e
			}
			e = x.X
		case *ast.SliceExpr:
			e = x.X
		default:
			return e
		}
	}
}

func unparen(e ast.Expr) ast.Expr {
	for {
		if p, ok := e.(*ast.ParenExpr); ok {
			e = p.X
			continue
		}
		return e
	}
}

// ---------------------------------------------------------------- kill analysis

type kstate struct {
	killed bool
	dead   bool // no path continues (after return / panic)
}

type kwalk struct {
	fo            *fieldObj
	fi            *funcInfo
	f             string
	in            *types.Info
	readBefore    bool
	exitUnkilled  bool
	hasErrResult  bool
	c             *fctx
}

func (fo *fieldObj) summary(fi *funcInfo, f string) *killSum {
	k := sumKey{fi, f}
	if s, ok := fo.sumMemo[k]; ok {
		return s
	}
	if fo.inProg[k] {
		// recursion: conservative
		return &killSum{readBeforeKill: fo.mayRead[fi][f], killsOnReturn: false}
	}
	fo.inProg[k] = true
	w := &kwalk{fo: fo, fi: fi, f: f, in: fi.pkg.info, c: &fctx{an: fo.an, fi: fi, in: fi.pkg.info}}
	sig := fi.obj.Type().(*types.Signature)
	if n := sig.Results().Len(); n > 0 {
		if nt, ok := sig.Results().At(n - 1).Type().(*types.Named); ok && nt.Obj().Name() == "error" && nt.Obj().Pkg() == nil {
			w.hasErrResult = true
		}
	}
	st := w.block(fi.decl.Body.List, kstate{})
	if !st.dead && !st.killed {
		w.exitUnkilled = true
	}
	s := &killSum{readBeforeKill: w.readBefore, killsOnReturn: !w.exitUnkilled}
	delete(fo.inProg, k)
	fo.sumMemo[k] = s
	return s
}

func merge(a, b kstate) kstate {
	switch {
	case a.dead && b.dead:
		return kstate{dead: true, killed: true}
	case a.dead:
		return b
	case b.dead:
		return a
	}
	return kstate{killed: a.killed && b.killed}
}

func isErrNotNil(e ast.Expr) (string, bool) {
	be, ok := unparen(e).(*ast.BinaryExpr)
	if !ok || be.Op != token.NEQ {
		return "", false
	}
	x, ok1 := be.X.(*ast.Ident)
	y, ok2 := be.Y.(*ast.Ident)
	if ok1 && ok2 && y.Name == "nil" {
		return x.Name, true
	}
	return "", false
}

func terminates(b *ast.BlockStmt) bool {
	if b == nil || len(b.List) == 0 {
		return false
	}
	switch s := b.List[len(b.List)-1].(type) {
	case *ast.ReturnStmt:
		return true
	case *ast.ExprStmt:
		if c, ok := s.X.(*ast.CallExpr); ok {
			if id, ok := c.Fun.(*ast.Ident); ok && id.Name == "panic" {
				return true
			}
		}
	}
	return false
}

// errCall: stmt is `… , err := call(...)` / `err = call(...)` with a single call on the right; returns the
// name of the error variable (last lhs) and the call
func errCall(s ast.Stmt) (string, *ast.CallExpr) {
	as, ok := s.(*ast.AssignStmt)
	if !ok || len(as.Rhs) != 1 || len(as.Lhs) == 0 {
		return "", nil
	}
	call, ok := unparen(as.Rhs[0]).(*ast.CallExpr)
	if !ok {
		return "", nil
	}
	id, ok := as.Lhs[len(as.Lhs)-1].(*ast.Ident)
	if !ok {
		return "", nil
	}
	return id.Name, call
}

func (w *kwalk) block(list []ast.Stmt, st kstate) kstate {
	for i := 0; i < len(list); i++ {
		if st.dead {
			return st
		}
		s := list[i]
		// idiom (b): x, err := call(); if err != nil { …return }
		if ev, call := errCall(s); call != nil && i+1 < len(list) {
			if ifs, ok := list[i+1].(*ast.IfStmt); ok && ifs.Init == nil && ifs.Else == nil && terminates(ifs.Body) {
				if cv, ok := isErrNotNil(ifs.Cond); ok && cv == ev {
					pre := st
					st = w.assignLike(s.(*ast.AssignStmt), st, true)
					// error branch: runs with the pre-call state (the callee may have returned early)
					w.block(ifs.Body.List, pre)
					i++
					continue
				}
			}
		}
		st = w.stmt(s, st)
	}
	return st
}

// callEffect: evaluate a call that is the whole right-hand side / statement; okPath says that the
// continuation is only reached when the callee's error result was nil
func (w *kwalk) callEffect(call *ast.CallExpr, st kstate, okPath bool) kstate {
	for _, a := range call.Args {
		w.expr(a, st)
	}
	if se, ok := unparen(call.Fun).(*ast.SelectorExpr); ok {
		w.expr(se.X, st)
	}
	ct := w.c.resolve(call)
	if id, ok := unparen(call.Fun).(*ast.Ident); ok && id.Name == "panic" && ct.builtin == "panic" {
		return kstate{dead: true, killed: true}
	}
	if len(ct.static) == 1 && !ct.extDyn {
		callee := ct.static[0]
		if _, reach := w.fo.mayRead[callee]; reach {
			s := w.fo.summary(callee, w.f)
			if !st.killed && s.readBeforeKill {
				w.readBefore = true
			}
			calleeHasErr := false
			sig := callee.obj.Type().(*types.Signature)
			if n := sig.Results().Len(); n > 0 {
				if nt, ok := sig.Results().At(n - 1).Type().(*types.Named); ok && nt.Obj().Name() == "error" && nt.Obj().Pkg() == nil {
					calleeHasErr = true
				}
			}
			if s.killsOnReturn && (okPath || !calleeHasErr) {
				st.killed = true
			}
			return st
		}
		return st
	}
	for _, callee := range ct.static {
		if !st.killed && w.fo.mayRead[callee][w.f] {
			w.readBefore = true
		}
	}
	return st
}

func (w *kwalk) assignLike(as *ast.AssignStmt, st kstate, okPath bool) kstate {
	// right-hand sides first
	if len(as.Rhs) == 1 {
		if call, ok := unparen(as.Rhs[0]).(*ast.CallExpr); ok {
			st = w.callEffect(call, st, okPath)
		} else {
			w.expr(as.Rhs[0], st)
		}
	} else {
		for _, r := range as.Rhs {
			w.expr(r, st)
		}
	}
	for _, l := range as.Lhs {
		if f, _, whole, ok := w.fo.fieldUnder(w.in, l); ok && f == w.f {
			if whole && as.Tok == token.ASSIGN {
				st.killed = true
				continue
			}
			if !st.killed {
				w.readBefore = true
			}
			continue
		}
		w.lhsSubexprs(l, st)
	}
	return st
}

// index expressions etc. inside an lvalue are reads
func (w *kwalk) lhsSubexprs(l ast.Expr, st kstate) {
	switch x := unparen(l).(type) {
	case *ast.IndexExpr:
		w.expr(x.X, st)
		w.expr(x.Index, st)
	case *ast.SelectorExpr:
		w.expr(x.X, st)
	case *ast.StarExpr:
		w.expr(x.X, st)
	}
}

// expr: reads inside an expression evaluated in state st (calls only contribute reads here)
func (w *kwalk) expr(e ast.Expr, st kstate) {
	if e == nil || st.killed {
		return
	}
	ast.Inspect(e, func(n ast.Node) bool {
		switch x := n.(type) {
		case *ast.SelectorExpr:
			if f, ok := w.fo.fieldSel(w.in, x); ok && f == w.f {
				w.readBefore = true
			}
		case *ast.CallExpr:
			ct := w.c.resolve(x)
			for _, callee := range ct.static {
				if w.fo.mayRead[callee][w.f] {
					w.readBefore = true
				}
			}
		}
		return true
	})
}

func (w *kwalk) mayReadNode(n ast.Node) bool {
	if n == nil {
		return false
	}
	sub := &kwalk{fo: w.fo, fi: w.fi, f: w.f, in: w.in, c: w.c}
	ast.Inspect(n, func(m ast.Node) bool {
		if e, ok := m.(ast.Expr); ok {
			switch x := e.(type) {
			case *ast.SelectorExpr:
				if f, ok := w.fo.fieldSel(w.in, x); ok && f == w.f {
					// a whole-assignment target is not a read, but being conservative costs nothing here
					sub.readBefore = true
				}
			case *ast.CallExpr:
				ct := w.c.resolve(x)
				for _, callee := range ct.static {
					if w.fo.mayRead[callee][w.f] {
						sub.readBefore = true
					}
				}
			}
		}
		return true
	})
	return sub.readBefore
}

func (w *kwalk) stmt(s ast.Stmt, st kstate) kstate {
	switch x := s.(type) {
	case nil:
		return st
	case *ast.BlockStmt:
		return w.block(x.List, st)
	case *ast.ExprStmt:
		if call, ok := unparen(x.X).(*ast.CallExpr); ok {
			return w.callEffect(call, st, false)
		}
		w.expr(x.X, st)
		return st
	case *ast.AssignStmt:
		return w.assignLike(x, st, false)
	case *ast.IncDecStmt:
		if f, _, _, ok := w.fo.fieldUnder(w.in, x.X); ok && f == w.f && !st.killed {
			w.readBefore = true
		}
		w.expr(x.X, st)
		return st
	case *ast.DeclStmt:
		if gd, ok := x.Decl.(*ast.GenDecl); ok {
			for _, sp := range gd.Specs {
				if vs, ok := sp.(*ast.ValueSpec); ok {
					if len(vs.Values) == 1 {
						if call, ok := unparen(vs.Values[0]).(*ast.CallExpr); ok {
							st = w.callEffect(call, st, false)
							continue
						}
					}
					for _, v := range vs.Values {
						w.expr(v, st)
					}
				}
			}
		}
		return st
	case *ast.ReturnStmt:
		mayBeNilErr := true
		if len(x.Results) == 1 {
			if call, ok := unparen(x.Results[0]).(*ast.CallExpr); ok {
				st = w.callEffect(call, st, false)
			} else {
				w.expr(x.Results[0], st)
			}
		} else {
			for _, r := range x.Results {
				w.expr(r, st)
			}
		}
		if w.hasErrResult && len(x.Results) > 0 {
			last := unparen(x.Results[len(x.Results)-1])
			switch l := last.(type) {
			case *ast.Ident:
				mayBeNilErr = true
				_ = l
			case *ast.CallExpr:
				// fmt.Errorf / errors.New construct a non-nil error
				if se, ok := l.Fun.(*ast.SelectorExpr); ok {
					if id, ok := se.X.(*ast.Ident); ok && ((id.Name == "fmt" && se.Sel.Name == "Errorf") || (id.Name == "errors" && se.Sel.Name == "New")) {
						mayBeNilErr = false
					}
				}
			}
		}
		if !st.killed && mayBeNilErr {
			w.exitUnkilled = true
		}
		return kstate{dead: true, killed: true}
	case *ast.IfStmt:
		// idiom (a): if err := call(); err != nil { …return }
		if x.Init != nil {
			if ev, call := errCall(x.Init); call != nil && x.Else == nil && terminates(x.Body) {
				if cv, ok := isErrNotNil(x.Cond); ok && cv == ev {
					after := w.assignLike(x.Init.(*ast.AssignStmt), st, true)
					w.block(x.Body.List, st)
					return after
				}
			}
			st = w.stmt(x.Init, st)
		}
		w.expr(x.Cond, st)
		a := w.block(x.Body.List, st)
		b := st
		if x.Else != nil {
			b = w.stmt(x.Else, st)
		}
		return merge(a, b)
	case *ast.ForStmt:
		if x.Init != nil {
			st = w.stmt(x.Init, st)
		}
		w.expr(x.Cond, st)
		// one iteration is walked from the state before the loop (an earlier iteration can only have killed
		// more): a kill inside the body protects the reads that follow it in the same iteration; the state
		// after the loop is the state before it (the body may run zero times).  Returns inside the body are
		// seen by the walk itself.
		after := w.block(x.Body.List, st)
		if !after.dead {
			if x.Post != nil {
				after = w.stmt(x.Post, after)
			}
			w.expr(x.Cond, after)
		}
		return st
	case *ast.RangeStmt:
		w.expr(x.X, st)
		w.block(x.Body.List, st)
		return st
	case *ast.SwitchStmt:
		if x.Init != nil {
			st = w.stmt(x.Init, st)
		}
		w.expr(x.Tag, st)
		return w.clauses(x.Body, st)
	case *ast.TypeSwitchStmt:
		if x.Init != nil {
			st = w.stmt(x.Init, st)
		}
		if !st.killed && w.mayReadNode(x.Assign) {
			w.readBefore = true
		}
		return w.clauses(x.Body, st)
	case *ast.SelectStmt:
		if !st.killed && w.mayReadNode(x.Body) {
			w.readBefore = true
		}
		w.scanReturns(x.Body, st)
		return st
	case *ast.DeferStmt:
		if !st.killed && w.mayReadNode(x.Call) {
			w.readBefore = true
		}
		return st
	case *ast.GoStmt:
		if !st.killed && w.mayReadNode(x.Call) {
			w.readBefore = true
		}
		return st
	case *ast.LabeledStmt:
		return w.stmt(x.Stmt, st)
	case *ast.BranchStmt, *ast.EmptyStmt:
		return st
	case *ast.SendStmt:
		w.expr(x.Chan, st)
		w.expr(x.Value, st)
		return st
	}
	if !st.killed && w.mayReadNode(s) {
		w.readBefore = true
	}
	return st
}

func (w *kwalk) clauses(body *ast.BlockStmt, st kstate) kstate {
	hasDefault := false
	var out *kstate
	for _, cl := range body.List {
		cc, ok := cl.(*ast.CaseClause)
		if !ok {
			continue
		}
		if cc.List == nil {
			hasDefault = true
		}
		for _, e := range cc.List {
			w.expr(e, st)
		}
		r := w.block(cc.Body, st)
		if out == nil {
			out = &r
		} else {
			m := merge(*out, r)
			out = &m
		}
	}
	if out == nil {
		return st
	}
	if !hasDefault {
		return merge(*out, st)
	}
	return *out
}

// scanReturns: return statements inside a loop body exit in (at best) the state before the loop
func (w *kwalk) scanReturns(n ast.Node, st kstate) {
	if n == nil || st.killed {
		return
	}
	ast.Inspect(n, func(m ast.Node) bool {
		if _, ok := m.(*ast.FuncLit); ok {
			return false
		}
		if r, ok := m.(*ast.ReturnStmt); ok {
			sub := &kwalk{fo: w.fo, fi: w.fi, f: w.f, in: w.in, c: w.c, hasErrResult: w.hasErrResult}
			sub.stmt(r, st)
			if sub.exitUnkilled {
				w.exitUnkilled = true
			}
		}
		return true
	})
}
