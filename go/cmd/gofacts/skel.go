package main

// F3 skeletons: the entry method of a stateful object (jpeg2000.Encoder.Encode, jpeg2000.Decoder.Decode) as a
// structured command over the object's FIELDS only, with every reachable callee inlined at its call site in
// statement order.  The Lean side (Model/Frames.lean, `Skel.toCmd`) turns it into a command of the verified
// field language and computes write / kill / exposed-read sets there, so the kill analysis that decides
// "killed before read" is the proved one; this generator is trusted only for WHICH fields each statement
// reads and writes and for the statement structure.
//
//   rd fs      the statement evaluates expressions that read these fields
//   wr f       whole-field assignment  X.f = e            (reads of e are emitted before it)
//   upd f      partial write: X.f[i] = …, X.f.g = …, X.f op= …, X.f++, store through a local alias of X.f,
//              X.f handed to a callee that stores through it
//   seq a b | alt a b (if/else, switch: either branch) | loop a (zero or more times) | nil
//   guard a    `if X == nil || … { return }` followed by a: a runs unless the nil guard returns early
//
// Returns: a path that ends early is a PREFIX of the modelled path, so its reads-before-writes are a subset
// of the model's; a `return` may therefore be dropped whenever leaving it out only lets the model run
// longer within the same call.  That is the case for every return of the entry method, and for a callee's
// error return when the call site is `if err := f(); err != nil { return … }` (or `x, err := f()` followed
// by that test) all the way up to the entry.  Any other return inside a callee ends the callee only: the
// rest of the callee is modelled as skipped on that path (`alt rest nil`).

import (
	"fmt"
	"go/ast"
	"go/token"
	"go/types"
	"sort"
	"strings"
)

type skel struct {
	kind string // nil rd wr upd seq alt loop ref
	f    string
	fs   []string
	a, b *skel
	name string
	size int
}

var skNil = &skel{kind: "nil", size: 0}

func skSeq(a, b *skel) *skel {
	if a.kind == "nil" {
		return b
	}
	if b.kind == "nil" {
		return a
	}
	if a.kind == "rd" && b.kind == "rd" {
		return skRd(append(append([]string{}, a.fs...), b.fs...))
	}
	return &skel{kind: "seq", a: a, b: b, size: a.size + b.size + 1}
}
func skAlt(a, b *skel) *skel {
	if a.kind == "nil" && b.kind == "nil" {
		return skNil
	}
	return &skel{kind: "alt", a: a, b: b, size: a.size + b.size + 1}
}
func skLoop(a *skel) *skel {
	if a.kind == "nil" {
		return skNil
	}
	return &skel{kind: "loop", a: a, size: a.size + 1}
}
func skGuard(a *skel) *skel {
	if a.kind == "nil" {
		return skNil
	}
	return &skel{kind: "guard", a: a, size: a.size + 1}
}

// isNilGuard: `if a == nil || b == nil … { return }` — no init, no else, a bare return
func isNilGuard(x *ast.IfStmt) bool {
	if x.Init != nil || x.Else != nil || len(x.Body.List) != 1 {
		return false
	}
	r, ok := x.Body.List[0].(*ast.ReturnStmt)
	if !ok || len(r.Results) != 0 {
		return false
	}
	var nilTests func(e ast.Expr) bool
	nilTests = func(e ast.Expr) bool {
		be, ok := unparen(e).(*ast.BinaryExpr)
		if !ok {
			return false
		}
		switch be.Op {
		case token.LOR:
			return nilTests(be.X) && nilTests(be.Y)
		case token.EQL:
			id, ok := unparen(be.Y).(*ast.Ident)
			return ok && id.Name == "nil"
		}
		return false
	}
	return nilTests(x.Cond)
}

func skRd(fs []string) *skel {
	fs = uniqSorted(fs)
	if len(fs) == 0 {
		return skNil
	}
	return &skel{kind: "rd", fs: fs, size: 1}
}
func skWr(f string) *skel  { return &skel{kind: "wr", f: f, size: 1} }
func skUpd(f string) *skel { return &skel{kind: "upd", f: f, size: 1} }

type skKey struct {
	fi      *funcInfo
	abortOK bool
}

type skelGen struct {
	fo       *fieldObj
	prefix   string
	memo     map[skKey]*skel
	stack    map[*funcInfo]bool
	defs     []*skel // named, in dependency order
	mayWrite map[*funcInfo]map[string]bool
	notes    []string
	nDefs    int
}

func newSkelGen(fo *fieldObj, prefix string) *skelGen {
	g := &skelGen{fo: fo, prefix: prefix, memo: map[skKey]*skel{}, stack: map[*funcInfo]bool{}, mayWrite: map[*funcInfo]map[string]bool{}}
	for _, fi := range fo.reach {
		g.mayWrite[fi] = map[string]bool{}
		for f, m := range fo.writes {
			if _, ok := m[fi]; ok {
				g.mayWrite[fi][f] = true
			}
		}
	}
	for ch := true; ch; {
		ch = false
		for _, fi := range fo.reach {
			for c := range fi.callees {
				for f := range g.mayWrite[c] {
					if !g.mayWrite[fi][f] {
						g.mayWrite[fi][f] = true
						ch = true
					}
				}
			}
		}
	}
	return g
}

func (g *skelGen) touches(fi *funcInfo) bool {
	return len(g.fo.mayRead[fi]) > 0 || len(g.mayWrite[fi]) > 0
}

// summary of a function that cannot be inlined (recursion)
func (g *skelGen) summary(fi *funcInfo) *skel {
	var rs, ws []string
	for f := range g.fo.mayRead[fi] {
		rs = append(rs, f)
	}
	for f := range g.mayWrite[fi] {
		ws = append(ws, f)
	}
	sort.Strings(ws)
	s := skRd(rs)
	for _, f := range ws {
		s = skSeq(s, skAlt(skUpd(f), skNil))
	}
	return skLoop(s)
}

func (g *skelGen) fn(fi *funcInfo, abortOK bool) *skel {
	if !g.touches(fi) {
		return skNil
	}
	if g.stack[fi] {
		g.notes = append(g.notes, "recursion through "+fi.short+": summarised")
		return g.summary(fi)
	}
	k := skKey{fi, abortOK}
	if s, ok := g.memo[k]; ok {
		return s
	}
	g.stack[fi] = true
	w := &skWalk{g: g, fi: fi, c: &fctx{an: g.fo.an, fi: fi, in: fi.pkg.info}, abortOK: abortOK, entry: fi == g.fo.entryFn,
		fieldAlias: map[*types.Var][]string{}}
	w.collectAliases()
	sig := fi.obj.Type().(*types.Signature)
	if n := sig.Results().Len(); n > 0 {
		if nt, ok := sig.Results().At(n - 1).Type().(*types.Named); ok && nt.Obj().Name() == "error" && nt.Obj().Pkg() == nil {
			w.hasErr = true
		}
	}
	s, _, _ := w.stmts(fi.decl.Body.List)
	delete(g.stack, fi)
	if s.size > 4 {
		g.nDefs++
		nm := fmt.Sprintf("%sSk_%s", g.prefix, sanitize(fi.short))
		if !abortOK {
			nm += "_r"
		}
		named := &skel{kind: "ref", name: nm, a: s, size: 1}
		g.defs = append(g.defs, named)
		s = named
	}
	g.memo[k] = s
	return s
}

func sanitize(s string) string {
	var b strings.Builder
	for _, r := range s {
		if (r >= 'a' && r <= 'z') || (r >= 'A' && r <= 'Z') || (r >= '0' && r <= '9') {
			b.WriteRune(r)
		}
	}
	return b.String()
}

type skWalk struct {
	g          *skelGen
	fi         *funcInfo
	c          *fctx
	abortOK    bool
	entry      bool
	hasErr     bool
	fieldAlias map[*types.Var][]string
	inErrGuard map[string]bool
}

func (w *skWalk) collectAliases() {
	in := w.fi.pkg.info
	ast.Inspect(w.fi.decl.Body, func(n ast.Node) bool {
		if as, ok := n.(*ast.AssignStmt); ok && len(as.Lhs) == len(as.Rhs) {
			for i, l := range as.Lhs {
				if id, ok := l.(*ast.Ident); ok {
					if f, _, _, ok := w.g.fo.fieldUnder(in, as.Rhs[i]); ok {
						if v, ok := w.c.objOf(id).(*types.Var); ok && refs(v.Type()) {
							w.fieldAlias[v] = append(w.fieldAlias[v], f)
						}
					}
				}
			}
		}
		return true
	})
}

// droppable: leaving this return out only lengthens the modelled path within the same call
func (w *skWalk) droppable(r *ast.ReturnStmt) bool {
	if w.entry {
		return true
	}
	if !w.abortOK || !w.hasErr || len(r.Results) == 0 {
		return false
	}
	switch l := unparen(r.Results[len(r.Results)-1]).(type) {
	case *ast.CallExpr:
		if se, ok := l.Fun.(*ast.SelectorExpr); ok {
			if id, ok := se.X.(*ast.Ident); ok && ((id.Name == "fmt" && se.Sel.Name == "Errorf") || (id.Name == "errors" && se.Sel.Name == "New")) {
				return true
			}
		}
	case *ast.Ident:
		// `return …, err` inside `if err != nil { … }` is recognised by the caller of stmts (errGuard)
		return w.inErrGuard[l.Name]
	}
	return false
}

// stmts returns the skeleton of a statement list, whether some path leaves the function early through a
// non-droppable return (mayExit) and whether every path does (mustExit)
func (w *skWalk) stmts(list []ast.Stmt) (*skel, bool, bool) {
	out := skNil
	for i := 0; i < len(list); i++ {
		s := list[i]
		// call-site idiom (b): x, err := f(); if err != nil { …return }
		if ev, call := errCall(s); call != nil && i+1 < len(list) {
			if ifs, ok := list[i+1].(*ast.IfStmt); ok && ifs.Init == nil && ifs.Else == nil && terminates(ifs.Body) {
				if cv, ok := isErrNotNil(ifs.Cond); ok && cv == ev {
					as := s.(*ast.AssignStmt)
					site := w.siteAbortOK(ifs.Body, ev)
					sk := w.assign(as, site)
					body, _, _ := w.guarded(ifs.Body.List, ev)
					if !site {
						// the error branch returns for good: the rest runs only on the other path
						rest, _, _ := w.stmts(list[i+2:])
						return skSeq(out, skSeq(sk, skAlt(body, rest))), true, false
					}
					out = skSeq(out, skSeq(sk, skAlt(body, skNil)))
					i++
					continue
				}
			}
		}
		sk, mayExit, mustExit := w.stmt(s)
		// `if c { …; return }` with no else: the rest belongs to the other branch
		if ifs, ok := s.(*ast.IfStmt); ok && mayExit && !mustExit && ifs.Else == nil {
			if then, _, thenMust := w.ifThen(ifs); thenMust {
				pre := w.ifHead(ifs)
				rest, rme, rmu := w.stmts(list[i+1:])
				_ = rme
				if isNilGuard(ifs) && then.kind == "nil" {
					// `if X == nil || … { return }`: marked, so that the model can be read with and without
					// the assumption that the guard never fires
					return skSeq(out, skSeq(pre, skGuard(rest))), true, rmu
				}
				return skSeq(out, skSeq(pre, skAlt(then, rest))), true, rmu
			}
		}
		out = skSeq(out, sk)
		if mustExit {
			return out, true, true
		}
		if mayExit {
			rest, _, _ := w.stmts(list[i+1:])
			return skSeq(out, skAlt(rest, skNil)), true, false
		}
	}
	return out, false, false
}

// guarded: the body of `if err != nil { … }`
func (w *skWalk) guarded(list []ast.Stmt, errVar string) (*skel, bool, bool) {
	if w.inErrGuard == nil {
		w.inErrGuard = map[string]bool{}
	}
	old := w.inErrGuard[errVar]
	w.inErrGuard[errVar] = true
	defer func() { w.inErrGuard[errVar] = old }()
	return w.stmts(list)
}

// siteAbortOK: the error branch of the call-site idiom itself leaves through a droppable return
func (w *skWalk) siteAbortOK(body *ast.BlockStmt, errVar string) bool {
	if len(body.List) == 0 {
		return false
	}
	r, ok := body.List[len(body.List)-1].(*ast.ReturnStmt)
	if !ok {
		return false
	}
	if w.inErrGuard == nil {
		w.inErrGuard = map[string]bool{}
	}
	old := w.inErrGuard[errVar]
	w.inErrGuard[errVar] = true
	defer func() { w.inErrGuard[errVar] = old }()
	return w.droppable(r)
}

func (w *skWalk) ifHead(x *ast.IfStmt) *skel {
	pre := skNil
	if x.Init != nil {
		p, _, _ := w.stmt(x.Init)
		pre = p
	}
	return skSeq(pre, w.expr(x.Cond, false))
}

func (w *skWalk) ifThen(x *ast.IfStmt) (*skel, bool, bool) { return w.stmts(x.Body.List) }

func (w *skWalk) stmt(s ast.Stmt) (*skel, bool, bool) {
	switch x := s.(type) {
	case nil:
		return skNil, false, false
	case *ast.BlockStmt:
		return w.stmts(x.List)
	case *ast.ExprStmt:
		return w.expr(x.X, false), false, false
	case *ast.AssignStmt:
		return w.assign(x, false), false, false
	case *ast.IncDecStmt:
		sk := w.expr(x.X, false)
		if f, _, _, ok := w.g.fo.fieldUnder(w.c.in, x.X); ok {
			sk = skSeq(sk, skUpd(f))
		}
		return sk, false, false
	case *ast.DeclStmt:
		sk := skNil
		if gd, ok := x.Decl.(*ast.GenDecl); ok {
			for _, sp := range gd.Specs {
				if vs, ok := sp.(*ast.ValueSpec); ok {
					for _, v := range vs.Values {
						sk = skSeq(sk, w.expr(v, false))
					}
				}
			}
		}
		return sk, false, false
	case *ast.ReturnStmt:
		sk := skNil
		for _, r := range x.Results {
			sk = skSeq(sk, w.expr(r, false))
		}
		if w.droppable(x) {
			return sk, false, false
		}
		return sk, true, true
	case *ast.IfStmt:
		// call-site idiom (a): if err := f(); err != nil { …return }
		if x.Init != nil && x.Else == nil && terminates(x.Body) {
			if ev, call := errCall(x.Init); call != nil {
				if cv, ok := isErrNotNil(x.Cond); ok && cv == ev {
					site := w.siteAbortOK(x.Body, ev)
					sk := w.assign(x.Init.(*ast.AssignStmt), site)
					body, _, _ := w.guarded(x.Body.List, ev)
					if site {
						return skSeq(sk, skAlt(body, skNil)), false, false
					}
					return skSeq(sk, skAlt(body, skNil)), true, false
				}
			}
		}
		pre := w.ifHead(x)
		a, ame, amu := w.stmts(x.Body.List)
		b, bme, bmu := skNil, false, false
		if x.Else != nil {
			b, bme, bmu = w.stmt(x.Else)
		}
		return skSeq(pre, skAlt(a, b)), ame || bme, amu && bmu
	case *ast.ForStmt:
		pre := skNil
		if x.Init != nil {
			pre, _, _ = w.stmt(x.Init)
		}
		body, me, _ := w.stmts(x.Body.List)
		post := skNil
		if x.Post != nil {
			post, _, _ = w.stmt(x.Post)
		}
		cond := w.expr(x.Cond, false)
		return skSeq(pre, skSeq(cond, skLoop(skSeq(body, skSeq(post, cond))))), me, false
	case *ast.RangeStmt:
		pre := w.expr(x.X, false)
		body, me, _ := w.stmts(x.Body.List)
		if x.Tok == token.ASSIGN {
			for _, kv := range []ast.Expr{x.Key, x.Value} {
				if kv != nil {
					if f, _, whole, ok := w.g.fo.fieldUnder(w.c.in, kv); ok {
						if whole {
							body = skSeq(skWr(f), body)
						} else {
							body = skSeq(skUpd(f), body)
						}
					}
				}
			}
		}
		return skSeq(pre, skLoop(body)), me, false
	case *ast.SwitchStmt:
		pre := skNil
		if x.Init != nil {
			pre, _, _ = w.stmt(x.Init)
		}
		pre = skSeq(pre, w.expr(x.Tag, false))
		sk, me, mu := w.clauses(x.Body)
		return skSeq(pre, sk), me, mu
	case *ast.TypeSwitchStmt:
		pre := skNil
		if x.Init != nil {
			pre, _, _ = w.stmt(x.Init)
		}
		a, _, _ := w.stmt(x.Assign)
		sk, me, mu := w.clauses(x.Body)
		return skSeq(pre, skSeq(a, sk)), me, mu
	case *ast.SelectStmt:
		sk := skNil
		me := false
		for _, cl := range x.Body.List {
			if cc, ok := cl.(*ast.CommClause); ok {
				c, _, _ := w.stmt(cc.Comm)
				b, m, _ := w.stmts(cc.Body)
				me = me || m
				sk = skAlt(skSeq(c, b), sk)
			}
		}
		return sk, me, false
	case *ast.DeferStmt:
		return skAlt(w.expr(x.Call, false), skNil), false, false
	case *ast.GoStmt:
		return skLoop(w.expr(x.Call, false)), false, false
	case *ast.LabeledStmt:
		return w.stmt(x.Stmt)
	case *ast.BranchStmt:
		if x.Tok == token.GOTO {
			w.g.notes = append(w.g.notes, "goto in "+w.fi.short)
		}
		return skNil, false, false
	case *ast.SendStmt:
		return skSeq(w.expr(x.Chan, false), w.expr(x.Value, false)), false, false
	case *ast.EmptyStmt:
		return skNil, false, false
	}
	w.g.notes = append(w.g.notes, fmt.Sprintf("statement %T in %s not modelled", s, w.fi.short))
	return skNil, false, false
}

func (w *skWalk) clauses(body *ast.BlockStmt) (*skel, bool, bool) {
	sk := skNil
	hasDefault := false
	me, mu := false, true
	var parts []*skel
	for _, cl := range body.List {
		cc, ok := cl.(*ast.CaseClause)
		if !ok {
			continue
		}
		if cc.List == nil {
			hasDefault = true
		}
		head := skNil
		for _, e := range cc.List {
			head = skSeq(head, w.expr(e, false))
		}
		b, m, u := w.stmts(cc.Body)
		me = me || m
		mu = mu && u
		parts = append(parts, skSeq(head, b))
	}
	if !hasDefault {
		mu = false
	}
	for i := len(parts) - 1; i >= 0; i-- {
		sk = skAlt(parts[i], sk)
	}
	if len(parts) == 0 {
		mu = false
	}
	return sk, me, mu
}

// assign: right-hand sides (calls inlined; siteAbort says the single call on the right is an abort-propagating
// call site), index expressions of the left-hand sides, then the stores
func (w *skWalk) assign(as *ast.AssignStmt, siteAbort bool) *skel {
	sk := skNil
	for _, r := range as.Rhs {
		sk = skSeq(sk, w.exprSite(r, false, siteAbort))
	}
	for _, l := range as.Lhs {
		if as.Tok == token.DEFINE {
			continue
		}
		if f, _, whole, ok := w.g.fo.fieldUnder(w.c.in, l); ok {
			// index / selector sub-expressions other than the field itself
			sk = skSeq(sk, w.lhsReads(l, f))
			if whole && as.Tok == token.ASSIGN {
				sk = skSeq(sk, skWr(f))
			} else {
				sk = skSeq(sk, skUpd(f))
			}
			continue
		}
		sk = skSeq(sk, w.expr(l, false))
		if _, bv, steps, ok := w.c.decompose(l); ok && bv != nil {
			for _, f := range w.fieldAlias[bv] {
				der := false
				for _, s := range steps {
					der = der || s.deref
				}
				if der {
					sk = skSeq(sk, skUpd(f))
				}
			}
		}
	}
	return sk
}

func (w *skWalk) lhsReads(l ast.Expr, own string) *skel {
	sk := skNil
	ast.Inspect(l, func(n ast.Node) bool {
		switch x := n.(type) {
		case *ast.IndexExpr:
			sk = skSeq(sk, w.expr(x.Index, false))
		}
		return true
	})
	return sk
}

func (w *skWalk) expr(e ast.Expr, cond bool) *skel { return w.exprSite(e, cond, false) }

// exprSite: direct field reads of e first, then the calls inside e in source order (callee bodies inlined);
// calls under the right operand of && / || and function literals are conditional
func (w *skWalk) exprSite(e ast.Expr, cond bool, siteAbort bool) *skel {
	if e == nil {
		return skNil
	}
	var reads []string
	calls := skNil
	var visit func(n ast.Node, conditional bool)
	visit = func(n ast.Node, conditional bool) {
		switch x := n.(type) {
		case nil:
			return
		case *ast.FuncLit:
			b, _, _ := (&skWalk{g: w.g, fi: w.fi, c: w.c, abortOK: false, fieldAlias: w.fieldAlias}).stmts(x.Body.List)
			calls = skSeq(calls, skLoop(b))
			return
		case *ast.BinaryExpr:
			if x.Op == token.LAND || x.Op == token.LOR {
				visit(x.X, conditional)
				visit(x.Y, true)
				return
			}
		case *ast.SelectorExpr:
			if f, ok := w.g.fo.fieldSel(w.c.in, x); ok {
				reads = append(reads, f)
			}
		case *ast.CallExpr:
			// arguments and receiver first
			for _, a := range x.Args {
				visit(a, conditional)
			}
			visit(x.Fun, conditional)
			c := w.call(x, siteAbort && unparen(e) == ast.Expr(x))
			if conditional {
				c = skAlt(c, skNil)
			}
			calls = skSeq(calls, c)
			return
		}
		// generic descent
		ast.Inspect(n, func(m ast.Node) bool {
			if m == n || m == nil {
				return true
			}
			visit(m, conditional)
			return false
		})
	}
	visit(e, cond)
	return skSeq(skRd(reads), calls)
}

func (w *skWalk) call(call *ast.CallExpr, siteAbort bool) *skel {
	ct := w.c.resolve(call)
	sk := skNil
	// contents of a field handed to a callee (or builtin) that stores through it
	args := w.c.callArgs(call, ct)
	if ct.builtin == "copy" && len(call.Args) == 2 {
		if f, _, _, ok := w.g.fo.fieldUnder(w.c.in, call.Args[0]); ok {
			sk = skSeq(sk, skUpd(f))
		}
	}
	for _, callee := range ct.static {
		for pi := range callee.storesThru {
			if pi == 0 && callee.hasRecv && w.g.fo.isObj(callee.params[0].Type()) {
				continue
			}
			for ai, a := range args {
				if paramIndexForArg(callee, ai) != pi {
					continue
				}
				if f, _, _, ok := w.g.fo.fieldUnder(w.c.in, a); ok {
					if t := w.c.typeOf(a); t != nil && refs(t) {
						sk = skSeq(sk, skUpd(f))
					}
				} else if _, bv, _, ok := w.c.decompose(stripAddr(a)); ok && bv != nil {
					for _, f := range w.fieldAlias[bv] {
						if t := w.c.typeOf(a); t != nil && refs(t) {
							sk = skSeq(sk, skUpd(f))
						}
					}
				}
			}
		}
	}
	switch {
	case len(ct.static) == 1 && !ct.extDyn:
		callee := ct.static[0]
		if _, reach := w.g.fo.mayRead[callee]; reach {
			sk = skSeq(sk, w.g.fn(callee, siteAbort))
		}
	case len(ct.static) > 1:
		alts := skNil
		for _, callee := range ct.static {
			if _, reach := w.g.fo.mayRead[callee]; reach {
				alts = skAlt(w.g.fn(callee, false), alts)
			}
		}
		sk = skSeq(sk, alts)
	}
	return sk
}

// ---------------------------------------------------------------- emission

func (s *skel) lean() string {
	switch s.kind {
	case "nil":
		return ".nil"
	case "rd":
		return ".rd " + qlist(s.fs)
	case "wr":
		return ".wr " + q(s.f)
	case "upd":
		return ".upd " + q(s.f)
	case "seq":
		return "(.seq " + s.a.leanArg() + " " + s.b.leanArg() + ")"
	case "alt":
		return "(.alt " + s.a.leanArg() + " " + s.b.leanArg() + ")"
	case "loop":
		return "(.loop " + s.a.leanArg() + ")"
	case "guard":
		return "(.guard " + s.a.leanArg() + ")"
	case "ref":
		return s.name
	}
	return ".nil"
}

func (s *skel) leanArg() string {
	t := s.lean()
	if strings.HasPrefix(t, "(") || s.kind == "ref" || s.kind == "nil" {
		return t
	}
	return "(" + t + ")"
}
