// gofacts: structural facts about the repository's current source, emitted as Lean data
// (lean/GdcVerif/Gen/Facts.lean).  Type-resolved with go/types over the files of the default
// build (see load.go); the store analysis is in alias.go, the per-field analysis in fields.go.
//
//	F1  pkgVars, pkgVarWrites      package-level variables and every store rooted in one
//	F2  codecTypes, codecRecvStores stores through the receiver of methods of codec.Codec implementations
//	F3  <obj>Fields/-Readers/-Writers/-Class for jpeg2000.Encoder (Encode) and jpeg2000.Decoder (Decode)
//	F4  inputParams, inputParamStores stores through the caller's input buffers
//	F5  goStmts, syncUses, unsafeImports
//	    validate*                   store path conditions of the Parameters.Validate methods
//	    unknowns                    everything the analysis could not classify (obligations fail on these)
//	-hooks DIR  additionally writes add-only `verif_pkgvars.go` hook files (//go:build verif) that
//	            expose pointers to the package-level variables for the dynamic snapshot of C18.
package main

import (
	"flag"
	"fmt"
	"go/ast"
	"go/token"
	"go/types"
	"os"
	"path/filepath"
	"sort"
	"strconv"
	"strings"
)

func q(s string) string { return strconv.Quote(s) }

func leanList(items []string, perLine bool) string {
	if len(items) == 0 {
		return "[]"
	}
	if perLine {
		return "[\n  " + strings.Join(items, ",\n  ") + "]"
	}
	return "[" + strings.Join(items, ", ") + "]"
}

func qlist(xs []string) string {
	ys := make([]string, len(xs))
	for i, x := range xs {
		ys[i] = q(x)
	}
	return leanList(ys, false)
}

func uniqSorted(xs []string) []string {
	sort.Strings(xs)
	var out []string
	for i, x := range xs {
		if i == 0 || x != xs[i-1] {
			out = append(out, x)
		}
	}
	return out
}

func main() {
	repo := flag.String("repo", "/repo", "repository root")
	out := flag.String("out", "", "output file (Facts.lean)")
	hooks := flag.String("hooks", "", "directory to write verif_pkgvars.go hook files into (mirrors the repo layout)")
	verbose := flag.Bool("v", false, "print a summary")
	flag.Parse()
	absRepo, _ := filepath.Abs(*repo)
	prog, err := load(absRepo)
	if err != nil {
		fmt.Fprintln(os.Stderr, "gofacts:", err)
		os.Exit(1)
	}
	an := newAnalysis(prog)
	an.run()
	text := emit(an, *verbose)
	if *out != "" {
		if err := os.WriteFile(*out, []byte(text), 0o644); err != nil {
			fmt.Fprintln(os.Stderr, "gofacts:", err)
			os.Exit(1)
		}
	} else {
		fmt.Print(text)
	}
	if *hooks != "" {
		if err := writeHooks(an, *hooks); err != nil {
			fmt.Fprintln(os.Stderr, "gofacts:", err)
			os.Exit(1)
		}
	}
}

// ---------------------------------------------------------------- phases (init reachability)

func (an *analysis) phases() map[*funcInfo]string {
	closure := func(roots []*funcInfo) map[*funcInfo]bool {
		seen := map[*funcInfo]bool{}
		work := append([]*funcInfo(nil), roots...)
		for _, r := range roots {
			seen[r] = true
		}
		for len(work) > 0 {
			f := work[len(work)-1]
			work = work[:len(work)-1]
			for _, m := range []map[*funcInfo]bool{f.callees, f.funcRefs} {
				for c := range m {
					if !seen[c] {
						seen[c] = true
						work = append(work, c)
					}
				}
			}
		}
		return seen
	}
	// exported functions that init calls and that no other function of the module calls: they run during
	// initialisation; a client calling them later is outside the property (reported with phase "init-exported")
	calledByNonInit := map[*funcInfo]bool{}
	calledByInit := map[*funcInfo]bool{}
	for _, fi := range an.flist {
		for c := range fi.callees {
			if c == fi {
				continue
			}
			if fi.isInit {
				calledByInit[c] = true
			} else {
				calledByNonInit[c] = true
			}
		}
		for c := range fi.funcRefs {
			if !fi.callees[c] {
				calledByNonInit[c] = true
			}
		}
	}
	initHelper := map[*funcInfo]bool{}
	for _, fi := range an.flist {
		if fi.decl != nil && !fi.hasRecv && ast.IsExported(fi.decl.Name.Name) && calledByInit[fi] && !calledByNonInit[fi] {
			initHelper[fi] = true
		}
	}
	// helpers of helpers: exported, called only by init helpers
	for ch := true; ch; {
		ch = false
		for _, fi := range an.flist {
			if initHelper[fi] || fi.decl == nil || fi.hasRecv || !ast.IsExported(fi.decl.Name.Name) {
				continue
			}
			only, some := true, false
			for _, g := range an.flist {
				if g != fi && g.callees[fi] {
					some = true
					if !g.isInit && !initHelper[g] {
						only = false
					}
				}
				if g != fi && g.funcRefs[fi] && !g.callees[fi] {
					only = false
				}
			}
			if some && only {
				initHelper[fi] = true
				ch = true
			}
		}
	}
	var initRoots, rtRoots []*funcInfo
	for _, fi := range an.flist {
		if fi.isInit {
			initRoots = append(initRoots, fi)
			// function values created during initialisation may be invoked at any later time
			for r := range fi.funcRefs {
				if !fi.callees[r] {
					rtRoots = append(rtRoots, r)
				}
			}
			continue
		}
		if fi.decl != nil && !initHelper[fi] && (ast.IsExported(fi.decl.Name.Name) || (fi.decl.Name.Name == "main" && !fi.hasRecv)) {
			rtRoots = append(rtRoots, fi)
		}
	}
	// func values taken anywhere at run time
	rt := closure(rtRoots)
	ini := closure(initRoots)
	out := map[*funcInfo]string{}
	for _, fi := range an.flist {
		switch {
		case fi.isInit:
			out[fi] = "init"
		case rt[fi]:
			out[fi] = "runtime"
		case initHelper[fi]:
			out[fi] = "init-exported"
		case ini[fi]:
			out[fi] = "init-only"
		default:
			out[fi] = "dead"
		}
	}
	return out
}

// ---------------------------------------------------------------- emission

func emit(an *analysis, verbose bool) string {
	prog := an.prog
	var b strings.Builder
	w := func(f string, a ...any) { fmt.Fprintf(&b, f, a...) }
	w("-- GENERATED by verif/go/cmd/gofacts from the repository's current source — do not edit\n")
	w("namespace Gen.Facts\n\n")
	w("/-- F3 skeleton of an entry method over the fields of its object (see gofacts/skel.go):\n    rd = reads, wr = whole-field store, upd = partial store (reads the field), alt = either branch,\n    loop = zero or more times, guard a = `if X == nil … { return }; a` (a nil guard with a bare return) -/\n")
	w("inductive Skel where\n  | nil : Skel\n  | rd : List String → Skel\n  | wr : String → Skel\n  | upd : String → Skel\n  | seq : Skel → Skel → Skel\n  | alt : Skel → Skel → Skel\n  | loop : Skel → Skel\n  | guard : Skel → Skel\n\n")
	phase := an.phases()
	isLibVar := func(pv *pkgVarInfo) bool { return pv.pkg.isLib }

	// F1
	w("/-- F1: (package, variable, type, library package?) for every package-level variable -/\n")
	var items []string
	for _, pv := range an.pvlist {
		items = append(items, fmt.Sprintf("(%s, %s, %s, %v)", q(prog.rel(pv.pkg.lp.ImportPath)), q(pv.v.Name()), q(pv.typ), isLibVar(pv)))
	}
	w("def pkgVars : List (String × String × String × Bool) := %s\n\n", leanList(items, true))
	w("/-- F1: (variable, function, kind, phase, library package?) for every store rooted in a package-level\n    variable; phase ∈ init | init-only | init-exported | runtime | dead -/\n")
	items = nil
	seen := map[string]bool{}
	sort.SliceStable(an.stores, func(i, j int) bool {
		a, c := an.stores[i], an.stores[j]
		if an.pkgVars[a.root].name != an.pkgVars[c.root].name {
			return an.pkgVars[a.root].name < an.pkgVars[c.root].name
		}
		if a.fn.name != c.fn.name {
			return a.fn.name < c.fn.name
		}
		return a.kind < c.kind
	})
	nRuntime := 0
	for _, s := range an.stores {
		pv := an.pkgVars[s.root]
		it := fmt.Sprintf("(%s, %s, %s, %s, %v)", q(pv.name), q(s.fn.name), q(s.kind), q(phase[s.fn]), pv.pkg.isLib || s.fn.pkg.isLib)
		if !seen[it] {
			seen[it] = true
			items = append(items, it)
			if phase[s.fn] == "runtime" || phase[s.fn] == "dead" {
				nRuntime++
			}
		}
	}
	w("def pkgVarWrites : List (String × String × String × String × Bool) := %s\n\n", leanList(items, true))

	// F2
	codecIface := findCodecIface(prog)
	var codecTypes []string
	var f2 []string
	unknowns := append([]unknownFact(nil), an.unknowns...)
	if codecIface == nil {
		unknowns = append(unknowns, unknownFact{"codec.Codec interface", "gofacts", "github.com/cocosip/go-dicom/pkg/imaging/codec.Codec not found", true})
	}
	isCodecRecv := func(fi *funcInfo) (string, bool) {
		if !fi.hasRecv || codecIface == nil {
			return "", false
		}
		t := fi.params[0].Type()
		base := t
		if p, ok := t.(*types.Pointer); ok {
			base = p.Elem()
		}
		nt, ok := base.(*types.Named)
		if !ok {
			return "", false
		}
		if types.Implements(types.NewPointer(nt), codecIface) || types.Implements(nt, codecIface) {
			return prog.rel(nt.Obj().Pkg().Path()) + "." + nt.Obj().Name(), true
		}
		return "", false
	}
	for _, fi := range an.flist {
		tn, ok := isCodecRecv(fi)
		if !ok {
			continue
		}
		codecTypes = append(codecTypes, tn)
		var es []string
		for e := range fi.storesThru[0] {
			es = append(es, e[2:])
		}
		sort.Strings(es)
		for _, e := range es {
			f2 = append(f2, fmt.Sprintf("(%s, %s, %s)", q(tn), q(fi.decl.Name.Name), q(e)))
		}
		for u := range fi.unknownVia[0] {
			unknowns = append(unknowns, unknownFact{"codec receiver " + tn, fi.name, u, true})
		}
	}
	codecTypes = uniqSorted(codecTypes)
	w("/-- F2: the types implementing go-dicom's codec.Codec -/\n")
	w("def codecTypes : List String := %s\n\n", qlist(codecTypes))
	var cm []string
	for _, fi := range an.flist {
		if tn, ok := isCodecRecv(fi); ok {
			cm = append(cm, fmt.Sprintf("(%s, %s)", q(tn), q(fi.decl.Name.Name)))
		}
	}
	w("/-- F2: every method with such a receiver (the set the obligation ranges over) -/\n")
	w("def codecMethods : List (String × String) := %s\n\n", leanList(cm, true))
	// F2b: stores through the codec.Parameters argument of codec methods
	var cps []string
	for _, st := range an.pstores {
		tn, ok := isCodecRecv(st.fn)
		if !ok {
			continue
		}
		i, isParam := st.fn.pidx[st.root]
		if !isParam || i == 0 {
			continue
		}
		if ts := types.TypeString(st.root.Type(), func(q *types.Package) string { return q.Name() }); ts != "codec.Parameters" {
			continue
		}
		via := st.kind
		if strings.HasPrefix(via, "call:") && strings.HasSuffix(via, ").Validate") {
			via = "Validate"
		}
		depth := "deep"
		if st.direct {
			depth = "direct"
		}
		cps = append(cps, fmt.Sprintf("(%s, %s, %s, %s)", q(tn), q(st.fn.decl.Name.Name), q(via), q(depth)))
	}
	w("/-- F2b: (type, method, how, direct | deep) for every store through the codec.Parameters argument of a codec\n    method.  `Validate` = by calling the parameter object's Validate method (see the V_* store conditions).\n    direct = into the parameters object itself (the typed pointer obtained from the argument by type assertion, or\n    anything derived from it without a copy: `jp.F = v`, also inside callees that receive the pointer);\n    deep = somewhere in memory reachable from it (object-level aliasing: over-approximate) -/\n")
	w("def codecParameterStores : List (String × String × String × String) := %s\n\n", leanList(uniqSorted(cps), true))
	// where exactly: every direct store through a parameter that is a typed parameters object (pointer to a struct
	// implementing codec.Parameters), outside the methods of that type
	var tps []string
	paramsIface := findIface(prog, "/pkg/imaging/codec", "Parameters")
	for _, st := range an.pstores {
		if !st.direct || !st.fn.pkg.isLib || st.fn.decl == nil || strings.HasPrefix(st.kind, "call:") {
			continue
		}
		pt, ok := st.root.Type().(*types.Pointer)
		if !ok || paramsIface == nil || !types.Implements(pt, paramsIface) {
			continue
		}
		if st.fn.hasRecv && types.Identical(st.fn.params[0].Type(), st.root.Type()) && st.fn.pidx[st.root] == 0 {
			continue // the type's own methods (Validate, With…, SetParameter)
		}
		tps = append(tps, fmt.Sprintf("(%s, %s, %s, %s)", q(st.fn.name), q(st.root.Name()), q(st.field), q(st.kind)))
	}
	w("/-- every direct store through a function parameter that is a typed parameters object, outside that type's own\n    methods: (function, parameter, field, kind).  Helpers that fill a freshly created object appear here; whether\n    the object is the caller's is decided at the codec method (codecParameterStores) -/\n")
	w("def typedParameterDirectStores : List (String × String × String × String) := %s\n\n", leanList(uniqSorted(tps), true))
	w("/-- F2: (type, method, cell type) for every store through the receiver of such a method (transitively) -/\n")
	w("def codecRecvStores : List (String × String × String) := %s\n\n", leanList(f2, true))

	// F3
	for _, spec := range [][3]string{{"jpeg2000", "Encoder", "Encode"}, {"jpeg2000", "Decoder", "Decode"}} {
		fo := an.fieldAnalysis(spec[0], spec[1], spec[2])
		pre := strings.ToLower(spec[1])
		if fo == nil {
			unknowns = append(unknowns, unknownFact{spec[0] + "." + spec[1], "gofacts", "type or entry method " + spec[2] + " not found", true})
			w("def %sFields : List (String × String) := []\ndef %sFieldReaders : List (String × List String) := []\n", pre, pre)
			w("def %sFieldWriters : List (String × List (String × String)) := []\ndef %sFieldClass : List (String × String) := []\n", pre, pre)
			w("def %sContentStores : List (String × String × String × String) := []\ndef %sWriterReads : List (String × List String) := []\ndef %sSkeleton : Skel := .nil\n\n", pre, pre, pre)
			continue
		}
		w("/-- F3 %s, entry %s: (field, type) in declaration order -/\n", fo.typeName, spec[2])
		items = nil
		for i, f := range fo.fields {
			items = append(items, fmt.Sprintf("(%s, %s)", q(f), q(fo.ftypes[i])))
		}
		w("def %sFields : List (String × String) := %s\n", pre, leanList(items, true))
		w("/-- functions reachable from %s that read the field -/\n", spec[2])
		items = nil
		for _, f := range fo.fields {
			var rs []string
			for fi := range fo.reads[f] {
				rs = append(rs, fi.short)
			}
			items = append(items, fmt.Sprintf("(%s, %s)", q(f), qlist(uniqSorted(rs))))
		}
		w("def %sFieldReaders : List (String × List String) := %s\n", pre, leanList(items, true))
		w("/-- functions reachable from %s that write the field: (function, whole | partial) -/\n", spec[2])
		items = nil
		writersOfLeaky := map[*funcInfo]bool{}
		for _, f := range fo.fields {
			var ws []string
			var fis []*funcInfo
			for fi := range fo.writes[f] {
				fis = append(fis, fi)
			}
			sort.Slice(fis, func(i, j int) bool { return fis[i].short < fis[j].short })
			for _, fi := range fis {
				ws = append(ws, fmt.Sprintf("(%s, %s)", q(fi.short), q(fo.writes[f][fi])))
				if fo.class[f] == "leaky" {
					writersOfLeaky[fi] = true
				}
			}
			items = append(items, fmt.Sprintf("(%s, %s)", q(f), leanList(ws, false)))
		}
		w("def %sFieldWriters : List (String × List (String × String)) := %s\n", pre, leanList(items, true))
		w("/-- config (never written from %s) | writeonly | killed (written before any read on every path) | leaky -/\n", spec[2])
		items = nil
		for _, f := range fo.fields {
			items = append(items, fmt.Sprintf("(%s, %s)", q(f), q(fo.class[f])))
		}
		w("def %sFieldClass : List (String × String) := %s\n", pre, leanList(items, true))
		w("/-- stores into memory referenced by a field: (field, sub-field, function, how) -/\n")
		items = nil
		for _, cs := range fo.contents {
			items = append(items, fmt.Sprintf("(%s, %s, %s, %s)", q(cs.field), q(cs.sub), q(cs.fn), q(cs.kind)))
		}
		items = uniqSorted(items)
		w("def %sContentStores : List (String × String × String × String) := %s\n", pre, leanList(items, true))
		w("/-- for every function writing a leaky field: the fields it may read (transitively) -/\n")
		items = nil
		var wl []*funcInfo
		for fi := range writersOfLeaky {
			wl = append(wl, fi)
		}
		sort.Slice(wl, func(i, j int) bool { return wl[i].short < wl[j].short })
		for _, fi := range wl {
			var rs []string
			for f := range fo.mayRead[fi] {
				rs = append(rs, f)
			}
			items = append(items, fmt.Sprintf("(%s, %s)", q(fi.short), qlist(uniqSorted(rs))))
		}
		w("def %sWriterReads : List (String × List String) := %s\n\n", pre, leanList(items, true))
		// skeleton
		g := newSkelGen(fo, pre)
		root := g.fn(fo.entryFn, true)
		w("/-- F3 skeleton of %s.%s with every reachable callee inlined in statement order -/\n", fo.typeName, spec[2])
		for _, d := range g.defs {
			w("def %s : Skel := %s\n", d.name, d.a.lean())
		}
		w("def %sSkeleton : Skel := %s\n\n", pre, root.lean())
		for _, n := range uniqSorted(g.notes) {
			unknowns = append(unknowns, unknownFact{"skeleton " + fo.typeName, spec[2], n, true})
		}
		if verbose {
			fmt.Fprintf(os.Stderr, "gofacts: skeleton %s: %d named parts\n", fo.typeName, len(g.defs))
		}
	}

	// F4
	var ip, ips, dps []string
	for _, fi := range an.flist {
		if fi.decl == nil || !fi.pkg.isLib || !ast.IsExported(fi.decl.Name.Name) {
			continue
		}
		n := fi.decl.Name.Name
		if !(strings.HasPrefix(n, "Encode") || strings.HasPrefix(n, "Decode")) {
			continue
		}
		seenPD := false
		for i, p := range fi.params {
			if fi.hasRecv && i == 0 {
				continue
			}
			ts := types.TypeString(p.Type(), func(q *types.Package) string { return q.Name() })
			isBytes := ts == "[]byte" || ts == "[]uint8"
			isPD := ts == "imagetypes.PixelData"
			if isPD && seenPD {
				continue // second PixelData parameter is the destination
			}
			if isPD {
				seenPD = true
			}
			if !isBytes && !isPD {
				continue
			}
			ip = append(ip, fmt.Sprintf("(%s, %s, %s, %v)", q(fi.name), q(p.Name()), q(ts), strings.HasPrefix(n, "Encode")))
			var es []string
			for e := range fi.storesThru[i] {
				es = append(es, e[2:])
			}
			sort.Strings(es)
			for _, e := range es {
				// through a []byte, or through PixelData.GetFrame (a []byte), only byte cells are reachable
				if e != "uint8" && e != "byte" && e != anyType {
					continue
				}
				if strings.HasPrefix(n, "Encode") {
					ips = append(ips, fmt.Sprintf("(%s, %s, %s)", q(fi.name), q(p.Name()), q(e)))
				} else {
					dps = append(dps, fmt.Sprintf("(%s, %s, %s)", q(fi.name), q(p.Name()), q(e)))
				}
			}
			for u := range fi.unknownVia[i] {
				unknowns = append(unknowns, unknownFact{"input parameter " + p.Name(), fi.name, u, true})
			}
		}
	}
	w("/-- F4: the caller-owned input buffers examined: exported Encode*/Decode* functions and methods of the\n    library packages, parameters of type []byte and the source imagetypes.PixelData; (function, parameter,\n    type, is an Encode* function?) -/\n")
	w("def inputParams : List (String × String × String × Bool) := %s\n\n", leanList(ip, true))
	w("/-- F4: (function, parameter, cell type) for every byte store through such a parameter of an Encode* function\n    (transitively).  This is the obligation: the caller's pixel data is not written. -/\n")
	w("def inputParamStores : List (String × String × String) := %s\n\n", leanList(ips, true))
	w("/-- F4, Decode* functions: over-approximate (aliasing is tracked per object, not per field, so a decoder's own\n    scratch-buffer stores are attributed to the input it wraps).  Informational; input immutability of Decode is\n    established dynamically by the C10 harness. -/\n")
	w("def decodeInputStoresApprox : List (String × String × String) := %s\n\n", leanList(dps, true))
	if verbose && os.Getenv("GOFACTS_PSTORES") != "" {
		for _, s := range an.pstores {
			if s.fn.pkg.isLib && strings.Contains(s.fn.name, os.Getenv("GOFACTS_PSTORES")) {
				fmt.Fprintf(os.Stderr, "pstore %s param=%s kind=%s %s:%d\n", s.fn.name, s.root.Name(), s.kind, shortFile(prog, s.pos.Filename), s.pos.Line)
			}
		}
	}

	// F5
	var gos, syncs, unsafes []string
	for _, p := range prog.pkgs {
		rel := prog.rel(p.lp.ImportPath)
		for _, f := range p.files {
			fname := shortFile(prog, prog.fset.Position(f.Pos()).Filename)
			for _, im := range f.Imports {
				path, _ := strconv.Unquote(im.Path.Value)
				switch path {
				case "unsafe":
					unsafes = append(unsafes, fmt.Sprintf("(%s, %s, %v)", q(rel), q(fname), p.isLib))
				case "sync", "sync/atomic":
					syncs = append(syncs, fmt.Sprintf("(%s, %s, %v)", q(rel), q(fname+" imports "+path), p.isLib))
				}
			}
			ast.Inspect(f, func(n ast.Node) bool {
				if g, ok := n.(*ast.GoStmt); ok {
					gos = append(gos, fmt.Sprintf("(%s, %s, %v)", q(rel), q(fmt.Sprintf("%s:%d", fname, prog.fset.Position(g.Pos()).Line)), p.isLib))
				}
				return true
			})
		}
	}
	w("/-- F5: (package, where, library package?) -/\n")
	w("def goStmts : List (String × String × Bool) := %s\n", leanList(uniqSorted(gos), true))
	w("def syncUses : List (String × String × Bool) := %s\n", leanList(uniqSorted(syncs), true))
	w("def unsafeImports : List (String × String × Bool) := %s\n\n", leanList(uniqSorted(unsafes), true))

	// Validate kernels
	unknowns = append(unknowns, emitValidate(an, &b)...)

	// unknowns
	items = nil
	for _, u := range unknowns {
		items = append(items, fmt.Sprintf("(%s, %s, %s, %v)", q(u.what), q(u.where), q(u.detail), u.lib))
	}
	items = uniqSorted(items)
	w("/-- everything the analysis could not classify: (what, where, detail, concerns a library package?).\n    Obligations require the library part of this to be empty. -/\n")
	w("def unknowns : List (String × String × String × Bool) := %s\n\n", leanList(items, true))
	emitAllocs(an, w) // F-alloc (C09), allocs.go
	w("end Gen.Facts\n")
	if verbose {
		fmt.Fprintf(os.Stderr, "gofacts: %d packages, %d functions, %d package vars, %d pkgvar stores (%d outside init), %d codec types, %d unknowns\n",
			len(prog.pkgs), len(an.flist), len(an.pvlist), len(an.stores), nRuntime, len(codecTypes), len(items))
	}
	return b.String()
}

func findIface(prog *program, pkgSuffix, name string) *types.Interface {
	for path, p := range prog.byPath {
		if strings.HasSuffix(path, pkgSuffix) && p.tpkg != nil {
			if tn, ok := p.tpkg.Scope().Lookup(name).(*types.TypeName); ok {
				if it, ok := tn.Type().Underlying().(*types.Interface); ok {
					return it
				}
			}
		}
	}
	return nil
}

func findCodecIface(prog *program) *types.Interface {
	for path, p := range prog.byPath {
		if strings.HasSuffix(path, "/pkg/imaging/codec") && p.tpkg != nil {
			if tn, ok := p.tpkg.Scope().Lookup("Codec").(*types.TypeName); ok {
				if it, ok := tn.Type().Underlying().(*types.Interface); ok {
					return it
				}
			}
		}
	}
	return nil
}

// ---------------------------------------------------------------- Validate kernels

type vcond struct {
	field string
	cond  string // Lean Bool expression over `p`
}

// emitValidate: for every method `Validate` with a pointer receiver to a struct in a library package: a Lean
// structure of the fields the conditions mention and the list of (stored field, path condition).  The path
// condition is evaluated on the *initial* object, which is exact for the question "is any store executed":
// if no earlier store fired the object is still the initial one.
func emitValidate(an *analysis, b *strings.Builder) []unknownFact {
	var unk []unknownFact
	w := func(f string, a ...any) { fmt.Fprintf(b, f, a...) }
	var names, dispatch []string
	for _, fi := range an.flist {
		if fi.decl == nil || !fi.hasRecv || fi.decl.Name.Name != "Validate" || !fi.pkg.isLib {
			continue
		}
		pt, ok := fi.params[0].Type().(*types.Pointer)
		if !ok {
			continue
		}
		nt, ok := pt.Elem().(*types.Named)
		if !ok {
			continue
		}
		st, ok := nt.Underlying().(*types.Struct)
		if !ok {
			continue
		}
		sig := fi.obj.Type().(*types.Signature)
		if sig.Params().Len() != 0 {
			continue // Validate(width, height) of ROI configs etc. are not parameter objects
		}
		recvName := ""
		if len(fi.decl.Recv.List) > 0 && len(fi.decl.Recv.List[0].Names) > 0 {
			recvName = fi.decl.Recv.List[0].Names[0].Name
		}
		lean := "V_" + strings.NewReplacer("/", "_", ".", "_").Replace(an.prog.rel(fi.pkg.lp.ImportPath)) + "_" + nt.Obj().Name()
		vt := &vtrans{an: an, fi: fi, recv: recvName, st: st, used: map[string]string{}}
		conds := vt.block(fi.decl.Body.List, "true")
		names = append(names, lean)
		w("/-- %s.(*%s).Validate: the fields its store conditions read -/\n", an.prog.rel(fi.pkg.lp.ImportPath), nt.Obj().Name())
		w("structure %s where\n", lean)
		var fs []string
		for f := range vt.used {
			fs = append(fs, f)
		}
		sort.Strings(fs)
		for _, f := range fs {
			w("  %s : %s\n", f, vt.used[f])
		}
		if len(fs) == 0 {
			w("  unit : Unit := ()\n")
		}
		w("/-- (stored field, condition under which the store executes, evaluated on the object as passed in) -/\n")
		var items []string
		for _, c := range conds {
			items = append(items, fmt.Sprintf("(%s, %s)", q(c.field), c.cond))
		}
		w("def %s.storeConds (p : %s) : List (String × Bool) := %s\n", lean, lean, leanList(items, true))
		// construction from an association list (for the line-protocol driver)
		var inits []string
		for _, f := range fs {
			if vt.used[f] == "Bool" {
				inits = append(inits, fmt.Sprintf("%s := (a.lookup %s).getD 0 != 0", f, q(f)))
			} else {
				inits = append(inits, fmt.Sprintf("%s := (a.lookup %s).getD 0", f, q(f)))
			}
		}
		w("def %s.ofAssoc (a : List (String × Int)) : %s := { %s }\n\n", lean, lean, strings.Join(inits, ", "))
		dispatch = append(dispatch, fmt.Sprintf("  | %s => some ((%s.ofAssoc a).storeConds)", q(lean), lean))
		for _, u := range vt.unk {
			unk = append(unk, unknownFact{"Validate " + lean, fi.name, u, true})
		}
	}
	w("/-- the parameter types with a Validate() method -/\n")
	w("def validateTypes : List String := %s\n\n", qlist(names))
	w("/-- store conditions of the named type's Validate on the object given as field/value pairs -/\n")
	w("def validateStoreConds (ty : String) (a : List (String × Int)) : Option (List (String × Bool)) :=\n  match ty with\n%s\n  | _ => none\n\n", strings.Join(dispatch, "\n"))
	return unk
}

type vtrans struct {
	an   *analysis
	fi   *funcInfo
	recv string
	st   *types.Struct
	used map[string]string
	unk  []string
	// locals bound by `if x := g(p.F); …`: x stands for the pseudo-field g_F (value of the pure helper g on field F)
	locals map[string]string
}

func (v *vtrans) fieldOf(e ast.Expr) (string, types.Type, bool) {
	se, ok := unparen(e).(*ast.SelectorExpr)
	if !ok {
		return "", nil, false
	}
	id, ok := se.X.(*ast.Ident)
	if !ok || id.Name != v.recv {
		return "", nil, false
	}
	for i := 0; i < v.st.NumFields(); i++ {
		if v.st.Field(i).Name() == se.Sel.Name {
			return se.Sel.Name, v.st.Field(i).Type(), true
		}
	}
	return "", nil, false
}

func and(a, b string) string {
	if a == "true" {
		return b
	}
	return "(" + a + " && " + b + ")"
}

func (v *vtrans) block(list []ast.Stmt, path string) []vcond {
	var out []vcond
	for _, s := range list {
		out = append(out, v.stmt(s, path)...)
	}
	return out
}

func (v *vtrans) stmt(s ast.Stmt, path string) []vcond {
	switch x := s.(type) {
	case *ast.BlockStmt:
		return v.block(x.List, path)
	case *ast.IfStmt:
		if x.Init != nil {
			name, expr, ok := v.initBinding(x.Init)
			if !ok {
				v.unk = append(v.unk, "if with init statement outside the translated subset")
				return []vcond{{"?", "true"}}
			}
			if v.locals == nil {
				v.locals = map[string]string{}
			}
			v.locals[name] = expr
			defer delete(v.locals, name)
		}
		c, ok := v.cond(x.Cond)
		if !ok {
			v.unk = append(v.unk, "condition outside the translated subset at line "+strconv.Itoa(v.an.prog.fset.Position(x.Pos()).Line))
			c = "true"
		}
		out := v.block(x.Body.List, and(path, c))
		if x.Else != nil {
			nc := "!" + c
			if !ok {
				nc = "true"
			}
			out = append(out, v.stmt(x.Else, and(path, nc))...)
		}
		return out
	case *ast.AssignStmt:
		var out []vcond
		for _, l := range x.Lhs {
			if f, _, ok := v.fieldOf(l); ok {
				out = append(out, vcond{f, path})
			} else if _, bv, steps, ok := (&fctx{an: v.an, fi: v.fi, in: v.fi.pkg.info}).decompose(l); ok && bv != nil && bv == v.fi.params[0] {
				out = append(out, vcond{firstField(steps), path})
			} else if x.Tok != token.DEFINE {
				if id, isId := l.(*ast.Ident); !isId || id.Name != "_" {
					// store to something that is not a receiver field: local variable – irrelevant
					if _, bv, _, ok := (&fctx{an: v.an, fi: v.fi, in: v.fi.pkg.info}).decompose(l); !ok || bv == nil || len((&fctx{an: v.an, fi: v.fi, in: v.fi.pkg.info}).varRoots(bv)) > 0 {
						v.unk = append(v.unk, "store to non-field lvalue")
						out = append(out, vcond{"?", path})
					}
				}
			}
		}
		return out
	case *ast.IncDecStmt:
		if f, _, ok := v.fieldOf(x.X); ok {
			return []vcond{{f, path}}
		}
		return nil
	case *ast.ExprStmt:
		if call, ok := x.X.(*ast.CallExpr); ok {
			if id, ok := call.Fun.(*ast.Ident); ok && id.Name == "copy" && len(call.Args) == 2 {
				if f, _, ok := v.fieldOf(call.Args[0]); ok {
					return []vcond{{f + "[]", path}}
				}
			}
			// any other call: does the callee store through the receiver?
			c := &fctx{an: v.an, fi: v.fi, in: v.fi.pkg.info}
			ct := c.resolve(call)
			args := c.callArgs(call, ct)
			for _, callee := range ct.static {
				for pi := range callee.storesThru {
					for ai, a := range args {
						if paramIndexForArg(callee, ai) == pi {
							if _, has := c.valueRoots(a)[v.fi.params[0]]; has {
								return []vcond{{"call:" + callee.short, path}}
							}
						}
					}
				}
			}
			if ct.ext != nil || ct.dynamic {
				for _, a := range args {
					if _, has := c.valueRoots(a)[v.fi.params[0]]; has {
						v.unk = append(v.unk, "receiver passed to "+extName(ct.ext))
						return []vcond{{"?", path}}
					}
				}
			}
		}
		return nil
	case *ast.ReturnStmt:
		return nil
	case *ast.ForStmt, *ast.RangeStmt, *ast.SwitchStmt:
		// loops / switches: every store inside is reported with an untranslated (true) condition
		var out []vcond
		ast.Inspect(s, func(n ast.Node) bool {
			if as, ok := n.(*ast.AssignStmt); ok {
				for _, l := range as.Lhs {
					c := &fctx{an: v.an, fi: v.fi, in: v.fi.pkg.info}
					if _, bv, steps, ok := c.decompose(l); ok && bv == v.fi.params[0] {
						out = append(out, vcond{firstField(steps), path})
					}
				}
			}
			return true
		})
		if len(out) > 0 {
			v.unk = append(v.unk, "store inside a loop/switch")
		}
		return out
	}
	return nil
}

func (v *vtrans) use(f string, t types.Type) (string, bool) {
	switch u := t.Underlying().(type) {
	case *types.Basic:
		switch {
		case u.Info()&types.IsInteger != 0:
			v.used[f] = "Int"
			return "p." + f, true
		case u.Info()&types.IsFloat != 0:
			v.used[f] = "Int" // floats compared with integer constants only; NaN makes every comparison false (no store)
			return "p." + f, true
		case u.Info()&types.IsBoolean != 0:
			v.used[f] = "Bool"
			return "p." + f, true
		}
	}
	return "", false
}

// cond: Go boolean expression over receiver fields -> Lean Bool expression
func (v *vtrans) cond(e ast.Expr) (string, bool) {
	switch x := unparen(e).(type) {
	case *ast.BinaryExpr:
		switch x.Op {
		case token.LAND, token.LOR:
			a, ok1 := v.cond(x.X)
			c, ok2 := v.cond(x.Y)
			op := " && "
			if x.Op == token.LOR {
				op = " || "
			}
			return "(" + a + op + c + ")", ok1 && ok2
		case token.LSS, token.LEQ, token.GTR, token.GEQ, token.EQL, token.NEQ:
			a, ok1 := v.arith(x.X)
			c, ok2 := v.arith(x.Y)
			op := map[token.Token]string{token.LSS: "<", token.LEQ: "≤", token.GTR: ">", token.GEQ: "≥", token.EQL: "=", token.NEQ: "≠"}[x.Op]
			return "decide (" + a + " " + op + " " + c + ")", ok1 && ok2
		}
	case *ast.UnaryExpr:
		if x.Op == token.NOT {
			a, ok := v.cond(x.X)
			return "!" + a, ok
		}
	case *ast.SelectorExpr:
		if f, t, ok := v.fieldOf(x); ok {
			if s, ok := v.use(f, t); ok && v.used[f] == "Bool" {
				return s, true
			}
		}
	}
	return "true", false
}

// initBinding: `x := g(p.F)` with g a function of the module (no receiver store: it gets a value) —
// x is translated as the integer pseudo-field g_F of the generated structure
func (v *vtrans) initBinding(s ast.Stmt) (string, string, bool) {
	as, ok := s.(*ast.AssignStmt)
	if !ok || as.Tok != token.DEFINE || len(as.Lhs) != 1 || len(as.Rhs) != 1 {
		return "", "", false
	}
	id, ok := as.Lhs[0].(*ast.Ident)
	if !ok {
		return "", "", false
	}
	call, ok := unparen(as.Rhs[0]).(*ast.CallExpr)
	if !ok || len(call.Args) != 1 {
		return "", "", false
	}
	fn, ok := call.Fun.(*ast.Ident)
	if !ok {
		return "", "", false
	}
	if _, isFunc := v.fi.pkg.info.Uses[fn].(*types.Func); !isFunc {
		return "", "", false
	}
	f, t, ok := v.fieldOf(call.Args[0])
	if !ok {
		return "", "", false
	}
	if b, isBasic := t.Underlying().(*types.Basic); !isBasic || b.Info()&types.IsInteger == 0 {
		return "", "", false
	}
	if _, ok := v.use(f, t); !ok {
		return "", "", false
	}
	pf := fn.Name + "_" + f
	v.used[pf] = "Int"
	return id.Name, "p." + pf, true
}

func (v *vtrans) arith(e ast.Expr) (string, bool) {
	switch x := unparen(e).(type) {
	case *ast.Ident:
		if ex, ok := v.locals[x.Name]; ok {
			return ex, true
		}
	case *ast.BasicLit:
		switch x.Kind {
		case token.INT:
			return "(" + x.Value + " : Int)", true
		case token.FLOAT:
			if f, err := strconv.ParseFloat(x.Value, 64); err == nil && f == float64(int64(f)) {
				return "(" + strconv.FormatInt(int64(f), 10) + " : Int)", true
			}
		}
	case *ast.SelectorExpr:
		if f, t, ok := v.fieldOf(x); ok {
			if s, ok := v.use(f, t); ok && v.used[f] == "Int" {
				return s, true
			}
		}
	case *ast.CallExpr:
		if id, ok := x.Fun.(*ast.Ident); ok && id.Name == "len" && len(x.Args) == 1 {
			if f, _, ok := v.fieldOf(x.Args[0]); ok {
				v.used["len_"+f] = "Int"
				return "p.len_" + f, true
			}
		}
	case *ast.UnaryExpr:
		if x.Op == token.SUB {
			a, ok := v.arith(x.X)
			return "(-" + a + ")", ok
		}
	}
	return "(0 : Int)", false
}

// ---------------------------------------------------------------- hooks

func writeHooks(an *analysis, dir string) error {
	byPkg := map[*pkgInfo][]*pkgVarInfo{}
	for _, pv := range an.pvlist {
		if pv.pkg.isLib && pv.v.Name() != "_" {
			byPkg[pv.pkg] = append(byPkg[pv.pkg], pv)
		}
	}
	for p, vars := range byPkg {
		rel := an.prog.rel(p.lp.ImportPath)
		var b strings.Builder
		fmt.Fprintf(&b, "//go:build verif\n\n// Code generated by verif/go/cmd/gofacts -hooks; add-only verification hook, no behaviour.\n\npackage %s\n\n", p.lp.Name)
		fmt.Fprintf(&b, "// VerifPkgVars returns pointers to every package-level variable of this package (names as in Gen/Facts.lean).\nfunc VerifPkgVars() map[string]any {\n\treturn map[string]any{\n")
		for _, pv := range vars {
			fmt.Fprintf(&b, "\t\t%q: &%s,\n", pv.v.Name(), pv.v.Name())
		}
		fmt.Fprintf(&b, "\t}\n}\n")
		d := filepath.Join(dir, rel)
		if err := os.MkdirAll(d, 0o755); err != nil {
			return err
		}
		if err := os.WriteFile(filepath.Join(d, "verif_pkgvars.go"), []byte(b.String()), 0o644); err != nil {
			return err
		}
	}
	return nil
}
