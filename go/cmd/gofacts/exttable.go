package main

// What calls that leave the module do with reference arguments.  Argument indices count the
// receiver of a method call as 0.  A function that is not listed and receives a reference rooted
// in a package variable / tracked parameter produces an `unknown` fact.
//
// stores:      argument indices whose referenced memory the callee writes
// fresh:       the result does not alias any argument
// captureInto: argument index whose object keeps references to the other arguments (-1: none)
type extEntry struct {
	stores      []int
	fresh       bool
	captureInto int
}

func ro() extEntry      { return extEntry{captureInto: -1} }
func roFresh() extEntry { return extEntry{fresh: true, captureInto: -1} }

var extTable = map[string]extEntry{
	// fmt / errors: arguments are only formatted
	"fmt.Errorf": roFresh(), "fmt.Sprintf": roFresh(), "fmt.Sprint": roFresh(), "fmt.Sprintln": roFresh(),
	"fmt.Printf": roFresh(), "fmt.Println": roFresh(), "fmt.Print": roFresh(),
	"fmt.Fprintf": {stores: []int{0}, fresh: true, captureInto: -1}, "fmt.Fprintln": {stores: []int{0}, fresh: true, captureInto: -1},
	"errors.New": roFresh(), "errors.Is": roFresh(), "errors.As": {stores: []int{1}, fresh: true, captureInto: -1},
	"errors.Unwrap": ro(),
	"log.Fatalf": roFresh(), "log.Fatal": roFresh(), "log.Printf": roFresh(), "log.Println": roFresh(), "log.Fatalln": roFresh(),
	// bytes
	"bytes.NewReader": ro(), "bytes.NewBuffer": ro(), "bytes.Equal": roFresh(), "bytes.Index": roFresh(),
	"bytes.IndexByte": roFresh(), "bytes.HasPrefix": roFresh(), "bytes.Contains": roFresh(), "bytes.Compare": roFresh(),
	"(*bytes.Buffer).Write": {stores: []int{0}, fresh: true, captureInto: -1}, "(*bytes.Buffer).WriteByte": {stores: []int{0}, fresh: true, captureInto: -1},
	"(*bytes.Buffer).WriteString": {stores: []int{0}, fresh: true, captureInto: -1},
	"(*bytes.Buffer).Bytes": ro(), "(*bytes.Buffer).Len": roFresh(), "(*bytes.Buffer).Reset": {stores: []int{0}, fresh: true, captureInto: -1},
	"(*bytes.Buffer).Grow": {stores: []int{0}, fresh: true, captureInto: -1}, "(*bytes.Buffer).String": roFresh(),
	"(*bytes.Buffer).Truncate": {stores: []int{0}, fresh: true, captureInto: -1},
	"(*bytes.Reader).Read":     {stores: []int{0, 1}, fresh: true, captureInto: -1}, "(*bytes.Reader).ReadByte": {stores: []int{0}, fresh: true, captureInto: -1},
	"io.ReadAtLeast": {stores: []int{1}, fresh: true, captureInto: -1},
	"(*bytes.Reader).Len": roFresh(), "(*bytes.Reader).Seek": {stores: []int{0}, fresh: true, captureInto: -1},
	"(*bytes.Reader).UnreadByte": {stores: []int{0}, fresh: true, captureInto: -1}, "(*bytes.Reader).Size": roFresh(),
	// encoding/binary
	"encoding/binary.Write": {stores: []int{0}, fresh: true, captureInto: -1},
	"encoding/binary.Read":  {stores: []int{0, 2}, fresh: true, captureInto: -1},
	"(encoding/binary.bigEndian).Uint16": roFresh(), "(encoding/binary.bigEndian).Uint32": roFresh(), "(encoding/binary.bigEndian).Uint64": roFresh(),
	"(encoding/binary.littleEndian).Uint16": roFresh(), "(encoding/binary.littleEndian).Uint32": roFresh(), "(encoding/binary.littleEndian).Uint64": roFresh(),
	"(encoding/binary.bigEndian).PutUint16": {stores: []int{1}, fresh: true, captureInto: -1}, "(encoding/binary.bigEndian).PutUint32": {stores: []int{1}, fresh: true, captureInto: -1},
	"(encoding/binary.bigEndian).PutUint64":    {stores: []int{1}, fresh: true, captureInto: -1},
	"(encoding/binary.littleEndian).PutUint16": {stores: []int{1}, fresh: true, captureInto: -1}, "(encoding/binary.littleEndian).PutUint32": {stores: []int{1}, fresh: true, captureInto: -1},
	"(encoding/binary.littleEndian).PutUint64": {stores: []int{1}, fresh: true, captureInto: -1},
	// io
	"io.ReadFull": {stores: []int{1}, fresh: true, captureInto: -1}, "io.ReadAll": roFresh(),
	"io.Copy": {stores: []int{0}, fresh: true, captureInto: -1},
	// sort / slices: in-place
	"sort.Slice": {stores: []int{0}, fresh: true, captureInto: -1}, "sort.SliceStable": {stores: []int{0}, fresh: true, captureInto: -1},
	"sort.Ints": {stores: []int{0}, fresh: true, captureInto: -1}, "sort.Float64s": {stores: []int{0}, fresh: true, captureInto: -1},
	"sort.Sort": {stores: []int{0}, fresh: true, captureInto: -1}, "sort.Stable": {stores: []int{0}, fresh: true, captureInto: -1},
	"sort.Search": roFresh(), "sort.SearchInts": roFresh(),
	// strings / strconv / math: no references kept
	"strings.Join": roFresh(), "strings.Contains": roFresh(), "strings.HasPrefix": roFresh(),
	"encoding/hex.EncodeToString": roFresh(),
	// image (used by jpeg adapters / examples)
	"image/jpeg.Decode": {stores: []int{0}, fresh: true, captureInto: -1}, "image/jpeg.Encode": {stores: []int{0}, fresh: true, captureInto: -1},
	// interface methods declared outside the module (dynamic; contract of the interface)
	"iface.Error":           roFresh(),
	"iface.String":          roFresh(),
	"iface.Write":           {stores: []int{0}, fresh: true, captureInto: -1}, // io.Writer: must not modify p
	"iface.WriteByte":       {stores: []int{0}, fresh: true, captureInto: -1},
	// io.Reader / io.ByteReader: the reader advances its own position; by contract it does not write the
	// source it wraps (the wrapped buffer is what the receiver aliases here), only the destination p
	"iface.Read":            {stores: []int{1}, fresh: true, captureInto: -1},
	"iface.ReadByte":        roFresh(),
	"iface.GetFrame":        ro(), // imagetypes.PixelData: returns the caller's frame buffer (aliases the receiver)
	"iface.GetFrameInfo":    ro(),
	"iface.FrameCount":      roFresh(),
	"iface.IsEncapsulated":  roFresh(),
	"iface.AddFrame":        {stores: []int{0}, captureInto: 0}, // destination keeps the frame
	"iface.GetParameter":    ro(),
	"iface.SetParameter":    {stores: []int{0}, captureInto: 0},
	"iface.Validate":        {stores: []int{0}, fresh: true, captureInto: -1},
	"iface.TransferSyntax":  ro(),
	"iface.Name":            roFresh(),
	"iface.UID":             ro(),
	"iface.Len":             roFresh(),
	"iface.Less":            roFresh(),
	"iface.Swap":            {stores: []int{0}, fresh: true, captureInto: -1},
	"iface.At":              roFresh(),
	"iface.Bounds":          roFresh(),
	"iface.ColorModel":      roFresh(),
	"iface.RGBA":            roFresh(),
	"iface.Set":             {stores: []int{0}, fresh: true, captureInto: -1},
	"iface.GetDefaultParameters": roFresh(),
}
