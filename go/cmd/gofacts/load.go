package main

// Loading: `go list -deps -json ./...` (CGO_ENABLED=0, no build tags: the default build) gives,
// in dependency order, every package the module needs with exactly the files the default
// build compiles (GoFiles: no _test files, no files excluded by build constraints).  Every
// package is parsed and type-checked from source with go/types; function bodies are checked
// only for packages of the module itself.  No x/tools dependency.

import (
	"bytes"
	"encoding/json"
	"fmt"
	"go/ast"
	"go/parser"
	"go/token"
	"go/types"
	"os"
	"os/exec"
	"path/filepath"
	"sort"
	"strings"
)

type listPkg struct {
	Dir        string
	ImportPath string
	Name       string
	Standard   bool
	GoFiles    []string
	Imports    []string
	ImportMap  map[string]string
	Module     *struct{ Path, Dir string }
	Error      *struct{ Err string }
}

type pkgInfo struct {
	lp    *listPkg
	files []*ast.File
	tpkg  *types.Package
	info  *types.Info
	inMod bool
	isLib bool // module package that is not `package main`
}

type program struct {
	fset    *token.FileSet
	modPath string
	pkgs    []*pkgInfo // module packages, sorted by import path
	byPath  map[string]*pkgInfo
	repo    string
}

type mapImporter struct {
	prog *program
	cur  *listPkg
}

func (m mapImporter) Import(path string) (*types.Package, error) {
	if path == "unsafe" {
		return types.Unsafe, nil
	}
	if m.cur != nil && m.cur.ImportMap != nil {
		if p, ok := m.cur.ImportMap[path]; ok {
			path = p
		}
	}
	if p, ok := m.prog.byPath[path]; ok && p.tpkg != nil {
		return p.tpkg, nil
	}
	return nil, fmt.Errorf("package %q not loaded", path)
}

func load(repo string) (*program, error) {
	cmd := exec.Command("go", "list", "-deps", "-json=Dir,ImportPath,Name,Standard,GoFiles,Imports,ImportMap,Module,Error", "./...")
	cmd.Dir = repo
	env := []string{}
	for _, e := range os.Environ() {
		if strings.HasPrefix(e, "CGO_ENABLED=") || strings.HasPrefix(e, "GOFLAGS=") || strings.HasPrefix(e, "GOTOOLCHAIN=") || strings.HasPrefix(e, "GOSUMDB=") {
			continue
		}
		env = append(env, e)
	}
	env = append(env, "CGO_ENABLED=0", "GOFLAGS=-mod=mod", "GOPROXY=off")
	cmd.Env = env
	var stderr bytes.Buffer
	cmd.Stderr = &stderr
	out, err := cmd.Output()
	if err != nil {
		return nil, fmt.Errorf("go list: %v: %s", err, stderr.String())
	}
	prog := &program{fset: token.NewFileSet(), byPath: map[string]*pkgInfo{}, repo: repo}
	dec := json.NewDecoder(bytes.NewReader(out))
	var order []*pkgInfo
	for dec.More() {
		lp := &listPkg{}
		if err := dec.Decode(lp); err != nil {
			return nil, err
		}
		if lp.Error != nil {
			return nil, fmt.Errorf("go list: %s: %s", lp.ImportPath, lp.Error.Err)
		}
		pi := &pkgInfo{lp: lp}
		if lp.Module != nil && !lp.Standard {
			absRepo, _ := filepath.Abs(repo)
			if md, _ := filepath.Abs(lp.Module.Dir); md == absRepo {
				pi.inMod = true
				prog.modPath = lp.Module.Path
			}
		}
		pi.isLib = pi.inMod && lp.Name != "main"
		order = append(order, pi)
	}
	for _, pi := range order {
		lp := pi.lp
		if lp.ImportPath == "unsafe" {
			pi.tpkg = types.Unsafe
			prog.byPath["unsafe"] = pi
			continue
		}
		for _, f := range lp.GoFiles {
			af, err := parser.ParseFile(prog.fset, filepath.Join(lp.Dir, f), nil, parser.SkipObjectResolution)
			if err != nil {
				return nil, err
			}
			pi.files = append(pi.files, af)
		}
		var firstErr error
		nerr := 0
		conf := types.Config{
			Importer:         mapImporter{prog, lp},
			IgnoreFuncBodies: !pi.inMod,
			FakeImportC:      true,
			Error: func(e error) {
				nerr++
				if firstErr == nil {
					firstErr = e
				}
			},
		}
		pi.info = &types.Info{}
		if pi.inMod {
			pi.info = &types.Info{
				Types:      map[ast.Expr]types.TypeAndValue{},
				Defs:       map[*ast.Ident]types.Object{},
				Uses:       map[*ast.Ident]types.Object{},
				Selections: map[*ast.SelectorExpr]*types.Selection{},
				Implicits:  map[ast.Node]types.Object{},
			}
		}
		tp, _ := conf.Check(lp.ImportPath, prog.fset, pi.files, pi.info)
		pi.tpkg = tp
		prog.byPath[lp.ImportPath] = pi
		if firstErr != nil && pi.inMod {
			// a module package that does not type-check cannot be analysed: hard error
			return nil, fmt.Errorf("type errors in %s (%d), first: %v", lp.ImportPath, nerr, firstErr)
		}
		if pi.inMod {
			prog.pkgs = append(prog.pkgs, pi)
		}
	}
	sort.Slice(prog.pkgs, func(i, j int) bool { return prog.pkgs[i].lp.ImportPath < prog.pkgs[j].lp.ImportPath })
	if len(prog.pkgs) == 0 {
		return nil, fmt.Errorf("no module packages found under %s", repo)
	}
	return prog, nil
}

// rel shortens a module import path: github.com/x/y/jpeg2000/t2 -> jpeg2000/t2 ; the root -> "."
func (p *program) rel(path string) string {
	if path == p.modPath {
		return "."
	}
	return strings.TrimPrefix(path, p.modPath+"/")
}
