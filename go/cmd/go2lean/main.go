// go2lean: regenerate Lean definitions from the Go source of /repo, as it is now.
//
// Documented subset (anything else is a hard error naming file:line, so that an edit which
// leaves the subset breaks the tie loudly):
//   - functions / methods whose bodies use integer and boolean locals, reads of int/bool
//     struct fields (possibly nested through listed structs), if/else, switch, assignment,
//     op=, ++/--, return (multi-value -> tuple), calls to other translated functions,
//     builtins min/max, integer conversions, pointer-receiver field updates (the method
//     returns the new structure; if it also returns values the result is (struct × values)).
//   - "prefix" mode: the leading validation chain of an Encode-like function is translated to
//     `accepts : … → Bool`: a `return` whose last result is not `nil` inside an `if` rejects;
//     translation stops (accepting) at the first statement outside the subset.
//     Two call shapes are followed when the callee is itself a translated prefix function (same
//     unit, or another unit through "callmap"): the tail call `return f(args…)` becomes
//     `f_accepts args…`, and the guard `if err := f(args…); err != nil { return …, err }` becomes
//     `if !(f_accepts args…) then false else …` (a slice argument `x` is passed as `len_x`).
//   - unit option "ptr_fields": a struct field of type *S with S listed becomes a nested
//     structure field (the pointer is assumed non-nil; nil-ness is outside the model).
//   - a result of type `error` (non-prefix mode) is translated to Bool: `nil` -> true, anything else -> false.
//   - "table" items: package-level integer array/slice literals -> `def name : Array Int`.
//   - "consts": package-level integer constants -> `def name : Int`.
//   - "loop" mode: the body of the N-th `for`/`range` statement of a function (pre-order, field "loop") is
//     translated as a function of its free variables: the receiver (if its struct is listed), the function's
//     scalar parameters, the scalars named in "params" (loop variables, outer locals), and one Int parameter
//     per distinct array/slice element expression that the body reads or writes (a[i] -> a_i); the result is
//     the tuple of the elements the body stores to, in order of first store.  With "slice": [names] only the
//     statements assigning those scalars are kept (calls and other locals are dropped, `if`s that still contain
//     something keep their condition) and the result is the tuple of their final values. `continue`/`break`, nested
//     loops and calls outside the translated set remain hard errors.
//
//   - "assign" mode: the right-hand side of one assignment (field "target" = its printed left-hand side) as a function.
//   - unsigned 8/16-bit typing: `+ - * <<` whose static operand type is uint8/byte/uint16 (declared parameter, `var`,
//     element of a []byte/[N]uint16 parameter, byte()/uintN() conversion, or spec "types") wrap with Go.uwrapN, as in Go.
//     (int32/int64 arithmetic stays under the no-overflow reading of DESIGN 2.1.)
// No loops (other than the above), no slices, no interfaces.
//
// Semantics: Go int (64-bit) -> Lean Int (no wrap-around; see DESIGN 2.1); `/` -> Int.tdiv,
// `%` -> Int.tmod, `>>` -> floor shift, `<<` -> multiplication by 2^k, `& | ^` -> Go.and/or/xor
// (64-bit two's complement, GoPrelude), intN(x) -> Go.wrapN, uintN/byte(x) -> Go.uwrapN.
package main

import (
	"encoding/json"
	"flag"
	"fmt"
	"go/ast"
	"go/parser"
	"go/printer"
	"go/token"
	"os"
	"path/filepath"
	"sort"
	"strings"
)

type FuncSpec struct {
	Go     string   `json:"go"`     // "Func" or "Type.Method"
	Lean   string   `json:"lean"`   // optional Lean name (default: same as Go)
	Mode   string   `json:"mode"`   // "" | "prefix" | "loop"
	Loop   int      `json:"loop"`   // loop mode: index of the for/range statement (pre-order)
	Params []string `json:"params"` // loop mode: extra scalar parameters (Int)
	Types  map[string]string `json:"types"` // declared types of locals the translator cannot type itself ("byte", "uint16",
	//                                  "[]byte", ...): only unsigned 8/16-bit widths matter (typed wrap-around)
	Target string   `json:"target"` // assign mode: printed left-hand side of the assignment whose right-hand side is translated
	Slice  []string `json:"slice"`  // loop mode: keep only the statements that assign these scalars (and the ifs /
	//                                  branch statements around them); the result is the tuple of their final values
	Pre    bool     `json:"pre"`    // loop mode: the loop is a top-level statement; the statements before it
	//                                  (array declarations excepted) are translated in front of the body
}
type Unit struct {
	Out       string            `json:"out"`
	Dir       string            `json:"dir"`
	Files     []string          `json:"files"` // optional: restrict to these files
	Namespace string            `json:"namespace"`
	Structs   []string          `json:"structs"`
	Funcs     []FuncSpec        `json:"funcs"`
	Tables    []string          `json:"tables"`
	Consts    []string          `json:"consts"`
	CallMap   map[string]string `json:"callmap"`
	Imports   []string          `json:"imports"`
	PtrFields bool              `json:"ptr_fields"` // *S fields of listed structs S become nested structures
	// ForeignStructs: struct name -> file (relative to the repo) of ANOTHER package; a parameter of type pkg.S / *pkg.S
	// with S listed here is translated like a listed struct of the unit (its int/bool fields only).
	ForeignStructs map[string]string `json:"foreign_structs"`
	// OpaqueParams: parameters of untranslatable types are dropped instead of rejected (any use of one in the
	// translated body is still a hard error); LitSubset: a composite literal of a listed struct may set fields
	// outside the translated subset (they are dropped — they are not int/bool fields).
	OpaqueParams bool `json:"opaque_params"`
	LitSubset    bool `json:"lit_subset"`
}
type Spec struct {
	Units []Unit `json:"units"`
}

type structInfo struct {
	name   string
	fields []fieldInfo
}
type fieldInfo struct{ name, typ string } // typ: "Int" | "Bool" | struct name

type gen struct {
	fset       *token.FileSet
	unit       *Unit
	files      []*ast.File
	structs    map[string]*structInfo
	funcs      map[string]*ast.FuncDecl // key "Name" or "Type.Name"
	consts     map[string]ast.Expr
	vars       map[string]ast.Expr // package-level var initialisers (tables)
	want       map[string]FuncSpec
	usedConsts map[string]bool
	followed   []string          // auto-followed callees (not listed in the unit), in order of discovery
	skipped    []string          // functions left out because they could not be translated
	pending    []string          // definitions of auto-followed callees waiting to be emitted in front of their caller
	repo       string
}

type tr struct {
	g        *gen
	recv     string
	recvType string
	ptrRecv  bool
	prefix   bool
	env      map[string]string // ident -> "Int" | "Bool" | struct name
	extra    []string          // extra len_ params discovered (prefix mode)
	extraSet map[string]bool
	fn       string
	nResults int      // number of results of the Go function
	resTypes []string // per result: "Int" | "Bool" | struct | "Error" (non-prefix mode)
	initOnly map[string]bool // names introduced only by `if v := …;` init statements (dead after their if)
	uw       map[string]int // identifiers of unsigned 8/16-bit type -> width (Go arithmetic on them wraps)
	uwElem   map[string]int // arrays/slices whose elements are unsigned 8/16-bit -> width
	loop     bool     // loop mode: element expressions are variables
	elems    []string // element variables in order of first occurrence
	stored   []string // element variables stored to, in order of first store
}

// elemName flattens an element expression (a[i], d.data[0][i], out[i*2+1]) to an identifier.
func (t *tr) elemName(e ast.Expr) string {
	var sb strings.Builder
	if err := printer.Fprint(&sb, t.g.fset, e); err != nil {
		t.fail(e, "cannot print element expression")
	}
	out := []byte{}
	for _, ch := range []byte(sb.String()) {
		ok := ch == '_' || (ch >= '0' && ch <= '9') || (ch >= 'a' && ch <= 'z') || (ch >= 'A' && ch <= 'Z')
		if ok {
			out = append(out, ch)
		} else if len(out) > 0 && out[len(out)-1] != '_' {
			out = append(out, '_')
		}
	}
	n := strings.TrimRight(string(out), "_")
	if _, ok := t.env[n]; !ok {
		t.env[n] = "Int"
		t.elems = append(t.elems, n)
	}
	return n
}

type unsupported struct{ msg string }

func (t *tr) fail(n ast.Node, f string, a ...any) {
	panic(unsupported{fmt.Sprintf("%s: %s: %s", t.g.fset.Position(n.Pos()), t.fn, fmt.Sprintf(f, a...))})
}

var intTypes = map[string]bool{"int": true, "int8": true, "int16": true, "int32": true, "int64": true, "uint": true,
	"uint8": true, "uint16": true, "uint32": true, "uint64": true, "byte": true, "uintptr": true}

func (g *gen) leanType(e ast.Expr) string {
	switch x := e.(type) {
	case *ast.Ident:
		if intTypes[x.Name] {
			return "Int"
		}
		if x.Name == "bool" {
			return "Bool"
		}
		if x.Name == "error" {
			return "Error"
		}
		if _, ok := g.structs[x.Name]; ok {
			return x.Name
		}
	case *ast.StarExpr:
		return g.leanType(x.X)
	case *ast.SelectorExpr:
		// pkg.S with S a listed foreign struct
		if _, ok := g.unit.ForeignStructs[x.Sel.Name]; ok {
			if _, ok := g.structs[x.Sel.Name]; ok {
				return x.Sel.Name
			}
		}
	case *ast.ArrayType:
		return "Slice"
	}
	return ""
}

func (t *tr) typeOf(e ast.Expr) string {
	switch x := e.(type) {
	case *ast.Ident:
		if x.Name == "true" || x.Name == "false" {
			return "Bool"
		}
		if ty, ok := t.env[x.Name]; ok {
			return ty
		}
		return "Int"
	case *ast.ParenExpr:
		return t.typeOf(x.X)
	case *ast.SelectorExpr:
		bt := t.typeOf(x.X)
		if si, ok := t.g.structs[bt]; ok {
			for _, f := range si.fields {
				if f.name == x.Sel.Name {
					return f.typ
				}
			}
			t.fail(e, "field %s.%s is not an int/bool/listed-struct field", bt, x.Sel.Name)
		}
		return "Int"
	case *ast.UnaryExpr:
		if x.Op == token.NOT {
			return "Bool"
		}
		return "Int"
	case *ast.BinaryExpr:
		switch x.Op {
		case token.LSS, token.LEQ, token.GTR, token.GEQ, token.EQL, token.NEQ, token.LAND, token.LOR:
			return "Bool"
		}
		return "Int"
	case *ast.CallExpr:
		name := t.callName(x)
		if fd, ok := t.g.funcs[name]; ok && fd.Type.Results != nil && len(fd.Type.Results.List) == 1 {
			return t.g.leanType(fd.Type.Results.List[0].Type)
		}
		return "Int"
	}
	return "Int"
}

// callName resolves f(...) / recv.m(...) / x.m(...) to a key of g.funcs or a callmap key.
func (t *tr) callName(c *ast.CallExpr) string {
	switch f := c.Fun.(type) {
	case *ast.Ident:
		return f.Name
	case *ast.SelectorExpr:
		if id, ok := f.X.(*ast.Ident); ok {
			if _, isVar := t.env[id.Name]; !isVar {
				return id.Name + "." + f.Sel.Name // pkg.Func
			}
		}
		bt := t.typeOf(f.X)
		return bt + "." + f.Sel.Name
	}
	return ""
}

// uwOfType: 8/16 for byte/uint8/uint16, 0 otherwise; elem reports an array/slice of such elements.
func uwOfType(e ast.Expr) (w int, elem bool) {
	switch x := e.(type) {
	case *ast.Ident:
		switch x.Name {
		case "byte", "uint8":
			return 8, false
		case "uint16":
			return 16, false
		}
	case *ast.ArrayType:
		w, _ := uwOfType(x.Elt)
		return w, true
	case *ast.StarExpr:
		return uwOfType(x.X)
	}
	return 0, false
}

func (t *tr) declareType(name string, ty ast.Expr) {
	if t.uw == nil {
		t.uw, t.uwElem = map[string]int{}, map[string]int{}
	}
	if w, elem := uwOfType(ty); w > 0 {
		if elem {
			t.uwElem[name] = w
		} else {
			t.uw[name] = w
		}
	}
}

func (t *tr) declareTypeName(name, ty string) {
	elem := strings.HasPrefix(ty, "[]")
	t.declareType(name, func() ast.Expr {
		id := &ast.Ident{Name: strings.TrimPrefix(ty, "[]")}
		if elem {
			return &ast.ArrayType{Elt: id}
		}
		return id
	}())
}

// uwidth: static unsigned width (8/16) of an expression whose Go type is uint8/uint16, else 0.  Syntax-directed:
// identifiers and elements of declared type, byte()/uint8()/uint16() conversions, and operators over them
// (shift: the left operand's type; other operators: the operands' common type; untyped constants adapt).
func (t *tr) uwidth(e ast.Expr) int {
	switch x := e.(type) {
	case *ast.Ident:
		return t.uw[x.Name]
	case *ast.ParenExpr:
		return t.uwidth(x.X)
	case *ast.IndexExpr:
		root := x.X
		for {
			if ix, ok := root.(*ast.IndexExpr); ok {
				root = ix.X
				continue
			}
			break
		}
		if id, ok := root.(*ast.Ident); ok {
			return t.uwElem[id.Name]
		}
	case *ast.UnaryExpr:
		if x.Op == token.SUB || x.Op == token.ADD || x.Op == token.XOR {
			return t.uwidth(x.X)
		}
	case *ast.CallExpr:
		if id, ok := x.Fun.(*ast.Ident); ok && len(x.Args) == 1 {
			switch id.Name {
			case "byte", "uint8":
				return 8
			case "uint16":
				return 16
			}
		}
	case *ast.BinaryExpr:
		switch x.Op {
		case token.SHL, token.SHR:
			return t.uwidth(x.X)
		case token.ADD, token.SUB, token.MUL, token.QUO, token.REM, token.AND, token.OR, token.XOR, token.AND_NOT:
			if w := t.uwidth(x.X); w > 0 {
				return w
			}
			return t.uwidth(x.Y)
		}
	}
	return 0
}

func (t *tr) expr(e ast.Expr) string {
	switch x := e.(type) {
	case *ast.BasicLit:
		if x.Kind == token.INT {
			return "(" + x.Value + " : Int)"
		}
		if x.Kind == token.CHAR {
			return fmt.Sprintf("(%d : Int)", int(x.Value[1]))
		}
		t.fail(e, "literal %s", x.Value)
	case *ast.Ident:
		switch x.Name {
		case "true", "false":
			return x.Name
		}
		if _, ok := t.env[x.Name]; ok {
			return x.Name
		}
		if _, ok := t.g.consts[x.Name]; ok {
			t.g.usedConsts[x.Name] = true
			return x.Name
		}
		t.fail(e, "unknown identifier %s", x.Name)
	case *ast.ParenExpr:
		return "(" + t.expr(x.X) + ")"
	case *ast.IndexExpr:
		if t.loop {
			return t.elemName(x)
		}
	case *ast.SelectorExpr:
		if id, ok := x.X.(*ast.Ident); ok {
			if _, isVar := t.env[id.Name]; !isVar {
				key := id.Name + "." + x.Sel.Name
				if m, ok := t.g.unit.CallMap[key]; ok {
					return m
				}
				t.fail(e, "package selector %s not in callmap", key)
			}
		}
		_ = t.typeOf(e) // checks the field is usable
		return t.expr(x.X) + "." + x.Sel.Name
	case *ast.UnaryExpr:
		switch x.Op {
		case token.SUB:
			return "(-" + t.expr(x.X) + ")"
		case token.ADD:
			return t.expr(x.X)
		case token.NOT:
			return "(!" + t.expr(x.X) + ")"
		case token.XOR:
			return "(Go.xor " + t.expr(x.X) + " (-1 : Int))"
		case token.AND:
			// &T{…}: a freshly built value of a listed struct (pointers are modelled as values)
			if cl, ok := x.X.(*ast.CompositeLit); ok {
				return t.expr(cl)
			}
		}
	case *ast.BinaryExpr:
		l, r := t.expr(x.X), t.expr(x.Y)
		switch x.Op {
		case token.ADD, token.SUB, token.MUL:
			if w := t.uwidth(x); w > 0 { // uint8/uint16 arithmetic wraps
				return fmt.Sprintf("(Go.uwrap%d (%s %s %s))", w, l, x.Op.String(), r)
			}
			return "(" + l + " " + x.Op.String() + " " + r + ")"
		case token.QUO:
			return "(Int.tdiv " + l + " " + r + ")"
		case token.REM:
			return "(Int.tmod " + l + " " + r + ")"
		case token.SHL:
			if w := t.uwidth(x); w > 0 { // a shift keeps the left operand's type: uint8/uint16 results wrap
				return fmt.Sprintf("(Go.uwrap%d (Go.shl %s %s))", w, l, r)
			}
			return "(Go.shl " + l + " " + r + ")"
		case token.SHR:
			return "(Go.shr " + l + " " + r + ")"
		case token.AND:
			return "(Go.and " + l + " " + r + ")"
		case token.OR:
			return "(Go.or " + l + " " + r + ")"
		case token.XOR:
			return "(Go.xor " + l + " " + r + ")"
		case token.AND_NOT:
			return "(Go.and " + l + " (Go.xor " + r + " (-1 : Int)))"
		case token.LSS, token.LEQ, token.GTR, token.GEQ:
			op := map[token.Token]string{token.LSS: "<", token.LEQ: "≤", token.GTR: ">", token.GEQ: "≥"}[x.Op]
			return "(decide (" + l + " " + op + " " + r + "))"
		case token.EQL:
			return "(" + l + " == " + r + ")"
		case token.NEQ:
			return "(" + l + " != " + r + ")"
		case token.LAND:
			return "(" + l + " && " + r + ")"
		case token.LOR:
			return "(" + l + " || " + r + ")"
		}
	case *ast.CompositeLit:
		// T{Field: e, …} of a listed struct, keyed form only; omitted fields take Go's zero value
		if id, ok := x.Type.(*ast.Ident); ok {
			if si, ok := t.g.structs[id.Name]; ok {
				given := map[string]string{}
				for _, el := range x.Elts {
					kv, ok := el.(*ast.KeyValueExpr)
					if !ok {
						t.fail(e, "positional composite literal of %s", id.Name)
					}
					if t.g.unit.LitSubset {
						known := false
						for _, f := range si.fields {
							if f.name == kv.Key.(*ast.Ident).Name {
								known = true
							}
						}
						if !known {
							continue
						}
					}
					given[kv.Key.(*ast.Ident).Name] = t.expr(kv.Value)
				}
				parts := []string{}
				for _, f := range si.fields {
					v, ok := given[f.name]
					if !ok {
						switch f.typ {
						case "Int":
							v = "(0 : Int)"
						case "Bool":
							v = "false"
						default:
							v = "default"
						}
					}
					delete(given, f.name)
					parts = append(parts, f.name+" := "+v)
				}
				if len(given) > 0 {
					t.fail(e, "composite literal of %s sets a field outside the translated subset", id.Name)
				}
				return "({ " + strings.Join(parts, ", ") + " } : " + id.Name + ")"
			}
		}
		t.fail(e, "composite literal of an unlisted type")
	case *ast.CallExpr:
		if id, ok := x.Fun.(*ast.Ident); ok {
			switch id.Name {
			case "int", "int64", "uint", "uint64", "uintptr":
				return t.expr(x.Args[0])
			case "int8":
				return "(Go.wrap8 " + t.expr(x.Args[0]) + ")"
			case "int16":
				return "(Go.wrap16 " + t.expr(x.Args[0]) + ")"
			case "int32":
				return "(Go.wrap32 " + t.expr(x.Args[0]) + ")"
			case "uint8", "byte":
				return "(Go.uwrap8 " + t.expr(x.Args[0]) + ")"
			case "uint16":
				return "(Go.uwrap16 " + t.expr(x.Args[0]) + ")"
			case "uint32":
				return "(Go.uwrap32 " + t.expr(x.Args[0]) + ")"
			case "min", "max":
				s := t.expr(x.Args[0])
				for _, a := range x.Args[1:] {
					s = "(" + id.Name + " " + s + " " + t.expr(a) + ")"
				}
				return s
			case "len":
				if a, ok := x.Args[0].(*ast.Ident); ok {
					n := "len_" + a.Name
					if _, ok := t.env[n]; ok {
						return n
					}
				}
				t.fail(e, "len of a non-parameter")
			}
		}
		name := t.callName(x)
		args := []string{}
		for _, a := range x.Args {
			args = append(args, t.expr(a))
		}
		if m, ok := t.g.unit.CallMap[name]; ok {
			return "(" + m + " " + strings.Join(args, " ") + ")"
		}
		if _, ok := t.g.want[name]; ok {
			ln := t.g.leanName(name)
			if sel, ok := x.Fun.(*ast.SelectorExpr); ok && strings.Contains(name, ".") {
				if id, ok2 := sel.X.(*ast.Ident); !ok2 || t.env[id.Name] != "" {
					args = append([]string{t.expr(sel.X)}, args...)
				}
			}
			return "(" + ln + " " + strings.Join(args, " ") + ")"
		}
		if _, isId := x.Fun.(*ast.Ident); isId && t.g.follow(name, "") {
			return "(" + t.g.leanName(name) + " " + strings.Join(args, " ") + ")"
		}
		t.fail(e, "call to %s: not in the translated set nor in callmap", name)
	}
	t.fail(e, "unsupported expression %T", e)
	return ""
}

// where: the source file (relative to the repository) of a position; line numbers are left out on purpose so
// that generated text does not change when unrelated lines move.
func (g *gen) where(p token.Pos) string {
	f := g.fset.Position(p).Filename
	if rel, err := filepath.Rel(g.repo, f); err == nil {
		return rel
	}
	return f
}

// follow translates a plain same-package function that a translated body calls although the unit does not list
// it (typically a helper a refactor extracted), under its Go name; its definition is emitted in front of the caller.
func (g *gen) follow(name, mode string) bool {
	if _, ok := g.want[name]; ok {
		return true
	}
	cd, ok := g.funcs[name]
	if !ok || cd.Recv != nil || cd.Body == nil {
		return false
	}
	g.want[name] = FuncSpec{Go: name, Mode: mode}
	done := false
	defer func() {
		if !done { // the callee itself cannot be translated: as if it had not been tried
			delete(g.want, name)
		}
	}()
	txt := g.translate(g.want[name])
	done = true
	g.followed = append(g.followed, name)
	g.pending = append(g.pending, txt)
	return true
}

func (g *gen) leanName(goName string) string {
	if fs, ok := g.want[goName]; ok && fs.Lean != "" {
		return fs.Lean
	}
	return goName
}

func (t *tr) lhs(e ast.Expr) string {
	switch x := e.(type) {
	case *ast.Ident:
		if x.Name == "_" {
			return "_"
		}
		return x.Name
	case *ast.SelectorExpr:
		if id, ok := x.X.(*ast.Ident); ok && id.Name == t.recv && t.ptrRecv {
			_ = t.typeOf(e)
			return t.recv + "." + x.Sel.Name
		}
	case *ast.IndexExpr:
		if t.loop {
			n := t.elemName(x)
			seen := false
			for _, s := range t.stored {
				seen = seen || s == n
			}
			if !seen {
				t.stored = append(t.stored, n)
			}
			return n
		}
	}
	t.fail(e, "unsupported assignment target")
	return ""
}

func elseList(s *ast.IfStmt) []ast.Stmt {
	if s.Else == nil {
		return nil
	}
	switch e := s.Else.(type) {
	case *ast.BlockStmt:
		return e.List
	case *ast.IfStmt:
		return []ast.Stmt{e}
	}
	return nil
}

func (t *tr) assigned(stmts []ast.Stmt, out map[string]bool, declared map[string]bool) {
	for _, s := range stmts {
		switch x := s.(type) {
		case *ast.AssignStmt:
			for _, l := range x.Lhs {
				n := t.lhs(l)
				if x.Tok == token.DEFINE {
					declared[n] = true
					continue
				}
				if n != "_" && !declared[n] {
					out[n] = true
				}
			}
		case *ast.IncDecStmt:
			out[t.lhs(x.X)] = true
		case *ast.IfStmt:
			d2 := map[string]bool{}
			for k := range declared {
				d2[k] = true
			}
			t.assigned(x.Body.List, out, d2)
			d3 := map[string]bool{}
			for k := range declared {
				d3[k] = true
			}
			t.assigned(elseList(x), out, d3)
		case *ast.SwitchStmt:
			for _, c := range x.Body.List {
				d2 := map[string]bool{}
				for k := range declared {
					d2[k] = true
				}
				t.assigned(c.(*ast.CaseClause).Body, out, d2)
			}
		case *ast.BlockStmt:
			t.assigned(x.List, out, declared)
		}
	}
}

func hasReturn(stmts []ast.Stmt) bool {
	for _, s := range stmts {
		switch x := s.(type) {
		case *ast.ReturnStmt:
			return true
		case *ast.IfStmt:
			if hasReturn(x.Body.List) || hasReturn(elseList(x)) {
				return true
			}
		case *ast.SwitchStmt:
			for _, c := range x.Body.List {
				if hasReturn(c.(*ast.CaseClause).Body) {
					return true
				}
			}
		case *ast.BlockStmt:
			if hasReturn(x.List) {
				return true
			}
		}
	}
	return false
}

func (t *tr) let(v, e, ind string) string {
	if v == "_" {
		return ""
	}
	if t.recv != "" && strings.HasPrefix(v, t.recv+".") {
		f := strings.TrimPrefix(v, t.recv+".")
		return ind + "let " + t.recv + " : " + t.recvType + " := { " + t.recv + " with " + f + " := " + e + " }\n"
	}
	return ind + "let " + v + " := " + e + "\n"
}

func tupleOf(vs []string) string {
	if len(vs) == 1 {
		return vs[0]
	}
	return "(" + strings.Join(vs, ", ") + ")"
}

func (t *tr) joinNames(stmtsA, stmtsB []ast.Stmt) []string {
	m := map[string]bool{}
	t.assigned(stmtsA, m, map[string]bool{})
	t.assigned(stmtsB, m, map[string]bool{})
	names := []string{}
	seen := map[string]bool{}
	keys := []string{}
	for v := range m {
		keys = append(keys, v)
	}
	sort.Strings(keys)
	for _, v := range keys {
		n := v
		if t.recv != "" && strings.HasPrefix(v, t.recv+".") {
			n = t.recv
		}
		if !seen[n] {
			seen[n] = true
			names = append(names, n)
		}
	}
	return names
}

// isReject: in prefix mode, a return whose last result is not nil (an error value).
func isReject(r *ast.ReturnStmt) bool {
	if len(r.Results) == 0 {
		return false
	}
	last := r.Results[len(r.Results)-1]
	if id, ok := last.(*ast.Ident); ok && id.Name == "nil" {
		return false
	}
	return true
}

// prefixCall: in prefix mode, `f(args…)` where f is a translated prefix function of this unit or a
// callmap entry: the Lean call of its accepts function ("" if f is not one of those).
func (t *tr) prefixCall(c *ast.CallExpr) string {
	name := t.callName(c)
	ln := ""
	recvArg := ""
	if m, ok := t.g.unit.CallMap[name]; ok {
		ln = m
	} else if fs, ok := t.g.want[name]; ok && fs.Mode == "prefix" {
		ln = t.g.leanName(name)
		if sel, ok := c.Fun.(*ast.SelectorExpr); ok {
			if fd := t.g.funcs[name]; fd != nil && fd.Recv != nil && len(fd.Recv.List[0].Names) > 0 {
				recvArg = t.expr(sel.X)
			}
		}
	} else {
		return ""
	}
	args := []string{}
	if recvArg != "" {
		args = append(args, recvArg)
	}
	for _, a := range c.Args {
		if id, ok := a.(*ast.Ident); ok {
			if _, isLen := t.env["len_"+id.Name]; isLen {
				args = append(args, "len_"+id.Name)
				continue
			}
		}
		args = append(args, t.expr(a))
	}
	return "(" + ln + " " + strings.Join(args, " ") + ")"
}

// errGuard recognises `if err := f(args…); err != nil { …return …, <non-nil> }` (prefix mode).
func (t *tr) errGuard(x *ast.IfStmt) string {
	as, ok := x.Init.(*ast.AssignStmt)
	if !ok || as.Tok != token.DEFINE || len(as.Lhs) != 1 || len(as.Rhs) != 1 || x.Else != nil {
		return ""
	}
	errId, ok := as.Lhs[0].(*ast.Ident)
	if !ok {
		return ""
	}
	call, ok := as.Rhs[0].(*ast.CallExpr)
	if !ok {
		return ""
	}
	be, ok := x.Cond.(*ast.BinaryExpr)
	if !ok || be.Op != token.NEQ {
		return ""
	}
	l, ok1 := be.X.(*ast.Ident)
	r, ok2 := be.Y.(*ast.Ident)
	if !ok1 || !ok2 || l.Name != errId.Name || r.Name != "nil" {
		return ""
	}
	if len(x.Body.List) != 1 {
		return ""
	}
	rs, ok := x.Body.List[0].(*ast.ReturnStmt)
	if !ok || !isReject(rs) {
		return ""
	}
	return t.prefixCall(call)
}

func (t *tr) ret(x *ast.ReturnStmt, fin, ind string) string {
	if t.prefix {
		if len(x.Results) == 1 {
			if c, ok := x.Results[0].(*ast.CallExpr); ok {
				if pc := t.prefixCall(c); pc != "" {
					return ind + pc + "\n"
				}
				// a sole call result: either a tail call (function with several results) or the
				// construction of the error value itself (fmt.Errorf / errors.New)
				if n := t.callName(c); t.nResults > 1 || (n != "fmt.Errorf" && n != "errors.New") {
					t.fail(x, "tail call to %s: not a translated prefix function", n)
				}
			}
		}
		if isReject(x) {
			return ind + "false\n"
		}
		return ind + "true\n"
	}
	if len(x.Results) == 0 {
		return ind + fin + "\n"
	}
	rs := []string{}
	for i, r := range x.Results {
		if i < len(t.resTypes) && t.resTypes[i] == "Error" {
			if id, ok := r.(*ast.Ident); ok && id.Name == "nil" {
				rs = append(rs, "true")
			} else {
				rs = append(rs, "false")
			}
			continue
		}
		rs = append(rs, t.expr(r))
	}
	if t.ptrRecv {
		rs = append([]string{t.recv}, rs...)
	}
	return ind + tupleOf(rs) + "\n"
}

// block translates stmts; fin is the value when control falls off the end.
func (t *tr) block(stmts []ast.Stmt, fin string, ind string) (out string) {
	if len(stmts) == 0 {
		return ind + fin + "\n"
	}
	s, rest := stmts[0], stmts[1:]
	if t.prefix {
		// stop (accept) at the first statement outside the subset
		defer func() {
			if r := recover(); r != nil {
				if _, ok := r.(unsupported); ok {
					out = ind + fin + "\n"
					return
				}
				panic(r)
			}
		}()
	}
	switch x := s.(type) {
	case *ast.ReturnStmt:
		return t.ret(x, fin, ind)
	case *ast.BlockStmt:
		return t.block(append(append([]ast.Stmt{}, x.List...), rest...), fin, ind)
	case *ast.AssignStmt:
		o := ""
		if len(x.Lhs) != len(x.Rhs) {
			// tuple-returning call
			if len(x.Rhs) == 1 {
				names := []string{}
				for _, l := range x.Lhs {
					names = append(names, t.lhs(l))
				}
				e := t.expr(x.Rhs[0])
				for _, n := range names {
					if n != "_" {
						t.env[n] = "Int"
					}
				}
				return ind + "let " + tupleOf(names) + " := " + e + "\n" + t.block(rest, fin, ind)
			}
			t.fail(s, "assignment arity")
		}
		// evaluate all RHS first (Go semantics for parallel assignment)
		es := make([]string, len(x.Lhs))
		for i, l := range x.Lhs {
			if x.Tok == token.ASSIGN || x.Tok == token.DEFINE {
				es[i] = t.expr(x.Rhs[i])
				if x.Tok == token.DEFINE {
					if id, ok := l.(*ast.Ident); ok && id.Name != "_" {
						t.env[id.Name] = t.typeOf(x.Rhs[i])
						if w := t.uwidth(x.Rhs[i]); w > 0 {
							if t.uw == nil {
								t.uw, t.uwElem = map[string]int{}, map[string]int{}
							}
							t.uw[id.Name] = w
						} else if t.uw != nil {
							delete(t.uw, id.Name)
						}
					}
				}
			} else {
				op, ok := map[token.Token]token.Token{token.ADD_ASSIGN: token.ADD, token.SUB_ASSIGN: token.SUB,
					token.MUL_ASSIGN: token.MUL, token.QUO_ASSIGN: token.QUO, token.REM_ASSIGN: token.REM,
					token.SHR_ASSIGN: token.SHR, token.SHL_ASSIGN: token.SHL, token.AND_ASSIGN: token.AND,
					token.OR_ASSIGN: token.OR, token.XOR_ASSIGN: token.XOR}[x.Tok]
				if !ok {
					t.fail(s, "assignment operator %s", x.Tok)
				}
				es[i] = t.expr(&ast.BinaryExpr{X: l, Op: op, Y: x.Rhs[i]})
			}
		}
		if len(x.Lhs) > 1 {
			for i := range x.Lhs {
				o += ind + fmt.Sprintf("let tmp_%d := %s\n", i, es[i])
			}
			for i, l := range x.Lhs {
				o += t.let(t.lhs(l), fmt.Sprintf("tmp_%d", i), ind)
			}
		} else {
			o += t.let(t.lhs(x.Lhs[0]), es[0], ind)
		}
		return o + t.block(rest, fin, ind)
	case *ast.IncDecStmt:
		op := "+"
		if x.Tok == token.DEC {
			op = "-"
		}
		return t.let(t.lhs(x.X), "("+t.expr(x.X)+" "+op+" 1)", ind) + t.block(rest, fin, ind)
	case *ast.DeclStmt:
		gd := x.Decl.(*ast.GenDecl)
		o := ""
		for _, sp := range gd.Specs {
			vs, ok := sp.(*ast.ValueSpec)
			if !ok {
				t.fail(s, "declaration")
			}
			for i, n := range vs.Names {
				ty := "Int"
				if vs.Type != nil {
					t.declareType(n.Name, vs.Type)
					ty = t.g.leanType(vs.Type)
					if ty != "Int" && ty != "Bool" {
						t.fail(s, "local of type %v", vs.Type)
					}
				}
				e := "(0 : Int)"
				if ty == "Bool" {
					e = "false"
				}
				if i < len(vs.Values) {
					e = t.expr(vs.Values[i])
					if vs.Type == nil {
						ty = t.typeOf(vs.Values[i])
					}
				}
				t.env[n.Name] = ty
				o += t.let(n.Name, e, ind)
			}
		}
		return o + t.block(rest, fin, ind)
	case *ast.IfStmt:
		if x.Init != nil {
			if t.prefix {
				if pc := t.errGuard(x); pc != "" {
					return ind + "if (!" + pc + ") then\n" + ind + "  false\n" + ind + "else\n" + t.block(rest, fin, ind+"  ")
				}
			}
			// `if v := e; cond {…}`: the init statement runs first; its variables are scoped to the if in
			// Go. Lean `let` would leak them into the continuation, so a name already bound is refused.
			if as, ok := x.Init.(*ast.AssignStmt); ok && as.Tok == token.DEFINE {
				for _, l := range as.Lhs {
					if id, ok := l.(*ast.Ident); ok && id.Name != "_" {
						if _, bound := t.env[id.Name]; bound && !t.initOnly[id.Name] {
							t.fail(s, "if-init variable %s shadows an existing binding", id.Name)
						}
						if t.initOnly == nil {
							t.initOnly = map[string]bool{}
						}
						t.initOnly[id.Name] = true // Go scopes it to this if: nothing after the if can refer to it
					}
				}
				plain := *x
				plain.Init = nil
				return t.block(append([]ast.Stmt{x.Init, &plain}, rest...), fin, ind)
			}
			t.fail(s, "if with init statement")
		}
		els := elseList(x)
		if hasReturn(x.Body.List) || hasReturn(els) {
			cond := t.expr(x.Cond)
			return ind + "if " + cond + " then\n" +
				t.block(append(append([]ast.Stmt{}, x.Body.List...), rest...), fin, ind+"  ") +
				ind + "else\n" +
				t.block(append(append([]ast.Stmt{}, els...), rest...), fin, ind+"  ")
		}
		names := t.joinNames(x.Body.List, els)
		cond := t.expr(x.Cond)
		if len(names) == 0 {
			return t.block(rest, fin, ind)
		}
		tup := tupleOf(names)
		save := t.copyEnv()
		a := t.block(x.Body.List, tup, ind+"    ")
		t.env = save
		save = t.copyEnv()
		b := t.block(els, tup, ind+"    ")
		t.env = save
		return ind + "let " + tup + " :=\n" + ind + "  if " + cond + " then\n" + a + ind + "  else\n" + b +
			t.block(rest, fin, ind)
	case *ast.SwitchStmt:
		if x.Init != nil {
			t.fail(s, "switch with init")
		}
		// rewrite as an if-chain and reuse the IfStmt case
		var chain ast.Stmt
		var def []ast.Stmt
		type cl struct {
			cond ast.Expr
			body []ast.Stmt
		}
		cls := []cl{}
		for _, c := range x.Body.List {
			cc := c.(*ast.CaseClause)
			for _, st := range cc.Body {
				if b, ok := st.(*ast.BranchStmt); ok {
					t.fail(b, "branch statement in switch")
				}
			}
			if cc.List == nil {
				def = cc.Body
				continue
			}
			var cond ast.Expr
			for _, e := range cc.List {
				var c1 ast.Expr = e
				if x.Tag != nil {
					c1 = &ast.BinaryExpr{X: x.Tag, Op: token.EQL, Y: e}
				}
				if cond == nil {
					cond = c1
				} else {
					cond = &ast.BinaryExpr{X: cond, Op: token.LOR, Y: c1}
				}
			}
			cls = append(cls, cl{cond, cc.Body})
		}
		var tail ast.Stmt
		if def != nil {
			tail = &ast.BlockStmt{List: def}
		}
		for i := len(cls) - 1; i >= 0; i-- {
			ifs := &ast.IfStmt{If: x.Pos(), Cond: cls[i].cond, Body: &ast.BlockStmt{List: cls[i].body}}
			if tail != nil {
				ifs.Else = tail
			}
			tail = ifs
		}
		chain = tail
		if chain == nil {
			return t.block(rest, fin, ind)
		}
		return t.block(append([]ast.Stmt{chain}, rest...), fin, ind)
	case *ast.ExprStmt:
		// a call to a translated pointer-receiver method on the receiver itself: recv = Method recv args
		if c, ok := x.X.(*ast.CallExpr); ok {
			name := t.callName(c)
			if fd, ok := t.g.funcs[name]; ok && t.g.isPtrMethod(fd) && fd.Type.Results == nil {
				if sel, ok := c.Fun.(*ast.SelectorExpr); ok {
					if id, ok := sel.X.(*ast.Ident); ok && id.Name == t.recv {
						return ind + "let " + t.recv + " := " + t.expr(c) + "\n" + t.block(rest, fin, ind)
					}
				}
			}
		}
		t.fail(s, "expression statement")
	}
	t.fail(s, "unsupported statement %T", s)
	return ""
}

func (t *tr) copyEnv() map[string]string {
	m := map[string]string{}
	for k, v := range t.env {
		m[k] = v
	}
	return m
}

func (g *gen) isPtrMethod(fd *ast.FuncDecl) bool {
	if fd.Recv == nil {
		return false
	}
	_, ok := fd.Recv.List[0].Type.(*ast.StarExpr)
	return ok
}

// writesRecv: does the body assign through the receiver?
func writesRecv(fd *ast.FuncDecl, recv string) bool {
	w := false
	ast.Inspect(fd.Body, func(n ast.Node) bool {
		switch x := n.(type) {
		case *ast.AssignStmt:
			for _, l := range x.Lhs {
				if s, ok := l.(*ast.SelectorExpr); ok {
					if id, ok := s.X.(*ast.Ident); ok && id.Name == recv {
						w = true
					}
				}
			}
		case *ast.IncDecStmt:
			if s, ok := x.X.(*ast.SelectorExpr); ok {
				if id, ok := s.X.(*ast.Ident); ok && id.Name == recv {
					w = true
				}
			}
		}
		return true
	})
	return w
}

// sliceStmts keeps the statements that assign one of the sliced scalars, the `if`s that (after slicing) still
// contain something, and every branch statement / nested loop (which translateLoop then rejects loudly).
func sliceStmts(stmts []ast.Stmt, keep map[string]bool) []ast.Stmt {
	var out []ast.Stmt
	isKept := func(e ast.Expr) bool {
		id, ok := e.(*ast.Ident)
		return ok && keep[id.Name]
	}
	for _, st := range stmts {
		switch x := st.(type) {
		case *ast.ExprStmt:
			// calls cannot assign a scalar local
		case *ast.AssignStmt:
			for _, l := range x.Lhs {
				if isKept(l) {
					out = append(out, st)
					break
				}
			}
		case *ast.IncDecStmt:
			if isKept(x.X) {
				out = append(out, st)
			}
		case *ast.DeclStmt:
			// declarations of other locals are dropped
		case *ast.BlockStmt:
			out = append(out, sliceStmts(x.List, keep)...)
		case *ast.IfStmt:
			body := sliceStmts(x.Body.List, keep)
			var els []ast.Stmt
			switch e := x.Else.(type) {
			case *ast.BlockStmt:
				els = sliceStmts(e.List, keep)
			case *ast.IfStmt:
				els = sliceStmts([]ast.Stmt{e}, keep)
			}
			if len(body) == 0 && len(els) == 0 {
				continue
			}
			c := *x
			c.Body = &ast.BlockStmt{List: body}
			if len(els) > 0 {
				c.Else = &ast.BlockStmt{List: els}
			} else {
				c.Else = nil
			}
			out = append(out, &c)
		default:
			out = append(out, st) // branch statements, loops, switches: kept, rejected later if unsupported
		}
	}
	return out
}

// translateAssign ("assign" mode): the right-hand side of the assignment whose left-hand side prints as fs.Target,
// as a function of the function's scalar parameters, the scalars named in "params" and one Int parameter per array /
// slice element it reads (as in loop mode).
func (g *gen) translateAssign(fs FuncSpec) string {
	fd := g.funcs[fs.Go]
	var rhs ast.Expr
	ast.Inspect(fd.Body, func(nd ast.Node) bool {
		as, ok := nd.(*ast.AssignStmt)
		if !ok || len(as.Lhs) != 1 || len(as.Rhs) != 1 || as.Tok != token.ASSIGN && as.Tok != token.DEFINE {
			return true
		}
		var sb strings.Builder
		_ = printer.Fprint(&sb, g.fset, as.Lhs[0])
		if sb.String() == fs.Target {
			if rhs != nil {
				panic(unsupported{fs.Go + ": more than one assignment to " + fs.Target})
			}
			rhs = as.Rhs[0]
		}
		return true
	})
	if rhs == nil {
		panic(unsupported{fs.Go + ": no assignment to " + fs.Target})
	}
	t := &tr{g: g, env: map[string]string{}, extraSet: map[string]bool{}, fn: fs.Go + "#assign", loop: true}
	params := []string{}
	for n, ty := range fs.Types {
		t.declareTypeName(n, ty)
	}
	for _, p := range fd.Type.Params.List {
		ty := g.leanType(p.Type)
		for _, nm := range p.Names {
			t.declareType(nm.Name, p.Type)
			if ty == "Int" || ty == "Bool" {
				t.env[nm.Name] = ty
				params = append(params, "("+nm.Name+" : "+ty+")")
			}
		}
	}
	for _, nm := range fs.Params {
		if _, dup := t.env[nm]; !dup {
			t.env[nm] = "Int"
			params = append(params, "("+nm+" : Int)")
		}
	}
	e := t.expr(rhs)
	for _, el := range t.elems {
		params = append(params, "("+el+" : Int)")
	}
	doc := fmt.Sprintf("/-- generated from the right-hand side of `%s = …` in %s (%s) -/\n", fs.Target, fs.Go, g.where(rhs.Pos()))
	return doc + "def " + fs.Lean + " " + strings.Join(params, " ") + " : Int :=\n  " + e + "\n"
}

// translateLoop: see "loop" mode in the header comment.
func (g *gen) translateLoop(fs FuncSpec) string {
	fd := g.funcs[fs.Go]
	var body []ast.Stmt
	var kv []string
	n := 0
	found := false
	ast.Inspect(fd.Body, func(nd ast.Node) bool {
		if found {
			return false
		}
		switch x := nd.(type) {
		case *ast.ForStmt:
			if n == fs.Loop {
				body, found = x.Body.List, true
			}
			n++
		case *ast.RangeStmt:
			if n == fs.Loop {
				body, found = x.Body.List, true
				for _, e := range []ast.Expr{x.Key, x.Value} {
					if id, ok := e.(*ast.Ident); ok && id.Name != "_" {
						kv = append(kv, id.Name)
					}
				}
			}
			n++
		}
		return true
	})
	if !found {
		panic(unsupported{fmt.Sprintf("%s: loop %d not found", fs.Go, fs.Loop)})
	}
	if fs.Pre {
		var pre []ast.Stmt
		top := false
		for _, st := range fd.Body.List {
			var b *ast.BlockStmt
			switch x := st.(type) {
			case *ast.ForStmt:
				b = x.Body
			case *ast.RangeStmt:
				b = x.Body
			}
			if b != nil && len(b.List) > 0 && len(body) > 0 && b.List[0] == body[0] {
				top = true
				break
			}
			if ds, ok := st.(*ast.DeclStmt); ok {
				arr := false
				for _, sp := range ds.Decl.(*ast.GenDecl).Specs {
					if vs, ok := sp.(*ast.ValueSpec); ok {
						if _, ok := vs.Type.(*ast.ArrayType); ok {
							arr = true
						}
					}
				}
				if arr {
					continue
				}
			}
			pre = append(pre, st)
		}
		if !top {
			panic(unsupported{fs.Go + ": pre requires a top-level loop"})
		}
		body = append(pre, body...)
	}
	if len(fs.Slice) > 0 {
		keep := map[string]bool{}
		for _, n := range fs.Slice {
			keep[n] = true
		}
		body = sliceStmts(body, keep)
	}
	run := func(fin string) (*tr, []string, string) {
		t := &tr{g: g, env: map[string]string{}, extraSet: map[string]bool{}, fn: fs.Go + "#loop", loop: true}
		params := []string{}
		if fd.Recv != nil {
			r := fd.Recv.List[0]
			rt := ""
			switch x := r.Type.(type) {
			case *ast.StarExpr:
				rt = x.X.(*ast.Ident).Name
			case *ast.Ident:
				rt = x.Name
			}
			if _, ok := g.structs[rt]; ok && len(r.Names) > 0 {
				t.recv, t.recvType = r.Names[0].Name, rt
				t.env[t.recv] = rt
				params = append(params, "("+t.recv+" : "+rt+")")
			}
		}
		for n, ty := range fs.Types {
			t.declareTypeName(n, ty)
		}
		for _, p := range fd.Type.Params.List {
			ty := g.leanType(p.Type)
			for _, nm := range p.Names {
				t.declareType(nm.Name, p.Type)
				if ty == "Int" || ty == "Bool" {
					t.env[nm.Name] = ty
					params = append(params, "("+nm.Name+" : "+ty+")")
				}
			}
		}
		for _, nm := range append(append([]string{}, fs.Params...), kv...) {
			if _, dup := t.env[nm]; !dup {
				t.env[nm] = "Int"
				params = append(params, "("+nm+" : Int)")
			}
		}
		for _, st := range body {
			ast.Inspect(st, func(nd ast.Node) bool {
				switch nd.(type) {
				case *ast.BranchStmt, *ast.ForStmt, *ast.RangeStmt:
					t.fail(nd, "continue/break/nested loop in a translated loop body")
				}
				return true
			})
		}
		txt := t.block(body, fin, "  ")
		return t, params, txt
	}
	t1, _, _ := run("()")
	if len(fs.Slice) > 0 {
		t1.stored = append([]string{}, fs.Slice...)
	}
	if len(t1.stored) == 0 {
		panic(unsupported{fs.Go + ": loop body stores to no element"})
	}
	t2, params, txt := run(tupleOf(t1.stored))
	for _, e := range t2.elems {
		params = append(params, "("+e+" : Int)")
	}
	ts := make([]string, len(t1.stored))
	for i := range ts {
		ts[i] = "Int"
	}
	doc := fmt.Sprintf("/-- generated from the body of loop %d of %s (%s); result = stored elements %v -/\n", fs.Loop, fs.Go, g.where(fd.Pos()), t1.stored)
	return doc + "def " + fs.Lean + " " + strings.Join(params, " ") + " : " + strings.Join(ts, " × ") + " :=\n" + txt
}

func (g *gen) translate(fs FuncSpec) string {
	fd, ok := g.funcs[fs.Go]
	if !ok {
		panic(unsupported{fmt.Sprintf("%s: function %s not found in %s", g.unit.Out, fs.Go, g.unit.Dir)})
	}
	if fs.Mode == "loop" {
		return g.translateLoop(fs)
	}
	t := &tr{g: g, env: map[string]string{}, prefix: fs.Mode == "prefix", extraSet: map[string]bool{}, fn: fs.Go}
	params := []string{}
	if fd.Recv != nil {
		r := fd.Recv.List[0]
		if len(r.Names) > 0 {
			t.recv = r.Names[0].Name
		}
		switch rt := r.Type.(type) {
		case *ast.StarExpr:
			t.recvType = rt.X.(*ast.Ident).Name
			t.ptrRecv = writesRecv(fd, t.recv) && !t.prefix
		case *ast.Ident:
			t.recvType = rt.Name
		}
		if _, ok := g.structs[t.recvType]; !ok {
			panic(unsupported{fmt.Sprintf("%s: receiver struct %s not listed", fs.Go, t.recvType)})
		}
		if t.recv != "" {
			t.env[t.recv] = t.recvType
			params = append(params, "("+t.recv+" : "+t.recvType+")")
		}
	}
	for n, ty := range fs.Types {
		t.declareTypeName(n, ty)
	}
	for _, p := range fd.Type.Params.List {
		ty := g.leanType(p.Type)
		for _, n := range p.Names {
			t.declareType(n.Name, p.Type)
			switch ty {
			case "Slice":
				if !t.prefix {
					t.fail(p, "slice parameter outside prefix mode")
				}
				t.env["len_"+n.Name] = "Int"
				params = append(params, "(len_"+n.Name+" : Int)")
			case "", "Error":
				if !t.prefix && !g.unit.OpaqueParams {
					t.fail(p, "parameter %s of unsupported type", n.Name)
				}
				if g.unit.OpaqueParams {
					t.env[n.Name] = "Opaque"
				}
				// opaque parameter: unusable in guards (any use stops the prefix)
			default:
				t.env[n.Name] = ty
				params = append(params, "("+n.Name+" : "+ty+")")
			}
		}
	}
	if fd.Type.Results != nil {
		for _, r := range fd.Type.Results.List {
			if len(r.Names) == 0 {
				t.nResults++
			} else {
				t.nResults += len(r.Names)
			}
		}
	}
	ret := "Unit"
	fin := "()"
	namedInit := ""
	if t.prefix {
		ret, fin = "Bool", "true"
	} else {
		ts := []string{}
		if fd.Type.Results != nil {
			for _, r := range fd.Type.Results.List {
				k := len(r.Names)
				if k == 0 {
					k = 1
				}
				ty := g.leanType(r.Type)
				if ty == "" || ty == "Slice" {
					t.fail(r, "result type")
				}
				for i := 0; i < k; i++ {
					t.resTypes = append(t.resTypes, ty)
					if ty == "Error" {
						ts = append(ts, "Bool")
					} else {
						ts = append(ts, ty)
					}
				}
				for _, n := range r.Names {
					t.env[n.Name] = ty
				}
			}
			fin = "(Go.unreachable)"
		}
		if t.ptrRecv {
			ts = append([]string{t.recvType}, ts...)
			if fd.Type.Results == nil {
				fin = t.recv
			}
		}
		if len(ts) > 0 {
			ret = strings.Join(ts, " × ")
		}
		if fin == "(Go.unreachable)" {
			// a function whose last statement is not a return: give the zero value
			fin = "default"
		}
		// named results: zero-initialised at entry; a bare `return` yields their current values
		if fd.Type.Results != nil {
			named, all := []string{}, true
			for _, r := range fd.Type.Results.List {
				if len(r.Names) == 0 {
					all = false
				}
				for _, n := range r.Names {
					named = append(named, n.Name)
					zero := "(0 : Int)"
					if g.leanType(r.Type) == "Bool" {
						zero = "false"
					}
					namedInit += "  let " + n.Name + " := " + zero + "\n"
				}
			}
			if all && len(named) > 0 {
				if t.ptrRecv {
					named = append([]string{t.recv}, named...)
				}
				fin = tupleOf(named)
			} else {
				namedInit = ""
			}
		}
	}
	body := namedInit + t.block(fd.Body.List, fin, "  ")
	doc := fmt.Sprintf("/-- generated from %s (%s) -/\n", g.where(fd.Pos()), fs.Go)
	return doc + "def " + g.leanName(fs.Go) + " " + strings.Join(params, " ") + " : " + ret + " :=\n" + body
}

func (g *gen) load(repo string) {
	dir := filepath.Join(repo, g.unit.Dir)
	ents, err := os.ReadDir(dir)
	if err != nil {
		panic(unsupported{err.Error()})
	}
	only := map[string]bool{}
	for _, f := range g.unit.Files {
		only[f] = true
	}
	for _, e := range ents {
		n := e.Name()
		if !strings.HasSuffix(n, ".go") || strings.HasSuffix(n, "_test.go") {
			continue
		}
		if len(only) > 0 && !only[n] {
			continue
		}
		f, err := parser.ParseFile(g.fset, filepath.Join(dir, n), nil, parser.ParseComments)
		if err != nil {
			panic(unsupported{err.Error()})
		}
		// skip files guarded by a build tag other than the default build
		skip := false
		for _, cg := range f.Comments {
			if cg.Pos() < f.Package && strings.Contains(cg.Text(), "go:build") {
				skip = true
			}
		}
		if skip {
			continue
		}
		g.files = append(g.files, f)
	}
	listed := map[string]bool{}
	for _, s := range g.unit.Structs {
		listed[s] = true
		g.structs[s] = &structInfo{name: s}
	}
	// foreign structs: parsed from their own files, int/bool fields only
	fnames := []string{}
	for name := range g.unit.ForeignStructs {
		fnames = append(fnames, name)
	}
	sort.Strings(fnames)
	for _, name := range fnames {
		ff, err := parser.ParseFile(g.fset, filepath.Join(repo, g.unit.ForeignStructs[name]), nil, 0)
		if err != nil {
			panic(unsupported{err.Error()})
		}
		si := &structInfo{name: name}
		found := false
		for _, d := range ff.Decls {
			gd, ok := d.(*ast.GenDecl)
			if !ok {
				continue
			}
			for _, sp := range gd.Specs {
				ts, ok := sp.(*ast.TypeSpec)
				if !ok || ts.Name.Name != name {
					continue
				}
				st, ok := ts.Type.(*ast.StructType)
				if !ok {
					continue
				}
				found = true
				for _, fl := range st.Fields.List {
					if id, ok := fl.Type.(*ast.Ident); ok && (intTypes[id.Name] || id.Name == "bool") {
						ty := "Int"
						if id.Name == "bool" {
							ty = "Bool"
						}
						for _, n := range fl.Names {
							si.fields = append(si.fields, fieldInfo{n.Name, ty})
						}
					}
				}
			}
		}
		if !found {
			panic(unsupported{fmt.Sprintf("foreign struct %s not found in %s", name, g.unit.ForeignStructs[name])})
		}
		g.structs[name] = si
		g.unit.Structs = append(g.unit.Structs, name)
	}
	for _, f := range g.files {
		for _, d := range f.Decls {
			switch x := d.(type) {
			case *ast.FuncDecl:
				if x.Body == nil {
					continue
				}
				name := x.Name.Name
				if x.Recv != nil {
					switch rt := x.Recv.List[0].Type.(type) {
					case *ast.StarExpr:
						if id, ok := rt.X.(*ast.Ident); ok {
							name = id.Name + "." + name
						}
					case *ast.Ident:
						name = rt.Name + "." + name
					}
				}
				g.funcs[name] = x
			case *ast.GenDecl:
				for _, sp := range x.Specs {
					switch s := sp.(type) {
					case *ast.TypeSpec:
						if st, ok := s.Type.(*ast.StructType); ok && listed[s.Name.Name] {
							si := g.structs[s.Name.Name]
							for _, fl := range st.Fields.List {
								ty := g.leanType(fl.Type)
								if ty == "" || ty == "Slice" {
									continue
								}
								if _, isPtr := fl.Type.(*ast.StarExpr); isPtr && !(g.unit.PtrFields && listed[ty]) {
									continue
								}
								if ty == "Error" {
									continue
								}
								for _, n := range fl.Names {
									si.fields = append(si.fields, fieldInfo{n.Name, ty})
								}
							}
						}
					case *ast.ValueSpec:
						for i, n := range s.Names {
							if x.Tok == token.CONST {
								if i < len(s.Values) {
									g.consts[n.Name] = s.Values[i]
								}
							} else if i < len(s.Values) {
								g.vars[n.Name] = s.Values[i]
							}
						}
					}
				}
			}
		}
	}
}

func (g *gen) table(name string) string {
	e, ok := g.vars[name]
	if !ok {
		panic(unsupported{fmt.Sprintf("table %s not found in %s", name, g.unit.Dir)})
	}
	cl, ok := e.(*ast.CompositeLit)
	if !ok {
		panic(unsupported{fmt.Sprintf("table %s is not a composite literal", name)})
	}
	t := &tr{g: g, env: map[string]string{}, fn: name}
	var flat func(cl *ast.CompositeLit) []string
	flat = func(cl *ast.CompositeLit) []string {
		out := []string{}
		for _, el := range cl.Elts {
			switch v := el.(type) {
			case *ast.CompositeLit:
				out = append(out, "#["+strings.Join(flat(v), ", ")+"]")
			case *ast.KeyValueExpr:
				panic(unsupported{fmt.Sprintf("table %s: keyed element", name)})
			default:
				out = append(out, t.expr(v))
			}
		}
		return out
	}
	els := flat(cl)
	ty := "Array Int"
	if len(cl.Elts) > 0 {
		if _, ok := cl.Elts[0].(*ast.CompositeLit); ok {
			ty = "Array (Array Int)"
		}
	}
	var b strings.Builder
	fmt.Fprintf(&b, "/-- generated from %s -/\ndef %s : %s := #[", g.where(e.Pos()), name, ty)
	for i, s := range els {
		if i > 0 {
			b.WriteString(", ")
		}
		if i%16 == 0 {
			b.WriteString("\n  ")
		}
		b.WriteString(s)
	}
	b.WriteString("]\n")
	return b.String()
}

func (g *gen) emit() string {
	var b strings.Builder
	b.WriteString("-- GENERATED by verif/go/cmd/go2lean from " + g.unit.Dir + " — do not edit; regenerated on every check run\n")
	b.WriteString("import GdcVerif.GoPrelude\n")
	for _, im := range g.unit.Imports {
		b.WriteString("import " + im + "\n")
	}
	b.WriteString("set_option linter.unusedVariables false\n")
	b.WriteString("namespace " + g.unit.Namespace + "\n\n")
	var body strings.Builder
	for _, sn := range g.unit.Structs {
		si := g.structs[sn]
		body.WriteString("structure " + sn + " where\n")
		if len(si.fields) == 0 {
			panic(unsupported{"struct " + sn + " has no int/bool fields (or was not found)"})
		}
		for _, f := range si.fields {
			body.WriteString("  " + f.name + " : " + f.typ + "\n")
		}
		body.WriteString("deriving Repr, DecidableEq, Inhabited\n\n")
	}
	for _, tn := range g.unit.Tables {
		body.WriteString(g.table(tn) + "\n")
	}
	// order functions so callees come first
	order := []string{}
	state := map[string]int{}
	var visit func(n string)
	visit = func(n string) {
		if state[n] != 0 {
			return
		}
		state[n] = 1
		if fd, ok := g.funcs[n]; ok {
			ast.Inspect(fd.Body, func(nd ast.Node) bool {
				if c, ok := nd.(*ast.CallExpr); ok {
					switch f := c.Fun.(type) {
					case *ast.Ident:
						if _, ok := g.want[f.Name]; ok {
							visit(f.Name)
						}
					case *ast.SelectorExpr:
						for k := range g.want {
							if strings.HasSuffix(k, "."+f.Sel.Name) {
								visit(k)
							}
						}
					}
				}
				return true
			})
		}
		state[n] = 2
		order = append(order, n)
	}
	for _, f := range g.unit.Funcs {
		if f.Mode != "loop" && f.Mode != "assign" {
			visit(f.Go)
		}
	}
	// one function that cannot be translated does not take the unit's other definitions down: it is left out
	// (with a comment), so exactly the Lean files that use it stop building
	guarded := func(name string, f func() string) string {
		var out string
		func() {
			defer func() {
				if r := recover(); r != nil {
					if us, ok := r.(unsupported); ok {
						g.skipped = append(g.skipped, name+": "+us.msg)
						g.pending = nil
						out = "-- UNTRANSLATED " + name + ": " + strings.ReplaceAll(us.msg, "\n", " ") + "\n"
						return
					}
					panic(r)
				}
			}()
			body := f()
			out = strings.Join(g.pending, "\n") + body
			if len(g.pending) > 0 {
				out = strings.Join(g.pending, "\n") + "\n" + body
			}
			g.pending = nil
		}()
		return out
	}
	fb := strings.Builder{}
	for _, n := range order {
		n := n
		fb.WriteString(guarded(n, func() string { return g.translate(g.want[n]) }) + "\n")
	}
	for _, f := range g.unit.Funcs {
		f := f
		if f.Mode == "assign" {
			fb.WriteString(guarded(f.Lean, func() string {
				if _, ok := g.funcs[f.Go]; !ok || f.Lean == "" || f.Target == "" {
					panic(unsupported{fmt.Sprintf("%s: assign spec %s needs an existing function, a lean name and a target", g.unit.Out, f.Go)})
				}
				return g.translateAssign(f)
			}) + "\n")
		}
		if f.Mode == "loop" {
			fb.WriteString(guarded(f.Lean, func() string {
				if _, ok := g.funcs[f.Go]; !ok || f.Lean == "" {
					panic(unsupported{fmt.Sprintf("%s: loop spec %s needs an existing function and a lean name", g.unit.Out, f.Go)})
				}
				return g.translateLoop(f)
			}) + "\n")
		}
	}
	// constants: explicitly requested + referenced
	for _, c := range g.unit.Consts {
		g.usedConsts[c] = true
	}
	// consts may reference other consts; iterate to a fixpoint
	cb := map[string]string{}
	for changed := true; changed; {
		changed = false
		names := []string{}
		for c := range g.usedConsts {
			names = append(names, c)
		}
		sort.Strings(names)
		for _, c := range names {
			if _, done := cb[c]; done {
				continue
			}
			e, ok := g.consts[c]
			if !ok {
				panic(unsupported{"constant " + c + " not found"})
			}
			t := &tr{g: g, env: map[string]string{}, fn: c}
			cb[c] = t.expr(e)
			changed = true
		}
	}
	// emit constants in dependency order (simple: repeated passes)
	emitted := map[string]bool{}
	names := []string{}
	for c := range cb {
		names = append(names, c)
	}
	sort.Strings(names)
	for len(emitted) < len(names) {
		progress := false
		for _, c := range names {
			if emitted[c] {
				continue
			}
			ready := true
			for _, d := range names {
				if d != c && !emitted[d] && containsIdent(cb[c], d) {
					ready = false
				}
			}
			if ready {
				body.WriteString("def " + c + " : Int := " + cb[c] + "\n")
				emitted[c] = true
				progress = true
			}
		}
		if !progress {
			panic(unsupported{"cyclic constants"})
		}
	}
	body.WriteString("\n")
	b.WriteString(body.String())
	b.WriteString(fb.String())
	b.WriteString("end " + g.unit.Namespace + "\n")
	return b.String()
}

func containsIdent(s, id string) bool {
	for i := 0; i+len(id) <= len(s); i++ {
		if s[i:i+len(id)] == id {
			before := i == 0 || !isIdentChar(s[i-1])
			after := i+len(id) == len(s) || !isIdentChar(s[i+len(id)])
			if before && after {
				return true
			}
		}
	}
	return false
}
func isIdentChar(c byte) bool {
	return c == '_' || c == '.' || (c >= '0' && c <= '9') || (c >= 'a' && c <= 'z') || (c >= 'A' && c <= 'Z')
}

func main() {
	repo := flag.String("repo", "/repo", "repository root")
	specPath := flag.String("spec", "", "spec json")
	out := flag.String("out", "", "output directory")
	flag.Parse()
	raw, err := os.ReadFile(*specPath)
	if err != nil {
		fmt.Fprintln(os.Stderr, err)
		os.Exit(2)
	}
	var spec Spec
	if err := json.Unmarshal(raw, &spec); err != nil {
		fmt.Fprintln(os.Stderr, "spec:", err)
		os.Exit(2)
	}
	_ = os.MkdirAll(*out, 0o755)
	failed := false
	for i := range spec.Units {
		u := &spec.Units[i]
		func() {
			defer func() {
				if r := recover(); r != nil {
					if us, ok := r.(unsupported); ok {
						fmt.Fprintf(os.Stderr, "go2lean: %s: %s\n", u.Out, us.msg)
						failed = true
						return
					}
					panic(r)
				}
			}()
			g := &gen{fset: token.NewFileSet(), unit: u, structs: map[string]*structInfo{}, funcs: map[string]*ast.FuncDecl{},
				consts: map[string]ast.Expr{}, vars: map[string]ast.Expr{}, want: map[string]FuncSpec{}, usedConsts: map[string]bool{}, repo: *repo}
			for _, f := range u.Funcs {
				if f.Mode != "loop" && f.Mode != "assign" {
					g.want[f.Go] = f
				}
			}
			g.load(*repo)
			txt := g.emit()
			if err := os.WriteFile(filepath.Join(*out, u.Out+".lean"), []byte(txt), 0o644); err != nil {
				panic(err)
			}
			fmt.Printf("go2lean: %s: %d structs, %d functions, %d tables\n", u.Out, len(u.Structs), len(u.Funcs), len(u.Tables))
			for _, n := range g.followed {
				fmt.Printf("go2lean-followed: %s: %s (called from a translated function, not listed)\n", u.Out, n)
			}
			for _, m := range g.skipped {
				fmt.Printf("go2lean-skipped: %s: %s\n", u.Out, m)
			}
		}()
	}
	if failed {
		os.Exit(1)
	}
}
