//go:build !c16pieces

package main

import "verifharness/internal/hx"

// c16Pieces needs the proposed hook jpeg2000.VerifTilePacketsC16 (hooks/jpeg2000/verif_hooks_c16.go). Until that hook is
// committed to /repo the harness is built without the `c16pieces` tag and this stub only records that the op was skipped.
func c16Pieces(c *hx.Ctx, cases []*c16Case, results []*c16Result) {
	c.Notes = append(c.Notes, "c16-j2k-pieces skipped: built without tag c16pieces (hook jpeg2000.VerifTilePacketsC16 not in /repo yet)")
}
