package main

// C07 — JPEG-LS near-lossless: every decoded sample is within NEAR of the source sample and in
// [0, MAXVAL]; the decoder reports the requested NEAR and the geometry; NEAR=0 is exact.

import (
	"fmt"

	"verifharness/internal/hx"
)

func init() { register("C07", c07Run) }

func c07Check(c *hx.Ctx, im jlsImage, near int) bool {
	c.Eval(fmt.Sprintf("near%d %s", near, im.key()), len(im.S) > 1 && im.Kind != "constant")
	c.Count(fmt.Sprintf("P=%d", im.P))
	c.Count("kind=" + im.Kind)
	c.Count(fmt.Sprintf("comps=%d", im.C))
	mv := im.maxVal()
	switch {
	case near == 0:
		c.Count("NEAR=0")
	case near <= 3:
		c.Count(fmt.Sprintf("NEAR=%d", near))
	case near == min(255, mv/2):
		c.Count("NEAR=max")
	default:
		c.Count("NEAR=other")
	}
	in := im.input()
	in["near"] = near
	enc, oc := jlsEncNear(im, near)
	if oc != "ok" {
		c.Fail(hx.Failure{Class: "jls-near-encode-" + jlsOc(oc), What: "nearlossless.Encode rejects or panics on an admissible input: " + oc, Input: in, Expected: "ok"})
		return false
	}
	dec, oc2 := jlsDecNear(enc)
	if oc2 != "ok" {
		c.Fail(hx.Failure{Class: "jls-near-decode-" + jlsOc(oc2), What: "nearlossless.Decode fails on the encoder's own stream: " + oc2, Input: in, Expected: "ok"})
		return false
	}
	if !jlsSameGeom(im, dec) {
		c.Fail(hx.Failure{Class: "jls-near-geometry", What: "decoded geometry differs", Input: in,
			Expected: fmt.Sprintf("%dx%dx%d p%d", im.W, im.H, im.C, im.P), Actual: fmt.Sprintf("%dx%dx%d p%d n=%d", dec.W, dec.H, dec.C, dec.P, len(dec.S))})
		return false
	}
	if dec.N != near {
		c.Fail(hx.Failure{Class: "jls-near-reported-near", What: "decoder reports a different NEAR", Input: in, Expected: fmt.Sprint(near), Actual: fmt.Sprint(dec.N)})
		return false
	}
	for i, v := range dec.S {
		d := v - im.S[i]
		if d < 0 {
			d = -d
		}
		if d > near || v < 0 || v > mv {
			cls := "jls-near-bound-exceeded"
			if near == 0 {
				cls = "jls-near0-not-exact"
			}
			c.Fail(hx.Failure{Class: cls, What: fmt.Sprintf("sample %d: source %d decoded %d, |diff| %d > NEAR %d (or outside [0,%d])", i, im.S[i], v, d, near, mv),
				Input: in, Expected: "within NEAR", Actual: jlsInts(dec.S, 64)})
			return false
		}
	}
	return true
}

func c07Run(c *hx.Ctx) {
	c.Rule = "non-trivial: more than one sample and not a constant image; distinct by (NEAR, geometry, precision, samples)"
	r := c.R
	n := 300
	if c.Thorough() {
		n = 3000
	}
	jlsKernels(c, n)
	jlsRunSegments(c, 2*n)
	jlsScans(c, n/2)

	// every NEAR value is visited (at the smallest precision that admits it and at a random larger one)
	for near := 0; near <= 255; near++ {
		pmin := 2
		for (1<<uint(pmin)-1)/2 < near {
			pmin++
		}
		for _, p := range []int{pmin, r.Range(pmin, 16)} {
			for _, kind := range []string{"noise", "near-edges", "ramp"} {
				c07Check(c, jlsGen(r, kind, r.Range(1, 12), r.Range(1, 12), r.Pick([]int{1, 1, 3}), p, near), near)
			}
		}
	}
	// emphasis: NEAR in {1,2,3,max} x every precision x components x content classes
	reps := 1
	maxSide := 20
	if c.Thorough() {
		reps, maxSide = 6, 64
	}
	for p := 2; p <= 16; p++ {
		mv := (1 << uint(p)) - 1
		mx := min(255, mv/2)
		nears := map[int]bool{0: true, mx: true}
		for _, k := range []int{1, 2, 3} {
			if k <= mx {
				nears[k] = true
			}
		}
		for near := range nears {
			for _, comps := range []int{1, 3} {
				for _, kind := range jlsKinds {
					for i := 0; i < reps; i++ {
						w, h := r.Range(1, maxSide), r.Range(1, maxSide)
						if r.Intn(6) == 0 {
							w = 1
						}
						c07Check(c, jlsGen(r, kind, w, h, comps, p, near), near)
					}
				}
			}
		}
	}
	// run-then-jump family, NEAR 0, 1, 2, 3 and max
	jlsRunJumpImages(r, c.Thorough(), func(p int) []int {
		mx := min(255, ((1<<uint(p))-1)/2)
		l := []int{0, min(1, mx), min(2, mx)}
		if c.Thorough() {
			l = append(l, min(3, mx), mx)
		}
		return l
	}, func(im jlsImage, near int) {
		if c07Check(c, im, near) {
			if enc, oc := jlsEncNear(im, near); oc == "ok" {
				if _, st, err := c14Decode(enc); err == nil {
					jlsRunCounters(c, st)
				}
			}
		}
	})
	jlsRunCoverageNote(c)
	// small exhaustive part: all 1x1..2x2 images at P=2 for NEAR 0 and 1, all 1x3 / 3x1
	for _, near := range []int{0, 1} {
		for w := 1; w <= 3; w++ {
			for h := 1; h <= 3; h++ {
				if w*h > 4 && !c.Thorough() {
					continue
				}
				tot := 1 << uint(2*w*h)
				for code := 0; code < tot; code++ {
					s := make([]int, w*h)
					for i := range s {
						s[i] = (code >> uint(2*i)) & 3
					}
					c07Check(c, jlsImage{W: w, H: h, C: 1, P: 2, S: s, Kind: "exh-p2"}, near)
				}
			}
		}
	}
	for _, pn := range [][2]int{{8, 3}, {12, 2}, {16, 255}, {8, 127}} {
		c07Check(c, jlsGen(r, "smooth", 200, 120, 1, pn[0], pn[1]), pn[1])
		c07Check(c, jlsGen(r, "runs", 160, 90, 3, pn[0], pn[1]), pn[1])
	}
	if c.Thorough() {
		for _, pn := range [][2]int{{8, 1}, {8, 2}, {12, 3}, {16, 1}, {10, 255}} {
			c07Check(c, jlsGen(r, "noise", 512, 512, 1, pn[0], pn[1]), pn[1])
			c07Check(c, jlsGen(r, "ramp", 512, 512, 3, pn[0], pn[1]), pn[1])
		}
	}
}
