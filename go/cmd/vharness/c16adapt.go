package main

// C16 at the DICOM adapter level: every registered codec encodes frames whose BitsStored is BELOW BitsAllocated
// (7-in-8, 12-in-16, …) and the frame it emits must declare, in its own header, the geometry and the sample
// precision of the FrameInfo (precision = BitsStored for the lossless / near-lossless / JPEG 2000 families, BitsAllocated
// for HTJ2K, which codes the whole container; the DCT processes fix 8 or 12). The low-level families in c16.go always pass depth = container width.

import (
	"fmt"

	"verifharness/internal/hx"

	dcodec "github.com/cocosip/go-dicom/pkg/imaging/codec"
)

func init() { registerExtra("C16", "lead-adapter-precision", c16AdapterPrecision) }

func c16AdapterPrecision(c *hx.Ctx) {
	reg := dcodec.GetGlobalRegistry()
	layouts := [][2]int{{8, 8}, {8, 7}, {8, 5}, {8, 2}, {16, 16}, {16, 15}, {16, 12}, {16, 10}, {16, 9}}
	for _, sy := range c10Syntaxes() {
		cd, ok := reg.GetCodec(sy.TS)
		if !ok {
			continue
		}
		for _, l := range layouts {
			for _, spp := range []int{1, 3} {
				i := c10Info{W: 9 + l[1], H: 6, SPP: spp, BA: l[0], BS: l[1]}
				f := c10Frame(c.R, i, l[1]%6)
				out, oc := c10Run(cd, true, i, [][]byte{f}, nil)
				key := fmt.Sprintf("adapter-precision|%s|%d/%d|%d", sy.Name, l[0], l[1], spp)
				c.Eval(key, oc == "ok")
				c.Count("adapter-precision:" + oc)
				if oc != "ok" || len(out) != 1 {
					continue // rejecting a layout is C17's business
				}
				in := map[string]any{"ts": sy.Name, "info": i.String(), "stream_head": c16Head(out[0]), "seed": c.Seed}
				wantP := i.BS
				switch sy.Kind {
				case "baseline":
					wantP = 8
				case "extended":
					wantP = 8
					if i.BS > 8 {
						wantP = 12
					}
				case "htj2k":
					// the HTJ2K adapters code the whole container (so that C06's byte-exact round trip also covers
					// bits above BitsStored): what they give to the encoder, and declare, is BitsAllocated
					wantP = i.BA
				}
				if sy.Name == "jls81" && 3 > ((1<<uint(i.BS))-1)/2 {
					// the registered near-lossless codec's default NEAR=3 above MAXVAL/2: C17's known class
					// jpegls-near-exceeds-maxval-half (an unrepresentable ARGUMENT, not a container defect)
					c.Count("adapter-precision:near-default-over-bound-skipped")
					continue
				}
				var gotP, gotW, gotH, gotC int
				switch sy.Kind {
				case "rle":
					continue // the RLE header carries no geometry; its plane count is checked by C01/C16 main
				case "j2k", "htj2k":
					j, e := c16ParseJ2K(out[0])
					if e != nil {
						c.Fail(hx.Failure{Class: "c16-adapter-stream-malformed-" + sy.Kind, What: "adapter output does not parse strictly: " + e.Kind + " " + e.Detail, Input: in})
						continue
					}
					gotW, gotH, gotC = j.Xsiz-j.XOsiz, j.Ysiz-j.YOsiz, j.Csiz
					if len(j.Ssiz) > 0 {
						gotP = j.Ssiz[0]&0x7f + 1
					}
				default:
					j, e := c16ParseJPEG(out[0])
					if e != nil {
						c.Fail(hx.Failure{Class: "c16-adapter-stream-malformed-" + sy.Kind, What: "adapter output does not parse strictly: " + e.Kind + " " + e.Detail, Input: in})
						continue
					}
					gotW, gotH, gotC, gotP = j.X, j.Y, len(j.Comps), j.P
				}
				if gotW != i.W || gotH != i.H || gotC != i.SPP {
					c.Fail(hx.Failure{Class: "c16-adapter-geometry-" + sy.Name, What: "frame header declares another geometry than the FrameInfo",
						Input: in, Expected: fmt.Sprintf("%dx%dx%d", i.W, i.H, i.SPP), Actual: fmt.Sprintf("%dx%dx%d", gotW, gotH, gotC)})
					continue
				}
				if gotP != wantP {
					c.Fail(hx.Failure{Class: "c16-adapter-precision-" + sy.Name, What: "frame header declares another sample precision than the FrameInfo's BitsStored",
						Input: in, Expected: fmt.Sprint(wantP), Actual: fmt.Sprint(gotP)})
				}
			}
		}
	}
}
